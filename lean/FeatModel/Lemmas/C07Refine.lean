import FeatModel.Model.Solver.Session
import FeatModel.Lemmas.C07Control
/-! Helper lemmas for C07: every solver loop is a *control run* — its returned status/state pair is what
    `_set_new_defect` produces when fed, one after the other, the defect norms the loop computed (no linear-algebra
    law needed).  Everything proved about `feed`/`runControl` therefore holds for every solver kind. -/
namespace FeatModel.Solver
set_option linter.unusedSectionVars false

variable {V α : Type} [Add α] [Mul α] [Div α] [Neg α] [Zero α] [One α] [LE α] [LT α] [DecidableEq α] [DecidableLE α]
  [DecidableLT α]

/-- `res` is reached from control state `st` by feeding a non-empty list of finite defects to `_set_new_defect` -/
def IsCtlRun (c : Config α) (st : State α) (res : Result V α) : Prop :=
  ∀ tr : List α, ∃ ds : List (Bool × α),
    (feed c false .progress st tr ds).1.getLast? = some res.status ∧ (feed c false .progress st tr ds).2.1 = res.st

theorem ctlRun_last (c : Config α) (st st' : State α) (d : α) (status : Status) (res : Result V α)
    (hsn : setNewDefect c st true d = (status, st')) (h1 : res.status = status) (h2 : res.st = st') :
    IsCtlRun c st res := by
  intro tr
  refine ⟨[(true, d)], ?_⟩
  rw [feed_cons]
  simp only [ne_eq, not_true_eq_false, ↓reduceIte, ctlStep, Bool.false_eq_true, hsn, feed,
    List.getLast?_singleton, h1, h2, and_self]

theorem ctlRun_step (c : Config α) (st st' : State α) (d : α) (res : Result V α)
    (hsn : setNewDefect c st true d = (.progress, st')) (h : IsCtlRun c st' res) : IsCtlRun c st res := by
  intro tr
  obtain ⟨ds, hl, hs⟩ := h (st'.defCur :: tr)
  refine ⟨(true, d) :: ds, ?_⟩
  rw [feed_cons]
  simp only [ne_eq, not_true_eq_false, ↓reduceIte, ctlStep, Bool.false_eq_true, hsn]
  refine ⟨?_, hs⟩
  cases hrest : (feed c false .progress st' (st'.defCur :: tr) ds).1 with
  | nil => rw [hrest] at hl; simp at hl
  | cons b l => rw [hrest] at hl; simpa [List.getLast?_cons_cons] using hl

theorem pcgLoop_ctl (S : Sys V α) (c : Config α) :
    ∀ (fuel : Nat) (x r p : V) (gamma : α) (st : State α) (calls : Nat) (hist : List α) (res : Result V α),
      pcgLoop S c fuel x r p gamma st calls hist = some res → res.status ≠ .aborted →
      st.numIter ≤ max c.minIter c.maxIter → max c.minIter c.maxIter + 1 ≤ fuel + st.numIter → IsCtlRun c st res := by
  intro fuel
  induction fuel with
  | zero =>
    intro x r p gamma st calls hist res h _ h1 h2
    omega
  | succ fuel ih =>
    intro x r p gamma st calls hist res h hna h1 h2
    simp only [pcgLoop] at h
    split at h
    · exact absurd h (by simp)
    · generalize hsn : setNewDefect c st true _ = sn at h
      obtain ⟨status, st'⟩ := sn
      simp only at h
      split at h
      · simp only [Option.some.injEq] at h; subst h
        exact ctlRun_last c st st' _ status _ hsn rfl rfl
      · rename_i hne
        have hp : status = .progress := by simpa using hne
        subst hp
        have hf := setNew_frame c st st' true _ _ hsn
        have hb := setNew_progress_bound c st st' true _ hsn
        split at h
        · simp only [Option.some.injEq] at h; subst h; exact absurd rfl hna
        · split at h
          · exact absurd h (by simp)
          · exact ctlRun_step c st st' _ res hsn (ih _ _ _ _ st' _ _ res h hna (by omega) (by omega))

theorem richLoop_ctl (S : Sys V α) (c : Config α) (omega : α) (b : V) :
    ∀ (fuel : Nat) (x df : V) (st : State α) (calls : Nat) (hist : List α) (res : Result V α),
      richLoop S c omega b fuel x df st calls hist = some res → res.status ≠ .aborted →
      st.numIter ≤ max c.minIter c.maxIter → max c.minIter c.maxIter + 1 ≤ fuel + st.numIter → IsCtlRun c st res := by
  intro fuel
  induction fuel with
  | zero =>
    intro x df st calls hist res h _ h1 h2
    omega
  | succ fuel ih =>
    intro x df st calls hist res h hna h1 h2
    simp only [richLoop] at h
    split at h
    · simp only [Option.some.injEq] at h; subst h; exact absurd rfl hna
    · generalize hsn : setNewDefect c st true _ = sn at h
      obtain ⟨status, st'⟩ := sn
      simp only at h
      split at h
      · simp only [Option.some.injEq] at h; subst h
        exact ctlRun_last c st st' _ status _ hsn rfl rfl
      · rename_i hne
        have hp : status = .progress := by simpa using hne
        subst hp
        have hf := setNew_frame c st st' true _ _ hsn
        have hb := setNew_progress_bound c st st' true _ hsn
        exact ctlRun_step c st st' _ res hsn (ih _ _ st' _ _ res h hna (by omega) (by omega))

theorem pcrLoop_ctl (S : Sys V α) (c : Config α) :
    ∀ (fuel : Nat) (x r s p q : V) (gamma : α) (st : State α) (calls : Nat) (hist : List α) (res : Result V α),
      pcrLoop S c fuel x r s p q gamma st calls hist = some res → res.status ≠ .aborted →
      st.numIter ≤ max c.minIter c.maxIter → max c.minIter c.maxIter + 1 ≤ fuel + st.numIter → IsCtlRun c st res := by
  intro fuel
  induction fuel with
  | zero =>
    intro x r s p q gamma st calls hist res h _ h1 h2
    omega
  | succ fuel ih =>
    intro x r s p q gamma st calls hist res h hna h1 h2
    simp only [pcrLoop] at h
    split at h
    · simp only [Option.some.injEq] at h; subst h; exact absurd rfl hna
    · split at h
      · exact absurd h (by simp)
      · generalize hsn : setNewDefect c st true _ = sn at h
        obtain ⟨status, st'⟩ := sn
        simp only at h
        split at h
        · simp only [Option.some.injEq] at h; subst h
          exact ctlRun_last c st st' _ status _ hsn rfl rfl
        · rename_i hne
          have hp : status = .progress := by simpa using hne
          subst hp
          have hf := setNew_frame c st st' true _ _ hsn
          have hb := setNew_progress_bound c st st' true _ hsn
          split at h
          · exact absurd h (by simp)
          · exact ctlRun_step c st st' _ res hsn (ih _ _ _ _ _ _ st' _ _ res h hna (by omega) (by omega))

theorem pmrLoop_ctl (S : Sys V α) (c : Config α) :
    ∀ (fuel : Nat) (x r s : V) (st : State α) (calls : Nat) (hist : List α) (res : Result V α),
      pmrLoop S c fuel x r s st calls hist = some res → res.status ≠ .aborted →
      st.numIter ≤ max c.minIter c.maxIter → max c.minIter c.maxIter + 1 ≤ fuel + st.numIter → IsCtlRun c st res := by
  intro fuel
  induction fuel with
  | zero =>
    intro x r s st calls hist res h _ h1 h2
    omega
  | succ fuel ih =>
    intro x r s st calls hist res h hna h1 h2
    simp only [pmrLoop] at h
    split at h
    · simp only [Option.some.injEq] at h; subst h; exact absurd rfl hna
    · split at h
      · exact absurd h (by simp)
      · generalize hsn : setNewDefect c st true _ = sn at h
        obtain ⟨status, st'⟩ := sn
        simp only at h
        split at h
        · simp only [Option.some.injEq] at h; subst h
          exact ctlRun_last c st st' _ status _ hsn rfl rfl
        · rename_i hne
          have hp : status = .progress := by simpa using hne
          subst hp
          have hf := setNew_frame c st st' true _ _ hsn
          have hb := setNew_progress_bound c st st' true _ hsn
          exact ctlRun_step c st st' _ res hsn (ih _ _ _ st' _ _ res h hna (by omega) (by omega))

theorem pcgnrLoop_ctl (S : Sys V α) (c : Config α) :
    ∀ (fuel : Nat) (x r p q : V) (gamma : α) (st : State α) (calls : Nat) (hist : List α) (res : Result V α),
      pcgnrLoop S c fuel x r p q gamma st calls hist = some res → res.status ≠ .aborted →
      st.numIter ≤ max c.minIter c.maxIter → max c.minIter c.maxIter + 1 ≤ fuel + st.numIter → IsCtlRun c st res := by
  intro fuel
  induction fuel with
  | zero =>
    intro x r p q gamma st calls hist res h _ h1 h2
    omega
  | succ fuel ih =>
    intro x r p q gamma st calls hist res h hna h1 h2
    simp only [pcgnrLoop] at h
    split at h
    · simp only [Option.some.injEq] at h; subst h; exact absurd rfl hna
    · split at h
      · exact absurd h (by simp)
      · generalize hsn : setNewDefect c st true _ = sn at h
        obtain ⟨status, st'⟩ := sn
        simp only at h
        split at h
        · simp only [Option.some.injEq] at h; subst h
          exact ctlRun_last c st st' _ status _ hsn rfl rfl
        · rename_i hne
          have hp : status = .progress := by simpa using hne
          subst hp
          have hf := setNew_frame c st st' true _ _ hsn
          have hb := setNew_progress_bound c st st' true _ hsn
          split at h
          · simp only [Option.some.injEq] at h; subst h; exact absurd rfl hna
          · split at h
            · exact absurd h (by simp)
            · exact ctlRun_step c st st' _ res hsn (ih _ _ _ _ _ st' _ _ res h hna (by omega) (by omega))

theorem chebLoop_ctl (S : Sys V α) (c : Config α) (d cc : α) (b : V) :
    ∀ (fuel : Nat) (x df cor : V) (alpha : α) (st : State α) (hist : List α) (res : Result V α),
      chebLoop S c d cc b fuel x df cor alpha st hist = some res → res.status ≠ .aborted →
      st.numIter ≤ max c.minIter c.maxIter → max c.minIter c.maxIter + 1 ≤ fuel + st.numIter → IsCtlRun c st res := by
  intro fuel
  induction fuel with
  | zero =>
    intro x df cor alpha st hist res h _ h1 h2
    omega
  | succ fuel ih =>
    intro x df cor alpha st hist res h hna h1 h2
    simp only [chebLoop] at h
    split at h
    · exact absurd h (by simp)
    · generalize hsn : setNewDefect c st true _ = sn at h
      obtain ⟨status, st'⟩ := sn
      simp only at h
      split at h
      · simp only [Option.some.injEq] at h; subst h
        exact ctlRun_last c st st' _ status _ hsn rfl rfl
      · rename_i hne
        have hp : status = .progress := by simpa using hne
        subst hp
        have hf := setNew_frame c st st' true _ _ hsn
        have hb := setNew_progress_bound c st st' true _ hsn
        exact ctlRun_step c st st' _ res hsn (ih _ _ _ _ st' _ res h hna (by omega) (by omega))

/-- BiCGStab's direct half-step test (not a `_set_new_defect` call): control facts of such a return -/
def HalfCtl (c : Config α) (res : Result V α) : Prop :=
  0 < res.st.numIter ∧
    ((res.status = .success ∧ Converged c res.st.defInit res.st.defCur ∧ ¬ Diverged c res.st.defInit res.st.defCur ∧
        c.minIter ≤ res.st.numIter) ∨
     (res.status = .diverged ∧ Diverged c res.st.defInit res.st.defCur))

theorem bicgLoop_ctl (S : Sys V α) (c : Config α) (rh0 : V) :
    ∀ (fuel : Nat) (x r rt pt : V) (rho : α) (st : State α) (calls : Nat) (hist : List α) (res : Result V α),
      bicgLoop S c rh0 fuel x r rt pt rho st calls hist = some res → res.status ≠ .aborted →
      st.numIter ≤ max c.minIter c.maxIter → max c.minIter c.maxIter + 1 ≤ fuel + st.numIter →
      (∃ st1 : State α, st1.defInit = st.defInit ∧ (st1 = st ∨ IsCtlRun c st ⟨.progress, res.x, st1, []⟩) ∧
          res.st = { st1 with defCur := res.st.defCur, numIter := st1.numIter + 1, defPrev := st1.defCur } ∧
          HalfCtl c res) ∨
        IsCtlRun c st res := by
  intro fuel
  induction fuel with
  | zero =>
    intro x r rt pt rho st calls hist res h _ h1 h2
    omega
  | succ fuel ih =>
    intro x r rt pt rho st calls hist res h hna h1 h2
    simp only [bicgLoop] at h
    split at h
    · simp only [Option.some.injEq] at h; subst h; exact absurd rfl hna
    · split at h
      · exact absurd h (by simp)
      · split at h
        · rename_i hdiv
          simp only [Option.some.injEq] at h; subst h
          exact Or.inl ⟨st, rfl, Or.inl rfl, rfl, by simp only; omega,
            Or.inr ⟨rfl, (isDiverged_iff c _ _).1 hdiv⟩⟩
        · rename_i hdiv
          split at h
          · rename_i hconv
            simp only [Option.some.injEq] at h; subst h
            simp only [Bool.and_eq_true, decide_eq_true_eq] at hconv
            exact Or.inl ⟨st, rfl, Or.inl rfl, rfl, by simp only; omega,
              Or.inl ⟨rfl, (isConverged_iff c _ _).1 hconv.2, fun hd => hdiv ((isDiverged_iff c _ _).2 hd),
                hconv.1⟩⟩
          · split at h
            · simp only [Option.some.injEq] at h; subst h; exact absurd rfl hna
            · split at h
              · exact absurd h (by simp)
              · generalize hsn : setNewDefect c st true _ = sn at h
                obtain ⟨status, st'⟩ := sn
                simp only at h
                split at h
                · simp only [Option.some.injEq] at h; subst h
                  exact Or.inr (ctlRun_last c st st' _ status _ hsn rfl rfl)
                · rename_i hne
                  have hp : status = .progress := by simpa using hne
                  subst hp
                  have hb := setNew_progress_bound c st st' true _ hsn
                  split at h
                  · exact absurd h (by simp)
                  · have hf := setNew_frame c st st' true _ _ hsn
                    rcases ih _ _ _ _ _ st' _ _ res h hna (by omega) (by omega) with ⟨st1, h1, h2, h3, h4⟩ | hrun
                    · refine Or.inl ⟨st1, by rw [h1, hf.2.1], Or.inr ?_, h3, h4⟩
                      rcases h2 with e | hrun
                      · subst e
                        exact ctlRun_last c st st1 _ .progress _ hsn rfl rfl
                      · exact ctlRun_step c st st' _ _ hsn hrun
                    · exact Or.inr (ctlRun_step c st st' _ res hsn hrun)

/-- a complete control run (`_set_initial_defect`, then `_set_new_defect` per defect) from the state `prev` of the
    solver object ends with status `status` in state `st` -/
def IsRun (c : Config α) (prev : State α) (status : Status) (st : State α) : Prop :=
  ∃ (ds : List (Bool × α)) (sts : List Status) (tr : List α),
    runControl c false prev ds = (sts, some (st, tr)) ∧ sts.getLast? = some status

theorem isRun_initial (c : Config α) (prev st : State α) (d0 : α) (status : Status)
    (hsi : setInitialDefect c prev true d0 = (status, st)) : IsRun c prev status st := by
  refine ⟨[(true, d0)], [status], [st.defCur], ?_, rfl⟩
  simp only [runControl, hsi, feed]

theorem isRun_of_ctlRun (c : Config α) (prev st : State α) (d0 : α) (res : Result V α)
    (hsi : setInitialDefect c prev true d0 = (.progress, st)) (h : IsCtlRun c st res) :
    IsRun c prev res.status res.st := by
  obtain ⟨ds, hl, hs⟩ := h [st.defCur]
  refine ⟨(true, d0) :: ds, .progress :: (feed c false .progress st [st.defCur] ds).1,
    (feed c false .progress st [st.defCur] ds).2.2, ?_, ?_⟩
  · simp only [runControl, hsi, ← hs]
  · cases hrest : (feed c false .progress st [st.defCur] ds).1 with
    | nil => rw [hrest] at hl; simp at hl
    | cons b l => rw [hrest] at hl; simpa [List.getLast?_cons_cons] using hl

theorem initial_numIter (c : Config α) (prev st : State α) (d0 : α) (status : Status)
    (hsi : setInitialDefect c prev true d0 = (status, st)) : st.numIter = 0 := by
  have := (setInitial_spec c prev true d0 _ _ hsi).1
  subst this; rfl

theorem pcgIntern_isRun (S : Sys V α) (c : Config α) (prev : State α) (x r : V) (res : Result V α)
    (h : pcgIntern S c prev x r = some res) (hna : res.status ≠ .aborted) : IsRun c prev res.status res.st := by
  simp only [pcgIntern] at h
  rcases hsi : setInitialDefect c prev true (S.nrm r) with ⟨status, st⟩
  rw [hsi] at h
  have h0 := initial_numIter c prev st _ _ hsi
  simp only at h
  split at h
  · simp only [Option.some.injEq] at h; subst h
    exact isRun_initial c prev st _ status hsi
  · rename_i hne
    have hp : status = .progress := by simpa using hne
    subst hp
    split at h
    · simp only [Option.some.injEq] at h; subst h; exact absurd rfl hna
    · exact isRun_of_ctlRun c prev st _ res hsi
        (pcgLoop_ctl S c _ _ _ _ _ st _ _ res h hna (by omega) (by simp [fuelOf, h0]))

theorem richIntern_isRun (S : Sys V α) (c : Config α) (prev : State α) (omega : α) (b x df : V)
    (res : Result V α) (h : richIntern S c prev omega b x df = some res) (hna : res.status ≠ .aborted) :
    IsRun c prev res.status res.st := by
  simp only [richIntern] at h
  rcases hsi : setInitialDefect c prev true (S.nrm df) with ⟨status, st⟩
  rw [hsi] at h
  have h0 := initial_numIter c prev st _ _ hsi
  simp only at h
  split at h
  · simp only [Option.some.injEq] at h; subst h
    exact isRun_initial c prev st _ status hsi
  · rename_i hne
    have hp : status = .progress := by simpa using hne
    subst hp
    exact isRun_of_ctlRun c prev st _ res hsi
      (richLoop_ctl S c omega b _ _ _ st _ _ res h hna (by omega) (by simp [fuelOf, h0]))

theorem pcrIntern_isRun (S : Sys V α) (c : Config α) (prev : State α) (x r : V) (res : Result V α)
    (h : pcrIntern S c prev x r = some res) (hna : res.status ≠ .aborted) : IsRun c prev res.status res.st := by
  simp only [pcrIntern] at h
  rcases hsi : setInitialDefect c prev true (S.nrm r) with ⟨status, st⟩
  rw [hsi] at h
  have h0 := initial_numIter c prev st _ _ hsi
  simp only at h
  split at h
  · simp only [Option.some.injEq] at h; subst h
    exact isRun_initial c prev st _ status hsi
  · rename_i hne
    have hp : status = .progress := by simpa using hne
    subst hp
    split at h
    · simp only [Option.some.injEq] at h; subst h; exact absurd rfl hna
    · exact isRun_of_ctlRun c prev st _ res hsi
        (pcrLoop_ctl S c _ _ _ _ _ _ _ st _ _ res h hna (by omega) (by simp [fuelOf, h0]))

theorem pmrIntern_isRun (S : Sys V α) (c : Config α) (prev : State α) (x r : V) (res : Result V α)
    (h : pmrIntern S c prev x r = some res) (hna : res.status ≠ .aborted) : IsRun c prev res.status res.st := by
  simp only [pmrIntern] at h
  rcases hsi : setInitialDefect c prev true (S.nrm r) with ⟨status, st⟩
  rw [hsi] at h
  have h0 := initial_numIter c prev st _ _ hsi
  simp only at h
  split at h
  · simp only [Option.some.injEq] at h; subst h
    exact isRun_initial c prev st _ status hsi
  · rename_i hne
    have hp : status = .progress := by simpa using hne
    subst hp
    split at h
    · simp only [Option.some.injEq] at h; subst h; exact absurd rfl hna
    · exact isRun_of_ctlRun c prev st _ res hsi
        (pmrLoop_ctl S c _ _ _ _ st _ _ res h hna (by omega) (by simp [fuelOf, h0]))

theorem pcgnrIntern_isRun (S : Sys V α) (c : Config α) (prev : State α) (x r : V) (res : Result V α)
    (h : pcgnrIntern S c prev x r = some res) (hna : res.status ≠ .aborted) : IsRun c prev res.status res.st := by
  simp only [pcgnrIntern] at h
  rcases hsi : setInitialDefect c prev true (S.nrm r) with ⟨status, st⟩
  rw [hsi] at h
  have h0 := initial_numIter c prev st _ _ hsi
  simp only at h
  split at h
  · simp only [Option.some.injEq] at h; subst h
    exact isRun_initial c prev st _ status hsi
  · rename_i hne
    have hp : status = .progress := by simpa using hne
    subst hp
    split at h
    · simp only [Option.some.injEq] at h; subst h; exact absurd rfl hna
    · split at h
      · simp only [Option.some.injEq] at h; subst h; exact absurd rfl hna
      · exact isRun_of_ctlRun c prev st _ res hsi
          (pcgnrLoop_ctl S c _ _ _ _ _ _ st _ _ res h hna (by omega) (by simp [fuelOf, h0]))

theorem bicgIntern_isRun (S : Sys V α) (c : Config α) (prev : State α) (x r : V) (res : Result V α)
    (h : bicgIntern S c prev x r = some res) (hna : res.status ≠ .aborted) :
    IsRun c prev res.status res.st ∨ HalfCtl c res := by
  simp only [bicgIntern] at h
  rcases hsi : setInitialDefect c prev true (S.nrm r) with ⟨status, st⟩
  rw [hsi] at h
  have h0 := initial_numIter c prev st _ _ hsi
  simp only at h
  split at h
  · simp only [Option.some.injEq] at h; subst h
    exact Or.inl (isRun_initial c prev st _ status hsi)
  · rename_i hne
    have hp : status = .progress := by simpa using hne
    subst hp
    split at h
    · simp only [Option.some.injEq] at h; subst h; exact absurd rfl hna
    · rcases bicgLoop_ctl S c _ _ _ _ _ _ _ st _ _ res h hna (by omega) (by simp [fuelOf, h0]) with
        ⟨_, _, _, _, hh⟩ | hrun
      · exact Or.inr hh
      · exact Or.inl (isRun_of_ctlRun c prev st _ res hsi hrun)

theorem chebIntern_isRun (S : Sys V α) (c : Config α) (prev : State α) (minEv maxEv : α) (b x df : V)
    (res : Result V α) (h : chebIntern S c prev minEv maxEv b x df = some res) (hna : res.status ≠ .aborted) :
    IsRun c prev res.status res.st := by
  simp only [chebIntern] at h
  rcases hsi : setInitialDefect c prev true (S.nrm df) with ⟨status, st⟩
  rw [hsi] at h
  have h0 := initial_numIter c prev st _ _ hsi
  simp only at h
  split at h
  · exact absurd h (by simp)
  · split at h
    · simp only [Option.some.injEq] at h; subst h
      exact isRun_initial c prev st _ status hsi
    · rename_i hne
      have hp : status = .progress := by simpa using hne
      subst hp
      exact isRun_of_ctlRun c prev st _ res hsi
        (chebLoop_ctl S c _ _ b _ _ _ _ _ st _ res h hna (by omega) (by simp [fuelOf, h0]))

/-- every solver kind: a run that does not end with a component (preconditioner) failure is a control run, or —
    BiCGStab only — ends in the direct half-step test -/
theorem solveOne_isRun (k : Kind) (S : Sys V α) (c : Config α) (omega : α) (prev : State α) (isApply : Bool)
    (x0 b : V) (res : Result V α) (h : solveOne k S c omega prev isApply x0 b = some res)
    (hna : res.status ≠ .aborted) :
    IsRun c prev res.status res.st ∨ (k = .bicgstab ∧ HalfCtl c res) := by
  cases k <;> cases isApply <;> simp only [solveOne, Bool.false_eq_true, ↓reduceIte] at h
  · exact Or.inl (pcgIntern_isRun S c prev _ _ res h hna)
  · exact Or.inl (pcgIntern_isRun S c prev _ _ res h hna)
  · exact Or.inl (richIntern_isRun S c prev omega _ _ _ res h hna)
  · exact Or.inl (richIntern_isRun S c prev omega _ _ _ res h hna)
  · exact Or.inl (pcrIntern_isRun S c prev _ _ res h hna)
  · exact Or.inl (pcrIntern_isRun S c prev _ _ res h hna)
  · exact Or.inl (pmrIntern_isRun S c prev _ _ res h hna)
  · exact Or.inl (pmrIntern_isRun S c prev _ _ res h hna)
  · exact Or.inl (pcgnrIntern_isRun S c prev _ _ res h hna)
  · exact Or.inl (pcgnrIntern_isRun S c prev _ _ res h hna)
  · rcases bicgIntern_isRun S c prev _ _ res h hna with hr | hh
    · exact Or.inl hr
    · exact Or.inr ⟨rfl, hh⟩
  · rcases bicgIntern_isRun S c prev _ _ res h hna with hr | hh
    · exact Or.inl hr
    · exact Or.inr ⟨rfl, hh⟩
  all_goals
    simp only [chebSolve] at h
    split at h
    · exact absurd h (by simp)
    · exact Or.inl (chebIntern_isRun S c prev _ _ _ _ _ res h hna)

/-- the stopping logic, at full strength, for any complete control run -/
def StoppingLogic (c : Config α) (status : Status) (st : State α) : Prop :=
  status ≠ .undefined ∧
  (status = .success →
    (st.numIter = 0 ∧ st.defCur = st.defInit ∧ (st.defInit < c.tolAbsLow ∨ st.defInit ≤ c.eps2)) ∨
    (0 < st.numIter ∧ st.defCur ≤ c.tolAbs ∧ (st.defCur ≤ c.tolRel * st.defInit ∨ st.defCur ≤ c.tolAbsLow) ∧
      ¬ Diverged c st.defInit st.defCur ∧ c.minIter ≤ st.numIter)) ∧
  (status = .maxIter → st.numIter = max 1 (max c.minIter c.maxIter) ∧
    (¬ Converged c st.defInit st.defCur ∨ calcDef c st.numIter = false) ∧ ¬ Diverged c st.defInit st.defCur) ∧
  (status = .diverged → 0 < st.numIter ∧ (c.divAbs < st.defCur ∨ c.divRel * st.defInit < st.defCur)) ∧
  (status = .aborted → st.curFin = false) ∧
  (status = .stagnated → 0 < c.minStag ∧ c.minStag ≤ st.numStag ∧ c.stagRate * st.defPrev ≤ st.defCur ∧
    ¬ Converged c st.defInit st.defCur ∧ ¬ Diverged c st.defInit st.defCur ∧ c.minIter ≤ st.numIter ∧
    st.numIter < c.maxIter)

theorem isRun_facts (c : Config α) (prev st : State α) (status : Status) (h : IsRun c prev status st) :
    StoppingLogic c status st := by
  obtain ⟨ds, sts, tr, hrun, hlast⟩ := h
  cases ds with
  | nil => simp [runControl] at hrun
  | cons a ds =>
    obtain ⟨fin, d⟩ := a
    simp only [runControl, Prod.mk.injEq, Option.some.injEq] at hrun
    obtain ⟨hsts, hfin⟩ := hrun
    rcases hsi : setInitialDefect c prev fin d with ⟨st0, s0⟩
    rw [hsi] at hsts hfin
    simp only at hsts hfin
    obtain ⟨hs0, hab, hsu, hpr, hall⟩ := setInitial_spec c prev fin d _ _ hsi
    cases hrest : (feed c false st0 s0 [s0.defCur] ds).1 with
    | nil =>
      -- the run ended with the initial check
      rw [hrest] at hsts
      rw [← hsts] at hlast
      simp only [List.getLast?_singleton, Option.some.injEq] at hlast
      subst hlast
      have := feed_nil_out c false _ _ _ _ hrest
      rw [this] at hfin
      simp only [Prod.mk.injEq] at hfin
      obtain ⟨rfl, _⟩ := hfin
      subst hs0
      refine ⟨?_, ?_, ?_, ?_, ?_, ?_⟩
      · rcases hall with e | e | e <;> simp [e]
      · intro e; exact Or.inl ⟨rfl, rfl, (hsu.1 e).2⟩
      · intro e; rcases hall with e' | e' | e' <;> simp [e'] at e
      · intro e; rcases hall with e' | e' | e' <;> simp [e'] at e
      · intro e; exact hab.1 e
      · intro e; rcases hall with e' | e' | e' <;> simp [e'] at e
    | cons b l =>
      have hp : st0 = .progress := by
        by_cases hp : st0 = .progress
        · exact hp
        · rw [feed_nonprogress c false st0 s0 _ ds hp] at hrest; simp at hrest
      subst hp
      have hl : (feed c false .progress s0 [s0.defCur] ds).1.getLast? = some status := by
        rw [← hsts, hrest] at hlast
        rw [hrest]; simpa [List.getLast?_cons_cons] using hlast
      have h0 : s0.numIter = 0 := by subst hs0; rfl
      obtain ⟨sa, fa, da, hstep⟩ := feed_last_step c false ds s0 _ status hl
      have hnum := feed_numIter_le c false ds s0 _ status (Or.inr h0) hl
      rw [hfin] at hstep hnum
      simp only at hstep hnum
      obtain ⟨s2, stRaw, hana, hn2, _, _, _, hcase⟩ := ctlStep_eq c false sa st fa da status hstep
      obtain ⟨f1, f2, f3, f4, f5⟩ := analyse_frame c _ _ _ _ hana
      have hsp := analyse_spec c _ _ _ _ hana
      rw [← f1, ← f2, ← f3, ← f4, ← f5] at hsp
      obtain ⟨ha, hd, hsuc, hm, hstag, _, hund⟩ := hsp
      rcases hcase with hraw | ⟨hraw, hmx, _, hcf⟩
      · subst hraw
        refine ⟨hund, ?_, ?_, ?_, ?_, ?_⟩
        · intro e
          have := hsuc.1 e
          exact Or.inr ⟨hnum.2, this.2.2.2.1, this.2.2.2.2, this.2.1, this.2.2.1⟩
        · intro e
          have := hm.1 e
          refine ⟨?_, Or.inl this.2.2.2.1, this.2.1⟩
          have h1 := this.2.2.1
          have h2 := this.2.2.2.2
          have h3 := hnum.1
          have h4 := hnum.2
          omega
        · intro e
          have := hd.1 e
          exact ⟨hnum.2, this.2⟩
        · intro e; exact ha.1 e
        · intro e
          have := hstag e
          exact ⟨this.2.1, this.2.2.2.2.1, this.2.2.1, this.2.2.2.2.2.2.2.1, this.2.2.2.2.2.2.2.2,
            this.2.2.2.2.2.2.1, this.2.2.2.2.2.1⟩
      · -- `_analyse_defect` said `success` on a defect that was not computed: reported as `max_iter`
        subst hmx
        have hs := hsuc.1 hraw
        have hmm : c.maxIter ≤ c.minIter := by
          have := hcf
          unfold calcDef at this
          simp only [Bool.or_eq_false_iff, decide_eq_false_iff_not] at this
          omega
        refine ⟨by simp, ?_, ?_, ?_, ?_, ?_⟩
        · intro e; cases e
        · intro _
          refine ⟨?_, Or.inr (by rw [f4, hn2]; exact hcf), hs.2.1⟩
          have h1 := hs.2.2.1
          have h3 := hnum.1
          have h4 := hnum.2
          omega
        · intro e; cases e
        · intro e; cases e
        · intro e; cases e

theorem halfCtl_facts (c : Config α) (res : Result V α) (h : HalfCtl c res) : StoppingLogic c res.status res.st := by
  obtain ⟨hpos, hcase⟩ := h
  rcases hcase with ⟨hs, hconv, hnd, hmin⟩ | ⟨hd, hdv⟩
  · refine ⟨by rw [hs]; simp, fun _ => Or.inr ⟨hpos, hconv.1, hconv.2, hnd, hmin⟩, ?_, ?_, ?_, ?_⟩ <;>
      (intro e; rw [hs] at e; cases e)
  · refine ⟨by rw [hd]; simp, ?_, ?_, fun _ => ⟨hpos, hdv⟩, ?_, ?_⟩ <;> (intro e; rw [hd] at e; cases e)

end FeatModel.Solver
