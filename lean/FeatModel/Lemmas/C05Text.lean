import FeatModel.Model.TextIO
/-! helper lemmas for C05, text modes, part A: the line layer (tokens, integers, header) -/
namespace FeatModel.TextIO

/-- no blank inside (what a printed number must satisfy) -/
def NoBlank (cs : List Char) : Prop := ∀ c ∈ cs, isBlank c = false

theorem takeWhile_all {β : Type} (p : β → Bool) : ∀ (l r : List β), (∀ c ∈ l, p c = true) →
    (l ++ r).takeWhile p = l ++ r.takeWhile p
  | [], _, _ => rfl
  | c :: l, r, h => by
    have hc : p c = true := h c (by simp)
    simp only [List.cons_append, List.takeWhile_cons, hc, if_true]
    rw [takeWhile_all p l r (fun x hx => h x (by simp [hx]))]

theorem dropWhile_all {β : Type} (p : β → Bool) : ∀ (l r : List β), (∀ c ∈ l, p c = true) →
    (l ++ r).dropWhile p = r.dropWhile p
  | [], _, _ => rfl
  | c :: l, r, h => by
    have hc : p c = true := h c (by simp)
    simp only [List.cons_append, List.dropWhile_cons, hc, if_true]
    exact dropWhile_all p l r (fun x hx => h x (by simp [hx]))

theorem dropWhile_blank_noBlank : ∀ a : List Char, NoBlank a → a.dropWhile isBlank = a
  | [], _ => rfl
  | c :: a, h => by
    have hc : isBlank c = false := h c (by simp)
    simp [hc]

theorem tok1_blank (r : List Char) : tok1 (' ' :: r) = tok1 r := by
  simp [tok1, isBlank]

theorem tok1_last (a : List Char) (h : NoBlank a) : tok1 a = (a, []) := by
  have h' : ∀ c ∈ a, (fun c => !isBlank c) c = true := fun c hc => by simp [h c hc]
  have t := takeWhile_all (fun c => !isBlank c) a [] h'
  have d := dropWhile_all (fun c => !isBlank c) a [] h'
  simp only [List.append_nil, List.takeWhile_nil, List.dropWhile_nil] at t d
  simp only [tok1, dropWhile_blank_noBlank a h, t, d]

theorem tok1_sep (a r : List Char) (h : NoBlank a) (hne : a ≠ []) : tok1 (a ++ ' ' :: r) = (a, ' ' :: r) := by
  have h' : ∀ c ∈ a, (fun c => !isBlank c) c = true := fun c hc => by simp [h c hc]
  have hd : (a ++ ' ' :: r).dropWhile isBlank = a ++ ' ' :: r := by
    cases a with
    | nil => exact absurd rfl hne
    | cons c a' =>
      have hc : isBlank c = false := h c (by simp)
      simp [hc]
  have t := takeWhile_all (fun c => !isBlank c) a (' ' :: r) h'
  have d := dropWhile_all (fun c => !isBlank c) a (' ' :: r) h'
  have e1 : (' ' :: r).takeWhile (fun c => !isBlank c) = [] := by simp [isBlank]
  have e2 : (' ' :: r).dropWhile (fun c => !isBlank c) = ' ' :: r := by simp [isBlank]
  rw [e1, List.append_nil] at t
  rw [e2] at d
  simp only [tok1, hd, t, d]

/-! integers -/

theorem natChars_eq (n : Nat) : natChars n = Nat.toDigits 10 n := by
  simp [natChars, Nat.toString_eq_repr, Nat.toList_repr]

theorem isDigit_natChars (n : Nat) : ∀ c ∈ natChars n, c.isDigit = true := by
  intro c hc
  rw [natChars_eq] at hc
  exact Nat.isDigit_of_mem_toDigits (by decide) (by decide) hc

theorem not_blank_of_isDigit (c : Char) (h : c.isDigit = true) : isBlank c = false := by
  cases hb : isBlank c with
  | false => rfl
  | true =>
    have : c = ' ' := by simpa [isBlank] using hb
    subst this
    exact absurd h (by decide)

theorem noBlank_natChars (n : Nat) : NoBlank (natChars n) :=
  fun c hc => not_blank_of_isDigit c (isDigit_natChars n c hc)

theorem natChars_ne_nil (n : Nat) : natChars n ≠ [] := by
  rw [natChars_eq]
  exact Nat.toDigits_ne_nil

theorem atolC_natChars (n : Nat) : atolC (natChars n) = n := by
  have t := takeWhile_all Char.isDigit (natChars n) [] (isDigit_natChars n)
  simp only [List.append_nil, List.takeWhile_nil] at t
  rw [atolC, t, natChars_eq]
  exact Nat.ofDigitChars_ten_toDigits

/-! lines -/

theorem parseEntry_fmtEntry {α : Type} (pr : α → String) (rd : String → α) (i j : Nat) (v : α)
    (hp : NoBlank (pr v).toList) : parseEntry rd (fmtEntry pr i j v) = (i - 1, j - 1, rd (pr v)) := by
  have t1 := tok1_sep (natChars i) (natChars j ++ ' ' :: (pr v).toList) (noBlank_natChars i) (natChars_ne_nil i)
  have t2 : tok1 (' ' :: (natChars j ++ ' ' :: (pr v).toList)) = (natChars j, ' ' :: (pr v).toList) := by
    rw [tok1_blank]
    exact tok1_sep (natChars j) (pr v).toList (noBlank_natChars j) (natChars_ne_nil j)
  have t3 : tok1 (' ' :: (pr v).toList) = ((pr v).toList, []) := by
    rw [tok1_blank]
    exact tok1_last _ hp
  simp only [parseEntry, fmtEntry, String.toList_ofList, t1, t2, t3, atolC_natChars, String.ofList_toList]

theorem parseVal_pr {α : Type} (pr : α → String) (rd : String → α) (v : α) (hp : NoBlank (pr v).toList) :
    parseVal rd (pr v) = rd (pr v) := by
  simp only [parseVal, tok1_last _ hp, String.ofList_toList]

theorem parseSize2_sizeLine2 (a b : Nat) : parseSize2 (sizeLine2 a b) = (a, b) := by
  have t1 := tok1_sep (natChars a) (natChars b) (noBlank_natChars a) (natChars_ne_nil a)
  have t2 : tok1 (' ' :: natChars b) = (natChars b, []) := by
    rw [tok1_blank]
    exact tok1_last _ (noBlank_natChars b)
  simp only [parseSize2, sizeLine2, String.toList_ofList, t1, t2, atolC_natChars]

theorem tok1_size3 (a b c : Nat) :
    tok1 (natChars a ++ ' ' :: (natChars b ++ ' ' :: natChars c)) = (natChars a, ' ' :: (natChars b ++ ' ' :: natChars c))
    ∧ tok1 (' ' :: (natChars b ++ ' ' :: natChars c)) = (natChars b, ' ' :: natChars c)
    ∧ tok1 (' ' :: natChars c) = (natChars c, []) := by
  refine ⟨tok1_sep _ _ (noBlank_natChars a) (natChars_ne_nil a), ?_, ?_⟩
  · rw [tok1_blank]
    exact tok1_sep _ _ (noBlank_natChars b) (natChars_ne_nil b)
  · rw [tok1_blank]
    exact tok1_last _ (noBlank_natChars c)

theorem parseSize2_sizeLine3 (a b c : Nat) : parseSize2 (sizeLine3 a b c) = (a, b) := by
  obtain ⟨t1, t2, _⟩ := tok1_size3 a b c
  simp only [parseSize2, sizeLine3, String.toList_ofList, t1, t2, atolC_natChars]

theorem parseSize3_sizeLine3 (a b c : Nat) : parseSize3 (sizeLine3 a b c) = (a, b, c) := by
  obtain ⟨t1, t2, t3⟩ := tok1_size3 a b c
  simp only [parseSize3, sizeLine3, String.toList_ofList, t1, t2, t3, atolC_natChars]

theorem isPrefix_self : ∀ l : List Char, isPrefix l l = true
  | [] => rfl
  | c :: l => by simp [isPrefix, isPrefix_self l]

theorem containsSub_self (l : List Char) : containsSub l l = true := by
  cases l with
  | nil => rfl
  | cons c l => simp [containsSub, isPrefix_self]

/-- a line starting with a printed natural number is neither empty nor a comment -/
theorem skipComments_size (l : String) (ls : List String) (a : Nat) (rest : List Char)
    (hl : l.toList = natChars a ++ rest) : skipComments (l :: ls) = some (l, ls) := by
  cases hn : natChars a with
  | nil => exact absurd hn (natChars_ne_nil a)
  | cons d t =>
    have hd : d.isDigit = true := isDigit_natChars a d (by simp [hn])
    have hb : isBlank d = false := not_blank_of_isDigit d hd
    have hne : d ≠ '%' := by
      intro h
      subst h
      exact absurd hd (by decide)
    simp only [skipComments, hl, hn, List.cons_append, List.dropWhile_cons, hb]
    simp [hne]

theorem mtxHeader_ok (banner l : String) (ls : List String) (a : Nat) (rest : List Char)
    (hl : l.toList = natChars a ++ rest) : mtxHeader banner (banner :: l :: ls) = some (l, ls) := by
  simp only [mtxHeader, containsSub_self, if_true]
  exact skipComments_size l ls a rest hl

end FeatModel.TextIO
