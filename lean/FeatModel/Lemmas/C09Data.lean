import FeatModel.Model.MG
/-!
# C09 helper lemmas, data layer, relational form (core Lean only)

One generic theorem about *families* of runs of the same multigrid application (same hierarchy, same cycle, same
level range) indexed by `ι`: if the defects of the runs are related by a relation `R` on families of vectors that is
closed under the level operators (matrix products, filters, differences, the zero vector, `y + x`, and the adaptive
step-length updates), then the call logs of the runs are equal and the results are related by `R` - whatever the level
vectors contained before.  Instances (in `C09Linear.lean`): equality (the result is a function of the defect only),
scaling (homogeneity), addition (additivity with fixed coarse grid correction).
-/
namespace FeatModel.MG

/-! ## state bookkeeping -/

theorem get_put_eq (s : St) (i : Nat) (v : LvVecs) (h : i < s.lv.size) : (s.put i v).get i = v := by
  simp [St.get, St.put, Array.getD, h]

theorem get_put_ne (s : St) (i j : Nat) (v : LvVecs) (h : j ≠ i) : (s.put i v).get j = s.get j := by
  simp [St.get, St.put, Array.getD_eq_getD_getElem?, Ne.symm h]

theorem size_put (s : St) (i : Nat) (v : LvVecs) : (s.put i v).lv.size = s.lv.size := by simp [St.put]
theorem log_put (s : St) (i : Nat) (v : LvVecs) : (s.put i v).log = s.log := rfl
theorem get_sayAll (s : St) (es : List String) (j : Nat) : (s.sayAll es).get j = s.get j := rfl
theorem size_sayAll (s : St) (es : List String) : (s.sayAll es).lv.size = s.lv.size := rfl
theorem log_sayAll (s : St) (es : List String) : (s.sayAll es).log = s.log ++ es.toArray := rfl

theorem exec_append {σ : Type} (f : Instr → σ → σ) (a b : List Instr) (s : σ) :
    exec f (a ++ b) s = exec f b (exec f a s) := by
  simp [exec, List.foldl_append]

theorem exec_single {σ : Type} (f : Instr → σ → σ) (i : Instr) (s : σ) : exec f [i] s = f i s := rfl

/-! ### what each step reads and writes -/

theorem stepRest_size (cfg : Cfg) (i : Nat) (sm : Bool) (s : St) : (stepRest cfg i sm s).lv.size = s.lv.size := by
  simp [stepRest, size_put, size_sayAll]

theorem stepRest_log (cfg : Cfg) (i : Nat) (sm : Bool) (s : St) :
    (stepRest cfg i sm s).log = s.log ++ (restLocal (cfg.level i) i sm (s.get i)).2.toArray := rfl

theorem stepRest_get_self (cfg : Cfg) (i : Nat) (sm : Bool) (s : St) (h : i < s.lv.size) :
    (stepRest cfg i sm s).get i = (restLocal (cfg.level i) i sm (s.get i)).1 := by
  unfold stepRest
  simp only []
  rw [get_put_ne _ _ _ _ (by omega), get_sayAll, get_put_eq _ _ _ h]

theorem stepRest_get_next (cfg : Cfg) (i : Nat) (sm : Bool) (s : St) (h : i + 1 < s.lv.size) :
    ((stepRest cfg i sm s).get (i + 1)).rhs =
      filt (cfg.level (i + 1)).fidx (mulVec (cfg.level i).R (restLocal (cfg.level i) i sm (s.get i)).1.defe) := by
  unfold stepRest
  simp only []
  rw [get_put_eq _ _ _ (by simpa [size_sayAll, size_put] using h)]

theorem stepRest_get_other (cfg : Cfg) (i j : Nat) (sm : Bool) (s : St) (h1 : j ≠ i) (h2 : j ≠ i + 1) :
    (stepRest cfg i sm s).get j = s.get j := by
  unfold stepRest
  simp only []
  rw [get_put_ne _ _ _ _ h2, get_sayAll, get_put_ne _ _ _ _ h1]

theorem stepProl_size (cfg : Cfg) (i : Nat) (sm : Bool) (s : St) : (stepProl cfg i sm s).lv.size = s.lv.size := by
  simp [stepProl, size_put, size_sayAll]

theorem stepProl_log (cfg : Cfg) (i : Nat) (sm : Bool) (s : St) :
    (stepProl cfg i sm s).log =
      s.log ++ (prolLocal cfg.cgc (cfg.level i) i sm (s.get i) (s.get (i + 1)).sol).2.toArray := rfl

theorem stepProl_get_self (cfg : Cfg) (i : Nat) (sm : Bool) (s : St) (h : i < s.lv.size) :
    (stepProl cfg i sm s).get i = (prolLocal cfg.cgc (cfg.level i) i sm (s.get i) (s.get (i + 1)).sol).1 := by
  unfold stepProl
  simp only []
  rw [get_sayAll, get_put_eq _ _ _ h]

theorem stepProl_get_other (cfg : Cfg) (i j : Nat) (sm : Bool) (s : St) (h1 : j ≠ i) :
    (stepProl cfg i sm s).get j = s.get j := by
  unfold stepProl
  simp only []
  rw [get_sayAll, get_put_ne _ _ _ _ h1]

theorem stepPeak_size (cfg : Cfg) (i : Nat) (s : St) : (stepPeak cfg i s).lv.size = s.lv.size := by
  simp [stepPeak, size_put, size_sayAll]

theorem stepPeak_log (cfg : Cfg) (i : Nat) (s : St) :
    (stepPeak cfg i s).log = s.log ++ (peakLocal (cfg.level i) i (s.get i)).2.toArray := rfl

theorem stepPeak_get_self (cfg : Cfg) (i : Nat) (s : St) (h : i < s.lv.size) :
    (stepPeak cfg i s).get i = (peakLocal (cfg.level i) i (s.get i)).1 := by
  unfold stepPeak
  simp only []
  rw [get_sayAll, get_put_eq _ _ _ h]

theorem stepPeak_get_other (cfg : Cfg) (i j : Nat) (s : St) (h1 : j ≠ i) : (stepPeak cfg i s).get j = s.get j := by
  unfold stepPeak
  simp only []
  rw [get_sayAll, get_put_ne _ _ _ _ h1]

theorem stepCoarse_size (cfg : Cfg) (s : St) : (stepCoarse cfg s).lv.size = s.lv.size := by
  simp [stepCoarse, size_put, size_sayAll]

theorem stepCoarse_log (cfg : Cfg) (s : St) :
    (stepCoarse cfg s).log = s.log ++ (coarseLocal (cfg.level cfg.crsLvl) cfg.crsLvl (s.get cfg.crsLvl)).2.toArray :=
  rfl

theorem stepCoarse_get_self (cfg : Cfg) (s : St) (h : cfg.crsLvl < s.lv.size) :
    (stepCoarse cfg s).get cfg.crsLvl = (coarseLocal (cfg.level cfg.crsLvl) cfg.crsLvl (s.get cfg.crsLvl)).1 := by
  unfold stepCoarse
  simp only []
  rw [get_sayAll, get_put_eq _ _ _ h]

theorem stepCoarse_get_other (cfg : Cfg) (j : Nat) (s : St) (h1 : j ≠ cfg.crsLvl) :
    (stepCoarse cfg s).get j = s.get j := by
  unfold stepCoarse
  simp only []
  rw [get_sayAll, get_put_ne _ _ _ _ h1]

/-! ### the events of a step do not depend on the vectors -/

theorem restLocal_ev (L : Level) (i : Nat) (sm : Bool) (v v' : LvVecs) :
    (restLocal L i sm v).2 = (restLocal L i sm v').2 := by
  unfold restLocal preSmooth
  cases sm <;> cases L.pre <;> rfl

theorem prolLocal_ev (cgc : Cgc) (L : Level) (i : Nat) (sm : Bool) (v v' : LvVecs) (c c' : Vec) :
    (prolLocal cgc L i sm v c).2 = (prolLocal cgc L i sm v' c').2 := by
  unfold prolLocal cgcStep postDefect
  cases cgc <;> cases sm <;> cases L.post <;> rfl

theorem smoothDef_ev (L : Level) (i : Nat) (m : Mat) (tag : String) (r r' : LvVecs × List String) (h : r.2 = r'.2) :
    (smoothDef L i m tag r).2 = (smoothDef L i m tag r').2 := by
  simp [smoothDef, h]

theorem peakLocal_ev (L : Level) (i : Nat) (v v' : LvVecs) : (peakLocal L i v).2 = (peakLocal L i v').2 := by
  unfold peakLocal peakTail
  cases L.peak <;> cases L.pre <;> cases L.post <;> simp [smoothDef]

theorem coarseLocal_ev (L : Level) (i : Nat) (v v' : LvVecs) : (coarseLocal L i v).2 = (coarseLocal L i v').2 := by
  unfold coarseLocal
  cases L.crs <;> rfl

/-! ## relations on families of runs -/

/-- closure of a relation on families of vectors under everything a multigrid step does to vectors -/
structure Closed (ι : Type) (cgc : Cgc) (R : (ι → Vec) → Prop) : Prop where
  mul : ∀ (m : Mat) (x : ι → Vec), R x → R (fun k => mulVec m (x k))
  flt : ∀ (idx : List Nat) (x : ι → Vec), R x → R (fun k => filt idx (x k))
  sub : ∀ (x y : ι → Vec), R x → R y → R (fun k => vsub (x k) (y k))
  zero : ∀ n : Nat, R (fun _ => List.replicate n 0)
  add1 : ∀ (x y : ι → Vec), R x → R y → R (fun k => axpy 1 (x k) (y k))
  energy : cgc = .minEnergy → ∀ (de co tm so : ι → Vec), R de → R co → R tm → R so →
    R (fun k => axpy (cgcOmega (dot (de k) (co k)) (dot (tm k) (co k))) (co k) (so k)) ∧
    R (fun k => axpy (-(cgcOmega (dot (de k) (co k)) (dot (tm k) (co k)))) (tm k) (de k))
  mindef : cgc = .minDefect → ∀ (de co tm so : ι → Vec), R de → R co → R tm → R so →
    R (fun k => axpy (cgcOmega (dot (de k) (tm k)) (dot (tm k) (tm k))) (co k) (so k)) ∧
    R (fun k => axpy (-(cgcOmega (dot (de k) (tm k)) (dot (tm k) (tm k)))) (tm k) (de k))

variable {ι : Type} {cgc : Cgc} {R : (ι → Vec) → Prop}

theorem Closed.defect (hc : Closed ι cgc R) (L : Level) (b x : ι → Vec) (hb : R b) (hx : R x) :
    R (fun k => defect L (b k) (x k)) :=
  hc.flt _ _ (hc.sub _ _ hb (hc.mul _ _ hx))

/-- the three vectors of a level that later steps may read -/
structure Rel3 (R : (ι → Vec) → Prop) (v : ι → LvVecs) : Prop where
  rhs : R (fun k => (v k).rhs)
  sol : R (fun k => (v k).sol)
  defe : R (fun k => (v k).defe)

theorem preSmooth_rel (hc : Closed ι cgc R) (L : Level) (i : Nat) (v : ι → LvVecs)
    (h : R (fun k => (v k).rhs)) : Rel3 R (fun k => (preSmooth L i (v k)).1) := by
  unfold preSmooth
  cases L.pre with
  | none => exact ⟨h, hc.zero _, h⟩
  | some m =>
    have hs := hc.mul m _ h
    exact ⟨h, hs, hc.sub _ _ h (hc.mul L.A _ hs)⟩

theorem restLocal_rel_true (hc : Closed ι cgc R) (L : Level) (i : Nat) (v : ι → LvVecs)
    (h : R (fun k => (v k).rhs)) : Rel3 R (fun k => (restLocal L i true (v k)).1) := by
  have p := preSmooth_rel hc L i v h
  exact ⟨p.rhs, p.sol, hc.flt _ _ p.defe⟩

theorem restLocal_rel_false (hc : Closed ι cgc R) (L : Level) (i : Nat) (v : ι → LvVecs)
    (h : Rel3 R v) : Rel3 R (fun k => (restLocal L i false (v k)).1) :=
  ⟨h.rhs, h.sol, hc.flt _ _ h.defe⟩

theorem prolLocal_rel (hc : Closed ι cgc R) (L : Level) (i : Nat) (sm : Bool) (v : ι → LvVecs) (c : ι → Vec)
    (h : Rel3 R v) (hcs : R c) : Rel3 R (fun k => (prolLocal cgc L i sm (v k) (c k)).1) := by
  have hcor : R (fun k => filt L.fidx (mulVec L.P (c k))) := hc.flt _ _ (hc.mul _ _ hcs)
  have htmp : R (fun k => filt L.fidx (mulVec L.A (filt L.fidx (mulVec L.P (c k))))) := hc.flt _ _ (hc.mul _ _ hcor)
  unfold prolLocal cgcStep postDefect
  cases hcg : cgc with
  | fixed =>
    have hsol := hc.add1 _ _ hcor h.sol
    cases L.post with
    | none => exact ⟨h.rhs, hsol, h.defe⟩
    | some m =>
      cases sm with
      | false => exact ⟨h.rhs, hsol, h.defe⟩
      | true =>
        have hd := hc.defect L _ _ h.rhs hsol
        exact ⟨h.rhs, hc.add1 _ _ (hc.mul m _ hd) hsol, hd⟩
  | minEnergy =>
    obtain ⟨hsol, hd⟩ := hc.energy hcg _ _ _ _ h.defe hcor htmp h.sol
    cases L.post with
    | none => exact ⟨h.rhs, hsol, h.defe⟩
    | some m =>
      cases sm with
      | false => exact ⟨h.rhs, hsol, h.defe⟩
      | true => exact ⟨h.rhs, hc.add1 _ _ (hc.mul m _ hd) hsol, hd⟩
  | minDefect =>
    obtain ⟨hsol, hd⟩ := hc.mindef hcg _ _ _ _ h.defe hcor htmp h.sol
    cases L.post with
    | none => exact ⟨h.rhs, hsol, h.defe⟩
    | some m =>
      cases sm with
      | false => exact ⟨h.rhs, hsol, h.defe⟩
      | true => exact ⟨h.rhs, hc.add1 _ _ (hc.mul m _ hd) hsol, hd⟩

theorem smoothDef_rel (hc : Closed ι cgc R) (L : Level) (i : Nat) (m : Mat) (tag : String)
    (r : ι → LvVecs × List String) (h : Rel3 R (fun k => (r k).1)) :
    Rel3 R (fun k => (smoothDef L i m tag (r k)).1) := by
  have hcor := hc.flt L.fidx _ (hc.mul m _ h.defe)
  have hsol := hc.add1 _ _ hcor h.sol
  exact ⟨h.rhs, hsol, hc.defect L _ _ h.rhs hsol⟩

theorem peakLocal_rel (hc : Closed ι cgc R) (L : Level) (i : Nat) (v : ι → LvVecs)
    (h : Rel3 R v) : Rel3 R (fun k => (peakLocal L i (v k)).1) := by
  have h0 : Rel3 R (fun k => (({ v k with defe := defect L (v k).rhs (v k).sol }, [s!"D{i}"]) :
      LvVecs × List String).1) := ⟨h.rhs, h.sol, hc.defect L _ _ h.rhs h.sol⟩
  unfold peakLocal peakTail
  cases L.peak with
  | some m => exact smoothDef_rel hc L i m _ _ h0
  | none =>
    cases L.pre with
    | none =>
      cases L.post with
      | none => exact h0
      | some m => exact smoothDef_rel hc L i m _ _ h0
    | some m1 =>
      have h1 := smoothDef_rel hc L i m1 s!"a{i}" _ h0
      cases L.post with
      | none => exact h1
      | some m => exact smoothDef_rel hc L i m _ _ h1

theorem coarseLocal_rel (hc : Closed ι cgc R) (L : Level) (i : Nat) (v : ι → LvVecs)
    (h : R (fun k => (v k).rhs)) :
    R (fun k => (coarseLocal L i (v k)).1.rhs) ∧ R (fun k => (coarseLocal L i (v k)).1.sol) := by
  unfold coarseLocal
  cases L.crs with
  | none => exact ⟨h, hc.flt _ _ h⟩
  | some m => exact ⟨h, hc.mul _ _ h⟩

/-! ## families of states -/

def LogEq (s : ι → St) : Prop := ∀ k k', (s k).log = (s k').log
def InB (n : Nat) (s : ι → St) : Prop := ∀ k, n < (s k).lv.size
def AgV (R : (ι → Vec) → Prop) (i : Nat) (s : ι → St) : Prop := Rel3 R (fun k => (s k).get i)
def AgRhs (R : (ι → Vec) → Prop) (i : Nat) (s : ι → St) : Prop := R (fun k => ((s k).get i).rhs)
def AgSol (R : (ι → Vec) → Prop) (i : Nat) (s : ι → St) : Prop := R (fun k => ((s k).get i).sol)

/-- a program keeps the array sizes and does not touch the levels above (finer than) `l` -/
structure Keeps (l : Nat) (s t : ι → St) : Prop where
  size : ∀ k, (t k).lv.size = (s k).lv.size
  frame : ∀ k j, j < l → (t k).get j = (s k).get j

theorem Keeps.trans {l : Nat} {s t u : ι → St} (h1 : Keeps l s t) (h2 : Keeps l t u) : Keeps l s u :=
  ⟨fun k => (h2.size k).trans (h1.size k), fun k j hj => (h2.frame k j hj).trans (h1.frame k j hj)⟩

theorem Keeps.mono {l l' : Nat} {s t : ι → St} (h : Keeps l' s t) (hl : l ≤ l') : Keeps l s t :=
  ⟨h.size, fun k j hj => h.frame k j (by omega)⟩

def run (cfg : Cfg) (p : List Instr) (s : ι → St) : ι → St := fun k => exec (step cfg) p (s k)

/-- Hoare-style triple for families of runs -/
def Tr (cfg : Cfg) (n l : Nat) (Pre Post : (ι → St) → Prop) (p : List Instr) : Prop :=
  ∀ s : ι → St, LogEq s → InB n s → Pre s →
    LogEq (run cfg p s) ∧ Keeps l s (run cfg p s) ∧ Post (run cfg p s)

theorem Tr.seq {cfg : Cfg} {n l : Nat} {P Q S : (ι → St) → Prop} {p q : List Instr}
    (h1 : Tr cfg n l P Q p) (h2 : Tr cfg n l Q S q) : Tr cfg n l P S (p ++ q) := by
  intro s hl hb hp
  obtain ⟨a1, a2, a3⟩ := h1 s hl hb hp
  have hb' : InB n (run cfg p s) := fun k => by rw [a2.size k]; exact hb k
  obtain ⟨b1, b2, b3⟩ := h2 (run cfg p s) a1 hb' a3
  have e : run cfg (p ++ q) s = run cfg q (run cfg p s) := by
    funext k; simp [run, exec_append]
  rw [e]
  exact ⟨b1, a2.trans b2, b3⟩

theorem Tr.mono {cfg : Cfg} {n l l' : Nat} {P Q : (ι → St) → Prop} {p : List Instr}
    (h : Tr cfg n l' P Q p) (hl : l ≤ l') : Tr cfg n l P Q p := by
  intro s a b c
  obtain ⟨x, y, z⟩ := h s a b c
  exact ⟨x, y.mono hl, z⟩

theorem Tr.weaken {cfg : Cfg} {n l : Nat} {P P' Q Q' : (ι → St) → Prop} {p : List Instr}
    (h : Tr cfg n l P Q p) (hp : ∀ s, P' s → P s) (hq : ∀ s, Q s → Q' s) : Tr cfg n l P' Q' p := by
  intro s a b c
  obtain ⟨x, y, z⟩ := h s a b (hp s c)
  exact ⟨x, y, hq _ z⟩

/-! ### the four primitive steps as triples -/

theorem tr_rest_true (hc : Closed ι cgc R) (cfg : Cfg) (n i : Nat) (hi : i + 1 ≤ n) :
    Tr cfg n i (AgRhs R i) (fun t => AgV R i t ∧ AgRhs R (i + 1) t) [Instr.rest i true] := by
  intro s hl hb hp
  have hin : ∀ k, i < (s k).lv.size := fun k => by have := hb k; omega
  have hin1 : ∀ k, i + 1 < (s k).lv.size := fun k => by have := hb k; omega
  have eself : (fun k => (run cfg [Instr.rest i true] s k).get i) =
      fun k => (restLocal (cfg.level i) i true ((s k).get i)).1 :=
    funext fun k => stepRest_get_self cfg i true (s k) (hin k)
  have hrel := restLocal_rel_true hc (cfg.level i) i (fun k => (s k).get i) hp
  refine ⟨?_, ⟨?_, ?_⟩, ?_, ?_⟩
  · intro k k'
    show (stepRest cfg i true (s k)).log = (stepRest cfg i true (s k')).log
    rw [stepRest_log, stepRest_log, hl k k', restLocal_ev _ _ _ ((s k).get i) ((s k').get i)]
  · intro k; exact stepRest_size cfg i true (s k)
  · intro k j hj; exact stepRest_get_other cfg i j true (s k) (by omega) (by omega)
  · show Rel3 R (fun k => (run cfg [Instr.rest i true] s k).get i)
    rw [eself]; exact hrel
  · show R (fun k => ((run cfg [Instr.rest i true] s k).get (i + 1)).rhs)
    have e : (fun k => ((run cfg [Instr.rest i true] s k).get (i + 1)).rhs) =
        fun k => filt (cfg.level (i + 1)).fidx (mulVec (cfg.level i).R
          (restLocal (cfg.level i) i true ((s k).get i)).1.defe) :=
      funext fun k => stepRest_get_next cfg i true (s k) (hin1 k)
    rw [e]
    exact hc.flt _ _ (hc.mul _ _ hrel.defe)

theorem tr_rest_false (hc : Closed ι cgc R) (cfg : Cfg) (n i : Nat) (hi : i + 1 ≤ n) :
    Tr cfg n i (AgV R i) (fun t => AgV R i t ∧ AgRhs R (i + 1) t) [Instr.rest i false] := by
  intro s hl hb hp
  have hin : ∀ k, i < (s k).lv.size := fun k => by have := hb k; omega
  have hin1 : ∀ k, i + 1 < (s k).lv.size := fun k => by have := hb k; omega
  have eself : (fun k => (run cfg [Instr.rest i false] s k).get i) =
      fun k => (restLocal (cfg.level i) i false ((s k).get i)).1 :=
    funext fun k => stepRest_get_self cfg i false (s k) (hin k)
  have hrel := restLocal_rel_false hc (cfg.level i) i (fun k => (s k).get i) hp
  refine ⟨?_, ⟨?_, ?_⟩, ?_, ?_⟩
  · intro k k'
    show (stepRest cfg i false (s k)).log = (stepRest cfg i false (s k')).log
    rw [stepRest_log, stepRest_log, hl k k', restLocal_ev _ _ _ ((s k).get i) ((s k').get i)]
  · intro k; exact stepRest_size cfg i false (s k)
  · intro k j hj; exact stepRest_get_other cfg i j false (s k) (by omega) (by omega)
  · show Rel3 R (fun k => (run cfg [Instr.rest i false] s k).get i)
    rw [eself]; exact hrel
  · show R (fun k => ((run cfg [Instr.rest i false] s k).get (i + 1)).rhs)
    have e : (fun k => ((run cfg [Instr.rest i false] s k).get (i + 1)).rhs) =
        fun k => filt (cfg.level (i + 1)).fidx (mulVec (cfg.level i).R
          (restLocal (cfg.level i) i false ((s k).get i)).1.defe) :=
      funext fun k => stepRest_get_next cfg i false (s k) (hin1 k)
    rw [e]
    exact hc.flt _ _ (hc.mul _ _ hrel.defe)

theorem tr_prol (hc : Closed ι cgc R) (cfg : Cfg) (hcfg : cfg.cgc = cgc) (n i : Nat) (sm : Bool) (hi : i + 1 ≤ n) :
    Tr cfg n i (fun s => AgV R i s ∧ AgSol R (i + 1) s) (AgV R i) [Instr.prol i sm] := by
  intro s hl hb hp
  have hin : ∀ k, i < (s k).lv.size := fun k => by have := hb k; omega
  have eself : (fun k => (run cfg [Instr.prol i sm] s k).get i) =
      fun k => (prolLocal cgc (cfg.level i) i sm ((s k).get i) ((s k).get (i + 1)).sol).1 :=
    funext fun k => by
      show (stepProl cfg i sm (s k)).get i = _
      rw [stepProl_get_self cfg i sm (s k) (hin k), hcfg]
  refine ⟨?_, ⟨?_, ?_⟩, ?_⟩
  · intro k k'
    show (stepProl cfg i sm (s k)).log = (stepProl cfg i sm (s k')).log
    rw [stepProl_log, stepProl_log, hl k k',
      prolLocal_ev _ _ _ _ ((s k).get i) ((s k').get i) ((s k).get (i + 1)).sol ((s k').get (i + 1)).sol]
  · intro k; exact stepProl_size cfg i sm (s k)
  · intro k j hj; exact stepProl_get_other cfg i j sm (s k) (by omega)
  · show Rel3 R (fun k => (run cfg [Instr.prol i sm] s k).get i)
    rw [eself]
    exact prolLocal_rel hc (cfg.level i) i sm (fun k => (s k).get i) (fun k => ((s k).get (i + 1)).sol) hp.1 hp.2

theorem tr_peak (hc : Closed ι cgc R) (cfg : Cfg) (n i : Nat) (hi : i ≤ n) :
    Tr cfg n i (AgV R i) (AgV R i) [Instr.peak i] := by
  intro s hl hb hp
  have hin : ∀ k, i < (s k).lv.size := fun k => by have := hb k; omega
  have eself : (fun k => (run cfg [Instr.peak i] s k).get i) =
      fun k => (peakLocal (cfg.level i) i ((s k).get i)).1 :=
    funext fun k => stepPeak_get_self cfg i (s k) (hin k)
  refine ⟨?_, ⟨?_, ?_⟩, ?_⟩
  · intro k k'
    show (stepPeak cfg i (s k)).log = (stepPeak cfg i (s k')).log
    rw [stepPeak_log, stepPeak_log, hl k k', peakLocal_ev _ _ ((s k).get i) ((s k').get i)]
  · intro k; exact stepPeak_size cfg i (s k)
  · intro k j hj; exact stepPeak_get_other cfg i j (s k) (by omega)
  · show Rel3 R (fun k => (run cfg [Instr.peak i] s k).get i)
    rw [eself]
    exact peakLocal_rel hc (cfg.level i) i (fun k => (s k).get i) hp

theorem tr_coarse (hc : Closed ι cgc R) (cfg : Cfg) :
    Tr cfg cfg.crsLvl cfg.crsLvl (AgRhs R cfg.crsLvl)
      (fun t => AgRhs R cfg.crsLvl t ∧ AgSol R cfg.crsLvl t) [Instr.coarse] := by
  intro s hl hb hp
  have eself : (fun k => (run cfg [Instr.coarse] s k).get cfg.crsLvl) =
      fun k => (coarseLocal (cfg.level cfg.crsLvl) cfg.crsLvl ((s k).get cfg.crsLvl)).1 :=
    funext fun k => stepCoarse_get_self cfg (s k) (hb k)
  have hrel := coarseLocal_rel hc (cfg.level cfg.crsLvl) cfg.crsLvl (fun k => (s k).get cfg.crsLvl) hp
  refine ⟨?_, ⟨?_, ?_⟩, ?_, ?_⟩
  · intro k k'
    show (stepCoarse cfg (s k)).log = (stepCoarse cfg (s k')).log
    rw [stepCoarse_log, stepCoarse_log, hl k k',
      coarseLocal_ev _ _ ((s k).get cfg.crsLvl) ((s k').get cfg.crsLvl)]
  · intro k; exact stepCoarse_size cfg (s k)
  · intro k j hj; exact stepCoarse_get_other cfg j (s k) (by omega)
  · show R (fun k => ((run cfg [Instr.coarse] s k).get cfg.crsLvl).rhs)
    have := congrArg (fun f => fun k => (f k).rhs) eself
    simp only at this
    rw [this]; exact hrel.1
  · show R (fun k => ((run cfg [Instr.coarse] s k).get cfg.crsLvl).sol)
    have := congrArg (fun f => fun k => (f k).sol) eself
    simp only at this
    rw [this]; exact hrel.2

/-! ### visits -/

/-- contract of a complete visit of level `l` (from the restriction onto it to the prolongation from it): it reads
    only the right hand side of level `l`, and produces the solution of level `l` -/
def Visit (R : (ι → Vec) → Prop) (cfg : Cfg) (l : Nat) (p : List Instr) : Prop :=
  Tr cfg cfg.crsLvl l (AgRhs R l) (fun t => AgRhs R l t ∧ AgSol R l t) p

/-- a visit of level `l+1`, seen from level `l` -/
theorem Visit.lift {cfg : Cfg} {l : Nat} {p : List Instr} (h : Visit R cfg (l + 1) p) :
    Tr cfg cfg.crsLvl l (fun s => AgV R l s ∧ AgRhs R (l + 1) s) (fun t => AgV R l t ∧ AgSol R (l + 1) t) p := by
  intro s hl hb hp
  obtain ⟨a, b, c⟩ := h s hl hb hp.2
  refine ⟨a, b.mono (by omega), ?_, c.2⟩
  have e : (fun k => (run cfg p s k).get l) = fun k => (s k).get l :=
    funext fun k => b.frame k l (by omega)
  show Rel3 R (fun k => (run cfg p s k).get l)
  rw [e]; exact hp.1

theorem visit_coarse (hc : Closed ι cgc R) (cfg : Cfg) : Visit R cfg cfg.crsLvl [Instr.coarse] :=
  tr_coarse hc cfg

/-- V-type wrapping: pre-smooth and restrict, visit the next level, prolongate and post-smooth -/
theorem visit_wrap1 (hc : Closed ι cgc R) (cfg : Cfg) (hcfg : cfg.cgc = cgc) (l : Nat) (hl : l + 1 ≤ cfg.crsLvl)
    (a : List Instr) (ha : Visit R cfg (l + 1) a) :
    Visit R cfg l ([Instr.rest l true] ++ a ++ [Instr.prol l true]) := by
  have t1 := tr_rest_true hc cfg cfg.crsLvl l hl
  have t3 := tr_prol hc cfg hcfg cfg.crsLvl l true hl
  exact ((t1.seq ha.lift).seq t3).weaken (fun _ h => h) (fun _ h => ⟨h.rhs, h.sol⟩)

/-- W- and F-type wrapping: two visits of the next level separated by a peak smoothing step -/
theorem visit_wrap2 (hc : Closed ι cgc R) (cfg : Cfg) (hcfg : cfg.cgc = cgc) (l : Nat) (hl : l + 1 ≤ cfg.crsLvl)
    (a b : List Instr) (ha : Visit R cfg (l + 1) a) (hb : Visit R cfg (l + 1) b) :
    Visit R cfg l ([Instr.rest l true] ++ a ++ [Instr.prol l false, Instr.peak l, Instr.rest l false] ++ b
      ++ [Instr.prol l true]) := by
  have t1 := tr_rest_true hc cfg cfg.crsLvl l hl
  have t2 := tr_prol hc cfg hcfg cfg.crsLvl l false hl
  have t3 := tr_peak hc cfg cfg.crsLvl l (by omega)
  have t4 := tr_rest_false hc cfg cfg.crsLvl l hl
  have t5 := tr_prol hc cfg hcfg cfg.crsLvl l true hl
  have mid : Tr cfg cfg.crsLvl l (fun s => AgV R l s ∧ AgSol R (l + 1) s)
      (fun t => AgV R l t ∧ AgRhs R (l + 1) t) ([Instr.prol l false] ++ ([Instr.peak l] ++ [Instr.rest l false])) :=
    t2.seq (t3.seq t4)
  exact ((((t1.seq ha.lift).seq mid).seq hb.lift).seq t5).weaken (fun _ h => h) (fun _ h => ⟨h.rhs, h.sol⟩)

theorem visit_recV (hc : Closed ι cgc R) (cfg : Cfg) (hcfg : cfg.cgc = cgc) (d : Nat) (hd : d ≤ cfg.crsLvl) :
    Visit R cfg (cfg.crsLvl - d) (recV cfg.crsLvl d) := by
  induction d with
  | zero => exact visit_coarse hc cfg
  | succ d ih =>
    have e : cfg.crsLvl - (d + 1) + 1 = cfg.crsLvl - d := by omega
    have ih' := ih (by omega)
    rw [← e] at ih'
    exact visit_wrap1 hc cfg hcfg _ (by omega) _ ih'

theorem visit_recW (hc : Closed ι cgc R) (cfg : Cfg) (hcfg : cfg.cgc = cgc) (d : Nat) (hd : d ≤ cfg.crsLvl) :
    Visit R cfg (cfg.crsLvl - d) (recW cfg.crsLvl d) := by
  induction d with
  | zero => exact visit_coarse hc cfg
  | succ d ih =>
    have e : cfg.crsLvl - (d + 1) + 1 = cfg.crsLvl - d := by omega
    have ih' := ih (by omega)
    rw [← e] at ih'
    exact visit_wrap2 hc cfg hcfg _ (by omega) _ _ ih' ih'

theorem visit_recFin (hc : Closed ι cgc R) (cfg : Cfg) (hcfg : cfg.cgc = cgc) (d : Nat) (hd : d ≤ cfg.crsLvl) :
    Visit R cfg (cfg.crsLvl - d) (recFin cfg.crsLvl d) := by
  induction d with
  | zero => exact visit_coarse hc cfg
  | succ d ih =>
    have e : cfg.crsLvl - (d + 1) + 1 = cfg.crsLvl - d := by omega
    have ih' := ih (by omega)
    have hv := visit_recV hc cfg hcfg d (by omega)
    rw [← e] at ih' hv
    exact visit_wrap2 hc cfg hcfg _ (by omega) _ _ ih' hv

theorem visit_recF (hc : Closed ι cgc R) (cfg : Cfg) (hcfg : cfg.cgc = cgc) (d : Nat) (hd : d ≤ cfg.crsLvl) :
    Visit R cfg (cfg.crsLvl - d) (recF cfg.crsLvl d) := by
  cases d with
  | zero => exact visit_coarse hc cfg
  | succ d =>
    have e : cfg.crsLvl - (d + 1) + 1 = cfg.crsLvl - d := by omega
    have hf := visit_recFin hc cfg hcfg d (by omega)
    rw [← e] at hf
    exact visit_wrap1 hc cfg hcfg _ (by omega) _ hf

theorem visit_cycleRec (hc : Closed ι cgc R) (cfg : Cfg) (hcfg : cfg.cgc = cgc) (k : Cycle) (top : Nat)
    (h : top ≤ cfg.crsLvl) : Visit R cfg top (cycleRec k cfg.crsLvl top) := by
  have e : cfg.crsLvl - (cfg.crsLvl - top) = top := by omega
  cases k with
  | V => have := visit_recV hc cfg hcfg (cfg.crsLvl - top) (by omega); rwa [e] at this
  | F => have := visit_recF hc cfg hcfg (cfg.crsLvl - top) (by omega); rwa [e] at this
  | W => have := visit_recW hc cfg hcfg (cfg.crsLvl - top) (by omega); rwa [e] at this

/-! ## one application -/

theorem startState_get_top (o : Obj) (top : Nat) (d : Vec) (h : top < o.lv.size) :
    ((startState o top d).get top).rhs = d := by
  unfold startState
  simp only []
  rw [get_put_eq _ _ _ h]

theorem startState_size (o : Obj) (top : Nat) (d : Vec) : (startState o top d).lv.size = o.lv.size := by
  simp [startState, size_put]

/-- the generic statement: related defects give equal call logs and related results, for arbitrary previous
    contents of the level vectors of the objects -/
theorem apply_related (hc : Closed ι cgc R) (levels : Array Level) (k : Cycle) (top crs : Nat) (h : top ≤ crs)
    (d : ι → Vec) (o : ι → Obj) (hd : R d) (ho : ∀ j, crs < (o j).lv.size) :
    let cfg : Cfg := { levels := levels, cgc := cgc, crsLvl := crs }
    let t : ι → St := fun j => exec (step cfg) (cycleRec k crs top) (startState (o j) top (d j))
    (∀ j j', (t j).log = (t j').log) ∧ R (fun j => ((t j).get top).sol) := by
  intro cfg t
  have hv := visit_cycleRec (ι := ι) hc cfg rfl k top h
  have hrhs : AgRhs R top (fun j => startState (o j) top (d j)) := by
    have e : (fun j => ((startState (o j) top (d j)).get top).rhs) = d :=
      funext fun j => startState_get_top (o j) top (d j) (by have := ho j; omega)
    show R (fun j => ((startState (o j) top (d j)).get top).rhs)
    rw [e]; exact hd
  obtain ⟨a, _, c⟩ := hv (fun j => startState (o j) top (d j)) (fun _ _ => rfl)
    (fun j => by rw [startState_size]; exact ho j) hrhs
  exact ⟨a, c.2⟩

end FeatModel.MG
