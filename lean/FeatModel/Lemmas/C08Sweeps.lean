import FeatModel.Lemmas.C01Csr
import FeatModel.Model.Solver.Precond
import Mathlib.Tactic.Ring
import Mathlib.Tactic.FieldSimp
import Mathlib.Tactic.Linarith
/-! C08: the SOR / SSOR sweeps and the Jacobi diagonal solve the textbook triangular / diagonal systems. -/
open Finset
namespace FeatModel.Solver
open FeatModel.LA
variable {α : Type}

theorem getD_setIfInBounds [Zero α] (v : Array α) (a i : Nat) (c : α) :
    (v.setIfInBounds a c).getD i 0 = if a = i ∧ i < v.size then c else v.getD i 0 := by
  rw [Array.getD_eq_getD_getElem?, Array.getD_eq_getD_getElem?, Array.getElem?_setIfInBounds]
  by_cases h : a = i
  · subst h
    by_cases h2 : a < v.size <;> simp [h2]
  · simp [h]

theorem getD_of_size_le [Zero α] (v : Array α) (i : Nat) (h : v.size ≤ i) : v.getD i 0 = 0 := by
  simp [Array.getD, Nat.not_lt.mpr h]

/-- `filter_cor` seen from one component -/
theorem filterCor_getD [Zero α] (fidx : List Nat) (v : Array α) (i : Nat) :
    (filterCor fidx v).getD i 0 = if i ∈ fidx then 0 else v.getD i 0 := by
  induction fidx generalizing v with
  | nil => simp [filterCor]
  | cons a l ih =>
    have : filterCor (a :: l) v = filterCor l (v.setIfInBounds a 0) := rfl
    rw [this, ih, getD_setIfInBounds]
    by_cases h1 : i ∈ l
    · simp [h1]
    · by_cases h2 : a = i
      · subst h2
        by_cases h3 : a < v.size
        · simp [h3]
        · simp [h1, h3, getD_of_size_le v a (Nat.le_of_not_lt h3)]
      · have : ¬ i = a := fun h => h2 h.symm
        simp [h1, h2, this]

theorem filterCor_size [Zero α] (fidx : List Nat) (v : Array α) : (filterCor fidx v).size = v.size := by
  induction fidx generalizing v with
  | nil => rfl
  | cons a l ih =>
    have : filterCor (a :: l) v = filterCor l (v.setIfInBounds a 0) := rfl
    rw [this, ih, Array.size_setIfInBounds]

/-- `sortedDiag` spelled out -/
structure SortedDiag (A : Csr α) : Prop where
  wf : A.WF
  sq : A.rows = A.cols
  sorted : ∀ i, i < A.rows → ∀ k, A.rowBegin i ≤ k → k + 1 < A.rowEnd i →
    A.colInd.getD k 0 < A.colInd.getD (k + 1) 0
  diag : ∀ i, i < A.rows → ∃ p, A.rowBegin i ≤ p ∧ p < A.rowEnd i ∧ A.colInd.getD p 0 = i

theorem SortedDiag.of_bool {A : Csr α} (h : sortedDiag A = true) : SortedDiag A := by
  simp only [sortedDiag, Bool.and_eq_true, beq_iff_eq, List.all_eq_true, List.any_eq_true, List.mem_range,
    List.mem_range'_1, decide_eq_true_eq] at h
  obtain ⟨⟨h1, h2⟩, h3⟩ := h
  refine ⟨(Csr.wf_iff A).1 h1, h2, ?_, ?_⟩
  · intro i hi k hk hk1
    exact (h3 i hi).1 k ⟨hk, by omega⟩ hk1
  · intro i hi
    obtain ⟨p, ⟨hp1, hp2⟩, hp3⟩ := (h3 i hi).2
    exact ⟨p, hp1, by omega, hp3⟩

theorem SortedDiag.strictMono {A : Csr α} (h : SortedDiag A) {i : Nat} (hi : i < A.rows) :
    ∀ k' k, A.rowBegin i ≤ k → k < k' → k' < A.rowEnd i → A.colInd.getD k 0 < A.colInd.getD k' 0
  | 0, k, _, hk, _ => by omega
  | k' + 1, k, hb, hk, he => by
    rcases Nat.lt_or_ge k k' with hlt | hge
    · exact Nat.lt_trans (h.strictMono hi k' k hb hlt (by omega)) (h.sorted i hi k' (by omega) he)
    · have : k = k' := by omega
      subst this
      exact h.sorted i hi k hb he

/-- the position of the diagonal entry splits the row into the strictly lower and the strictly upper part -/
theorem SortedDiag.pos {A : Csr α} (h : SortedDiag A) {i : Nat} (hi : i < A.rows) :
    ∃ p, A.rowBegin i ≤ p ∧ p < A.rowEnd i ∧ A.colInd.getD p 0 = i ∧
      (∀ k, A.rowBegin i ≤ k → k < p → A.colInd.getD k 0 < i) ∧
      (∀ k, p < k → k < A.rowEnd i → i < A.colInd.getD k 0) := by
  obtain ⟨p, hp1, hp2, hp3⟩ := h.diag i hi
  refine ⟨p, hp1, hp2, hp3, ?_, ?_⟩
  · intro k hk1 hk2
    have := h.strictMono hi p k hk1 hk2 hp2
    omega
  · intro k hk1 hk2
    have := h.strictMono hi k p hp1 hk1 hk2
    omega

theorem SortedDiag.getD_cols {A : Csr α} (h : SortedDiag A) {i : Nat} (hi : i < A.rows) {k : Nat}
    (hk : k < A.rowEnd i) : A.colInd.getD k A.cols = A.colInd.getD k 0 :=
  Csr.getD_eq_of_lt _ (Nat.lt_of_lt_of_le hk (Csr.rowEnd_le h.wf hi)) _ _

section scans
variable [CommSemiring α]

theorem scanLower_eq (A : Csr α) (out : Array α) (i p : Nat) (hp : ¬ A.colInd.getD p A.cols < i) :
    ∀ (f col : Nat) (d : α), col ≤ p → p - col < f →
      (∀ k, col ≤ k → k < p → A.colInd.getD k A.cols < i) →
      scanLower A out i f col d
        = (p, d + ∑ k ∈ Ico col p, A.val.getD k 0 * out.getD (A.colInd.getD k 0) 0)
  | 0, col, d, _, hf, _ => by omega
  | f + 1, col, d, hc, hf, hlt => by
    rcases Nat.lt_or_ge col p with hcp | hcp
    · rw [scanLower, if_pos (hlt col (Nat.le_refl _) hcp),
        scanLower_eq A out i p hp f (col + 1) _ (by omega) (by omega) (fun k hk1 hk2 => hlt k (by omega) hk2),
        Finset.sum_eq_sum_Ico_succ_bot hcp, add_assoc]
    · have : col = p := by omega
      subst this
      rw [scanLower, if_neg hp]
      simp

theorem scanUpper_eq (A : Csr α) (out : Array α) (i p : Nat) (hp : ¬ i < A.colInd.getD p 0) :
    ∀ (f col : Nat) (d : α), p ≤ col → col - p < f →
      (∀ k, p < k → k ≤ col → i < A.colInd.getD k 0) →
      scanUpper A out i f col d
        = (p, d + ∑ k ∈ Ico (p + 1) (col + 1), A.val.getD k 0 * out.getD (A.colInd.getD k 0) 0)
  | 0, col, d, _, hf, _ => by omega
  | f + 1, col, d, hc, hf, hlt => by
    rcases Nat.lt_or_ge p col with hcp | hcp
    · rw [scanUpper, if_pos (hlt col hcp (Nat.le_refl _)),
        scanUpper_eq A out i p hp f (col - 1) _ (by omega) (by omega) (fun k hk1 hk2 => hlt k hk1 (by omega)),
        Finset.sum_Ico_succ_top (by omega : p + 1 ≤ col)]
      have : col - 1 + 1 = col := by omega
      rw [this, add_assoc, add_comm (A.val.getD col 0 * _)]
    · have : col = p := by omega
      subst this
      rw [scanUpper, if_neg hp]
      simp

end scans

section sums
variable [CommSemiring α]

theorem sum_row_filter {A : Csr α} (h : A.WF) (P : Nat → Prop) [DecidablePred P] (y : Nat → α) {i : Nat}
    (hi : i < A.rows) :
    ∑ k ∈ Ico (A.rowBegin i) (A.rowEnd i),
        (if P (A.colInd.getD k 0) then A.val.getD k 0 * y (A.colInd.getD k 0) else 0)
      = ∑ j ∈ range A.cols, if P j then A.entry i j * y j else 0 := by
  have := Csr.sum_row_eq h (fun j => if P j then y j else 0) hi
  simpa only [mul_ite, mul_zero] using this

/-- stored entries left of the diagonal position = strictly lower part of the dense row -/
theorem SortedDiag.sum_lower {A : Csr α} (h : SortedDiag A) {i p : Nat} (hi : i < A.rows)
    (hp1 : A.rowBegin i ≤ p) (hp2 : p < A.rowEnd i) (hp3 : A.colInd.getD p 0 = i)
    (hlo : ∀ k, A.rowBegin i ≤ k → k < p → A.colInd.getD k 0 < i)
    (hup : ∀ k, p < k → k < A.rowEnd i → i < A.colInd.getD k 0) (y : Nat → α) :
    ∑ k ∈ Ico (A.rowBegin i) p, A.val.getD k 0 * y (A.colInd.getD k 0) = ∑ j ∈ range i, A.entry i j * y j := by
  have h1 := sum_row_filter h.wf (· < i) y hi
  rw [← Finset.sum_Ico_consecutive _ hp1 (Nat.le_of_lt hp2)] at h1
  have h2 : ∑ k ∈ Ico p (A.rowEnd i),
      (if A.colInd.getD k 0 < i then A.val.getD k 0 * y (A.colInd.getD k 0) else 0) = 0 := by
    apply Finset.sum_eq_zero
    intro k hk
    rw [Finset.mem_Ico] at hk
    apply if_neg
    rcases Nat.lt_or_ge p k with hlt | hge
    · have := hup k hlt hk.2; omega
    · have : k = p := by omega
      subst this; omega
  have h3 : ∑ k ∈ Ico (A.rowBegin i) p,
      (if A.colInd.getD k 0 < i then A.val.getD k 0 * y (A.colInd.getD k 0) else 0)
      = ∑ k ∈ Ico (A.rowBegin i) p, A.val.getD k 0 * y (A.colInd.getD k 0) := by
    apply Finset.sum_congr rfl
    intro k hk
    rw [Finset.mem_Ico] at hk
    exact if_pos (hlo k hk.1 hk.2)
  have h4 : (range A.cols).filter (· < i) = range i := by
    ext j
    simp only [Finset.mem_filter, Finset.mem_range]
    have := h.sq
    omega
  rw [h2, h3, add_zero, ← Finset.sum_filter, h4] at h1
  exact h1

/-- stored entries right of the diagonal position = strictly upper part of the dense row -/
theorem SortedDiag.sum_upper {A : Csr α} (h : SortedDiag A) {i p : Nat} (hi : i < A.rows)
    (hp1 : A.rowBegin i ≤ p) (hp2 : p < A.rowEnd i) (hp3 : A.colInd.getD p 0 = i)
    (hlo : ∀ k, A.rowBegin i ≤ k → k < p → A.colInd.getD k 0 < i)
    (hup : ∀ k, p < k → k < A.rowEnd i → i < A.colInd.getD k 0) (y : Nat → α) :
    ∑ k ∈ Ico (p + 1) (A.rowEnd i), A.val.getD k 0 * y (A.colInd.getD k 0)
      = ∑ j ∈ Ico (i + 1) A.rows, A.entry i j * y j := by
  have h1 := sum_row_filter h.wf (i < ·) y hi
  rw [← Finset.sum_Ico_consecutive _ (by omega : A.rowBegin i ≤ p + 1) (by omega : p + 1 ≤ A.rowEnd i)] at h1
  have h2 : ∑ k ∈ Ico (A.rowBegin i) (p + 1),
      (if i < A.colInd.getD k 0 then A.val.getD k 0 * y (A.colInd.getD k 0) else 0) = 0 := by
    apply Finset.sum_eq_zero
    intro k hk
    rw [Finset.mem_Ico] at hk
    apply if_neg
    rcases Nat.lt_or_ge k p with hlt | hge
    · have := hlo k hk.1 hlt; omega
    · have : k = p := by omega
      subst this; omega
  have h3 : ∑ k ∈ Ico (p + 1) (A.rowEnd i),
      (if i < A.colInd.getD k 0 then A.val.getD k 0 * y (A.colInd.getD k 0) else 0)
      = ∑ k ∈ Ico (p + 1) (A.rowEnd i), A.val.getD k 0 * y (A.colInd.getD k 0) := by
    apply Finset.sum_congr rfl
    intro k hk
    rw [Finset.mem_Ico] at hk
    exact if_pos (hup k (by omega) hk.2)
  have h4 : (range A.cols).filter (i < ·) = Ico (i + 1) A.rows := by
    ext j
    simp only [Finset.mem_filter, Finset.mem_range, Finset.mem_Ico]
    have := h.sq
    omega
  rw [h2, h3, zero_add, ← Finset.sum_filter, h4] at h1
  exact h1

/-- the dense diagonal entry is the value stored at the diagonal position -/
theorem SortedDiag.entry_diag {A : Csr α} (h : SortedDiag A) {i p : Nat} (hi : i < A.rows)
    (hp1 : A.rowBegin i ≤ p) (hp2 : p < A.rowEnd i) (hp3 : A.colInd.getD p 0 = i)
    (hlo : ∀ k, A.rowBegin i ≤ k → k < p → A.colInd.getD k 0 < i)
    (hup : ∀ k, p < k → k < A.rowEnd i → i < A.colInd.getD k 0) :
    A.entry i i = A.val.getD p 0 := by
  rw [Csr.entry_eq_sum_Ico, Finset.sum_eq_single p]
  · rw [h.getD_cols hi hp2, if_pos hp3]
  · intro k hk hkp
    rw [Finset.mem_Ico] at hk
    rw [h.getD_cols hi hk.2]
    apply if_neg
    rcases Nat.lt_or_ge k p with hlt | hge
    · have := hlo k hk.1 hlt; omega
    · have := hup k (by omega) hk.2; omega
  · intro hn
    exact absurd (Finset.mem_Ico.mpr ⟨hp1, hp2⟩) hn

/-- the lower scan of row `i`: strictly lower dense row times `out`, stops at the diagonal -/
theorem SortedDiag.scanLower_row {A : Csr α} (h : SortedDiag A) {i : Nat} (hi : i < A.rows) (out : Array α) :
    (scanLower A out i (A.colInd.size - A.rowBegin i) (A.rowBegin i) 0).2
        = ∑ j ∈ range i, A.entry i j * out.getD j 0 ∧
    A.val.getD (scanLower A out i (A.colInd.size - A.rowBegin i) (A.rowBegin i) 0).1 0 = A.entry i i := by
  obtain ⟨p, hp1, hp2, hp3, hlo, hup⟩ := h.pos hi
  have hle := Csr.rowEnd_le h.wf hi
  rw [scanLower_eq A out i p (by rw [h.getD_cols hi hp2]; omega) _ _ _ hp1 (by omega)
    (fun k hk1 hk2 => by rw [h.getD_cols hi (by omega)]; exact hlo k hk1 hk2)]
  refine ⟨?_, (h.entry_diag hi hp1 hp2 hp3 hlo hup).symm⟩
  rw [zero_add]
  exact h.sum_lower hi hp1 hp2 hp3 hlo hup (fun j => out.getD j 0)

/-- the upper scan of row `i`: strictly upper dense row times `out`, stops at the diagonal -/
theorem SortedDiag.scanUpper_row {A : Csr α} (h : SortedDiag A) {i : Nat} (hi : i < A.rows) (out : Array α) :
    (scanUpper A out i (A.rowEnd i) (A.rowEnd i - 1) 0).2
        = ∑ j ∈ Ico (i + 1) A.rows, A.entry i j * out.getD j 0 ∧
    A.val.getD (scanUpper A out i (A.rowEnd i) (A.rowEnd i - 1) 0).1 0 = A.entry i i := by
  obtain ⟨p, hp1, hp2, hp3, hlo, hup⟩ := h.pos hi
  rw [scanUpper_eq A out i p (by omega) _ _ _ (by omega) (by omega)
    (fun k hk1 hk2 => hup k hk1 (by omega))]
  refine ⟨?_, (h.entry_diag hi hp1 hp2 hp3 hlo hup).symm⟩
  have : A.rowEnd i - 1 + 1 = A.rowEnd i := by omega
  rw [zero_add, this]
  exact h.sum_upper hi hp1 hp2 hp3 hlo hup (fun j => out.getD j 0)

end sums

section folds
variable [Zero α]

/-- ascending in-place sweep whose row `i` reads only the components `< i` -/
theorem fwd_fold (n : Nat) (g : Array α → Nat → α) (x : Array α) (hx : x.size = n)
    (hloc : ∀ out out' i, i < n → (∀ j, j < i → out.getD j 0 = out'.getD j 0) → g out i = g out' i) :
    ((List.range n).foldl (fun out i => out.setIfInBounds i (g out i)) x).size = n ∧
    ∀ i, i < n →
      ((List.range n).foldl (fun out i => out.setIfInBounds i (g out i)) x).getD i 0
        = g ((List.range n).foldl (fun out i => out.setIfInBounds i (g out i)) x) i := by
  have key : ∀ m, m ≤ n →
      ((List.range m).foldl (fun out i => out.setIfInBounds i (g out i)) x).size = n ∧
      ∀ i, i < m →
        ((List.range m).foldl (fun out i => out.setIfInBounds i (g out i)) x).getD i 0
          = g ((List.range m).foldl (fun out i => out.setIfInBounds i (g out i)) x) i := by
    intro m
    induction m with
    | zero => intro _; exact ⟨by simpa using hx, fun i hi => by omega⟩
    | succ m ih =>
      intro hm
      obtain ⟨hs, hv⟩ := ih (by omega)
      rw [List.range_succ, List.foldl_append]
      simp only [List.foldl_cons, List.foldl_nil]
      generalize (List.range m).foldl (fun out i => out.setIfInBounds i (g out i)) x = ym at hs hv ⊢
      refine ⟨by rw [Array.size_setIfInBounds]; exact hs, ?_⟩
      have hag : ∀ j, j < m → (ym.setIfInBounds m (g ym m)).getD j 0 = ym.getD j 0 := by
        intro j hj
        rw [getD_setIfInBounds, if_neg (by omega)]
      intro i hi
      rcases Nat.lt_or_ge i m with hlt | hge
      · rw [hag i hlt, hv i hlt]
        exact hloc _ _ i (by omega) (fun j hj => (hag j (by omega)).symm)
      · have : i = m := by omega
        subst this
        rw [getD_setIfInBounds, if_pos ⟨rfl, by omega⟩]
        exact hloc _ _ _ (by omega) (fun j hj => (hag j hj).symm)
  exact key n (Nat.le_refl _)

/-- descending in-place sweep whose row `i` reads its own old value and the components `> i` -/
theorem bwd_fold (n : Nat) (G : α → Array α → Nat → α) (y : Array α) (hy : y.size = n)
    (hloc : ∀ c out out' i, i < n → (∀ j, i < j → out.getD j 0 = out'.getD j 0) → G c out i = G c out' i) :
    ((List.range n).reverse.foldl (fun out i => out.setIfInBounds i (G (out.getD i 0) out i)) y).size = n ∧
    ∀ i, i < n →
      ((List.range n).reverse.foldl (fun out i => out.setIfInBounds i (G (out.getD i 0) out i)) y).getD i 0
        = G (y.getD i 0)
            ((List.range n).reverse.foldl (fun out i => out.setIfInBounds i (G (out.getD i 0) out i)) y) i := by
  have key : ∀ m, m ≤ n → ∀ out : Array α, out.size = n →
      (∀ j, j < m → out.getD j 0 = y.getD j 0) →
      (∀ j, m ≤ j → j < n → out.getD j 0 = G (y.getD j 0) out j) →
      ((List.range m).reverse.foldl (fun out i => out.setIfInBounds i (G (out.getD i 0) out i)) out).size = n ∧
      ∀ i, i < n →
        ((List.range m).reverse.foldl (fun out i => out.setIfInBounds i (G (out.getD i 0) out i)) out).getD i 0
          = G (y.getD i 0)
            ((List.range m).reverse.foldl (fun out i => out.setIfInBounds i (G (out.getD i 0) out i)) out) i := by
    intro m
    induction m with
    | zero =>
      intro _ out hs _ h2
      exact ⟨by simpa using hs, fun i hi => by simpa using h2 i (Nat.zero_le _) hi⟩
    | succ m ih =>
      intro hm out hs h1 h2
      rw [List.range_succ, List.reverse_append]
      simp only [List.reverse_cons, List.reverse_nil, List.nil_append, List.cons_append, List.foldl_cons]
      have hag : ∀ j, j ≠ m → (out.setIfInBounds m (G (out.getD m 0) out m)).getD j 0 = out.getD j 0 := by
        intro j hj
        rw [getD_setIfInBounds, if_neg (by omega)]
      apply ih (by omega) _ (by rw [Array.size_setIfInBounds]; exact hs)
      · intro j hj
        rw [hag j (by omega)]
        exact h1 j (by omega)
      · intro j hj1 hj2
        rcases Nat.lt_or_ge m j with hlt | hge
        · rw [hag j (by omega), h2 j (by omega) hj2]
          exact hloc _ _ _ j hj2 (fun l hl => (hag l (by omega)).symm)
        · have : j = m := by omega
          subst this
          rw [getD_setIfInBounds, if_pos ⟨rfl, by omega⟩]
          exact (congrArg (fun c => G c out j) (h1 j (by omega))).trans
            (hloc _ _ _ j hj2 (fun l hl => (hag l (by omega)).symm))
  exact key n (Nat.le_refl _) y hy (fun _ _ => rfl) (fun j h1 h2 => by omega)

end folds

variable [Field α]

/-- SOR: `(D/ω + L) y = x` row by row, for the dense meaning `Csr.entry` of the matrix -/
theorem sorSweep_spec (ω : α) (hω : ω ≠ 0) (A : Csr α) (hA : sortedDiag A = true)
    (hd : ∀ i, i < A.rows → A.entry i i ≠ 0) (x : Array α) (hx : x.size = A.rows) :
    (sorSweep ω A x).size = A.rows ∧
    ∀ i, i < A.rows →
      A.entry i i / ω * (sorSweep ω A x).getD i 0 + ∑ j ∈ range i, A.entry i j * (sorSweep ω A x).getD j 0
        = x.getD i 0 := by
  have h := SortedDiag.of_bool hA
  have hex : ∃ y, sorSweep ω A x = y ∧ y.size = A.rows ∧ ∀ i, i < A.rows → y.getD i 0
      = ω * (x.getD i 0 - (scanLower A y i (A.colInd.size - A.rowBegin i) (A.rowBegin i) 0).2)
        / A.val.getD (scanLower A y i (A.colInd.size - A.rowBegin i) (A.rowBegin i) 0).1 0 := by
    refine ⟨_, rfl, fwd_fold A.rows
      (fun out i => ω * (x.getD i 0 - (scanLower A out i (A.colInd.size - A.rowBegin i) (A.rowBegin i) 0).2)
        / A.val.getD (scanLower A out i (A.colInd.size - A.rowBegin i) (A.rowBegin i) 0).1 0) x hx ?_⟩
    intro out out' i hi hag
    obtain ⟨e1, e2⟩ := h.scanLower_row hi out
    obtain ⟨e1', e2'⟩ := h.scanLower_row hi out'
    simp only [e1, e2, e1', e2']
    congr 3
    exact Finset.sum_congr rfl (fun j hj => by rw [hag j (Finset.mem_range.mp hj)])
  obtain ⟨y, hy, hsz, hval⟩ := hex
  rw [hy]
  refine ⟨hsz, fun i hi => ?_⟩
  have hv := hval i hi
  obtain ⟨e1, e2⟩ := h.scanLower_row hi y
  rw [e1, e2] at hv
  rw [hv]
  have := hd i hi
  field_simp
  ring

/-- SSOR forward insertion: `(D + ωL) y = x` -/
theorem ssorFwd_spec (ω : α) (A : Csr α) (hA : sortedDiag A = true)
    (hd : ∀ i, i < A.rows → A.entry i i ≠ 0) (x : Array α) (hx : x.size = A.rows) :
    (ssorFwd ω A x).size = A.rows ∧
    ∀ i, i < A.rows →
      A.entry i i * (ssorFwd ω A x).getD i 0 + ω * ∑ j ∈ range i, A.entry i j * (ssorFwd ω A x).getD j 0
        = x.getD i 0 := by
  have h := SortedDiag.of_bool hA
  have hex : ∃ y, ssorFwd ω A x = y ∧ y.size = A.rows ∧ ∀ i, i < A.rows → y.getD i 0
      = (x.getD i 0 - ω * (scanLower A y i (A.colInd.size - A.rowBegin i) (A.rowBegin i) 0).2)
        / A.val.getD (scanLower A y i (A.colInd.size - A.rowBegin i) (A.rowBegin i) 0).1 0 := by
    refine ⟨_, rfl, fwd_fold A.rows
      (fun out i => (x.getD i 0 - ω * (scanLower A out i (A.colInd.size - A.rowBegin i) (A.rowBegin i) 0).2)
        / A.val.getD (scanLower A out i (A.colInd.size - A.rowBegin i) (A.rowBegin i) 0).1 0) x hx ?_⟩
    intro out out' i hi hag
    obtain ⟨e1, e2⟩ := h.scanLower_row hi out
    obtain ⟨e1', e2'⟩ := h.scanLower_row hi out'
    simp only [e1, e2, e1', e2']
    congr 3
    exact Finset.sum_congr rfl (fun j hj => by rw [hag j (Finset.mem_range.mp hj)])
  obtain ⟨y, hy, hsz, hval⟩ := hex
  rw [hy]
  refine ⟨hsz, fun i hi => ?_⟩
  have hv := hval i hi
  obtain ⟨e1, e2⟩ := h.scanLower_row hi y
  rw [e1, e2] at hv
  rw [hv]
  have := hd i hi
  field_simp
  ring

/-- SSOR backward insertion: `(D + ωU) z = D y` -/
theorem ssorBwd_spec (ω : α) (A : Csr α) (hA : sortedDiag A = true)
    (hd : ∀ i, i < A.rows → A.entry i i ≠ 0) (y : Array α) (hy : y.size = A.rows) :
    (ssorBwd ω A y).size = A.rows ∧
    ∀ i, i < A.rows →
      A.entry i i * (ssorBwd ω A y).getD i 0
          + ω * ∑ j ∈ Ico (i + 1) A.rows, A.entry i j * (ssorBwd ω A y).getD j 0
        = A.entry i i * y.getD i 0 := by
  have h := SortedDiag.of_bool hA
  have hex : ∃ z, ssorBwd ω A y = z ∧ z.size = A.rows ∧ ∀ i, i < A.rows → z.getD i 0
      = y.getD i 0 - ω * (scanUpper A z i (A.rowEnd i) (A.rowEnd i - 1) 0).2
        / A.val.getD (scanUpper A z i (A.rowEnd i) (A.rowEnd i - 1) 0).1 0 := by
    refine ⟨_, rfl, bwd_fold A.rows
      (fun c out i => c - ω * (scanUpper A out i (A.rowEnd i) (A.rowEnd i - 1) 0).2
        / A.val.getD (scanUpper A out i (A.rowEnd i) (A.rowEnd i - 1) 0).1 0) y hy ?_⟩
    intro c out out' i hi hag
    obtain ⟨e1, e2⟩ := h.scanUpper_row hi out
    obtain ⟨e1', e2'⟩ := h.scanUpper_row hi out'
    simp only [e1, e2, e1', e2']
    congr 3
    exact Finset.sum_congr rfl (fun j hj => by rw [hag j (by have := Finset.mem_Ico.mp hj; omega)])
  obtain ⟨z, hz, hsz, hval⟩ := hex
  rw [hz]
  refine ⟨hsz, fun i hi => ?_⟩
  have hv := hval i hi
  obtain ⟨e1, e2⟩ := h.scanUpper_row hi z
  rw [e1, e2] at hv
  rw [hv]
  have := hd i hi
  field_simp
  ring

omit [Field α] in
/-- `diag_index` of a sorted row with stored diagonal is the diagonal position -/
theorem SortedDiag.diagIndex_eq {A : Csr α} (h : SortedDiag A) {i p : Nat} (hi : i < A.rows)
    (hp1 : A.rowBegin i ≤ p) (hp2 : p < A.rowEnd i) (hp3 : A.colInd.getD p 0 = i)
    (hlo : ∀ k, A.rowBegin i ≤ k → k < p → A.colInd.getD k 0 < i) : diagIndex A i = p := by
  have hf : (List.range' (A.rowBegin i) (A.rowEnd i - A.rowBegin i)).find?
      (fun col => A.colInd.getD col A.cols == i) = some p := by
    rw [List.find?_range'_eq_some]
    refine ⟨?_, List.mem_range'_1.mpr ⟨hp1, by omega⟩, fun j hj1 hj2 => ?_⟩
    · rw [h.getD_cols hi hp2, hp3]; exact beq_self_eq_true i
    · rw [h.getD_cols hi (by omega)]
      have := hlo j hj1 hj2
      simp only [Bool.not_eq_true', beq_eq_false_iff_ne, ne_eq]
      omega
  unfold diagIndex
  rw [hf]

/-- `extract_diag` finds the diagonal entry of the dense meaning -/
theorem extractDiag_getD (A : Csr α) (hA : sortedDiag A = true) (i : Nat) (hi : i < A.rows) :
    (extractDiag A).getD i 0 = A.entry i i := by
  have h := SortedDiag.of_bool hA
  obtain ⟨p, hp1, hp2, hp3, hlo, hup⟩ := h.pos hi
  have hne : p ≠ A.usedElements := by
    have := Csr.rowEnd_le h.wf hi
    have := h.wf.colSize
    unfold Csr.usedElements
    omega
  unfold extractDiag
  rw [getD_ofFn _ i hi]
  simp only [h.diagIndex_eq hi hp1 hp2 hp3 hlo, bne_iff_ne, ne_eq, hne, not_false_eq_true, if_true]
  exact (h.entry_diag hi hp1 hp2 hp3 hlo hup).symm

end FeatModel.Solver
