import FeatModel.Lemmas.C02Transpose
import FeatModel.Lemmas.C02Permute
import FeatModel.Lemmas.C02Chains
import FeatModel.Lemmas.C02Convert
import FeatModel.Lemmas.C02Clone
import FeatModel.Lemmas.C02Cscr
import FeatModel.Lemmas.C02Banded
import FeatModel.Lemmas.C02ChainSpec
import FeatModel.Lemmas.C02Alias
import FeatModel.Lemmas.C02BcsrPerm
import FeatModel.Lemmas.C02Rebuild
import FeatModel.Lemmas.C02Round
import FeatModel.Lemmas.C02XClone
import FeatModel.Lemmas.C02Abort
import FeatModel.Lemmas.C02Valid
import FeatModel.Lemmas.C02Misc
import FeatModel.Lemmas.C02BandRect
import FeatModel.Lemmas.C02FailX
import FeatModel.Lemmas.C02AnyChain
/-!
# C02 — conversion, cloning, transposition and permutation preserve the matrix (property theorems)

All statements are about the model functions that `drv_c02` executes (`FeatModel.LA.Csr.transpose`, `Csr.permute`,
`Csr.toBanded`, `Bcsr.toCsr`, `Dense.transpose`, `Heap.clone`, `cloneObservation`, …); the correspondence run ties
those to `SparseMatrixCSR::transpose / permute / convert`, `SparseMatrixBanded::convert`, `Arch::Transpose` and
`Container::clone` of /repo.  The mathematical matrix of a container is `entry i j` (a left fold `0 + v₁ + …` over
the stored values at `(i, j)`); the scalar type only needs `[Zero α] [Add α]` — no algebraic law is used, both sides
are shown to be the same fold.  "Structurally valid layout" is `Csr.valid`: monotone row pointers starting at 0 and
ending at the number of entries, in-range strictly increasing column indices in every row — or no layout arrays at
all (the entry-free container `SparseMatrixCSR(rows, cols)`).  All theorems hold for all sizes.

**Modelled as unbounded.**  `Index`, the index types `IT_` (`unsigned int`, `unsigned long`), all array sizes, loop counters and
scratch buffers of the C++ code are `Nat` / `Array` here, and the scalars are exact (`Rat`, or any `[Zero α] [Add α]`).  The
theorems therefore cannot see narrowing casts (`IT_(…)` in transpose / convert / permute, `int(row)` in the BCSR line interface),
the scratch arrays of the counting sort (`cols + 1` buckets) and of `permute` (`new IT_[rows+1]`, `new DT_[nnz]`), `MemoryPool`'s
rounding of allocations to multiples of 4 elements, `SparseVector`'s 1000-slot allocation step, the quadratic in-row insertion sort,
or the linear `row_numbers` search of CSCR.  What ties these to the model is the correspondence sub-stream `boundary-sizes` of
`checks/props/c02.py`: sizes, indices and counts just below, at and above 128, 256, 1000 (thorough: 32768 and 2^16 = 65536), with the
content at the high end (last rows, highest columns), rows with ≥ 256 entries, ≥ 256 used CSCR rows, every column permutation of
rows with 3–6 entries / blocks — executed on the real code, compared with these models and judged by the independent oracle.
Index values ≥ 2^32 are not reachable (memory); for them only `C02.stepX_itx_eq` / `C02.widen_back_id` (identity iff they fit) speak.
-/
open FeatModel FeatModel.LA

/-! ### transposition -/

/-- a single transpose (loop-for-loop model of the counting sort with pointer bump, including the entry-free
    early-out): swapped dimensions, valid layout, entries `(i,j) -> (j,i)` -/
theorem C02.transpose_spec {α : Type} [Zero α] [Add α] (A : Csr α) (h : A.valid = true) :
    A.transpose.rows = A.cols ∧ A.transpose.cols = A.rows ∧ A.transpose.valid = true ∧
    ∀ i j, i < A.rows → j < A.cols → A.transpose.entry j i = A.entry i j :=
  C02L.transpose_spec A h

/-- transposing twice yields a valid container of the original dimensions representing the same matrix -/
theorem C02.transpose_transpose {α : Type} [Zero α] [Add α] (A : Csr α) (h : A.valid = true) :
    A.transpose.transpose.rows = A.rows ∧ A.transpose.transpose.cols = A.cols ∧
    A.transpose.transpose.valid = true ∧
    ∀ i j, i < A.rows → j < A.cols → A.transpose.transpose.entry i j = A.entry i j :=
  C02L.transpose_transpose A h

/-- the entry-free 3x5 matrix (finding F5, repaired in /repo): its transpose is 5x3 -/
example : (Csr.entryFree 3 5 : Csr Nat).transpose.rows = 5 ∧ (Csr.entryFree 3 5 : Csr Nat).transpose.cols = 3 := by
  decide

/-- the hypothesis `valid` is satisfiable by a matrix with an empty row and a rectangular shape … -/
example : (⟨3, 4, #[0, 2, 2, 3], #[0, 3, 1], #[5, 7, 9]⟩ : Csr Nat).valid = true := by decide +kernel
/-- … and by the entry-free container -/
example : (Csr.entryFree 3 5 : Csr Nat).valid = true := by decide

/-- `DenseMatrix::transpose` (`Arch::Transpose::value_generic`) -/
theorem C02.dense_transpose_spec {α : Type} [Zero α] (A : Dense α) (h : A.wf = true) :
    A.transpose.rows = A.cols ∧ A.transpose.cols = A.rows ∧ A.transpose.wf = true ∧
    ∀ i j, i < A.rows → j < A.cols → A.transpose.entry j i = A.entry i j :=
  C02L.Conv.dense_transpose_spec A h

/-! ### permutation -/

/-- `permute(P, Q)` with bijections `p`, `q` of the row / column index sets: the result exists (no abort), has the
    same dimensions, a valid layout (rows re-sorted by the in-place insertion sort) and
    `B(i, j) = A(p i, q j)` -/
theorem C02.permute_spec {α : Type} [Zero α] [Add α] (A : Csr α) (p q : Array Nat)
    (hA : A.valid = true) (hne : A.isArrayless = false)
    (hp : Csr.isPerm p = true) (hq : Csr.isPerm q = true) (hps : p.size = A.rows) (hqs : q.size = A.cols) :
    ∃ B, A.permute p q = some B ∧ B.rows = A.rows ∧ B.cols = A.cols ∧ B.valid = true ∧
      ∀ i j, i < A.rows → j < A.cols → B.entry i j = A.entry (p.getD i 0) (q.getD j 0) :=
  C02L.permute_spec A p q hA hne hp hq hps hqs

/-- permuting with `(p, q)` and then with the inverse permutations restores the matrix -/
theorem C02.permute_inverse {α : Type} [Zero α] [Add α] (A : Csr α) (p q : Array Nat)
    (hA : A.valid = true) (hne : A.isArrayless = false)
    (hp : Csr.isPerm p = true) (hq : Csr.isPerm q = true) (hps : p.size = A.rows) (hqs : q.size = A.cols) :
    ∃ B C, A.permute p q = some B ∧ B.permute (Csr.invPerm p) (Csr.invPerm q) = some C ∧
      C.rows = A.rows ∧ C.cols = A.cols ∧ C.valid = true ∧
      ∀ i j, i < A.rows → j < A.cols → C.entry i j = A.entry i j :=
  C02L.permute_inverse A p q hA hne hp hq hps hqs

example : Csr.isPerm #[2, 0, 1] = true := by decide +kernel

/-! ### format conversion -/

/-- `SparseMatrixCSR::convert(const SparseMatrixBCSR &)` for every block shape -/
theorem C02.bcsr_toCsr_spec {α : Type} [Zero α] [Add α] (A : Bcsr α) (h : A.wf = true) (hbh : 0 < A.bh)
    (hbw : 0 < A.bw) :
    A.toCsr.rows = A.rows * A.bh ∧ A.toCsr.cols = A.cols * A.bw ∧
    (A.toCsr.isArrayless = true ∨ A.toCsr.wf = true) ∧
    ∀ i j, i < A.rows * A.bh → j < A.cols * A.bw → A.toCsr.entry i j = A.entry i j :=
  C02L.Conv.bcsr_toCsr_spec A h hbh hbw

/-- `SparseMatrixCSR::convert(const SparseMatrixBanded &)` (loop-for-loop model of the window double loop with the
    running `ue` counter) for every offset set and rectangular shape: same dimensions, valid CSR layout (all row
    pointers written, rows in ascending order, strictly increasing columns), same matrix -/
theorem C02.banded_toCsr_spec {α : Type} [Zero α] [Add α] (B : Banded α) (h : B.wf = true) :
    B.toCsr.rows = B.rows ∧ B.toCsr.cols = B.cols ∧ B.toCsr.valid = true ∧
    ∀ i j, i < B.rows → j < B.cols → B.toCsr.entry i j = B.entry i j :=
  C02L.banded_toCsr_spec B h

/-- `SparseMatrixBanded::convert(const SparseMatrixCSR &)`: no abort for a matrix with entries, valid band layout
    (strictly increasing offsets inside the matrix), same matrix.  A position on a created band that holds no CSR
    entry reads as `0 + 0`, hence the one hypothesis on the scalars. -/
theorem C02.csr_toBanded_spec {α : Type} [Zero α] [Add α] (A : Csr α) (h : A.valid = true)
    (hnz : 0 < A.usedElements) (h0 : (0 : α) + 0 = 0) :
    ∃ B, A.toBanded = some B ∧ B.rows = A.rows ∧ B.cols = A.cols ∧ B.wf = true ∧
      ∀ i j, i < A.rows → j < A.cols → B.entry i j = A.entry i j :=
  C02L.Conv.csr_toBanded_spec A h hnz h0

/-- the instance the driver runs (`Rat`) -/
theorem C02.csr_toBanded_spec_rat (A : Csr Rat) (h : A.valid = true) (hnz : 0 < A.usedElements) :
    ∃ B, A.toBanded = some B ∧ B.rows = A.rows ∧ B.cols = A.cols ∧ B.wf = true ∧
      ∀ i j, i < A.rows → j < A.cols → B.entry i j = A.entry i j :=
  C02L.Conv.csr_toBanded_spec_rat A h hnz

/-- `SparseMatrixCSCR::convert(const MT_ &)` from CSR for every well-formed matrix — empty rows anywhere (finding D2,
    repaired in /repo), and an entry-free source yields the entry-free CSCR container without arrays (finding D3, repaired) -/
theorem C02.csr_toCscr_spec {α : Type} [Zero α] [Add α] (A : Csr α) (h : A.wf = true) :
    A.toCscr.rows = A.rows ∧ A.toCscr.cols = A.cols ∧ (A.toCscr.isArrayless = true ∨ A.toCscr.wf = true) ∧
    ∀ i j, i < A.rows → j < A.cols → A.toCscr.entry i j = A.entry i j :=
  C02L.csr_toCscr_spec A h

/-- `SparseMatrixCSR::convert(const MT_ &)` from CSCR — with empty rows anywhere (finding D6, repaired in /repo: the line
    interface of CSCR looks the row number up in `row_numbers`): whenever it does not abort (i.e. the matrix has
    entries), the result is the same matrix -/
theorem C02.cscr_toCsr_spec {α : Type} [Zero α] [Add α] (A : Cscr α) (h : A.wf = true) (B : Csr α)
    (hB : A.toCsr = some B) :
    B.rows = A.rows ∧ B.cols = A.cols ∧ B.wf = true ∧
    ∀ i j, i < A.rows → j < A.cols → B.entry i j = A.entry i j :=
  C02L.cscr_toCsr_spec A h B hB

/-- `SparseMatrixBCSR::transpose` for every valid block matrix, including the entry-free one (finding D4, repaired in
    /repo): swapped block shape and dimensions, valid layout, scalar entries `(i,j) -> (j,i)` -/
theorem C02.bcsr_transpose_spec {α : Type} [Zero α] [Add α] (A : Bcsr α) (h : A.valid = true) (hbh : 0 < A.bh)
    (hbw : 0 < A.bw) :
    A.transpose.bh = A.bw ∧ A.transpose.bw = A.bh ∧ A.transpose.rows = A.cols ∧ A.transpose.cols = A.rows ∧
    A.transpose.valid = true ∧
    ∀ i j, i < A.rows * A.bh → j < A.cols * A.bw → A.transpose.entry j i = A.entry i j :=
  C02L.bcsr_transpose_spec A h hbh hbw

/-- the entry-free 1x2-block matrix of finding D4: its transpose has 2x1 blocks -/
example : ((⟨2, 3, 1, 2, #[], #[], #[]⟩ : Bcsr Nat).transpose.rows, (⟨2, 3, 1, 2, #[], #[], #[]⟩ : Bcsr Nat).transpose.cols)
    = (2, 1) := by decide

/-! ### cloning (heap model: containers hold array ids; `okIn` = the ids are allocated) -/

/-- every clone mode yields a container that reads the same values (same matrix), and leaves the source alone -/
theorem C02.clone_reads_same {α : Type} (h : Heap α) (c : Handle) (hok : C02L.Handle.okIn c h) (m : CloneMode)
    (k : Nat) (dflt : α) :
    (h.clone c m).1.read (h.clone c m).2 k dflt = h.read c k dflt ∧ (h.clone c m).1.read c k dflt = h.read c k dflt :=
  ⟨C02L.clone_reads_same h c hok m k dflt, C02L.clone_source_unchanged h c hok m k dflt⟩

/-- deep, weak (and layout) clones are value-independent of their source: a write through either container is
    invisible through the other -/
theorem C02.clone_independent {α : Type} (h : Heap α) (c : Handle) (hok : C02L.Handle.okIn c h) (m : CloneMode)
    (hm : m ≠ .shallow) (k k' : Nat) (v dflt : α) :
    ((h.clone c m).1.write c k v).read (h.clone c m).2 k' dflt = (h.clone c m).1.read (h.clone c m).2 k' dflt ∧
    ((h.clone c m).1.write (h.clone c m).2 k v).read c k' dflt = (h.clone c m).1.read c k' dflt :=
  C02L.clone_independent h c hok m hm k k' v dflt

/-- shallow clones alias their source: a write through either container is seen through the other -/
theorem C02.clone_shallow_alias {α : Type} (h : Heap α) (c : Handle) (k : Nat)
    (v dflt : α) (hk : k < h.valSize c) :
    ((h.clone c .shallow).1.write c k v).read (h.clone c .shallow).2 k dflt = v ∧
    ((h.clone c .shallow).1.write (h.clone c .shallow).2 k v).read c k dflt = v :=
  C02L.clone_shallow_alias h c k v dflt hk

/-- which arrays are shared: shallow = everything; weak / layout = the index arrays, fresh value arrays;
    deep = nothing -/
theorem C02.clone_sharing {α : Type} (h : Heap α) (c : Handle) :
    (h.clone c .shallow).2 = c ∧
    (h.clone c .weak).2.idxs = c.idxs ∧ (h.clone c .layout).2.idxs = c.idxs ∧
    (∀ id ∈ (h.clone c .weak).2.vals, h.vals.size ≤ id) ∧ (∀ id ∈ (h.clone c .layout).2.vals, h.vals.size ≤ id) ∧
    (∀ id ∈ (h.clone c .deep).2.vals, h.vals.size ≤ id) ∧ (∀ id ∈ (h.clone c .deep).2.idxs, h.idxs.size ≤ id) :=
  ⟨(C02L.clone_shallow_shares h c).1, (C02L.clone_weak_shares_idx h c).1, (C02L.clone_weak_shares_idx h c).2,
   C02L.clone_weak_fresh_vals h c, C02L.clone_layout_fresh_vals h c, C02L.clone_deep_fresh_vals h c,
   C02L.clone_deep_fresh_idx h c⟩

/-- the four aliasing flags the harness observes on the real containers (value arrays shared, index arrays shared,
    write through the source seen by the clone, and vice versa), as computed by the driver, for every clone mode -/
theorem C02.clone_observation_table {α : Type} [DecidableEq α] (h : Heap α) (c : Handle) (hok : C02L.Handle.okIn c h)
    (m : CloneMode) (mark dflt : α) (hmark : ∀ k, h.read c k dflt ≠ mark) (hmd : dflt ≠ mark) :
    cloneObservation h c m mark dflt = match m with
      | .shallow => (!c.vals.isEmpty, !c.idxs.isEmpty, decide (0 < h.valSize c), decide (0 < h.valSize c))
      | .layout | .weak => (false, !c.idxs.isEmpty, false, false)
      | .deep | .allocate => (false, false, false, false) :=
  C02L.cloneObservation_table h c hok m mark dflt hmark hmd

/-- `CloneMode::Allocate`: fresh index arrays and fresh value arrays, nothing shared with the source -/
theorem C02.clone_allocate_fresh {α : Type} (h : Heap α) (c : Handle) :
    (∀ id ∈ (h.clone c .allocate).2.vals, h.vals.size ≤ id) ∧ (∀ id ∈ (h.clone c .allocate).2.idxs, h.idxs.size ≤ id) :=
  C02L.clone_allocate_fresh h c

/-! ### chains -/

/-- Any finite chain of the modelled operations (`Mat.run` folds `Mat.step`, the function `drv_c02` executes for every
    operation token: format conversions between CSR / banded / CSCR / BCSR, clones, layout / graph rebuilds, transposes
    in and out of place, permutations, type round trips) on a container of any of the five formats: if the chain runs
    through (no abort), the result has a valid layout, the dimensions of the textbook chain (`semRun`: transposes
    swap, permutations relabel, everything else is the identity) and represents the textbook matrix.  `chainOk` only
    demands that every permutation is a bijection of the current index sets. -/
theorem C02.chain_spec {α : Type} [Zero α] [Add α] (h0 : (0 : α) + 0 = 0) (ops : List Op) (m m' : Mat α)
    (hv : m.valid = true) (hok : chainOk ops (⟨m.rows, m.cols, m.entry⟩ : Sem α) = true)
    (hrun : m.run ops = some m') :
    m'.valid = true ∧
    m'.rows = (semRun ops ⟨m.rows, m.cols, m.entry⟩).rows ∧ m'.cols = (semRun ops ⟨m.rows, m.cols, m.entry⟩).cols ∧
    ∀ i j, i < m'.rows → j < m'.cols → m'.entry i j = (semRun ops ⟨m.rows, m.cols, m.entry⟩).f i j :=
  C02L.chain_spec h0 ops m m' hv hok hrun

/-! ### aliased and pre-existing targets (`target.transpose(source)`, `convert`, `clone`, `copy`) -/

/-- `DenseMatrix::transpose(x)` on any well-formed target — fresh, same shape, transposed shape (buffer reuse), another
    shape, or sharing its memory with `x` (the object itself / a shallow clone; the kernel then works from a temporary
    copy): the target afterwards is exactly the fresh-target transpose (loop-for-loop model of the kernel) -/
theorem C02.dense_transposeInto_alias {α : Type} [Zero α] (t x : Dense α) (shared : Bool) (hx : x.wf = true)
    (ht : t.wf = true) (hs : shared = true → t.rows = x.rows ∧ t.cols = x.cols) :
    (Dense.transposeInto t x shared).1 = x.transpose :=
  C02L.dense_transposeInto_alias t x shared hx ht hs

/-- … and the source afterwards is untouched, unless target and source share their memory and the buffer is reused
    (square matrix): then — as documented for shallow clones — the source shows the result -/
theorem C02.dense_transposeInto_source {α : Type} [Zero α] (t x : Dense α) (shared : Bool) (hx : x.wf = true)
    (ht : t.wf = true) (hs : shared = true → t.rows = x.rows ∧ t.cols = x.cols) :
    (Dense.transposeInto t x shared).2 = x ∨
    (shared = true ∧ x.rows = x.cols ∧ (Dense.transposeInto t x shared).2 = x.transpose) :=
  C02L.dense_transposeInto_source t x shared hx ht hs

/-- Every call of a two-argument member on the object itself or on a pre-existing target of any kind that the model
    accepts (`Mat.stepAlias`, the function `drv_c02` executes for `trs | trt k | convs | convt k f | clonet k m | copys |
    copyt k`) yields exactly the container of the corresponding fresh-target operation (`AOp.base`, covered by
    `C02.chain_spec`), and leaves the source as it was — except a shallow-clone target of a square dense matrix, where
    the source shows the result as well. -/
theorem C02.stepAlias_agrees {α : Type} [Zero α] (fill : α) (m : Mat α) (hv : m.valid = true) (a : AOp) :
    (∀ t s, m.stepAlias fill a = .ok t s →
        (∃ o, a.base m.fmt = some o ∧ m.step o = .ok t) ∧ (s = m ∨ (m.rows = m.cols ∧ s = t))) ∧
    (∀ t, m.stepAlias fill a = .self t → ∃ o, a.base m.fmt = some o ∧ m.step o = .ok t) :=
  C02L.stepAlias_agrees fill m hv a

/-! ### extension round: block / vector permutation, rebuilds, type conversions, `transpose_inplace` -/

/-- `SparseMatrixBCSR::permute(P, Q)` (permutations of the block rows / columns, the CSR algorithm on the block pattern):
    the result exists, has a valid layout and `B(i,j) = A(p(i/bh)·bh + i%bh, q(j/bw)·bw + j%bw)` -/
theorem C02.bcsr_permute_spec {α : Type} [Zero α] [Add α] (A : Bcsr α) (p q : Array Nat)
    (hA : A.valid = true) (hne : A.isArrayless = false) (hbh : 0 < A.bh) (hbw : 0 < A.bw)
    (hp : Csr.isPerm p = true) (hq : Csr.isPerm q = true) (hps : p.size = A.rows) (hqs : q.size = A.cols) :
    ∃ B, A.permute p q = some B ∧ B.bh = A.bh ∧ B.bw = A.bw ∧ B.rows = A.rows ∧ B.cols = A.cols ∧ B.valid = true ∧
      ∀ i j, i < A.rows * A.bh → j < A.cols * A.bw →
        B.entry i j = A.entry (p.getD (i / A.bh) 0 * A.bh + i % A.bh) (q.getD (j / A.bw) 0 * A.bw + j % A.bw) :=
  C02L.bcsr_permute_spec A p q hA hne hbh hbw hp hq hps hqs

/-- `DenseVector::permute(P)`: `y[i] = x[p i]` -/
theorem C02.vecPermute_spec {α : Type} [Zero α] (x : Array α) (p : Array Nat) (hp : p.size = x.size) (hpos : 0 < p.size) :
    ∃ y, vecPermute x p = some y ∧ y.size = x.size ∧ ∀ i, i < x.size → y.getD i 0 = x.getD (p.getD i 0) 0 :=
  C02L.vecPermute_spec x p hp hpos

/-- rebuilding from the layout object (constructor `layoutz`, or `operator=` on a pre-existing target `layouta k`), for
    CSR / banded / CSCR / BCSR: valid layout, same dimensions, exactly the source's index arrays and a value array of
    exactly the source's length (BCSR: blocks·bh·bw) — `mapVal (fun _ => 0)` erases the values and nothing else — and the
    zero matrix after `format()`; the source is untouched -/
theorem C02.layout_rebuild_spec {α : Type} [Zero α] [Add α] (h0 : (0 : α) + 0 = 0) (round : α → α) (m t : Mat α)
    (s : Option (Mat α)) (hv : m.valid = true) (o : XOp) (ho : o = .layoutz ∨ ∃ k, o = .layouta k)
    (h : m.stepX round o = .ok t s) :
    (s = none ∨ s = some m) ∧
    t.valid = true ∧ t.rows = m.rows ∧ t.cols = m.cols ∧
    t.mapVal (fun _ => (0 : α)) = m.mapVal (fun _ => (0 : α)) ∧ (∀ i j, t.entry i j = 0) :=
  C02L.stepX_layout_spec h0 round m hv o ho t s h

/-- rebuilding a CSR matrix from its adjacency graph (`SparseMatrixCSR(graph)`): same pattern, zero values -/
theorem C02.graph_rebuild_spec {α : Type} [Zero α] [Add α] (h0 : (0 : α) + 0 = 0) (round : α → α) (A : Csr α)
    (hv : A.valid = true) (t : Mat α) (s : Option (Mat α)) (h : (Mat.csr A).stepX round .graphz = .ok t s) :
    ∃ B, t = .csr B ∧ B.valid = true ∧ B.rows = A.rows ∧ B.cols = A.cols ∧ B.rowPtr = A.rowPtr ∧ B.colInd = A.colInd ∧
      B.val.size = A.val.size ∧ ∀ i j, B.entry i j = 0 :=
  C02L.graph_rebuild_spec h0 round A hv t s h

/-- index-type round trip (u32 <-> u64, every index passes through 32 bits): the identity — i.e. equal to the `it` step
    of `C02.chain_spec` — for every valid container whose sizes fit 32 bits (all that can be allocated) -/
theorem C02.stepX_itx_eq {α : Type} [Zero α] (round : α → α) (m : Mat α) (hv : m.valid = true) (hf : C02L.sizeFit m) :
    m.stepX round .itx = .ok m none ∧ m.step .it = .ok m :=
  C02L.stepX_itx_valid round m hv hf

/-- data-type round trip `Q -> double -> float -> Q` (truncation to 53 bits, then round-to-nearest-even to 24 bits):
    the identity on every float-representable value `± m · 2^e`, `m < 2^24` … -/
theorem C02.roundDt_exact (m : Nat) (hm : m < 2 ^ 24) (e : Int) (neg : Bool) :
    roundDt ((if neg then -1 else 1) * (m : Rat) * 2 ^ e) = (if neg then -1 else 1) * (m : Rat) * 2 ^ e :=
  C02L.roundDt_exact_zpow m hm e neg

/-- … and genuinely a rounding elsewhere (the three probes the correspondence run replays on the real code) -/
theorem C02.roundDt_probes :
    roundDt (1 / 3) = 11184811 / 33554432 ∧ roundDt 16777217 = 16777216 ∧ roundDt (-33554435 / 2) = -16777218 :=
  ⟨C02L.roundDt_probe_third, C02L.roundDt_probe_2p24p1, C02L.roundDt_probe_neg⟩

/-- `DenseMatrix::transpose_inplace()` (kernel on the own buffer through a temporary copy, then the dimensions
    swapped) is the transpose: the driver's step equals the `tri` step of `C02.chain_spec` -/
theorem C02.transposeInplace_eq {α : Type} [Zero α] (round : α → α) (m : Mat α) (hv : m.valid = true) (t : Mat α)
    (s : Option (Mat α)) (h : m.stepX round .triDense = .ok t s) : m.step .tri = .ok t ∧ s = none :=
  C02L.stepX_triDense_eq round m hv t s h

/-! ### cross-type clones `X<DT,IT>::clone(const X<DT2,IT2>&, mode)` = `t.assign(other); clone(t, mode)` -/

/-- THE SHARING TABLE of the cross-type clone for every clone mode and type combination (`dDiff` / `iDiff` = data /
    index type of source and target differ; `assign` shares arrays of unchanged type and converts the others):
    the value arrays are the source's iff `shallow` and the same data type, otherwise all fresh;
    the index arrays are the source's iff `shallow | layout | weak` and the same index type, otherwise all fresh -/
theorem C02.xclone_sharing_table {α : Type} (f : α → α) (h : Heap α) (c : Handle) (dDiff iDiff : Bool) (m : CloneMode) :
    ((m = .shallow ∧ dDiff = false → (h.xclone f c dDiff iDiff m).2.vals = c.vals) ∧
     (¬ (m = .shallow ∧ dDiff = false) → ∀ id ∈ (h.xclone f c dDiff iDiff m).2.vals, h.vals.size ≤ id)) ∧
    (((m = .shallow ∨ m = .layout ∨ m = .weak) ∧ iDiff = false → (h.xclone f c dDiff iDiff m).2.idxs = c.idxs) ∧
     (¬ ((m = .shallow ∨ m = .layout ∨ m = .weak) ∧ iDiff = false) →
       ∀ id ∈ (h.xclone f c dDiff iDiff m).2.idxs, h.idxs.size ≤ id)) :=
  ⟨C02L.xclone_vals_table f h c dDiff iDiff m, C02L.xclone_idxs_table f h c dDiff iDiff m⟩

/-- weak, deep, allocate (and layout) cross-type clones are value-independent of their source for EVERY type
    combination — in particular when only the index type differs and `assign` shares the value array with the source;
    so is a shallow one when the data type differs: a write through either container is invisible through the other -/
theorem C02.xclone_independent {α : Type} (f : α → α) (h : Heap α) (c : Handle) (hok : C02L.Handle.okIn c h)
    (dDiff iDiff : Bool) (m : CloneMode) (hne : ¬ (m = .shallow ∧ dDiff = false)) (k k' : Nat) (v dflt : α) :
    ((h.xclone f c dDiff iDiff m).1.write c k v).read (h.xclone f c dDiff iDiff m).2 k' dflt
      = (h.xclone f c dDiff iDiff m).1.read (h.xclone f c dDiff iDiff m).2 k' dflt ∧
    ((h.xclone f c dDiff iDiff m).1.write (h.xclone f c dDiff iDiff m).2 k v).read c k' dflt
      = (h.xclone f c dDiff iDiff m).1.read c k' dflt :=
  C02L.xclone_independent f h c hok dDiff iDiff m hne k k' v dflt

/-- a shallow cross-type clone with the same data type aliases the source's values, whatever the index type -/
theorem C02.xclone_shallow_alias {α : Type} (f : α → α) (h : Heap α) (c : Handle) (hok : C02L.Handle.okIn c h)
    (iDiff : Bool) (k : Nat) (v dflt : α) (hk : k < h.valSize c) :
    ((h.xclone f c false iDiff .shallow).1.write c k v).read (h.xclone f c false iDiff .shallow).2 k dflt = v ∧
    ((h.xclone f c false iDiff .shallow).1.write (h.xclone f c false iDiff .shallow).2 k v).read c k dflt = v :=
  C02L.xclone_shallow_alias f h c hok false iDiff rfl k v dflt hk

/-- content: the clone reads the (converted) source, the source is unchanged, and the result handle is valid again
    (so the three theorems above compose along a chain u64 -> u32 -> u64) -/
theorem C02.xclone_content {α : Type} (f : α → α) (h : Heap α) (c : Handle) (hok : C02L.Handle.okIn c h)
    (dDiff iDiff : Bool) (m : CloneMode) (k : Nat) (dflt : α) (hk : k < h.valSize c) :
    (h.xclone f c dDiff iDiff m).1.read (h.xclone f c dDiff iDiff m).2 k dflt
      = (if dDiff then f (h.read c k dflt) else h.read c k dflt) ∧
    (h.xclone f c dDiff iDiff m).1.read c k dflt = h.read c k dflt ∧
    C02L.Handle.okIn (h.xclone f c dDiff iDiff m).2 (h.xclone f c dDiff iDiff m).1 ∧
    C02L.Handle.okIn c (h.xclone f c dDiff iDiff m).1 :=
  ⟨C02L.xclone_reads f h c hok dDiff iDiff m k dflt hk, C02L.xclone_source_unchanged f h c hok dDiff iDiff m k dflt,
   C02L.xclone_okIn f h c hok dDiff iDiff m⟩

/-! ### abort freedom: the exact per-step precondition; the failures of the code as it is -/

/-- `Mat.failure` — read off the operand alone (format, emptiness, sizes) — classifies the outcome of every operation
    exactly: the model aborts iff the class is D10 / D7 / wrong permutation size, the operation does not exist iff
    `notApplicable`, and otherwise it yields a container -/
theorem C02.step_classify {α : Type} [Zero α] (m : Mat α) (o : Op) :
    (m.step o = .abort ↔ m.failure o = some .abortD10 ∨ m.failure o = some .abortD7 ∨
      m.failure o = some .abortPermSize) ∧
    (m.step o = .bad ↔ m.failure o = some .notApplicable) ∧
    ((∃ m', m.step o = .ok m') ↔ m.failure o = none ∨ m.failure o = some .crashD5) :=
  C02L.step_classify m o

/-- the code as it is (`Mat.stepCode`, what `drv_c02` prints): it yields a container iff the decidable precondition
    `Mat.pre` holds, and then the container of `Mat.step` -/
theorem C02.stepCode_ok_iff {α : Type} [Zero α] (m : Mat α) (o : Op) :
    ((∃ m', m.stepCode o = .ok m') ↔ m.pre o = true) ∧ (∀ m', m.stepCode o = .ok m' → m.step o = .ok m') :=
  ⟨C02L.stepCode_ok_iff m o, fun m' h => C02L.stepCode_ok_eq_step m m' o h⟩

/-- THE ABORT SET of the code as it is (after the repairs of D1, D3, D6, D9): exactly the open findings D10 (CSCR -> CSR
    of a matrix without entries) and D7 (CSR -> banded of a matrix without entries), and a permutation of the wrong size -/
theorem C02.stepCode_abort_iff {α : Type} [Zero α] (m : Mat α) (o : Op) :
    m.stepCode o = .abort ↔
      (∃ B, m = .cscr B ∧ o = .tocsr ∧ B.usedElements = 0) ∨
      (∃ A, m = .csr A ∧ o = .tobanded ∧ A.usedElements = 0) ∨
      (∃ A p q, m = .csr A ∧ o = .perm p q ∧ ¬(p.size = 0 ∧ q.size = 0) ∧ (p.size ≠ A.rows ∨ q.size ≠ A.cols)) :=
  C02L.stepCode_abort_iff m o

/-- THE CRASH SET of the code as it is: exactly the open finding D5 — the graph rebuild of an entry-free CSR matrix
    with at least one row -/
theorem C02.stepCode_crash_iff {α : Type} [Zero α] (m : Mat α) (o : Op) :
    m.stepCode o = .crash ↔ ∃ A, m = .csr A ∧ o = .graph ∧ A.usedElements = 0 ∧ 0 < A.rows :=
  C02L.stepCode_crash_iff m o

/-- `chain_spec` under the conjunction of the per-step preconditions (`runPre`) instead of "the chain ran through":
    the chain does run through — in the model and, step by step, in the code as it is (`runCode` folds `stepCode`) —
    and yields a valid container of the textbook dimensions representing the textbook matrix -/
theorem C02.chain_total {α : Type} [Zero α] [Add α] (h0 : (0 : α) + 0 = 0) (ops : List Op) (m : Mat α)
    (hv : m.valid = true) (hok : chainOk ops (⟨m.rows, m.cols, m.entry⟩ : Sem α) = true)
    (hpre : m.runPre ops = true) :
    ∃ m', m.run ops = some m' ∧ C02L.AbortAux.runCode ops m = some m' ∧ m'.valid = true ∧
      m'.rows = (semRun ops ⟨m.rows, m.cols, m.entry⟩).rows ∧
      m'.cols = (semRun ops ⟨m.rows, m.cols, m.entry⟩).cols ∧
      ∀ i j, i < m'.rows → j < m'.cols → m'.entry i j = (semRun ops ⟨m.rows, m.cols, m.entry⟩).f i j := by
  obtain ⟨m', h1, h2⟩ := C02L.chain_total h0 ops m hv hok hpre
  exact ⟨m', h1, by rw [C02L.runCode_eq_run_of_runPre ops m hpre]; exact h1, h2⟩

/-- … and `runPre` is exact: the code as it is runs through a chain iff `runPre` holds -/
theorem C02.runCode_some_iff {α : Type} [Zero α] (ops : List Op) (m : Mat α) :
    (∃ m', C02L.AbortAux.runCode ops m = some m') ↔ m.runPre ops = true :=
  C02L.runCode_some_iff ops m

/-! ### one invariant: every producer yields a structurally valid layout -/

/-- for every operation of the three families the driver executes (`Op`: conversions between all format pairs,
    transposes, permutation with re-sort, clones, rebuilds, type round trips; `AOp`: aliased / pre-existing targets;
    `XOp`: layout / graph rebuilds, block permutation, index / data type conversions, cross-type clones) whose side
    conditions hold (permutations are bijections of the index sets; indices fit 32 bits where an index type changes),
    EVERY container the step hands back — target and reported source — has a valid layout: monotone row pointers from 0
    to nnz, in-range strictly increasing column indices (`Mat.valid`, printed per step as `V1` by driver and harness) -/
theorem C02.valid_preserved {α : Type} [Zero α] [Add α] (h0 : (0 : α) + 0 = 0) (fill : α) (round : α → α) (m : Mat α)
    (hv : m.valid = true) (a : C02L.AnyOp) (hs : a.side m) :
    ∀ r, r ∈ a.outputs fill round m → r.valid = true :=
  C02L.valid_preserved h0 fill round m hv a hs

/-! ### type conversions: identity exactly on the representable values -/

/-- narrowing to a `p`-bit binary float (round to nearest even: double -> float, `p = 24`; truncation: `Q` -> double,
    `p = 53`) is the identity IFF the value is representable (`reprBits`, decidable), and always lands on a representable
    value -/
theorem C02.narrow_eq_iff (p : Nat) (hp : 0 < p) (x : Rat) :
    (rneBits p x = x ↔ reprBits p x = true) ∧ (truncBits p x = x ↔ reprBits p x = true) ∧
    reprBits p (rneBits p x) = true ∧ reprBits p (truncBits p x) = true :=
  ⟨C02L.rneBits_eq_iff p hp x, C02L.truncBits_eq_iff p hp x, C02L.rneBits_repr p hp x, C02L.truncBits_repr p hp x⟩

/-- converting to a wider type and back is the identity: float -> double -> float on every float value; the `dtw` step
    of the driver (Q -> float -> double -> float -> Q) is the `dt` step; u32 -> u64 -> u32 on every index array that
    fits; and index narrowing is the identity IFF the array fits (`fits32`, decidable) -/
theorem C02.widen_back_id (x : Rat) (h : reprBits 24 x = true) (m : Mat Rat) (a : Array Nat) :
    rneBits 24 (truncBits 53 x) = x ∧ m.stepX roundDt .dtw = m.stepX roundDt .dtx ∧
    (narrow32 a = a ↔ fits32 a = true) ∧ fits32 (narrow32 a) = true :=
  ⟨C02L.widen_back_id x h, C02L.dtw_eq_dtx m, C02L.narrow32_eq_iff a, C02L.narrow32_fits a⟩

/-! ### CSR <-> banded on rectangular shapes -/

/-- the band of entry `(i, j)` is `j − i + rows − 1` for EVERY shape — the column count never enters — and on a non-square
    matrix the `cols − 1` variant names a different band at every entry -/
theorem C02.bandOff_rectangular {α : Type} (A : Csr α) (i j : Nat) (hi : i < A.rows) :
    A.bandOff i j + i + 1 = j + A.rows ∧
    (A.rows ≠ A.cols → ∀ o, o + i + 1 = j + A.cols → A.bandOff i j ≠ o) :=
  ⟨C02L.bandOff_eq A i j hi, fun hne o ho => C02L.bandOff_ne_cols_variant A i j o hi hne ho⟩

/-- the offsets of `SparseMatrixBanded::convert(CSR)` for any rows, cols: strictly increasing, EXACTLY the bands
    `o = j − i + rows − 1` of the stored entries, all inside the matrix (`o + 2 ≤ rows + cols`) -/
theorem C02.csr_toBanded_offsets {α : Type} [Zero α] (A : Csr α) (h : A.wf = true) (hnz : 0 < A.usedElements) :
    ∃ B, A.toBanded = some B ∧ B.rows = A.rows ∧ B.cols = A.cols ∧
      B.offsets.toList.Pairwise (· < ·) ∧
      (∀ o, o ∈ B.offsets.toList ↔
        ∃ i k, i < A.rows ∧ A.rowBegin i ≤ k ∧ k < A.rowEnd i ∧ o + i + 1 = A.colInd.getD k 0 + A.rows) ∧
      (∀ o, o ∈ B.offsets.toList → o + 2 ≤ A.rows + A.cols) :=
  C02L.csr_toBanded_offsets A h hnz

/-- both round trips are the identity on the matrix for tall, wide and square shapes: CSR -> banded -> CSR for every valid
    matrix with entries, banded -> CSR -> banded for every well-formed banded matrix with a band position inside the matrix -/
theorem C02.banded_round_trips {α : Type} [Zero α] [Add α] (h0 : (0 : α) + 0 = 0) :
    (∀ A : Csr α, A.valid = true → 0 < A.usedElements →
      ∃ B, A.toBanded = some B ∧ B.toCsr.rows = A.rows ∧ B.toCsr.cols = A.cols ∧ B.toCsr.valid = true ∧
        ∀ i j, i < A.rows → j < A.cols → B.toCsr.entry i j = A.entry i j) ∧
    (∀ B : Banded α, B.wf = true → B.usedElements ≠ 0 →
      ∃ B', B.toCsr.toBanded = some B' ∧ B'.rows = B.rows ∧ B'.cols = B.cols ∧ B'.wf = true ∧
        ∀ i j, i < B.rows → j < B.cols → B'.entry i j = B.entry i j) :=
  ⟨fun A h hnz => C02L.csr_banded_csr h0 A h hnz, fun B h hnz => C02L.banded_csr_banded' h0 B h hnz⟩

/-- kernel-evaluated rectangular witnesses: a tall 3x2 and a wide 2x3 matrix get the bands {0, 2} resp. {1, 3}, not the
    `cols − 1` bands -/
theorem C02.toBanded_rectangular_examples :
    (Csr.toBanded (⟨3, 2, #[0,1,2,3], #[0,1,0], #[5,7,9]⟩ : Csr Nat)).map
      (fun B => (B.rows, B.cols, B.offsets, B.val)) = some (3, 2, #[0, 2], #[0, 0, 9, 5, 7, 0]) ∧
    (Csr.toBanded (⟨2, 3, #[0,2,3], #[0,2,1], #[5,7,9]⟩ : Csr Nat)).map
      (fun B => (B.rows, B.cols, B.offsets, B.val)) = some (2, 3, #[1, 3], #[5, 9, 7, 0]) ∧
    (Csr.toBanded (⟨2, 3, #[0,2,3], #[0,2,1], #[5,7,9]⟩ : Csr Nat)).map (·.offsets) ≠ some #[2, 4] :=
  ⟨C02L.toBanded_tall_example, C02L.toBanded_wide_example, C02L.toBanded_wide_not_cols⟩

/-! ### failure classes of the aliased-target and the extension operations -/

/-- THE ABORT SET of the aliased / pre-existing-target operations: the documented self-clone assertion, and the conversion of
    an entry-free operand (open findings D10: CSCR -> CSR, D7: CSR -> banded) -/
theorem C02.stepAlias_abort_iff {α : Type} [Zero α] (fill : α) (m : Mat α) (a : AOp) :
    m.stepAlias fill a = .abort ↔
      (∃ md, a = .clones md) ∨
      (∃ k B, a = .convt k .csr ∧ m = .cscr B ∧ (k = 0 ∨ k = 1 ∨ k = 3) ∧ B.usedElements = 0) ∨
      (∃ k A, a = .convt k .banded ∧ m = .csr A ∧ (k = 0 ∨ k = 1 ∨ k = 3) ∧ A.usedElements = 0) :=
  C02L.stepAlias_abort_iff fill m a

/-- THE ABORT and CRASH SETS of the extension operations (as printed by the driver): only a block permutation of the wrong
    size aborts; only the graph rebuild of an entry-free CSR matrix with rows crashes (open finding D5) -/
theorem C02.stepX_fail_iff {α : Type} [Zero α] (round : α → α) (m : Mat α) (x : XOp) :
    (m.stepX round x = .abort ↔
      ∃ A p q, x = .bperm p q ∧ m = .bcsr A ∧ ¬(p.size = 0 ∧ q.size = 0) ∧ (p.size ≠ A.rows ∨ q.size ≠ A.cols)) ∧
    (m.crashesX x = true ↔ ∃ A, x = .graphz ∧ m = .csr A ∧ A.usedElements = 0 ∧ 0 < A.rows) :=
  ⟨C02L.stepX_abort_iff round m x, C02L.crashesX_iff m x⟩

/-! ### one chain theorem over all three operation families -/

/-- Any finite chain mixing the plain operations (`Op`), the aliased / pre-existing-target calls (`AOp`; the chain continues
    with the target) and the extension operations (`XOp`: layout / graph rebuilds = the zero matrix of the same shape,
    index-type round trips under `sizeFit`, `transpose_inplace`, cross-type clones of the same data type), with a block
    permutation (`bperm`, announced block shape checked against the container) at any place: if it runs through and the side
    conditions hold along the run (`anyChainOkB`), the result is valid, has the textbook dimensions and represents the textbook
    matrix.  Value-rounding steps (`dtx`, `dtw`, `xclone` with another data type) are excluded by `anyChainOkB`. -/
theorem C02.anychain_spec {α : Type} [Zero α] [Add α] (h0 : (0 : α) + 0 = 0) (fill : α) (round : α → α)
    (as : List (C02L.AnyOp × Nat × Nat)) (m m' : Mat α) (hv : m.valid = true)
    (hok : C02L.anyChainOkB fill round as m ⟨m.rows, m.cols, m.entry⟩)
    (hrun : C02L.anyRun fill round (as.map Prod.fst) m = some m') :
    m'.valid = true ∧
    m'.rows = (C02L.anySemRunB as ⟨m.rows, m.cols, m.entry⟩).rows ∧
    m'.cols = (C02L.anySemRunB as ⟨m.rows, m.cols, m.entry⟩).cols ∧
    ∀ i j, i < m'.rows → j < m'.cols → m'.entry i j = (C02L.anySemRunB as ⟨m.rows, m.cols, m.entry⟩).f i j :=
  C02L.anychain_spec_b h0 fill round as m m' hv hok hrun

/-!
### Covered by the correspondence run only (no theorem here)
* chains containing a value-rounding step (`dt`, `dtw`, cross-type clone through `double`): each such step is covered by its
  own theorems (`C02.roundDt_exact`, `C02.narrow_eq_iff`), but `entry` of a rounded container is `0 + round v`, not
  `round (0 + v)`, so they are not part of `C02.anychain_spec`;
* the effect of the data-type round trip on values that are not float-representable (the model `roundDt` is compared
  with the real code on every generated value; only its fixed points are characterised by a theorem), exponent
  range / denormals, and index values ≥ 2^32 (not allocatable);
* the inputs of the open known findings c02-edge:D5 / D7 / D10 are executed and judged on every run.
-/
