import FeatModel.Lemmas.C04
/-! # C04 — vector operations equal their element-wise definitions for every vector kind

All statements are about the functions of `FeatModel/Model/VecOps.lean` that `drv_c04` executes against the
real FEAT code (leaf kernels `…K` = `kernel/lafem/arch/*_generic.hpp`, `MVec.*` = the member functions of
DenseVector / DenseVectorBlocked / TupleVector / PowerVector). No bound on any size; size 0 and 1 are instances.

* `*_alias*`      every alias-specialised branch equals the generic branch with the operands identified;
* `*_elementwise` the generic branch is the element-wise definition (`List.sum` for the reductions);
* `*_flatten`     a blocked or composed vector behaves exactly like the plain vector holding the same scalars
                  (for all block sizes and all tuple/power nestings);
* `*_element_*`   min/max(-abs) members return an attained bound of the flattened data. -/
open FeatModel.Vec FeatModel.Vec.MVec

/-! ## alias branches -/

theorem C04.axpy_alias {α : Type} [CommRing α] (a : α) (r : List α) :
    axpyK true a r r = axpyK false a r r := by
  unfold axpyK
  induction r with
  | nil => rfl
  | cons x t ih => simp only [Bool.false_eq_true, if_true, if_false, List.map_cons, List.zipWith_cons_cons] at ih ⊢
                   rw [ih]; congr 1; ring

theorem C04.scale_alias {α : Type} [Mul α] (s : α) (r : List α) :
    scaleK true s r r = scaleK false s r r := by
  unfold scaleK
  induction r with
  | nil => rfl
  | cons x t ih => simp only [Bool.false_eq_true, if_true, if_false, List.map_cons, List.zipWith_cons_cons] at ih ⊢
                   rw [ih]

theorem C04.component_invert_alias {α : Type} [Div α] (s : α) (r : List α) :
    cinvK true s r r = cinvK false s r r := by
  unfold cinvK
  induction r with
  | nil => rfl
  | cons x t ih => simp only [Bool.false_eq_true, if_true, if_false, List.map_cons, List.zipWith_cons_cons] at ih ⊢
                   rw [ih]

/-- `r == x` (whatever `y` is, including `y == r`) -/
theorem C04.component_product_alias_rx {α : Type} [Mul α] (ry : Bool) (r y : List α) :
    cprodK true ry r r y = cprodK false false r r y := by
  unfold cprodK
  simp only [Bool.false_eq_true, if_true, if_false]
  induction r generalizing y with
  | nil => rfl
  | cons x t ih => cases y with
    | nil => rfl
    | cons z u => simp only [List.zipWith_cons_cons]; exact congrArg _ (ih u)

/-- `r == y`, `r != x` -/
theorem C04.component_product_alias_ry {α : Type} [CommRing α] (r x : List α) :
    cprodK false true r x r = cprodK false false r x r := by
  unfold cprodK
  simp only [Bool.false_eq_true, if_true, if_false]
  induction r generalizing x with
  | nil => rfl
  | cons a t ih => cases x with
    | nil => rfl
    | cons z u => simp only [List.zipWith_cons_cons]; rw [ih]; congr 1; ring

theorem C04.dot_alias {α : Type} [Semiring α] (x : List α) : dotK true x x = dotK false x x := by
  unfold dotK
  simp only [Bool.false_eq_true, if_true, if_false]
  congr 1
  induction x with
  | nil => rfl
  | cons a t ih => simp only [List.map_cons, List.zipWith_cons_cons]; rw [ih]

/-- `x == y` (first branch; `z` arbitrary, also `z == x`) -/
theorem C04.triple_dot_alias_xy {α : Type} [CommRing α] (xz yz : Bool) (x z : List α) :
    tdotK true xz yz x x z = tdotK false false false x x z := by
  unfold tdotK
  simp only [Bool.false_eq_true, if_true, if_false]
  congr 1
  induction x generalizing z with
  | nil => rfl
  | cons a t ih => cases z with
    | nil => rfl
    | cons c u => simp only [List.zipWith_cons_cons, List.zip_cons_cons]; rw [ih]

/-- `x == z`, `x != y` (second branch) -/
theorem C04.triple_dot_alias_xz {α : Type} [CommRing α] (yz : Bool) (x y : List α) :
    tdotK false true yz x y x = tdotK false false false x y x := by
  unfold tdotK
  simp only [Bool.false_eq_true, if_true, if_false]
  congr 1
  induction x generalizing y with
  | nil => rfl
  | cons a t ih => cases y with
    | nil => rfl
    | cons c u => simp only [List.zipWith_cons_cons, List.zip_cons_cons]; rw [ih]; congr 1; ring

/-- `y == z`, `x` different (third branch) -/
theorem C04.triple_dot_alias_yz {α : Type} [CommRing α] (x y : List α) :
    tdotK false false true x y y = tdotK false false false x y y := by
  unfold tdotK
  simp only [Bool.false_eq_true, if_true, if_false]
  congr 1
  induction x generalizing y with
  | nil => rfl
  | cons a t ih => cases y with
    | nil => rfl
    | cons c u => simp only [List.zipWith_cons_cons, List.zip_cons_cons]; rw [ih]

/-! ## the generic branches are the element-wise definitions -/

theorem C04.axpy_elementwise {α : Type} [CommRing α] (a : α) (r x : List α) (i : Nat)
    (hr : i < r.length) (hx : i < x.length) :
    (axpyK false a r x)[i]? = some (r[i] + a * x[i]) := by
  simp [axpyK, List.getElem?_zipWith, List.getElem?_eq_getElem hr, List.getElem?_eq_getElem hx]

theorem C04.axpy_length {α : Type} [CommRing α] (al : Bool) (a : α) (r x : List α) (h : r.length = x.length) :
    (axpyK al a r x).length = r.length := by
  cases al <;> simp [axpyK, h]

theorem C04.dot_elementwise {α : Type} [Semiring α] (x y : List α) :
    dotK false x y = (List.zipWith (fun xi yi => xi * yi) x y).sum := by
  simp [dotK, sumL_eq_sum]

theorem C04.triple_dot_elementwise {α : Type} [Semiring α] (x y z : List α) :
    tdotK false false false x y z = (List.zipWith (fun xi (p : α × α) => xi * p.1 * p.2) x (List.zip y z)).sum := by
  simp [tdotK, sumL_eq_sum]

theorem C04.sumSq_elementwise {α : Type} [Semiring α] (x : List α) : sumSq x = (x.map fun xi => xi * xi).sum := by
  simp [sumSq, sumL_eq_sum]

/-! ## a blocked or composed vector behaves like the plain vector holding the same scalars -/

theorem C04.axpy_flatten {α : Type} [CommRing α] (al : Bool) (a : α) (r x : MVec α) (h : sameShape r x = true) :
    (MVec.axpy al a r x).flatten = axpyK al a r.flatten x.flatten :=
  flatten_map2 _ (axpyK_append al a) r x h

theorem C04.scale_flatten {α : Type} [CommRing α] (al : Bool) (s : α) (r x : MVec α) (h : sameShape r x = true) :
    (MVec.scale al s r x).flatten = scaleK al s r.flatten x.flatten :=
  flatten_map2 _ (scaleK_append al s) r x h

theorem C04.component_invert_flatten {α : Type} [Field α] (al : Bool) (s : α) (r x : MVec α)
    (h : sameShape r x = true) :
    (MVec.componentInvert al s r x).flatten = cinvK al s r.flatten x.flatten :=
  flatten_map2 _ (cinvK_append al s) r x h

theorem C04.component_product_flatten {α : Type} [CommRing α] (rx ry : Bool) (r x y : MVec α)
    (h : sameShape r x = true) (h' : sameShape r y = true) :
    (MVec.componentProduct rx ry r x y).flatten = cprodK rx ry r.flatten x.flatten y.flatten :=
  flatten_map3 _ (cprodK_append rx ry) r x y h h'

/-- `copy`: afterwards the target holds the scalars of the source (aliased or not) -/
theorem C04.copy_flatten {α : Type} [CommRing α] (al : Bool) (r x : MVec α) (h : sameShape r x = true)
    (hal : al = true → x = r) :
    (MVec.copy al r x).flatten = x.flatten := by
  unfold MVec.copy
  cases al with
  | true => simp [hal rfl]
  | false =>
    simp only [Bool.false_eq_true, if_false]
    rw [flatten_map2 _ copyK_append r x h]
    have hl := sameShape_length r x h
    generalize r.flatten = a at hl
    generalize x.flatten = b at hl
    induction a generalizing b with
    | nil => cases b with
      | nil => rfl
      | cons _ _ => simp at hl
    | cons u t ih => cases b with
      | nil => simp at hl
      | cons w s => simp only [List.zipWith_cons_cons]; rw [ih s (by simpa using hl)]

/-- `format`: every scalar of the flattened vector is the given value, the size is unchanged -/
theorem C04.format_flatten {α : Type} [CommRing α] (v : α) (r : MVec α) :
    (MVec.format v r).flatten = List.replicate r.flatten.length v := by
  unfold MVec.format
  rw [flatten_map1 _ (by intro a b; simp)]
  generalize r.flatten = l
  induction l with
  | nil => rfl
  | cons a t ih => simp only [List.map_cons, List.length_cons, List.replicate_succ]; rw [ih]

theorem C04.dot_flatten {α : Type} [CommRing α] (al : Bool) (x y : MVec α) (h : sameShape x y = true) :
    MVec.dot al x y = dotK al x.flatten y.flatten :=
  red2_flatten _ (dotK_append al) x y h

theorem C04.triple_dot_flatten {α : Type} [CommRing α] (xy xz yz : Bool) (x y z : MVec α)
    (h : sameShape x y = true) (h' : sameShape x z = true) :
    MVec.tripleDot xy xz yz x y z = tdotK xy xz yz x.flatten y.flatten z.flatten :=
  red3_flatten _ (tdotK_append xy xz yz) x y z h h'

/-- squared norm: with a square root that is exact on sums of squares (as over the reals) every nesting
returns the sum of squares of the flattened data, although the leaves compute `sqr(norm2())` and the
compositions add those up -/
theorem C04.norm2sqr_flatten {α : Type} [CommRing α] (sqrt : α → α)
    (hs : ∀ l : List α, sqrt (sumSq l) * sqrt (sumSq l) = sumSq l) (v : MVec α) :
    MVec.norm2sqr sqrt v = sumSq v.flatten :=
  FeatModel.Vec.MVec.norm2sqr_flatten sqrt hs v

theorem C04.norm2_flatten {α : Type} [CommRing α] (sqrt : α → α)
    (hs : ∀ l : List α, sqrt (sumSq l) * sqrt (sumSq l) = sumSq l) (v : MVec α) :
    MVec.norm2 sqrt v = norm2K sqrt v.flatten :=
  FeatModel.Vec.MVec.norm2_flatten sqrt hs v

/-- the square of `norm2` is the sum of squares of the flattened data (same hypothesis on `sqrt`) -/
theorem C04.norm2_sq {α : Type} [CommRing α] (sqrt : α → α)
    (hs : ∀ l : List α, sqrt (sumSq l) * sqrt (sumSq l) = sumSq l) (v : MVec α) :
    MVec.norm2 sqrt v * MVec.norm2 sqrt v = (v.flatten.map fun xi => xi * xi).sum := by
  rw [FeatModel.Vec.MVec.norm2_flatten sqrt hs v, hs, sumSq, sumL_eq_sum]

/-! ## min/max(-abs) elements: the returned value is an attained bound of the flattened data

(`some m` = the member returns; it has no result when a leaf is empty, see the model) -/

theorem C04.max_element_flatten {α : Type} [Field α] [LinearOrder α] [IsStrictOrderedRing α] (v : MVec α) (m : α)
    (h : MVec.maxElement v = some m) : (∀ u ∈ v.flatten, u ≤ m) ∧ ∃ u ∈ v.flatten, m = u :=
  extreme_spec (· ≤ ·) id maxElemK mmax maxElemK_spec (IsExt_append_max id) v m h

theorem C04.min_element_flatten {α : Type} [Field α] [LinearOrder α] [IsStrictOrderedRing α] (v : MVec α) (m : α)
    (h : MVec.minElement v = some m) : (∀ u ∈ v.flatten, m ≤ u) ∧ ∃ u ∈ v.flatten, m = u :=
  extreme_spec (fun u w => w ≤ u) id minElemK mmin minElemK_spec (IsExt_append_min id) v m h

theorem C04.max_abs_element_flatten {α : Type} [Field α] [LinearOrder α] [IsStrictOrderedRing α] (v : MVec α) (m : α)
    (h : MVec.maxAbsElement v = some m) : (∀ u ∈ v.flatten, |u| ≤ m) ∧ ∃ u ∈ v.flatten, m = |u| := by
  have := extreme_spec (· ≤ ·) absK maxAbsElemK mmax maxAbsElemK_spec (IsExt_append_max absK) v m h
  simpa only [IsExt, absK_eq_abs] using this

theorem C04.min_abs_element_flatten {α : Type} [Field α] [LinearOrder α] [IsStrictOrderedRing α] (v : MVec α) (m : α)
    (h : MVec.minAbsElement v = some m) : (∀ u ∈ v.flatten, m ≤ |u|) ∧ ∃ u ∈ v.flatten, m = |u| := by
  have := extreme_spec (fun u w => w ≤ u) absK minAbsElemK mmin minAbsElemK_spec (IsExt_append_min absK) v m h
  simpa only [IsExt, absK_eq_abs] using this

/-- the hypotheses of the min/max theorems are satisfiable: a nested vector with a non-trivial maximum -/
example : MVec.maxAbsElement (MVec.tupleCons (MVec.dense [(1 : Rat), -5]) (MVec.tupleOne (MVec.blocked 2 [3, 4])))
    = some 5 := by decide +kernel
