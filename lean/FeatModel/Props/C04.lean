import FeatModel.Lemmas.C04
import FeatModel.Lemmas.C04Sparse
import FeatModel.Lemmas.C04SparseExt
import FeatModel.Lemmas.C04Blocked
import FeatModel.Lemmas.C04Round
import FeatModel.Lemmas.C04Flat
import FeatModel.Lemmas.C04Fl
/-! # C04 — vector operations equal their element-wise definitions for every vector kind

All statements are about the functions of `FeatModel/Model/VecOps.lean` that `drv_c04` executes against the
real FEAT code (leaf kernels `…K` = `kernel/lafem/arch/*_generic.hpp`, `MVec.*` = the member functions of
DenseVector / DenseVectorBlocked / TupleVector / PowerVector). No bound on any size; size 0 and 1 are instances.

MODELLED AS UNBOUNDED: `Index` / `IT_` (array sizes, loop counters, stored sparse indices, the running index of the
min/max kernels), the `int` block / stride / component arguments and `Tiny::Vector` component counters are `Nat`; the
scalar type is an exact field (`Q` in the harness); arrays are lists without capacity (MemoryPool's `count % 4` padding
and SparseVector's `min(size, 1000)`-slot allocation steps exist in the model only as list lengths). No theorem below
can see a C++ narrowing, a fixed buffer or an allocation-step error. What ties them is the correspondence run, in
particular the `boundary-sizes` stream of `checks/props/c04.py`: every kernel and every alias branch at pod sizes and
block counts 127/128/129, 255/256/257, 1000/1001 (thorough: 32767/32768, 65535/65536/65537) with the deciding entries in
the last positions, sparse vectors with 999…2002 (3001) writes across the 1000-slot reallocation steps (64- and 32-bit
index type), component copies and flat↔composed copies whose offsets cross the same boundaries.

* `*_alias*`      every alias-specialised branch equals the generic branch with the operands identified;
* `*_elementwise` the generic branch is the element-wise definition (`List.sum` for the reductions);
* `*_flatten`     a blocked or composed vector behaves exactly like the plain vector holding the same scalars
                  (for all block sizes and all tuple/power nestings);
* `*_element_*`   min/max(-abs) members return an attained bound of the flattened data. -/
open FeatModel.Vec FeatModel.Vec.MVec

/-! ## alias branches -/

theorem C04.axpy_alias {α : Type} [CommRing α] (a : α) (r : List α) :
    axpyK true a r r = axpyK false a r r := by
  unfold axpyK
  induction r with
  | nil => rfl
  | cons x t ih => simp only [Bool.false_eq_true, if_true, if_false, List.map_cons, List.zipWith_cons_cons] at ih ⊢
                   rw [ih]; congr 1; ring

theorem C04.scale_alias {α : Type} [Mul α] (s : α) (r : List α) :
    scaleK true s r r = scaleK false s r r := by
  unfold scaleK
  induction r with
  | nil => rfl
  | cons x t ih => simp only [Bool.false_eq_true, if_true, if_false, List.map_cons, List.zipWith_cons_cons] at ih ⊢
                   rw [ih]

theorem C04.component_invert_alias {α : Type} [Div α] (s : α) (r : List α) :
    cinvK true s r r = cinvK false s r r := by
  unfold cinvK
  induction r with
  | nil => rfl
  | cons x t ih => simp only [Bool.false_eq_true, if_true, if_false, List.map_cons, List.zipWith_cons_cons] at ih ⊢
                   rw [ih]

/-- `r == x` (whatever `y` is, including `y == r`) -/
theorem C04.component_product_alias_rx {α : Type} [Mul α] (ry : Bool) (r y : List α) :
    cprodK true ry r r y = cprodK false false r r y := by
  unfold cprodK
  simp only [Bool.false_eq_true, if_true, if_false]
  induction r generalizing y with
  | nil => rfl
  | cons x t ih => cases y with
    | nil => rfl
    | cons z u => simp only [List.zipWith_cons_cons]; exact congrArg _ (ih u)

/-- `r == y`, `r != x` -/
theorem C04.component_product_alias_ry {α : Type} [CommRing α] (r x : List α) :
    cprodK false true r x r = cprodK false false r x r := by
  unfold cprodK
  simp only [Bool.false_eq_true, if_true, if_false]
  induction r generalizing x with
  | nil => rfl
  | cons a t ih => cases x with
    | nil => rfl
    | cons z u => simp only [List.zipWith_cons_cons]; rw [ih]; congr 1; ring

theorem C04.dot_alias {α : Type} [Semiring α] (x : List α) : dotK true x x = dotK false x x := by
  unfold dotK
  simp only [Bool.false_eq_true, if_true, if_false]
  congr 1
  induction x with
  | nil => rfl
  | cons a t ih => simp only [List.map_cons, List.zipWith_cons_cons]; rw [ih]

/-- `x == y` (first branch; `z` arbitrary, also `z == x`) -/
theorem C04.triple_dot_alias_xy {α : Type} [CommRing α] (xz yz : Bool) (x z : List α) :
    tdotK true xz yz x x z = tdotK false false false x x z := by
  unfold tdotK
  simp only [Bool.false_eq_true, if_true, if_false]
  congr 1
  induction x generalizing z with
  | nil => rfl
  | cons a t ih => cases z with
    | nil => rfl
    | cons c u => simp only [List.zipWith_cons_cons, List.zip_cons_cons]; rw [ih]

/-- `x == z`, `x != y` (second branch) -/
theorem C04.triple_dot_alias_xz {α : Type} [CommRing α] (yz : Bool) (x y : List α) :
    tdotK false true yz x y x = tdotK false false false x y x := by
  unfold tdotK
  simp only [Bool.false_eq_true, if_true, if_false]
  congr 1
  induction x generalizing y with
  | nil => rfl
  | cons a t ih => cases y with
    | nil => rfl
    | cons c u => simp only [List.zipWith_cons_cons, List.zip_cons_cons]; rw [ih]; congr 1; ring

/-- `y == z`, `x` different (third branch) -/
theorem C04.triple_dot_alias_yz {α : Type} [CommRing α] (x y : List α) :
    tdotK false false true x y y = tdotK false false false x y y := by
  unfold tdotK
  simp only [Bool.false_eq_true, if_true, if_false]
  congr 1
  induction x generalizing y with
  | nil => rfl
  | cons a t ih => cases y with
    | nil => rfl
    | cons c u => simp only [List.zipWith_cons_cons, List.zip_cons_cons]; rw [ih]

/-! ## the generic branches are the element-wise definitions -/

theorem C04.axpy_elementwise {α : Type} [CommRing α] (a : α) (r x : List α) (i : Nat)
    (hr : i < r.length) (hx : i < x.length) :
    (axpyK false a r x)[i]? = some (r[i] + a * x[i]) := by
  simp [axpyK, List.getElem?_zipWith, List.getElem?_eq_getElem hr, List.getElem?_eq_getElem hx]

theorem C04.axpy_length {α : Type} [CommRing α] (al : Bool) (a : α) (r x : List α) (h : r.length = x.length) :
    (axpyK al a r x).length = r.length := by
  cases al <;> simp [axpyK, h]

theorem C04.dot_elementwise {α : Type} [Semiring α] (x y : List α) :
    dotK false x y = (List.zipWith (fun xi yi => xi * yi) x y).sum := by
  simp [dotK, sumL_eq_sum]

theorem C04.triple_dot_elementwise {α : Type} [Semiring α] (x y z : List α) :
    tdotK false false false x y z = (List.zipWith (fun xi (p : α × α) => xi * p.1 * p.2) x (List.zip y z)).sum := by
  simp [tdotK, sumL_eq_sum]

theorem C04.sumSq_elementwise {α : Type} [Semiring α] (x : List α) : sumSq x = (x.map fun xi => xi * xi).sum := by
  simp [sumSq, sumL_eq_sum]

/-! ## a blocked or composed vector behaves like the plain vector holding the same scalars -/

theorem C04.axpy_flatten {α : Type} [CommRing α] (al : Bool) (a : α) (r x : MVec α) (h : sameShape r x = true) :
    (MVec.axpy al a r x).flatten = axpyK al a r.flatten x.flatten := by
  rw [axpy_eq_map2]; exact flatten_map2 _ (axpyK_append al a) r x h

theorem C04.scale_flatten {α : Type} [CommRing α] (al : Bool) (s : α) (r x : MVec α) (h : sameShape r x = true) :
    (MVec.scale al s r x).flatten = scaleK al s r.flatten x.flatten := by
  rw [scale_eq_map2]; exact flatten_map2 _ (scaleK_append al s) r x h

theorem C04.component_invert_flatten {α : Type} [Field α] (al : Bool) (s : α) (r x : MVec α)
    (h : sameShape r x = true) :
    (MVec.componentInvert al s r x).flatten = cinvK al s r.flatten x.flatten := by
  rw [componentInvert_eq_map2]; exact flatten_map2 _ (cinvK_append al s) r x h

theorem C04.component_product_flatten {α : Type} [CommRing α] (rx ry : Bool) (r x y : MVec α)
    (h : sameShape r x = true) (h' : sameShape r y = true) :
    (MVec.componentProduct rx ry r x y).flatten = cprodK rx ry r.flatten x.flatten y.flatten := by
  rw [componentProduct_eq_map3]; exact flatten_map3 _ (cprodK_append rx ry) r x y h h'

/-- `copy`: afterwards the target holds the scalars of the source (aliased or not) -/
theorem C04.copy_flatten {α : Type} [CommRing α] (al : Bool) (r x : MVec α) (h : sameShape r x = true)
    (hal : al = true → x = r) :
    (MVec.copy al r x).flatten = x.flatten := by
  cases al with
  | true => rw [copy_true_eq, hal rfl]
  | false =>
    rw [copy_false_eq_map2, flatten_map2 _ copyK_append r x h]
    have hl := sameShape_length r x h
    generalize r.flatten = a at hl
    generalize x.flatten = b at hl
    induction a generalizing b with
    | nil => cases b with
      | nil => rfl
      | cons _ _ => simp at hl
    | cons u t ih => cases b with
      | nil => simp at hl
      | cons w s => simp only [List.zipWith_cons_cons]; rw [ih s (by simpa using hl)]

/-- `format`: every scalar of the flattened vector is the given value, the size is unchanged -/
theorem C04.format_flatten {α : Type} [CommRing α] (v : α) (r : MVec α) :
    (MVec.format v r).flatten = List.replicate r.flatten.length v := by
  rw [format_eq_map1, flatten_map1 _ (by intro a b; simp)]
  generalize r.flatten = l
  induction l with
  | nil => rfl
  | cons a t ih => simp only [List.map_cons, List.length_cons, List.replicate_succ]; rw [ih]

theorem C04.dot_flatten {α : Type} [CommRing α] (al : Bool) (x y : MVec α) (h : sameShape x y = true) :
    MVec.dot al x y = dotK al x.flatten y.flatten := by
  rw [dot_eq_red2]; exact red2_flatten _ (dotK_append al) x y h

theorem C04.triple_dot_flatten {α : Type} [CommRing α] (xy xz yz : Bool) (x y z : MVec α)
    (h : sameShape x y = true) (h' : sameShape x z = true) :
    MVec.tripleDot xy xz yz x y z = tdotK xy xz yz x.flatten y.flatten z.flatten := by
  rw [tripleDot_eq_red3]; exact red3_flatten _ (tdotK_append xy xz yz) x y z h h'

/-- squared norm: with a square root that is exact on sums of squares (as over the reals) every nesting
returns the sum of squares of the flattened data, although the leaves compute `sqr(norm2())` and the
compositions add those up -/
theorem C04.norm2sqr_flatten {α : Type} [CommRing α] (sqrt : α → α)
    (hs : ∀ l : List α, sqrt (sumSq l) * sqrt (sumSq l) = sumSq l) (v : MVec α) :
    MVec.norm2sqr sqrt v = sumSq v.flatten :=
  FeatModel.Vec.MVec.norm2sqr_flatten sqrt hs v

theorem C04.norm2_flatten {α : Type} [CommRing α] (sqrt : α → α)
    (hs : ∀ l : List α, sqrt (sumSq l) * sqrt (sumSq l) = sumSq l) (v : MVec α) :
    MVec.norm2 sqrt v = norm2K sqrt v.flatten :=
  FeatModel.Vec.MVec.norm2_flatten sqrt hs v

/-- the square of `norm2` is the sum of squares of the flattened data (same hypothesis on `sqrt`) -/
theorem C04.norm2_sq {α : Type} [CommRing α] (sqrt : α → α)
    (hs : ∀ l : List α, sqrt (sumSq l) * sqrt (sumSq l) = sumSq l) (v : MVec α) :
    MVec.norm2 sqrt v * MVec.norm2 sqrt v = (v.flatten.map fun xi => xi * xi).sum := by
  rw [FeatModel.Vec.MVec.norm2_flatten sqrt hs v, hs, sumSq, sumL_eq_sum]

/-! ## min/max(-abs) elements: the returned value is an attained bound of the flattened data

(`some m` = the member returns; it has no result when a leaf is empty, see the model) -/

theorem C04.max_element_flatten {α : Type} [Field α] [LinearOrder α] [IsStrictOrderedRing α] (v : MVec α) (m : α)
    (h : MVec.maxElement v = some m) : (∀ u ∈ v.flatten, u ≤ m) ∧ ∃ u ∈ v.flatten, m = u :=
  extreme_spec (· ≤ ·) id maxElemK mmax maxElemK_spec (IsExt_append_max id) v m h

theorem C04.min_element_flatten {α : Type} [Field α] [LinearOrder α] [IsStrictOrderedRing α] (v : MVec α) (m : α)
    (h : MVec.minElement v = some m) : (∀ u ∈ v.flatten, m ≤ u) ∧ ∃ u ∈ v.flatten, m = u :=
  extreme_spec (fun u w => w ≤ u) id minElemK mmin minElemK_spec (IsExt_append_min id) v m h

theorem C04.max_abs_element_flatten {α : Type} [Field α] [LinearOrder α] [IsStrictOrderedRing α] (v : MVec α) (m : α)
    (h : MVec.maxAbsElement v = some m) : (∀ u ∈ v.flatten, |u| ≤ m) ∧ ∃ u ∈ v.flatten, m = |u| := by
  have := extreme_spec (· ≤ ·) absK maxAbsElemK mmax maxAbsElemK_spec (IsExt_append_max absK) v m h
  simpa only [IsExt, absK_eq_abs] using this

theorem C04.min_abs_element_flatten {α : Type} [Field α] [LinearOrder α] [IsStrictOrderedRing α] (v : MVec α) (m : α)
    (h : MVec.minAbsElement v = some m) : (∀ u ∈ v.flatten, m ≤ |u|) ∧ ∃ u ∈ v.flatten, m = |u| := by
  have := extreme_spec (fun u w => w ≤ u) absK minAbsElemK mmin minAbsElemK_spec (IsExt_append_min absK) v m h
  simpa only [IsExt, absK_eq_abs] using this

/-- the hypotheses of the min/max theorems are satisfiable: a nested vector with a non-trivial maximum -/
example : MVec.maxAbsElement (MVec.tupleCons (MVec.dense [(1 : Rat), -5]) (MVec.tupleOne (MVec.blocked 2 [3, 4])))
    = some 5 := by decide +kernel


/-! ## sparse vectors: the append buffer denotes "last write wins"

`runScript` is what `drv_c04` executes for the `sv`/`svb`/`svs` cases (writes through `operator()(i, v)` into the
append buffer with first allocation / free slot / reallocation by `alloc_increment`, reads through
`operator()(i)` which sort — `_insertion_sort`, duplicate marking with the maximal index, second sort,
compaction of `used_elements` —, `format`, `used_elements()`), `specScript` is the same script on a partial map. -/

/-- after ANY sequence of writes, reads, formats and `used_elements()` calls (any order of indices, duplicates,
descending indices, any number of reallocations) every read returned the value written last to that index
(zero if none), and the vector denotes the map "last write wins" -/
theorem C04.sparse_denotes {β : Type} (fillv zero : β) (setv : β → β) (size : Nat) (hsize : 0 < size)
    (ops : List (SOp β)) (hops : ∀ op ∈ ops, op.ok) :
    (runScript fillv zero setv ops (SVec.empty size)).1 = (specScript zero setv ops (fun _ => none)).1 ∧
    (∀ j, (runScript fillv zero setv ops (SVec.empty size)).2.lookup j = (specScript zero setv ops (fun _ => none)).2 j) ∧
    (runScript fillv zero setv ops (SVec.empty size)).2.dense zero
      = (List.range size).map (fun j => ((specScript zero setv ops (fun _ => none)).2 j).getD zero) := by
  have hl : (SVec.empty size : SVec β).lookup = fun _ => none := funext (lookup_empty size)
  obtain ⟨h1, h2, _, h4⟩ := runScript_spec fillv zero setv ops (SVec.empty size) (swf_empty size hsize) hops
  rw [hl] at h1 h2
  refine ⟨h1, h2, ?_⟩
  have h4' : (runScript fillv zero setv ops (SVec.empty size)).2.size = size := h4
  unfold SVec.dense
  rw [h4']
  exact List.map_congr_left (fun j _ => by rw [h2 j])

/-- one write updates exactly one entry of the denoted map (free slot, first allocation or reallocation) -/
theorem C04.sparse_write {β : Type} (fillv : β) (s : SVec β) (h : SWF s) (i : Nat) (v : β) (hi : i < idxMax) (j : Nat) :
    (s.write fillv i v).lookup j = (if j = i then some v else s.lookup j) ∧ SWF (s.write fillv i v) :=
  ⟨lookup_write fillv s h i v j, swf_write fillv s h i v hi⟩

/-- `sort()` changes the layout, not the denotation; afterwards the stored indices are strictly increasing
(no duplicates, no marked entries among the first `used_elements()`), and they are exactly the written ones -/
theorem C04.sparse_sort {β : Type} (s : SVec β) (h : SWF s) :
    (∀ j, s.sort.lookup j = s.lookup j) ∧ (s.sort.entries.map Prod.fst).Pairwise (· < ·) ∧
    (∀ j, j ∈ s.sort.entries.map Prod.fst ↔ (s.lookup j).isSome) := by
  obtain ⟨h1, h2, h3, _⟩ := sort_spec s h
  refine ⟨h3, h1.strict h2, fun j => ?_⟩
  rw [← h3 j, SVec.lookup, lookupLast_isSome]
  simp

/-- element read = denoted value (zero where nothing was written); the state it leaves denotes the same map -/
theorem C04.sparse_get {β : Type} (zero : β) (s : SVec β) (h : SWF s) (i : Nat) :
    (s.get zero i).1 = (s.lookup i).getD zero ∧ ∀ j, (s.get zero i).2.lookup j = s.lookup j :=
  ⟨(get_spec zero s h i).1, (get_spec zero s h i).2.2.1⟩

/-- `format(v)` sets exactly the written entries -/
theorem C04.sparse_format {β : Type} (setv : β → β) (s : SVec β) (h : SWF s) (j : Nat) :
    (s.format setv).lookup j = (s.lookup j).map setv :=
  (format_spec setv s h).2.1 j

/-! ### sparse min/max(-abs) members (code after fix 1e5a5ec6a: scan of the stored scalars + implicit zeros)

`SVec.extremeCoded` is what `drv_c04` executes for `sv|svb … maxabs|minabs|max|min` and the `m` steps of `svs`;
`SVec.extremeSpec` is the dense kernel (`C04.max_abs_element_flatten` …) on the denoted, flattened vector.
`SOK` = states reachable through the public interface (see `C04.sparse_reachable`). -/

/-- for every reachable sparse vector of size > 0, every one of the four members, scalar or blocked values
(`flat` = scalars of a stored value, `w` = their number, the zero value flattens to zeros):
the coded member returns exactly the dense kernel's result on the denoted vector -/
theorem C04.sparse_extreme_eq_dense {β α : Type} [Field α] [LinearOrder α] [IsStrictOrderedRing α]
    (kind : SVec.ExtKind) (flat : β → List α) (w : Nat) (hw : 0 < w) (zero : β)
    (hz0 : flat zero ≠ []) (hz : ∀ x ∈ flat zero, x = 0) (s : SVec β) (h : SOK flat s) (hsize : 0 < s.size) :
    s.extremeSpec kind.leaf flat zero = some (s.extremeCoded kind flat w).1 :=
  (extremeCoded_eq_spec kind flat w hw zero hz0 hz s h hsize).1

/-- SparseVector (scalar values) -/
theorem C04.sparse_extreme_scalar {α : Type} [Field α] [LinearOrder α] [IsStrictOrderedRing α]
    (kind : SVec.ExtKind) (s : SVec α) (h : SOK (fun v : α => [v]) s) (hsize : 0 < s.size) :
    kind.leaf (s.dense 0) = some (s.extremeCoded kind (fun v => [v]) 1).1 := by
  have := C04.sparse_extreme_eq_dense kind (fun v : α => [v]) 1 (by decide) 0 (by simp) (by simp) s h hsize
  have hfl : ∀ l : List α, (l.map fun v => [v]).flatten = l := by
    intro l; induction l <;> simp_all
  simpa [SVec.extremeSpec, hfl] using this

/-- SparseVectorBlocked<b> (values are blocks of `b` scalars): the kernel runs on the flattened denoted vector -/
theorem C04.sparse_extreme_blocked {α : Type} [Field α] [LinearOrder α] [IsStrictOrderedRing α]
    (kind : SVec.ExtKind) (b : Nat) (hb : 0 < b) (s : SVec (List α)) (h : SOK id s) (hsize : 0 < s.size) :
    kind.leaf (s.dense (List.replicate b 0)).flatten = some (s.extremeCoded kind id b).1 := by
  have := C04.sparse_extreme_eq_dense kind (id : List α → List α) b hb (List.replicate b 0)
    (by intro e; have := congrArg List.length e; simp at this; omega)
    (by intro x hx; exact (List.mem_replicate.mp hx).2) s h hsize
  simpa [SVec.extremeSpec] using this

/-- size 0 (nothing can be stored): the coded members return 0; the dense kernel has no result on the empty
vector, where the operation is not defined -/
theorem C04.sparse_extreme_size_zero {β : Type} (kind : SVec.ExtKind) (flat : β → List Rat) (w : Nat) (zero : β) :
    ((SVec.empty 0 : SVec β).extremeCoded kind flat w).1 = (0 : Rat) ∧
    (SVec.empty 0 : SVec β).extremeSpec (kind.leaf (α := Rat)) flat zero = none :=
  extremeCoded_size_zero kind flat w zero

/-- the reachable states: the empty vector, and closed under writes below the size, reads, `sort()`, `format` and
the min/max members themselves (which sort) -/
theorem C04.sparse_reachable {β α : Type} [Field α] [LinearOrder α] [IsStrictOrderedRing α]
    (flat : β → List α) (fillv zero : β) (s : SVec β) (h : SOK flat s) :
    (∀ size, 0 < size → SOK flat (SVec.empty size : SVec β)) ∧
    (∀ i v, i < s.size → s.size ≤ idxMax → flat v ≠ [] → SOK flat (s.write fillv i v)) ∧
    (∀ i, SOK flat (s.get zero i).2) ∧ SOK flat s.sort ∧
    (∀ setv : β → β, (∀ v, flat v ≠ [] → flat (setv v) ≠ []) → SOK flat (s.format setv)) ∧
    (∀ kind w, SOK flat (s.extremeCoded (α := α) kind flat w).2) :=
  ⟨fun size hs => sok_empty flat size hs, fun i v hi hm hv => sok_write flat fillv s h i v hi hm hv,
   fun i => sok_get flat zero s h i, sok_sort flat s h, fun setv hset => sok_format flat setv hset s h,
   fun _ _ => sok_sort flat s h⟩

/-- non-vacuity: the former defect witness (size 5, entries {1: 2, 3: 9}) now gives 9 = the dense result -/
example : ((((SVec.empty 5 : SVec Rat).write 4711 1 2).write 4711 3 9).extremeCoded .maxAbs (fun v => [v]) 1).1 = 9 := by
  decide +kernel

/-! ## the `*_blocked` members of DenseVectorBlocked and `component_copy(_to)`

The pod array of a `DenseVectorBlocked<b>` is a list; block `i`, component `j` is entry `i*b + j`.
`column b j` (what the per-component kernels of the model run over) is exactly component `j` of every block. -/

theorem C04.column_entry {α : Type} (b j : Nat) (hj : j < b) (l : List α) (i : Nat) :
    (column b j l)[i]? = l[i * b + j]? :=
  column_getElem? b j hj l i

/-- `axpy_blocked`: `r[i][j] += a[j] * x[i][j]` for every block size and block count (no alias branch in the code) -/
theorem C04.axpy_blocked_elementwise {α : Type} [CommRing α] (b : Nat) (a r x : List α) (k : Nat)
    (hr : k < r.length) (hx : k < x.length) :
    (axpyBlockedK b a r x)[k]? = some (r[k] + a.getD (k % b) 0 * x[k]) :=
  axpyBlockedK_getElem? b a r x k hr hx

/-- `scale_blocked`: `r[i][j] = x[i][j] * s[j]`, aliased (`r == x`) or not -/
theorem C04.scale_blocked_elementwise {α : Type} [CommRing α] (al : Bool) (b : Nat) (s r x : List α) (k : Nat)
    (hr : k < r.length) (hx : k < x.length) (hal : al = true → x = r) :
    (scaleBlockedK al b s r x)[k]? = some (x[k] * s.getD (k % b) 0) :=
  scaleBlockedK_getElem? al b s r x k hr hx hal

/-- `dot_blocked`: component `j` of the result is the dot product of the `j`-th components (both branches) -/
theorem C04.dot_blocked_spec {α : Type} [CommRing α] (al : Bool) (b : Nat) (x y : List α) (hal : al = true → y = x)
    (j : Nat) (hj : j < b) :
    (dotBlockedK al b x y)[j]? = some (List.zipWith (fun xi yi => xi * yi) (column b j x) (column b j y)).sum := by
  unfold dotBlockedK
  simp only [List.getElem?_map, List.getElem?_range hj, Option.map_some]
  cases al with
  | true =>
    have := hal rfl; subst this
    have h := C04.dot_alias (column b j y)
    simp only [dotK, Bool.false_eq_true, if_true, if_false] at h
    simp only [if_true, h, sumL_eq_sum]
  | false => simp [sumL_eq_sum]

/-- `triple_dot_blocked`: component `j` is the scalar triple-dot kernel (same four branches) on the `j`-th
components; `C04.triple_dot_alias_*` and `C04.triple_dot_elementwise` apply to it -/
theorem C04.triple_dot_blocked_spec {α : Type} [CommRing α] (xy xz yz : Bool) (b : Nat) (x y z : List α)
    (j : Nat) (hj : j < b) :
    (tdotBlockedK xy xz yz b x y z)[j]? = some (tdotK xy xz yz (column b j x) (column b j y) (column b j z)) := by
  simp [tdotBlockedK, List.getElem?_map, List.getElem?_range hj]

theorem C04.norm2sqr_blocked_spec {α : Type} [CommRing α] (b : Nat) (x : List α) (j : Nat) (hj : j < b) :
    (norm2sqrBlockedK b x)[j]? = some ((column b j x).map fun xi => xi * xi).sum := by
  simp [norm2sqrBlockedK, List.getElem?_map, List.getElem?_range hj, sumSq, sumL_eq_sum]

theorem C04.norm2_blocked_spec {α : Type} [CommRing α] (sqrt : α → α) (b : Nat) (x : List α) (j : Nat) (hj : j < b) :
    (norm2BlockedK sqrt b x)[j]? = some (sqrt ((column b j x).map fun xi => xi * xi).sum) := by
  simp [norm2BlockedK, List.getElem?_map, List.getElem?_range hj, sumSq, sumL_eq_sum]

/-- `max_element_blocked`: component `j` of the result is an attained maximum of component `j` over all blocks
(the running index is reset between components and the start value is `x[0][j]`) -/
theorem C04.maxb_spec {α : Type} [Field α] [LinearOrder α] [IsStrictOrderedRing α] (b : Nat) (x m : List α)
    (hb : b ≤ x.length) (h : maxBlockedK b x = some m) (j : Nat) (hj : j < b) :
    ∃ mj, m[j]? = some mj ∧ (∀ u ∈ column b j x, u ≤ mj) ∧ ∃ u ∈ column b j x, mj = u :=
  extremeBlockedK_spec (· ≤ ·) le_refl (fun _ _ _ => le_trans) id _
    (fun _ _ hb => le_of_lt (of_decide_eq_true hb)) (fun _ _ hb => not_lt.mp (of_decide_eq_false hb)) b x hb m h j hj

theorem C04.minb_spec {α : Type} [Field α] [LinearOrder α] [IsStrictOrderedRing α] (b : Nat) (x m : List α)
    (hb : b ≤ x.length) (h : minBlockedK b x = some m) (j : Nat) (hj : j < b) :
    ∃ mj, m[j]? = some mj ∧ (∀ u ∈ column b j x, mj ≤ u) ∧ ∃ u ∈ column b j x, mj = u :=
  extremeBlockedK_spec (fun u w => w ≤ u) le_refl (fun _ _ _ h₁ h₂ => le_trans h₂ h₁) id _
    (fun _ _ hb => le_of_lt (of_decide_eq_true hb)) (fun _ _ hb => not_lt.mp (of_decide_eq_false hb)) b x hb m h j hj

theorem C04.maxabsb_spec {α : Type} [Field α] [LinearOrder α] [IsStrictOrderedRing α] (b : Nat) (x m : List α)
    (hb : b ≤ x.length) (h : maxAbsBlockedK b x = some m) (j : Nat) (hj : j < b) :
    ∃ mj, m[j]? = some mj ∧ (∀ u ∈ column b j x, |u| ≤ mj) ∧ ∃ u ∈ column b j x, mj = |u| := by
  have := extremeBlockedK_spec (· ≤ ·) le_refl (fun _ _ _ => le_trans) absK _
    (fun _ _ hb => le_of_lt (of_decide_eq_true hb)) (fun _ _ hb => not_lt.mp (of_decide_eq_false hb)) b x hb m h j hj
  simpa only [IsExt, absK_eq_abs] using this

theorem C04.minabsb_spec {α : Type} [Field α] [LinearOrder α] [IsStrictOrderedRing α] (b : Nat) (x m : List α)
    (hb : b ≤ x.length) (h : minAbsBlockedK b x = some m) (j : Nat) (hj : j < b) :
    ∃ mj, m[j]? = some mj ∧ (∀ u ∈ column b j x, mj ≤ |u|) ∧ ∃ u ∈ column b j x, mj = |u| := by
  have := extremeBlockedK_spec (fun u w => w ≤ u) le_refl (fun _ _ _ h₁ h₂ => le_trans h₂ h₁) absK _
    (fun _ _ hb => le_of_lt (of_decide_eq_true hb)) (fun _ _ hb => not_lt.mp (of_decide_eq_false hb)) b x hb m h j hj
  simpa only [IsExt, absK_eq_abs] using this

/-- `component_copy(x, block)`: exactly the entries `i*b + block` (`i` < block count) are replaced by `x[i]`,
everything else is untouched; defined for every `block < b` -/
theorem C04.component_copy_spec {α : Type} [CommRing α] (b block : Nat) (hb : block < b) (r x : List α) (k : Nat)
    (hk : k < r.length) :
    ∃ r', componentCopyK b block r x = some r' ∧
      r'[k]? = if k % b = block ∧ k / b < r.length / b then some (x.getD (k / b) 0) else r[k]? := by
  refine ⟨(List.range (r.length / b)).foldl (fun acc i => acc.set (i * b + block) (x.getD i 0)) r, ?_, ?_⟩
  · unfold componentCopyK; rw [if_pos hb]
  · exact foldl_set_getElem? b block hb x 0 (r.length / b) r k hk

/-- `component_copy_to(x, block)`: `x[i] = this[i*b + block]` for every block `i` -/
theorem C04.component_copy_to_spec {α : Type} [CommRing α] (b block : Nat) (hb : block < b) (r x : List α) (i : Nat)
    (hi : i < x.length) (hn : i < r.length / b) :
    ∃ x', componentCopyToK b block r x = some x' ∧ x'.length = x.length ∧ x'[i]? = some (r.getD (i * b + block) 0) := by
  refine ⟨(List.range x.length).map fun i => if i < r.length / b then r.getD (i * b + block) 0 else x.getD i 0,
    ?_, by simp, ?_⟩
  · unfold componentCopyToK; rw [if_pos hb]
  · simp [List.getElem?_map, List.getElem?_range hi, hn]


/-! ## tier B: the alias branch of axpy in floating point (standard model, unit roundoff `u`)

`axpyK true` evaluates `r * (1 + a)` (two rounded operations), `axpyK false` with `x = r` evaluates `r + a * r`
(two rounded operations); each rounded operation returns the exact value times `(1 + δ)`, `|δ| ≤ u`. -/

/-- the aliased branch stays within `(2u + u²)(|r| + |a||r|)` of the exact value `r + a r` -/
theorem C04.axpy_alias_rounding {α : Type} [Field α] [LinearOrder α] [IsStrictOrderedRing α]
    (r a d1 d2 u : α) (h1 : |d1| ≤ u) (h2 : |d2| ≤ u) :
    |r * ((1 + a) * (1 + d1)) * (1 + d2) - (r + a * r)| ≤ (2 * u + u ^ 2) * (|r| + |a| * |r|) :=
  axpy_alias_branch_error r a d1 d2 u h1 h2

/-- so does the generic branch on aliased operands -/
theorem C04.axpy_generic_rounding {α : Type} [Field α] [LinearOrder α] [IsStrictOrderedRing α]
    (r a d3 d4 u : α) (h3 : |d3| ≤ u) (h4 : |d4| ≤ u) :
    |(r + a * r * (1 + d3)) * (1 + d4) - (r + a * r)| ≤ (2 * u + u ^ 2) * (|r| + |a| * |r|) :=
  axpy_generic_branch_error r a d3 d4 u h3 h4

/-- hence the two branches differ by at most `2(2u + u²)(|r| + |a||r|)` in floating point -/
theorem C04.axpy_alias_vs_generic_rounding {α : Type} [Field α] [LinearOrder α] [IsStrictOrderedRing α]
    (r a d1 d2 d3 d4 u : α) (h1 : |d1| ≤ u) (h2 : |d2| ≤ u) (h3 : |d3| ≤ u) (h4 : |d4| ≤ u) :
    |r * ((1 + a) * (1 + d1)) * (1 + d2) - (r + a * r * (1 + d3)) * (1 + d4)|
      ≤ 2 * ((2 * u + u ^ 2) * (|r| + |a| * |r|)) := by
  have hA := axpy_alias_branch_error r a d1 d2 u h1 h2
  have hB := axpy_generic_branch_error r a d3 d4 u h3 h4
  have := abs_sub_le (r * ((1 + a) * (1 + d1)) * (1 + d2)) (r + a * r) ((r + a * r * (1 + d3)) * (1 + d4))
  rw [abs_sub_comm (r + a * r) _] at this
  linarith


/-! ## flat ↔ composed copies: `DenseVector::copy(VT_)`, `copy_inv(VT_)`, `convert(VT_)`

`MVec.setVec` / `MVec.setVecInv` are `set_vec` / `set_vec_inv` of DenseVector, DenseVectorBlocked, TupleVector and
PowerVector with the pointer offset of the remaining components counted in SCALARS (`first().size<pod>()`);
`flatCopy`, `flatCopyInv`, `flatConvert` (offset 0) are what `drv_c04` runs for `flatcopy`, `flatcopyinv`,
`flatconvert`, `flatrt`, `flatrtinv`. For every nesting, every block size, empty components included. -/

/-- flat ← composed: the flat array receives exactly the flattened scalars -/
theorem C04.flat_copy_eq_flatten {α : Type} (v : MVec α) (buf : List α) (h : buf.length = v.podSize) :
    MVec.flatCopy v buf = v.flatten := by
  have := MVec.setVec_mid v [] buf [] 0 rfl h
  simpa [MVec.flatCopy] using this

/-- `convert`: the fresh flat vector has `size<pod>()` scalars, the flattened data -/
theorem C04.flat_convert_eq_flatten {α : Type} (fill : α) (v : MVec α) : MVec.flatConvert fill v = v.flatten :=
  C04.flat_copy_eq_flatten v _ (by simp)

/-- composed ← flat: shape kept, flattened content = the flat array (flatten ∘ unflatten = id) -/
theorem C04.flatten_unflatten {α : Type} (v : MVec α) (f : List α) (h : f.length = v.podSize) :
    (MVec.flatCopyInv v f).flatten = f ∧ MVec.sameShape (MVec.flatCopyInv v f) v = true := by
  have := MVec.setVecInv_mid v [] f [] 0 rfl h
  simpa [MVec.flatCopyInv] using this

/-- unflatten ∘ flatten = id: copying a vector's own flattened data back reproduces it exactly -/
theorem C04.unflatten_flatten {α : Type} (v : MVec α) : MVec.flatCopyInv v v.flatten = v := by
  have := MVec.setVecInv_flatten v [] [] 0 rfl
  simpa [MVec.flatCopyInv] using this

/-- round trip composed → flat → composed (`f.copy(a); f.copy_inv(b)` with `b` of the same shape gives `a`'s data;
for `b = a` the vector itself) -/
theorem C04.flat_round_trip {α : Type} (v : MVec α) (buf : List α) (h : buf.length = v.podSize) :
    MVec.flatCopyInv v (MVec.flatCopy v buf) = v := by
  rw [C04.flat_copy_eq_flatten v buf h, C04.unflatten_flatten]

/-- round trip flat → composed → flat -/
theorem C04.flat_round_trip_inv {α : Type} (v : MVec α) (f buf : List α) (h : f.length = v.podSize)
    (hb : buf.length = v.podSize) : MVec.flatCopy (MVec.flatCopyInv v f) buf = f := by
  obtain ⟨h1, h2⟩ := C04.flatten_unflatten v f h
  have hp : (MVec.flatCopyInv v f).podSize = v.podSize := by
    rw [MVec.podSize_eq, MVec.podSize_eq, MVec.sameShape_length _ _ h2]
  rw [C04.flat_copy_eq_flatten _ buf (by rw [hb, hp]), h1]

/-- both directions at an arbitrary scalar offset inside a larger array: only the `size<pod>()` scalars starting at
`off` are written / read -/
theorem C04.set_vec_window {α : Type} (v : MVec α) (pre mid post : List α) (hm : mid.length = v.podSize) :
    MVec.setVec v pre.length (pre ++ mid ++ post) = pre ++ v.flatten ++ post ∧
    (MVec.setVecInv v pre.length (pre ++ mid ++ post)).flatten = mid :=
  ⟨MVec.setVec_mid v pre mid post pre.length rfl hm, (MVec.setVecInv_mid v pre mid post pre.length rfl hm).1⟩

/-- explicit offsets: the leaves are read / written at the prefix sums of the pod sizes of the preceding leaves
(block count × block size for blocked leaves), e.g. `[off, off + n₀, off + n₀ + n₁, …]` -/
theorem C04.leaf_offsets_prefix_sums {α : Type} (v : MVec α) (off : Nat) :
    MVec.leafOffsets v off = MVec.prefixOffsets off (MVec.leafSizes v) ∧ (MVec.leafSizes v).sum = v.podSize :=
  ⟨MVec.leafOffsets_eq v off, MVec.leafSizes_sum v⟩

/-- "every nesting = flat vector" lifted through the copies: copying the result of a composed axpy out to a flat
array gives the flat kernel applied to the copied-out operands -/
theorem C04.flat_copy_axpy {α : Type} [CommRing α] (al : Bool) (a : α) (r x : MVec α) (h : MVec.sameShape r x = true)
    (b0 b1 b2 : List α) (h0 : b0.length = (MVec.axpy al a r x).podSize) (h1 : b1.length = r.podSize)
    (h2 : b2.length = x.podSize) :
    MVec.flatCopy (MVec.axpy al a r x) b0 = axpyK al a (MVec.flatCopy r b1) (MVec.flatCopy x b2) := by
  rw [C04.flat_copy_eq_flatten _ b0 h0, C04.flat_copy_eq_flatten r b1 h1, C04.flat_copy_eq_flatten x b2 h2]
  exact C04.axpy_flatten al a r x h

/-- witness with a blocked component in the middle (offsets 0, 1, 5 — not 0, 1, 2) -/
example : MVec.leafOffsets (MVec.tupleCons (MVec.dense [(1 : Rat)]) (MVec.tupleCons (MVec.blocked 4 [2, 3, 4, 5])
    (MVec.tupleOne (MVec.dense [6, 7])))) 0 = [0, 1, 5] := by decide

/-! ## every alias branch of `component_invert` / `component_product` / `axpy` on COMPOSED vectors

The member functions of the model recurse explicitly and hand every argument on by name (`Model/VecOps.lean`); the
`*_flatten` theorems above are stated for EVERY value of every argument (`al`, `rx`, `ry`, `a`, `s`, …), so an argument
dropped or replaced in a recursive call (e.g. `rest().component_invert(x.rest())` without `alpha`) would make them false.
Corollaries: the aliased call on a nested vector equals the generic flat formula on the flattened data. -/

theorem C04.component_invert_composed_alias {α : Type} [Field α] (s : α) (r : MVec α) (h : MVec.sameShape r r = true) :
    (MVec.componentInvert true s r r).flatten = cinvK false s r.flatten r.flatten := by
  rw [C04.component_invert_flatten true s r r h, C04.component_invert_alias]

theorem C04.component_product_composed_alias_rx {α : Type} [CommRing α] (ry : Bool) (r y : MVec α)
    (h : MVec.sameShape r r = true) (h' : MVec.sameShape r y = true) :
    (MVec.componentProduct true ry r r y).flatten = cprodK false false r.flatten r.flatten y.flatten := by
  rw [C04.component_product_flatten true ry r r y h h', C04.component_product_alias_rx]

theorem C04.component_product_composed_alias_ry {α : Type} [CommRing α] (r x : MVec α)
    (h : MVec.sameShape r x = true) (h' : MVec.sameShape r r = true) :
    (MVec.componentProduct false true r x r).flatten = cprodK false false r.flatten x.flatten r.flatten := by
  rw [C04.component_product_flatten false true r x r h h', C04.component_product_alias_ry]

theorem C04.axpy_composed_alias {α : Type} [CommRing α] (a : α) (r : MVec α) (h : MVec.sameShape r r = true) :
    (MVec.axpy true a r r).flatten = axpyK false a r.flatten r.flatten := by
  rw [C04.axpy_flatten true a r r h, C04.axpy_alias]

/-- a vector has its own shape (discharges the `sameShape r r` hypotheses) -/
theorem C04.sameShape_refl {α : Type} (r : MVec α) : MVec.sameShape r r = true := by
  induction r with
  | dense d => simp [MVec.sameShape]
  | blocked b d => simp [MVec.sameShape]
  | tupleOne f ih => simpa [MVec.sameShape] using ih
  | tupleCons f r ihf ihr => simp [MVec.sameShape, ihf, ihr]
  | powerOne f ih => simpa [MVec.sameShape] using ih
  | powerCons f r ihf ihr => simp [MVec.sameShape, ihf, ihr]


/-! ## tier B: the generic dot loop in floating point (standard model `FlModel` / `FlNum` of C01)

`dotK` — the function `drv_c04` runs at ℚ — instantiated at the scalar type `FlNum M` IS the floating-point loop
`r = 0; for(i) r = fl(r + fl(x[i]·y[i]))` of `Arch::DotProduct::value_generic` (both branches). -/
open FeatModel.LA in
/-- `|fl(dot) − Σ xᵢyᵢ| ≤ γ_{n+1} Σ|xᵢ||yᵢ|`, `γ_m = m·u/(1 − m·u)`, for the generic and the aliased branch -/
theorem C04.fl_dot_gamma (M : FlModel) (al : Bool) (x y : List (FlNum M)) (hl : x.length = y.length)
    (hal : al = true → y = x) (hn : ((x.length + 1 : Nat) : Rat) * M.u < 1) :
    |(dotK al x y).val - ∑ k ∈ Finset.Ico 0 x.length, (x.getD k 0).val * (y.getD k 0).val|
      ≤ gammaFl M.u (x.length + 1) * ∑ k ∈ Finset.Ico 0 x.length, |(x.getD k 0).val| * |(y.getD k 0).val| := by
  rw [dotK_eq_foldRange al x y hl hal]
  have := fl_foldRange_error M (fun k => x.getD k 0) (fun k => y.getD k 0) 0 x.length (by simpa using hn)
  simpa using this

open FeatModel.LA in
/-- the sum of squares accumulated by `Norm2::value_generic` (before the square root): `norm2sqr` in floating point -/
theorem C04.fl_sumSq_gamma (M : FlModel) (x : List (FlNum M)) (hn : ((x.length + 1 : Nat) : Rat) * M.u < 1) :
    |(sumSq x).val - ∑ k ∈ Finset.Ico 0 x.length, (x.getD k 0).val * (x.getD k 0).val|
      ≤ gammaFl M.u (x.length + 1) * ∑ k ∈ Finset.Ico 0 x.length, |(x.getD k 0).val| * |(x.getD k 0).val| := by
  have h := C04.fl_dot_gamma M true x x rfl (fun _ => rfl) hn
  simpa [dotK, sumSq] using h

open FeatModel.LA in
/-- `triple_dot` (generic branch `r += x[i]*y[i]*z[i]`, i.e. `fl(r + fl(fl(x·y)·z))`): the same bound relative to the
already rounded first products `p̂ᵢ = fl(xᵢyᵢ)`; `|p̂ᵢ − xᵢyᵢ| ≤ u|xᵢyᵢ|` is the model's `mul_spec` -/
theorem C04.fl_triple_dot_gamma (M : FlModel) (x y z : List (FlNum M)) (hxy : x.length = y.length)
    (hxz : x.length = z.length) (hn : ((x.length + 1 : Nat) : Rat) * M.u < 1) :
    |(tdotK false false false x y z).val
        - ∑ k ∈ Finset.Ico 0 x.length, ((List.zipWith (fun a b => a * b) x y).getD k 0).val * (z.getD k 0).val|
      ≤ gammaFl M.u (x.length + 1)
        * ∑ k ∈ Finset.Ico 0 x.length, |((List.zipWith (fun a b => a * b) x y).getD k 0).val| * |(z.getD k 0).val| := by
  have hp : (List.zipWith (fun a b => a * b) x y).length = x.length := by simp [hxy]
  have hzip : List.zipWith (fun xi (p : FlNum M × FlNum M) => xi * p.1 * p.2) x (List.zip y z)
      = List.zipWith (fun a b => a * b) (List.zipWith (fun a b => a * b) x y) z := by
    clear hn hp
    induction x generalizing y z with
    | nil => simp
    | cons a t ih =>
      cases y with
      | nil => simp at hxy
      | cons b u =>
        cases z with
        | nil => simp at hxz
        | cons c v =>
          simp only [List.zip_cons_cons, List.zipWith_cons_cons]
          rw [ih u v (by simpa using hxy) (by simpa using hxz)]
  have h := C04.fl_dot_gamma M false (List.zipWith (fun a b => a * b) x y) z (by rw [hp, hxz]) (by simp)
    (by rw [hp]; exact hn)
  rw [hp] at h
  simpa [tdotK, dotK, hzip] using h
