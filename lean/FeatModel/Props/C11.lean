import FeatModel.Lemmas.C11Num
import FeatModel.Lemmas.C11Xml
import FeatModel.Lemmas.C11Mesh
import FeatModel.Lemmas.C11Graph
import FeatModel.Lemmas.C11RoundTrip
import FeatModel.Lemmas.C11RoundTrip2
import FeatModel.Lemmas.C11Ini
import FeatModel.Lemmas.C11Sound2
import FeatModel.Lemmas.C11Strict
import FeatModel.Lemmas.C11Bezier
import FeatModel.Lemmas.C11Charts
import FeatModel.Lemmas.C11XmlGrammar
import FeatModel.Lemmas.C11ChartCtor
/-!
# C11 — mesh/config files round-trip; malformed input is rejected without crashing

All theorems are about the model functions executed by `drv_c11` (`parseMeshFile`, `printMeshFile`, `scanMarkup`,
`readIndex`/`readInt`/`readQ`, `RawGraph.serialize`/`deserialize`), which the correspondence run ties to
`MeshFileReader`, `MeshFileWriter`, `Xml::Scanner`, `String::parse` and `Graph::serialize`/`Graph(buffer)`.

The mesh type is a triple (shape, SHAPE dimension, WORLD dimension) as in FEAT's `ConformalMesh<Shape, world_dim>`;
nine types are supported (`C11.supported_types`), including surfaces in 3D and curves in 2D / 3D.  A node knows its
world dimension (`Node.wdim`); vertex rows, the `type` / `mesh` header fields and the chart kinds follow it.

Proved here: parser soundness for every input text (accepted ⇒ root mesh, every mesh part and every partition have
exactly their declared counts, tuple widths and index ranges; a missing child block of a non-empty dimension is never
accepted), `parse ∘ print ∘ parse = parse` for every accepted file (hence `parse ∘ print = id` on everything the
parser can return, and the byte-for-byte clause), `parse ∘ print = id` for explicitly described nodes, property-map
dump/parse for trees of any depth with admissible keys/values, the number and markup layers' print/read round trips,
graph (de)serialisation round trip and byte-for-byte idempotence for every graph, and the strictness of the number
layer (exact accepted language of index tokens, rejection of suffixes and negative indices).
Not proved (observed by correspondence + oracle only): SurfaceMesh and Extrude charts (not modelled: the model answers
`Outcome.unmodelled`, so no theorem below speaks about such files), chart-linked mesh parts in the round-trip theorems,
the closed round-trip form for results with charts; memory safety of the C++ runtime.
-/
open FeatModel.C11

/-! ## "input that violates its declared counts, dimensions or vertex-index ranges is always rejected" -/

/-- Parser soundness, for every input text: an accepted file yields a root mesh whose entity counts equal the
    declared sizes, whose vertex rows have the WORLD dimension `n.wdim` of the file's mesh type (which may exceed the
    shape dimension `dim`: surfaces in 3D, curves in 2D / 3D - see `C11.parser_world_dim`), whose index tuples have the width of their shape
    and whose vertex indices are all below the number of vertices. -/
theorem C11.parser_soundness (text : Str) (sh : Shape) (dim : Nat) (n : Node) (msh : Mesh)
    (h : parseMeshFile text = .ok sh dim n) (hm : n.mesh = some msh) : msh.wf sh dim n.wdim = true :=
  parseMeshFile_mesh_wf text sh dim n msh h hm

/-- the vertex-index range clause spelled out -/
theorem C11.parser_indices_in_range (text : Str) (sh : Shape) (dim : Nat) (n : Node) (msh : Mesh)
    (h : parseMeshFile text = .ok sh dim n) (hm : n.mesh = some msh) :
    ∀ i, i < dim → ∀ t ∈ msh.topo.getD i [], ∀ x ∈ t, x < msh.verts.length :=
  parseMeshFile_indices_in_range h hm

/-- the same for the second-generation parse with a fixed mesh type (what `reparse` runs) -/
theorem C11.parseBody_soundness (sh : Shape) (dim wdim : Nat) (m : Markup) (iline : Nat) (rest : List Str) (n : Node)
    (msh : Mesh) (h : parseBody sh dim wdim m iline rest = .ok sh dim n) (hm : n.mesh = some msh) :
    msh.wf sh dim wdim = true :=
  parseBody_mesh_wf sh dim wdim m iline rest n msh h hm

/-- The world dimension of an accepted file: `(sh, dim, n.wdim)` is one of the nine mesh types the harness
    instantiates, and every vertex of the root mesh has exactly `n.wdim` coordinates (not `dim`: for a surface mesh
    in 3D, `dim = 2` and every vertex has 3 coordinates). -/
theorem C11.parser_world_dim (text : Str) (sh : Shape) (dim : Nat) (n : Node)
    (h : parseMeshFile text = .ok sh dim n) :
    supported sh dim n.wdim = true ∧ (∀ m, n.mesh = some m → ∀ v ∈ m.verts, v.length = n.wdim) :=
  parseMeshFile_world_dim h

/-- `n.wdim` (and `dim`) are the dimensions `read_root_markup` reads from the `mesh` attribute of the root markup -/
theorem C11.parser_world_dim_from_root (text : Str) (sh : Shape) (dim : Nat) (n : Node)
    (h : parseMeshFile text = .ok sh dim n) :
    ∃ m iline rest, readRoot (splitLines text) 0 = .ok (m, iline, rest) ∧
      rootType iline m = .ok (some (sh, (dim : Int), (n.wdim : Int))) :=
  parseMeshFile_root_type h

/-- the nine supported mesh types `(shape, shape dimension, world dimension)` -/
theorem C11.supported_types (sh : Shape) (dim wdim : Nat) :
    supported sh dim wdim = true ↔
      (sh = .hyper ∧ dim = 1 ∧ wdim = 1) ∨ (sh = .hyper ∧ dim = 2 ∧ wdim = 2) ∨ (sh = .hyper ∧ dim = 3 ∧ wdim = 3) ∨
      (sh = .simplex ∧ dim = 2 ∧ wdim = 2) ∨ (sh = .simplex ∧ dim = 3 ∧ wdim = 3) ∨
      (sh = .hyper ∧ dim = 2 ∧ wdim = 3) ∨ (sh = .simplex ∧ dim = 2 ∧ wdim = 3) ∨
      (sh = .hyper ∧ dim = 1 ∧ wdim = 2) ∨ (sh = .hyper ∧ dim = 1 ∧ wdim = 3) :=
  ⟨RT.supported_cases, RT.supported_of_cases⟩

/-- `MeshParser::create`: a `<Mesh type="conformal:<shape>:<d>:<w'>" …>` whose 4th component reads as an integer
    different from the world dimension of the mesh type being parsed is a content error (the first three components
    being fine) - the reader never fills a `world_dim`-mesh from a block declared for another world dimension -/
theorem C11.mesh_header_world_dim_mismatch_rejected (st : St) (line : Nat) (m : Markup) (ty sz a b c d : Str)
    (wd : Int) (hty : attrOf m "type" = some ty) (hsz : attrOf m "size" = some sz)
    (hsplit : splitByColon ty = [a, b, c, d]) (ha : a = "conformal".toList) (hb : b = st.shape.name)
    (hc : readInt c = some (st.dim : Int)) (hd : readInt d = some wd) (hne : wd ≠ (st.wdim : Int)) :
    meshCreate st line m = .error ⟨.content, line⟩ :=
  meshCreate_world_dim_mismatch st line m ty sz a b c d wd hty hsz hsplit ha hb hc hd hne

/-- `VerticesParser::content`: a vertex line that does not have exactly `world_dim` coordinates is a content error -/
theorem C11.vertex_line_wrong_coord_count_rejected (st : St) (line : Nat) (s : Str) (count : Nat)
    (acc : List (List Rat)) (rest : List Frame) (hs : st.stack = Frame.verts count acc :: rest)
    (hne : (splitWs s).length ≠ st.wdim) : contentM st line s = .error ⟨.content, line⟩ :=
  contentM_verts_wrong_coord_count st line s count acc rest hs hne

/-- Mesh parts, for every input text: an accepted file yields parts whose every mapping has exactly the declared
    number of entries (so a `<Mapping>` block missing for a dimension of non-zero size is never accepted), whose own
    topology (if any) has the declared counts, tuple widths and vertex indices below the part's vertex count, and
    whose attribute sets have one row of the declared width per vertex. -/
theorem C11.parser_soundness_parts (text : Str) (sh : Shape) (dim : Nat) (n : Node)
    (h : parseMeshFile text = .ok sh dim n) : ∀ np ∈ n.parts, Part.wf sh dim np.2 :=
  parseMeshFile_parts_wf text sh dim n h

/-- the completeness clause spelled out: a dimension declared with non-zero size has a mapping of exactly that size -/
theorem C11.parser_mapping_complete (text : Str) (sh : Shape) (dim : Nat) (n : Node)
    (h : parseMeshFile text = .ok sh dim n) :
    ∀ np ∈ n.parts, ∀ d, d ≤ dim → 0 < np.2.sizes.getD d 0 →
      (np.2.maps.getD d []).length = np.2.sizes.getD d 0 :=
  parseMeshFile_mapping_complete h

/-- Partitions: one patch per declared rank, every patch strictly increasing with elements below the declared
    element count and together containing exactly the declared number of elements; every rank needs its `<Patch>`
    block (`C11.partition_close_complete`, former finding K10). -/
theorem C11.parser_soundness_partitions (text : Str) (sh : Shape) (dim : Nat) (n : Node)
    (h : parseMeshFile text = .ok sh dim n) : ∀ p ∈ n.partitions, p.wf :=
  parseMeshFile_partitions_wf text sh dim n h

/-- "a mapping index ≥ the parent's entity count ⇒ reject": in an accepted file every mapping index of every mesh
    part is an entity index of the root mesh (`MeshNodeLinker` validation, also before a topology is deducted) -/
theorem C11.parser_mapping_in_range (text : Str) (sh : Shape) (dim : Nat) (n : Node) (m : Mesh)
    (h : parseMeshFile text = .ok sh dim n) (hm : n.mesh = some m) :
    ∀ np ∈ n.parts, ∀ d, ∀ i ∈ np.2.maps.getD d [], i < m.sizes.getD d 0 :=
  parseMeshFile_mapping_lt h hm

/-- the patches of an accepted partition contain exactly the declared number of elements -/
theorem C11.parser_partition_elements (text : Str) (sh : Shape) (dim : Nat) (n : Node)
    (h : parseMeshFile text = .ok sh dim n) : ∀ p ∈ n.partitions, (p.patches.map List.length).sum = p.ne :=
  parseMeshFile_partition_elements h

/-- a partition can only be closed when every declared rank has had its `<Patch>` block and the element count is met -/
theorem C11.partition_close_complete (st st' : St) (line : Nat) (name : Str) (prio level : Int) (nr ne : Nat)
    (patches : List (List Nat)) (hv : List Bool) (rest : List Frame)
    (hs : st.stack = Frame.partition name prio level nr ne patches hv :: rest) (h : closeTop st line = .ok st') :
    (∀ b ∈ hv, b = true) ∧ (patches.map List.length).sum = ne :=
  ⟨(closeTop_partition_flags hs h).1, (closeTop_partition_flags hs h).2.1⟩

/-- an accepted root mesh and every accepted part with a topology (`full` or `parent`, former finding K12) have no
    entity count of zero directly below a non-zero one -/
theorem C11.parser_sizes_no_zero_below (text : Str) (sh : Shape) (dim : Nat) (n : Node)
    (h : parseMeshFile text = .ok sh dim n) :
    (∀ m, n.mesh = some m → zeroBelow m.sizes = false) ∧
    (∀ np ∈ n.parts, np.2.hasTopo = true → zeroBelow np.2.sizes = false) :=
  ⟨fun _ hm => parseMeshFile_sizes_no_zero_below h hm, parseMeshFile_parts_no_zero_below_all h⟩

/-- `topology="parent"`: the deduced topology is the restriction of the parent's index sets - every deduced index is a
    position in the part's vertex mapping that maps back to the parent's vertex of that cell -/
theorem C11.deduct_topology_spec (m : Mesh) (p : Part) (t : List (List (List Nat))) (h : deductTopo m p = some t) :
    t.length = m.topo.length ∧ ∀ d, d < m.topo.length →
      (t.getD d []).length = (p.maps.getD (d + 1) []).length ∧
      ∀ k c : Nat, (p.maps.getD (d + 1) [])[k]? = some c → ∃ tup : List Nat, (t.getD d [])[k]? = some tup ∧
        tup.length = ((m.topo.getD d []).getD c []).length ∧
        ∀ j v : Nat, ((m.topo.getD d []).getD c [])[j]? = some v →
          ∃ x : Nat, tup[j]? = some x ∧ x < (p.maps.getD 0 []).length ∧ (p.maps.getD 0 [])[x]? = some v :=
  S2.deductTopo_spec h

/-- every index of a part topology of an accepted file - read from `<Topology>` blocks or DEDUCED from the parent for
    `topology="parent"` (a part that does not contain all vertices of its entities is rejected: former finding K11) -
    is a valid local vertex index of the part, and every tuple has the width of its shape -/
theorem C11.parser_part_topology_in_range (text : Str) (sh : Shape) (dim : Nat) (n : Node)
    (h : parseMeshFile text = .ok sh dim n) :
    ∀ np ∈ n.parts, np.2.hasTopo = true → ∀ i, i < dim →
      (np.2.topo.getD i []).length = np.2.sizes.getD (i + 1) 0 ∧
      ∀ t ∈ np.2.topo.getD i [], t.length = nverts sh (i + 1) ∧ ∀ x ∈ t, x < np.2.sizes.getD 0 0 :=
  fun np hnp => (parseMeshFile_parts_wf text sh dim n h np hnp).2.2.2.2.2.1

/-- every chart link of an accepted file resolves in the atlas of the result -/
theorem C11.parser_chart_links (text : Str) (sh : Shape) (dim : Nat) (n : Node)
    (h : parseMeshFile text = .ok sh dim n) :
    ∀ np ∈ n.parts, np.2.chart = [] ∨ (mapFind strLt np.2.chart n.charts).isSome :=
  parseMeshFile_chart_links h

/-- the same two for the second-generation parse with a fixed mesh type -/
theorem C11.reparse_soundness (sh sh' : Shape) (dim dim' wdim : Nat) (text : Str) (n : Node)
    (h : reparse sh dim wdim text = .ok sh' dim' n) :
    (∀ np ∈ n.parts, Part.wf sh' dim' np.2) ∧ (∀ p ∈ n.partitions, p.wf) :=
  ⟨reparse_parts_wf sh sh' dim dim' wdim text n h, reparse_partitions_wf sh sh' dim dim' wdim text n h⟩

/-- `wf` is not vacuous: the unit square with four edges and one quadrilateral -/
example : Mesh.wf .hyper 2 2 (⟨[4, 4, 1], [[0, 0], [1, 0], [0, 1], [1, 1]],
    [[[0, 1], [2, 3], [0, 2], [1, 3]], [[0, 1, 2, 3]]]⟩ : Mesh) = true := by decide

/-- … also with a world dimension above the shape dimension: the same quadrilateral as a surface in 3D -/
example : Mesh.wf .hyper 2 3 (⟨[4, 4, 1], [[0, 0, 0], [1, 0, 0], [0, 1, 1], [1, 1, 1]],
    [[[0, 1], [2, 3], [0, 2], [1, 3]], [[0, 1, 2, 3]]]⟩ : Mesh) = true := by decide

/-- model-level totality: the parser returns one of its four outcomes on every text (it is a structurally
    recursive function of the line list, so it cannot hang) -/
theorem C11.parse_total (text : Str) :
    (∃ e, parseMeshFile text = .err e) ∨ parseMeshFile text = .notype ∨ parseMeshFile text = .unmodelled ∨
    (∃ sh dim n, parseMeshFile text = .ok sh dim n) := by
  cases h : parseMeshFile text with
  | err e => exact Or.inl ⟨e, rfl⟩
  | notype => exact Or.inr (Or.inl rfl)
  | unmodelled => exact Or.inr (Or.inr (Or.inl rfl))
  | ok sh dim n => exact Or.inr (Or.inr (Or.inr ⟨sh, dim, n, rfl⟩))

/-! ## `parse ∘ print = id` and `print ∘ parse ∘ print = print` -/

/-- The round-trip statement in closed form, for every input text: whatever the parser returns for a file with a
    root mesh is reproduced exactly by parsing its written form (`parse ∘ print ∘ parse = parse`).
    Covers files with `topology="parent"` parts (the deduced topology is written as `topology="full"` and read back).
    `_partial`: proved for results without charts (`hc`); charts are covered for explicitly given
    nodes by `C11.parse_print_node_charts_partial`. -/
theorem C11.parse_print_parse_partial (text : Str) (sh : Shape) (dim : Nat) (n : Node)
    (h : parseMeshFile text = .ok sh dim n) (hm : n.mesh.isSome) (hc : n.charts = []) :
    parseMeshFile (printMeshFile sh dim n) = .ok sh dim n :=
  parse_print_parse_nocharts text sh dim n h hm hc

/-- byte-for-byte clause in closed form: writing the re-parsed node reproduces the first output -/
theorem C11.print_parse_print_parse_partial (text : Str) (sh : Shape) (dim : Nat) (n : Node)
    (h : parseMeshFile text = .ok sh dim n) (hm : n.mesh.isSome) (hc : n.charts = [])
    (sh' : Shape) (dim' : Nat) (n' : Node)
    (h' : parseMeshFile (printMeshFile sh dim n) = .ok sh' dim' n') :
    printMeshFile sh' dim' n' = printMeshFile sh dim n := by
  rw [parse_print_parse_nocharts text sh dim n h hm hc] at h'
  cases h'
  rfl

/-- files without a root mesh (mesh parts / partitions only): the written root markup has no mesh type, the parse
    with the known type gives the node back -/
theorem C11.parse_print_reparse_partial (text : Str) (sh : Shape) (dim : Nat) (n : Node)
    (h : parseMeshFile text = .ok sh dim n) (hm : n.mesh = none) (hc : n.charts = []) :
    parseMeshFile (printMeshFile sh dim n) = .notype ∧
    reparse sh dim n.wdim (printMeshFile sh dim n) = .ok sh dim n :=
  FeatModel.C11.parse_print_reparse text sh dim n h hm hc

/-- Mesh node with a root mesh, any number of mesh parts (mappings, optional own topology, attribute sets) and
    partitions, every one of the nine supported mesh types `(shape, shape dimension, world dimension)` - hypercube
    1/1, 2/2, 3/3, simplex 2/2, 3/3, and the embedded types hypercube 2/3, simplex 2/3, hypercube 1/2, 1/3 - and every size: parsing the written file gives back exactly the node.
    Hypotheses: the root mesh is well-formed, names are trimmed and free of `"`, `<`, `>`, newline, counts equal the
    declared sizes, numbers fit their C++ types, parts/attributes are sorted by name, patches are sorted,
    duplicate-free and contain the declared number of elements, no entity count of zero below a non-zero one, every
    mapping index is an entity index of the root mesh (`PartOkFull`, `PartitionOk`, `zeroBelow`, `mapOutOfRange`).  `_partial` w.r.t. the property: charts and `topology="parent"`
    parts are outside the model. -/
theorem C11.parse_print_node_partial (sh : Shape) (dim wdim : Nat) (m : Mesh) (parts : List (Str × Part))
    (partitions : List Partition)
    (hs : supported sh dim wdim = true) (hwf : m.wf sh dim wdim = true) (h64 : ∀ s ∈ m.sizes, s < 2 ^ 64)
    (hzb : zeroBelow m.sizes = false)
    (hp : ∀ np ∈ parts, PartOkFull sh dim np.1 np.2)
    (hsorted : parts.Pairwise (fun a b => strLt a.1 b.1 = true))
    (hpt : ∀ p ∈ partitions, PartitionOk p)
    (hmap : mapOutOfRange { mesh := some m, parts := parts, partitions := partitions, wdim := wdim } = false) :
    parseMeshFile (printMeshFile sh dim { mesh := some m, parts := parts, partitions := partitions, wdim := wdim })
      = .ok sh dim { mesh := some m, parts := parts, partitions := partitions, wdim := wdim } :=
  parse_print_node_full sh dim wdim m parts partitions hs hwf h64 hzb hp hsorted hpt hmap

/-- The header field the writer prints: `conformal:<shape>:<SHAPE dimension>:<WORLD dimension>` (literally), and
    semantically: the first line printed for a node with a root mesh scans to a markup whose `mesh` attribute splits
    at the colons into exactly these four components, the two numbers read back as `dim` and `n.wdim`, and
    `read_root_markup` returns the mesh type `(sh, dim, n.wdim)` - for all nine supported mesh types. -/
theorem C11.printed_type_string (sh : Shape) (dim : Nat) (n : Node) (m : Mesh) (hm : n.mesh = some m)
    (hs : supported sh dim n.wdim = true) :
    meshTypeStr sh dim n.wdim =
      "conformal:".toList ++ sh.name ++ ":".toList ++ showNat dim ++ ":".toList ++ showNat n.wdim ∧
    ∃ (l : Str) (rest : List Str) (mk : Markup) (ty : Str),
      writeLines sh dim n = l :: rest ∧ scanMarkup l = .ok (some mk) ∧ attrOf mk "mesh" = some ty ∧
      splitByColon ty = ["conformal".toList, sh.name, showNat dim, showNat n.wdim] ∧
      readInt (showNat dim) = some (dim : Int) ∧ readInt (showNat n.wdim) = some (n.wdim : Int) ∧
      ∀ line, rootType line mk = .ok (some (sh, (dim : Int), (n.wdim : Int))) :=
  ⟨meshTypeStr_eq sh dim n.wdim, FeatModel.C11.printed_type_string sh dim n m hm hs⟩

/-- byte-for-byte clause for the same class: writing the parsed result reproduces the first output -/
theorem C11.print_parse_print_node_partial (sh : Shape) (dim wdim : Nat) (m : Mesh) (parts : List (Str × Part))
    (partitions : List Partition)
    (hs : supported sh dim wdim = true) (hwf : m.wf sh dim wdim = true) (h64 : ∀ s ∈ m.sizes, s < 2 ^ 64)
    (hzb : zeroBelow m.sizes = false)
    (hp : ∀ np ∈ parts, PartOkFull sh dim np.1 np.2)
    (hsorted : parts.Pairwise (fun a b => strLt a.1 b.1 = true))
    (hpt : ∀ p ∈ partitions, PartitionOk p)
    (hmap : mapOutOfRange { mesh := some m, parts := parts, partitions := partitions, wdim := wdim } = false)
    (sh' : Shape) (dim' : Nat) (n' : Node)
    (h : parseMeshFile (printMeshFile sh dim { mesh := some m, parts := parts, partitions := partitions, wdim := wdim }) = .ok sh' dim' n') :
    printMeshFile sh' dim' n' = printMeshFile sh dim { mesh := some m, parts := parts, partitions := partitions, wdim := wdim } :=
  print_parse_print_node sh dim wdim m parts partitions hs hwf h64 hzb hp hsorted hpt hmap sh' dim' n' h

/-- a node without root mesh (mesh-part / partition files): the written root markup carries no mesh type, so the
    type-detecting entry point answers `notype`, and the parse with the known type gives the node back -/
theorem C11.reparse_print_nomesh_partial (sh : Shape) (dim wdim : Nat) (parts : List (Str × Part))
    (partitions : List Partition) (hdim : dim + 1 < 2 ^ 64)
    (hp : ∀ np ∈ parts, PartOkFull sh dim np.1 np.2)
    (hsorted : parts.Pairwise (fun a b => strLt a.1 b.1 = true))
    (hpt : ∀ p ∈ partitions, PartitionOk p) :
    parseMeshFile (printMeshFile sh dim { mesh := none, parts := parts, partitions := partitions, wdim := wdim }) = .notype ∧
    reparse sh dim wdim (printMeshFile sh dim { mesh := none, parts := parts, partitions := partitions, wdim := wdim })
      = .ok sh dim { mesh := none, parts := parts, partitions := partitions, wdim := wdim } :=
  reparse_print_nomesh sh dim wdim parts partitions hdim hp hsorted hpt

/-! ## property maps (INI): `PropertyMap::read ∘ PropertyMap::write = id` -/

/-- Dump/parse identity for property trees of arbitrary depth (`Forest` = nested sections in write order):
    keys non-empty, trimmed, without `=`, `#`, newline; values trimmed, without `#`, newline, not ending in `&`;
    no entry with key `[…` and value `…]` (the known defect class 7); section names non-empty, trimmed, without `#`,
    newline; keys and sibling sections strictly sorted without regard to case.  For both `replace` modes. -/
theorem C11.ini_roundtrip (replace : Bool) (es : List (Str × Str)) (f : IniRT.Forest)
    (hes : ∀ kv ∈ es, IniRT.EntOk kv) (hsorted : IniRT.SortedKeys es) (hf : f.Ok) :
    iniRead replace (iniWrite (IniRT.treeMap es f)) = some (IniRT.treeMap es f) :=
  ini_roundtrip_tree replace es f hes hsorted hf

/-- byte-for-byte clause for property maps -/
theorem C11.ini_roundtrip_bytes (replace : Bool) (es : List (Str × Str)) (f : IniRT.Forest)
    (hes : ∀ kv ∈ es, IniRT.EntOk kv) (hsorted : IniRT.SortedKeys es) (hf : f.Ok) :
    (iniRead replace (iniWrite (IniRT.treeMap es f))).map iniWrite = some (iniWrite (IniRT.treeMap es f)) :=
  ini_roundtrip_tree_bytes replace es f hes hsorted hf

/-- Charts (Circle and Bezier in world dimension 2, Sphere in world dimension 3): a node with an atlas of well-formed
    charts (`ChartOk`: non-empty admissible name, kind matching the WORLD dimension `wdim` of the mesh type - as FEAT's
    `DimensionalChartHelper<world_dim>` -, for all nine supported mesh types, e.g. a Sphere for a surface mesh 2/3; circle/sphere: radius ≥ the reader's threshold, non-degenerate
    circle domain; Bezier: `BezierOk` = at least 2 vertex points, first one without control points, 2 coordinates per
    point, parameters absent or one per vertex point, orientation ±1; sorted by name) is reproduced exactly - chart
    numbers are exact rationals printed as `p/q`, so this is an identity of the printed strings as well.
    `_partial`: mesh parts that link to a chart (`chart="…"`) and the SurfaceMesh / Extrude chart kinds are not covered. -/
theorem C11.parse_print_node_charts_partial (sh : Shape) (dim wdim : Nat) (m : Mesh) (parts : List (Str × Part))
    (partitions : List Partition) (charts : List (Str × Chart))
    (hs : supported sh dim wdim = true) (hwf : m.wf sh dim wdim = true) (h64 : ∀ s ∈ m.sizes, s < 2 ^ 64)
    (hzb : zeroBelow m.sizes = false)
    (hp : ∀ np ∈ parts, PartOkFull sh dim np.1 np.2)
    (hsorted : parts.Pairwise (fun a b => strLt a.1 b.1 = true))
    (hpt : ∀ p ∈ partitions, PartitionOk p)
    (hmap : mapOutOfRange { mesh := some m, parts := parts, partitions := partitions, wdim := wdim } = false)
    (hch : ∀ nc ∈ charts, ChartOk wdim nc.1 nc.2)
    (hcs : charts.Pairwise (fun a b => strLt a.1 b.1 = true)) :
    parseMeshFile (printMeshFile sh dim { mesh := some m, parts := parts, partitions := partitions, charts := charts, wdim := wdim })
      = .ok sh dim { mesh := some m, parts := parts, partitions := partitions, charts := charts, wdim := wdim } :=
  parse_print_node_charts sh dim wdim m parts partitions charts hs hwf h64 hzb hp hsorted hpt hmap hch hcs

/-- malformed chart input is rejected: a midpoint with a wrong number of coordinates -/
theorem C11.circle_bad_midpoint_rejected (line : Nat) (m : Markup) (ms : Str)
    (h2 : attrOf m "midpoint" = some ms) (h4 : (splitWs ms).length ≠ 2) : circleCreate line m = gErr line :=
  circleCreate_bad_midpoint line m ms h2 h4

/-- Bezier: a point line with a wrong number of coordinates is a content error … -/
theorem C11.bezier_wrong_coord_count_rejected (st : St) (line : Nat) (s : Str) (size read : Nat)
    (acc : List (List (List Rat) × List Rat)) (rest : List Frame) (nc : Nat)
    (hstack : st.stack = Frame.bezierPoints size read acc :: rest)
    (hnc : readIndex ((splitWs s).headD []) = some nc)
    (hlen : (splitWs s).length ≠ (nc + 1) * 2 + 1) : contentM st line s = cErr line :=
  contentM_bezier_wrong_coord_count st line s size read acc rest nc hstack hnc hlen

/-- … and a `<Points>` block with fewer lines than the declared size cannot be closed (grammar error) -/
theorem C11.bezier_points_short_rejected (st : St) (line : Nat) (size read sz : Nat)
    (acc : List (List (List Rat) × List Rat)) (cl : Bool) (o : Rat) (segs : List (List (List Rat) × List Rat))
    (params : List Rat) (rest : List Frame)
    (hstack : st.stack = Frame.bezierPoints size read acc :: Frame.bezier sz cl o segs params :: rest)
    (h : read < size) : closeTop st line = gErr line :=
  closeTop_bezier_points_short st line size read sz acc cl o segs params rest hstack h

/-- a `<Chart>` without a chart element cannot be closed -/
theorem C11.empty_chart_rejected (st : St) (line : Nat) (name : Str) (rest : List Frame)
    (hs : st.stack = Frame.chart name none :: rest) : closeTop st line = gErr line :=
  closeTop_empty_chart st line name rest hs

/-- The chart parsers never reach the always-active assertions of the chart constructors (`radius > 0`): whatever
    `CircleChartParser::create` accepts satisfies the constructor's precondition … -/
theorem C11.circle_accept_implies_ctor_precondition (line : Nat) (m : Markup) (c : Chart) (deg : Bool)
    (h : circleCreate line m = .ok (c, deg)) : c.ctorOk :=
  circleCreate_ctorOk h

theorem C11.sphere_accept_implies_ctor_precondition (line : Nat) (m : Markup) (c : Chart)
    (h : sphereCreate line m = .ok c) : c.ctorOk :=
  sphereCreate_ctorOk h

/-- … and every radius outside it (negative of ANY magnitude, zero, tiny) is rejected with the documented
    GrammarError: the parser's test is `radius < CoordType(1E-5)` on the signed value, not on its magnitude -/
theorem C11.circle_nonpositive_radius_rejected (line : Nat) (m : Markup) (rs ms : Str) (r : Rat)
    (h1 : attrOf m "radius" = some rs) (h2 : attrOf m "midpoint" = some ms) (h3 : readQ rs = some r)
    (h4 : r ≤ 0) : circleCreate line m = gErr line :=
  circleCreate_small_radius_rejected line m rs ms r h1 h2 h3 (nonpositive_radius_below_min r h4)

theorem C11.sphere_nonpositive_radius_rejected (line : Nat) (m : Markup) (rs ms : Str) (r : Rat)
    (h1 : attrOf m "radius" = some rs) (h2 : attrOf m "midpoint" = some ms) (h3 : readQ rs = some r)
    (h4 : r ≤ 0) : sphereCreate line m = gErr line :=
  sphereCreate_small_radius_rejected line m rs ms r h1 h2 h3 (nonpositive_radius_below_min r h4)

/-- exact acceptance criterion of the radius: accepted iff not below the threshold (which is positive) -/
theorem C11.circle_radius_accepted_iff (line : Nat) (m : Markup) (c : Chart) (deg : Bool)
    (h : circleCreate line m = .ok (c, deg)) :
    ∃ rs r, attrOf m "radius" = some rs ∧ readQ rs = some r ∧ ¬ r < radiusMin ∧ c.radius = r ∧ 0 < radiusMin :=
  let ⟨rs, r, a, b, c', d⟩ := circleCreate_radius h
  ⟨rs, r, a, b, c', d, radiusMin_pos⟩

/-! ## XML scanner: soundness and completeness with respect to the line grammar -/

/-- on EVERY byte string the scanner (with the recording parser) either yields events or a SyntaxError whose line
    number is a line of the input -/
theorem C11.scan_error_is_syntax (text : Str) (e : Err) (h : scanDoc text = .error e) :
    e.cls = .syntax ∧ 1 ≤ e.line ∧ e.line ≤ (splitLines text).length :=
  ⟨XG.scanDoc_error_class h, XG.scanDoc_error_line h⟩

/-- every accepted document is the event list of a well-formed tree (one root element, properly nested, valid names,
    sorted attribute maps, text only inside elements) -/
theorem C11.scan_ok_is_tree (text : Str) (evs : List Event) (h : scanDoc text = .ok evs) :
    ∃ line m children closeLine,
      evs = (XG.Items.node line m children closeLine .nil).events ∧ (XG.Items.node line m children closeLine .nil).WF :=
  XG.scanDoc_ok_tree h

/-- every markup the scanner accepts is well-formed -/
theorem C11.scan_markup_sound (s : Str) (m : Markup) (h : scanMarkup s = .ok (some m)) : XG.MarkupOK m :=
  (XG.scanMarkup_sound h).1

/-- grammar completeness, line level: every markup line of the documented grammar, with arbitrary white space
    (blanks, tabs, CR, … after `<`, around `=`, before `/` and `>`) and any admissible quoted values, is scanned to the
    intended markup (first occurrence of a key wins, values trimmed) -/
theorem C11.scan_markup_complete (w0 w1 w2 : Str) (termin : Bool) (name : Str) (attrs : List XG.AttrL)
    (w3 : Str) (closed : Bool) (w4 w5 : Str)
    (hw0 : XG.AllWs w0) (hw1 : XG.AllWs w1) (hw2 : XG.AllWs w2) (hw3 : XG.AllWs w3) (hw4 : XG.AllWs w4)
    (hw5 : XG.AllWs w5) (hn : validName name = true) (ha : ∀ a ∈ attrs, a.OK)
    (hsep : ∀ a, attrs.head? = some a → a.sep ≠ []) (ht : termin = true → attrs = [] ∧ closed = false) :
    scanMarkup (trim (XG.renderMarkup w0 w1 w2 termin name attrs w3 closed w4 w5)) =
      .ok (some { name := name, attrs := XG.attrMap attrs, closed := closed, termin := termin }) :=
  XG.scanMarkup_complete hw0 hw1 hw2 hw3 hw4 hw5 hn ha hsep ht

/-! ## number layer (`String::parse<T>` against `operator<<`) -/

theorem C11.readIndex_showNat (n : Nat) (h : n < 2 ^ 64) : readIndex (showNat n) = some n :=
  FeatModel.C11.readIndex_showNat n h

theorem C11.readInt_showInt (z : Int) (h : -2 ^ 31 ≤ z ∧ z < 2 ^ 31) : readInt (showInt z) = some z :=
  FeatModel.C11.readInt_showInt z h

/-- coordinates and attribute values: exact for every rational -/
theorem C11.readQ_showQ (x : Rat) : readQ (showQ x) = some x := FeatModel.C11.readQ_showQ x

/-- an accepted index always fits `Index` (out-of-range digit strings are rejected, negative ones wrap) -/
theorem C11.readIndex_range (s : Str) (n : Nat) (h : readIndex s = some n) : n < 2 ^ 64 := readIndex_lt h

theorem C11.readInt_range (s : Str) (z : Int) (h : readInt s = some z) : -(2 ^ 31 : Int) ≤ z ∧ z < 2 ^ 31 :=
  FeatModel.C11.readInt_range h

/-- strictness (fixed `String::parse`): the accepted index tokens are exactly `+?D+` with value below 2^64 -/
theorem C11.readIndex_language (s : Str) (n : Nat) :
    readIndex s = some n ↔ ∃ ds, ds ≠ [] ∧ (∀ c ∈ ds, isDigit c = true) ∧ (trim s = ds ∨ trim s = '+' :: ds) ∧
      digitsVal 0 ds = n ∧ n < 2 ^ 64 :=
  readIndex_eq_some_iff s n

/-- every token with a non-digit suffix (`3x`, `1.5`, `0x10`) is rejected -/
theorem C11.readIndex_suffix_reject (ds suffix : Str) (hne : ds ≠ []) (hd : ∀ c ∈ ds, isDigit c = true)
    (hs : suffix ≠ []) (hs0 : ∀ c, suffix.head? = some c → isDigit c = false)
    (htrim : trim (ds ++ suffix) = ds ++ suffix) : readIndex (ds ++ suffix) = none :=
  FeatModel.C11.readIndex_suffix_reject ds suffix hne hd hs hs0 htrim

/-- a negative number is never accepted as an index (no wrap-around) -/
theorem C11.readIndex_negative_reject (s : Str) (h : (trim s).head? = some '-') : readIndex s = none :=
  readIndex_neg s h

/-- a printed coordinate followed by anything that is not a digit is rejected -/
theorem C11.readQ_suffix_reject (x : Rat) (suffix : Str) (hs : suffix ≠ [])
    (hs0 : ∀ c, suffix.head? = some c → isDigit c = false)
    (htrim : trim (showQ x ++ suffix) = showQ x ++ suffix) : readQ (showQ x ++ suffix) = none :=
  FeatModel.C11.readQ_suffix_reject x suffix hs hs0 htrim

/-- a printed row of indices is tokenised and read back exactly (any indentation) -/
theorem C11.index_row_roundtrip (k : Nat) (ns : List Nat) (h : ∀ n ∈ ns, n < 2 ^ 64) :
    (splitWs (List.replicate k ' ' ++ " ".toList.intercalate (ns.map showNat))).map readIndex = ns.map some :=
  readIndex_showNat_line k ns h

theorem C11.coord_row_roundtrip (k : Nat) (qs : List Rat) :
    (splitWs (List.replicate k ' ' ++ " ".toList.intercalate (qs.map showQ))).map readQ = qs.map some :=
  readQ_showQ_line k qs

/-! ## XML scanner: what the writer prints is scanned back to the same markup -/

theorem C11.scan_open (nm : Str) (h : validName nm = true) :
    scanMarkup ('<' :: nm ++ ['>']) = .ok (some { name := nm, attrs := [], closed := false, termin := false }) :=
  scanMarkup_open h

theorem C11.scan_terminator (nm : Str) (h : validName nm = true) :
    scanMarkup ('<' :: '/' :: nm ++ ['>']) = .ok (some { name := nm, attrs := [], closed := false, termin := true }) :=
  scanMarkup_terminator h

theorem C11.scan_closed (nm : Str) (h : validName nm = true) :
    scanMarkup ('<' :: nm ++ ['/', '>']) = .ok (some { name := nm, attrs := [], closed := true, termin := false }) :=
  scanMarkup_closed h

theorem C11.scan_one_attr (nm k v : Str) (hnm : validName nm = true) (hk : validName k = true)
    (hv : ∀ c ∈ v, c ≠ '"' ∧ c ≠ '<' ∧ c ≠ '>') (htv : trim v = v) :
    scanMarkup ('<' :: (nm ++ ' ' :: (k ++ '=' :: '"' :: (v ++ ['"', '>'])))) =
      .ok (some { name := nm, attrs := [(k, v)], closed := false, termin := false }) :=
  scanMarkup_one_attr hnm hk hv htv

/-- a line that has exactly one of `<…` / `…>` is always a syntax error -/
theorem C11.scan_half_bracket (s : Str) (h : startsWith s ['<'] ≠ endsWith s ['>']) : scanMarkup s = .error () :=
  scanMarkup_half_bracket h

/-- a line with neither is content -/
theorem C11.scan_content (s : Str) (h1 : s.head? ≠ some '<') (h2 : s.getLast? ≠ some '>') : scanMarkup s = .ok none :=
  scanMarkup_content' h1 h2

/-! ## graph serialisation -/

/-- `Graph(buffer)` of `serialize()` is the graph itself, for every graph with at least one domain node -/
theorem C11.graph_bytes_roundtrip (g : RawGraph) (h : g.domainPtr.length ≥ 2) :
    RawGraph.deserialize g.serialize = some g :=
  graph_deserialize_serialize' g h

/-- byte-for-byte clause -/
theorem C11.graph_bytes_idempotent (g : RawGraph) (h : g.domainPtr.length ≥ 2) :
    (RawGraph.deserialize g.serialize).map RawGraph.serialize = some g.serialize :=
  graph_serialize_idempotent g h

/-- the default-constructed graph (regression of the fixed finding F10) round-trips -/
theorem C11.graph_default_roundtrip (k : Nat) :
    RawGraph.deserialize (RawGraph.serialize { numImage := k, domainPtr := [], imageIdx := [] })
      = some { numImage := k, domainPtr := [], imageIdx := [] } :=
  FeatModel.C11.graph_default_roundtrip k

/-- byte-for-byte clause for EVERY graph (fixed `Graph::serialize`: the pointer array of a graph without domain nodes
    is not stored), in particular for `Graph(0, k, 0)`, the former finding K8 -/
theorem C11.graph_bytes_idempotent_all (g : RawGraph) :
    (RawGraph.deserialize g.serialize).map RawGraph.serialize = some g.serialize :=
  graph_serialize_idempotent_any g

theorem C11.graph_zero_domain_idempotent (k : Nat) :
    (RawGraph.deserialize (RawGraph.serialize { numImage := k, domainPtr := [0], imageIdx := [] })).map RawGraph.serialize
      = some (RawGraph.serialize { numImage := k, domainPtr := [0], imageIdx := [] }) :=
  FeatModel.C11.graph_zero_domain_idempotent k
