import FeatModel.Lemmas.C11Num
import FeatModel.Lemmas.C11Xml
import FeatModel.Lemmas.C11Mesh
import FeatModel.Lemmas.C11Graph
import FeatModel.Lemmas.C11RoundTrip
/-!
# C11 — mesh/config files round-trip; malformed input is rejected without crashing

All theorems are about the model functions executed by `drv_c11` (`parseMeshFile`, `printMeshFile`, `scanMarkup`,
`readIndex`/`readInt`/`readQ`, `RawGraph.serialize`/`deserialize`), which the correspondence run ties to
`MeshFileReader`, `MeshFileWriter`, `Xml::Scanner`, `String::parse` and `Graph::serialize`/`Graph(buffer)`.

Proved here: parser soundness for every input text (accepted ⇒ declared counts, tuple widths and vertex-index
ranges hold), `parse ∘ print = id` and the byte-for-byte clause for the root mesh (all five mesh types, all sizes),
the number and markup layers' print/read round trips, graph (de)serialisation round trip, and the exact shape of the
known zero-domain-node defect.  Not proved (observed by correspondence + oracle only): round trip of mesh parts,
attributes and partitions (`C11.FullRoundTrip` below), property-map dump/parse, memory safety of the C++ runtime.
-/
open FeatModel.C11

/-- the full round-trip statement of the property for mesh nodes without charts: every node obtainable by parsing
    some file is reproduced exactly by parsing its written form (hence also byte for byte).  The proved part is
    `C11.parse_print_mesh_partial` (root mesh only: `parts = []`, `partitions = []`). -/
def C11.FullRoundTrip : Prop :=
  ∀ (text : Str) (sh : Shape) (dim : Nat) (n : Node), parseMeshFile text = .ok sh dim n →
    parseMeshFile (printMeshFile sh dim n) = .ok sh dim n

/-! ## "input that violates its declared counts, dimensions or vertex-index ranges is always rejected" -/

/-- Parser soundness, for every input text: an accepted file yields a root mesh whose entity counts equal the
    declared sizes, whose vertex rows have the world dimension, whose index tuples have the width of their shape
    and whose vertex indices are all below the number of vertices. -/
theorem C11.parser_soundness (text : Str) (sh : Shape) (dim : Nat) (n : Node) (msh : Mesh)
    (h : parseMeshFile text = .ok sh dim n) (hm : n.mesh = some msh) : msh.wf sh dim = true :=
  parseMeshFile_mesh_wf text sh dim n msh h hm

/-- the vertex-index range clause spelled out -/
theorem C11.parser_indices_in_range (text : Str) (sh : Shape) (dim : Nat) (n : Node) (msh : Mesh)
    (h : parseMeshFile text = .ok sh dim n) (hm : n.mesh = some msh) :
    ∀ i, i < dim → ∀ t ∈ msh.topo.getD i [], ∀ x ∈ t, x < msh.verts.length :=
  parseMeshFile_indices_in_range h hm

/-- the same for the second-generation parse with a fixed mesh type (what `reparse` runs) -/
theorem C11.parseBody_soundness (sh : Shape) (dim : Nat) (m : Markup) (iline : Nat) (rest : List Str) (n : Node)
    (msh : Mesh) (h : parseBody sh dim m iline rest = .ok sh dim n) (hm : n.mesh = some msh) : msh.wf sh dim = true :=
  parseBody_mesh_wf sh dim m iline rest n msh h hm

/-- `wf` is not vacuous: the unit square with four edges and one quadrilateral -/
example : Mesh.wf .hyper 2 (⟨[4, 4, 1], [[0, 0], [1, 0], [0, 1], [1, 1]],
    [[[0, 1], [2, 3], [0, 2], [1, 3]], [[0, 1, 2, 3]]]⟩ : Mesh) = true := by decide

/-- model-level totality: the parser returns one of its four outcomes on every text (it is a structurally
    recursive function of the line list, so it cannot hang) -/
theorem C11.parse_total (text : Str) :
    (∃ e, parseMeshFile text = .err e) ∨ parseMeshFile text = .notype ∨ parseMeshFile text = .unmodelled ∨
    (∃ sh dim n, parseMeshFile text = .ok sh dim n) := by
  cases h : parseMeshFile text with
  | err e => exact Or.inl ⟨e, rfl⟩
  | notype => exact Or.inr (Or.inl rfl)
  | unmodelled => exact Or.inr (Or.inr (Or.inl rfl))
  | ok sh dim n => exact Or.inr (Or.inr (Or.inr ⟨sh, dim, n, rfl⟩))

/-! ## `parse ∘ print = id` and `print ∘ parse ∘ print = print` -/

/-- Root mesh (vertices and topology) of every supported mesh type and every size: parsing the written file
    gives back exactly the mesh.  Missing w.r.t. `C11.FullRoundTrip`: mesh parts, attributes, partitions. -/
theorem C11.parse_print_mesh_partial (sh : Shape) (dim : Nat) (m : Mesh)
    (hs : supported sh dim dim = true) (hwf : m.wf sh dim = true) (h64 : ∀ s ∈ m.sizes, s < 2 ^ 64) :
    parseMeshFile (printMeshFile sh dim { mesh := some m, parts := [], partitions := [] })
      = .ok sh dim { mesh := some m, parts := [], partitions := [] } :=
  parse_print_mesh sh dim m hs hwf h64

/-- byte-for-byte clause for the same class: writing the parsed result reproduces the first output -/
theorem C11.print_parse_print_mesh_partial (sh : Shape) (dim : Nat) (m : Mesh)
    (hs : supported sh dim dim = true) (hwf : m.wf sh dim = true) (h64 : ∀ s ∈ m.sizes, s < 2 ^ 64)
    (sh' : Shape) (dim' : Nat) (n' : Node)
    (h : parseMeshFile (printMeshFile sh dim { mesh := some m, parts := [], partitions := [] }) = .ok sh' dim' n') :
    printMeshFile sh' dim' n' = printMeshFile sh dim { mesh := some m, parts := [], partitions := [] } :=
  print_parse_print_mesh sh dim m hs hwf h64 sh' dim' n' h

/-! ## number layer (`String::parse<T>` against `operator<<`) -/

theorem C11.readIndex_showNat (n : Nat) (h : n < 2 ^ 64) : readIndex (showNat n) = some n :=
  FeatModel.C11.readIndex_showNat n h

theorem C11.readInt_showInt (z : Int) (h : -2 ^ 31 ≤ z ∧ z < 2 ^ 31) : readInt (showInt z) = some z :=
  FeatModel.C11.readInt_showInt z h

/-- coordinates and attribute values: exact for every rational -/
theorem C11.readQ_showQ (x : Rat) : readQ (showQ x) = some x := FeatModel.C11.readQ_showQ x

/-- an accepted index always fits `Index` (out-of-range digit strings are rejected, negative ones wrap) -/
theorem C11.readIndex_range (s : Str) (n : Nat) (h : readIndex s = some n) : n < 2 ^ 64 := readIndex_lt h

theorem C11.readInt_range (s : Str) (z : Int) (h : readInt s = some z) : -(2 ^ 31 : Int) ≤ z ∧ z < 2 ^ 31 :=
  FeatModel.C11.readInt_range h

/-- a printed row of indices is tokenised and read back exactly (any indentation) -/
theorem C11.index_row_roundtrip (k : Nat) (ns : List Nat) (h : ∀ n ∈ ns, n < 2 ^ 64) :
    (splitWs (List.replicate k ' ' ++ " ".toList.intercalate (ns.map showNat))).map readIndex = ns.map some :=
  readIndex_showNat_line k ns h

theorem C11.coord_row_roundtrip (k : Nat) (qs : List Rat) :
    (splitWs (List.replicate k ' ' ++ " ".toList.intercalate (qs.map showQ))).map readQ = qs.map some :=
  readQ_showQ_line k qs

/-! ## XML scanner: what the writer prints is scanned back to the same markup -/

theorem C11.scan_open (nm : Str) (h : validName nm = true) :
    scanMarkup ('<' :: nm ++ ['>']) = .ok (some { name := nm, attrs := [], closed := false, termin := false }) :=
  scanMarkup_open h

theorem C11.scan_terminator (nm : Str) (h : validName nm = true) :
    scanMarkup ('<' :: '/' :: nm ++ ['>']) = .ok (some { name := nm, attrs := [], closed := false, termin := true }) :=
  scanMarkup_terminator h

theorem C11.scan_closed (nm : Str) (h : validName nm = true) :
    scanMarkup ('<' :: nm ++ ['/', '>']) = .ok (some { name := nm, attrs := [], closed := true, termin := false }) :=
  scanMarkup_closed h

theorem C11.scan_one_attr (nm k v : Str) (hnm : validName nm = true) (hk : validName k = true)
    (hv : ∀ c ∈ v, c ≠ '"' ∧ c ≠ '<' ∧ c ≠ '>') (htv : trim v = v) :
    scanMarkup ('<' :: (nm ++ ' ' :: (k ++ '=' :: '"' :: (v ++ ['"', '>'])))) =
      .ok (some { name := nm, attrs := [(k, v)], closed := false, termin := false }) :=
  scanMarkup_one_attr hnm hk hv htv

/-- a line that has exactly one of `<…` / `…>` is always a syntax error -/
theorem C11.scan_half_bracket (s : Str) (h : startsWith s ['<'] ≠ endsWith s ['>']) : scanMarkup s = .error () :=
  scanMarkup_half_bracket h

/-- a line with neither is content -/
theorem C11.scan_content (s : Str) (h1 : s.head? ≠ some '<') (h2 : s.getLast? ≠ some '>') : scanMarkup s = .ok none :=
  scanMarkup_content' h1 h2

/-! ## graph serialisation -/

/-- `Graph(buffer)` of `serialize()` is the graph itself, for every graph with at least one domain node -/
theorem C11.graph_bytes_roundtrip (g : RawGraph) (h : g.domainPtr.length ≥ 2) :
    RawGraph.deserialize g.serialize = some g :=
  graph_deserialize_serialize' g h

/-- byte-for-byte clause -/
theorem C11.graph_bytes_idempotent (g : RawGraph) (h : g.domainPtr.length ≥ 2) :
    (RawGraph.deserialize g.serialize).map RawGraph.serialize = some g.serialize :=
  graph_serialize_idempotent g h

/-- the default-constructed graph (regression of the fixed finding F10) round-trips -/
theorem C11.graph_default_roundtrip (k : Nat) :
    RawGraph.deserialize (RawGraph.serialize { numImage := k, domainPtr := [], imageIdx := [] })
      = some { numImage := k, domainPtr := [], imageIdx := [] } :=
  FeatModel.C11.graph_default_roundtrip k

/-- The byte-for-byte clause FAILS for a graph with zero domain nodes whose pointer array is allocated
    (`Graph(0, k, 0)`): 48 bytes are written, the re-read graph writes 40 (recorded in FINDINGS_C11.md, class 8).
    This is a theorem about the model of the code as it is. -/
theorem C11.graph_zero_domain_not_idempotent (k : Nat) :
    (RawGraph.deserialize (RawGraph.serialize { numImage := k, domainPtr := [0], imageIdx := [] })).map RawGraph.serialize
      ≠ some (RawGraph.serialize { numImage := k, domainPtr := [0], imageIdx := [] }) :=
  FeatModel.C11.graph_zero_domain_not_idempotent k
