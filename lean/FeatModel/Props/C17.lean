import FeatModel.Lemmas.C17ThreadLayers
import FeatModel.Lemmas.C17Layered
import FeatModel.Lemmas.C17Colored
import FeatModel.Lemmas.C17NoScatter
import FeatModel.Lemmas.C17Cover
import FeatModel.Lemmas.C17Neighbours
import FeatModel.Lemmas.C17Bfs
import FeatModel.Lemmas.C17Repeat
import FeatModel.Lemmas.C17ColoredChain
import FeatModel.Lemmas.C17Termination
import FeatModel.Lemmas.C17TermColored
import FeatModel.Lemmas.C17ErrLayered
import FeatModel.Lemmas.C17ErrColored
import FeatModel.Lemmas.C17ErrColored2
import FeatModel.Lemmas.C17History
import FeatModel.Lemmas.C17Partition
import FeatModel.Lemmas.C17Combine
import FeatModel.Lemmas.C17CellsOnceL
import FeatModel.Lemmas.C17Master
import FeatModel.Lemmas.C17Result
import FeatModel.Lemmas.C17CellsOnceC
import FeatModel.Props.C16
/-! # C17 — threaded assembly is race-free, terminates and equals the serial result

All theorems are about the model functions that `drv_c17` executes and that the correspondence run compares with
`Assembly::DomainAssembler` (`buildThreadLayers` in the `dist` stream; `LCfg.step` / `CCfg.step` in the `trace`
stream, where every recorded event log of a real run must be a run of these transition systems).

Unbounded types.  `Index` (= `std::size_t`/`unsigned long`), `std::size_t` worker ids and counts, the `int` layer
tags of `_build_layers` (`std::vector<int> elem_mask`, `int(layers.size())`), the `char` flags `_element_mask` and the
`char` duplicate masks of the `Graph` render kernels used by `_build_graphs`, and the `Index` colour numbers are all
modelled as unbounded `Nat` / `Bool`; `~Index(0)` sentinels are `Option`.  Narrowing, wrap-around and fixed-size
effects are therefore invisible to every theorem below; what ties the C++ types to the model is the correspondence
stream `boundary-sizes` of `checks/props/c17.py` (cells / layers / components / colours / degrees at 127..129,
255..257, 1000/1001, thorough 32767..65537; actual worker threads 255..257; requested workers up to 65536).
The combine lock is OBSERVED by the instrumented job's `try_lock` probe inside `combine()`, not by a hook.

Not proved here (assumed or observed only):
* scheduler fairness - the explicit hypothesis `hfair` (maximal run) of the `*_fair_run_terminates` theorems;
* the C++ memory model: all theorems treat the protocol steps as sequentially consistent atomic actions; data races
  are a RUNTIME clause observed by ThreadSanitizer (thorough tier);
* that `compile` never aborts for an arbitrary mesh (only `_build_thread_layers` is proved total; `_build_layers`
  finding a root is observed by the `dist` stream);
* jobs without scatter have no per-cell event: "exactly once" is proved for their worker ranges
  (`workers_partition`), not on an event log;
* results of a job whose task throws are unspecified (only termination, exclusion, recovery are proved / observed);
* floating-point rounding is not bounded (results are compared on exactly representable data);
* the correspondence model <-> C++ itself (differential execution, hook H2, boundary-sizes stream).
-/
open FeatModel.DA FeatModel.Adj

/-- `_build_thread_layers`, all three sweeps, for EVERY layer-offset list and every requested worker count that
leaves at least one worker: no unsigned wrap-around, both `XASSERT`s hold, and the result starts at 0, ends at the
number of layers and gives every thread at least two layers. -/
theorem C17.thread_layers_spec (maxW numElems : Nat) (le : List Nat)
    (h : 1 ≤ numWorkersLayered maxW le) :
    ∃ tl : List Nat, buildThreadLayers maxW numElems le = some (numWorkersLayered maxW le, tl) ∧
      tl.length = numWorkersLayered maxW le + 1 ∧ tl.getD 0 0 = 0 ∧
      tl.getD (numWorkersLayered maxW le) 0 = le.length - 1 ∧
      ∀ i, i < numWorkersLayered maxW le → tl.getD i 0 + 2 ≤ tl.getD (i + 1) 0 :=
  buildThreadLayers_spec maxW numElems le h

/-- `_build_thread_layers` never aborts, whatever the layers and the requested worker count (0 included) -/
theorem C17.thread_layers_total (maxW numElems : Nat) (le : List Nat) :
    ∃ r, buildThreadLayers maxW numElems le = some r := by
  by_cases h : 1 ≤ numWorkersLayered maxW le
  · obtain ⟨tl, htl, _⟩ := buildThreadLayers_spec maxW numElems le h
    exact ⟨_, htl⟩
  · refine ⟨(0, []), ?_⟩
    unfold buildThreadLayers
    simp only []
    rw [if_pos (by omega)]

/-- layered protocol, all interleavings: two workers that are inside `scatter()` at the same time are separated by
a complete layer, i.e. their layers are at least 2 apart (with BFS layering: never on vertex-adjacent cells). -/
theorem C17.layered_safe (n : Nat) (le tl cell : Nat → Nat) (comb : Bool)
    (hle : ∀ i j, i < j → j ≤ tl n → le i < le j)
    (htl : ∀ i, i < n → tl i + 2 ≤ tl (i + 1))
    (s : LSt) (hs : (LCfg.ofFns n le tl cell comb).Reach s)
    (a b : Nat) (ha : 1 ≤ a) (hab : a < b) (hb : b ≤ n)
    (hA : s.ph a = .insc) (hB : s.ph b = .insc) :
    ∃ l, s.pos a < le l ∧ le (l + 1) ≤ s.pos b :=
  FeatModel.DA.layered_safe n le tl cell comb hle htl s hs a b ha hab hb hA hB

/-- layered protocol: every reachable non-final state has an enabled transition (no deadlock) -/
theorem C17.layered_no_deadlock (n : Nat) (le tl cell : Nat → Nat) (comb : Bool)
    (hle : ∀ i j, i < j → j ≤ tl n → le i < le j)
    (htl : ∀ i, i < n → tl i + 2 ≤ tl (i + 1))
    (s : LSt) (hs : (LCfg.ofFns n le tl cell comb).Reach s) (hf : LCfg.final s = false) :
    ∃ e s', (LCfg.ofFns n le tl cell comb).step s e = some s' :=
  FeatModel.DA.layered_no_deadlock n le tl cell comb hle htl s hs hf

/-- layered protocol: `combine()` is mutually exclusive -/
theorem C17.layered_combine_mutex (c : LCfg) (s : LSt) (hs : c.Reach s)
    (a b : Nat) (ha : 1 ≤ a ∧ a ≤ c.n) (hb : 1 ≤ b ∧ b ≤ c.n)
    (hA : s.ph a = .inComb) (hB : s.ph b = .inComb) : a = b :=
  FeatModel.DA.layered_combine_mutex c s hs a b ha hb hA hB

/-- the two previous results chained on the configuration the assembler actually builds: for strictly increasing
layer offsets `le` (non-empty layers) the thread layers computed by `buildThreadLayers` make the layered protocol
safe and deadlock-free for every requested worker count. -/
theorem C17.layered_safe_built (maxW numElems : Nat) (le : List Nat) (cell : Nat → Nat) (comb : Bool)
    (hle : ∀ i j, i < j → j < le.length → le.getD i 0 < le.getD j 0)
    (h : 1 ≤ numWorkersLayered maxW le) :
    ∃ tl : List Nat, buildThreadLayers maxW numElems le = some (numWorkersLayered maxW le, tl) ∧
      ∀ s, (LCfg.ofFns (numWorkersLayered maxW le) (fun k => le.getD k 0) (fun k => tl.getD k 0) cell comb).Reach s →
        (∀ a b, 1 ≤ a → a < b → b ≤ numWorkersLayered maxW le → s.ph a = .insc → s.ph b = .insc →
          ∃ l, s.pos a < le.getD l 0 ∧ le.getD (l + 1) 0 ≤ s.pos b) ∧
        (LCfg.final s = false → ∃ e s',
          (LCfg.ofFns (numWorkersLayered maxW le) (fun k => le.getD k 0) (fun k => tl.getD k 0) cell comb).step s e = some s') := by
  obtain ⟨tl, hb, _, _, hlast, hgap⟩ := buildThreadLayers_spec maxW numElems le h
  have h3 : 3 * numWorkersLayered maxW le ≤ le.length := by
    unfold numWorkersLayered
    have := Nat.div_mul_le_self le.length 3
    omega
  have hle' : ∀ i j, i < j → j ≤ (fun k => tl.getD k 0) (numWorkersLayered maxW le) →
      (fun k => le.getD k 0) i < (fun k => le.getD k 0) j := by
    intro i j hij hj
    simp only [] at hj ⊢
    exact hle i j hij (by omega)
  refine ⟨tl, hb, fun s hs => ⟨?_, ?_⟩⟩
  · intro a b ha hab hbn hA hB
    exact FeatModel.DA.layered_safe (numWorkersLayered maxW le) (fun k => le.getD k 0) (fun k => tl.getD k 0) cell comb
      hle' hgap s hs a b ha hab hbn hA hB
  · intro hf
    exact FeatModel.DA.layered_no_deadlock (numWorkersLayered maxW le) (fun k => le.getD k 0) (fun k => tl.getD k 0) cell comb
      hle' hgap s hs hf

/-- colored protocol, all interleavings: all workers that are inside `scatter()` at the same time work on the same
colour, each inside its own share of that colour (with a proper colouring: never on vertex-adjacent cells). -/
theorem C17.colored_safe (c : CCfg) (hn : 1 ≤ c.n) (s : CSt) (hs : c.Reach s) (a b : Nat)
    (ha : 1 ≤ a ∧ a ≤ c.n) (hb : 1 ≤ b ∧ b ≤ c.n) (hA : s.ph a = .insc) (hB : s.ph b = .insc) :
    s.col a = s.col b ∧ c.cbeg (s.col a) a ≤ s.pos a ∧ s.pos a < c.cend (s.col a) a :=
  FeatModel.DA.colored_safe c hn s hs a b ha hb hA hB

/-- colored protocol: no deadlock -/
theorem C17.colored_no_deadlock (c : CCfg) (hn : 1 ≤ c.n) (s : CSt) (hs : c.Reach s)
    (hf : CCfg.final s = false) : ∃ e s', c.step s e = some s' :=
  FeatModel.DA.colored_no_deadlock c hn s hs hf

/-- colored protocol: `combine()` is mutually exclusive -/
theorem C17.colored_combine_mutex (c : CCfg) (s : CSt) (hs : c.Reach s)
    (a b : Nat) (ha : 1 ≤ a ∧ a ≤ c.n) (hb : 1 ≤ b ∧ b ≤ c.n)
    (hA : s.ph a = .inComb) (hB : s.ph b = .inComb) : a = b :=
  FeatModel.DA.colored_combine_mutex c s hs a b ha hb hA hB

/-- jobs without scatter (every strategy; `assemble()` then only opens the front fence and joins, the workers run
`_work_no_scatter` without touching a fence): no deadlock -/
theorem C17.noscatter_no_deadlock (c : NCfg) (s : NSt) (hs : c.Reach s) (hf : NCfg.final s = false) :
    ∃ e s', c.step s e = some s' :=
  FeatModel.DA.noscatter_no_deadlock c s hs hf

/-- jobs without scatter: `combine()` is mutually exclusive -/
theorem C17.noscatter_combine_mutex (c : NCfg) (s : NSt) (hs : c.Reach s)
    (a b : Nat) (ha : 1 ≤ a ∧ a ≤ c.n) (hb : 1 ≤ b ∧ b ≤ c.n)
    (hA : s.ph a = .inComb) (hB : s.ph b = .inComb) : a = b :=
  FeatModel.DA.noscatter_combine_mutex c s hs a b ha hb hA hB

/-- `_build_graphs`: cell `j` is a neighbour of cell `i` in the element-neighbours graph iff the two cells share a
vertex; the graph is square, well-formed, symmetric and duplicate-free -/
theorem C17.neighbours_spec (nvt : Nat) (vae : List (List Nat)) (hv : ∀ l, l ∈ vae → ∀ v, v ∈ l → v < nvt)
    (i j : Nat) :
    j ∈ (neighbours nvt vae).row i ↔ i < vae.length ∧ j < vae.length ∧ ∃ v, v ∈ vae.getD i [] ∧ v ∈ vae.getD j [] :=
  FeatModel.DA.neighbours_spec nvt vae hv i j

theorem C17.neighbours_wf (nvt : Nat) (vae : List (List Nat)) (hv : ∀ l, l ∈ vae → ∀ v, v ∈ l → v < nvt) :
    (neighbours nvt vae).nImg = (neighbours nvt vae).nDom ∧ (neighbours nvt vae).nDom = vae.length ∧
    (neighbours nvt vae).wf = true ∧
    (∀ i j, j ∈ (neighbours nvt vae).row i → i ∈ (neighbours nvt vae).row j) ∧
    (∀ i, ((neighbours nvt vae).row i).Nodup) :=
  FeatModel.DA.neighbours_wf nvt vae hv

/-- `_build_layers` (all four reverse/sorted variants): every selected cell lies in exactly one layer — the new
element list is a permutation of the old one, and the layer offsets are a strictly increasing cut of it (non-empty
layers) from 0 to the number of cells -/
theorem C17.layers_partition (g : Graph) (elemIdx : List Nat) (reverse sorted : Bool)
    (hsq : g.nImg = g.nDom) (hwf : g.wf = true) (hlen : elemIdx.length = g.nDom) (hn : 0 < g.nDom)
    (ei le : List Nat) (h : buildLayers g elemIdx reverse sorted = some (ei, le)) :
    ei.Perm elemIdx ∧ le.getD 0 0 = 0 ∧ le.getD (le.length - 1) 0 = ei.length ∧
      (∀ i j, i < j → j < le.length → le.getD i 0 < le.getD j 0) :=
  bfs_layers_partition g elemIdx reverse sorted hsq hwf hlen hn ei le h

/-- `_build_layers`: adjacent cells lie in equal or consecutive layers, also across components — no layer `l` lies
strictly between the positions `p`, `q` of two adjacent cells (by symmetry of the graph: in either order).  This is
exactly the negation of the conclusion of `layered_safe`. -/
theorem C17.bfs_adjacent_levels (g : Graph) (elemIdx : List Nat) (reverse sorted : Bool)
    (hsq : g.nImg = g.nDom) (hwf : g.wf = true) (hsym : ∀ i j, j ∈ g.row i → i ∈ g.row j)
    (hlen : elemIdx.length = g.nDom) (hnd : elemIdx.Nodup)
    (ei le : List Nat) (h : buildLayers g elemIdx reverse sorted = some (ei, le))
    (p q i j l : Nat) (hp : p < ei.length) (hq : q < ei.length) (hi : i < g.nDom)
    (hpi : ei.getD p 0 = elemIdx.getD i 0) (hqj : ei.getD q 0 = elemIdx.getD j 0) (hadj : j ∈ g.row i)
    (hl : l + 1 < le.length) :
    ¬ (p < le.getD l 0 ∧ le.getD (l + 1) 0 ≤ q) :=
  FeatModel.DA.bfs_adjacent_levels g elemIdx reverse sorted hsq hwf hsym hlen hnd ei le h p q i j l hp hq hi hpi hqj
    hadj hl

/-- the layered chain end to end, on the model functions the driver runs: BFS layers (`buildLayers`) → thread layers
(`buildThreadLayers`, any requested worker count) → fence protocol (`LCfg`), for ALL interleavings: two workers
that are inside `scatter()` at the same time are never on adjacent cells of the graph. -/
theorem C17.layered_never_adjacent (g : Graph) (elemIdx : List Nat) (reverse sorted : Bool)
    (hsq : g.nImg = g.nDom) (hwf : g.wf = true) (hsym : ∀ i j, j ∈ g.row i → i ∈ g.row j)
    (hlen : elemIdx.length = g.nDom) (hnd : elemIdx.Nodup) (hn : 0 < g.nDom)
    (ei le : List Nat) (h : buildLayers g elemIdx reverse sorted = some (ei, le))
    (maxW : Nat) (hW : 1 ≤ numWorkersLayered maxW le) (cell : Nat → Nat) (comb : Bool) :
    ∃ tl : List Nat, buildThreadLayers maxW ei.length le = some (numWorkersLayered maxW le, tl) ∧
      ∀ s, (LCfg.ofFns (numWorkersLayered maxW le) (fun k => le.getD k 0) (fun k => tl.getD k 0) cell comb).Reach s →
        ∀ a b, 1 ≤ a → a < b → b ≤ numWorkersLayered maxW le → s.ph a = .insc → s.ph b = .insc →
          ∀ i j, i < g.nDom → j < g.nDom → ei.getD (s.pos a) 0 = elemIdx.getD i 0 →
            ei.getD (s.pos b) 0 = elemIdx.getD j 0 → j ∉ g.row i ∧ i ∉ g.row j := by
  obtain ⟨_, _, hlast, hmono⟩ := bfs_layers_partition g elemIdx reverse sorted hsq hwf hlen hn ei le h
  obtain ⟨tl, hb, _, _, htlast, hgap⟩ := buildThreadLayers_spec maxW ei.length le hW
  have h3 : 3 * numWorkersLayered maxW le ≤ le.length := by
    unfold numWorkersLayered
    have := Nat.div_mul_le_self le.length 3
    omega
  have hle' : ∀ i j, i < j → j ≤ (fun k => tl.getD k 0) (numWorkersLayered maxW le) →
      (fun k => le.getD k 0) i < (fun k => le.getD k 0) j := by
    intro i j hij hj
    simp only [] at hj ⊢
    exact hmono i j hij (by omega)
  refine ⟨tl, hb, ?_⟩
  intro s hs a b ha hab hbn hA hB i j hi hj hpi hqj
  obtain ⟨l, hlb, hpl, hql⟩ := layered_safe_bounded (numWorkersLayered maxW le) (fun k => le.getD k 0)
    (fun k => tl.getD k 0) cell comb hle' hgap s hs a b ha hab hbn hA hB
  have hpa := layered_insc_pos_lt (numWorkersLayered maxW le) (fun k => le.getD k 0)
    (fun k => tl.getD k 0) cell comb hle' hgap s hs a ha (by omega) hA
  have hpb := layered_insc_pos_lt (numWorkersLayered maxW le) (fun k => le.getD k 0)
    (fun k => tl.getD k 0) cell comb hle' hgap s hs b (by omega) hbn hB
  have hlb : l + 1 ≤ tl.getD (numWorkersLayered maxW le) 0 := hlb
  have hpl : s.pos a < le.getD l 0 := hpl
  have hql : le.getD (l + 1) 0 ≤ s.pos b := hql
  have hpa : s.pos a < le.getD (tl.getD (numWorkersLayered maxW le) 0) 0 := hpa
  have hpb : s.pos b < le.getD (tl.getD (numWorkersLayered maxW le) 0) 0 := hpb
  rw [htlast] at hlb hpa hpb
  rw [hlast] at hpa hpb
  have key : ∀ i j, i < g.nDom → ei.getD (s.pos a) 0 = elemIdx.getD i 0 →
      ei.getD (s.pos b) 0 = elemIdx.getD j 0 → j ∉ g.row i := by
    intro i j hi hpi hqj hadj
    exact FeatModel.DA.bfs_adjacent_levels g elemIdx reverse sorted hsq hwf hsym hlen hnd ei le h
      (s.pos a) (s.pos b) i j l hpa hpb hi hpi hqj hadj (by omega) ⟨hpl, hql⟩
  refine ⟨key i j hi hpi hqj, fun hadj => ?_⟩
  exact key i j hi hpi hqj (hsym j i hadj)

/-- `_build_colors` on the neighbours graph of a mesh: the new element list is the old one rearranged colour by
colour (every selected cell exactly once), and two different cells of one colour block never share a vertex.
With `colored_safe` (simultaneous scatters are in the same colour, on different positions): never on
vertex-adjacent cells. -/
theorem C17.colors_proper (nvt : Nat) (vae : List (List Nat)) (hv : ∀ l, l ∈ vae → ∀ v, v ∈ l → v < nvt)
    (elemIdx : List Nat) (maxW : Nat) :
    ∃ loc : List Nat,
      (buildColors (neighbours nvt vae) elemIdx maxW).2.1 = loc.map (fun k => elemIdx.getD k 0) ∧
      loc.Perm (List.range vae.length) ∧
      (∀ c p q, c + 1 < (buildColors (neighbours nvt vae) elemIdx maxW).2.2.length →
        (buildColors (neighbours nvt vae) elemIdx maxW).2.2.getD c 0 ≤ p → p < q →
        q < (buildColors (neighbours nvt vae) elemIdx maxW).2.2.getD (c + 1) 0 →
        ¬ ∃ v, v ∈ vae.getD (loc.getD p 0) [] ∧ v ∈ vae.getD (loc.getD q 0) []) := by
  obtain ⟨hsq, hnd, hwf, hsym, _⟩ := FeatModel.DA.neighbours_wf nvt vae hv
  obtain ⟨loc, h1, h2, h3⟩ := FeatModel.DA.colors_proper (neighbours nvt vae) elemIdx maxW hsq hwf hsym
  refine ⟨loc, h1, hnd ▸ h2, ?_⟩
  intro c p q hc hp hpq hq ⟨v, hv1, hv2⟩
  have := (h3 c p q hc hp hpq hq).1
  exact this ((FeatModel.DA.neighbours_spec nvt vae hv _ _).2
    ⟨nbr_getD_lt hv1, nbr_getD_lt hv2, v, hv1, hv2⟩)

/-- every selected cell is assembled exactly once: the cell sequences of the workers together are the element list
(no-scatter jobs, layered strategies given the thread-layer spec, colored strategy up to order) -/
theorem C17.workers_cover_noscatter (d : Dist) (h : 1 ≤ d.nW) :
    (List.range d.nW).flatMap (fun k => workerCells d false (k + 1)) = d.elemIdx :=
  workerCells_cover_noscatter d h

theorem C17.workers_cover_layered (d : Dist) (h : 1 ≤ d.nW) (hs : d.strategy ≠ 4)
    (h0 : d.layerElems.getD (d.threadLayers.getD 0 0) 0 = 0)
    (hn : d.layerElems.getD (d.threadLayers.getD d.nW 0) 0 = d.elemIdx.length)
    (hm : ∀ w, w < d.nW → d.layerElems.getD (d.threadLayers.getD w 0) 0 ≤ d.layerElems.getD (d.threadLayers.getD (w + 1) 0) 0) :
    (List.range d.nW).flatMap (fun k => workerCells d true (k + 1)) = d.elemIdx :=
  workerCells_cover_layered d h hs h0 hn hm

theorem C17.workers_cover_colored (d : Dist) (h : 1 ≤ d.nW) (hs : d.strategy = 4)
    (hlen : 1 ≤ d.colorElems.length) (h0 : d.colorElems.getD 0 0 = 0)
    (hn : d.colorElems.getD (d.colorElems.length - 1) 0 = d.elemIdx.length)
    (hm : ∀ c, c + 1 < d.colorElems.length → d.colorElems.getD c 0 ≤ d.colorElems.getD (c + 1) 0) :
    ((List.range d.nW).flatMap (fun k => workerCells d true (k + 1))).Perm d.elemIdx :=
  workerCells_cover_colored d h hs hlen h0 hn hm

/-- the assembled result does not depend on the order in which the cell contributions are added (any commutative,
associative accumulation — exact arithmetic; in floating point this is "up to summation-order rounding"):
every schedule's order of the same cells gives the single-threaded result -/
theorem C17.threaded_eq_serial {α : Type} (op : α → α → α) (hc : ∀ a b, op a b = op b a)
    (ha : ∀ a b c, op (op a b) c = op a (op b c)) (contrib : Nat → α) (z : α)
    (order cells : List Nat) (h : order.Perm cells) :
    order.foldl (fun acc c => op acc (contrib c)) z = cells.foldl (fun acc c => op acc (contrib c)) z :=
  FeatModel.DA.threaded_eq_serial op hc ha contrib z order cells h

/-- colored strategy end to end (colouring of the mesh's neighbours graph → worker shares → fence protocol), for
all interleavings: two workers that are inside `scatter()` at the same time are on two different cells that share
no vertex. -/
theorem C17.colored_never_adjacent (nvt : Nat) (vae : List (List Nat)) (hv : ∀ l, l ∈ vae → ∀ v, v ∈ l → v < nvt)
    (elemIdx : List Nat) (maxW : Nat) (d : Dist) (comb : Bool) (hn : 1 ≤ d.nW)
    (hce : d.colorElems = (buildColors (neighbours nvt vae) elemIdx maxW).2.2)
    (hei : d.elemIdx = (buildColors (neighbours nvt vae) elemIdx maxW).2.1)
    (s : CSt) (hs : (CCfg.ofDist d comb).Reach s) (a b : Nat) (ha : 1 ≤ a) (hab : a < b) (hb : b ≤ d.nW)
    (hA : s.ph a = .insc) (hB : s.ph b = .insc) :
    ∃ loc : List Nat, d.elemIdx = loc.map (fun k => elemIdx.getD k 0) ∧ loc.Perm (List.range vae.length) ∧
      s.pos a < s.pos b ∧
      ¬ ∃ v, v ∈ vae.getD (loc.getD (s.pos a) 0) [] ∧ v ∈ vae.getD (loc.getD (s.pos b) 0) [] :=
  FeatModel.DA.colored_never_adjacent nvt vae hv elemIdx maxW d comb hn hce hei s hs a b ha hab hb hA hB

/-! ### repeated jobs on one assembler -/

/-- the reset loop at the start of `assemble()` closes every fence, whatever the previous job left open -/
theorem C17.reset_closes_all (fs : List Bool) : resetAll fs = List.replicate fs.length false :=
  resetAll_eq fs

/-- without the reset a stale open worker fence gives a different start state (the theorems below rest on the
reset; the trace validator rejects a job that starts its protocol with a fence still open) -/
theorem C17.stale_fence_matters (c : LCfg) : c.initFrom [false, false, true] ≠ c.init :=
  LCfg.initFrom_stale c

set_option linter.unusedVariables false in
/-- repeated jobs: after ANY sequence of jobs on one compiled assembler (layered / colored / no-scatter jobs in any
order; `Session nF fs` = fence vectors such a sequence can leave behind) the next job — modelled as (reset all fences)
; protocol on the persisted fences `fs` — starts in the initial state of its protocol machine, so that every state it
reaches is a reachable state of that machine: the safety, mutual-exclusion and no-deadlock theorems apply to every
job of the sequence. -/
theorem C17.repeated_jobs_safe (nF : Nat) (fs : List Bool) (h : Session nF fs) :
    -- layered job
    (∀ (n : Nat) (le tl cell : Nat → Nat) (comb : Bool),
      (∀ i j, i < j → j ≤ tl n → le i < le j) → (∀ i, i < n → tl i + 2 ≤ tl (i + 1)) →
      ∀ s, (LCfg.ofFns n le tl cell comb).ReachFrom ((LCfg.ofFns n le tl cell comb).startJob fs) s →
        (∀ a b, 1 ≤ a → a < b → b ≤ n → s.ph a = .insc → s.ph b = .insc →
          ∃ l, l + 1 ≤ tl n ∧ s.pos a < le l ∧ le (l + 1) ≤ s.pos b) ∧
        (∀ a b, 1 ≤ a ∧ a ≤ n → 1 ≤ b ∧ b ≤ n → s.ph a = .inComb → s.ph b = .inComb → a = b) ∧
        (LCfg.final s = false → ∃ e s', (LCfg.ofFns n le tl cell comb).step s e = some s')) ∧
    -- colored job
    (∀ (c : CCfg), 1 ≤ c.n → ∀ s, c.ReachFrom (c.startJob fs) s →
        (∀ a b, 1 ≤ a ∧ a ≤ c.n → 1 ≤ b ∧ b ≤ c.n → s.ph a = .insc → s.ph b = .insc →
          s.col a = s.col b ∧ c.cbeg (s.col a) a ≤ s.pos a ∧ s.pos a < c.cend (s.col a) a) ∧
        (∀ a b, 1 ≤ a ∧ a ≤ c.n → 1 ≤ b ∧ b ≤ c.n → s.ph a = .inComb → s.ph b = .inComb → a = b) ∧
        (CCfg.final s = false → ∃ e s', c.step s e = some s')) ∧
    -- job without scatter
    (∀ (c : NCfg) s, c.ReachFrom (c.startJob fs) s →
        (∀ a b, 1 ≤ a ∧ a ≤ c.n → 1 ≤ b ∧ b ≤ c.n → s.ph a = .inComb → s.ph b = .inComb → a = b) ∧
        (NCfg.final s = false → ∃ e s', c.step s e = some s')) := by
  refine ⟨?_, ?_, ?_⟩
  · intro n le tl cell comb hle htl s hs
    have hr := (LCfg.reachFrom_startJob _ fs s).1 hs
    exact ⟨fun a b ha hab hb hA hB => layered_safe_bounded n le tl cell comb hle htl s hr a b ha hab hb hA hB,
      fun a b ha hb hA hB => FeatModel.DA.layered_combine_mutex _ s hr a b ha hb hA hB,
      fun hf => FeatModel.DA.layered_no_deadlock n le tl cell comb hle htl s hr hf⟩
  · intro c hn s hs
    have hr := (CCfg.reachFrom_startJob c fs s).1 hs
    exact ⟨fun a b ha hb hA hB => FeatModel.DA.colored_safe c hn s hr a b ha hb hA hB,
      fun a b ha hb hA hB => FeatModel.DA.colored_combine_mutex c s hr a b ha hb hA hB,
      fun hf => FeatModel.DA.colored_no_deadlock c hn s hr hf⟩
  · intro c s hs
    have hr := (NCfg.reachFrom_startJob c fs s).1 hs
    exact ⟨fun a b ha hb hA hB => FeatModel.DA.noscatter_combine_mutex c s hr a b ha hb hA hB,
      fun hf => FeatModel.DA.noscatter_no_deadlock c s hr hf⟩

/-! ### termination

Every thread's program is a bounded loop, so a variant function (total remaining work of all threads) strictly
decreases with EVERY transition.  Consequences: no run is longer than the initial measure; a run that cannot be
extended has reached the final state (deadlock-freedom); from every reachable state the final state is reachable.
What the model does NOT contain is the scheduler: that the real threads keep taking enabled steps is the fairness
assumption — every runnable thread is eventually scheduled, and a thread blocked in `ThreadFence::wait()` returns
once the fence is open (`open()` sets `_open` under the fence mutex and calls `notify_all()`; the waiter re-checks
`_open` under the same mutex in a loop, so there is no lost wake-up; assumed: `std::condition_variable` delivers the
notification or a later spurious wake-up).  Under this weak fairness every run of the real protocol is a maximal run
of the model, hence finite and ending in the final state. -/

theorem C17.layered_variant_decreases (n : Nat) (le tl cell : Nat → Nat) (comb : Bool)
    (hle : ∀ i j, i < j → j ≤ tl n → le i < le j) (htl : ∀ i, i < n → tl i + 2 ≤ tl (i + 1))
    (s : LSt) (hs : (LCfg.ofFns n le tl cell comb).Reach s) (e : Ev) (s' : LSt)
    (h : (LCfg.ofFns n le tl cell comb).step s e = some s') :
    (LCfg.ofFns n le tl cell comb).measure s' < (LCfg.ofFns n le tl cell comb).measure s :=
  FeatModel.DA.layered_variant_decreases n le tl cell comb hle htl s hs e s' h

/-- every layered run is finite (bounded by the measure), every maximal run ends in the final state, and a final
state is reachable from every reachable state -/
theorem C17.layered_terminates (n : Nat) (le tl cell : Nat → Nat) (comb : Bool)
    (hle : ∀ i j, i < j → j ≤ tl n → le i < le j) (htl : ∀ i, i < n → tl i + 2 ≤ tl (i + 1))
    (s : LSt) (hs : (LCfg.ofFns n le tl cell comb).Reach s) :
    (∀ es s', (LCfg.ofFns n le tl cell comb).run s es = some s' →
      es.length + (LCfg.ofFns n le tl cell comb).measure s' ≤ (LCfg.ofFns n le tl cell comb).measure s) ∧
    ((∀ e, (LCfg.ofFns n le tl cell comb).step s e = none) → LCfg.final s = true) ∧
    (∃ es s', (LCfg.ofFns n le tl cell comb).run s es = some s' ∧ LCfg.final s' = true) :=
  ⟨fun es s' h => FeatModel.DA.layered_runs_bounded n le tl cell comb hle htl s hs es s' h,
   fun hmax => FeatModel.DA.layered_maximal_run_final n le tl cell comb hle htl s hs hmax,
   FeatModel.DA.layered_terminates n le tl cell comb hle htl s hs⟩

theorem C17.colored_variant_decreases (c : CCfg) (hn : 1 ≤ c.n) (s : CSt) (hs : c.Reach s) (e : Ev) (s' : CSt)
    (h : c.step s e = some s') : c.measure s' < c.measure s :=
  FeatModel.DA.colored_variant_decreases c hn s hs e s' h

theorem C17.colored_terminates (c : CCfg) (hn : 1 ≤ c.n) (s : CSt) (hs : c.Reach s) :
    (∀ es s', c.run s es = some s' → es.length + c.measure s' ≤ c.measure s) ∧
    ((∀ e, c.step s e = none) → CCfg.final s = true) ∧
    (∃ es s', c.run s es = some s' ∧ CCfg.final s' = true) :=
  ⟨fun es s' h => FeatModel.DA.colored_runs_bounded c hn s hs es s' h,
   fun hmax => FeatModel.DA.colored_maximal_run_final c hn s hs hmax,
   FeatModel.DA.colored_terminates c hn s hs⟩

theorem C17.noscatter_terminates (c : NCfg) (s : NSt) (hs : c.Reach s) :
    (∀ e s', c.step s e = some s' → c.measure s' < c.measure s) ∧
    (∀ es s', c.run s es = some s' → es.length + c.measure s' ≤ c.measure s) ∧
    ((∀ e, c.step s e = none) → NCfg.final s = true) ∧
    (∃ es s', c.run s es = some s' ∧ NCfg.final s' = true) :=
  ⟨fun e s' h => FeatModel.DA.noscatter_variant_decreases c s hs e s' h,
   fun es s' h => FeatModel.DA.noscatter_runs_bounded c s hs es s' h,
   fun hmax => FeatModel.DA.noscatter_maximal_run_final c s hs hmax,
   FeatModel.DA.noscatter_terminates c s hs⟩

/-! ### the error path (`okay = false`)

A task may throw wherever task code runs; the worker then opens its own fence with `open(false)` and terminates, and
`false` cascades through the fence waits.  `LCfg.estep` / `CCfg.estep` are executed by the driver on the logs of runs
with an injected task failure. -/

/-- layered error path: whatever fails wherever, every reachable non-final state has an enabled transition — all
workers terminate and the master joins -/
theorem C17.layered_err_no_deadlock (n : Nat) (le tl cell : Nat → Nat) (comb : Bool)
    (hle : ∀ i j, i < j → j ≤ tl n → le i < le j) (htl : ∀ i, i < n → tl i + 2 ≤ tl (i + 1))
    (s : LESt) (hs : (LCfg.ofFns n le tl cell comb).EReach s) (hf : LCfg.efinal s = false) :
    ∃ e s', (LCfg.ofFns n le tl cell comb).estep s e = some s' :=
  FeatModel.DA.layered_err_no_deadlock n le tl cell comb hle htl s hs hf

/-- failures do not break the safety of the remaining workers -/
theorem C17.layered_err_safe (n : Nat) (le tl cell : Nat → Nat) (comb : Bool)
    (hle : ∀ i j, i < j → j ≤ tl n → le i < le j) (htl : ∀ i, i < n → tl i + 2 ≤ tl (i + 1))
    (s : LESt) (hs : (LCfg.ofFns n le tl cell comb).EReach s)
    (a b : Nat) (ha : 1 ≤ a) (hab : a < b) (hb : b ≤ n)
    (hA : s.base.ph a = .insc ∧ s.failing a = false) (hB : s.base.ph b = .insc ∧ s.failing b = false) :
    ∃ l, s.base.pos a < le l ∧ le (l + 1) ≤ s.base.pos b :=
  FeatModel.DA.layered_err_safe n le tl cell comb hle htl s hs a b ha hab hb hA hB

/-- the machine with failures extends the failure-free one: every reachable state of `LCfg` is the base of a
reachable state of the error machine in which nobody has failed -/
theorem C17.layered_err_conservative (c : LCfg) (s : LSt) (hs : c.Reach s) :
    ∃ es : LESt, c.EReach es ∧ es.base = s ∧ (∀ t, es.failing t = false) :=
  FeatModel.DA.layered_err_conservative c s hs

/-- layered error path: the variant function decreases with every step (also with failures), so every run is
finite, every maximal run is final, and the final state is reachable from every reachable state -/
theorem C17.layered_err_terminates (n : Nat) (le tl cell : Nat → Nat) (comb : Bool)
    (hle : ∀ i j, i < j → j ≤ tl n → le i < le j) (htl : ∀ i, i < n → tl i + 2 ≤ tl (i + 1))
    (s : LESt) (hs : (LCfg.ofFns n le tl cell comb).EReach s) :
    (∀ e s', (LCfg.ofFns n le tl cell comb).estep s e = some s' →
      (LCfg.ofFns n le tl cell comb).emeasure s' < (LCfg.ofFns n le tl cell comb).emeasure s) ∧
    (∀ es s', (LCfg.ofFns n le tl cell comb).erun s es = some s' →
      es.length + (LCfg.ofFns n le tl cell comb).emeasure s' ≤ (LCfg.ofFns n le tl cell comb).emeasure s) ∧
    ((∀ e, (LCfg.ofFns n le tl cell comb).estep s e = none) → LCfg.efinal s = true) ∧
    (∃ es s', (LCfg.ofFns n le tl cell comb).erun s es = some s' ∧ LCfg.efinal s' = true) :=
  ⟨fun e s' h => FeatModel.DA.layered_err_variant_decreases n le tl cell comb hle htl s hs e s' h,
   fun es s' h => FeatModel.DA.layered_err_runs_bounded n le tl cell comb hle htl s hs es s' h,
   fun hmax => FeatModel.DA.layered_err_maximal_run_final n le tl cell comb hle htl s hs hmax,
   FeatModel.DA.layered_err_terminates n le tl cell comb hle htl s hs⟩

/-- colored error path (workers fail in prepare/assemble/scatter/finish/combine or the constructor; the master
collects `all_okay`, opens the back fence with `false`, leaves the colour loop and joins): no deadlock -/
theorem C17.colored_err_no_deadlock (c : CCfg) (hn : 1 ≤ c.n) (s : CESt) (hs : c.EReach s)
    (hf : CCfg.efinal s = false) : ∃ e s', c.estep s e = some s' :=
  FeatModel.DA.colored_err_no_deadlock c hn s hs hf

/-- colored error path, full safety: non-failing workers that scatter at the same time work on the same colour, each
inside its own share -/
theorem C17.colored_err_safe (c : CCfg) (hn : 1 ≤ c.n) (s : CESt) (hs : c.EReach s) (a b : Nat)
    (ha : 1 ≤ a ∧ a ≤ c.n) (hb : 1 ≤ b ∧ b ≤ c.n)
    (hA : s.base.ph a = .insc ∧ s.failing a = false) (hB : s.base.ph b = .insc ∧ s.failing b = false) :
    s.base.col a = s.base.col b ∧ c.cbeg (s.base.col a) a ≤ s.base.pos a ∧ s.base.pos a < c.cend (s.base.col a) a :=
  FeatModel.DA.colored_err_safe_full c hn s hs a b ha hb hA hB

/-- colored error path: combine() stays mutually exclusive among the non-failing workers -/
theorem C17.colored_err_combine_mutex (c : CCfg) (s : CESt) (hs : c.EReach s) (a b : Nat)
    (ha : 1 ≤ a ∧ a ≤ c.n) (hb : 1 ≤ b ∧ b ≤ c.n)
    (hA : s.base.ph a = .inComb ∧ s.failing a = false) (hB : s.base.ph b = .inComb ∧ s.failing b = false) : a = b :=
  FeatModel.DA.colored_err_combine_mutex c s hs a b ha hb hA hB

/-- colored error path: termination for every interleaving, every failing worker and every failure position - a
variant function decreases with every transition, runs are bounded, maximal runs are final -/
theorem C17.colored_err_terminates (c : CCfg) (hn : 1 ≤ c.n) (s : CESt) (hs : c.EReach s) :
    (∀ e s', c.estep s e = some s' → c.emeasure s' < c.emeasure s) ∧
    (∀ es s', c.erun s es = some s' → es.length + c.emeasure s' ≤ c.emeasure s) ∧
    ((∀ e, c.estep s e = none) → CCfg.efinal s = true) ∧
    (∃ es s', c.erun s es = some s' ∧ CCfg.efinal s' = true) :=
  ⟨fun e s' h => FeatModel.DA.colored_err_variant_decreases c hn s hs e s' h,
   fun es s' h => FeatModel.DA.colored_err_runs_bounded c hn s hs es s' h,
   fun hmax => FeatModel.DA.colored_err_maximal_run_final c hn s hs hmax,
   FeatModel.DA.colored_err_terminates c hn s hs⟩

theorem C17.colored_err_conservative (c : CCfg) (s : CSt) (hs : c.Reach s) :
    ∃ es : CESt, c.EReach es ∧ es.base = s ∧ (∀ t, es.failing t = false) ∧ es.allOkay = true :=
  FeatModel.DA.colored_err_conservative c s hs

/-- error path of jobs without scatter (every strategy): no deadlock, combine exclusive, terminating, conservative -/
theorem C17.noscatter_err_no_deadlock (c : NCfg) (s : NESt) (hs : c.EReach s) (hf : NCfg.efinal s = false) :
    ∃ e s', c.estep s e = some s' :=
  FeatModel.DA.noscatter_err_no_deadlock c s hs hf

theorem C17.noscatter_err_combine_mutex (c : NCfg) (s : NESt) (hs : c.EReach s) (a b : Nat)
    (ha : 1 ≤ a ∧ a ≤ c.n) (hb : 1 ≤ b ∧ b ≤ c.n)
    (hA : s.base.ph a = .inComb ∧ s.failing a = false) (hB : s.base.ph b = .inComb ∧ s.failing b = false) : a = b :=
  FeatModel.DA.noscatter_err_combine_mutex c s hs a b ha hb hA hB

theorem C17.noscatter_err_terminates (c : NCfg) (s : NESt) (hs : c.EReach s) :
    (∀ e s', c.estep s e = some s' → c.emeasure s' < c.emeasure s) ∧
    (∃ es s', c.erun s es = some s' ∧ NCfg.efinal s' = true) :=
  FeatModel.DA.noscatter_err_terminates c s hs

theorem C17.noscatter_err_conservative (c : NCfg) (s : NSt) (hs : c.Reach s) :
    ∃ es : NESt, c.EReach es ∧ es.base = s ∧ (∀ t, es.failing t = false) ∧ (∀ t, es.exited t = false) :=
  FeatModel.DA.noscatter_err_conservative c s hs

/-! ### tiny meshes, worker ranges, history independence -/

/-- every strategy, every requested worker count (also more workers than cells, one cell, no cell): on the output of
`compile` the cells prepared by the master (only when no worker threads are used) and by the workers `1..nW` - empty
ranges included - are exactly the selected cells, each once; for jobs with and without scatter -/
theorem C17.workers_partition (strategy maxW nvt : Nat) (cells : List (List Nat)) (sel : List Nat)
    (hsel : ∀ c, c ∈ sel → ∀ v, v ∈ cells.getD c [] → v < nvt)
    (d : Dist) (h : compile strategy maxW nvt cells sel = some d) (ns : Bool) :
    ((List.range (d.nW + 1)).flatMap (fun w => workerCells d ns w)).Perm sel :=
  compile_workers_partition strategy maxW nvt cells sel hsel d h ns

/-- the number of worker threads actually used is never 1 and never exceeds the request -/
theorem C17.compile_nW (strategy maxW nvt : Nat) (cells : List (List Nat)) (sel : List Nat)
    (d : Dist) (h : compile strategy maxW nvt cells sel = some d) : d.nW ≠ 1 ∧ d.nW ≤ maxW :=
  FeatModel.DA.compile_nW strategy maxW nvt cells sel d h

/-- no cell selected: nothing to do, no worker, no fence -/
theorem C17.compile_empty (strategy maxW nvt : Nat) (cells : List (List Nat)) :
    compile strategy maxW nvt cells [] = some ⟨strategy, 0, [], [], [], [], 0⟩ :=
  FeatModel.DA.compile_empty strategy maxW nvt cells

/-- history independence: the work distribution is immutable after `compile` and the only assembler state a job can
change is the fence vector (the thread statistics are a documented cache, not modelled); after ANY two histories on
the same assembler the same next job has the same start state, the same runs, and leaves the same fence vectors -/
theorem C17.history_independent {nF : Nat} {fs1 fs2 : List Bool} (h1 : Session nF fs1) (h2 : Session nF fs2) :
    (∀ c : LCfg, c.startJob fs1 = c.startJob fs2) ∧ (∀ c : CCfg, c.startJob fs1 = c.startJob fs2) ∧
    (∀ c : NCfg, c.startJob fs1 = c.startJob fs2) ∧
    (∀ (j : Job) (fs' : List Bool), j.leaves fs1 fs' ↔ j.leaves fs2 fs') :=
  ⟨fun c => c.startJob_indep fs1 fs2, fun c => c.startJob_indep fs1 fs2, fun c => c.startJob_indep fs1 fs2,
   fun j fs' => Session.next_job_indep h1 h2 j fs'⟩

/-! ### the combine phase in detail (lock acquire / body / release), every strategy

`xstep` splits `center` / `cleave` of the protocol machines into `lock`, `cbeg`, `cend`, `unlock`; the driver replays
the recorded runs on these machines; the lock is observed by the instrumented job's `try_lock` probe inside
`combine()` (kind 14 of the event log: the mutex must really be held while the body runs). -/

/-- layered / layered_sorted: at most one worker holds `_thread_mutex`, at most one is in the body of `combine()`, and a body only
runs while its worker holds the mutex - for all interleavings -/
theorem C17.layered_combine_exclusive (c : LCfg) (s : XSt LSt) (hs : c.XReach s) (a b : Nat)
    (ha : 1 ≤ a ∧ a ≤ c.n) (hb : 1 ≤ b ∧ b ≤ c.n) :
    (holdsLock (fun s => s.ph) s a → holdsLock (fun s => s.ph) s b → a = b) ∧
    (inBody (fun s => s.ph) s a → inBody (fun s => s.ph) s b → a = b) ∧
    (inBody (fun s => s.ph) s a → holdsLock (fun s => s.ph) s a) :=
  ⟨fun hA hB => layered_x_lock_exclusive c s hs a b ha hb hA hB,
   fun hA hB => layered_x_body_exclusive c s hs a b ha hb hA hB, fun h => h.1⟩

/-- layered / layered_sorted: every worker combines exactly once per job (the log of completed `combine()` bodies of a finished job is
a permutation of the workers `1..n`; empty without combine), never twice at any time -/
theorem C17.layered_combine_once (c : LCfg) (s : XSt LSt) (hs : c.XReach s) :
    s.log.Nodup ∧ (LCfg.final s.base = true → s.log.Perm (if c.comb then (List.range c.n).map (· + 1) else [])) :=
  ⟨(layered_x_log_inv c s hs).1, fun hf => layered_x_combine_once c s hs hf⟩

/-- layered / layered_sorted: the combined result = the fold of the workers' local results in ANY completion order = the fold over the
workers `1..n` (commutative, associative combination; in floating point: up to summation-order rounding) -/
theorem C17.layered_combined_result (c : LCfg) (s : XSt LSt) (hs : c.XReach s) (hf : LCfg.final s.base = true)
    {α : Type} (op : α → α → α) (hc : ∀ a b, op a b = op b a)
    (ha : ∀ a b c, op (op a b) c = op a (op b c)) (z : α) (loc : Nat → α) (hcomb : c.comb = true) :
    combinedResult op z loc s.log = combinedResult op z loc ((List.range c.n).map (· + 1)) :=
  layered_x_result c s hs hf op hc ha z loc hcomb

/-- layered / layered_sorted: the refinement is a refinement - its base component is a reachable state of the protocol machine, so all
theorems about the protocol machine hold along refined runs -/
theorem C17.layered_combine_refines (c : LCfg) (s : XSt LSt) (hs : c.XReach s) : c.Reach s.base :=
  layered_x_base_reach c s hs

/-- colored: at most one worker holds `_thread_mutex`, at most one is in the body of `combine()`, and a body only
runs while its worker holds the mutex - for all interleavings -/
theorem C17.colored_combine_exclusive (c : CCfg) (s : XSt CSt) (hs : c.XReach s) (a b : Nat)
    (ha : 1 ≤ a ∧ a ≤ c.n) (hb : 1 ≤ b ∧ b ≤ c.n) :
    (holdsLock (fun s => s.ph) s a → holdsLock (fun s => s.ph) s b → a = b) ∧
    (inBody (fun s => s.ph) s a → inBody (fun s => s.ph) s b → a = b) ∧
    (inBody (fun s => s.ph) s a → holdsLock (fun s => s.ph) s a) :=
  ⟨fun hA hB => colored_x_lock_exclusive c s hs a b ha hb hA hB,
   fun hA hB => colored_x_body_exclusive c s hs a b ha hb hA hB, fun h => h.1⟩

/-- colored: every worker combines exactly once per job (the log of completed `combine()` bodies of a finished job is
a permutation of the workers `1..n`; empty without combine), never twice at any time -/
theorem C17.colored_combine_once (c : CCfg) (s : XSt CSt) (hs : c.XReach s) :
    s.log.Nodup ∧ (CCfg.final s.base = true → s.log.Perm (if c.comb then (List.range c.n).map (· + 1) else [])) :=
  ⟨(colored_x_log_inv c s hs).1, fun hf => colored_x_combine_once c s hs hf⟩

/-- colored: the combined result = the fold of the workers' local results in ANY completion order = the fold over the
workers `1..n` (commutative, associative combination; in floating point: up to summation-order rounding) -/
theorem C17.colored_combined_result (c : CCfg) (s : XSt CSt) (hs : c.XReach s) (hf : CCfg.final s.base = true)
    {α : Type} (op : α → α → α) (hc : ∀ a b, op a b = op b a)
    (ha : ∀ a b c, op (op a b) c = op a (op b c)) (z : α) (loc : Nat → α) (hcomb : c.comb = true) :
    combinedResult op z loc s.log = combinedResult op z loc ((List.range c.n).map (· + 1)) :=
  colored_x_result c s hs hf op hc ha z loc hcomb

/-- colored: the refinement is a refinement - its base component is a reachable state of the protocol machine, so all
theorems about the protocol machine hold along refined runs -/
theorem C17.colored_combine_refines (c : CCfg) (s : XSt CSt) (hs : c.XReach s) : c.Reach s.base :=
  colored_x_base_reach c s hs

/-- jobs without scatter (every strategy, incl. automatic): at most one worker holds `_thread_mutex`, at most one is in the body of `combine()`, and a body only
runs while its worker holds the mutex - for all interleavings -/
theorem C17.noscatter_combine_exclusive (c : NCfg) (s : XSt NSt) (hs : c.XReach s) (a b : Nat)
    (ha : 1 ≤ a ∧ a ≤ c.n) (hb : 1 ≤ b ∧ b ≤ c.n) :
    (holdsLock (fun s => s.ph) s a → holdsLock (fun s => s.ph) s b → a = b) ∧
    (inBody (fun s => s.ph) s a → inBody (fun s => s.ph) s b → a = b) ∧
    (inBody (fun s => s.ph) s a → holdsLock (fun s => s.ph) s a) :=
  ⟨fun hA hB => noscatter_x_lock_exclusive c s hs a b ha hb hA hB,
   fun hA hB => noscatter_x_body_exclusive c s hs a b ha hb hA hB, fun h => h.1⟩

/-- jobs without scatter (every strategy, incl. automatic): every worker combines exactly once per job (the log of completed `combine()` bodies of a finished job is
a permutation of the workers `1..n`; empty without combine), never twice at any time -/
theorem C17.noscatter_combine_once (c : NCfg) (s : XSt NSt) (hs : c.XReach s) :
    s.log.Nodup ∧ (NCfg.final s.base = true → s.log.Perm (if c.comb then (List.range c.n).map (· + 1) else [])) :=
  ⟨(noscatter_x_log_inv c s hs).1, fun hf => noscatter_x_combine_once c s hs hf⟩

/-- jobs without scatter (every strategy, incl. automatic): the combined result = the fold of the workers' local results in ANY completion order = the fold over the
workers `1..n` (commutative, associative combination; in floating point: up to summation-order rounding) -/
theorem C17.noscatter_combined_result (c : NCfg) (s : XSt NSt) (hs : c.XReach s) (hf : NCfg.final s.base = true)
    {α : Type} (op : α → α → α) (hc : ∀ a b, op a b = op b a)
    (ha : ∀ a b c, op (op a b) c = op a (op b c)) (z : α) (loc : Nat → α) (hcomb : c.comb = true) :
    combinedResult op z loc s.log = combinedResult op z loc ((List.range c.n).map (· + 1)) :=
  noscatter_x_result c s hs hf op hc ha z loc hcomb

/-- jobs without scatter (every strategy, incl. automatic): the refinement is a refinement - its base component is a reachable state of the protocol machine, so all
theorems about the protocol machine hold along refined runs -/
theorem C17.noscatter_combine_refines (c : NCfg) (s : XSt NSt) (hs : c.XReach s) : c.Reach s.base :=
  noscatter_x_base_reach c s hs

/-! ### a worker with an empty share must still perform the colour's handshake -/

/-- witness: 2 workers, colour 0 with ONE cell (fewer cells than workers; worker 1's share is empty), colour 1 with two
cells.  If worker 1 `continue`s past colour 0 without the fence handshake (`CCfg.stepSkip`, event `skip 1`), it passes
the still open front fence and scatters a cell of colour 1 while worker 2 scatters the cell of colour 0: two workers in
`scatter()` in DIFFERENT colours - exactly what `C17.colored_safe` excludes for the real protocol `CCfg.step`, in which
the empty-range worker goes `front → toOpen → back → toOpen2` like everybody else. -/
theorem C17.colored_skip_handshake_unsafe :
    ∃ (c : CCfg) (es : List SEv) (s : CSt), c.runSkip c.init es = some s ∧
      s.ph 1 = .insc ∧ s.ph 2 = .insc ∧ s.col 1 ≠ s.col 2 ∧ c.cbeg 0 1 = c.cend 0 1 := by
  refine ⟨CCfg.ofDist ⟨4, 2, [10, 11, 12], [], [], [0, 1, 3], 4⟩ false,
    [.ok (.fopen 0 0), .skip 1, .ok (.fwait 1 0), .ok (.enter 1 11), .ok (.fwait 2 0), .ok (.enter 2 10)], ?_⟩
  have h : ((CCfg.ofDist ⟨4, 2, [10, 11, 12], [], [], [0, 1, 3], 4⟩ false).runSkip
      (CCfg.ofDist ⟨4, 2, [10, 11, 12], [], [], [0, 1, 3], 4⟩ false).init
      [.ok (.fopen 0 0), .skip 1, .ok (.fwait 1 0), .ok (.enter 1 11), .ok (.fwait 2 0), .ok (.enter 2 10)]).isSome = true := by
    decide
  obtain ⟨s, hs⟩ := Option.isSome_iff_exists.1 h
  refine ⟨s, hs, ?_⟩
  have key : ((CCfg.ofDist ⟨4, 2, [10, 11, 12], [], [], [0, 1, 3], 4⟩ false).runSkip
      (CCfg.ofDist ⟨4, 2, [10, 11, 12], [], [], [0, 1, 3], 4⟩ false).init
      [.ok (.fopen 0 0), .skip 1, .ok (.fwait 1 0), .ok (.enter 1 11), .ok (.fwait 2 0), .ok (.enter 2 10)]).map
      (fun s => decide (s.ph 1 = .insc ∧ s.ph 2 = .insc ∧ s.col 1 ≠ s.col 2)) = some true := by decide
  rw [hs] at key
  simp only [Option.map_some, Option.some.injEq, decide_eq_true_eq] at key
  exact ⟨key.1, key.2.1, key.2.2, by decide⟩

/-- in the real protocol the same worker, with the same empty share, does the whole handshake of colour 0: after the
front wait it is in `toOpen` (nothing to scatter), and the safety theorem applies to every run -/
theorem C17.colored_empty_share_handshake (c : CCfg) (s : CSt) (t : Nat) (hph : s.ph t = .front)
    (hempty : c.cend (s.col t) t ≤ c.cbeg (s.col t) t) (hfront : s.fence 0 = true) (ht : 1 ≤ t ∧ t ≤ c.n) :
    ∃ s', c.step s (.fwait t 0) = some s' ∧ s'.ph t = .toOpen ∧ s'.col t = s.col t := by
  have hn : c.next s t = some (.fwait t 0) := by
    unfold CCfg.next
    rw [if_neg (by omega), if_neg (by omega), hph]
  have hst : c.step s (.fwait t 0) = some (c.apply s (.fwait t 0)) := by
    unfold CCfg.step
    rw [if_pos ⟨by simpa [Ev.thread] using hn, by simp [CCfg.enabled, hfront]⟩]
  refine ⟨c.apply s (.fwait t 0), hst, ?_, ?_⟩
  · have ht0 : t ≠ 0 := by omega
    simp [CCfg.apply, ht0, updP, CCfg.afterElem]
    omega
  · have ht0 : t ≠ 0 := by omega
    simp [CCfg.apply, ht0]

/-! ### every selected cell is assembled exactly once - on the global event log of a complete run -/

/-- layered / layered_sorted / automatic, on the OUTPUT OF `compile` (any mesh incl. tiny ones, any selection, any
requested worker count that leaves >= 2 workers): in every complete run of the protocol machine the driver replays
(`LCfg.ofDist d comb`, any interleaving) the cells of the `enter`-scatter events of the global log - and likewise of
the `leave` events - are a permutation of the selected cells: every selected cell is scattered exactly once. -/
theorem C17.layered_every_cell_once (strategy maxW nvt : Nat) (cells : List (List Nat)) (sel : List Nat)
    (hsel : ∀ c, c ∈ sel → ∀ v, v ∈ cells.getD c [] → v < nvt)
    (d : Dist) (h : compile strategy maxW nvt cells sel = some d) (hs : d.strategy ≠ 4) (h2 : 2 ≤ d.nW) (comb : Bool)
    (es : List Ev) (s : LSt) (hrun : (LCfg.ofDist d comb).run (LCfg.ofDist d comb).init es = some s)
    (hf : LCfg.final s = true) :
    (enterCells es).Perm sel ∧ (leaveCells es).Perm sel := by
  obtain ⟨hle, htl⟩ := rs_layered_hyps strategy maxW nvt cells sel hsel d h hs h2
  have hsh := rs_layered_shares strategy maxW nvt cells sel hsel d h hs h2 comb
  have h1 := layered_cells_once d.nW (fun k => d.layerElems.getD k 0) (fun k => d.threadLayers.getD k 0)
    (fun p => d.elemIdx.getD p 0) comb hle htl es s hrun hf
  have h2' := layered_leaves_once d.nW (fun k => d.layerElems.getD k 0) (fun k => d.threadLayers.getD k 0)
    (fun p => d.elemIdx.getD p 0) comb hle htl es s hrun hf
  exact ⟨h1.trans hsh, h2'.trans hsh⟩

/-- colored strategy, on the OUTPUT OF `compile` (tiny meshes and colours with fewer cells than workers included: a
worker with an empty share contributes nothing but still runs the colour's handshake): in every complete run of
`CCfg.ofDist d comb` the cells of the `enter`-scatter events of the global log are a permutation of the selected
cells - every selected cell is scattered exactly once. -/
theorem C17.colored_every_cell_once (strategy maxW nvt : Nat) (cells : List (List Nat)) (sel : List Nat)
    (hsel : ∀ c, c ∈ sel → ∀ v, v ∈ cells.getD c [] → v < nvt)
    (d : Dist) (h : compile strategy maxW nvt cells sel = some d) (hs : d.strategy = 4) (h2 : 2 ≤ d.nW) (comb : Bool)
    (es : List Ev) (s : CSt) (hrun : (CCfg.ofDist d comb).run (CCfg.ofDist d comb).init es = some s)
    (hf : CCfg.final s = true) :
    (enterCellsC es).Perm sel := by
  have hsh := rs_colored_shares strategy maxW nvt cells sel hsel d h hs h2 comb
  have hn : 1 ≤ (CCfg.ofDist d comb).n := by
    show 1 ≤ d.nW
    omega
  have h1 := colored_cells_once (CCfg.ofDist d comb) hn es s hrun hf
  exact h1.trans hsh

/-- "the assembled matrix / vector / integral equals the single-threaded one": the result of a complete threaded run is
the fold of the cell contributions in the order of the global event log; that order is a permutation of the selected
cells (`layered_every_cell_once`, `colored_every_cell_once`, `master_every_cell_once`), hence for ANY commutative,
associative accumulation (exact arithmetic; floating point: up to summation-order rounding) the result is the serial
fold over the selected cells. -/
theorem C17.threaded_result_eq_serial (strategy maxW nvt : Nat) (cells : List (List Nat)) (sel : List Nat)
    (hsel : ∀ c, c ∈ sel → ∀ v, v ∈ cells.getD c [] → v < nvt)
    (d : Dist) (h : compile strategy maxW nvt cells sel = some d) (h2 : 2 ≤ d.nW) (comb : Bool)
    {α : Type} (op : α → α → α) (hc : ∀ a b, op a b = op b a) (ha : ∀ a b c, op (op a b) c = op a (op b c))
    (contrib : Nat → α) (z : α) :
    (d.strategy ≠ 4 → ∀ (es : List Ev) (s : LSt),
        (LCfg.ofDist d comb).run (LCfg.ofDist d comb).init es = some s → LCfg.final s = true →
        (enterCells es).foldl (fun acc c => op acc (contrib c)) z = sel.foldl (fun acc c => op acc (contrib c)) z) ∧
    (d.strategy = 4 → ∀ (es : List Ev) (s : CSt),
        (CCfg.ofDist d comb).run (CCfg.ofDist d comb).init es = some s → CCfg.final s = true →
        (enterCellsC es).foldl (fun acc c => op acc (contrib c)) z = sel.foldl (fun acc c => op acc (contrib c)) z) :=
  ⟨fun hs es s hrun hf => rs_fold_eq_serial op hc ha contrib z _ sel
      (C17.layered_every_cell_once strategy maxW nvt cells sel hsel d h hs h2 comb es s hrun hf).1,
   fun hs es s hrun hf => rs_fold_eq_serial op hc ha contrib z _ sel
      (C17.colored_every_cell_once strategy maxW nvt cells sel hsel d h hs h2 comb es s hrun hf)⟩

/-- the same for the assembled MATRIX, composed with C16's `routes_agree` / `assembled_eq_sum` (model of the scatter into
the symbolic pattern): assembling the cells in the order of ANY log that is a permutation of the selected cells - in
particular the global log of any complete threaded run, by the theorems above - yields the same operator as the serial
loop over the selected cells, for arbitrary local matrices over a commutative ring. -/
theorem C17.threaded_matrix_eq_serial {α : Type} [CommRing α] (nT nS : Nat) (tm sm : List (List Nat))
    (g : FeatModel.Adj.Graph) (hg : FeatModel.Asm.symbolicGraph2 nT nS tm sm = some g)
    (hT : ∀ l ∈ tm, ∀ r ∈ l, r < nT) (hS : ∀ l ∈ sm, ∀ s ∈ l, s < nS)
    (callOf : Nat → FeatModel.Asm.CellCall α) (log sel : List Nat) (hperm : log.Perm sel)
    (hcalls : ∀ c ∈ sel, ∃ k, (callOf c).rowMap = tm.getD k [] ∧ (callOf c).colMap = sm.getD k []) :
    ∃ st1 st2, FeatModel.Asm.assemble (FeatModel.Asm.Pattern.ofGraph g) (log.map callOf) = some st1 ∧
      FeatModel.Asm.assemble (FeatModel.Asm.Pattern.ofGraph g) (sel.map callOf) = some st2 ∧
      ∀ (x : Nat → α) (r : Nat), (FeatModel.Asm.Pattern.ofGraph g).apply st1.data x r =
        (FeatModel.Asm.Pattern.ofGraph g).apply st2.data x r :=
  C16.routes_agree nT nS tm sm g hg hT hS (log.map callOf) (sel.map callOf) (hperm.map callOf)
    (fun c hc => by
      obtain ⟨i, hi, rfl⟩ := List.mem_map.1 hc
      exact hcalls i (hperm.mem_iff.1 hi))

/-- master-only jobs (`assemble_master`: no worker threads - tiny meshes, 0 or 1 requested workers, strategy single):
a complete run without failure scatters the elements exactly once, in the order of the element list; a run in which
the task throws has scattered a prefix of it, nothing twice -/
theorem C17.master_every_cell_once (c : MCfg) (hns : c.ns = true) (es : List EEv) (s : MSt)
    (h : c.erun c.init es = some s) :
    (∃ k, k ≤ c.cnt ∧ enterCellsE es = (List.range k).map c.cell) ∧
    (MCfg.efinal s = true → s.failed = false → enterCellsE es = (List.range c.cnt).map c.cell) :=
  ⟨master_cells_prefix c hns es s h, fun hf hok => master_cells_once c hns es s h hf hok⟩

/-- master-only jobs incl. the error path: no deadlock and termination (variant function) -/
theorem C17.master_no_deadlock (c : MCfg) (s : MSt) (hs : c.EReach s) (hf : MCfg.efinal s = false) :
    ∃ e s', c.estep s e = some s' :=
  FeatModel.DA.master_no_deadlock c s hs hf

theorem C17.master_terminates (c : MCfg) (s : MSt) (hs : c.EReach s) :
    (∀ e s', c.estep s e = some s' → c.emeasure s' < c.emeasure s) ∧
    (∃ es s', c.erun s es = some s' ∧ MCfg.efinal s' = true) :=
  FeatModel.DA.master_terminates c s hs

/-! ### termination with the fairness assumption as an explicit hypothesis

`hfair`: the run is MAXIMAL - the scheduler does not stop while some transition is enabled (every runnable thread is
eventually scheduled; a thread blocked in `ThreadFence::wait()` returns once the fence is open, i.e. no lost wake-up of
`std::condition_variable`).  This is the only thing assumed about the scheduler; everything else is proved: a maximal
run is finite (at most `measure init` steps) and ends in the final state - all workers have terminated and the master
has joined. -/

theorem C17.layered_fair_run_terminates (n : Nat) (le tl cell : Nat → Nat) (comb : Bool)
    (hle : ∀ i j, i < j → j ≤ tl n → le i < le j) (htl : ∀ i, i < n → tl i + 2 ≤ tl (i + 1))
    (es : List Ev) (s : LSt)
    (hrun : (LCfg.ofFns n le tl cell comb).run (LCfg.ofFns n le tl cell comb).init es = some s)
    (hfair : ∀ e, (LCfg.ofFns n le tl cell comb).step s e = none) :
    LCfg.final s = true ∧ es.length ≤ (LCfg.ofFns n le tl cell comb).measure (LCfg.ofFns n le tl cell comb).init := by
  have hr : (LCfg.ofFns n le tl cell comb).Reach s := term_run_reach es _ s .init hrun
  have hb := FeatModel.DA.layered_runs_bounded n le tl cell comb hle htl _ .init es s hrun
  exact ⟨FeatModel.DA.layered_maximal_run_final n le tl cell comb hle htl s hr hfair, by omega⟩

theorem C17.colored_fair_run_terminates (c : CCfg) (hn : 1 ≤ c.n) (es : List Ev) (s : CSt)
    (hrun : c.run c.init es = some s) (hfair : ∀ e, c.step s e = none) (hr : c.Reach s) :
    CCfg.final s = true ∧ es.length ≤ c.measure c.init := by
  have hb := FeatModel.DA.colored_runs_bounded c hn c.init .init es s hrun
  exact ⟨FeatModel.DA.colored_maximal_run_final c hn s hr hfair, by omega⟩

theorem C17.noscatter_fair_run_terminates (c : NCfg) (es : List Ev) (s : NSt)
    (hrun : c.run c.init es = some s) (hfair : ∀ e, c.step s e = none) (hr : c.Reach s) :
    NCfg.final s = true ∧ es.length ≤ c.measure c.init := by
  have hb := FeatModel.DA.noscatter_runs_bounded c c.init .init es s hrun
  exact ⟨FeatModel.DA.noscatter_maximal_run_final c s hr hfair, by omega⟩

/-- the error paths: a maximal run (fairness) with ANY failures is final -/
theorem C17.error_path_fair_run_terminates :
    (∀ (n : Nat) (le tl cell : Nat → Nat) (comb : Bool),
      (∀ i j, i < j → j ≤ tl n → le i < le j) → (∀ i, i < n → tl i + 2 ≤ tl (i + 1)) →
      ∀ s, (LCfg.ofFns n le tl cell comb).EReach s → (∀ e, (LCfg.ofFns n le tl cell comb).estep s e = none) →
        LCfg.efinal s = true) ∧
    (∀ (c : CCfg), 1 ≤ c.n → ∀ s, c.EReach s → (∀ e, c.estep s e = none) → CCfg.efinal s = true) ∧
    (∀ (c : NCfg) s, c.EReach s → (∀ e, c.estep s e = none) → NCfg.efinal s = true) ∧
    (∀ (c : MCfg) s, c.EReach s → (∀ e, c.estep s e = none) → MCfg.efinal s = true) := by
  refine ⟨fun n le tl cell comb hle htl s hs hfair =>
      FeatModel.DA.layered_err_maximal_run_final n le tl cell comb hle htl s hs hfair,
    fun c hn s hs hfair => FeatModel.DA.colored_err_maximal_run_final c hn s hs hfair, ?_, ?_⟩
  · intro c s hs hfair
    cases hfin : NCfg.efinal s with
    | true => rfl
    | false =>
      obtain ⟨e, s', h⟩ := FeatModel.DA.noscatter_err_no_deadlock c s hs hfin
      rw [hfair e] at h
      cases h
  · intro c s hs hfair
    cases hfin : MCfg.efinal s with
    | true => rfl
    | false =>
      obtain ⟨e, s', h⟩ := FeatModel.DA.master_no_deadlock c s hs hfin
      rw [hfair e] at h
      cases h

/-- the hypotheses of `thread_layers_spec` / `layered_safe_built` are satisfiable by a non-trivial value:
8 layers of sizes 1..8, 3 requested workers -/
example : numWorkersLayered 3 [0, 1, 3, 6, 10, 15, 21, 28, 36] = 3 ∧
    buildThreadLayers 3 36 [0, 1, 3, 6, 10, 15, 21, 28, 36] = some (3, [0, 4, 6, 8]) := by decide
