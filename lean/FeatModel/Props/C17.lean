import FeatModel.Lemmas.C17ThreadLayers
import FeatModel.Lemmas.C17Layered
import FeatModel.Lemmas.C17Colored
/-! # C17 — threaded assembly is race-free, terminates and equals the serial result

All theorems are about the model functions that `drv_c17` executes and that the correspondence run compares with
`Assembly::DomainAssembler` (`buildThreadLayers` in the `dist` stream; `LCfg.step` / `CCfg.step` in the `trace`
stream, where every recorded event log of a real run must be a run of these transition systems).

Not proved here (observed by the correspondence run and its oracle only): `_build_layers` yields a partition into
BFS levels with adjacent cells in equal or consecutive layers; the greedy colouring is proper (C19); termination
under a fair scheduler (only deadlock-freedom is proved); the error path `okay = false`; the C++ memory model. -/
open FeatModel.DA

/-- `_build_thread_layers`, all three sweeps, for EVERY layer-offset list and every requested worker count that
leaves at least one worker: no unsigned wrap-around, both `XASSERT`s hold, and the result starts at 0, ends at the
number of layers and gives every thread at least two layers. -/
theorem C17.thread_layers_spec (maxW numElems : Nat) (le : List Nat)
    (h : 1 ≤ numWorkersLayered maxW le) :
    ∃ tl : List Nat, buildThreadLayers maxW numElems le = some (numWorkersLayered maxW le, tl) ∧
      tl.length = numWorkersLayered maxW le + 1 ∧ tl.getD 0 0 = 0 ∧
      tl.getD (numWorkersLayered maxW le) 0 = le.length - 1 ∧
      ∀ i, i < numWorkersLayered maxW le → tl.getD i 0 + 2 ≤ tl.getD (i + 1) 0 :=
  buildThreadLayers_spec maxW numElems le h

/-- `_build_thread_layers` never aborts, whatever the layers and the requested worker count (0 included) -/
theorem C17.thread_layers_total (maxW numElems : Nat) (le : List Nat) :
    ∃ r, buildThreadLayers maxW numElems le = some r := by
  by_cases h : 1 ≤ numWorkersLayered maxW le
  · obtain ⟨tl, htl, _⟩ := buildThreadLayers_spec maxW numElems le h
    exact ⟨_, htl⟩
  · refine ⟨(0, []), ?_⟩
    unfold buildThreadLayers
    simp only []
    rw [if_pos (by omega)]

/-- layered protocol, all interleavings: two workers that are inside `scatter()` at the same time are separated by
a complete layer, i.e. their layers are at least 2 apart (with BFS layering: never on vertex-adjacent cells). -/
theorem C17.layered_safe (n : Nat) (le tl cell : Nat → Nat) (comb : Bool)
    (hle : ∀ i j, i < j → j ≤ tl n → le i < le j)
    (htl : ∀ i, i < n → tl i + 2 ≤ tl (i + 1))
    (s : LSt) (hs : (LCfg.ofFns n le tl cell comb).Reach s)
    (a b : Nat) (ha : 1 ≤ a) (hab : a < b) (hb : b ≤ n)
    (hA : s.ph a = .insc) (hB : s.ph b = .insc) :
    ∃ l, s.pos a < le l ∧ le (l + 1) ≤ s.pos b :=
  FeatModel.DA.layered_safe n le tl cell comb hle htl s hs a b ha hab hb hA hB

/-- layered protocol: every reachable non-final state has an enabled transition (no deadlock) -/
theorem C17.layered_no_deadlock (n : Nat) (le tl cell : Nat → Nat) (comb : Bool)
    (hle : ∀ i j, i < j → j ≤ tl n → le i < le j)
    (htl : ∀ i, i < n → tl i + 2 ≤ tl (i + 1))
    (s : LSt) (hs : (LCfg.ofFns n le tl cell comb).Reach s) (hf : LCfg.final s = false) :
    ∃ e s', (LCfg.ofFns n le tl cell comb).step s e = some s' :=
  FeatModel.DA.layered_no_deadlock n le tl cell comb hle htl s hs hf

/-- layered protocol: `combine()` is mutually exclusive -/
theorem C17.layered_combine_mutex (c : LCfg) (s : LSt) (hs : c.Reach s)
    (a b : Nat) (ha : 1 ≤ a ∧ a ≤ c.n) (hb : 1 ≤ b ∧ b ≤ c.n)
    (hA : s.ph a = .inComb) (hB : s.ph b = .inComb) : a = b :=
  FeatModel.DA.layered_combine_mutex c s hs a b ha hb hA hB

/-- the two previous results chained on the configuration the assembler actually builds: for strictly increasing
layer offsets `le` (non-empty layers) the thread layers computed by `buildThreadLayers` make the layered protocol
safe and deadlock-free for every requested worker count. -/
theorem C17.layered_safe_built (maxW numElems : Nat) (le : List Nat) (cell : Nat → Nat) (comb : Bool)
    (hle : ∀ i j, i < j → j < le.length → le.getD i 0 < le.getD j 0)
    (h : 1 ≤ numWorkersLayered maxW le) :
    ∃ tl : List Nat, buildThreadLayers maxW numElems le = some (numWorkersLayered maxW le, tl) ∧
      ∀ s, (LCfg.ofFns (numWorkersLayered maxW le) (fun k => le.getD k 0) (fun k => tl.getD k 0) cell comb).Reach s →
        (∀ a b, 1 ≤ a → a < b → b ≤ numWorkersLayered maxW le → s.ph a = .insc → s.ph b = .insc →
          ∃ l, s.pos a < le.getD l 0 ∧ le.getD (l + 1) 0 ≤ s.pos b) ∧
        (LCfg.final s = false → ∃ e s',
          (LCfg.ofFns (numWorkersLayered maxW le) (fun k => le.getD k 0) (fun k => tl.getD k 0) cell comb).step s e = some s') := by
  obtain ⟨tl, hb, _, _, hlast, hgap⟩ := buildThreadLayers_spec maxW numElems le h
  have h3 : 3 * numWorkersLayered maxW le ≤ le.length := by
    unfold numWorkersLayered
    have := Nat.div_mul_le_self le.length 3
    omega
  have hle' : ∀ i j, i < j → j ≤ (fun k => tl.getD k 0) (numWorkersLayered maxW le) →
      (fun k => le.getD k 0) i < (fun k => le.getD k 0) j := by
    intro i j hij hj
    simp only [] at hj ⊢
    exact hle i j hij (by omega)
  refine ⟨tl, hb, fun s hs => ⟨?_, ?_⟩⟩
  · intro a b ha hab hbn hA hB
    exact FeatModel.DA.layered_safe (numWorkersLayered maxW le) (fun k => le.getD k 0) (fun k => tl.getD k 0) cell comb
      hle' hgap s hs a b ha hab hbn hA hB
  · intro hf
    exact FeatModel.DA.layered_no_deadlock (numWorkersLayered maxW le) (fun k => le.getD k 0) (fun k => tl.getD k 0) cell comb
      hle' hgap s hs hf

/-- colored protocol, all interleavings: all workers that are inside `scatter()` at the same time work on the same
colour, each inside its own share of that colour (with a proper colouring: never on vertex-adjacent cells). -/
theorem C17.colored_safe (c : CCfg) (hn : 1 ≤ c.n) (s : CSt) (hs : c.Reach s) (a b : Nat)
    (ha : 1 ≤ a ∧ a ≤ c.n) (hb : 1 ≤ b ∧ b ≤ c.n) (hA : s.ph a = .insc) (hB : s.ph b = .insc) :
    s.col a = s.col b ∧ c.cbeg (s.col a) a ≤ s.pos a ∧ s.pos a < c.cend (s.col a) a :=
  FeatModel.DA.colored_safe c hn s hs a b ha hb hA hB

/-- colored protocol: no deadlock -/
theorem C17.colored_no_deadlock (c : CCfg) (hn : 1 ≤ c.n) (s : CSt) (hs : c.Reach s)
    (hf : CCfg.final s = false) : ∃ e s', c.step s e = some s' :=
  FeatModel.DA.colored_no_deadlock c hn s hs hf

/-- colored protocol: `combine()` is mutually exclusive -/
theorem C17.colored_combine_mutex (c : CCfg) (s : CSt) (hs : c.Reach s)
    (a b : Nat) (ha : 1 ≤ a ∧ a ≤ c.n) (hb : 1 ≤ b ∧ b ≤ c.n)
    (hA : s.ph a = .inComb) (hB : s.ph b = .inComb) : a = b :=
  FeatModel.DA.colored_combine_mutex c s hs a b ha hb hA hB

/-- the hypotheses of `thread_layers_spec` / `layered_safe_built` are satisfiable by a non-trivial value:
8 layers of sizes 1..8, 3 requested workers -/
example : numWorkersLayered 3 [0, 1, 3, 6, 10, 15, 21, 28, 36] = 3 ∧
    buildThreadLayers 3 36 [0, 1, 3, 6, 10, 15, 21, 28, 36] = some (3, [0, 4, 6, 8]) := by decide
