import FeatModel.Model.MG
import FeatModel.Lemmas.C09
import FeatModel.Lemmas.C09Algebra
import FeatModel.Lemmas.C09Data
import FeatModel.Lemmas.C09Linear
import FeatModel.Lemmas.C09Ref
import FeatModel.Lemmas.C09Abstract
/-!
# C09 — multigrid performs the documented V/F/W cycle

All theorems are about the functions of `FeatModel/Model/MG.lean` that `drv_c09` executes (`cycleIter`, `cycleW`,
`wRun`, `applyOnce`, `runProg`, `step`, `dot`, `axpy`, `defect`, …); the correspondence run ties those functions to
`kernel/solver/multigrid.hpp`.  `last` is the coarse level, `top ≤ last` the top level, `L = last - top`; level 0 is
the finest level.  No bound on the number of levels anywhere.

Not proved here:
* the level-independent residual reduction on Poisson problems (measured in the thorough tier only; the two-grid
  algebra `C09.twogrid_cgc_projection` is about the projection property, not the rate);
* in the adaptive modes `mgRef` hands the *updated* defect `d - ω F(A c)` to the post-smoother; that it equals the
  recomputed residual is proved per step under vector-size hypotheses (`C09.step_defect_is_residual`), not globally
  with a well-formedness predicate carried through the recursion (the C++ and Python references recompute it);
* `C09.textbook_linear` is abstract (modules); for the executed `Rat` instance linearity is `C09.textbook_additive_rat`
  + `C09.textbook_homogeneous`; "`refLevel L` satisfies `LinLevel`" is not stated (lists of varying length are no module);
* filter calls are not part of the compared call log (smoother, coarse solver, transfer and matrix applies are);
* the bit-for-bit homogeneity at double is evidence (stream `double-homogeneity`), the theorem is the exact fact.
-/
open FeatModel.MG

/-! ## W-cycle counters -/

/-- The counter loop of `_apply_cycle_w` visits the peak levels in ruler (binary counter) order
    `ruler (d+1) = ruler d ++ [last-(d+1)] ++ ruler d` for every number of levels and every sub-range, whatever the
    counters contained before, and ends with all counters of the levels above the coarse level equal to 1. -/
theorem C09.wcycle_ruler (last top : Nat) (h : top ≤ last) (c0 : Nat → Nat) :
    (wRun last top (2 ^ (last - top) - 1) (wInit last top c0)).1 = ruler last (last - top) ∧
    (∀ j, top ≤ j → j < last → (wRun last top (2 ^ (last - top) - 1) (wInit last top c0)).2 j = 1) :=
  wRun_full last top h c0

/-- Hence the sanity `XASSERT`s of the W-cycle can never fire, and the emitted program is the ruler program. -/
theorem C09.wcycle_never_aborts (last top : Nat) (h : top ≤ last) (c0 : Nat → Nat) :
    (cycleW last top c0).1 =
      some (restSeq last top true ++ [Instr.coarse] ++ (ruler last (last - top)).flatMap (wBody last)
        ++ prolSeq last top true) :=
  cycleW_eq last top h c0

/-- The number of inner peaks of a W-cycle is `2^L - 1`. -/
theorem C09.ruler_length (last d : Nat) : (ruler last d).length = 2 ^ d - 1 :=
  FeatModel.MG.ruler_length last d

/-! ## the loop-based cycles are the documented recursions -/

/-- For every cycle type, every number of levels and every sub-range `top ≤ last`, and whatever the persistent
    W-cycle counters contain, the program of primitive steps produced by the loops of `_apply_cycle_v/_f/_w` is the
    textbook recursion (V: one recursive visit; W: two visits separated by a peak smoothing step; F: "F then V" on
    every inner level). -/
theorem C09.iter_eq_rec (k : Cycle) (last top : Nat) (h : top ≤ last) (c0 : Nat → Nat) :
    (cycleIter k last top c0).1 = some (cycleRec k last top) := by
  have e : last - (last - top) = top := by omega
  cases k with
  | V =>
    have := cycleV_eq_rec last (last - top) (by omega)
    rw [e] at this
    simp [cycleIter, cycleRec, this]
  | F =>
    have := cycleF_eq_rec last (last - top) (by omega)
    rw [e] at this
    simp [cycleIter, cycleRec, this]
  | W =>
    have := wLoopForm_eq_rec last (last - top) (by omega)
    unfold wLoopForm at this
    rw [e] at this
    simp only [cycleIter, cycleRec, cycleW_eq last top h c0, this]

/-- As state transformers, for an arbitrary semantics of the primitive steps (arbitrary level operators, smoothers
    present or absent, any coarse solver): executing the loop program equals executing the recursion. -/
theorem C09.exec_iter_eq_rec {σ : Type} (stp : Instr → σ → σ) (k : Cycle) (last top : Nat) (h : top ≤ last)
    (c0 : Nat → Nat) (s : σ) :
    ∃ p, (cycleIter k last top c0).1 = some p ∧ exec stp p s = exec stp (cycleRec k last top) s :=
  ⟨cycleRec k last top, C09.iter_eq_rec k last top h c0, rfl⟩

/-- The function the driver executes: one `MultiGrid::apply` never hits the W-cycle sanity abort and equals running
    the recursive reference cycle on the same start state (so its result is the same map of the defect `d`). -/
theorem C09.apply_eq_reference (levels : Array Level) (k : Cycle) (cgc : Cgc) (top crs : Nat) (h : top ≤ crs)
    (d : Vec) (o : Obj) :
    ∃ cnt, applyOnce levels k cgc top crs d o =
      runProg { levels := levels, cgc := cgc, crsLvl := crs } top (cycleRec k crs top) (startState o top d) cnt := by
  have hi := C09.iter_eq_rec k crs top h o.counters
  unfold applyOnce
  rcases hc : cycleIter k crs top o.counters with ⟨prog, cnt⟩
  rw [hc] at hi
  simp only at hi
  subst hi
  exact ⟨cnt, rfl⟩

/-- The program of an application does not depend on the history of the object (the persistent counters). -/
theorem C09.program_history_independent (k : Cycle) (last top : Nat) (h : top ≤ last) (c0 c1 : Nat → Nat) :
    (cycleIter k last top c0).1 = (cycleIter k last top c1).1 := by
  rw [C09.iter_eq_rec k last top h c0, C09.iter_eq_rec k last top h c1]

/-! ## data layer: the result is a function of the defect, and a linear / homogeneous one -/

/-- Repeated applications on one object: the outcome of `MultiGrid::apply` (call log, `vec_cor`) depends on the
    defect only - not on what earlier applications (any cycle, any range, any mode) left in the level vectors or in
    the W-cycle counters.  Every level vector that is read has been overwritten in the same application.
    For all cycles, all level counts and sub-ranges, all smoother / coarse solver slot combinations and all three
    coarse grid correction modes; `crs < o.lv.size` says that the object has level vectors for the levels used. -/
theorem C09.apply_is_function_of_defect (levels : Array Level) (k : Cycle) (cgc : Cgc) (top crs : Nat)
    (h : top ≤ crs) (d : Vec) (o o' : Obj) (ho : crs < o.lv.size) (ho' : crs < o'.lv.size) :
    (applyOnce levels k cgc top crs d o).1 = (applyOnce levels k cgc top crs d o').1 := by
  obtain ⟨cnt, e⟩ := C09.apply_eq_reference levels k cgc top crs h d o
  obtain ⟨cnt', e'⟩ := C09.apply_eq_reference levels k cgc top crs h d o'
  obtain ⟨hl, hs⟩ := apply_related (closed_eq cgc) levels k top crs h (fun _ => d)
    (fun b => match b with | true => o | false => o') rfl (fun j => by cases j <;> assumption)
  have hl' := hl true false
  have hs' : _ = _ := hs
  simp only at hl' hs'
  rw [e, e']
  simp only [runProg, hl', hs']

/-- Homogeneity of degree 1 for every coarse grid correction mode (also the adaptive ones, whose step lengths are
    quotients of quadratic forms, and including the factor 0): scaling the defect scales `vec_cor` and leaves the
    call log unchanged. -/
theorem C09.cycle_homogeneous (levels : Array Level) (k : Cycle) (cgc : Cgc) (top crs : Nat) (h : top ≤ crs)
    (c : Rat) (d : Vec) (o o' : Obj) (ho : crs < o.lv.size) (ho' : crs < o'.lv.size) :
    ∃ log x, (applyOnce levels k cgc top crs d o).1 = .ok log x ∧
      (applyOnce levels k cgc top crs (vscale c d) o').1 = .ok log (vscale c x) := by
  obtain ⟨cnt, e⟩ := C09.apply_eq_reference levels k cgc top crs h d o
  obtain ⟨cnt', e'⟩ := C09.apply_eq_reference levels k cgc top crs h (vscale c d) o'
  obtain ⟨hl, hs⟩ := apply_related (closed_hom cgc c) levels k top crs h
    (fun b => match b with | true => vscale c d | false => d)
    (fun b => match b with | true => o' | false => o) rfl (fun j => by cases j <;> assumption)
  have hl' := hl true false
  have hs' : _ = _ := hs
  simp only at hl' hs'
  rw [e, e']
  exact ⟨_, _, rfl, by simp only [runProg, hl', hs']⟩

/-- With the fixed coarse grid correction one cycle is additive in the defect (the level operators of the model -
    matrices and unit filters - are linear); together with `C09.cycle_homogeneous` it is a linear map of the defect. -/
theorem C09.cycle_linear_additive (levels : Array Level) (k : Cycle) (top crs : Nat) (h : top ≤ crs)
    (d1 d2 : Vec) (hlen : d1.length = d2.length) (o1 o2 o3 : Obj)
    (h1 : crs < o1.lv.size) (h2 : crs < o2.lv.size) (h3 : crs < o3.lv.size) :
    ∃ log x1 x2, (applyOnce levels k .fixed top crs d1 o1).1 = .ok log x1 ∧
      (applyOnce levels k .fixed top crs d2 o2).1 = .ok log x2 ∧
      (applyOnce levels k .fixed top crs (vadd d1 d2) o3).1 = .ok log (vadd x1 x2) := by
  obtain ⟨c1, e1⟩ := C09.apply_eq_reference levels k .fixed top crs h d1 o1
  obtain ⟨c2, e2⟩ := C09.apply_eq_reference levels k .fixed top crs h d2 o2
  obtain ⟨c3, e3⟩ := C09.apply_eq_reference levels k .fixed top crs h (vadd d1 d2) o3
  obtain ⟨hl, hs⟩ := apply_related closed_add levels k top crs h
    (fun j => match j with | .a => d1 | .b => d2 | .s => vadd d1 d2)
    (fun j => match j with | .a => o1 | .b => o2 | .s => o3) ⟨rfl, hlen⟩ (fun j => by cases j <;> assumption)
  have hab := hl .a .b
  have hsa := hl .s .a
  have hs' : _ = _ := hs.1
  simp only at hab hsa hs'
  rw [e1, e2, e3]
  refine ⟨(exec (step { levels := levels, cgc := .fixed, crsLvl := crs }) (cycleRec k crs top)
      (startState o1 top d1)).log.toList,
    ((exec (step { levels := levels, cgc := .fixed, crsLvl := crs }) (cycleRec k crs top)
      (startState o1 top d1)).get top).sol,
    ((exec (step { levels := levels, cgc := .fixed, crsLvl := crs }) (cycleRec k crs top)
      (startState o2 top d2)).get top).sol, rfl, ?_, ?_⟩
  · simp only [runProg, hab]
  · simp only [runProg, hsa, hs']

/-! ## the result is the independent textbook operator applied to the defect -/

/-- `vec_cor` of one `MultiGrid::apply` (the function `applyOnce` the driver executes, i.e. FEAT's loop/stack-machine
    cycle on the persistent level vectors) is exactly the independent recursive textbook operator `mgRef`
    (`Model/MGRef.lean`: plain recursion on values, no instruction lists, no level-vector store, no counters)
    applied to the defect - for V, F and W, any number of levels, any sub-range `top ≤ crs`, every presence/absence
    combination of pre, post and peak smoothers and coarse solver, all three coarse grid correction modes, and whatever
    earlier applications left in the object. -/
theorem C09.apply_eq_textbook (levels : Array Level) (k : Cycle) (cgc : Cgc) (top crs : Nat) (h : top ≤ crs)
    (d : Vec) (o : Obj) (ho : crs < o.lv.size) :
    ∃ log, (applyOnce levels k cgc top crs d o).1 = .ok log (applyRef levels k cgc top crs d) := by
  obtain ⟨cnt, e⟩ := C09.apply_eq_reference levels k cgc top crs h d o
  rw [e]
  exact runProg_eq_applyRef levels k cgc top crs h d o ho cnt

/-- Linearity of the textbook operator, with the exact list of what has to be linear (`LinLevel`): on every level
    the system operator, the defect and correction filters, restriction, prolongation, every *present* pre, post and
    peak smoother and the coarse solver, and the "format" vector must be 0; the coarse grid correction must be
    `Fixed`.  Then `cycle (a·d1 + d2) = a·cycle d1 + cycle d2` on any module over a commutative ring.  (For the
    driver's instance at `Rat` see also `C09.cycle_linear_additive` / `C09.cycle_homogeneous`.) -/
theorem C09.textbook_linear {K V : Type} [CommRing K] [AddCommGroup V] [Module K V]
    (omE : V → V → V → K) (omD : V → V → K) (lv : Nat → RLevel V) (h : ∀ l, LinLevel K (lv l))
    (crs : Nat) (k : RKind) (d : Nat) (a : K) (d1 d2 : V) :
    mgRef (modOps omE omD) lv .fixed crs k d (a • d1 + d2) =
      a • mgRef (modOps omE omD) lv .fixed crs k d d1 + mgRef (modOps omE omD) lv .fixed crs k d d2 :=
  lin_mgRef omE omD lv h crs k d a d1 d2

/-- With adaptive coarse grid correction the cycle is not linear; every correction step of the textbook operator
    (hence of FEAT's cycle, by `C09.apply_eq_textbook`) is `x + ω c` with the guarded minimising step length of
    `C09.acgc_minEnergy` / `C09.acgc_minDefect` / `C09.acgc_guard`. -/
theorem C09.adaptive_step (L : Level) (b d x c : Vec) :
    (rStep ratOps .minEnergy (refLevel L) b d x c).1 =
      axpy (cgcOmega (dot d c) (dot (filt L.fidx (mulVec L.A c)) c)) c x ∧
    (rStep ratOps .minDefect (refLevel L) b d x c).1 =
      axpy (cgcOmega (dot d (filt L.fidx (mulVec L.A c)))
        (dot (filt L.fidx (mulVec L.A c)) (filt L.fidx (mulVec L.A c)))) c x :=
  ⟨rfl, rfl⟩

/-- In every mode the defect that the textbook operator hands to the post-smoother (recomputed for `Fixed`, updated
    by `d - ω F(A c)` otherwise) is the residual of the corrected iterate, if `d` is the residual of `x` and the
    vectors have the sizes of the level matrix. -/
theorem C09.step_defect_is_residual (cgc : Cgc) (L : Level) (b x c : Vec) (hc : c.length = x.length)
    (hb : b.length = L.A.length) :
    (rStep ratOps cgc (refLevel L) b (defect L b x) x c).2 =
      defect L b (rStep ratOps cgc (refLevel L) b (defect L b x) x c).1 := by
  have sc : ∀ w : Rat, axpy (-w) (filt L.fidx (mulVec L.A c)) (defect L b x) = defect L b (axpy w c x) := by
    intro w
    unfold defect
    rw [mulVec_axpy _ _ _ _ hc, vsub_axpy _ _ _ _ (by simp [mulVec_length]),
      filt_axpy _ _ _ _ (by simp [mulVec_length, vsub_length, hb])]
  cases cgc with
  | fixed => rfl
  | minEnergy => exact sc _
  | minDefect => exact sc _

/-- The adaptive step lengths are invariant under scaling of the defect: with `d`, `c`, `t = F(A c)` all scaled by
    `s ≠ 0` (which is what scaling the defect does to them, by linearity of every other component) the quotients
    `<d,c>/<t,c>` and `<d,t>/<t,t>` - including the zero-denominator guard - do not change. -/
theorem C09.omega_scale_invariant (s : Rat) (hs : s ≠ 0) (d c t : Vec) :
    cgcOmega (dot (vscale s d) (vscale s c)) (dot (vscale s t) (vscale s c)) = cgcOmega (dot d c) (dot t c) ∧
    cgcOmega (dot (vscale s d) (vscale s t)) (dot (vscale s t) (vscale s t)) = cgcOmega (dot d t) (dot t t) := by
  constructor <;>
    rw [dot_vscale_left, dot_vscale_right, dot_vscale_left, dot_vscale_right, cgcOmega_scale _ _ _ hs]

/-- Homogeneity of the textbook operator in all three coarse grid correction modes (also the adaptive, non-linear
    ones): `mgRef (s·d) = s·mgRef d` for every scalar `s` (even `s = 0`), every cycle, level count and sub-range.
    This is the exact-arithmetic fact that the double stream `double-homogeneity` instantiates with `s = 2^k`, where
    scaling commutes with every IEEE operation and the identity must therefore hold bit for bit. -/
theorem C09.textbook_homogeneous (levels : Array Level) (k : Cycle) (cgc : Cgc) (top crs : Nat) (h : top ≤ crs)
    (s : Rat) (d : Vec) :
    applyRef levels k cgc top crs (vscale s d) = vscale s (applyRef levels k cgc top crs d) := by
  have ho : crs < ({ lv := Array.replicate (crs + 1) {} } : Obj).lv.size := by simp
  obtain ⟨log, x, e1, e2⟩ := C09.cycle_homogeneous levels k cgc top crs h s d _ _ ho ho
  obtain ⟨l1, t1⟩ := C09.apply_eq_textbook levels k cgc top crs h d _ ho
  obtain ⟨l2, t2⟩ := C09.apply_eq_textbook levels k cgc top crs h (vscale s d) _ ho
  rw [t1] at e1
  rw [t2] at e2
  injection e1 with _ hx
  injection e2 with _ hy
  rw [hy, ← hx]

/-- Additivity of the executed textbook operator at `Rat` with the fixed coarse grid correction (with
    `C09.textbook_homogeneous`: it is a linear map of the defect), for every cycle, level count and sub-range. -/
theorem C09.textbook_additive_rat (levels : Array Level) (k : Cycle) (top crs : Nat) (h : top ≤ crs)
    (d1 d2 : Vec) (hlen : d1.length = d2.length) :
    applyRef levels k .fixed top crs (vadd d1 d2) =
      vadd (applyRef levels k .fixed top crs d1) (applyRef levels k .fixed top crs d2) := by
  have ho : crs < ({ lv := Array.replicate (crs + 1) {} } : Obj).lv.size := by simp
  obtain ⟨log, x1, x2, e1, e2, e3⟩ := C09.cycle_linear_additive levels k top crs h d1 d2 hlen _ _ _ ho ho ho
  obtain ⟨_, t1⟩ := C09.apply_eq_textbook levels k .fixed top crs h d1 _ ho
  obtain ⟨_, t2⟩ := C09.apply_eq_textbook levels k .fixed top crs h d2 _ ho
  obtain ⟨_, t3⟩ := C09.apply_eq_textbook levels k .fixed top crs h (vadd d1 d2) _ ho
  rw [t1] at e1
  rw [t2] at e2
  rw [t3] at e3
  injection e1 with _ h1
  injection e2 with _ h2
  injection e3 with _ h3
  rw [h3, ← h1, ← h2]

/-! ## every reachable object: the size hypothesis discharged, and nothing above the top level is touched -/

/-- The hypothesis `crs < o.lv.size` of the data-layer theorems holds for every state the driver (and FEAT) can
    reach: an object starts with one level-vector record per level (`o.lv.size = nl`, `init_symbolic`), a level range
    is used only if the constructor / `set_levels` check `levelRange` accepts it (otherwise the modelled abort
    `ABORT:range`), an accepted range satisfies `top ≤ crs < nl`, and an application keeps `lv.size`.  Hence, by
    induction over any history of applications with any cycles, ranges and modes: the outcome is the textbook
    operator applied to the defect, and the invariant `lv.size = nl` is re-established. -/
theorem C09.reachable_apply_eq_textbook (levels : Array Level) (nl : Nat) (k : Cycle) (cgc : Cgc) (top crs : Int)
    (t c : Nat) (hr : levelRange nl top crs = some (t, c)) (d : Vec) (o : Obj) (ho : o.lv.size = nl) :
    (∃ log, (applyOnce levels k cgc t c d o).1 = .ok log (applyRef levels k cgc t c d)) ∧
    (applyOnce levels k cgc t c d o).2.lv.size = nl := by
  obtain ⟨h1, h2⟩ := levelRange_spec nl top crs t c hr
  exact ⟨C09.apply_eq_textbook levels k cgc t c h1 d o (by omega), by rw [applyOnce_size, ho]⟩

/-- Sub-ranges with `top > 0`: one application leaves every vector of every level finer than the top level
    untouched (all five vectors of levels `j < top`), for all three cycles and all modes.  (A peak loop that ran down
    to level 0 instead of `top` would violate this.) -/
theorem C09.levels_above_top_untouched (levels : Array Level) (k : Cycle) (cgc : Cgc) (top crs : Nat)
    (h : top ≤ crs) (d : Vec) (o : Obj) (ho : crs < o.lv.size) (j : Nat) (hj : j < top) :
    (applyOnce levels k cgc top crs d o).2.lv.getD j default = o.lv.getD j default := by
  obtain ⟨cnt, e⟩ := C09.apply_eq_reference levels k cgc top crs h d o
  rw [e]
  have hf := cycleRec_frame levels k cgc top crs h (startState o top d) (by rw [startState_size]; exact ho) j hj
  have hs : (startState o top d).get j = o.lv.getD j default := by
    unfold startState
    simp only []
    rw [get_put_ne _ _ _ _ (by omega)]
    rfl
  show (exec (step { levels := levels, cgc := cgc, crsLvl := crs }) (cycleRec k crs top)
    (startState o top d)).get j = _
  rw [hf, hs]

/-! ## absent smoothers: the `nullptr` code paths -/

/-- No pre-smoother (or a restriction that continues from an inner peak): `format` + copy resp. nothing at all. -/
theorem C09.absent_pre (L : Level) (i : Nat) (v : LvVecs) (h : L.pre = none) :
    (restLocal L i true v).1.sol = List.replicate L.n 0 ∧ (restLocal L i true v).1.defe = filt L.fidx v.rhs ∧
    (restLocal L i true v).2 = [s!"R{i}"] ∧
    (restLocal L i false v).1.sol = v.sol ∧ (restLocal L i false v).1.defe = filt L.fidx v.defe ∧
    (restLocal L i false v).2 = [s!"R{i}"] := by
  simp [restLocal, preSmooth, h]

/-- No post-smoother, or a prolongation onto an inner peak level: the solution is only corrected, the defect vector
    is not touched and no defect is computed. -/
theorem C09.absent_post (cgc : Cgc) (L : Level) (i : Nat) (sm : Bool) (v : LvVecs) (xc : Vec)
    (h : L.post = none ∨ sm = false) :
    (prolLocal cgc L i sm v xc).1.sol =
      (rStep ratOps cgc (refLevel L) v.rhs v.defe v.sol (filt L.fidx (mulVec L.P xc))).1 ∧
    (prolLocal cgc L i sm v xc).1.defe = v.defe ∧
    (prolLocal cgc L i sm v xc).2 = [s!"P{i}"] ++ (cgcStep cgc L i { v with cor := filt L.fidx (mulVec L.P xc) }).2.2
    := by
  rcases h with h | h
  · cases cgc <;> simp [prolLocal, cgcStep, rStep, ratOps, h] <;> rfl
  · subst h
    cases cgc <;> cases L.post <;> simp [prolLocal, cgcStep, rStep, ratOps] <;> rfl

/-- No peak smoother: the pre- and then the post-smoother are used; if both are absent as well, the peak step only
    recomputes the defect. -/
theorem C09.absent_peak (L : Level) (i : Nat) (v : LvVecs) (h : L.peak = none) :
    (peakLocal L i v).1.sol = (match L.post with
      | some S => rSmooth ratOps (refLevel L) (mulVec S) v.rhs
      | none => fun x => x)
      ((match L.pre with
        | some S => rSmooth ratOps (refLevel L) (mulVec S) v.rhs
        | none => fun x => x) v.sol) ∧
    (L.pre = none → L.post = none →
      peakLocal L i v = ({ v with defe := defect L v.rhs v.sol }, [s!"D{i}"])) := by
  constructor
  · rw [(peakLocal_spec L i v).2.1]
    unfold rPeak
    have e1 : (refLevel L).peak = L.peak.map mulVec := rfl
    have e2 : (refLevel L).pre = L.pre.map mulVec := rfl
    have e3 : (refLevel L).post = L.post.map mulVec := rfl
    rw [e1, e2, e3, h]
    cases L.pre <;> cases L.post <;> rfl
  · intro h1 h2
    simp [peakLocal, peakTail, h, h1, h2]

/-- No coarse solver: the filtered identity, no solver call. -/
theorem C09.absent_coarse (L : Level) (i : Nat) (v : LvVecs) (h : L.crs = none) :
    coarseLocal L i v = ({ v with sol := filt L.fidx v.rhs }, []) := by
  simp [coarseLocal, h]

/-! ## two-grid algebra (the level-independent convergence *rate* itself is measured only, not proved) -/

/-- With the exact coarse solve `C = (R A P)⁻¹` of the Galerkin coarse operator, the coarse grid correction
    `T = I - P C R A` annihilates the range of `P` and is a projection.  Hypotheses, all explicit: `C` is a left
    inverse of `R A P` for the first claim; `C` is a right inverse and `A`, `R`, `P`, `C` are additive for the second
    (any additive groups `V`, `W`; in particular vector spaces over a field with an invertible `R A P`). -/
theorem C09.twogrid_cgc_projection {V W : Type} [AddCommGroup V] [AddCommGroup W]
    (A : V → V) (R : V → W) (P : W → V) (C : W → W)
    (hA : ∀ x y, A (x - y) = A x - A y) (hR : ∀ x y, R (x - y) = R x - R y)
    (hP : ∀ x y, P (x - y) = P x - P y) (hC : ∀ x y, C (x - y) = C x - C y)
    (hleft : ∀ y, C (R (A (P y))) = y) (hright : ∀ z, R (A (P (C z))) = z) :
    (∀ y, P y - P (C (R (A (P y)))) = 0) ∧
    (∀ x, (x - P (C (R (A x)))) - P (C (R (A (x - P (C (R (A x))))))) = x - P (C (R (A x)))) :=
  ⟨cgc_annihilates_range A R P C hleft, cgc_idempotent A R P C hA hR hP hC hright⟩

/-- The operator of the previous theorem is the error propagation of the textbook two-level V-cycle without
    smoothers: `mgRef` on two levels is `b ↦ P C R b`. -/
theorem C09.twogrid_is_mgRef {K V : Type} [CommRing K] [AddCommGroup V] [Module K V]
    (omE : V → V → V → K) (omD : V → V → K) (lv : Nat → RLevel V) (C : V → V)
    (h0 : (lv 0).pre = none ∧ (lv 0).post = none ∧ (lv 0).zero = 0 ∧ (lv 0).Fd = id ∧ (lv 0).Fc = id)
    (h1 : (lv 1).crs = some C ∧ (lv 1).Fd = id) (e : V) :
    e - mgRef (modOps omE omD) lv .fixed 1 .V 1 ((lv 0).A e) = e - (lv 0).P (C ((lv 0).R ((lv 0).A e))) := by
  rw [mgRef_twogrid omE omD lv C h0 h1]

/-! ## coarse solves and peak levels -/

/-- V: exactly one coarse solve and no inner peak. -/
theorem C09.count_V (last top : Nat) (h : top ≤ last) (c0 : Nat → Nat) :
    ∃ p, (cycleIter .V last top c0).1 = some p ∧ countCoarse p = 1 ∧ peaksOf p = [] :=
  ⟨_, C09.iter_eq_rec .V last top h c0, countCoarse_recV _ _, peaksOf_recV _ _⟩

/-- W: exactly `2^L` coarse solves, peak levels in ruler order. -/
theorem C09.count_W (last top : Nat) (h : top ≤ last) (c0 : Nat → Nat) :
    ∃ p, (cycleIter .W last top c0).1 = some p ∧ countCoarse p = 2 ^ (last - top) ∧
      peaksOf p = ruler last (last - top) :=
  ⟨_, C09.iter_eq_rec .W last top h c0, countCoarse_recW _ _, peaksOf_recW _ _⟩

/-- F with `L ≥ 1`: exactly `L` coarse solves and exactly one peak on each inner level, in the order
    `last-1, last-2, …, top+1` (from the level next to the coarse level up to the level below the top level). -/
theorem C09.count_F (last top : Nat) (h : top < last) (c0 : Nat → Nat) :
    ∃ p, (cycleIter .F last top c0).1 = some p ∧ countCoarse p = last - top ∧
      (peaksOf p).length = last - top - 1 ∧
      ∀ i, i < last - top - 1 → (peaksOf p)[i]? = some (last - 1 - i) := by
  refine ⟨_, C09.iter_eq_rec .F last top (by omega) c0, ?_, ?_, ?_⟩
  · obtain ⟨d, hd⟩ : ∃ d, last - top = d + 1 := ⟨last - top - 1, by omega⟩
    simp only [cycleRec, hd, countCoarse_recF]
  · obtain ⟨d, hd⟩ : ∃ d, last - top = d + 1 := ⟨last - top - 1, by omega⟩
    simp only [cycleRec, hd]
    rw [peaksOf_recF last d (by omega)]
    simp [fpk]
  · intro i hi
    obtain ⟨d, hd⟩ : ∃ d, last - top = d + 1 := ⟨last - top - 1, by omega⟩
    simp only [cycleRec, hd]
    rw [peaksOf_recF last d (by omega)]
    exact fpk_get last d i (by omega) (by omega)

/-- F-cycle on every range `top ≤ last`, including the degenerate one- and two-level ranges: the peak levels are
    exactly the list `last-1, last-2, …, top+1` of the C++ loop (empty for `last ≤ top + 1`), and the number of
    coarse solves is `max 1 L`. -/
theorem C09.peaks_F_all_ranges (last top : Nat) (h : top ≤ last) (c0 : Nat → Nat) :
    ∃ p, (cycleIter .F last top c0).1 = some p ∧
      peaksOf p = (List.range' (top + 1) (last - 1 - top)).reverse ∧ countCoarse p = max 1 (last - top) := by
  refine ⟨_, C09.iter_eq_rec .F last top h c0, ?_, ?_⟩
  · rcases Nat.eq_zero_or_pos (last - top) with h0 | hpos
    · have e : last - 1 - top = 0 := by omega
      simp [cycleRec, h0, recF, peaksOf, e]
    · obtain ⟨d, hd⟩ : ∃ d, last - top = d + 1 := ⟨last - top - 1, by omega⟩
      have e1 : last - d = top + 1 := by omega
      have e2 : last - 1 - top = d := by omega
      simp only [cycleRec, hd]
      rw [peaksOf_recF last d (by omega), fpk, e1, e2]
  · rcases Nat.eq_zero_or_pos (last - top) with h0 | hpos
    · simp [cycleRec, h0, recF, countCoarse]
    · obtain ⟨d, hd⟩ : ∃ d, last - top = d + 1 := ⟨last - top - 1, by omega⟩
      simp only [cycleRec, hd, countCoarse_recF]
      omega

/-- F on a one-level range degenerates to a single coarse solve. -/
theorem C09.count_F_one_level (last : Nat) (c0 : Nat → Nat) :
    (cycleIter .F last last c0).1 = some [Instr.coarse] := by
  have := C09.iter_eq_rec .F last last (Nat.le_refl _) c0
  simpa [cycleRec, recF] using this

/-! ## adaptive coarse grid correction (the expressions of `stepProl`) -/

/-- MinEnergy: with `tmp = F(A c)` and `ω = ⟨d,c⟩ / ⟨tmp,c⟩` the updated defect `d − ω tmp` (the model's
    `axpy (-ω) tmp d`) is orthogonal to the correction `c` (normal equation of the energy minimisation), and `ω`
    minimises the energy change `w² ⟨A c,c⟩ − 2 w ⟨d,c⟩ = ‖e − w c‖²_A − ‖e‖²_A` over all step lengths `w`
    whenever `⟨A c, c⟩ > 0` (SPD level matrix, `c ≠ 0`). -/
theorem C09.acgc_minEnergy (d c tmp : Vec) (hl : tmp.length = d.length) (hpos : 0 < dot tmp c) :
    dot (axpy (-(dot d c / dot tmp c)) tmp d) c = 0 ∧
    ∀ w : Rat, (dot d c / dot tmp c) ^ 2 * dot tmp c - 2 * (dot d c / dot tmp c) * dot d c
        ≤ w ^ 2 * dot tmp c - 2 * w * dot d c := by
  constructor
  · rw [dot_axpy_left _ _ _ _ hl]
    have : dot tmp c ≠ 0 := ne_of_gt hpos
    field_simp
    ring
  · intro w
    exact quad_min (dot tmp c) (dot d c) w hpos

/-- MinDefect: with `ω = ⟨d,tmp⟩ / ⟨tmp,tmp⟩` the updated defect is orthogonal to `tmp = F(A c)` and its euclidean
    norm is minimal among all step lengths. -/
theorem C09.acgc_minDefect (d tmp : Vec) (hl : tmp.length = d.length) (hne : dot tmp tmp ≠ 0) :
    dot (axpy (-(dot d tmp / dot tmp tmp)) tmp d) tmp = 0 ∧
    ∀ w : Rat, dot (axpy (-(dot d tmp / dot tmp tmp)) tmp d) (axpy (-(dot d tmp / dot tmp tmp)) tmp d)
        ≤ dot (axpy (-w) tmp d) (axpy (-w) tmp d) := by
  constructor
  · rw [dot_axpy_left _ _ _ _ hl]
    field_simp
    ring
  · intro w
    have hpos : 0 < dot tmp tmp := lt_of_le_of_ne (dot_self_nonneg tmp) (Ne.symm hne)
    rw [dot_residual_sq _ _ _ hl, dot_residual_sq _ _ _ hl]
    have := quad_min (dot tmp tmp) (dot d tmp) w hpos
    linarith

/-- The guarded step length of `stepProl` (fix of finding F-C09-1): a non-zero denominator gives the quotient of
    `C09.acgc_minEnergy` / `C09.acgc_minDefect`; a vanishing denominator gives `ω = 1`, i.e. the update is the plain
    coarse grid correction `sol + 1·cor`, for either adaptive mode and whatever the numerator is. -/
theorem C09.acgc_guard (num den : Rat) (cor sol : Vec) :
    (den ≠ 0 → cgcOmega num den = num / den) ∧
    (den = 0 → cgcOmega num den = 1 ∧ axpy (cgcOmega num den) cor sol = axpy 1 cor sol) := by
  constructor
  · exact cgcOmega_of_ne num den
  · intro h
    subst h
    simp [cgcOmega_zero]

/-- A vanishing correction `cor = 0` (zero defect, or an inner visit whose restricted defect vanishes) makes both
    denominators `⟨F(A cor), cor⟩` and `⟨F(A cor), F(A cor)⟩` zero, and the update leaves the solution unchanged for
    every step length: the application stays finite and exact. -/
theorem C09.acgc_zero_correction (L : Level) (sol : Vec) (w : Rat) :
    dot (filt L.fidx (mulVec L.A (List.replicate sol.length 0))) (List.replicate sol.length 0) = 0 ∧
    dot (filt L.fidx (mulVec L.A (List.replicate sol.length 0)))
        (filt L.fidx (mulVec L.A (List.replicate sol.length 0))) = 0 ∧
    axpy w (List.replicate sol.length 0) sol = sol := by
  refine ⟨dot_zero_right _ _, ?_, axpy_zero w sol⟩
  rw [mulVec_zero, filt_zero, dot_zero_right]

/-- The defect shortcut used before post-smoothing with adaptive correction: `F(b − A(x + ω c)) = F(b − A x) − ω F(A c)`,
    i.e. the two branches of `stepProl` compute the same new defect when `defe` is the current defect. -/
theorem C09.def_shortcut (L : Level) (rhs sol c : Vec) (w : Rat) (hc : c.length = sol.length)
    (hr : rhs.length = L.A.length) :
    defect L rhs (axpy w c sol) = axpy (-w) (filt L.fidx (mulVec L.A c)) (defect L rhs sol) := by
  unfold defect
  rw [mulVec_axpy _ _ _ _ hc, vsub_axpy _ _ _ _ (by simp [mulVec_length]),
    filt_axpy _ _ _ _ (by simp [mulVec_length, vsub_length, hr])]

/-! ## non-vacuity -/

example : (cycleIter .W 3 0 (fun _ => 7)).1.map peaksOf = some [2, 1, 2, 0, 2, 1, 2] := by decide
-- sub-ranges with top > 0: peaks never go above (finer than) the top level
example : (cycleIter .W 5 2 (fun _ => 3)).1.map peaksOf = some [4, 3, 4, 2, 4, 3, 4] := by decide
example : (cycleIter .F 6 2 (fun _ => 0)).1.map peaksOf = some [5, 4, 3] := by decide
example : (cycleIter .F 6 2 (fun _ => 0)).1.map countCoarse = some 4 := by decide
example : (cycleIter .V 6 2 (fun _ => 0)).1.map countCoarse = some 1 := by decide
example : (cycleIter .W 7 3 (fun _ => 0)).1.map countCoarse = some 16 := by decide
example : (cycleIter .F 4 0 (fun _ => 0)).1.map peaksOf = some [3, 2, 1] := by decide
example : (cycleIter .F 4 0 (fun _ => 0)).1.map countCoarse = some 4 := by decide
example : cgcOmega 3 0 = 1 ∧ cgcOmega 3 2 = 3 / 2 := by constructor <;> norm_num [cgcOmega]
example : 0 < dot [2, 1] [1, 1] := by norm_num [dot_cons, dot_nil_left]
