import FeatModel.Model.GridTransfer
import FeatModel.Lemmas.C18_inv
import FeatModel.Lemmas.C18_inv2
import FeatModel.Lemmas.C18_prol
import FeatModel.Lemmas.C18_pvec
import FeatModel.Lemmas.C18_csr
import FeatModel.Lemmas.C18_trunc
import FeatModel.Lemmas.C18_perm
import FeatModel.Lemmas.C18_permT
import FeatModel.Lemmas.C18_spd
import FeatModel.Lemmas.C18_stride
import FeatModel.Lemmas.C18_global
import FeatModel.Lemmas.C18_tp
import FeatModel.Lemmas.C18_nested
import FeatModel.Lemmas.C18_intref
import FeatModel.Lemmas.C18_intlift
import FeatModel.Lemmas.C18_layout
import FeatModel.Lemmas.C18_convert
import Mathlib.Tactic.IntervalCases
/-! # C18 — property theorems (statements only; proofs live in Lemmas/C18_*.lean)

All statements are about the functions of `Model/GridTransfer.lean` that the driver `drv_c18` executes in the
correspondence run against the real `Math::invert_matrix`, `GridTransfer::assemble_prolongation(_direct)`,
`prolongate_vector`, `SparseMatrixCSR::transpose` and `LAFEM::Transfer`. No bound on any size. -/
open FeatModel.GT Finset

/-- `Math::invert_matrix` (in-situ Gauss–Jordan, diagonal pivoting): whenever it does not divide by an exactly zero
pivot, the returned matrix is a left inverse of the input, for every `n ≥ 1` -/
theorem C18.invert_matrix_left_inverse {n stride : Nat} {a : Mat} {det : Rat} {b : Mat} {p : List Nat}
    (h : invertMatrix n stride a = some (det, b, p)) (hn : 0 < n) (hs : n ≤ stride) :
    ∀ i c, i < n → c < n →
      sumTo n (fun j => FeatModel.GT.get b i j * FeatModel.GT.get a j c) = if i = c then 1 else 0 :=
  C18L.invert_left_inverse h hn hs

/-- … and a right inverse: `A · A⁻¹ = 1` -/
theorem C18.invert_matrix_right_inverse {n stride : Nat} {a : Mat} {det : Rat} {b : Mat} {p : List Nat}
    (h : invertMatrix n stride a = some (det, b, p)) (hn : 0 < n) (hs : n ≤ stride) :
    ∀ i c, i < n → c < n →
      sumTo n (fun j => FeatModel.GT.get a i j * FeatModel.GT.get b j c) = if i = c then 1 else 0 :=
  C18L.invert_right_inverse h hn hs

/-- **strided storage and pivot array**: `Math::invert_matrix(n, stride, a, p)` on the storage array (`invertFlat`, what
the driver runs for the `inv` cases with `stride ≥ n` and padding) is the `n×n` algorithm on the block written back:
same determinant, same pivot array, every position outside the block (the padding of a `Tiny::Matrix` with `sn > n`)
keeps its value — so the two inverse theorems above apply to the block of the strided result -/
theorem C18.invert_matrix_strided {n stride : Nat} (a : List Rat) (hn : 0 < n) (hs : n ≤ stride)
    (hlen : n * stride ≤ a.length) :
    invertFlat n stride a
      = (invertMatrix n stride (extractBlock n stride a)).map fun r => (r.1, putBlock n stride a r.2.1, r.2.2) :=
  C18L.invertFlat_eq a hn hs hlen

/-- **no zero pivot for positive definite input** (`xᵀAx > 0` for `x ≠ 0`; symmetry not needed): the diagonal pivot
search always finds a positive pivot, the inversion succeeds — the hypothesis of the inverse theorems is discharged -/
theorem C18.invert_matrix_posdef_succeeds {n : Nat} (a : Mat) (hn : 0 < n)
    (hpd : ∀ x : Nat → Rat, (∃ i, i < n ∧ x i ≠ 0) →
      0 < ∑ i ∈ range n, x i * (∑ l ∈ range n, FeatModel.GT.get a i l * x l)) :
    ∃ det b p, invertMatrix n n a = some (det, b, p) :=
  C18L.invert_posdef_succeeds a hn hpd

/-- the local mass matrix `M = Σ_k ω_k φ(x_k) φ(x_k)ᵀ` of a rule with positive weights on a unisolvent point set is
positive definite, hence (previous theorem) inverted without meeting a zero pivot -/
theorem C18.mass_matrix_inversion_succeeds (nfl : Nat) (pts : List Pt) (hn : 0 < nfl) (hw : ∀ p ∈ pts, 0 < p.w)
    (huni : ∀ x : Nat → Rat, (∃ i, i < nfl ∧ x i ≠ 0) → ∃ p ∈ pts, ∑ i ∈ range nfl, x i * p.f.getD i 0 ≠ 0) :
    ∃ det b p, invertMatrix nfl nfl (massF nfl pts) = some (det, b, p) :=
  C18L.invert_posdef_succeeds _ hn (C18L.massF_posdef nfl pts hw huni)

/-- nested spaces: if at every cubature point the coarse basis functions are the `E`-combinations of the fine ones,
the inter-level mass matrix is `N = M E` — for *any* cubature rule (no exactness needed) -/
theorem C18.nested_mass {nfl ncl : Nat} (pts : List Pt) (E : Nat → Nat → Rat)
    (hnest : ∀ p ∈ pts, ∀ j, j < ncl → p.c.getD j 0 = ∑ m ∈ range nfl, E m j * p.f.getD m 0) :
    ∀ i j, i < nfl → j < ncl →
      FeatModel.GT.get (massFC nfl ncl pts) i j
        = ∑ m ∈ range nfl, FeatModel.GT.get (massF nfl pts) i m * E m j :=
  C18L.nested_mass pts E hnest

/-- the local step `X = M⁻¹ N` of one child cell returns the embedding matrix `E` itself -/
theorem C18.local_prolongation_exact {ncl : Nat} {ch : Child} {x : Mat} (E : Nat → Nat → Rat)
    (h : localProl ncl ch = .ok x)
    (hnest : ∀ p ∈ ch.pts, ∀ j, j < ncl → p.c.getD j 0 = ∑ m ∈ range ch.fmap.length, E m j * p.f.getD m 0) :
    ∀ i j, i < ch.fmap.length → j < ncl → FeatModel.GT.get x i j = E i j :=
  C18L.localProl_exact E h hnest

/-- weighted scatter: if every local matrix maps the coarse coefficients to the fine coefficients of the same
function, so does the assembled, weight-normalised matrix (shared fine dofs are averaged over equal values) -/
theorem C18.weighted_scatter_exact (d : Dump) (locs : List (List Nat × List Nat × Mat)) (pd : Mat) (xc : List Rat)
    (vf : Nat → Rat) (h : prolDirect d locs = some pd)
    (hmap : ∀ loc ∈ locs, ∀ j, j < loc.1.length → loc.1.getD j 0 < d.nc)
    (hloc : ∀ loc ∈ locs, ∀ i, i < loc.2.1.length →
      vf (loc.2.1.getD i 0) = ∑ j ∈ range loc.1.length, FeatModel.GT.get loc.2.2 i j * xc.getD (loc.1.getD j 0) 0) :
    ∀ r, r < d.nf → (matVec d.nf d.nc pd xc).getD r 0 = vf r :=
  C18L.prolDirect_exact d locs pd xc vf h hmap hloc

/-- **prolongation is exact on the coarse space** (algebraic form): for nested spaces with local embedding matrices
`E cell child`, and coefficient vectors `xc`, `vf` of the same function (`vf = E · xc` on every child cell), the matrix
assembled by `assemble_prolongation_direct` satisfies `P · xc = vf` — for all meshes / dof-mappings / rules for which
the local inversions succeed -/
theorem C18.prolongation_exact (d : Dump) (locs : List (List Nat × List Nat × Mat)) (pd : Mat) (xc : List Rat)
    (vf : Nat → Rat) (E : Cell → Child → Nat → Nat → Rat)
    (hlocs : localProls d = .ok locs) (hpd : prolDirect d locs = some pd)
    (hmap : ∀ cell ∈ d.cells, ∀ j, j < cell.cmap.length → cell.cmap.getD j 0 < d.nc)
    (hnest : ∀ cell ∈ d.cells, ∀ ch ∈ cell.children, ∀ p ∈ ch.pts, ∀ j, j < cell.cmap.length →
      p.c.getD j 0 = ∑ m ∈ range ch.fmap.length, E cell ch m j * p.f.getD m 0)
    (hsame : ∀ cell ∈ d.cells, ∀ ch ∈ cell.children, ∀ i, i < ch.fmap.length →
      vf (ch.fmap.getD i 0) = ∑ j ∈ range cell.cmap.length, E cell ch i j * xc.getD (cell.cmap.getD j 0) 0) :
    ∀ r, r < d.nf → (matVec d.nf d.nc pd xc).getD r 0 = vf r :=
  C18L.prolongation_exact d locs pd xc vf E hlocs hpd hmap hnest hsame

/-- **truncation is a left inverse of prolongation on the coarse space** (vector form): if `vf` holds the fine
coefficients of the coarse function with coefficients `xc` (`vf = E · xc` on every child cell) and the refined rule
integrates the coarse mass matrix like the unrefined rule (`Σ_children Nᵀ E = M_c`; true for nested spaces when the rule
is exact for the products), then `T · vf = xc` for the matrix `T` of `assemble_truncation_direct` -/
theorem C18.truncation_left_inverse (d : Dump) (tl : List (List Nat × List (List Nat × Mat))) (td : Mat)
    (vf : List Rat) (xc : Nat → Rat) (E : Cell → Child → Nat → Nat → Rat)
    (htl : localTruncs d = .ok tl)
    (htd : scaleRows d.nf (truncRaw d tl) (truncWeights d tl) = some td)
    (hfmap : ∀ cell ∈ d.cells, ∀ ch ∈ cell.children, ∀ k, k < ch.fmap.length → ch.fmap.getD k 0 < d.nf)
    (hsame : ∀ cell ∈ d.cells, ∀ ch ∈ cell.children, ∀ k, k < ch.fmap.length →
      vf.getD (ch.fmap.getD k 0) 0 = ∑ j ∈ range cell.cmap.length, E cell ch k j * xc (cell.cmap.getD j 0))
    (hint : ∀ cell ∈ d.cells, ∀ l j, l < cell.cmap.length → j < cell.cmap.length →
      (cell.children.map fun ch => ∑ k ∈ range ch.fmap.length,
        FeatModel.GT.get (massCF cell.cmap.length ch.fmap.length ch.pts) l k * E cell ch k j).sum
        = FeatModel.GT.get (massC cell.cmap.length cell.cpts) l j) :
    ∀ r, r < d.nc → (matVec d.nc d.nf td vf).getD r 0 = xc r :=
  C18L.truncation_exact d tl td vf xc E htl htd hfmap hsame hint

/-- **`T · P = 1` at matrix level**: the mass-weighted truncation matrix of `assemble_truncation_direct` is a left
inverse of every matrix whose rows are the local embedding rows (`consB`: all cells sharing a fine dof contribute the
same row — true for the assembled prolongation of a nested space), provided the refined rule integrates the coarse
mass matrix like the unrefined rule (`intB`).  Cells may have arbitrary, non-congruent sizes; the element family enters
only through the decidable certificates `consB`, `intB`, `mapsB`, which the driver evaluates on the real ingredients
of every `fe` case (stream `certificates`) -/
theorem C18.truncation_prolongation_identity (d : Dump) (tl : List (List Nat × List (List Nat × Mat))) (td pd : Mat)
    (htl : localTruncs d = .ok tl)
    (htd : scaleRows d.nf (truncRaw d tl) (truncWeights d tl) = some td)
    (hcons : consB d pd = true) (hint : intB d = true) (hmaps : mapsB d = true) :
    ∀ r s, r < d.nc → s < d.nc →
      sumTo d.nf (fun k => FeatModel.GT.get td r k * FeatModel.GT.get pd k s) = if r = s then 1 else 0 :=
  C18L.trunc_prol_identity d tl td pd htl htd hcons hint hmaps

/-- `C18.prolongation_exact` with its nestedness and range hypotheses replaced by the decidable certificates
`nestedB`, `mapsB` (local embedding := the computed local prolongation `Eof`) -/
theorem C18.prolongation_exact_certified (d : Dump) (locs : List (List Nat × List Nat × Mat)) (pd : Mat)
    (xc : List Rat) (vf : Nat → Rat) (hlocs : localProls d = .ok locs) (hpd : prolDirect d locs = some pd)
    (hnest : nestedB d = true) (hmaps : mapsB d = true)
    (hsame : ∀ cell ∈ d.cells, ∀ ch ∈ cell.children, ∀ i, i < ch.fmap.length →
      vf (ch.fmap.getD i 0)
        = ∑ j ∈ range cell.cmap.length, FeatModel.GT.get (Eof cell ch) i j * xc.getD (cell.cmap.getD j 0) 0) :
    ∀ r, r < d.nf → (matVec d.nf d.nc pd xc).getD r 0 = vf r :=
  C18L.prolongation_exact_cert d locs pd xc vf hlocs hpd hnest hmaps hsame

/-- the dense restriction printed for the `fe` cases is the exact transpose of the prolongation -/
theorem C18.restriction_dense_is_transpose {nf nc : Nat} (pd : Mat) {i j : Nat} (hi : i < nc) (hj : j < nf) :
    FeatModel.GT.get (transposeDense nf nc pd) i j = FeatModel.GT.get pd j i :=
  C18L.get_transposeDense pd hi hj

/-- **matrix-free = matrix**: `prolongate_vector_direct` returns `P · xc` for the matrix `P` of
`assemble_prolongation_direct` (same local matrices, same weights) -/
theorem C18.matrix_free_agrees (d : Dump) (locs : List (List Nat × List Nat × Mat)) (pd : Mat) (xc vd : List Rat)
    (hpd : prolDirect d locs = some pd)
    (hvd : scaleVec (pvecRaw d locs xc) (prolWeights d locs) = some vd)
    (hmap : ∀ loc ∈ locs, ∀ j, j < loc.1.length → loc.1.getD j 0 < d.nc) :
    ∀ r, r < d.nf → vd.getD r 0 = (matVec d.nf d.nc pd xc).getD r 0 :=
  C18L.matrix_free_agrees d locs pd xc vd hpd hvd hmap

/-- **restriction is the exact transpose of the prolongation — at array level.**  `Transfer.ofProl P T` is what
`control/asm/transfer_asm.hpp` builds (`rest = prol.transpose()`, C02's loop-for-loop counting-sort model, executed by
the driver for every `xfer` and `fe` case): swapped dimensions, structurally valid layout, `R(j,i) = P(i,j)` -/
theorem C18.restriction_is_transpose (P T : FeatModel.LA.Csr Rat) (hP : P.valid = true) :
    (Transfer.ofProl P T).rest.rows = P.cols ∧ (Transfer.ofProl P T).rest.cols = P.rows ∧
    (Transfer.ofProl P T).rest.valid = true ∧
    ∀ i j, i < P.rows → j < P.cols → (Transfer.ofProl P T).rest.entry j i = P.entry i j :=
  C18L.rest_spec P T hP

/-- **the 2-level CSR layout is valid** — the hypothesis of `C18.restriction_is_transpose` is discharged for the
prolongation matrix: `layout2lvl d` is C16's symbolic assembly (`injectify_sorted` of the dof adjacency) on the
dof-mappings of the case; the driver *computes* the layout with it and the correspondence run compares the resulting
`row_ptr` / `col_ind` with the arrays of the real `SymbolicAssembler::assemble_matrix_2lvl` matrix.  For every case with
in-range coarse dof-mappings, and whatever values are stored: monotone row pointer, in-range and strictly increasing
column indices, right dimensions -/
theorem C18.layout_2lvl_valid (d : Dump) (g : FeatModel.Adj.Graph) (hg : layout2lvl d = some g)
    (hmaps : mapsB d = true) (m : Mat) :
    (csrOfDense d.nf d.nc g.domainPtr g.imageIdx m).valid = true ∧
    (csrOfDense d.nf d.nc g.domainPtr g.imageIdx m).rows = d.nf ∧
    (csrOfDense d.nf d.nc g.domainPtr g.imageIdx m).cols = d.nc :=
  C18L.layout2lvl_valid d g hg hmaps m

/-- … hence, without any layout hypothesis: the restriction built from the assembled prolongation of an `fe` case is
its exact transpose at array level -/
theorem C18.restriction_is_transpose_assembled (d : Dump) (g : FeatModel.Adj.Graph) (hg : layout2lvl d = some g)
    (hmaps : mapsB d = true) (pd : Mat) (T : FeatModel.LA.Csr Rat) :
    let P := csrOfDense d.nf d.nc g.domainPtr g.imageIdx pd
    (Transfer.ofProl P T).rest.rows = d.nc ∧ (Transfer.ofProl P T).rest.cols = d.nf ∧
    (Transfer.ofProl P T).rest.valid = true ∧
    ∀ i j, i < d.nf → j < d.nc → (Transfer.ofProl P T).rest.entry j i = P.entry i j := by
  intro P
  obtain ⟨hv, hr, hc⟩ := C18L.layout2lvl_valid d g hg hmaps pd
  obtain ⟨h1, h2, h3, h4⟩ := C18L.rest_spec P T hv
  exact ⟨by rw [h1]; exact hc, by rw [h2]; exact hr, h3, fun i j hi hj => h4 i j (by rw [hr]; exact hi) (by rw [hc]; exact hj)⟩

/-- `LAFEM::Transfer::prol / rest / trunc` never abort on matching sizes and are the products with `P`, `Pᵀ`, `T`
(dense meaning of the stored CSR arrays; the output vector is overwritten) -/
theorem C18.transfer_is_matrix_product (P T : FeatModel.LA.Csr Rat) (hP : P.valid = true) (hT : T.valid = true)
    (hTr : T.rows = P.cols) (hTc : T.cols = P.rows)
    (xc vf0 yf vc0 : Array Rat) (hxc : xc.size = P.cols) (hvf : vf0.size = P.rows) (hyf : yf.size = P.rows)
    (hvc : vc0.size = P.cols) :
    (∃ xp, (Transfer.ofProl P T).applyProl vf0 xc = some xp ∧
        ∀ i, i < P.rows → xp.getD i 0 = ∑ j ∈ range P.cols, P.entry i j * xc.getD j 0) ∧
    (∃ xr, (Transfer.ofProl P T).applyRest yf vc0 = some xr ∧
        ∀ j, j < P.cols → xr.getD j 0 = ∑ i ∈ range P.rows, P.entry i j * yf.getD i 0) ∧
    (∃ xt, (Transfer.ofProl P T).applyTrunc yf vc0 = some xt ∧
        ∀ j, j < P.cols → xt.getD j 0 = ∑ i ∈ range P.rows, T.entry j i * yf.getD i 0) :=
  C18L.transfer_products P T hP hT hTr hTc xc vf0 yf vc0 hxc hvf hyf hvc

/-! ### `convert` / `clone` of transfer objects

`Transfer.convert cv` / `Transfer.clone m` (and `GTransfer.convert` / `GTransfer.clone`) model
`LAFEM::Transfer::convert(other)`, `clone(mode)` and the `Global::Transfer` counterparts as field-wise maps of the record
`(P, R, T [, muxer])`.  The driver runs prol / rest / trunc / trunc∘prol and the three matrix getters on the original,
the converted (index types `u64 → u32 → u64`) and the cloned (shallow / weak / deep) local and global objects of every
`xfer`, `gxfer` and `fe` case. -/

/-- **transfer_convert_fieldwise**: the converted object's prolongation / restriction / truncation matrix is the
converted prolongation / restriction / truncation matrix of the source — never another field — and its members apply
exactly these matrices; dimensions, layout arrays and validity of the layout survive any value conversion -/
theorem C18.transfer_convert_fieldwise (cv : Rat → Rat) (t : Transfer) (vf vc : Array Rat) :
    ((t.convert cv).prol = csrConvert cv t.prol ∧ (t.convert cv).rest = csrConvert cv t.rest ∧
      (t.convert cv).trunc = csrConvert cv t.trunc) ∧
    ((t.convert cv).applyProl vf vc = (csrConvert cv t.prol).applyQ vc vf false ∧
      (t.convert cv).applyRest vf vc = (csrConvert cv t.rest).applyQ vf vc false ∧
      (t.convert cv).applyTrunc vf vc = (csrConvert cv t.trunc).applyQ vf vc false) ∧
    (∀ A : FeatModel.LA.Csr Rat, (csrConvert cv A).rows = A.rows ∧ (csrConvert cv A).cols = A.cols ∧
      (csrConvert cv A).rowPtr = A.rowPtr ∧ (csrConvert cv A).colInd = A.colInd ∧
      (csrConvert cv A).valid = A.valid ∧
      ∀ k, k < A.val.size → (csrConvert cv A).val.getD k 0 = cv (A.val.getD k 0)) := by
  obtain ⟨h1, h2, h3, h4, h5, h6⟩ := C18L.transfer_convert_fields cv t vf vc
  refine ⟨⟨h1, h2, h3⟩, ⟨h4, h5, h6⟩, fun A => ?_⟩
  obtain ⟨a, b, c, d, _, f⟩ := C18L.csrConvert_layout cv A
  exact ⟨a, b, c, d, C18L.csrConvert_valid cv A, f⟩

/-- with a value-preserving conversion (change of the index type, as in the runs at `Q`) and for the value-preserving
clone modes the converted / cloned object is the same record, locally and globally — hence `R = Pᵀ`
(`C18.restriction_is_transpose`), the products (`C18.transfer_is_matrix_product`, `C18.global_transfer_eq_local`) and
`T·P = 1` (`C18.truncation_prolongation_identity`) are inherited verbatim by the converted and the cloned objects -/
theorem C18.transfer_convert_inherits (t : Transfer) (g : GTransfer) (mux : Option MuxerM) (m : CloneMode) :
    t.convert id = t ∧ t.clone m = t ∧
    g.convert mux id = { muxer := mux, locals := g.locals } ∧ g.clone m = g :=
  ⟨(C18L.transfer_convert_id t m).1, (C18L.transfer_convert_id t m).2,
    (C18L.gtransfer_convert_id g mux m).1, (C18L.gtransfer_convert_id g mux m).2⟩

/-- witness that the field matters: `P = (1,1)ᵀ`; an object whose truncation was filled from the restriction
(`T := R = Pᵀ`, same dimensions and layout, nothing asserts) returns `trunc(prol(3)) = 6`, the proper
`T = (1/2 1/2)` returns `3`, while `prol` is the same for both -/
theorem C18.wrong_source_breaks_left_inverse :
    (Transfer.ofProl C18L.witnessP C18L.witnessP.transpose).applyTrunc #[3, 3] #[0] = some #[6] ∧
    (Transfer.ofProl C18L.witnessP C18L.witnessT).applyTrunc #[3, 3] #[0] = some #[3] ∧
    (Transfer.ofProl C18L.witnessP C18L.witnessT).applyProl #[0, 0] #[3] = some #[3, 3] :=
  C18L.wrong_source_breaks_left_inverse

/-! ### `Global::Transfer` (kernel/global/transfer.hpp)

`GTransfer` models the members of `Global::Transfer` for one parent group (parent process + its children, each with
its `LAFEM::Transfer`); muxer join/split and the gate sync are C13's models.  The driver executes it for every `gxfer`
and `fe` case in three set-ups: no muxer, a muxer that is not a child, and the single-process muxer that is child and
parent at once (the muxed branch). -/

/-- un-muxed branch (`_coarse_muxer == nullptr` or `!is_child()`): `rest` applies the stored *restriction* matrix,
`trunc` the stored *truncation* matrix, `prol` the stored *prolongation* matrix of the local transfer; the gate sync of
a gate without neighbours is the identity -/
theorem C18.global_transfer_unmuxed (g : GTransfer) (h : g.muxed = false) (fines tmps fines0 : List (Array Rat))
    (coarse0 coarse : Array Rat) :
    g.rest fines tmps coarse0 = (g.locals.getD 0 default).applyRest (fines.getD 0 #[]) coarse0 ∧
    g.trunc fines tmps coarse0 = (g.locals.getD 0 default).applyTrunc (fines.getD 0 #[]) coarse0 ∧
    g.prol fines0 tmps coarse = ((g.locals.getD 0 default).applyProl (fines0.getD 0 #[]) coarse).map fun v => [v] :=
  C18L.global_unmuxed g h fines tmps fines0 coarse0 coarse

/-- muxed branch with `k` processes: `rest`/`trunc` = `join ∘ local rest/trunc (into _vec_tmp)`,
`prol` = `local prol (from _vec_tmp) ∘ split`; for more than one process join/split are C13's `muxJoin`/`muxSplit` -/
theorem C18.global_transfer_muxed_group (g : GTransfer) (m : MuxerM) (hm : g.muxer = some m) (hc : m.isChild = true)
    (hp : m.isParent = true) (w : Which) (fines tmps fines0 : List (Array Rat)) (coarse0 coarse : Array Rat) :
    g.down w fines tmps coarse0
      = ((List.range g.locals.length).mapM fun c =>
          applyWhich w (g.locals.getD c default) (fines.getD c #[]) (tmps.getD c #[])).map
          (fun parts => m.join parts coarse0) ∧
    g.prol fines0 tmps coarse
      = ((List.range g.locals.length).mapM fun c =>
          (g.locals.getD c default).applyProl (fines0.getD c #[]) ((m.split coarse tmps).getD c #[])) ∧
    (1 < m.commSize → ∀ parts, m.join parts coarse0
      = (FeatModel.Dist.muxJoin m.B m.pm m.cm (parts.map fun s => FeatModel.Dist.CVec.leaf 1 s.toList)
          (FeatModel.Dist.CVec.leaf 1 coarse0.toList)).flat.toArray) ∧
    (1 < m.commSize → m.split coarse tmps
      = (FeatModel.Dist.muxSplit m.B m.pm m.cm (FeatModel.Dist.CVec.leaf 1 coarse.toList)
          (tmps.map fun s => FeatModel.Dist.CVec.leaf 1 s.toList)).map fun v => v.flat.toArray) :=
  C18L.global_muxed_group g m hm hc hp w fines tmps fines0 coarse0 coarse

/-- **global_transfer_eq_local**: for the un-muxed object and for the single-process muxed object (child and parent at
once) `prol`, `rest`, `trunc` never abort on matching sizes and are the products with `P`, `Pᵀ`, `T` — the same as
`LAFEM::Transfer` (`C18.transfer_is_matrix_product`) -/
theorem C18.global_transfer_eq_local (P T : FeatModel.LA.Csr Rat) (hP : P.valid = true) (hT : T.valid = true)
    (hTr : T.rows = P.cols) (hTc : T.cols = P.rows) (mux : Option MuxerM)
    (hmux : mux = none ∨ ∃ m, mux = some m ∧ (m.isChild = false ∨ (m.commSize = 1 ∧ m.isParent = true)))
    (xc fine0 yf coarse0 tmp : Array Rat) (hxc : xc.size = P.cols) (hf0 : fine0.size = P.rows)
    (hyf : yf.size = P.rows) (hc0 : coarse0.size = P.cols) (htmp : tmp.size = P.cols) :
    (∃ xp, (GTransfer.mk mux [Transfer.ofProl P T]).prol [fine0] [tmp] xc = some [xp] ∧
        ∀ i, i < P.rows → xp.getD i 0 = ∑ j ∈ range P.cols, P.entry i j * xc.getD j 0) ∧
    (∃ xr, (GTransfer.mk mux [Transfer.ofProl P T]).rest [yf] [tmp] coarse0 = some xr ∧
        ∀ j, j < P.cols → xr.getD j 0 = ∑ i ∈ range P.rows, P.entry i j * yf.getD i 0) ∧
    (∃ xt, (GTransfer.mk mux [Transfer.ofProl P T]).trunc [yf] [tmp] coarse0 = some xt ∧
        ∀ j, j < P.cols → xt.getD j 0 = ∑ i ∈ range P.rows, T.entry j i * yf.getD i 0) :=
  C18L.global_transfer_products P T hP hT hTr hTc mux hmux xc fine0 yf coarse0 tmp hxc hf0 hyf hc0 htmp

/-! ### nestedness derived from the element polynomials (no per-case certificate)

`nestedRefB t k dim` is the finite table of polynomial identities `φ̂_j ∘ A_c = Σ_i φ̂_j(A_c(node_i)) · φ̂_i` on the
reference cell (every child `c`, every coarse basis function `j`), with `φ̂` C15's generated reference polynomials
(`FE.tabOf`), `A_c` the child maps of `Cubature::RefineFactory` (the driver's `childmap` op compares them with the real
`RuleRefinery`) and `node_i` the nodal point of `φ̂_i`; it is evaluated by the kernel.
Geometry assumption, stated honestly: the element is *parametric* and the fine trafo is the coarse trafo composed with
the reference-affine child map, i.e. the basis values the assembly loops see are `φ̂_i(ξ)` and `φ̂_j(A_c ξ)` (`paramB`).
This holds on affine simplices and on multilinear quadrilaterals/hexahedra (the child maps are affine on the reference
cell), and the driver checks `paramB` on the real data of every Lagrange-1/2 `fe` case (also on graded meshes). -/

/-- the table: Lagrange-1 and Lagrange-2 on the interval, the quadrilateral and the triangle, Lagrange-1 on the
hexahedron (Lagrange-2 on the hexahedron: 8 × 27 identities of 27-term polynomials, not kernel-evaluated here; tetrahedra:
the 12 child maps are not modelled) -/
theorem C18.nested_reference_lagrange :
    nestedRefB FeatModel.Gen.BasisH1.l1 .H 1 = true ∧ nestedRefB FeatModel.Gen.BasisH1.l2 .H 1 = true ∧
    nestedRefB FeatModel.Gen.BasisH2.l1 .H 2 = true ∧ nestedRefB FeatModel.Gen.BasisH2.l2 .H 2 = true ∧
    nestedRefB FeatModel.Gen.BasisS2.l1 .S 2 = true ∧ nestedRefB FeatModel.Gen.BasisS2.l2 .S 2 = true ∧
    nestedRefB FeatModel.Gen.BasisH3.l1 .H 3 = true :=
  ⟨C18L.nested_L1_H1, C18L.nested_L2_H1, C18L.nested_L1_H2, C18L.nested_L2_H2, C18L.nested_L1_S2, C18L.nested_L2_S2,
    C18L.nested_L1_H3⟩

/-- the identity as a statement about values: every coarse basis function restricted to a child cell is the combination
of the fine basis functions with coefficients = coarse basis evaluated at the fine nodes, at every point `ξ` -/
theorem C18.nested_reference_values {t : FeatModel.Poly.BasisTab} {k : FeatModel.FE.Kind} {dim : Nat}
    (h : nestedRefB t k dim = true) {c j : Nat} (hc : c < numChildren k dim) (hj : j < t.nloc) (xi : List Rat) :
    FeatModel.Poly.evalAt (childPoint k dim c xi) (t.val j)
      = ∑ i ∈ range t.nloc, FeatModel.GT.get (Eref t k dim c) i j * FeatModel.Poly.evalAt xi (t.val i) :=
  C18L.nested_ref h hc hj xi

/-- **prolongation is exact for Lagrange-1/2 on every nested mesh**: for every family/shape of the table above and every
case of a parametric element (`paramB`), any loop order, dof numbering, permutation state and cubature rule for which
the local inversions succeed: `P · xc = vf` whenever `vf` holds the fine nodal values of the coarse function `xc`
(`vf = E · xc` on every child, `E = ` coarse basis at the fine nodes) -/
theorem C18.prolongation_exact_lagrange {t : FeatModel.Poly.BasisTab} {k : FeatModel.FE.Kind} {dim : Nat}
    (hn : nestedRefB t k dim = true) (xis : List (List Rat)) (d : Dump) (hp : paramB t k dim xis d = true)
    (hmaps : mapsB d = true) (locs : List (List Nat × List Nat × Mat)) (pd : Mat) (xc : List Rat) (vf : Nat → Rat)
    (hlocs : localProls d = .ok locs) (hpd : prolDirect d locs = some pd)
    (hsame : ∀ cell ∈ d.cells, ∀ ch ∈ cell.children, ∀ i, i < ch.fmap.length →
      vf (ch.fmap.getD i 0)
        = ∑ j ∈ range cell.cmap.length,
            FeatModel.GT.get (Eref t k dim (cell.children.idxOf ch)) i j * xc.getD (cell.cmap.getD j 0) 0) :
    ∀ r, r < d.nf → (matVec d.nf d.nc pd xc).getD r 0 = vf r :=
  C18L.prolongation_exact_param hn xis d hp hmaps locs pd xc vf hlocs hpd hsame

/-! ### the refined rule reproduces the coarse mass matrix — derived, reference cell and affine cases

Reference cell: the refined rule (children `c`, weights `w_q/nch`, points `A_c ξ_q`) integrates every coarse mass
integrand `φ̂_l φ̂_j` like the unrefined rule — from exactness of the rule on the monomials (C16's
`local_integral_exact`, linearity over C14's reference integrals) and the change of variables
`∫ p = Σ_c |det A_c| ∫ p∘A_c` (kernel-evaluated).  `C18.intB_affine` lifts this to the certificate `intB` of every case
on affine cells (constant `jac_det` per cell, `jac_det_fine = jac_det_coarse / nch`, parametric element); on other cases
(non-affine cells, families/rules outside the table) `intB` stays a per-case certificate of the driver. -/

theorem C18.refined_rule_reproduces_reference (t : FeatModel.Poly.BasisTab) (k : FeatModel.FE.Kind) (simplex : Bool) (d : Nat)
    (r : FeatModel.LocalFE.Rule) (ms : List FeatModel.Poly.Mono)
    (hex : r.exactOn simplex d ms = true) (hm : C18L.monosB t k d ms = true) (hcov : C18L.covB t k simplex d = true)
    {l j : Nat} (hl : l < t.nloc) (hj : j < t.nloc) :
    ((List.range (numChildren k d)).map fun c =>
        FeatModel.LocalFE.localEntry r (1 / (numChildren k d : Nat) : Rat) (childMassPoly t k d c l j)).sum
      = FeatModel.LocalFE.localEntry r 1 (massPoly t d l j) :=
  C18L.refined_rule_reproduces t k simplex d r ms hex hm hcov hl hj

/-- **intB derived for affine cases**: for a parametric element of the nestedness table, a rule that is exact on the
monomials of the mass integrands (table below) and a case whose cells are affine (`AffParam`: per coarse cell a constant
`detJ`; coarse loop weights `detJ·w_q`, child loop weights `detJ/nch·w_q`, basis values = reference polynomials at `ξ_q`
resp. `A_c ξ_q`) the certificate `intB` holds — so `C18.truncation_prolongation_identity` needs only `consB` and `mapsB` there -/
theorem C18.intB_affine {t : FeatModel.Poly.BasisTab} {k : FeatModel.FE.Kind} {simplex : Bool} {dim : Nat}
    {r : FeatModel.LocalFE.Rule} {ms : List FeatModel.Poly.Mono}
    (hex : r.exactOn simplex dim ms = true) (hm : C18L.monosB t k dim ms = true) (hcov : C18L.covB t k simplex dim = true)
    (hn : nestedRefB t k dim = true) (d : Dump) (haff : C18L.AffParam t k dim r d)
    (hok : ∀ cell ∈ d.cells, ∀ ch ∈ cell.children, ∃ x, localProl cell.cmap.length ch = .ok x) :
    intB d = true :=
  C18L.intB_of_affine hex hm hcov hn d haff hok

/-- the hypotheses hold (kernel evaluation) for: Lagrange-1 with Simpson on the line and the square, Lagrange-2 with
Newton–Cotes-closed:5 on the line, Lagrange-1 with Lauffer-2 on the triangle (Lagrange-2 / Newton–Cotes:5 on the
square also evaluates to `true`, but needs 6 minutes of kernel time and is left out) -/
theorem C18.intB_reference_table :
    ((FeatModel.LocalFE.ruleOf false 1 "simpson").map fun r =>
      r.exactOn false 1 (FeatModel.LocalFE.boxMonos 1 3) &&
        C18L.monosB FeatModel.Gen.BasisH1.l1 .H 1 (FeatModel.LocalFE.boxMonos 1 3) &&
        C18L.covB FeatModel.Gen.BasisH1.l1 .H false 1) = some true ∧
    ((FeatModel.LocalFE.ruleOf false 1 "newton-cotes-closed:5").map fun r =>
      r.exactOn false 1 (FeatModel.LocalFE.boxMonos 1 5) &&
        C18L.monosB FeatModel.Gen.BasisH1.l2 .H 1 (FeatModel.LocalFE.boxMonos 1 5) &&
        C18L.covB FeatModel.Gen.BasisH1.l2 .H false 1) = some true ∧
    ((FeatModel.LocalFE.ruleOf false 2 "simpson").map fun r =>
      r.exactOn false 2 (FeatModel.LocalFE.boxMonos 2 3) &&
        C18L.monosB FeatModel.Gen.BasisH2.l1 .H 2 (FeatModel.LocalFE.boxMonos 2 3) &&
        C18L.covB FeatModel.Gen.BasisH2.l1 .H false 2) = some true ∧
    ((FeatModel.LocalFE.ruleOf true 2 "lauffer-degree-2").map fun r =>
      r.exactOn true 2 (FeatModel.Cub.monos 2 2) &&
        C18L.monosB FeatModel.Gen.BasisS2.l1 .S 2 (FeatModel.Cub.monos 2 2) &&
        C18L.covB FeatModel.Gen.BasisS2.l1 .S true 2) = some true :=
  ⟨C18L.repro_L1_H1, C18L.repro_L2_H1, C18L.repro_L1_H2, C18L.repro_L1_S2⟩

/-! ### mesh permutation states

`TwoLevel` is the data of a coarse/fine mesh pair in *mesh* numbering together with the two lookups the assembly loops
perform (`coarsePerm` = `get_perm()` of the coarse mesh, `fineInvPerm` = `get_inv_perm()` of the fine mesh, `[]` = the
empty permutation of an unpermuted mesh); `TwoLevel.toDump` is the loop nest `for ccell, for child` with
`fcell = fine_inv_perm(calc_fcell(coarse_perm(ccell), child))` that `drv_c18` executes for every `fe` case.
`C18L.permutedPair m0 pc pf pfinv σc σf` is the pair obtained from the unpermuted pair `m0` by permuting the coarse
cells with `pc` / renumbering the coarse dofs with `σc` and the fine cells with `pf` / fine dofs with `σf`
(`pc = []`, `σc = id`: coarse mesh not permuted; `pf = pfinv = []`, `σf = id`: fine mesh not permuted), so the four
states none/none, coarse only, fine only, both are instances of the same statement. -/

/-- **perm_invariance, assembled prolongation**: `P'(σf r, σc s) = P(r, s)`, hence `P·interp_c = interp_f` is
preserved (and `C18.prolongation_exact` applies to the permuted loop nest directly, as it holds for every `Dump`) -/
theorem C18.perm_invariance_prolongation (m0 : TwoLevel) (pc pf pfinv : List Nat) {σc σf : Nat → Nat}
    (hc : Function.Injective σc) (hf : Function.Injective σf) (hok : C18L.PermOK m0 pc pf pfinv)
    {locs0 locsP : List (List Nat × List Nat × Mat)} {pd0 pdP : Mat}
    (h0 : localProls m0.toDump = .ok locs0)
    (hP : localProls (C18L.permutedPair m0 pc pf pfinv σc σf).toDump = .ok locsP)
    (hd0 : prolDirect m0.toDump locs0 = some pd0)
    (hdP : prolDirect (C18L.permutedPair m0 pc pf pfinv σc σf).toDump locsP = some pdP)
    {r s : Nat} (hr : r < m0.nf) (hs : s < m0.nc) (hr' : σf r < m0.nf) (hs' : σc s < m0.nc) :
    FeatModel.GT.get pdP (σf r) (σc s) = FeatModel.GT.get pd0 r s :=
  C18L.perm_invariance_matrix m0 pc pf pfinv hc hf hok h0 hP hd0 hdP hr hs hr' hs'

/-- **perm_invariance, matrix-free `prolongate_vector_direct`**: with the coarse vector renumbered by `σc`, the result
is the unpermuted result renumbered by `σf` -/
theorem C18.perm_invariance_matrix_free (m0 : TwoLevel) (pc pf pfinv : List Nat) {σc σf : Nat → Nat}
    (hf : Function.Injective σf) (hok : C18L.PermOK m0 pc pf pfinv)
    {locs0 locsP : List (List Nat × List Nat × Mat)} {xc xcP vd0 vdP : List Rat}
    (h0 : localProls m0.toDump = .ok locs0)
    (hP : localProls (C18L.permutedPair m0 pc pf pfinv σc σf).toDump = .ok locsP)
    (hx : ∀ s, xcP.getD (σc s) 0 = xc.getD s 0)
    (hv0 : scaleVec (pvecRaw m0.toDump locs0 xc) (prolWeights m0.toDump locs0) = some vd0)
    (hvP : scaleVec (pvecRaw (C18L.permutedPair m0 pc pf pfinv σc σf).toDump locsP xcP)
      (prolWeights (C18L.permutedPair m0 pc pf pfinv σc σf).toDump locsP) = some vdP)
    {r : Nat} (hr : r < m0.nf) (hr' : σf r < m0.nf) :
    vdP.getD (σf r) 0 = vd0.getD r 0 :=
  C18L.perm_invariance_vector m0 pc pf pfinv hf hok h0 hP hx hv0 hvP hr hr'

/-- **perm_invariance, assembled truncation**: `T'(σc r, σf s) = T(r, s)` -/
theorem C18.perm_invariance_truncation (m0 : TwoLevel) (pc pf pfinv : List Nat) {σc σf : Nat → Nat}
    (hc : Function.Injective σc) (hf : Function.Injective σf) (hok : C18L.PermOK m0 pc pf pfinv)
    {tl0 tlP : List (List Nat × List (List Nat × Mat))} {td0 tdP : Mat}
    (h0 : localTruncs m0.toDump = .ok tl0)
    (hP : localTruncs (C18L.permutedPair m0 pc pf pfinv σc σf).toDump = .ok tlP)
    (hd0 : scaleRows m0.nf (truncRaw m0.toDump tl0) (truncWeights m0.toDump tl0) = some td0)
    (hdP : scaleRows m0.nf (truncRaw (C18L.permutedPair m0 pc pf pfinv σc σf).toDump tlP)
      (truncWeights (C18L.permutedPair m0 pc pf pfinv σc σf).toDump tlP) = some tdP)
    {r s : Nat} (hr : r < m0.nc) (hs : s < m0.nf) (hr' : σc r < m0.nc) (hs' : σf s < m0.nf) :
    FeatModel.GT.get tdP (σc r) (σf s) = FeatModel.GT.get td0 r s :=
  C18L.perm_invariance_trunc m0 pc pf pfinv hc hf hok h0 hP hd0 hdP hr hs hr' hs'

/-- **perm_invariance, restriction**: `R' = Π_c R Π_fᵀ`, i.e. `R'(σc s, σf r) = R(s, r)` for the transposes of the
assembled prolongations (the array-level `rest = prol.transpose()` is `C18.restriction_is_transpose`) -/
theorem C18.perm_invariance_restriction (m0 : TwoLevel) (pc pf pfinv : List Nat) {σc σf : Nat → Nat}
    (hc : Function.Injective σc) (hf : Function.Injective σf) (hok : C18L.PermOK m0 pc pf pfinv)
    {locs0 locsP : List (List Nat × List Nat × Mat)} {pd0 pdP : Mat}
    (h0 : localProls m0.toDump = .ok locs0)
    (hP : localProls (C18L.permutedPair m0 pc pf pfinv σc σf).toDump = .ok locsP)
    (hd0 : prolDirect m0.toDump locs0 = some pd0)
    (hdP : prolDirect (C18L.permutedPair m0 pc pf pfinv σc σf).toDump locsP = some pdP)
    {r s : Nat} (hr : r < m0.nf) (hs : s < m0.nc) (hr' : σf r < m0.nf) (hs' : σc s < m0.nc) :
    FeatModel.GT.get (transposeDense m0.nf m0.nc pdP) (σc s) (σf r)
      = FeatModel.GT.get (transposeDense m0.nf m0.nc pd0) s r :=
  C18L.perm_invariance_rest m0 pc pf pfinv hc hf hok h0 hP hd0 hdP hr hs hr' hs'

/-- **`T · P = 1` survives permutation**: for every pair of (independent) mesh permutations the truncation and
prolongation assembled with the two lookups still satisfy `T' · P' = 1` whenever the unpermuted pair does -/
theorem C18.perm_preserves_left_inverse (m0 : TwoLevel) (pc pf pfinv : List Nat) {σc σf : Nat → Nat}
    (hc : Function.Injective σc) (hf : Function.Injective σf) (hok : C18L.PermOK m0 pc pf pfinv)
    (hflt : ∀ k, k < m0.nf → σf k < m0.nf) (hclt : ∀ s, s < m0.nc → σc s < m0.nc)
    {locs0 locsP : List (List Nat × List Nat × Mat)} {pd0 pdP : Mat}
    {tl0 tlP : List (List Nat × List (List Nat × Mat))} {td0 tdP : Mat}
    (h0 : localProls m0.toDump = .ok locs0)
    (hP : localProls (C18L.permutedPair m0 pc pf pfinv σc σf).toDump = .ok locsP)
    (hd0 : prolDirect m0.toDump locs0 = some pd0)
    (hdP : prolDirect (C18L.permutedPair m0 pc pf pfinv σc σf).toDump locsP = some pdP)
    (ht0 : localTruncs m0.toDump = .ok tl0)
    (htP : localTruncs (C18L.permutedPair m0 pc pf pfinv σc σf).toDump = .ok tlP)
    (htd0 : scaleRows m0.nf (truncRaw m0.toDump tl0) (truncWeights m0.toDump tl0) = some td0)
    (htdP : scaleRows m0.nf (truncRaw (C18L.permutedPair m0 pc pf pfinv σc σf).toDump tlP)
      (truncWeights (C18L.permutedPair m0 pc pf pfinv σc σf).toDump tlP) = some tdP)
    (hid : ∀ r s, r < m0.nc → s < m0.nc →
      sumTo m0.nf (fun k => FeatModel.GT.get td0 r k * FeatModel.GT.get pd0 k s) = if r = s then 1 else 0) :
    ∀ r s, r < m0.nc → s < m0.nc →
      sumTo m0.nf (fun k => FeatModel.GT.get tdP (σc r) k * FeatModel.GT.get pdP k (σc s)) = if r = s then 1 else 0 :=
  C18L.perm_TP_identity m0 pc pf pfinv hc hf hok hflt hclt h0 hP hd0 hdP ht0 htP htd0 htdP hid

/-- the permutation hypotheses are satisfiable by a genuinely permuted pair (2 coarse cells, 2 children each, both
meshes permuted) … -/
example : C18L.PermOK (TwoLevel.mk 0 0 2 0 [default, default] [default, default, default, default] [] []) [1, 0] [2, 0, 3, 1] [1, 3, 0, 2] := by
  refine ⟨rfl, rfl, by decide, ?_⟩
  intro c child hc hch
  simp only [List.length_cons, List.length_nil] at hc
  interval_cases c <;> interval_cases child <;> simp [lookup, calcFcell]

/-- … and by the four states with one of the meshes left alone (`[]` = empty permutation) -/
example : C18L.PermOK (TwoLevel.mk 0 0 2 0 [default, default] [default, default, default, default] [] []) [] [] [] := by
  refine ⟨rfl, rfl, by decide, ?_⟩
  intro c child hc hch
  simp only [List.length_cons, List.length_nil] at hc
  interval_cases c <;> interval_cases child <;> simp [lookup, calcFcell]

/-! ### the hypotheses are satisfiable by non-trivial values; the documented limitation of the pivot search -/

/-- a regular 2×2 matrix is inverted (with a pivot swap) -/
example : invertMatrix 2 2 [[2, 1], [1, 3]] = some (5, [[3/5, -1/5], [-1/5, 2/5]], [1, 0]) := by decide +kernel

/-- the pivot search only looks at *diagonal* entries: a regular matrix with a zero diagonal is not inverted
(division by an exactly zero pivot) — harmless for the symmetric positive definite mass matrices of C18 -/
example : invertMatrix 2 2 [[0, 1], [1, 0]] = none := by decide +kernel

/-- a child cell with two fine and one coarse basis function (`φ^c = φ^f_0 + φ^f_1`): the local step returns `E` -/
example : (match localProl 1 { fmap := [0, 1], pts := [{ w := 1/2, f := [1, 0], c := [1] }, { w := 1/2, f := [0, 1], c := [1] }] } with
    | .ok x => x == [[1], [1]] | .error _ => false) = true := by decide +kernel

/-- … and the nestedness hypothesis of `C18.local_prolongation_exact` holds for it with `E = (1, 1)ᵀ` -/
example : ∀ p ∈ ([{ w := 1/2, f := [1, 0], c := [1] }, { w := 1/2, f := [0, 1], c := [1] }] : List Pt), ∀ j, j < 1 →
    p.c.getD j 0 = ∑ m ∈ range 2, (fun _ _ => (1 : Rat)) m j * p.f.getD m 0 := by
  intro p hp j hj
  have : j = 0 := by omega
  subst this
  simp only [List.mem_cons, List.not_mem_nil, or_false] at hp
  rcases hp with rfl | rfl <;> simp [Finset.sum_range_succ]
