import FeatModel.Model.GridTransfer
import FeatModel.Lemmas.C18_inv
import FeatModel.Lemmas.C18_inv2
import FeatModel.Lemmas.C18_prol
import FeatModel.Lemmas.C18_pvec
import FeatModel.Lemmas.C18_csr
import FeatModel.Lemmas.C18_trunc
/-! # C18 — property theorems (statements only; proofs live in Lemmas/C18_*.lean)

All statements are about the functions of `Model/GridTransfer.lean` that the driver `drv_c18` executes in the
correspondence run against the real `Math::invert_matrix`, `GridTransfer::assemble_prolongation(_direct)`,
`prolongate_vector`, `SparseMatrixCSR::transpose` and `LAFEM::Transfer`. No bound on any size. -/
open FeatModel.GT Finset

/-- `Math::invert_matrix` (in-situ Gauss–Jordan, diagonal pivoting): whenever it does not divide by an exactly zero
pivot, the returned matrix is a left inverse of the input, for every `n ≥ 1` -/
theorem C18.invert_matrix_left_inverse {n stride : Nat} {a : Mat} {det : Rat} {b : Mat} {p : List Nat}
    (h : invertMatrix n stride a = some (det, b, p)) (hn : 0 < n) (hs : n ≤ stride) :
    ∀ i c, i < n → c < n →
      sumTo n (fun j => FeatModel.GT.get b i j * FeatModel.GT.get a j c) = if i = c then 1 else 0 :=
  C18L.invert_left_inverse h hn hs

/-- … and a right inverse: `A · A⁻¹ = 1` -/
theorem C18.invert_matrix_right_inverse {n stride : Nat} {a : Mat} {det : Rat} {b : Mat} {p : List Nat}
    (h : invertMatrix n stride a = some (det, b, p)) (hn : 0 < n) (hs : n ≤ stride) :
    ∀ i c, i < n → c < n →
      sumTo n (fun j => FeatModel.GT.get a i j * FeatModel.GT.get b j c) = if i = c then 1 else 0 :=
  C18L.invert_right_inverse h hn hs

/-- nested spaces: if at every cubature point the coarse basis functions are the `E`-combinations of the fine ones,
the inter-level mass matrix is `N = M E` — for *any* cubature rule (no exactness needed) -/
theorem C18.nested_mass {nfl ncl : Nat} (pts : List Pt) (E : Nat → Nat → Rat)
    (hnest : ∀ p ∈ pts, ∀ j, j < ncl → p.c.getD j 0 = ∑ m ∈ range nfl, E m j * p.f.getD m 0) :
    ∀ i j, i < nfl → j < ncl →
      FeatModel.GT.get (massFC nfl ncl pts) i j
        = ∑ m ∈ range nfl, FeatModel.GT.get (massF nfl pts) i m * E m j :=
  C18L.nested_mass pts E hnest

/-- the local step `X = M⁻¹ N` of one child cell returns the embedding matrix `E` itself -/
theorem C18.local_prolongation_exact {ncl : Nat} {ch : Child} {x : Mat} (E : Nat → Nat → Rat)
    (h : localProl ncl ch = .ok x)
    (hnest : ∀ p ∈ ch.pts, ∀ j, j < ncl → p.c.getD j 0 = ∑ m ∈ range ch.fmap.length, E m j * p.f.getD m 0) :
    ∀ i j, i < ch.fmap.length → j < ncl → FeatModel.GT.get x i j = E i j :=
  C18L.localProl_exact E h hnest

/-- weighted scatter: if every local matrix maps the coarse coefficients to the fine coefficients of the same
function, so does the assembled, weight-normalised matrix (shared fine dofs are averaged over equal values) -/
theorem C18.weighted_scatter_exact (d : Dump) (locs : List (List Nat × List Nat × Mat)) (pd : Mat) (xc : List Rat)
    (vf : Nat → Rat) (h : prolDirect d locs = some pd)
    (hmap : ∀ loc ∈ locs, ∀ j, j < loc.1.length → loc.1.getD j 0 < d.nc)
    (hloc : ∀ loc ∈ locs, ∀ i, i < loc.2.1.length →
      vf (loc.2.1.getD i 0) = ∑ j ∈ range loc.1.length, FeatModel.GT.get loc.2.2 i j * xc.getD (loc.1.getD j 0) 0) :
    ∀ r, r < d.nf → (matVec d.nf d.nc pd xc).getD r 0 = vf r :=
  C18L.prolDirect_exact d locs pd xc vf h hmap hloc

/-- **prolongation is exact on the coarse space** (algebraic form): for nested spaces with local embedding matrices
`E cell child`, and coefficient vectors `xc`, `vf` of the same function (`vf = E · xc` on every child cell), the matrix
assembled by `assemble_prolongation_direct` satisfies `P · xc = vf` — for all meshes / dof-mappings / rules for which
the local inversions succeed -/
theorem C18.prolongation_exact (d : Dump) (locs : List (List Nat × List Nat × Mat)) (pd : Mat) (xc : List Rat)
    (vf : Nat → Rat) (E : Cell → Child → Nat → Nat → Rat)
    (hlocs : localProls d = .ok locs) (hpd : prolDirect d locs = some pd)
    (hmap : ∀ cell ∈ d.cells, ∀ j, j < cell.cmap.length → cell.cmap.getD j 0 < d.nc)
    (hnest : ∀ cell ∈ d.cells, ∀ ch ∈ cell.children, ∀ p ∈ ch.pts, ∀ j, j < cell.cmap.length →
      p.c.getD j 0 = ∑ m ∈ range ch.fmap.length, E cell ch m j * p.f.getD m 0)
    (hsame : ∀ cell ∈ d.cells, ∀ ch ∈ cell.children, ∀ i, i < ch.fmap.length →
      vf (ch.fmap.getD i 0) = ∑ j ∈ range cell.cmap.length, E cell ch i j * xc.getD (cell.cmap.getD j 0) 0) :
    ∀ r, r < d.nf → (matVec d.nf d.nc pd xc).getD r 0 = vf r :=
  C18L.prolongation_exact d locs pd xc vf E hlocs hpd hmap hnest hsame

/-- **truncation is a left inverse of prolongation on the coarse space** (vector form): if `vf` holds the fine
coefficients of the coarse function with coefficients `xc` (`vf = E · xc` on every child cell) and the refined rule
integrates the coarse mass matrix like the unrefined rule (`Σ_children Nᵀ E = M_c`; true for nested spaces when the rule
is exact for the products), then `T · vf = xc` for the matrix `T` of `assemble_truncation_direct` -/
theorem C18.truncation_left_inverse (d : Dump) (tl : List (List Nat × List (List Nat × Mat))) (td : Mat)
    (vf : List Rat) (xc : Nat → Rat) (E : Cell → Child → Nat → Nat → Rat)
    (htl : localTruncs d = .ok tl)
    (htd : scaleRows d.nf (truncRaw d tl) (truncWeights d tl) = some td)
    (hfmap : ∀ cell ∈ d.cells, ∀ ch ∈ cell.children, ∀ k, k < ch.fmap.length → ch.fmap.getD k 0 < d.nf)
    (hsame : ∀ cell ∈ d.cells, ∀ ch ∈ cell.children, ∀ k, k < ch.fmap.length →
      vf.getD (ch.fmap.getD k 0) 0 = ∑ j ∈ range cell.cmap.length, E cell ch k j * xc (cell.cmap.getD j 0))
    (hint : ∀ cell ∈ d.cells, ∀ l j, l < cell.cmap.length → j < cell.cmap.length →
      (cell.children.map fun ch => ∑ k ∈ range ch.fmap.length,
        FeatModel.GT.get (massCF cell.cmap.length ch.fmap.length ch.pts) l k * E cell ch k j).sum
        = FeatModel.GT.get (massC cell.cmap.length cell.cpts) l j) :
    ∀ r, r < d.nc → (matVec d.nc d.nf td vf).getD r 0 = xc r :=
  C18L.truncation_exact d tl td vf xc E htl htd hfmap hsame hint

/-- the restriction the driver prints is the exact transpose of the prolongation -/
theorem C18.restriction_is_transpose {nf nc : Nat} (pd : Mat) {i j : Nat} (hi : i < nc) (hj : j < nf) :
    FeatModel.GT.get (transposeDense nf nc pd) i j = FeatModel.GT.get pd j i :=
  C18L.get_transposeDense pd hi hj

/-- **matrix-free = matrix**: `prolongate_vector_direct` returns `P · xc` for the matrix `P` of
`assemble_prolongation_direct` (same local matrices, same weights) -/
theorem C18.matrix_free_agrees (d : Dump) (locs : List (List Nat × List Nat × Mat)) (pd : Mat) (xc vd : List Rat)
    (hpd : prolDirect d locs = some pd)
    (hvd : scaleVec (pvecRaw d locs xc) (prolWeights d locs) = some vd)
    (hmap : ∀ loc ∈ locs, ∀ j, j < loc.1.length → loc.1.getD j 0 < d.nc) :
    ∀ r, r < d.nf → vd.getD r 0 = (matVec d.nf d.nc pd xc).getD r 0 :=
  C18L.matrix_free_agrees d locs pd xc vd hpd hvd hmap

/-- `LAFEM::Transfer::prol/rest/trunc` are the products with the stored matrices, and a CSR product is the product
with the dense meaning of the matrix (duplicates add) -/
theorem C18.transfer_is_matrix_product (t : Transfer) (x y : List Rat) :
    t.applyProl x = t.prol.apply x ∧ t.applyRest y = t.rest.apply y ∧ t.applyTrunc y = t.trunc.apply y ∧
    ∀ (m : Csr) (v : List Rat) (i : Nat), i < m.rows → (∀ e ∈ m.row i, e.1 < m.cols) →
      (m.apply v).getD i 0 = ∑ j ∈ range m.cols, m.dense i j * v.getD j 0 :=
  ⟨rfl, rfl, rfl, fun m v _ hi hc => C18L.csr_apply_dense m v hi hc⟩

/-- full statement for the CSR counting-sort transposition used for `rest = prol.transpose()`; NOT proved here
(it is property C02's theorem); the correspondence run compares the model's CSR arrays with the real ones and the
oracle checks `R = Pᵀ` on every case. -/
def C18.CsrTransposeStatement : Prop :=
  ∀ (m : Csr), m.rowPtr.length = m.rows + 1 → (∀ i, i < m.rows → ∀ e ∈ m.row i, e.1 < m.cols) →
    ∀ i l, i < m.rows → l < m.cols → m.transpose.dense l i = m.dense i l

/-- proved part: the transposed matrix has the swapped dimensions and the restriction printed for the `fe` cases
(dense transposition) is the exact transpose; the array-level statement above is left to C02 -/
theorem C18.csr_transpose_partial (m : Csr) : m.transpose.rows = m.cols ∧ m.transpose.cols = m.rows :=
  ⟨rfl, rfl⟩

/-! ### the hypotheses are satisfiable by non-trivial values; the documented limitation of the pivot search -/

/-- a regular 2×2 matrix is inverted (with a pivot swap) -/
example : invertMatrix 2 2 [[2, 1], [1, 3]] = some (5, [[3/5, -1/5], [-1/5, 2/5]], [1, 0]) := by decide +kernel

/-- the pivot search only looks at *diagonal* entries: a regular matrix with a zero diagonal is not inverted
(division by an exactly zero pivot) — harmless for the symmetric positive definite mass matrices of C18 -/
example : invertMatrix 2 2 [[0, 1], [1, 0]] = none := by decide +kernel

/-- a child cell with two fine and one coarse basis function (`φ^c = φ^f_0 + φ^f_1`): the local step returns `E` -/
example : (match localProl 1 { fmap := [0, 1], pts := [{ w := 1/2, f := [1, 0], c := [1] }, { w := 1/2, f := [0, 1], c := [1] }] } with
    | .ok x => x == [[1], [1]] | .error _ => false) = true := by decide +kernel

/-- … and the nestedness hypothesis of `C18.local_prolongation_exact` holds for it with `E = (1, 1)ᵀ` -/
example : ∀ p ∈ ([{ w := 1/2, f := [1, 0], c := [1] }, { w := 1/2, f := [0, 1], c := [1] }] : List Pt), ∀ j, j < 1 →
    p.c.getD j 0 = ∑ m ∈ range 2, (fun _ _ => (1 : Rat)) m j * p.f.getD m 0 := by
  intro p hp j hj
  have : j = 0 := by omega
  subst this
  simp only [List.mem_cons, List.not_mem_nil, or_false] at hp
  rcases hp with rfl | rfl <;> simp [Finset.sum_range_succ]
