import FeatModel.Lemmas.C20Back
/-! # C20 — container lifetimes are memory-safe: arrays freed exactly once, no leaks

Theorems about `FeatModel.Pool.step` / `run` / `finalize`, the functions the driver `drv_c20` executes against the
real FEAT containers.  `Inv s` = every stored counter is positive and, for every chunk id, the counter equals the
number of owner references (arrays of non-view containers and of layout objects, with multiplicity; 0 = the
chunk is not in the pool).

`Aligned s` = every pointer a container or layout OWNS is null (zero-sized array) or the base address of a chunk.
Both invariants hold in every reachable state, for all 16 operations (no guard).  `FreshL n l` = every pointer of
`l` is null or the base address of a chunk id `≥ n`, i.e. of a chunk that did not exist in a pool of length `n`.

What is *not* proved here (observed by the correspondence run only, or outside the model):
* heap behaviour of `malloc/free` and of numerical kernels (runtime clause: ASan/UBSan streams); chunk identity is up
  to renaming (malloc addresses are not modelled);
* a range view used after the last owner of the viewed array died (excluded by the generator's guard; the theorems
  about views assume the owner survives);
* PowerVector, TupleMatrix, tuples of other component kinds and cross-type tuple convert are not in the op alphabet
  (TupleVector<DenseVector, DenseVector> is, as the `run` of its component operations);
* SparseVector element insertion with reallocation (`operator()(i, v)` growth path) is not modelled;
* `read_from` / deserialisation as content-replacing operations are not in the alphabet. -/
open FeatModel.Pool

/-- the empty runtime state satisfies the invariant -/
theorem C20.inv_init : Inv State.init := FeatModel.Pool.inv_init

/-- every lifetime operation (construct, adopt, range, clone in all five modes incl. cross-type, convert,
    dense<->blocked convert, move construction/assignment/self-move, clear, destroy, format, write, layout
    take/make/assign/drop) preserves the invariant -/
theorem C20.inv_step (s s' : State) (op : Op) (hi : Inv s) (h : step s op = .ok s') :
    Inv s' := FeatModel.Pool.inv_step hi h

/-- the invariant holds after every finite history, in every order of destruction -/
theorem C20.inv_reachable (ops : List Op) (s : State)
    (h : run State.init ops = .ok s) : Inv s := FeatModel.Pool.inv_run FeatModel.Pool.inv_init h

/-- no leak: once all containers and layouts are gone the pool is empty and `MemoryPool::finalize` succeeds -/
theorem C20.no_leak (ops : List Op) (s : State) (h : run State.init ops = .ok s)
    (h1 : ∀ x ∈ s.slots, x = none) (h2 : ∀ x ∈ s.lays, x = none) :
    liveChunks s.pool = 0 ∧ finalize s = .ok () := by
  have h0 := pool_empty_of_no_owner (FeatModel.Pool.inv_run FeatModel.Pool.inv_init h) h1 h2
  exact ⟨h0, by unfold finalize; simp [h0]⟩

/-- an array stays valid as long as some owning container refers to it -/
theorem C20.valid_while_owner_lives (ops : List Op) (s : State)
    (h : run State.init ops = .ok s) (a : Nat) (c : Cont) (hs : s.slot a = some c) (hf : c.foreign = false)
    (id off : Nat) (hq : Ptr.at id off ∈ c.elems ++ c.inds) :
    ∃ ch, get s.pool id = some ch ∧ 1 ≤ ch.count := by
  have hi := FeatModel.Pool.inv_run FeatModel.Pool.inv_init h
  obtain ⟨ch, hch⟩ := owned_present hi (mem_ownIds hs hf hq)
  exact ⟨ch, hch, hi.1 id ch hch⟩

/-- (I2 with addresses) in every reachable state every owner pointer is null or a base address -/
theorem C20.aligned_reachable (ops : List Op) (s : State) (h : run State.init ops = .ok s) : Aligned s :=
  aligned_run aligned_init h

/-- every owner pointer of a reachable state can be released: it is null, or the base address of a chunk that is
    registered in the pool (no "address not found", no double free) -/
theorem C20.release_of_owned_succeeds (ops : List Op) (s : State) (h : run State.init ops = .ok s)
    (a : Nat) (c : Cont) (hs : s.slot a = some c) (q : Ptr) (hq : q ∈ c.owned) :
    ∃ p', release s.pool q = .ok p' := by
  have hi := FeatModel.Pool.inv_run FeatModel.Pool.inv_init h
  have hal := aligned_run aligned_init h
  rcases slot_aligned hal hs q hq with h0 | ⟨id, h0⟩
  · subst h0; exact ⟨s.pool, rfl⟩
  · subst h0
    have hf : c.foreign = false := by
      cases hfc : c.foreign with
      | false => rfl
      | true => unfold Cont.owned at hq; simp [hfc] at hq
    have hm : Ptr.at id 0 ∈ c.elems ++ c.inds := by unfold Cont.owned at hq; simpa [hf] using hq
    obtain ⟨ch, hch⟩ := owned_present hi (mem_ownIds hs hf hm)
    cases hr : release s.pool (.at id 0) with
    | ok p' => exact ⟨p', rfl⟩
    | error e =>
      have := (release_error_iff s.pool id).mp ⟨e, hr⟩
      rw [hch] at this; cases this

/-- destroying / clearing any live container and dropping any live layout of a reachable state never aborts: all
    their arrays (with multiplicity) are released successfully -/
theorem C20.destroy_clear_drop_never_abort (ops : List Op) (s : State) (h : run State.init ops = .ok s) :
    (∀ a c, s.slot a = some c → (∃ s', step s (.destroy a) = .ok s') ∧ (∃ s', step s (.clear a) = .ok s')) ∧
    (∀ l L, s.lay l = some L → ∃ s', step s (.ldrop l) = .ok s') := by
  have hi := FeatModel.Pool.inv_run FeatModel.Pool.inv_init h
  have hal := aligned_run aligned_init h
  exact ⟨fun a c hs => ⟨destroy_ok hi hal hs, clear_ok hi hal hs⟩, fun l L hs => ldrop_ok hi hal hs⟩

/-- a release of an address that is not (any more) in the pool is reported by an abort, never silent -/
theorem C20.double_free_reported (p : Pool) (id : Nat) :
    (∃ e, release p (.at id 0) = .error e) ↔ get p id = none := release_error_iff p id

/-- a chunk leaves the pool exactly at the release of its last reference: the last release erases it, an earlier
    one only decrements (bytes and contents untouched), releases of other chunks do not touch it -/
theorem C20.freed_exactly_at_last_release (p p' : Pool) (q : Ptr) (id : Nat) (h : release p q = .ok p') :
    (q = .at id 0 → count p id = 1 → get p' id = none) ∧
    (q = .at id 0 → 2 ≤ count p id →
      ∃ c c', get p id = some c ∧ get p' id = some c' ∧ c'.count = c.count - 1 ∧ c'.bytes = c.bytes ∧ c'.vals = c.vals) ∧
    ((∀ off, q ≠ .at id off) → get p' id = get p id) := by
  refine ⟨?_, ?_, ?_⟩
  · intro hq h1; subst hq; exact release_last h h1
  · intro hq h2; subst hq; exact release_shared h h2
  · intro hne; exact release_other h hne

/-- independence: a write through a pointer into one chunk never changes what is read through a pointer into a
    different chunk; so containers see each other's writes only when they share an array -/
theorem C20.write_independent (p : Pool) (id off id' off' n : Nat) (vs : List Int) (h : id ≠ id') :
    readArr (writeArr p (.at id off) vs) (.at id' off') n = readArr p (.at id' off') n :=
  write_other_chunk p id off id' off' n vs h

/-- position-wise visibility of a write: after writing `v` at element `K` of chunk `id`, element `k` of the array
    seen through `(id', off', n')` is `v` iff it is the very same address (same chunk and `off' + k = K`); every
    other element of every array is unchanged -/
theorem C20.write_visible_iff_shared (p : Pool) (id K id' off' n' k : Nat) (v : Int) (c : Chunk)
    (hg : get p id = some c) (hK : K < c.vals.length) :
    (readArr (writeArr p (.at id K) [v]) (.at id' off') n')[k]? =
      if id = id' ∧ off' + k = K ∧ k < n' then some v else (readArr p (.at id' off') n')[k]? :=
  read_after_write p id K id' off' n' k v c hg hK

/-- sharing table, clone (same-type AND cross-type, every mode), at the level of `step`: an index array of the
    clone is the source's iff the mode is Shallow/Layout/Weak and the index types agree, a data array iff the mode is
    Shallow and the data types agree; every other array is a fresh chunk; the source slot is untouched -/
theorem C20.sharing_after_clone (s s' : State) (a b mode : Nat) (fill : Int) (cb : Cont)
    (h : step s (.clone a b mode fill) = .ok s') (hb : s.slot b = some cb) :
    ∃ c', s'.slot a = some c' ∧ (a ≠ b → s'.slot b = some cb) ∧ c'.foreign = false ∧
      (if mode = 3 ∨ mode = 4 then FreshL s.pool.length c'.inds
       else if c'.it = cb.it then c'.inds = cb.inds else FreshL s.pool.length c'.inds) ∧
      (if mode = 0 then (if c'.dt = cb.dt then c'.elems = cb.elems else FreshL s.pool.length c'.elems)
       else FreshL s.pool.length c'.elems) := step_clone_table h hb

/-- sharing table, convert between two distinct containers (same or other type): exactly the arrays whose element
    type agrees are shared (DT equal / IT different shares the data arrays only, and vice versa) -/
theorem C20.sharing_after_convert (s s' : State) (a b dt it : Nat) (cb : Cont)
    (h : step s (.conv a b dt it) = .ok s') (hb : s.slot b = some cb) (hab : a ≠ b) (hk : cb.kind < 7) :
    ∃ c', s'.slot a = some c' ∧ s'.slot b = some cb ∧ c'.foreign = false ∧
      (if c'.dt = cb.dt then c'.elems = cb.elems else FreshL s.pool.length c'.elems) ∧
      (if c'.it = cb.it then c'.inds = cb.inds else FreshL s.pool.length c'.inds) := step_conv_table h hb hab hk

/-- sharing table, convert of SparseVector / SparseVectorBlocked (kinds 7, 8): a deep copy, nothing is shared -/
theorem C20.sharing_after_convert_sparse_vector (s s' : State) (a b dt it : Nat) (cb : Cont)
    (h : step s (.conv a b dt it) = .ok s') (hb : s.slot b = some cb) (hk : 7 ≤ cb.kind) :
    ∃ c', s'.slot a = some c' ∧ c'.foreign = false ∧ FreshL s.pool.length c'.elems ∧
      FreshL s.pool.length c'.inds := step_conv_sv_table h hb hk

/-- `x.convert(x)` is a no-op (every kind that converts through `Container::assign`) -/
theorem C20.self_convert_noop (s s' : State) (a dt it : Nat) (c : Cont) (h : step s (.conv a a dt it) = .ok s')
    (hs : s.slot a = some c) (hk : c.kind < 7) : s'.slot a = some c ∧ s'.pool = s.pool := step_conv_self h hs hk

/-- sharing table, layouts: `L = m.layout()` holds exactly `m`'s index arrays; `M(L)` / `m = L` shares exactly the
    layout's index arrays and gets a fresh data array -/
theorem C20.sharing_after_layout (s s' : State) :
    (∀ l a ca, step s (.lay l a) = .ok s' → s.slot a = some ca →
      ∃ L, s'.lay l = some L ∧ L.inds = ca.inds ∧ L.sidx = ca.sidx ∧ s'.slot a = some ca) ∧
    (∀ a l kind dt fill L, step s (.mlay a l kind dt fill) = .ok s' → s.lay l = some L →
      ∃ c', s'.slot a = some c' ∧ c'.foreign = false ∧ c'.inds = L.inds ∧ FreshL s.pool.length c'.elems ∧
        s'.lay l = some L) :=
  ⟨fun _ _ _ h hs => step_lay_table h hs, fun _ _ _ _ _ _ h hl => step_mlay_table h hl⟩

/-- sharing table, adopt-data constructor: the new vector's only array is the source's data array -/
theorem C20.sharing_after_adopt (s s' : State) (a b : Nat) (cb : Cont)
    (h : step s (.adopt a b) = .ok s') (hb : s.slot b = some cb) (hn : cb.size ≠ 0) :
    ∃ c', s'.slot a = some c' ∧ c'.foreign = false ∧ c'.elems = [elemPtr0 cb] ∧ c'.inds = [] ∧
      (a ≠ b → s'.slot b = some cb) := step_adopt_table h hb hn

/-- a fresh array aliases nothing that was owned before the operation: its chunk id did not exist -/
theorem C20.fresh_aliases_nothing_owned (s : State) (hi : Inv s) (l : List Ptr) (hf : FreshL s.pool.length l)
    (j off : Nat) (hj : j ∈ s.ownIds) : Ptr.at j off ∉ l := fresh_not_owned hi hf hj

/-- move assignment between a range view and an owner, both directions (and any other pair): the target releases
    what it owned, takes the source's arrays AND view flag, the source owns nothing afterwards.  So
    `owner = move(view)` turns the owner into a view (its arrays are released), and `view = move(owner)` turns the
    view into the owner without touching the pool -/
theorem C20.move_between_view_and_owner (s s' : State) (a b : Nat) (ca cb : Cont)
    (h : step s (.move a b) = .ok s') (hsa : s.slot a = some ca) (hsb : s.slot b = some cb) (hab : a ≠ b) :
    ∃ c1, s'.slot a = some c1 ∧ s'.slot b = some cb.movedFrom ∧
      c1.elems = cb.elems ∧ c1.inds = cb.inds ∧ c1.foreign = cb.foreign ∧
      ca.releaseOwn s.pool = .ok s'.pool ∧ (ca.foreign = true → s'.pool = s.pool) := by
  obtain ⟨c1, h1, h2, h3, h4, h5, _, h7⟩ := step_move_table h hsa hsb hab
  refine ⟨c1, h1, h2, h3, h4, h5, h7, fun hf => ?_⟩
  rw [releaseOwn_view s.pool ca hf] at h7
  injection h7 with h7; exact h7.symm

/-- frame: an operation leaves every container slot it does not name untouched, hence also the sharing relation
    (`Shares s c d` = the containers in slots `c`, `d` refer to a common chunk) between any two such slots -/
theorem C20.bystanders_untouched (s s' : State) (op : Op) (h : step s op = .ok s') :
    (∀ c, c ∉ op.targets → s'.slot c = s.slot c) ∧
    (∀ c d, c ∉ op.targets → d ∉ op.targets → (Shares s' c d ↔ Shares s c d)) :=
  ⟨fun c hc => step_frame h c hc, fun _ _ hc hd => shares_frame h hc hd⟩

/-- sharing relatives arise only by inheritance along the operation history: a new relation between the target `a`
    of clone / convert / adopt / layout-construction and an owning bystander `c` exists only if the SOURCE already was
    a relative of `c` (for clone additionally only in the modes Shallow, Layout, Weak; for a matrix made from a layout
    only through the layout's index arrays) -/
theorem C20.relatives_only_inherited (s s' : State) (hi : Inv s) (a c : Nat) (cc : Cont) (hca : c ≠ a)
    (hsc : s.slot c = some cc) (hf : cc.foreign = false) (hsh : Shares s' a c) :
    (∀ b mode fill cb, step s (.clone a b mode fill) = .ok s' → s.slot b = some cb →
        Shares s b c ∧ mode ≠ 3 ∧ mode ≠ 4) ∧
    (∀ b dt it cb, step s (.conv a b dt it) = .ok s' → s.slot b = some cb → a ≠ b → cb.kind < 7 → Shares s b c) ∧
    (∀ b cb, step s (.adopt a b) = .ok s' → s.slot b = some cb → cb.size ≠ 0 → Shares s b c) ∧
    (∀ l kind dt fill L, step s (.mlay a l kind dt fill) = .ok s' → s.lay l = some L →
        ∃ j, j ∈ idsOf L.inds ∧ j ∈ cc.ids) :=
  ⟨fun _ _ _ _ h hb => clone_relatives hi h hb hca hsc hf hsh,
   fun _ _ _ _ h hb hab hk => conv_relatives hi h hb hab hk hca hsc hf hsh,
   fun _ _ h hb hn => adopt_relatives h hb hn hca hsc hsh,
   fun _ _ _ _ _ h hl => mlay_relatives hi h hl hca hsc hf hsh⟩

/-- observable independence: a write or a format through container `a` changes neither the slot nor the observable
    contents (what is read through every array) of any container that is not a sharing relative of `a` -/
theorem C20.write_invisible_outside_relatives (s s' : State) (a c : Nat) (cc : Cont)
    (hsc : s.slot c = some cc) (hn : ¬ Shares s a c) :
    (∀ w j i v, step s (.write a w j i v) = .ok s' → s'.slot c = some cc ∧ cc.obs s'.pool = cc.obs s.pool) ∧
    (∀ v, step s (.format a v) = .ok s' → s'.slot c = some cc ∧ cc.obs s'.pool = cc.obs s.pool) :=
  ⟨fun _ _ _ _ h => write_invisible h hsc hn, fun _ h => format_invisible h hsc hn⟩

/-- classification of the operations that replace the contents of an existing container: `write`, `format` and
    `copy` (`Op.writes`) write IN PLACE; every other operation - clone-into in all five modes (same and cross type),
    convert-into, move assignment, layout assignment, clear, destroy, ... - REBINDS (releases, then takes new or shared
    arrays) and never changes the contents of any chunk that survives it -/
theorem C20.rebinding_ops_keep_chunk_contents (s s' : State) (op : Op) (h : step s op = .ok s')
    (hw : op.writes = false) :
    s.pool.length ≤ s'.pool.length ∧
    ∀ id, id < s.pool.length → ∀ c', get s'.pool id = some c' → ∃ c, get s.pool id = some c ∧ c.vals = c'.vals :=
  step_back h hw

/-- lifetime operations never change the contents of bystanders, SHARING RELATIVES INCLUDED: after any non-writing
    operation (e.g. `y.clone(x, mode)` into a non-empty `y` that shares its arrays with `c`, `y.convert(x)`,
    `y = move(x)`, `y.clear()`, `~y`) every owning container in a slot the operation does not name keeps its slot and
    reads exactly the same values through every one of its arrays (the reference counts keep the arrays alive) -/
theorem C20.lifetime_ops_never_change_bystanders (s s' : State) (op : Op) (hi : Inv s) (h : step s op = .ok s')
    (hw : op.writes = false) (c : Nat) (cc : Cont) (hc : c ∉ op.targets) (hsc : s.slot c = some cc)
    (hf : cc.foreign = false) : s'.slot c = some cc ∧ cc.obs s'.pool = cc.obs s.pool :=
  bystander_contents hi h hw hc hsc hf

/-- the same for a RANGE VIEW (or any container) as bystander: as long as every chunk it points into has an owner
    before and after the operation - the view's owner survives - it reads exactly the same values afterwards -/
theorem C20.lifetime_ops_never_change_views_whose_owner_survives (s s' : State) (op : Op) (hi : Inv s)
    (h : step s op = .ok s') (hw : op.writes = false) (c : Nat) (cc : Cont) (hc : c ∉ op.targets)
    (hsc : s.slot c = some cc)
    (hlive : ∀ id off, Ptr.at id off ∈ cc.ptrs → id ∈ s.ownIds ∧ id ∈ s'.ownIds) :
    s'.slot c = some cc ∧ cc.obs s'.pool = cc.obs s.pool :=
  bystander_contents_view hi h hw hc hsc hlive

/-- `a.copy(b, full)` legitimately writes in place: the target keeps exactly its arrays and view flag, no counter
    changes, and the new values are invisible to every container that is not a sharing relative of the target -/
theorem C20.copy_writes_in_place (s s' : State) (a b full : Nat) (ca : Cont) (h : step s (.copy a b full) = .ok s')
    (hsa : s.slot a = some ca) :
    (∃ ca', s'.slot a = some ca' ∧ ca'.elems = ca.elems ∧ ca'.inds = ca.inds ∧ ca'.foreign = ca.foreign) ∧
    (∀ j, count s'.pool j = count s.pool j) ∧
    (∀ c cc, c ≠ a → s.slot c = some cc → ¬ Shares s a c → s'.slot c = some cc ∧ cc.obs s'.pool = cc.obs s.pool) :=
  copy_in_place h hsa

/-- meta-containers: an operation of a `TupleVector` is executed by the driver as the `run` of its component
    operations (the correspondence checks the real `TupleVector<DenseVector, DenseVector>` against exactly that);
    such a composite step preserves both invariants, whatever the component operations are -/
theorem C20.composite_ops_preserve_invariants (s s' : State) (ops : List Op) (hi : Inv s) (hal : Aligned s)
    (h : run s ops = .ok s') : Inv s' ∧ Aligned s' :=
  ⟨FeatModel.Pool.inv_run hi h, aligned_run hal h⟩

/-- special members of `SparseLayout`: move construction (`SparseLayout l2(std::move(l1))`, free target slot) and move
    assignment (`l2 = std::move(l1)`) transfer the index-array pointers WITHOUT any counter change: the target holds
    exactly the source's arrays, the source holds nothing afterwards (so the arrays are released exactly once, by the
    target), and the only pool change is the release of what the target held before - none for a move construction.
    Together with `inv_step` (which covers `lmove` and the std::vector / by-value-member round trip `lvec`): the
    refcount invariant holds with two layout objects around, one reference per holder -/
theorem C20.layout_move_transfers_ownership (s s' : State) (d src : Nat) (Ls : Layout)
    (h : step s (.lmove d src) = .ok s') (hLs : s.lay src = some Ls) (hne : d ≠ src) :
    s'.lay d = some Ls ∧ s'.lay src = some Ls.movedFrom ∧
    releaseAll s.pool (layoutInds (s.lay d)) = .ok s'.pool ∧ (s.lay d = none → s'.pool = s.pool) :=
  step_lmove_table h hLs hne

/-- the invariants do not depend on the number of slots: they hold in every state reachable from the empty runtime
    with ANY number of container and layout slots (the boundary-size stream runs with 300 container slots) -/
theorem C20.inv_reachable_any_slot_count (n m : Nat) (ops : List Op) (s : State)
    (h : run (State.initN n m) ops = .ok s) : Inv s ∧ Aligned s :=
  ⟨FeatModel.Pool.inv_run (inv_initN n m) h, aligned_run (aligned_initN n m) h⟩

/-- the history that leaked two chunks before /repo commit eef945341 (one layout object assigned twice, everything
    destroyed; former finding F-C20-1) now ends with an empty pool and a clean `finalize` -/
example :
    ∃ s, run State.init [.mat 0 2 0 0 2 2 1 1 0, .mat 1 2 0 0 2 2 1 1 0, .lay 0 0, .lay 0 1, .ldrop 0,
                         .destroy 0, .destroy 1] = .ok s ∧
      (∀ x ∈ s.slots, x = none) ∧ (∀ x ∈ s.lays, x = none) ∧ liveChunks s.pool = 0 ∧
      finalize s = .ok () := by
  refine ⟨_, rfl, ?_, ?_, ?_, ?_⟩
  · decide
  · decide
  · decide
  · rfl

/-- the hypotheses of `no_leak` are satisfiable by a non-trivial history: shallow clone, layout sharing, a range
    view, destruction out of allocation order -/
example : ∃ s, run State.init [.new 0 0 0 0 5 10, .clone 1 0 0 0, .range 2 0 2 1, .mat 3 2 0 0 2 3 2 1 0, .lay 0 3,
                               .mlay 4 0 3 1 5, .destroy 2, .destroy 0, .destroy 3, .ldrop 0, .destroy 1,
                               .destroy 4] = .ok s ∧
    (∀ x ∈ s.slots, x = none) ∧ (∀ x ∈ s.lays, x = none) := by
  refine ⟨_, rfl, ?_, ?_⟩ <;> decide
