import FeatModel.Lemmas.C20Main
/-! # C20 — container lifetimes are memory-safe: arrays freed exactly once, no leaks

Theorems about `FeatModel.Pool.step` / `run` / `finalize`, the functions the driver `drv_c20` executes against the
real FEAT containers.  `Inv s` = every stored counter is positive and, for every chunk id, the counter equals the
number of owner references (arrays of non-view containers and of layout objects, with multiplicity; 0 = the
chunk is not in the pool).

What is *not* proved here and only observed by the correspondence run: heap behaviour of `malloc/free` and of
kernels (ASan/UBSan stream); that owner pointers are base addresses is used in `release_of_owned_succeeds_partial`.
All operations of the model preserve the invariant (since /repo commit eef945341 this includes move-assigning onto a
`SparseLayout` object that still holds arrays, formerly finding F-C20-1). -/
open FeatModel.Pool

/-- the empty runtime state satisfies the invariant -/
theorem C20.inv_init : Inv State.init := FeatModel.Pool.inv_init

/-- every lifetime operation (construct, adopt, range, clone in all five modes incl. cross-type, convert,
    dense<->blocked convert, move construction/assignment/self-move, clear, destroy, format, write, layout
    take/make/assign/drop) preserves the invariant -/
theorem C20.inv_step (s s' : State) (op : Op) (hi : Inv s) (h : step s op = .ok s') :
    Inv s' := FeatModel.Pool.inv_step hi h

/-- the invariant holds after every finite history, in every order of destruction -/
theorem C20.inv_reachable (ops : List Op) (s : State)
    (h : run State.init ops = .ok s) : Inv s := FeatModel.Pool.inv_run FeatModel.Pool.inv_init h

/-- no leak: once all containers and layouts are gone the pool is empty and `MemoryPool::finalize` succeeds -/
theorem C20.no_leak (ops : List Op) (s : State) (h : run State.init ops = .ok s)
    (h1 : ∀ x ∈ s.slots, x = none) (h2 : ∀ x ∈ s.lays, x = none) :
    liveChunks s.pool = 0 ∧ finalize s = .ok () := by
  have h0 := pool_empty_of_no_owner (FeatModel.Pool.inv_run FeatModel.Pool.inv_init h) h1 h2
  exact ⟨h0, by unfold finalize; simp [h0]⟩

/-- an array stays valid as long as some owning container refers to it -/
theorem C20.valid_while_owner_lives (ops : List Op) (s : State)
    (h : run State.init ops = .ok s) (a : Nat) (c : Cont) (hs : s.slot a = some c) (hf : c.foreign = false)
    (id off : Nat) (hq : Ptr.at id off ∈ c.elems ++ c.inds) :
    ∃ ch, get s.pool id = some ch ∧ 1 ≤ ch.count := by
  have hi := FeatModel.Pool.inv_run FeatModel.Pool.inv_init h
  obtain ⟨ch, hch⟩ := owned_present hi (mem_ownIds hs hf hq)
  exact ⟨ch, hch, hi.1 id ch hch⟩

/-- releasing an owned chunk through its base address never aborts (no double free among owners);
    partial: that every owner pointer *is* a base address is observed by the correspondence run, not proved -/
theorem C20.release_of_owned_succeeds_partial (s : State) (hi : Inv s) (j : Nat) (h : j ∈ s.ownIds) :
    ∃ p', release s.pool (.at j 0) = .ok p' := by
  obtain ⟨c, hc⟩ := owned_present hi h
  cases hr : release s.pool (.at j 0) with
  | ok p' => exact ⟨p', rfl⟩
  | error e =>
    have := (release_error_iff s.pool j).mp ⟨e, hr⟩
    rw [hc] at this; cases this

/-- a release of an address that is not (any more) in the pool is reported by an abort, never silent -/
theorem C20.double_free_reported (p : Pool) (id : Nat) :
    (∃ e, release p (.at id 0) = .error e) ↔ get p id = none := release_error_iff p id

/-- a chunk leaves the pool exactly at the release of its last reference: the last release erases it, an earlier
    one only decrements (bytes and contents untouched), releases of other chunks do not touch it -/
theorem C20.freed_exactly_at_last_release (p p' : Pool) (q : Ptr) (id : Nat) (h : release p q = .ok p') :
    (q = .at id 0 → count p id = 1 → get p' id = none) ∧
    (q = .at id 0 → 2 ≤ count p id →
      ∃ c c', get p id = some c ∧ get p' id = some c' ∧ c'.count = c.count - 1 ∧ c'.bytes = c.bytes ∧ c'.vals = c.vals) ∧
    ((∀ off, q ≠ .at id off) → get p' id = get p id) := by
  refine ⟨?_, ?_, ?_⟩
  · intro hq h1; subst hq; exact release_last h h1
  · intro hq h2; subst hq; exact release_shared h h2
  · intro hne; exact release_other h hne

/-- independence: a write through a pointer into one chunk never changes what is read through a pointer into a
    different chunk; so containers see each other's writes only when they share an array -/
theorem C20.write_independent (p : Pool) (id off id' off' n : Nat) (vs : List Int) (h : id ≠ id') :
    readArr (writeArr p (.at id off) vs) (.at id' off') n = readArr p (.at id' off') n :=
  write_other_chunk p id off id' off' n vs h

/-- the history that leaked two chunks before /repo commit eef945341 (one layout object assigned twice, everything
    destroyed; former finding F-C20-1) now ends with an empty pool and a clean `finalize` -/
example :
    ∃ s, run State.init [.mat 0 2 0 0 2 2 1 1 0, .mat 1 2 0 0 2 2 1 1 0, .lay 0 0, .lay 0 1, .ldrop 0,
                         .destroy 0, .destroy 1] = .ok s ∧
      (∀ x ∈ s.slots, x = none) ∧ (∀ x ∈ s.lays, x = none) ∧ liveChunks s.pool = 0 ∧
      finalize s = .ok () := by
  refine ⟨_, rfl, ?_, ?_, ?_, ?_⟩
  · decide
  · decide
  · decide
  · rfl

/-- the hypotheses of `no_leak` are satisfiable by a non-trivial history: shallow clone, layout sharing, a range
    view, destruction out of allocation order -/
example : ∃ s, run State.init [.new 0 0 0 0 5 10, .clone 1 0 0 0, .range 2 0 2 1, .mat 3 2 0 0 2 3 2 1 0, .lay 0 3,
                               .mlay 4 0 3 1 5, .destroy 2, .destroy 0, .destroy 3, .ldrop 0, .destroy 1,
                               .destroy 4] = .ok s ∧
    (∀ x ∈ s.slots, x = none) ∧ (∀ x ∈ s.lays, x = none) := by
  refine ⟨_, rfl, ?_, ?_⟩ <;> decide
