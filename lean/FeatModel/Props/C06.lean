import FeatModel.Lemmas.C06Unit
import FeatModel.Lemmas.C06Mean
import FeatModel.Lemmas.C06Slip
import FeatModel.Lemmas.C06Mat
/-! # C06 — filters impose their constraints exactly and idempotently

All statements are about the functions of `FeatModel/Model/LA/Filter.lean` (and `FilterMat.lean`) that `drv_c06`
executes against the real FEAT code.  Vectors are pod arrays of any length, index lists are arbitrary (empty, all,
duplicates: the statements use the *last writer* of an index, which for pairwise different indices is the entry
itself), no bound on any size.  "Bit-exact" clauses are equalities; the "up to rounding" clauses are equalities
over a field.  `none` = the real code aborts (size mismatch), so every theorem starts from a successful run. -/
open FeatModel.LA.Filter

/-! ## unit filter on vectors -/

/-- `filter_rhs`/`filter_sol`: every constrained entry holds exactly the prescribed value (for an index that was
    added several times: the value added last) -/
theorem C06.unit_rhs_constrained {α : Type} (f : UnitF α) (v w : List α) (i : Nat) (x : α)
    (hrun : f.filterRhs v = some w) (hx : lastWrite f.es i = some x) (hi : i < v.length) :
    w[i]? = some x := by
  unfold UnitF.filterRhs at hrun
  split at hrun
  · rename_i he
    have : f.es = [] := by simpa using he
    rw [this] at hx
    simp [lastWrite] at hx
  · split at hrun
    · simp at hrun
    · simp only [Option.some.injEq] at hrun
      subst hrun
      rw [getElem?_scatter, hx]
      simp [hi]

/-- the same with the hypothesis of the property text: pairwise different indices, `(i, x)` is an entry -/
theorem C06.unit_rhs_constrained_nodup {α : Type} (f : UnitF α) (v w : List α) (i : Nat) (x : α)
    (hrun : f.filterRhs v = some w) (hn : (f.es.map Prod.fst).Nodup) (hm : (i, x) ∈ f.es) (hi : i < v.length) :
    w[i]? = some x :=
  C06.unit_rhs_constrained f v w i x hrun (lastWrite_of_mem_nodup f.es hn i x hm) hi

/-- `filter_def`/`filter_cor`: every constrained entry is exactly zero -/
theorem C06.unit_def_zero {α : Type} [Zero α] (f : UnitF α) (v w : List α) (i : Nat) (x : α)
    (hrun : f.filterDef v = some w) (hm : (i, x) ∈ f.es) (hi : i < v.length) :
    w[i]? = some 0 := by
  unfold UnitF.filterDef at hrun
  split at hrun
  · rename_i he
    have : f.es = [] := by simpa using he
    rw [this] at hm
    simp at hm
  · split at hrun
    · simp at hrun
    · simp only [Option.some.injEq] at hrun
      subst hrun
      rw [getElem?_scatter, lastWrite_map_const]
      cases hl : lastWrite f.es i with
      | some y => simp [hi]
      | none =>
        exfalso
        have := lastWrite_eq_none_iff_aux f.es i hl (i, x) hm
        exact this rfl

/-- all entries the filter does not constrain are unchanged (all four modes), and the length is kept -/
theorem C06.unit_unconstrained_untouched {α : Type} [Zero α] (m : Mode) (f : UnitF α) (v w : List α) (i : Nat)
    (hrun : f.apply m v = some w) (hi : ∀ e ∈ f.es, e.1 ≠ i) :
    w[i]? = v[i]? ∧ w.length = v.length := by
  have key : ∀ es : List (Nat × α), (∀ e ∈ es, e.1 ≠ i) →
      (scatter es v)[i]? = v[i]? ∧ (scatter es v).length = v.length := by
    intro es hes
    refine ⟨?_, length_scatter es v⟩
    rw [getElem?_scatter, lastWrite_eq_none es i hes]
    cases v[i]? <;> simp
  have hmap : ∀ e ∈ f.es.map (fun e => (e.1, (0 : α))), e.1 ≠ i := by
    intro e he
    obtain ⟨e', he', rfl⟩ := List.mem_map.mp he
    exact hi e' he'
  cases m <;> simp only [UnitF.apply, UnitF.filterRhs, UnitF.filterDef] at hrun <;>
    (split at hrun
     · simp only [Option.some.injEq] at hrun; subst hrun; exact ⟨rfl, rfl⟩
     · split at hrun
       · simp at hrun
       · simp only [Option.some.injEq] at hrun
         subst hrun
         first | exact key _ hi | exact key _ hmap)

/-- applying the same unit filter again changes nothing (all four modes, any index list) -/
theorem C06.unit_idempotent {α : Type} [Zero α] (m : Mode) (f : UnitF α) (v w : List α)
    (hrun : f.apply m v = some w) : f.apply m w = some w := by
  cases m <;> simp only [UnitF.apply, UnitF.filterRhs, UnitF.filterDef] at hrun ⊢ <;>
    (split at hrun
     · simp only [Option.some.injEq] at hrun; subst hrun; rename_i he; simp [he]
     · rename_i he
       split at hrun
       · simp at hrun
       · rename_i hs
         simp only [Option.some.injEq] at hrun
         subst hrun
         simp only [he, length_scatter, hs, scatter_idem]
         simp)

/-- the entries stored after a sequence of `add` calls have strictly increasing (hence pairwise different) indices,
    and the value stored for an index is the one added last: `UnitFilter(n)` + `add`s is inside the domain of the
    theorems above whatever was added -/
theorem C06.unit_add_normalizes {α : Type} (n : Nat) (adds : List (Nat × α)) :
    (((UnitF.ofAdds n adds).es.map Prod.fst).Pairwise (· < ·)) ∧
      ∀ i, lastWrite (UnitF.ofAdds n adds).es i = lastWrite adds i := by
  have h := normalize_spec_aux adds [] (by simp)
  refine ⟨h.1, fun i => ?_⟩
  have := h.2 i
  simp only [UnitF.ofAdds, normalize]
  rw [this]
  cases lastWrite adds i <;> simp [lastWrite]

/-! ## compositions -/

/-- chain / sequence: the members are applied in order to the same vector -/
theorem C06.chain_append {α : Type} [Zero α] [One α] [Add α] [Mul α] [Sub α] [Neg α] [Div α] [DecidableEq α]
    (m : Mode) (fs gs : List (Flt α)) (v : Vec α) :
    applyChain m (fs ++ gs) v = (applyChain m fs v).bind (applyChain m gs) := by
  induction fs generalizing v with
  | nil => simp [applyChain]
  | cons f t ih =>
    simp only [List.cons_append, applyChain]
    cases f.apply m v with
    | none => simp
    | some v' => simp [ih]

/-- "last one wins": whatever the other members did, the constraint of the unit filter applied last holds exactly
    on the result of a chain (the explicit counter-statement for overlapping members: an earlier member's
    constraint on a shared index is overwritten) -/
theorem C06.chain_last_unit_wins {α : Type} [Zero α] [One α] [Add α] [Mul α] [Sub α] [Neg α] [Div α] [DecidableEq α]
    (fs : List (Flt α)) (f : UnitF α) (v : Vec α) (w : List α) (i : Nat) (x : α)
    (hrun : applyChain Mode.rhs (fs ++ [Flt.unit f]) v = some (Vec.leaf w))
    (hx : lastWrite f.es i = some x) (hi : i < w.length) :
    w[i]? = some x := by
  rw [C06.chain_append] at hrun
  cases h1 : applyChain Mode.rhs fs v with
  | none => simp [h1] at hrun
  | some u =>
    simp only [h1, Option.bind_some, applyChain] at hrun
    cases u with
    | node subs => simp [Flt.apply] at hrun
    | leaf d =>
      simp only [Flt.apply, UnitF.apply] at hrun
      cases h2 : f.filterRhs d with
      | none => simp [h2] at hrun
      | some w' =>
        simp only [h2, Option.map_some] at hrun
        have hw : w' = w := by
          cases hrun; rfl
        subst hw
        have hlen : w'.length = d.length := by
          have := (C06.unit_unconstrained_untouched (α := α) Mode.rhs ⟨f.size, []⟩ d d 0 (by simp [UnitF.apply, UnitF.filterRhs]) (by simp)).2
          unfold UnitF.filterRhs at h2
          split at h2
          · simp at h2; rw [h2]
          · split at h2
            · simp at h2
            · simp at h2; rw [← h2, length_scatter]
        exact C06.unit_rhs_constrained f d w' i x h2 hx (by omega)

/-- tuple / power: member `k` acts on component `k` only -/
theorem C06.tuple_componentwise {α : Type} [Zero α] [One α] [Add α] [Mul α] [Sub α] [Neg α] [Div α] [DecidableEq α]
    (m : Mode) (f : Flt α) (fs : List (Flt α)) (v : Vec α) (vs : List (Vec α)) (w : Vec α) (ws : List (Vec α))
    (hrun : applyTuple m (f :: fs) (v :: vs) = some (w :: ws)) :
    f.apply m v = some w ∧ applyTuple m fs vs = some ws := by
  simp only [applyTuple] at hrun
  cases h1 : f.apply m v with
  | none => simp [h1] at hrun
  | some a =>
    cases h2 : applyTuple m fs vs with
    | none => simp [h1, h2] at hrun
    | some b =>
      simp only [h1, h2, Option.some.injEq, List.cons.injEq] at hrun
      exact ⟨by rw [hrun.1], by rw [hrun.2]⟩

/-! ## mean filter (exact over a field; `vol = prim · dual` is what the 3-argument constructor computes) -/

/-- `filter_cor`: the corrected vector has zero primal mean, `w · dual = 0` -/
theorem C06.mean_cor_zero {α : Type} [Field α] (f : MeanF α) (v w : List α)
    (hvol : f.vol = dotL f.prim f.dual) (hnz : f.vol ≠ 0) (hne : f.prim ≠ [])
    (hrun : f.filterCor v = some w) : dotL w f.dual = 0 := by
  unfold MeanF.filterCor MeanF.dotAxpy at hrun
  have hemp : f.prim.isEmpty = false := by cases h : f.prim <;> simp_all
  simp only [hemp, Bool.false_eq_true, if_false] at hrun
  split at hrun
  · simp at hrun
  · split at hrun
    · simp at hrun
    · rename_i h1 h2
      simp only [Option.some.injEq] at hrun
      subst hrun
      have hl : v.length = f.prim.length := by simpa using h2
      rw [dotL_axpyL _ _ _ _ hl, ← hvol]
      field_simp
      ring

/-- `filter_rhs` / `filter_def`: the filtered vector has zero dual mean, `w · prim = 0` -/
theorem C06.mean_rhs_zero {α : Type} [Field α] (f : MeanF α) (v w : List α)
    (hvol : f.vol = dotL f.prim f.dual) (hnz : f.vol ≠ 0) (hne : f.prim ≠ [])
    (hrun : f.filterRhs v = some w) : dotL w f.prim = 0 := by
  unfold MeanF.filterRhs MeanF.dotAxpy at hrun
  have hemp : f.prim.isEmpty = false := by cases h : f.prim <;> simp_all
  simp only [hemp, Bool.false_eq_true, if_false] at hrun
  split at hrun
  · simp at hrun
  · split at hrun
    · simp at hrun
    · rename_i h1 h2
      simp only [Option.some.injEq] at hrun
      subst hrun
      have hl : v.length = f.dual.length := by simpa using h2
      rw [dotL_axpyL _ _ _ _ hl, dotL_comm f.dual f.prim, ← hvol]
      field_simp
      ring

/-- `filter_sol`: the weighted mean of the filtered vector is the prescribed solution mean, `(w · dual) / vol = sol` -/
theorem C06.mean_sol {α : Type} [Field α] (f : MeanF α) (v w : List α)
    (hvol : f.vol = dotL f.prim f.dual) (hnz : f.vol ≠ 0) (hne : f.prim ≠ [])
    (hrun : f.filterSol v = some w) : dotL w f.dual / f.vol = f.sol := by
  unfold MeanF.filterSol MeanF.dotAxpy at hrun
  have hemp : f.prim.isEmpty = false := by cases h : f.prim <;> simp_all
  simp only [hemp, Bool.false_eq_true, if_false] at hrun
  split at hrun
  · simp at hrun
  · split at hrun
    · simp at hrun
    · rename_i h1 h2
      simp only [Option.some.injEq] at hrun
      subst hrun
      have hl : v.length = f.prim.length := by simpa using h2
      rw [dotL_axpyL _ _ _ _ hl, ← hvol]
      field_simp
      ring

/-- applying the mean filter again changes nothing (correction mode; exact arithmetic) -/
theorem C06.mean_cor_idempotent {α : Type} [Field α] (f : MeanF α) (v w : List α)
    (hvol : f.vol = dotL f.prim f.dual) (hnz : f.vol ≠ 0)
    (hrun : f.filterCor v = some w) : f.filterCor w = some w := by
  by_cases hne : f.prim = []
  · simp only [MeanF.filterCor, hne, List.isEmpty_nil, if_true, Option.some.injEq] at hrun ⊢
  · have hz := C06.mean_cor_zero f v w hvol hnz hne hrun
    unfold MeanF.filterCor MeanF.dotAxpy at hrun ⊢
    have hemp : f.prim.isEmpty = false := by cases h : f.prim <;> simp_all
    simp only [hemp, Bool.false_eq_true, if_false] at hrun ⊢
    split at hrun
    · simp at hrun
    · split at hrun
      · simp at hrun
      · rename_i h1 h2
        simp only [Option.some.injEq] at hrun
        have hl : v.length = f.prim.length := by simpa using h2
        have hd : v.length = f.dual.length := by simpa using h1
        have hwl : w.length = v.length := by rw [← hrun, length_axpyL _ _ _ hl]
        have e1 : (w.length != f.dual.length) = false := by simp [hwl, hd]
        have e2 : (w.length != f.prim.length) = false := by simp [hwl, hl]
        simp only [e1, e2, Bool.false_eq_true, if_false, hz, neg_zero, zero_div]
        rw [axpyL_zero w f.prim (by omega)]

/-- the weighted-mean clause fails for an inconsistent volume: it is a hypothesis, not decoration
    (4-argument constructor with `vol ≠ prim · dual`) -/
example : ∃ (f : MeanF Rat) (v w : List Rat), f.vol ≠ dotL f.prim f.dual ∧ f.filterCor v = some w ∧ dotL w f.dual ≠ 0 :=
  ⟨{ prim := [1], dual := [1], vol := 2, sol := 0 }, [1], [1 / 2], by decide +kernel, by decide +kernel, by decide +kernel⟩


/-! ## slip filter (exact over a field).  A successful run implies `ν · ν ≠ 0` for every entry (a zero normal divides
    by zero = `none`); `e.1 < f.size` is the precondition `index < size` of `add` (ASSERT in debug builds). -/

/-- after the filter every constrained block has a vanishing normal component -/
theorem C06.slip_normal_zero {α : Type} [Field α] [DecidableEq α] (f : SlipF α) (v w : List α)
    (hn : (f.es.map Prod.fst).Nodup) (hin : ∀ e ∈ f.es, e.1 < f.size) (hrun : f.filter v = some w) :
    ∀ e ∈ f.es, dotL (readBlock f.bs e.1 w) (SlipF.normal f.bs e) = 0 := by
  intro e he
  unfold SlipF.filter at hrun
  split at hrun
  · rename_i h0
    have := hin e he
    omega
  · split at hrun
    · simp at hrun
    · rename_i hsz
      have hlen : f.size * f.bs = v.length := by simpa using hsz
      refine run_normal_zero f.bs f.es v w hrun hn (fun g hg => ?_) e he
      have := Nat.mul_le_mul_left f.bs (Nat.succ_le_of_lt (hin g hg))
      rw [Nat.mul_succ, Nat.mul_comm f.bs f.size] at this
      omega

/-- everything outside the constrained blocks is unchanged, and the length is kept -/
theorem C06.slip_untouched {α : Type} [Field α] [DecidableEq α] (f : SlipF α) (v w : List α)
    (hrun : f.filter v = some w) (p : Nat)
    (hp : ∀ e ∈ f.es, ¬ (f.bs * e.1 ≤ p ∧ p < f.bs * e.1 + f.bs)) :
    w[p]? = v[p]? ∧ w.length = v.length := by
  unfold SlipF.filter at hrun
  split at hrun
  · simp only [Option.some.injEq] at hrun; subst hrun; exact ⟨rfl, rfl⟩
  · split at hrun
    · simp at hrun
    · exact ⟨run_untouched f.bs f.es v w hrun p hp, run_length f.bs f.es v w hrun⟩

/-- applying the slip filter again changes nothing -/
theorem C06.slip_idempotent {α : Type} [Field α] [DecidableEq α] (f : SlipF α) (v w : List α)
    (hn : (f.es.map Prod.fst).Nodup) (hin : ∀ e ∈ f.es, e.1 < f.size) (hrun : f.filter v = some w) :
    f.filter w = some w := by
  have hz := C06.slip_normal_zero f v w hn hin hrun
  unfold SlipF.filter at hrun ⊢
  split at hrun
  · rename_i h0; simp [h0]
  · rename_i h0
    split at hrun
    · simp at hrun
    · rename_i hsz
      have hlen : f.size * f.bs = v.length := by simpa using hsz
      have hwl := run_length f.bs f.es v w hrun
      have hsz' : (f.size * f.bs != w.length) = false := by simp [hwl, hlen]
      simp only [h0, if_false, hsz', Bool.false_eq_true]
      apply run_fixed
      intro e he
      refine ⟨run_normals_ne f.bs f.es v w hrun e he, hz e he, ?_⟩
      have := Nat.mul_le_mul_left f.bs (Nat.succ_le_of_lt (hin e he))
      rw [Nat.mul_succ, Nat.mul_comm f.bs f.size] at this
      omega

/-! ## unit filter on a well-formed CSR matrix (dense meaning `Csr.entry`, duplicates of a column would add) -/

/-- a constrained row that stores its diagonal entry (exactly once) becomes the unit row `e_i` -/
theorem C06.unit_mat_rows {α : Type} [CommSemiring α] (f : UnitF α) (A B : FeatModel.LA.Csr α)
    (hwf : A.wf = true) (hes : ∀ e ∈ f.es, e.1 < A.rows) (hrun : f.filterMat A = some B)
    (i j : Nat) (x : α) (hm : (i, x) ∈ f.es) (k0 : Nat) (hk0 : A.rowBegin i ≤ k0 ∧ k0 < A.rowEnd i)
    (hc0 : A.colInd.getD k0 0 = i)
    (huniq : ∀ k, A.rowBegin i ≤ k → k < A.rowEnd i → A.colInd.getD k 0 = i → k = k0) :
    B.entry i j = if j = i then 1 else 0 := by
  have h := (FeatModel.LA.Csr.wf_iff A).mp hwf
  obtain ⟨e, hl⟩ := lastEntry_of_mem hm
  rw [filterMat_some f A B hrun (List.ne_nil_of_mem hm), entry_constrained h f.es hes (hes _ hm) hl j]
  exact sum_unit_row _ _ _ i j k0 hk0 hc0 huniq

/-- the excluded point: a constrained row WITHOUT a stored diagonal entry becomes the zero row -/
theorem C06.unit_mat_no_diag {α : Type} [CommSemiring α] (f : UnitF α) (A B : FeatModel.LA.Csr α)
    (hwf : A.wf = true) (hes : ∀ e ∈ f.es, e.1 < A.rows) (hrun : f.filterMat A = some B)
    (i j : Nat) (x : α) (hm : (i, x) ∈ f.es)
    (hno : ∀ k, A.rowBegin i ≤ k → k < A.rowEnd i → A.colInd.getD k 0 ≠ i) :
    B.entry i j = 0 := by
  have h := (FeatModel.LA.Csr.wf_iff A).mp hwf
  obtain ⟨e, hl⟩ := lastEntry_of_mem hm
  rw [filterMat_some f A B hrun (List.ne_nil_of_mem hm), entry_constrained h f.es hes (hes _ hm) hl j]
  exact sum_zero_row _ _ _ i j hno

/-- all rows the filter does not constrain keep their dense meaning -/
theorem C06.unit_mat_other_rows_untouched {α : Type} [CommSemiring α] (f : UnitF α) (A B : FeatModel.LA.Csr α)
    (hwf : A.wf = true) (hes : ∀ e ∈ f.es, e.1 < A.rows) (hrun : f.filterMat A = some B)
    (i j : Nat) (hi : i < A.rows) (hfree : ∀ e ∈ f.es, e.1 ≠ i) :
    B.entry i j = A.entry i j := by
  have h := (FeatModel.LA.Csr.wf_iff A).mp hwf
  by_cases hne : f.es = []
  · have : B = A := by
      unfold UnitF.filterMat at hrun
      simp only [hne, List.isEmpty_nil, if_true, Option.some.injEq] at hrun
      exact hrun.symm
    rw [this]
  · rw [filterMat_some f A B hrun hne, entry_with_val, FeatModel.LA.Csr.entry_eq_sum_Ico]
    apply Finset.sum_congr rfl
    intro k hk
    rw [Finset.mem_Ico] at hk
    unfold UnitF.matVals
    rw [rewriteRows_getD_free h f.es hes _ hi hk hfree]

/-- the solution of the filtered system takes the prescribed boundary value: if `B = filter_mat A`,
    `b' = filter_rhs b` and `sol` satisfies equation `i` of `B sol = b'` for a constrained row with stored diagonal,
    then `sol[i]` is the prescribed value -/
theorem C06.filtered_system_solution_takes_boundary_values {α : Type} [CommSemiring α] (f : UnitF α)
    (A B : FeatModel.LA.Csr α) (hwf : A.wf = true) (hes : ∀ e ∈ f.es, e.1 < A.rows) (hrun : f.filterMat A = some B)
    (b b' : List α) (hb : f.filterRhs b = some b')
    (i : Nat) (x : α) (hx : lastWrite f.es i = some x) (hib : i < b.length)
    (k0 : Nat) (hk0 : A.rowBegin i ≤ k0 ∧ k0 < A.rowEnd i) (hc0 : A.colInd.getD k0 0 = i)
    (huniq : ∀ k, A.rowBegin i ≤ k → k < A.rowEnd i → A.colInd.getD k 0 = i → k = k0)
    (sol : Array α) (hsol : B.rowSum sol i = b'.getD i 0) :
    sol.getD i 0 = x := by
  have h := (FeatModel.LA.Csr.wf_iff A).mp hwf
  have hm := lastWrite_isSome_mem f.es i x hx
  obtain ⟨e, hl⟩ := lastEntry_of_mem hm
  have hi := hes _ hm
  have hrow : B.rowSum sol i = sol.getD i 0 := by
    rw [filterMat_some f A B hrun (List.ne_nil_of_mem hm), rowSum_with_val]
    rw [← sum_unit_row_apply (A.rowBegin i) (A.rowEnd i) (fun k => A.colInd.getD k 0) i (fun c => sol.getD c 0) k0 hk0 hc0 huniq]
    apply Finset.sum_congr rfl
    intro k hk
    rw [Finset.mem_Ico] at hk
    rw [matVals_getD_constrained h f.es hes hi hk hl]
  have hb' := C06.unit_rhs_constrained f b b' i x hb hx hib
  rw [← hrow, hsol, List.getD_eq_getElem?_getD, hb']
  rfl

/-! ## chains / sequences of unit filters with pairwise disjoint index sets -/

/-- an index that no member constrains is untouched by the whole chain (all modes) -/
theorem C06.chain_units_untouched {α : Type} [Zero α] [One α] [Add α] [Mul α] [Sub α] [Neg α] [Div α] [DecidableEq α]
    (m : Mode) (fs : List (UnitF α)) (v w : List α) (i : Nat)
    (hrun : applyChain m (fs.map Flt.unit) (Vec.leaf v) = some (Vec.leaf w))
    (hfree : ∀ g ∈ fs, ∀ e ∈ g.es, e.1 ≠ i) : w[i]? = v[i]? ∧ w.length = v.length := by
  induction fs generalizing v with
  | nil =>
    simp only [List.map_nil, applyChain, Option.some.injEq, Vec.leaf.injEq] at hrun
    subst hrun; exact ⟨rfl, rfl⟩
  | cons g t ih =>
    simp only [List.map_cons, applyChain, Flt.apply] at hrun
    cases hg : g.apply m v with
    | none => simp [hg] at hrun
    | some v' =>
      simp only [hg, Option.map_some] at hrun
      obtain ⟨h1, h2⟩ := ih v' hrun (fun g' hg' => hfree g' (List.mem_cons_of_mem _ hg'))
      obtain ⟨h3, h4⟩ := C06.unit_unconstrained_untouched m g v v' i hg (hfree g List.mem_cons_self)
      exact ⟨h1.trans h3, h2.trans h4⟩

/-- members with pairwise disjoint index sets: after the chain EVERY member's constraint holds exactly
    (`filter_rhs` / `filter_sol`; compare `C06.chain_last_unit_wins` for overlapping members) -/
theorem C06.chain_disjoint_all_constraints {α : Type} [Zero α] [One α] [Add α] [Mul α] [Sub α] [Neg α] [Div α]
    [DecidableEq α] (fs : List (UnitF α)) (v w : List α)
    (hrun : applyChain Mode.rhs (fs.map Flt.unit) (Vec.leaf v) = some (Vec.leaf w))
    (hdis : fs.Pairwise (fun f g => ∀ a ∈ f.es, ∀ b ∈ g.es, a.1 ≠ b.1)) :
    ∀ f ∈ fs, ∀ i x, lastWrite f.es i = some x → i < v.length → w[i]? = some x := by
  induction fs generalizing v with
  | nil => intro f hf; simp at hf
  | cons g t ih =>
    simp only [List.map_cons, applyChain, Flt.apply] at hrun
    rw [List.pairwise_cons] at hdis
    cases hg : g.apply Mode.rhs v with
    | none => simp [hg] at hrun
    | some v' =>
      simp only [hg, Option.map_some] at hrun
      have hlen : v'.length = v.length := by
        simp only [UnitF.apply, UnitF.filterRhs] at hg
        split at hg
        · simp at hg; rw [hg]
        · split at hg
          · simp at hg
          · simp at hg; rw [← hg, length_scatter]
      intro f hf i x hx hi
      rcases List.mem_cons.mp hf with hh | hh
      · subst hh
        have hmem := lastWrite_isSome_mem f.es i x hx
        have hfree : ∀ g' ∈ t, ∀ e ∈ g'.es, e.1 ≠ i := by
          intro g' hg' e he heq
          exact hdis.1 g' hg' (i, x) hmem e he heq.symm
        rw [(C06.chain_units_untouched Mode.rhs t v' w i hrun hfree).1]
        exact C06.unit_rhs_constrained f v v' i x hg hx hi
      · exact ih v' hrun hdis.2 f hh i x hx (by omega)

/-- the hypotheses of the matrix theorems are satisfiable by a non-trivial value: a well-formed 2x2 CSR matrix, row 0
    constrained (stored diagonal at position 0) becomes `(1, 0)`, row 1 keeps its entry -/
example :
    let A : FeatModel.LA.Csr Nat := { rows := 2, cols := 2, rowPtr := #[0, 2, 3], colInd := #[0, 1, 1], val := #[5, 6, 7] }
    let f : UnitF Nat := { size := 2, es := [(0, 9)] }
    A.wf = true ∧ (f.filterMat A).map (fun B => (B.val, B.entry 0 0, B.entry 0 1, B.entry 1 1)) = some (#[1, 0, 7], 1, 0, 7) := by
  decide +kernel
