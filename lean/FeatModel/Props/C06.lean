import FeatModel.Lemmas.C06Unit
import FeatModel.Lemmas.C06Mean
import FeatModel.Lemmas.C06Slip
import FeatModel.Lemmas.C06Mat
import FeatModel.Lemmas.C06Blocked
import FeatModel.Lemmas.C06MeanB
import FeatModel.Lemmas.C06MatB
import FeatModel.Lemmas.C06Global
/-! # C06 — filters impose their constraints exactly and idempotently

All statements are about the functions of `FeatModel/Model/LA/Filter.lean` (and `FilterMat.lean`) that `drv_c06`
executes against the real FEAT code.  Vectors are pod arrays of any length, index lists are arbitrary (empty, all,
duplicates: the statements use the *last writer* of an index, which for pairwise different indices is the entry
itself), no bound on any size.  "Bit-exact" clauses are equalities; the "up to rounding" clauses are equalities
over a field.  `none` = the real code aborts (size mismatch), so every theorem starts from a successful run.

**What is modelled as unbounded.**  `Index` / `IT_` (64-bit in the harness; 32-bit index types are not instantiated)
are `Nat`; vector sizes, numbers of filter entries, row lengths and sequence lengths have no bound; the
`SparseVector(Blocked)` storage of the unit / slip filters (arrays grown in steps of `min(size, 1000)` slots, copied
on reallocation, insertion-sorted with `numeric_limits<IT_>::max()` as duplicate marker) is the abstract entry list
`normalize adds`; scalars are exact rationals / field elements (no rounding, `Math::eps` only in the constructors'
volume tests).  None of the theorems can therefore see narrowing, allocation steps, fixed buffers or loop remainders of
the C++.  What ties them is the correspondence stream `boundary-sizes` of `checks/props/c06.py`: sizes, entry counts
(unsorted, with repeated indices), row lengths and sequence lengths just below / at / above 127|128, 255|256, 1000
(the allocation step), 2000 and - thorough - 32768 and 65536, with the non-trivial content at the high end, run through
the real code and this model and judged by the independent oracle. -/
open FeatModel.LA.Filter

/-! ## unit filter on vectors -/

/-- `filter_rhs`/`filter_sol`: every constrained entry holds exactly the prescribed value (for an index that was
    added several times: the value added last) -/
theorem C06.unit_rhs_constrained {α : Type} (f : UnitF α) (v w : List α) (i : Nat) (x : α)
    (hrun : f.filterRhs v = some w) (hx : lastWrite f.es i = some x) (hi : i < v.length) :
    w[i]? = some x := by
  unfold UnitF.filterRhs at hrun
  split at hrun
  · rename_i he
    have : f.es = [] := by simpa using he
    rw [this] at hx
    simp [lastWrite] at hx
  · split at hrun
    · simp at hrun
    · simp only [Option.some.injEq] at hrun
      subst hrun
      rw [getElem?_scatter, hx]
      simp [hi]

/-- the same with the hypothesis of the property text: pairwise different indices, `(i, x)` is an entry -/
theorem C06.unit_rhs_constrained_nodup {α : Type} (f : UnitF α) (v w : List α) (i : Nat) (x : α)
    (hrun : f.filterRhs v = some w) (hn : (f.es.map Prod.fst).Nodup) (hm : (i, x) ∈ f.es) (hi : i < v.length) :
    w[i]? = some x :=
  C06.unit_rhs_constrained f v w i x hrun (lastWrite_of_mem_nodup f.es hn i x hm) hi

/-- `filter_def`/`filter_cor`: every constrained entry is exactly zero -/
theorem C06.unit_def_zero {α : Type} [Zero α] (f : UnitF α) (v w : List α) (i : Nat) (x : α)
    (hrun : f.filterDef v = some w) (hm : (i, x) ∈ f.es) (hi : i < v.length) :
    w[i]? = some 0 := by
  unfold UnitF.filterDef at hrun
  split at hrun
  · rename_i he
    have : f.es = [] := by simpa using he
    rw [this] at hm
    simp at hm
  · split at hrun
    · simp at hrun
    · simp only [Option.some.injEq] at hrun
      subst hrun
      rw [getElem?_scatter, lastWrite_map_const]
      cases hl : lastWrite f.es i with
      | some y => simp [hi]
      | none =>
        exfalso
        have := lastWrite_eq_none_iff_aux f.es i hl (i, x) hm
        exact this rfl

/-- all entries the filter does not constrain are unchanged (all four modes), and the length is kept -/
theorem C06.unit_unconstrained_untouched {α : Type} [Zero α] (m : Mode) (f : UnitF α) (v w : List α) (i : Nat)
    (hrun : f.apply m v = some w) (hi : ∀ e ∈ f.es, e.1 ≠ i) :
    w[i]? = v[i]? ∧ w.length = v.length := by
  have key : ∀ es : List (Nat × α), (∀ e ∈ es, e.1 ≠ i) →
      (scatter es v)[i]? = v[i]? ∧ (scatter es v).length = v.length := by
    intro es hes
    refine ⟨?_, length_scatter es v⟩
    rw [getElem?_scatter, lastWrite_eq_none es i hes]
    cases v[i]? <;> simp
  have hmap : ∀ e ∈ f.es.map (fun e => (e.1, (0 : α))), e.1 ≠ i := by
    intro e he
    obtain ⟨e', he', rfl⟩ := List.mem_map.mp he
    exact hi e' he'
  cases m <;> simp only [UnitF.apply, UnitF.filterRhs, UnitF.filterDef] at hrun <;>
    (split at hrun
     · simp only [Option.some.injEq] at hrun; subst hrun; exact ⟨rfl, rfl⟩
     · split at hrun
       · simp at hrun
       · simp only [Option.some.injEq] at hrun
         subst hrun
         first | exact key _ hi | exact key _ hmap)

/-- applying the same unit filter again changes nothing (all four modes, any index list) -/
theorem C06.unit_idempotent {α : Type} [Zero α] (m : Mode) (f : UnitF α) (v w : List α)
    (hrun : f.apply m v = some w) : f.apply m w = some w := by
  cases m <;> simp only [UnitF.apply, UnitF.filterRhs, UnitF.filterDef] at hrun ⊢ <;>
    (split at hrun
     · simp only [Option.some.injEq] at hrun; subst hrun; rename_i he; simp [he]
     · rename_i he
       split at hrun
       · simp at hrun
       · rename_i hs
         simp only [Option.some.injEq] at hrun
         subst hrun
         simp only [he, length_scatter, hs, scatter_idem]
         simp)

/-- the entries stored after a sequence of `add` calls have strictly increasing (hence pairwise different) indices,
    and the value stored for an index is the one added last: `UnitFilter(n)` + `add`s is inside the domain of the
    theorems above whatever was added -/
theorem C06.unit_add_normalizes {α : Type} (n : Nat) (adds : List (Nat × α)) :
    (((UnitF.ofAdds n adds).es.map Prod.fst).Pairwise (· < ·)) ∧
      ∀ i, lastWrite (UnitF.ofAdds n adds).es i = lastWrite adds i := by
  have h := normalize_spec_aux adds [] (by simp)
  refine ⟨h.1, fun i => ?_⟩
  have := h.2 i
  simp only [UnitF.ofAdds, normalize]
  rw [this]
  cases lastWrite adds i <;> simp [lastWrite]

/-! ## compositions -/

/-- chain / sequence: the members are applied in order to the same vector -/
theorem C06.chain_append {α : Type} [Zero α] [One α] [Add α] [Mul α] [Sub α] [Neg α] [Div α] [DecidableEq α]
    (m : Mode) (fs gs : List (Flt α)) (v : Vec α) :
    applyChain m (fs ++ gs) v = (applyChain m fs v).bind (applyChain m gs) := by
  induction fs generalizing v with
  | nil => simp [applyChain]
  | cons f t ih =>
    simp only [List.cons_append, applyChain]
    cases f.apply m v with
    | none => simp
    | some v' => simp [ih]

/-- "last one wins": whatever the other members did, the constraint of the unit filter applied last holds exactly
    on the result of a chain (the explicit counter-statement for overlapping members: an earlier member's
    constraint on a shared index is overwritten) -/
theorem C06.chain_last_unit_wins {α : Type} [Zero α] [One α] [Add α] [Mul α] [Sub α] [Neg α] [Div α] [DecidableEq α]
    (fs : List (Flt α)) (f : UnitF α) (v : Vec α) (w : List α) (i : Nat) (x : α)
    (hrun : applyChain Mode.rhs (fs ++ [Flt.unit f]) v = some (Vec.leaf w))
    (hx : lastWrite f.es i = some x) (hi : i < w.length) :
    w[i]? = some x := by
  rw [C06.chain_append] at hrun
  cases h1 : applyChain Mode.rhs fs v with
  | none => simp [h1] at hrun
  | some u =>
    simp only [h1, Option.bind_some, applyChain] at hrun
    cases u with
    | node subs => simp [Flt.apply] at hrun
    | leaf d =>
      simp only [Flt.apply, UnitF.apply] at hrun
      cases h2 : f.filterRhs d with
      | none => simp [h2] at hrun
      | some w' =>
        simp only [h2, Option.map_some] at hrun
        have hw : w' = w := by
          cases hrun; rfl
        subst hw
        have hlen : w'.length = d.length := by
          have := (C06.unit_unconstrained_untouched (α := α) Mode.rhs ⟨f.size, []⟩ d d 0 (by simp [UnitF.apply, UnitF.filterRhs]) (by simp)).2
          unfold UnitF.filterRhs at h2
          split at h2
          · simp at h2; rw [h2]
          · split at h2
            · simp at h2
            · simp at h2; rw [← h2, length_scatter]
        exact C06.unit_rhs_constrained f d w' i x h2 hx (by omega)

/-- tuple / power: member `k` acts on component `k` only -/
theorem C06.tuple_componentwise {α : Type} [Zero α] [One α] [Add α] [Mul α] [Sub α] [Neg α] [Div α] [DecidableEq α]
    (m : Mode) (f : Flt α) (fs : List (Flt α)) (v : Vec α) (vs : List (Vec α)) (w : Vec α) (ws : List (Vec α))
    (hrun : applyTuple m (f :: fs) (v :: vs) = some (w :: ws)) :
    f.apply m v = some w ∧ applyTuple m fs vs = some ws := by
  simp only [applyTuple] at hrun
  cases h1 : f.apply m v with
  | none => simp [h1] at hrun
  | some a =>
    cases h2 : applyTuple m fs vs with
    | none => simp [h1, h2] at hrun
    | some b =>
      simp only [h1, h2, Option.some.injEq, List.cons.injEq] at hrun
      exact ⟨by rw [hrun.1], by rw [hrun.2]⟩

/-! ## mean filter (exact over a field; `vol = prim · dual` is what the 3-argument constructor computes) -/

/-- `filter_cor`: the corrected vector has zero primal mean, `w · dual = 0` -/
theorem C06.mean_cor_zero {α : Type} [Field α] (f : MeanF α) (v w : List α)
    (hvol : f.vol = dotL f.prim f.dual) (hnz : f.vol ≠ 0) (hne : f.prim ≠ [])
    (hrun : f.filterCor v = some w) : dotL w f.dual = 0 := by
  unfold MeanF.filterCor MeanF.dotAxpy at hrun
  have hemp : f.prim.isEmpty = false := by cases h : f.prim <;> simp_all
  simp only [hemp, Bool.false_eq_true, if_false] at hrun
  split at hrun
  · simp at hrun
  · split at hrun
    · simp at hrun
    · rename_i h1 h2
      simp only [Option.some.injEq] at hrun
      subst hrun
      have hl : v.length = f.prim.length := by simpa using h2
      rw [dotL_axpyL _ _ _ _ hl, ← hvol]
      field_simp
      ring

/-- `filter_rhs` / `filter_def`: the filtered vector has zero dual mean, `w · prim = 0` -/
theorem C06.mean_rhs_zero {α : Type} [Field α] (f : MeanF α) (v w : List α)
    (hvol : f.vol = dotL f.prim f.dual) (hnz : f.vol ≠ 0) (hne : f.prim ≠ [])
    (hrun : f.filterRhs v = some w) : dotL w f.prim = 0 := by
  unfold MeanF.filterRhs MeanF.dotAxpy at hrun
  have hemp : f.prim.isEmpty = false := by cases h : f.prim <;> simp_all
  simp only [hemp, Bool.false_eq_true, if_false] at hrun
  split at hrun
  · simp at hrun
  · split at hrun
    · simp at hrun
    · rename_i h1 h2
      simp only [Option.some.injEq] at hrun
      subst hrun
      have hl : v.length = f.dual.length := by simpa using h2
      rw [dotL_axpyL _ _ _ _ hl, dotL_comm f.dual f.prim, ← hvol]
      field_simp
      ring

/-- `filter_sol`: the weighted mean of the filtered vector is the prescribed solution mean, `(w · dual) / vol = sol` -/
theorem C06.mean_sol {α : Type} [Field α] (f : MeanF α) (v w : List α)
    (hvol : f.vol = dotL f.prim f.dual) (hnz : f.vol ≠ 0) (hne : f.prim ≠ [])
    (hrun : f.filterSol v = some w) : dotL w f.dual / f.vol = f.sol := by
  unfold MeanF.filterSol MeanF.dotAxpy at hrun
  have hemp : f.prim.isEmpty = false := by cases h : f.prim <;> simp_all
  simp only [hemp, Bool.false_eq_true, if_false] at hrun
  split at hrun
  · simp at hrun
  · split at hrun
    · simp at hrun
    · rename_i h1 h2
      simp only [Option.some.injEq] at hrun
      subst hrun
      have hl : v.length = f.prim.length := by simpa using h2
      rw [dotL_axpyL _ _ _ _ hl, ← hvol]
      field_simp
      ring

/-- applying the mean filter again changes nothing (correction mode; exact arithmetic) -/
theorem C06.mean_cor_idempotent {α : Type} [Field α] (f : MeanF α) (v w : List α)
    (hvol : f.vol = dotL f.prim f.dual) (hnz : f.vol ≠ 0)
    (hrun : f.filterCor v = some w) : f.filterCor w = some w := by
  by_cases hne : f.prim = []
  · simp only [MeanF.filterCor, hne, List.isEmpty_nil, if_true, Option.some.injEq] at hrun ⊢
  · have hz := C06.mean_cor_zero f v w hvol hnz hne hrun
    unfold MeanF.filterCor MeanF.dotAxpy at hrun ⊢
    have hemp : f.prim.isEmpty = false := by cases h : f.prim <;> simp_all
    simp only [hemp, Bool.false_eq_true, if_false] at hrun ⊢
    split at hrun
    · simp at hrun
    · split at hrun
      · simp at hrun
      · rename_i h1 h2
        simp only [Option.some.injEq] at hrun
        have hl : v.length = f.prim.length := by simpa using h2
        have hd : v.length = f.dual.length := by simpa using h1
        have hwl : w.length = v.length := by rw [← hrun, length_axpyL _ _ _ hl]
        have e1 : (w.length != f.dual.length) = false := by simp [hwl, hd]
        have e2 : (w.length != f.prim.length) = false := by simp [hwl, hl]
        simp only [e1, e2, Bool.false_eq_true, if_false, hz, neg_zero, zero_div]
        rw [axpyL_zero w f.prim (by omega)]

/-- the weighted-mean clause fails for an inconsistent volume: it is a hypothesis, not decoration
    (4-argument constructor with `vol ≠ prim · dual`) -/
example : ∃ (f : MeanF Rat) (v w : List Rat), f.vol ≠ dotL f.prim f.dual ∧ f.filterCor v = some w ∧ dotL w f.dual ≠ 0 :=
  ⟨{ prim := [1], dual := [1], vol := 2, sol := 0 }, [1], [1 / 2], by decide +kernel, by decide +kernel, by decide +kernel⟩


/-! ## slip filter (exact over a field).  A successful run implies `ν · ν ≠ 0` for every entry (a zero normal divides
    by zero = `none`); `e.1 < f.size` is the precondition `index < size` of `add` (ASSERT in debug builds). -/

/-- after the filter every constrained block has a vanishing normal component -/
theorem C06.slip_normal_zero {α : Type} [Field α] [DecidableEq α] (f : SlipF α) (v w : List α)
    (hn : (f.es.map Prod.fst).Nodup) (hin : ∀ e ∈ f.es, e.1 < f.size) (hrun : f.filter v = some w) :
    ∀ e ∈ f.es, dotL (readBlock f.bs e.1 w) (SlipF.normal f.bs e) = 0 := by
  intro e he
  unfold SlipF.filter at hrun
  split at hrun
  · rename_i h0
    have := hin e he
    omega
  · split at hrun
    · simp at hrun
    · rename_i hsz
      have hlen : f.size * f.bs = v.length := by simpa using hsz
      refine run_normal_zero f.bs f.es v w hrun hn (fun g hg => ?_) e he
      have := Nat.mul_le_mul_left f.bs (Nat.succ_le_of_lt (hin g hg))
      rw [Nat.mul_succ, Nat.mul_comm f.bs f.size] at this
      omega

/-- everything outside the constrained blocks is unchanged, and the length is kept -/
theorem C06.slip_untouched {α : Type} [Field α] [DecidableEq α] (f : SlipF α) (v w : List α)
    (hrun : f.filter v = some w) (p : Nat)
    (hp : ∀ e ∈ f.es, ¬ (f.bs * e.1 ≤ p ∧ p < f.bs * e.1 + f.bs)) :
    w[p]? = v[p]? ∧ w.length = v.length := by
  unfold SlipF.filter at hrun
  split at hrun
  · simp only [Option.some.injEq] at hrun; subst hrun; exact ⟨rfl, rfl⟩
  · split at hrun
    · simp at hrun
    · exact ⟨run_untouched f.bs f.es v w hrun p hp, run_length f.bs f.es v w hrun⟩

/-- applying the slip filter again changes nothing -/
theorem C06.slip_idempotent {α : Type} [Field α] [DecidableEq α] (f : SlipF α) (v w : List α)
    (hn : (f.es.map Prod.fst).Nodup) (hin : ∀ e ∈ f.es, e.1 < f.size) (hrun : f.filter v = some w) :
    f.filter w = some w := by
  have hz := C06.slip_normal_zero f v w hn hin hrun
  unfold SlipF.filter at hrun ⊢
  split at hrun
  · rename_i h0; simp [h0]
  · rename_i h0
    split at hrun
    · simp at hrun
    · rename_i hsz
      have hlen : f.size * f.bs = v.length := by simpa using hsz
      have hwl := run_length f.bs f.es v w hrun
      have hsz' : (f.size * f.bs != w.length) = false := by simp [hwl, hlen]
      simp only [h0, if_false, hsz', Bool.false_eq_true]
      apply run_fixed
      intro e he
      refine ⟨run_normals_ne f.bs f.es v w hrun e he, hz e he, ?_⟩
      have := Nat.mul_le_mul_left f.bs (Nat.succ_le_of_lt (hin e he))
      rw [Nat.mul_succ, Nat.mul_comm f.bs f.size] at this
      omega

/-! ## unit filter on a well-formed CSR matrix (dense meaning `Csr.entry`, duplicates of a column would add) -/

/-- a constrained row that stores its diagonal entry (exactly once) becomes the unit row `e_i` -/
theorem C06.unit_mat_rows {α : Type} [CommSemiring α] (f : UnitF α) (A B : FeatModel.LA.Csr α)
    (hwf : A.wf = true) (hes : ∀ e ∈ f.es, e.1 < A.rows) (hrun : f.filterMat A = some B)
    (i j : Nat) (x : α) (hm : (i, x) ∈ f.es) (k0 : Nat) (hk0 : A.rowBegin i ≤ k0 ∧ k0 < A.rowEnd i)
    (hc0 : A.colInd.getD k0 0 = i)
    (huniq : ∀ k, A.rowBegin i ≤ k → k < A.rowEnd i → A.colInd.getD k 0 = i → k = k0) :
    B.entry i j = if j = i then 1 else 0 := by
  have h := (FeatModel.LA.Csr.wf_iff A).mp hwf
  obtain ⟨e, hl⟩ := lastEntry_of_mem hm
  rw [filterMat_some f A B hrun (List.ne_nil_of_mem hm), entry_constrained h f.es hes (hes _ hm) hl j]
  exact sum_unit_row _ _ _ i j k0 hk0 hc0 huniq

/-- the excluded point: a constrained row WITHOUT a stored diagonal entry becomes the zero row -/
theorem C06.unit_mat_no_diag {α : Type} [CommSemiring α] (f : UnitF α) (A B : FeatModel.LA.Csr α)
    (hwf : A.wf = true) (hes : ∀ e ∈ f.es, e.1 < A.rows) (hrun : f.filterMat A = some B)
    (i j : Nat) (x : α) (hm : (i, x) ∈ f.es)
    (hno : ∀ k, A.rowBegin i ≤ k → k < A.rowEnd i → A.colInd.getD k 0 ≠ i) :
    B.entry i j = 0 := by
  have h := (FeatModel.LA.Csr.wf_iff A).mp hwf
  obtain ⟨e, hl⟩ := lastEntry_of_mem hm
  rw [filterMat_some f A B hrun (List.ne_nil_of_mem hm), entry_constrained h f.es hes (hes _ hm) hl j]
  exact sum_zero_row _ _ _ i j hno

/-- all rows the filter does not constrain keep their dense meaning -/
theorem C06.unit_mat_other_rows_untouched {α : Type} [CommSemiring α] (f : UnitF α) (A B : FeatModel.LA.Csr α)
    (hwf : A.wf = true) (hes : ∀ e ∈ f.es, e.1 < A.rows) (hrun : f.filterMat A = some B)
    (i j : Nat) (hi : i < A.rows) (hfree : ∀ e ∈ f.es, e.1 ≠ i) :
    B.entry i j = A.entry i j := by
  have h := (FeatModel.LA.Csr.wf_iff A).mp hwf
  by_cases hne : f.es = []
  · have : B = A := by
      unfold UnitF.filterMat at hrun
      simp only [hne, List.isEmpty_nil, if_true, Option.some.injEq] at hrun
      exact hrun.symm
    rw [this]
  · rw [filterMat_some f A B hrun hne, entry_with_val, FeatModel.LA.Csr.entry_eq_sum_Ico]
    apply Finset.sum_congr rfl
    intro k hk
    rw [Finset.mem_Ico] at hk
    unfold UnitF.matVals
    rw [rewriteRows_getD_free h f.es hes _ hi hk hfree]

/-- the solution of the filtered system takes the prescribed boundary value: if `B = filter_mat A`,
    `b' = filter_rhs b` and `sol` satisfies equation `i` of `B sol = b'` for a constrained row with stored diagonal,
    then `sol[i]` is the prescribed value -/
theorem C06.filtered_system_solution_takes_boundary_values {α : Type} [CommSemiring α] (f : UnitF α)
    (A B : FeatModel.LA.Csr α) (hwf : A.wf = true) (hes : ∀ e ∈ f.es, e.1 < A.rows) (hrun : f.filterMat A = some B)
    (b b' : List α) (hb : f.filterRhs b = some b')
    (i : Nat) (x : α) (hx : lastWrite f.es i = some x) (hib : i < b.length)
    (k0 : Nat) (hk0 : A.rowBegin i ≤ k0 ∧ k0 < A.rowEnd i) (hc0 : A.colInd.getD k0 0 = i)
    (huniq : ∀ k, A.rowBegin i ≤ k → k < A.rowEnd i → A.colInd.getD k 0 = i → k = k0)
    (sol : Array α) (hsol : B.rowSum sol i = b'.getD i 0) :
    sol.getD i 0 = x := by
  have h := (FeatModel.LA.Csr.wf_iff A).mp hwf
  have hm := lastWrite_isSome_mem f.es i x hx
  obtain ⟨e, hl⟩ := lastEntry_of_mem hm
  have hi := hes _ hm
  have hrow : B.rowSum sol i = sol.getD i 0 := by
    rw [filterMat_some f A B hrun (List.ne_nil_of_mem hm), rowSum_with_val]
    rw [← sum_unit_row_apply (A.rowBegin i) (A.rowEnd i) (fun k => A.colInd.getD k 0) i (fun c => sol.getD c 0) k0 hk0 hc0 huniq]
    apply Finset.sum_congr rfl
    intro k hk
    rw [Finset.mem_Ico] at hk
    rw [matVals_getD_constrained h f.es hes hi hk hl]
  have hb' := C06.unit_rhs_constrained f b b' i x hb hx hib
  rw [← hrow, hsol, List.getD_eq_getElem?_getD, hb']
  rfl

/-! ## chains / sequences of unit filters with pairwise disjoint index sets -/

/-- an index that no member constrains is untouched by the whole chain (all modes) -/
theorem C06.chain_units_untouched {α : Type} [Zero α] [One α] [Add α] [Mul α] [Sub α] [Neg α] [Div α] [DecidableEq α]
    (m : Mode) (fs : List (UnitF α)) (v w : List α) (i : Nat)
    (hrun : applyChain m (fs.map Flt.unit) (Vec.leaf v) = some (Vec.leaf w))
    (hfree : ∀ g ∈ fs, ∀ e ∈ g.es, e.1 ≠ i) : w[i]? = v[i]? ∧ w.length = v.length := by
  induction fs generalizing v with
  | nil =>
    simp only [List.map_nil, applyChain, Option.some.injEq, Vec.leaf.injEq] at hrun
    subst hrun; exact ⟨rfl, rfl⟩
  | cons g t ih =>
    simp only [List.map_cons, applyChain, Flt.apply] at hrun
    cases hg : g.apply m v with
    | none => simp [hg] at hrun
    | some v' =>
      simp only [hg, Option.map_some] at hrun
      obtain ⟨h1, h2⟩ := ih v' hrun (fun g' hg' => hfree g' (List.mem_cons_of_mem _ hg'))
      obtain ⟨h3, h4⟩ := C06.unit_unconstrained_untouched m g v v' i hg (hfree g List.mem_cons_self)
      exact ⟨h1.trans h3, h2.trans h4⟩

/-- members with pairwise disjoint index sets: after the chain EVERY member's constraint holds exactly
    (`filter_rhs` / `filter_sol`; compare `C06.chain_last_unit_wins` for overlapping members) -/
theorem C06.chain_disjoint_all_constraints {α : Type} [Zero α] [One α] [Add α] [Mul α] [Sub α] [Neg α] [Div α]
    [DecidableEq α] (fs : List (UnitF α)) (v w : List α)
    (hrun : applyChain Mode.rhs (fs.map Flt.unit) (Vec.leaf v) = some (Vec.leaf w))
    (hdis : fs.Pairwise (fun f g => ∀ a ∈ f.es, ∀ b ∈ g.es, a.1 ≠ b.1)) :
    ∀ f ∈ fs, ∀ i x, lastWrite f.es i = some x → i < v.length → w[i]? = some x := by
  induction fs generalizing v with
  | nil => intro f hf; simp at hf
  | cons g t ih =>
    simp only [List.map_cons, applyChain, Flt.apply] at hrun
    rw [List.pairwise_cons] at hdis
    cases hg : g.apply Mode.rhs v with
    | none => simp [hg] at hrun
    | some v' =>
      simp only [hg, Option.map_some] at hrun
      have hlen : v'.length = v.length := by
        simp only [UnitF.apply, UnitF.filterRhs] at hg
        split at hg
        · simp at hg; rw [hg]
        · split at hg
          · simp at hg
          · simp at hg; rw [← hg, length_scatter]
      intro f hf i x hx hi
      rcases List.mem_cons.mp hf with hh | hh
      · subst hh
        have hmem := lastWrite_isSome_mem f.es i x hx
        have hfree : ∀ g' ∈ t, ∀ e ∈ g'.es, e.1 ≠ i := by
          intro g' hg' e he heq
          exact hdis.1 g' hg' (i, x) hmem e he heq.symm
        rw [(C06.chain_units_untouched Mode.rhs t v' w i hrun hfree).1]
        exact C06.unit_rhs_constrained f v v' i x hg hx hi
      · exact ih v' hrun hdis.2 f hh i x hx (by omega)

/-- the hypotheses of the matrix theorems are satisfiable by a non-trivial value: a well-formed 2x2 CSR matrix, row 0
    constrained (stored diagonal at position 0) becomes `(1, 0)`, row 1 keeps its entry -/
example :
    let A : FeatModel.LA.Csr Nat := { rows := 2, cols := 2, rowPtr := #[0, 2, 3], colInd := #[0, 1, 1], val := #[5, 6, 7] }
    let f : UnitF Nat := { size := 2, es := [(0, 9)] }
    A.wf = true ∧ (f.filterMat A).map (fun B => (B.val, B.entry 0 0, B.entry 0 1, B.entry 1 1)) = some (#[1, 0, 7], 1, 0, 7) := by
  decide +kernel


/-! ## blocked unit filter on vectors (`UnitFilterBlocked`): per pod entry `bs * i + j`.
    `f.skip x` is `_ignore_nans && Math::isnan(x)`; block indices pairwise different (what `add` guarantees). -/

/-- `filter_rhs/sol` (`modeVal = id`) write the prescribed component, `filter_def/cor` (`modeVal = 0`) write zero -
    for every component that is not marked NaN-to-be-ignored -/
theorem C06.unitB_constrained {α : Type} [Zero α] (m : Mode) (f : UnitBF α) (v w : List α)
    (hn : (f.es.map Prod.fst).Nodup) (hrun : f.apply m v = some w) (e : Nat × List α) (he : e ∈ f.es)
    (j : Nat) (hj : j < f.bs) (hs : f.skip (e.2.getD j 0) = false) (hin : f.bs * e.1 + j < v.length) :
    w[f.bs * e.1 + j]? = some (modeVal m (e.2.getD j 0)) := by
  rcases unitB_apply_spec m f v w hrun with ⟨h0, _⟩ | ⟨_, _, hw⟩
  · rw [h0] at he; simp at he
  · rw [hw, getElem?_scatter_pod_mem f.bs f.skip (modeVal m) f.es hn v e he j hj, if_pos hs]
    simp [hin]

/-- `ignore_nans`: a component whose filter value is NaN is left untouched (all four modes) -/
theorem C06.unitB_nan_component_untouched {α : Type} [Zero α] (m : Mode) (f : UnitBF α) (v w : List α)
    (hn : (f.es.map Prod.fst).Nodup) (hrun : f.apply m v = some w) (e : Nat × List α) (he : e ∈ f.es)
    (j : Nat) (hj : j < f.bs) (hs : f.skip (e.2.getD j 0) = true) :
    w[f.bs * e.1 + j]? = v[f.bs * e.1 + j]? := by
  rcases unitB_apply_spec m f v w hrun with ⟨_, hw⟩ | ⟨_, _, hw⟩
  · rw [hw]
  · rw [hw, getElem?_scatter_pod_mem f.bs f.skip (modeVal m) f.es hn v e he j hj, if_neg (by rw [hs]; simp)]

/-- every pod entry outside the constrained blocks is unchanged and the length is kept (all four modes) -/
theorem C06.unitB_unconstrained_untouched {α : Type} [Zero α] (m : Mode) (f : UnitBF α) (v w : List α)
    (hrun : f.apply m v = some w) (p : Nat) (hp : ∀ e ∈ f.es, ¬ (f.bs * e.1 ≤ p ∧ p < f.bs * e.1 + f.bs)) :
    w[p]? = v[p]? ∧ w.length = v.length := by
  rcases unitB_apply_spec m f v w hrun with ⟨_, hw⟩ | ⟨_, _, hw⟩
  · rw [hw]; exact ⟨rfl, rfl⟩
  · rw [hw]
    exact ⟨getElem?_scatter_pod_free f.bs f.skip (modeVal m) f.es v p hp, length_scatter _ _⟩

/-- applying the same blocked unit filter again changes nothing (all four modes, any entry list) -/
theorem C06.unitB_idempotent {α : Type} [Zero α] (m : Mode) (f : UnitBF α) (v w : List α)
    (hrun : f.apply m v = some w) : f.apply m w = some w := by
  cases m <;> simp only [UnitBF.apply, UnitBF.filterRhs, UnitBF.filterDef] at hrun ⊢ <;>
    (split at hrun
     · simp only [Option.some.injEq] at hrun; subst hrun; rename_i he; simp [he]
     · rename_i he
       split at hrun
       · simp at hrun
       · rename_i hs
         simp only [Option.some.injEq] at hrun
         subst hrun
         simp only [he, length_scatter, hs, scatter_idem]
         simp)

/-! ## combinators, one statement per member function: `TupleFilter` / `PowerFilter` call the SAME member function
    of sub-filter `k` on component `k`; `FilterChain` / `FilterSequence` call the SAME member function of every
    sub-filter in order on the same vector.  (`Flt.apply m` is `filter_rhs/sol/def/cor` for `m = rhs/sol/defect/cor`.) -/

/-- tuple / power, any member function `m`: the call succeeds with `ws` iff there are as many components as
    sub-filters and sub-filter `k` applied in the same mode `m` to component `k` gives `ws[k]` -/
theorem C06.tuple_dispatch {α : Type} [Zero α] [One α] [Add α] [Mul α] [Sub α] [Neg α] [Div α] [DecidableEq α]
    (m : Mode) (fs : List (Flt α)) (vs ws : List (Vec α)) :
    applyTuple m fs vs = some ws ↔
      (fs.length = vs.length ∧ ws.length = vs.length ∧
        ∀ k (hk : k < fs.length) (hv : k < vs.length) (hw : k < ws.length), fs[k].apply m vs[k] = some ws[k]) := by
  induction fs generalizing vs ws with
  | nil =>
    cases vs with
    | nil =>
      simp only [applyTuple, Option.some.injEq, List.length_nil]
      constructor
      · intro h; subst h; exact ⟨trivial, rfl, fun k hk => absurd hk (by simp)⟩
      · intro h; exact (List.eq_nil_of_length_eq_zero h.2.1).symm
    | cons v vt => simp [applyTuple]
  | cons f ft ih =>
    cases vs with
    | nil => simp [applyTuple]
    | cons v vt =>
      simp only [applyTuple]
      constructor
      · intro h
        cases h1 : f.apply m v with
        | none => simp [h1] at h
        | some a =>
          cases h2 : applyTuple m ft vt with
          | none => simp [h1, h2] at h
          | some b =>
            simp only [h1, h2, Option.some.injEq] at h
            subst h
            obtain ⟨i1, i2, i3⟩ := (ih vt b).mp h2
            refine ⟨by simp [i1], by simp [i2], ?_⟩
            intro k hk hv hw
            cases k with
            | zero => simpa using h1
            | succ k => simpa using i3 k (by simpa using hk) (by simpa using hv) (by simpa using hw)
      · intro ⟨h1, h2, h3⟩
        cases ws with
        | nil => simp at h2
        | cons a b =>
          have e0 := h3 0 (by simp) (by simp) (by simp)
          simp only [List.getElem_cons_zero] at e0
          have e1 : applyTuple m ft vt = some b := by
            apply (ih vt b).mpr
            refine ⟨by simpa using h1, by simpa using h2, ?_⟩
            intro k hk hv hw
            have := h3 (k + 1) (by simpa using hk) (by simpa using hv) (by simpa using hw)
            simpa using this
          simp [e0, e1]

theorem C06.tuple_filter_rhs {α : Type} [Zero α] [One α] [Add α] [Mul α] [Sub α] [Neg α] [Div α] [DecidableEq α]
    (fs : List (Flt α)) (vs ws : List (Vec α)) (h : (Flt.tuple fs).apply Mode.rhs (Vec.node vs) = some (Vec.node ws))
    (k : Nat) (hk : k < fs.length) (hv : k < vs.length) (hw : k < ws.length) :
    fs[k].apply Mode.rhs vs[k] = some ws[k] := by
  simp only [Flt.apply] at h
  cases h1 : applyTuple Mode.rhs fs vs with
  | none => simp [h1] at h
  | some b => simp only [h1, Option.map_some, Option.some.injEq, Vec.node.injEq] at h; subst h
              exact ((C06.tuple_dispatch Mode.rhs fs vs b).mp h1).2.2 k hk hv hw

theorem C06.tuple_filter_sol {α : Type} [Zero α] [One α] [Add α] [Mul α] [Sub α] [Neg α] [Div α] [DecidableEq α]
    (fs : List (Flt α)) (vs ws : List (Vec α)) (h : (Flt.tuple fs).apply Mode.sol (Vec.node vs) = some (Vec.node ws))
    (k : Nat) (hk : k < fs.length) (hv : k < vs.length) (hw : k < ws.length) :
    fs[k].apply Mode.sol vs[k] = some ws[k] := by
  simp only [Flt.apply] at h
  cases h1 : applyTuple Mode.sol fs vs with
  | none => simp [h1] at h
  | some b => simp only [h1, Option.map_some, Option.some.injEq, Vec.node.injEq] at h; subst h
              exact ((C06.tuple_dispatch Mode.sol fs vs b).mp h1).2.2 k hk hv hw

theorem C06.tuple_filter_def {α : Type} [Zero α] [One α] [Add α] [Mul α] [Sub α] [Neg α] [Div α] [DecidableEq α]
    (fs : List (Flt α)) (vs ws : List (Vec α)) (h : (Flt.tuple fs).apply Mode.defect (Vec.node vs) = some (Vec.node ws))
    (k : Nat) (hk : k < fs.length) (hv : k < vs.length) (hw : k < ws.length) :
    fs[k].apply Mode.defect vs[k] = some ws[k] := by
  simp only [Flt.apply] at h
  cases h1 : applyTuple Mode.defect fs vs with
  | none => simp [h1] at h
  | some b => simp only [h1, Option.map_some, Option.some.injEq, Vec.node.injEq] at h; subst h
              exact ((C06.tuple_dispatch Mode.defect fs vs b).mp h1).2.2 k hk hv hw

theorem C06.tuple_filter_cor {α : Type} [Zero α] [One α] [Add α] [Mul α] [Sub α] [Neg α] [Div α] [DecidableEq α]
    (fs : List (Flt α)) (vs ws : List (Vec α)) (h : (Flt.tuple fs).apply Mode.cor (Vec.node vs) = some (Vec.node ws))
    (k : Nat) (hk : k < fs.length) (hv : k < vs.length) (hw : k < ws.length) :
    fs[k].apply Mode.cor vs[k] = some ws[k] := by
  simp only [Flt.apply] at h
  cases h1 : applyTuple Mode.cor fs vs with
  | none => simp [h1] at h
  | some b => simp only [h1, Option.map_some, Option.some.injEq, Vec.node.injEq] at h; subst h
              exact ((C06.tuple_dispatch Mode.cor fs vs b).mp h1).2.2 k hk hv hw

/-- chain / sequence, any member function `m`: the members are applied left to right, each in the same mode `m`,
    each to the result of its predecessor -/
theorem C06.chain_dispatch {α : Type} [Zero α] [One α] [Add α] [Mul α] [Sub α] [Neg α] [Div α] [DecidableEq α]
    (m : Mode) (fs : List (Flt α)) (v : Vec α) :
    (Flt.chain fs).apply m v = fs.foldl (fun acc f => acc.bind (f.apply m)) (some v) := by
  have key : ∀ (fs : List (Flt α)) (o : Option (Vec α)),
      fs.foldl (fun acc f => acc.bind (f.apply m)) o = o.bind (applyChain m fs) := by
    intro fs
    induction fs with
    | nil => intro o; cases o <;> simp [applyChain]
    | cons f t ih =>
      intro o
      simp only [List.foldl_cons, ih]
      cases o with
      | none => simp
      | some u =>
        simp only [Option.bind_some, applyChain]
        cases f.apply m u <;> simp
  rw [key]
  simp [Flt.apply]

theorem C06.chain_filter_rhs {α : Type} [Zero α] [One α] [Add α] [Mul α] [Sub α] [Neg α] [Div α] [DecidableEq α]
    (f : Flt α) (fs : List (Flt α)) (v : Vec α) :
    (Flt.chain (f :: fs)).apply Mode.rhs v = (f.apply Mode.rhs v).bind ((Flt.chain fs).apply Mode.rhs) := by
  simp only [Flt.apply, applyChain]; cases f.apply Mode.rhs v <;> simp [Flt.apply]

theorem C06.chain_filter_sol {α : Type} [Zero α] [One α] [Add α] [Mul α] [Sub α] [Neg α] [Div α] [DecidableEq α]
    (f : Flt α) (fs : List (Flt α)) (v : Vec α) :
    (Flt.chain (f :: fs)).apply Mode.sol v = (f.apply Mode.sol v).bind ((Flt.chain fs).apply Mode.sol) := by
  simp only [Flt.apply, applyChain]; cases f.apply Mode.sol v <;> simp [Flt.apply]

theorem C06.chain_filter_def {α : Type} [Zero α] [One α] [Add α] [Mul α] [Sub α] [Neg α] [Div α] [DecidableEq α]
    (f : Flt α) (fs : List (Flt α)) (v : Vec α) :
    (Flt.chain (f :: fs)).apply Mode.defect v = (f.apply Mode.defect v).bind ((Flt.chain fs).apply Mode.defect) := by
  simp only [Flt.apply, applyChain]; cases f.apply Mode.defect v <;> simp [Flt.apply]

theorem C06.chain_filter_cor {α : Type} [Zero α] [One α] [Add α] [Mul α] [Sub α] [Neg α] [Div α] [DecidableEq α]
    (f : Flt α) (fs : List (Flt α)) (v : Vec α) :
    (Flt.chain (f :: fs)).apply Mode.cor v = (f.apply Mode.cor v).bind ((Flt.chain fs).apply Mode.cor) := by
  simp only [Flt.apply, applyChain]; cases f.apply Mode.cor v <;> simp [Flt.apply]

/-- `filter_mat` of a chain / sequence: `filter_mat` of every member in order (unit: rows rewritten; mean, none:
    nothing) -/
theorem C06.chain_filter_mat {α : Type} [Zero α] [One α] [Mul α] (f : Flt α) (fs : List (Flt α))
    (A : FeatModel.LA.Csr α) :
    (Flt.chain (f :: fs)).filterMat A = (f.filterMat A).bind ((Flt.chain fs).filterMat) := by
  simp only [Flt.filterMat, filterMatChain]; cases f.filterMat A <;> simp [Flt.filterMat]

/-- the four member functions of the leaves really differ, so the dispatch statements are not vacuous:
    a unit filter separates {rhs, sol} from {def, cor}; a mean filter with non-parallel weights and a non-zero
    solution mean separates {rhs, def}, {sol} and {cor}; a chain of both separates all four -/
example :
    let u : Flt Rat := .unit { size := 2, es := [(0, 7)] }
    let mf : Flt Rat := .mean { prim := [1, 2], dual := [3, 1], vol := 5, sol := 4 }
    let c : Flt Rat := .chain [u, mf]
    let v : Vec Rat := .leaf [1, 1]
    let r := fun (m : Mode) => (c.apply m v).map Vec.leaves
    r .rhs ≠ r .sol ∧ r .rhs ≠ r .defect ∧ r .rhs ≠ r .cor ∧ r .sol ≠ r .defect ∧ r .sol ≠ r .cor ∧ r .defect ≠ r .cor := by
  decide +kernel


/-! ## blocked mean filter (`MeanFilterBlocked`), per block component `j`: `col bs j x` is the scalar vector of
    component `j`; the volume of the component must be consistent and non-zero (for a filter object built by the
    constructors this is a theorem since the repair of finding `c06-edge:F1`: see `C06.meanB3_*` below) -/

/-- `filter_cor`: component `j` of the result has zero primal mean -/
theorem C06.meanB_cor_zero {α : Type} [Field α] [DecidableEq α] (f : MeanBF α) (v w : List α) (j : Nat)
    (hj : j < f.bs) (hvol : f.vol.getD j 0 = dotL (col f.bs j f.prim) (col f.bs j f.dual))
    (hnz : f.vol.getD j 0 ≠ 0) (hne : f.prim ≠ []) (hrun : f.filterCor v = some w) :
    dotL (col f.bs j w) (col f.bs j f.dual) = 0 := by
  unfold MeanBF.filterCor at hrun
  have hemp : f.prim.isEmpty = false := by cases h : f.prim <;> simp_all
  simp only [hemp, Bool.false_eq_true, if_false] at hrun
  obtain ⟨hl, hc⟩ := dotAxpyB_spec f v f.dual f.prim w _ hrun j hj
  rw [hc, dotL_axpyL _ _ _ _ (by rw [length_col, length_col, hl]), ← hvol]
  field_simp
  ring

/-- `filter_rhs` / `filter_def`: component `j` of the result has zero dual mean -/
theorem C06.meanB_rhs_zero {α : Type} [Field α] [DecidableEq α] (f : MeanBF α) (v w : List α) (j : Nat)
    (hj : j < f.bs) (hvol : f.vol.getD j 0 = dotL (col f.bs j f.prim) (col f.bs j f.dual))
    (hnz : f.vol.getD j 0 ≠ 0) (hne : f.prim ≠ []) (hrun : f.filterRhs v = some w) :
    dotL (col f.bs j w) (col f.bs j f.prim) = 0 := by
  unfold MeanBF.filterRhs at hrun
  have hemp : f.prim.isEmpty = false := by cases h : f.prim <;> simp_all
  simp only [hemp, Bool.false_eq_true, if_false] at hrun
  obtain ⟨hl, hc⟩ := dotAxpyB_spec f v f.prim f.dual w _ hrun j hj
  rw [hc, dotL_axpyL _ _ _ _ (by rw [length_col, length_col, hl]),
    dotL_comm (col f.bs j f.dual) (col f.bs j f.prim), ← hvol]
  field_simp
  ring

/-- `filter_sol`: the weighted mean of component `j` is the prescribed solution mean of that component -/
theorem C06.meanB_sol {α : Type} [Field α] [DecidableEq α] (f : MeanBF α) (v w : List α) (j : Nat)
    (hj : j < f.bs) (hvol : f.vol.getD j 0 = dotL (col f.bs j f.prim) (col f.bs j f.dual))
    (hnz : f.vol.getD j 0 ≠ 0) (hne : f.prim ≠ []) (hrun : f.filterSol v = some w) :
    dotL (col f.bs j w) (col f.bs j f.dual) / f.vol.getD j 0 = f.sol.getD j 0 := by
  unfold MeanBF.filterSol at hrun
  have hemp : f.prim.isEmpty = false := by cases h : f.prim <;> simp_all
  simp only [hemp, Bool.false_eq_true, if_false] at hrun
  obtain ⟨hl, hc⟩ := dotAxpyB_spec f v f.dual f.prim w _ hrun j hj
  rw [hc, dotL_axpyL _ _ _ _ (by rw [length_col, length_col, hl]), ← hvol]
  field_simp
  ring


/-! ## blocked unit filter on a well-formed BCSR matrix, for ALL block shapes `bh x bw` (square or not), per stored
    scalar `v[j][k][l]` (`UnitBF.pod A j k l`): block `j` of the constrained block row, block-row component `k`,
    column component `l`.  `f.skip x` is `_ignore_nans && isnan(x)`. -/

/-- `filter_mat`: in a constrained block row every stored block becomes zero, except that the diagonal block
    (`col_idx[j] == row`) gets ones on its diagonal `k = l` (for `bh > bw` the rows `k ≥ bw` have no such entry and
    become zero rows); block-row components whose filter value is an ignored NaN are left untouched -/
theorem C06.unitB_mat_rows {α : Type} [Zero α] [One α] [Mul α] (f : UnitBF α) (A B : FeatModel.LA.Bcsr α)
    (hwf : A.wf = true) (hn : (f.es.map Prod.fst).Nodup) (hes : ∀ e ∈ f.es, e.1 < A.rows)
    (hrun : f.filterMat A = some B) (e0 : Nat × List α) (he0 : e0 ∈ f.es) (j0 k0 l0 : Nat)
    (hj0 : A.rowPtr.getD e0.1 0 ≤ j0 ∧ j0 < A.rowPtr.getD (e0.1 + 1) 0) (hk0 : k0 < A.bh) (hl0 : l0 < A.bw) :
    B.val.getD (UnitBF.pod A j0 k0 l0) 0 =
      if f.skip (e0.2.getD k0 0) then A.val.getD (UnitBF.pod A j0 k0 l0) 0
      else if A.colInd.getD j0 0 = e0.1 ∧ k0 = l0 then 1 else 0 := by
  have W := C02L.Conv.bcsr_wf_of A hwf
  have hq := pod_lt W (hes e0 he0) hj0.2 hk0 hl0
  unfold UnitBF.filterMat at hrun
  have hemp : f.es.isEmpty = false := by cases h : f.es <;> simp_all
  simp only [hemp, Bool.false_eq_true, if_false] at hrun
  split at hrun
  · simp at hrun
  · simp only [Option.some.injEq] at hrun
    rw [← hrun]
    show (UnitBF.matVals f.skip A f.es).getD _ 0 = _
    rw [matVals_eq]
    have hloc : ∀ (e : Nat × List α) j k, k < A.bh → ¬ (j = j0 ∧ k = k0) →
        ∀ y, phiMat f.skip A (UnitBF.pod A j0 k0 l0) e j k y = y := by
      intro e j k hk hne y
      have hseg := seg_other A hk hk0 hl0 hne
      unfold phiMat
      by_cases hs : f.skip (e.2.getD k 0)
      · simp only [hs, if_true]
      · simp only [hs, Bool.false_eq_true, if_false]
        have h1 : ¬ ((A.colInd.getD j 0 = e.1 ∧ k < A.bw) ∧ UnitBF.pod A j k k = UnitBF.pod A j0 k0 l0) := by
          intro hh
          apply hseg
          have hkw := hh.1.2
          have hp := hh.2
          unfold UnitBF.pod at hp ⊢
          omega
        rw [if_neg h1, if_neg hseg]
    rw [(getD_rewriteBlocks W f.es hn hes (bodyMat f.skip A) (phiMat f.skip A (UnitBF.pod A j0 k0 l0)) _
      (size_bodyMat f.skip A) (fun e j k v hv => getD_bodyMat f.skip A _ e j k v hv) j0 k0 hk0 hloc e0.1
      (hes e0 he0) hj0 A.val hq).1 e0 he0 rfl]
    unfold phiMat
    by_cases hs : f.skip (e0.2.getD k0 0)
    · simp only [hs, if_true]
    · simp only [hs, Bool.false_eq_true, if_false]
      have hseg : UnitBF.pod A j0 k0 0 ≤ UnitBF.pod A j0 k0 l0 ∧
          UnitBF.pod A j0 k0 l0 < UnitBF.pod A j0 k0 0 + A.bw := by unfold UnitBF.pod; omega
      by_cases hd : A.colInd.getD j0 0 = e0.1 ∧ k0 = l0
      · have : (A.colInd.getD j0 0 = e0.1 ∧ k0 < A.bw) ∧ UnitBF.pod A j0 k0 k0 = UnitBF.pod A j0 k0 l0 :=
          ⟨⟨hd.1, by omega⟩, by rw [hd.2]⟩
        rw [if_pos this, if_pos hd]
      · have : ¬ ((A.colInd.getD j0 0 = e0.1 ∧ k0 < A.bw) ∧ UnitBF.pod A j0 k0 k0 = UnitBF.pod A j0 k0 l0) := by
          intro hh
          apply hd
          refine ⟨hh.1.1, ?_⟩
          have hp := hh.2
          unfold UnitBF.pod at hp
          omega
        rw [if_neg this, if_pos hseg, if_neg hd]

/-- `filter_offdiag_row_mat`: constrained block rows become zero (ignored NaN components untouched) -/
theorem C06.unitB_offdiag_rows {α : Type} [Zero α] [One α] [Mul α] (f : UnitBF α) (A B : FeatModel.LA.Bcsr α)
    (hwf : A.wf = true) (hn : (f.es.map Prod.fst).Nodup) (hes : ∀ e ∈ f.es, e.1 < A.rows)
    (hrun : f.filterOffdiagRowMat A = some B) (e0 : Nat × List α) (he0 : e0 ∈ f.es) (j0 k0 l0 : Nat)
    (hj0 : A.rowPtr.getD e0.1 0 ≤ j0 ∧ j0 < A.rowPtr.getD (e0.1 + 1) 0) (hk0 : k0 < A.bh) (hl0 : l0 < A.bw) :
    B.val.getD (UnitBF.pod A j0 k0 l0) 0 =
      if f.skip (e0.2.getD k0 0) then A.val.getD (UnitBF.pod A j0 k0 l0) 0 else 0 := by
  have W := C02L.Conv.bcsr_wf_of A hwf
  have hq := pod_lt W (hes e0 he0) hj0.2 hk0 hl0
  unfold UnitBF.filterOffdiagRowMat at hrun
  have hemp : f.es.isEmpty = false := by cases h : f.es <;> simp_all
  simp only [hemp, Bool.false_eq_true, if_false] at hrun
  split at hrun
  · simp at hrun
  · simp only [Option.some.injEq] at hrun
    rw [← hrun]
    show (UnitBF.offdiagVals f.skip A f.es).getD _ 0 = _
    rw [offdiagVals_eq]
    have hloc : ∀ (e : Nat × List α) j k, k < A.bh → ¬ (j = j0 ∧ k = k0) →
        ∀ y, phiOff f.skip A (UnitBF.pod A j0 k0 l0) e j k y = y := by
      intro e j k hk hne y
      have hseg := seg_other A hk hk0 hl0 hne
      unfold phiOff
      by_cases hs : f.skip (e.2.getD k 0)
      · simp only [hs, if_true]
      · simp only [hs, Bool.false_eq_true, if_false]
        rw [if_neg hseg]
    rw [(getD_rewriteBlocks W f.es hn hes (bodyOff f.skip A) (phiOff f.skip A (UnitBF.pod A j0 k0 l0)) _
      (size_bodyOff f.skip A) (fun e j k v hv => getD_bodyOff f.skip A _ e j k v hv) j0 k0 hk0 hloc e0.1
      (hes e0 he0) hj0 A.val hq).1 e0 he0 rfl]
    unfold phiOff
    have hseg : UnitBF.pod A j0 k0 0 ≤ UnitBF.pod A j0 k0 l0 ∧
        UnitBF.pod A j0 k0 l0 < UnitBF.pod A j0 k0 0 + A.bw := by unfold UnitBF.pod; omega
    rw [if_pos hseg]

/-- `filter_weak_matrix_rows`: a constrained block row of `A` becomes `diag(value) * ` the same row of `M` -/
theorem C06.unitB_weak_rows {α : Type} [Zero α] [One α] [Mul α] (f : UnitBF α) (A B : FeatModel.LA.Bcsr α)
    (valM : Array α) (hwf : A.wf = true) (hn : (f.es.map Prod.fst).Nodup) (hes : ∀ e ∈ f.es, e.1 < A.rows)
    (hrun : f.filterWeakMatrixRows A valM = some B) (e0 : Nat × List α) (he0 : e0 ∈ f.es) (j0 k0 l0 : Nat)
    (hj0 : A.rowPtr.getD e0.1 0 ≤ j0 ∧ j0 < A.rowPtr.getD (e0.1 + 1) 0) (hk0 : k0 < A.bh) (hl0 : l0 < A.bw) :
    B.val.getD (UnitBF.pod A j0 k0 l0) 0 = e0.2.getD k0 0 * valM.getD (UnitBF.pod A j0 k0 l0) 0 := by
  have W := C02L.Conv.bcsr_wf_of A hwf
  have hq := pod_lt W (hes e0 he0) hj0.2 hk0 hl0
  unfold UnitBF.filterWeakMatrixRows at hrun
  have hemp : f.es.isEmpty = false := by cases h : f.es <;> simp_all
  simp only [hemp, Bool.false_eq_true, if_false] at hrun
  split at hrun
  · simp at hrun
  · simp only [Option.some.injEq] at hrun
    rw [← hrun]
    show (UnitBF.weakVals A valM f.es).getD _ 0 = _
    rw [weakVals_eq]
    have hloc : ∀ (e : Nat × List α) j k, k < A.bh → ¬ (j = j0 ∧ k = k0) →
        ∀ y, phiWeak A valM (UnitBF.pod A j0 k0 l0) e j k y = y := by
      intro e j k hk hne y
      unfold phiWeak
      rw [if_neg (seg_other A hk hk0 hl0 hne)]
    rw [(getD_rewriteBlocks W f.es hn hes (bodyWeak A valM) (phiWeak A valM (UnitBF.pod A j0 k0 l0)) _
      (fun e j k v => by unfold bodyWeak; exact size_setRange _ _ _ _)
      (fun e j k v hv => getD_bodyWeak A valM _ e j k v hv) j0 k0 hk0 hloc e0.1
      (hes e0 he0) hj0 A.val hq).1 e0 he0 rfl]
    unfold phiWeak
    have hseg : UnitBF.pod A j0 k0 0 ≤ UnitBF.pod A j0 k0 l0 ∧
        UnitBF.pod A j0 k0 l0 < UnitBF.pod A j0 k0 0 + A.bw := by unfold UnitBF.pod; omega
    rw [if_pos hseg]

/-- all three matrix members: the stored scalars of block rows that no entry constrains are unchanged -/
theorem C06.unitB_mat_other_rows_untouched {α : Type} [Zero α] [One α] [Mul α] (f : UnitBF α)
    (A : FeatModel.LA.Bcsr α) (valM : Array α) (hwf : A.wf = true) (hn : (f.es.map Prod.fst).Nodup)
    (hes : ∀ e ∈ f.es, e.1 < A.rows) (i0 j0 k0 l0 : Nat) (hi0 : i0 < A.rows) (hfree : ∀ e ∈ f.es, e.1 ≠ i0)
    (hj0 : A.rowPtr.getD i0 0 ≤ j0 ∧ j0 < A.rowPtr.getD (i0 + 1) 0) (hk0 : k0 < A.bh) (hl0 : l0 < A.bw) :
    (UnitBF.matVals f.skip A f.es).getD (UnitBF.pod A j0 k0 l0) 0 = A.val.getD (UnitBF.pod A j0 k0 l0) 0 ∧
    (UnitBF.offdiagVals f.skip A f.es).getD (UnitBF.pod A j0 k0 l0) 0 = A.val.getD (UnitBF.pod A j0 k0 l0) 0 ∧
    (UnitBF.weakVals A valM f.es).getD (UnitBF.pod A j0 k0 l0) 0 = A.val.getD (UnitBF.pod A j0 k0 l0) 0 := by
  have W := C02L.Conv.bcsr_wf_of A hwf
  have hq := pod_lt W hi0 hj0.2 hk0 hl0
  refine ⟨?_, ?_, ?_⟩
  · rw [matVals_eq]
    refine (getD_rewriteBlocks W f.es hn hes (bodyMat f.skip A) (phiMat f.skip A (UnitBF.pod A j0 k0 l0)) _
      (size_bodyMat f.skip A) (fun e j k v hv => getD_bodyMat f.skip A _ e j k v hv) j0 k0 hk0 ?_ i0 hi0 hj0
      A.val hq).2 hfree
    intro e j k hk hne y
    have hseg := seg_other A hk hk0 hl0 hne
    unfold phiMat
    by_cases hs : f.skip (e.2.getD k 0)
    · simp only [hs, if_true]
    · simp only [hs, Bool.false_eq_true, if_false]
      have h1 : ¬ ((A.colInd.getD j 0 = e.1 ∧ k < A.bw) ∧ UnitBF.pod A j k k = UnitBF.pod A j0 k0 l0) := by
        intro hh
        apply hseg
        have hkw := hh.1.2
        have hp := hh.2
        unfold UnitBF.pod at hp ⊢
        omega
      rw [if_neg h1, if_neg hseg]
  · rw [offdiagVals_eq]
    refine (getD_rewriteBlocks W f.es hn hes (bodyOff f.skip A) (phiOff f.skip A (UnitBF.pod A j0 k0 l0)) _
      (size_bodyOff f.skip A) (fun e j k v hv => getD_bodyOff f.skip A _ e j k v hv) j0 k0 hk0 ?_ i0 hi0 hj0
      A.val hq).2 hfree
    intro e j k hk hne y
    unfold phiOff
    by_cases hs : f.skip (e.2.getD k 0)
    · simp only [hs, if_true]
    · simp only [hs, Bool.false_eq_true, if_false]
      rw [if_neg (seg_other A hk hk0 hl0 hne)]
  · rw [weakVals_eq]
    refine (getD_rewriteBlocks W f.es hn hes (bodyWeak A valM) (phiWeak A valM (UnitBF.pod A j0 k0 l0)) _
      (fun e j k v => by unfold bodyWeak; exact size_setRange _ _ _ _)
      (fun e j k v hv => getD_bodyWeak A valM _ e j k v hv) j0 k0 hk0 ?_ i0 hi0 hj0 A.val hq).2 hfree
    intro e j k hk hne y
    unfold phiWeak
    rw [if_neg (seg_other A hk hk0 hl0 hne)]

/-! ## Global::MeanFilter (one rank; `wdot` = the `triple_dot` with the frequency vector + allreduce when a communicator
    and frequencies are present, the plain `dot` otherwise) and Global::Filter.
    `Global::Filter<F, Mirror>::filter_*(v)` is `F::filter_*(v.local())` (kernel/global/filter.hpp): the driver runs the
    `gvec` cases through the very same `Flt.apply`, so every theorem above is a theorem about the global wrapper. -/

/-- `filter_rhs` / `filter_def`: the (frequency-weighted, i.e. global) dual mean of the result vanishes -/
theorem C06.gmean_rhs_zero {α : Type} [Field α] [DecidableEq α] (comm : Bool) (prim dual freq : List α)
    (f : GMeanF α) (hf : GMeanF.make comm prim dual freq = some f) (hne : prim ≠ []) (v w : List α)
    (hrun : f.filterRhs v = some w) : GMeanF.wdot f.freq f.useFreq w f.prim = some 0 := by
  unfold GMeanF.make at hf
  simp only at hf
  cases hvol : GMeanF.wdot freq (!freq.isEmpty && comm) prim dual with
  | none => simp [hvol] at hf
  | some vol =>
    simp only [hvol, Option.some.injEq] at hf
    subst hf
    have hemp : prim.isEmpty = false := by cases h : prim <;> simp_all
    simp only [GMeanF.filterRhs, GMeanF.dotAxpy, hemp, Bool.false_eq_true, if_false] at hrun ⊢
    cases hint : GMeanF.wdot freq (!freq.isEmpty && comm) v prim with
    | none => simp [hint] at hrun
    | some integ =>
      simp only [hint] at hrun
      split at hrun
      · simp at hrun
      · rename_i hv0
        split at hrun
        · simp at hrun
        · rename_i hlen
          have hl : v.length = dual.length := by simpa using hlen
          simp only [Option.some.injEq] at hrun
          subst hrun
          unfold GMeanF.wdot at hvol hint ⊢
          cases hu : (!freq.isEmpty && comm) with
          | true =>
            simp only [hu, if_true] at hvol hint ⊢
            split at hvol
            · simp at hvol
            · rename_i h1
              split at hint
              · simp at hint
              · rename_i h2
                simp only [Option.some.injEq] at hvol hint
                have h1' : prim.length = freq.length ∧ dual.length = freq.length := by
                  simpa [not_or] using h1
                have h2' : v.length = freq.length ∧ prim.length = freq.length := by
                  simpa [not_or] using h2
                have hlw : (axpyL v dual (-integ / vol)).length = v.length := length_axpyL _ _ _ hl
                have : ((axpyL v dual (-integ / vol)).length != freq.length ||
                    prim.length != freq.length) = false := by simp [hlw, h2'.1, h2'.2]
                simp only [this, Bool.false_eq_true, if_false, Option.some.injEq]
                rw [tdotL_axpyL freq v dual prim _ hl (by omega), hint, tdotL_comm freq dual prim, hvol]
                field_simp
                ring
          | false =>
            simp only [hu, Bool.false_eq_true, if_false] at hvol hint ⊢
            split at hvol
            · simp at hvol
            · split at hint
              · simp at hint
              · rename_i h2
                simp only [Option.some.injEq] at hvol hint
                have h2' : prim.length = v.length := by simpa using h2
                have hlw : (axpyL v dual (-integ / vol)).length = v.length := length_axpyL _ _ _ hl
                have : (prim.length != (axpyL v dual (-integ / vol)).length) = false := by simp [hlw, h2']
                simp only [this, Bool.false_eq_true, if_false, Option.some.injEq]
                rw [dotL_axpyL v dual prim _ hl, hint, dotL_comm dual prim, hvol]
                field_simp
                ring

/-! ## blocked mean filter after the repair of finding c06-edge:F1: the constructors test EVERY volume component
    (`|vol_j| > eps`), so a successfully constructed non-empty filter never divides by zero and the constraint
    theorems need no hypothesis about the volume.  `absGtEps x` is `Math::abs(x) > eps`; all that is used of it is
    `absGtEps x = true → x ≠ 0`. -/

/-- both value constructors: every volume component of the constructed (non-empty) filter is non-zero -/
theorem C06.meanB_constructed_volume_nonzero {α : Type} [Field α] [DecidableEq α] (absGtEps : α → Bool)
    (habs : ∀ x, absGtEps x = true → x ≠ 0) (bs : Nat) (prim dual sol vol : List α) (f : MeanBF α) (hne : prim ≠ [])
    (hf : MeanBF.mk3 absGtEps bs prim dual sol = some f ∨ MeanBF.mk4 absGtEps bs prim dual sol vol = some f) :
    f.bs = bs ∧ f.prim = prim ∧ ∀ j, j < bs → f.vol.getD j 0 ≠ 0 := by
  have hemp : prim.isEmpty = false := by cases h : prim <;> simp_all
  have key : ∀ (w : List α), MeanBF.volOk absGtEps bs w = true → ∀ j, j < bs → w.getD j 0 ≠ 0 := by
    intro w hw j hj
    simp only [MeanBF.volOk, List.all_eq_true, List.mem_range] at hw
    exact habs _ (hw j hj)
  rcases hf with hf | hf
  · unfold MeanBF.mk3 at hf
    split at hf
    · simp at hf
    · simp only [hemp, Bool.not_false, Bool.true_and] at hf
      split at hf
      · simp at hf
      · rename_i hok
        simp only [Option.some.injEq] at hf
        subst hf
        exact ⟨rfl, rfl, key _ (by simpa using hok)⟩
  · unfold MeanBF.mk4 at hf
    simp only [hemp, Bool.not_false, Bool.true_and] at hf
    split at hf
    · simp at hf
    · rename_i hok
      simp only [Option.some.injEq] at hf
      subst hf
      exact ⟨rfl, rfl, key _ (by simpa using hok)⟩

/-- hence the division-by-zero guard of `filter_rhs/sol/def/cor` never fires for a constructed filter
    (`vol` has one entry per block component) -/
theorem C06.meanB_constructed_divisions_defined {α : Type} [Field α] [DecidableEq α] (absGtEps : α → Bool)
    (habs : ∀ x, absGtEps x = true → x ≠ 0) (bs : Nat) (prim dual sol vol : List α) (f : MeanBF α) (hne : prim ≠ [])
    (hf : MeanBF.mk3 absGtEps bs prim dual sol = some f ∨ MeanBF.mk4 absGtEps bs prim dual sol vol = some f)
    (hlen : f.vol.length = bs) : f.vol.any (fun c => c = 0) = false := by
  obtain ⟨_, _, hnz⟩ := C06.meanB_constructed_volume_nonzero absGtEps habs bs prim dual sol vol f hne hf
  rw [Bool.eq_false_iff]
  intro hany
  simp only [List.any_eq_true, decide_eq_true_eq] at hany
  obtain ⟨c, hc, hc0⟩ := hany
  obtain ⟨i, hi, hic⟩ := List.getElem_of_mem hc
  have := hnz i (by omega)
  rw [List.getD_eq_getElem?_getD, List.getElem?_eq_getElem hi, Option.getD_some, hic] at this
  exact this hc0

/-- a filter built by the 3-argument constructor (volume computed by `dot_blocked`) has a consistent volume -/
theorem C06.meanB3_volume_consistent {α : Type} [Field α] [DecidableEq α] (absGtEps : α → Bool) (bs : Nat)
    (prim dual sol : List α) (f : MeanBF α) (hf : MeanBF.mk3 absGtEps bs prim dual sol = some f) (j : Nat)
    (hj : j < bs) : f.bs = bs ∧ f.prim = prim ∧
      f.vol.getD j 0 = dotL (col f.bs j f.prim) (col f.bs j f.dual) := by
  unfold MeanBF.mk3 at hf
  split at hf
  · simp at hf
  · simp only at hf
    split at hf
    · simp at hf
    · simp only [Option.some.injEq] at hf
      subst hf
      refine ⟨rfl, rfl, ?_⟩
      simp [dotBlocked, List.getD_eq_getElem?_getD, hj]

/-- `filter_cor` of a constructed filter: zero primal mean in every component, no volume hypothesis -/
theorem C06.meanB3_cor_zero {α : Type} [Field α] [DecidableEq α] (absGtEps : α → Bool)
    (habs : ∀ x, absGtEps x = true → x ≠ 0) (bs : Nat) (prim dual sol : List α) (f : MeanBF α) (hne : prim ≠ [])
    (hf : MeanBF.mk3 absGtEps bs prim dual sol = some f) (v w : List α) (hrun : f.filterCor v = some w)
    (j : Nat) (hj : j < bs) : dotL (col f.bs j w) (col f.bs j f.dual) = 0 := by
  obtain ⟨hb, hp, hvol⟩ := C06.meanB3_volume_consistent absGtEps bs prim dual sol f hf j hj
  obtain ⟨_, _, hnz⟩ := C06.meanB_constructed_volume_nonzero absGtEps habs bs prim dual sol [] f hne (Or.inl hf)
  exact C06.meanB_cor_zero f v w j (by omega) hvol (hnz j hj) (by rw [hp]; exact hne) hrun

/-- `filter_rhs` / `filter_def` of a constructed filter: zero dual mean in every component -/
theorem C06.meanB3_rhs_zero {α : Type} [Field α] [DecidableEq α] (absGtEps : α → Bool)
    (habs : ∀ x, absGtEps x = true → x ≠ 0) (bs : Nat) (prim dual sol : List α) (f : MeanBF α) (hne : prim ≠ [])
    (hf : MeanBF.mk3 absGtEps bs prim dual sol = some f) (v w : List α) (hrun : f.filterRhs v = some w)
    (j : Nat) (hj : j < bs) : dotL (col f.bs j w) (col f.bs j f.prim) = 0 := by
  obtain ⟨hb, hp, hvol⟩ := C06.meanB3_volume_consistent absGtEps bs prim dual sol f hf j hj
  obtain ⟨_, _, hnz⟩ := C06.meanB_constructed_volume_nonzero absGtEps habs bs prim dual sol [] f hne (Or.inl hf)
  exact C06.meanB_rhs_zero f v w j (by omega) hvol (hnz j hj) (by rw [hp]; exact hne) hrun

/-- `filter_sol` of a constructed filter: the weighted mean of every component is the prescribed solution mean -/
theorem C06.meanB3_sol {α : Type} [Field α] [DecidableEq α] (absGtEps : α → Bool)
    (habs : ∀ x, absGtEps x = true → x ≠ 0) (bs : Nat) (prim dual sol : List α) (f : MeanBF α) (hne : prim ≠ [])
    (hf : MeanBF.mk3 absGtEps bs prim dual sol = some f) (v w : List α) (hrun : f.filterSol v = some w)
    (j : Nat) (hj : j < bs) : dotL (col f.bs j w) (col f.bs j f.dual) / f.vol.getD j 0 = f.sol.getD j 0 := by
  obtain ⟨hb, hp, hvol⟩ := C06.meanB3_volume_consistent absGtEps bs prim dual sol f hf j hj
  obtain ⟨_, _, hnz⟩ := C06.meanB_constructed_volume_nonzero absGtEps habs bs prim dual sol [] f hne (Or.inl hf)
  exact C06.meanB_sol f v w j (by omega) hvol (hnz j hj) (by rw [hp]; exact hne) hrun

/-! ## blocked mean filter at full strength: ARBITRARY (pairwise different) per-component volumes.
    `MeanBF.component f j` is the scalar `MeanFilter` made of component `j` of the weights, the `j`-th volume and the
    `j`-th solution mean. -/

/-- components do not interact, in every mode: component `j` of the blocked result is exactly the SCALAR mean filter
    of component `j` (with volume `vol_j` - not `vol_0` or any other component's) applied to component `j` of the
    input.  No hypothesis on the volumes. -/
theorem C06.meanB_componentwise {α : Type} [Field α] [DecidableEq α] (m : Mode) (f : MeanBF α) (v w : List α)
    (hrun : f.apply m v = some w) (j : Nat) (hj : j < f.bs) :
    (f.component j).apply m (col f.bs j v) = some (col f.bs j w) := by
  by_cases hemp : f.prim.isEmpty
  · have hp : f.prim = [] := by simpa using hemp
    have hw : w = v := by
      cases m <;> simp [MeanBF.apply, MeanBF.filterRhs, MeanBF.filterSol, MeanBF.filterCor, hemp] at hrun <;> exact hrun.symm
    subst hw
    cases m <;> simp [MeanF.apply, MeanF.filterRhs, MeanF.filterSol, MeanF.filterCor, MeanBF.component, hp, col_nil]
  · have hemp' : f.prim.isEmpty = false := by simpa using hemp
    -- the scalar side, whatever the emptiness of the component
    have scalar : ∀ (cw cx : List α) (a : α → α) (t : α), (f.component j).prim = col f.bs j f.prim →
        (col f.bs j v).length = cw.length → (col f.bs j v).length = cx.length →
        (col f.bs j v).length = (col f.bs j f.prim).length → a (dotL (col f.bs j v) cw) = t →
        (if (col f.bs j f.prim).isEmpty then some (col f.bs j v) else MeanF.dotAxpy (col f.bs j v) cw cx a) =
          some (axpyL (col f.bs j v) cx t) := by
      intro cw cx a t _ h1 h2 h3 ht
      by_cases hce : (col f.bs j f.prim).isEmpty
      · have h0 : col f.bs j f.prim = [] := by simpa using hce
        have hv0 : col f.bs j v = [] := by
          apply List.eq_nil_of_length_eq_zero; rw [h3, h0]; rfl
        simp [hce, hv0, axpyL]
      · simp only [hce, Bool.false_eq_true, if_false]
        rw [scalar_dotAxpy_of _ _ _ _ h1 h2, ht]
    cases m
    · -- rhs
      simp only [MeanBF.apply, MeanBF.filterRhs, hemp', Bool.false_eq_true, if_false] at hrun
      obtain ⟨l1, l2, _, _⟩ := dotAxpyB_some f v f.prim f.dual w _ hrun
      obtain ⟨_, hc⟩ := dotAxpyB_spec f v f.prim f.dual w _ hrun j hj
      rw [hc]
      simp only [MeanF.apply, MeanF.filterRhs, MeanBF.component]
      apply scalar _ _ _ _ rfl (by rw [length_col, length_col, l1]) (by rw [length_col, length_col, l2])
        (by rw [length_col, length_col, l1])
      rw [div_neg, neg_div]
    · -- sol
      simp only [MeanBF.apply, MeanBF.filterSol, hemp', Bool.false_eq_true, if_false] at hrun
      obtain ⟨l1, l2, _, _⟩ := dotAxpyB_some f v f.dual f.prim w _ hrun
      obtain ⟨_, hc⟩ := dotAxpyB_spec f v f.dual f.prim w _ hrun j hj
      rw [hc]
      simp only [MeanF.apply, MeanF.filterSol, MeanBF.component]
      apply scalar _ _ _ _ rfl (by rw [length_col, length_col, l1]) (by rw [length_col, length_col, l2])
        (by rw [length_col, length_col, l2])
      rw [mul_one_div]
    · -- def
      simp only [MeanBF.apply, MeanBF.filterRhs, hemp', Bool.false_eq_true, if_false] at hrun
      obtain ⟨l1, l2, _, _⟩ := dotAxpyB_some f v f.prim f.dual w _ hrun
      obtain ⟨_, hc⟩ := dotAxpyB_spec f v f.prim f.dual w _ hrun j hj
      rw [hc]
      simp only [MeanF.apply, MeanF.filterRhs, MeanBF.component]
      apply scalar _ _ _ _ rfl (by rw [length_col, length_col, l1]) (by rw [length_col, length_col, l2])
        (by rw [length_col, length_col, l1])
      rw [div_neg, neg_div]
    · -- cor
      simp only [MeanBF.apply, MeanBF.filterCor, hemp', Bool.false_eq_true, if_false] at hrun
      obtain ⟨l1, l2, _, _⟩ := dotAxpyB_some f v f.dual f.prim w _ hrun
      obtain ⟨_, hc⟩ := dotAxpyB_spec f v f.dual f.prim w _ hrun j hj
      rw [hc]
      simp only [MeanF.apply, MeanF.filterCor, MeanBF.component]
      apply scalar _ _ _ _ rfl (by rw [length_col, length_col, l1]) (by rw [length_col, length_col, l2])
        (by rw [length_col, length_col, l2])
      rw [div_neg, neg_div]

/-- idempotence of the blocked mean filter in all four modes, for per-component volumes that are consistent and
    non-zero (they may all be different) -/
theorem C06.meanB_idempotent {α : Type} [Field α] [DecidableEq α] (m : Mode) (f : MeanBF α) (v w : List α)
    (hvol : ∀ j, j < f.bs → f.vol.getD j 0 = dotL (col f.bs j f.prim) (col f.bs j f.dual))
    (hnz : ∀ j, j < f.bs → f.vol.getD j 0 ≠ 0) (hrun : f.apply m v = some w) : f.apply m w = some w := by
  by_cases hemp : f.prim.isEmpty
  · cases m <;> simp [MeanBF.apply, MeanBF.filterRhs, MeanBF.filterSol, MeanBF.filterCor, hemp] at hrun ⊢
  · have hemp' : f.prim.isEmpty = false := by simpa using hemp
    have hne : f.prim ≠ [] := by intro h; simp [h] at hemp
    cases m
    · have hz := fun j hj => C06.meanB_rhs_zero f v w j hj (hvol j hj) (hnz j hj) hne hrun
      simp only [MeanBF.apply, MeanBF.filterRhs, hemp', Bool.false_eq_true, if_false] at hrun ⊢
      obtain ⟨l1, l2, h0, hw⟩ := dotAxpyB_some f v f.prim f.dual w _ hrun
      have hl : w.length = v.length := by rw [hw, length_axpyBlocked _ _ _ _ l2]
      exact dotAxpyB_fixed f w f.prim f.dual _ (by omega) h0 (by omega) (fun j hj => by rw [hz j hj]; simp)
    · have hz := fun j hj => C06.meanB_sol f v w j hj (hvol j hj) (hnz j hj) hne hrun
      simp only [MeanBF.apply, MeanBF.filterSol, hemp', Bool.false_eq_true, if_false] at hrun ⊢
      obtain ⟨l1, l2, h0, hw⟩ := dotAxpyB_some f v f.dual f.prim w _ hrun
      have hl : w.length = v.length := by rw [hw, length_axpyBlocked _ _ _ _ l2]
      exact dotAxpyB_fixed f w f.dual f.prim _ (by omega) h0 (by omega)
        (fun j hj => by rw [mul_one_div, hz j hj]; simp)
    · have hz := fun j hj => C06.meanB_rhs_zero f v w j hj (hvol j hj) (hnz j hj) hne hrun
      simp only [MeanBF.apply, MeanBF.filterRhs, hemp', Bool.false_eq_true, if_false] at hrun ⊢
      obtain ⟨l1, l2, h0, hw⟩ := dotAxpyB_some f v f.prim f.dual w _ hrun
      have hl : w.length = v.length := by rw [hw, length_axpyBlocked _ _ _ _ l2]
      exact dotAxpyB_fixed f w f.prim f.dual _ (by omega) h0 (by omega) (fun j hj => by rw [hz j hj]; simp)
    · have hz := fun j hj => C06.meanB_cor_zero f v w j hj (hvol j hj) (hnz j hj) hne hrun
      simp only [MeanBF.apply, MeanBF.filterCor, hemp', Bool.false_eq_true, if_false] at hrun ⊢
      obtain ⟨l1, l2, h0, hw⟩ := dotAxpyB_some f v f.dual f.prim w _ hrun
      have hl : w.length = v.length := by rw [hw, length_axpyBlocked _ _ _ _ l2]
      exact dotAxpyB_fixed f w f.dual f.prim _ (by omega) h0 (by omega) (fun j hj => by rw [hz j hj]; simp)

/-- a hoisted reciprocal is refuted: with component volumes (1, 4) the correction factor of component 1 is
    `-(x_1 · dual_1) / 4`, not `/ 1`: the input `(5, 6)` is mapped to `(0, 0)`; dividing by the volume of component 0
    would give `(0, -18)` -/
example :
    let f : MeanBF Rat := { bs := 2, prim := [1, 2], dual := [1, 2], vol := [1, 4], sol := [0, 0] }
    f.filterCor [5, 4] = some [0, 0] ∧ f.filterCor [5, 6] = some [0, 0] ∧ f.filterCor [5, 6] ≠ some [0, -18] := by
  decide +kernel

/-! ## scalar mean filter: idempotence in all four modes -/

theorem C06.mean_idempotent {α : Type} [Field α] [DecidableEq α] (m : Mode) (f : MeanF α) (v w : List α)
    (hvol : f.vol = dotL f.prim f.dual) (hnz : f.vol ≠ 0) (hrun : f.apply m v = some w) : f.apply m w = some w := by
  by_cases hemp : f.prim.isEmpty
  · cases m <;> simp [MeanF.apply, MeanF.filterRhs, MeanF.filterSol, MeanF.filterCor, hemp] at hrun ⊢
  · have hemp' : f.prim.isEmpty = false := by simpa using hemp
    have hne : f.prim ≠ [] := by intro h; simp [h] at hemp
    cases m
    · have hz := C06.mean_rhs_zero f v w hvol hnz hne hrun
      simp only [MeanF.apply, MeanF.filterRhs, hemp', Bool.false_eq_true, if_false] at hrun ⊢
      obtain ⟨l1, l2, hw⟩ := scalar_dotAxpy_some _ _ _ _ _ hrun
      have hl : w.length = v.length := by rw [hw, length_axpyL _ _ _ l2]
      exact scalar_dotAxpy_fixed w f.prim f.dual _ (by omega) (by omega) (by rw [hz]; simp)
    · have hz := C06.mean_sol f v w hvol hnz hne hrun
      simp only [MeanF.apply, MeanF.filterSol, hemp', Bool.false_eq_true, if_false] at hrun ⊢
      obtain ⟨l1, l2, hw⟩ := scalar_dotAxpy_some _ _ _ _ _ hrun
      have hl : w.length = v.length := by rw [hw, length_axpyL _ _ _ l2]
      exact scalar_dotAxpy_fixed w f.dual f.prim _ (by omega) (by omega) (by rw [hz]; simp)
    · have hz := C06.mean_rhs_zero f v w hvol hnz hne hrun
      simp only [MeanF.apply, MeanF.filterRhs, hemp', Bool.false_eq_true, if_false] at hrun ⊢
      obtain ⟨l1, l2, hw⟩ := scalar_dotAxpy_some _ _ _ _ _ hrun
      have hl : w.length = v.length := by rw [hw, length_axpyL _ _ _ l2]
      exact scalar_dotAxpy_fixed w f.prim f.dual _ (by omega) (by omega) (by rw [hz]; simp)
    · exact C06.mean_cor_idempotent f v w hvol hnz hrun

/-! ## Global::MeanFilter: the solution / correction clause, and the general form -/

/-- general form: the vector is updated along `x` with the factor computed from the weighted product with `wt`; if the
    stored volume is the weighted product `<x, wt>`, the weighted product of the result with `wt` vanishes -/
theorem C06.gmean_dotAxpy_zero {α : Type} [Field α] [DecidableEq α] (f : GMeanF α) (v wt x r : List α)
    (hne : f.prim ≠ []) (hvol : GMeanF.wdot f.freq f.useFreq x wt = some f.vol)
    (hrun : f.dotAxpy v wt x = some r) : GMeanF.wdot f.freq f.useFreq r wt = some 0 := by
  have hemp : f.prim.isEmpty = false := by cases h : f.prim <;> simp_all
  simp only [GMeanF.dotAxpy, hemp, Bool.false_eq_true, if_false] at hrun
  cases hint : GMeanF.wdot f.freq f.useFreq v wt with
  | none => simp [hint] at hrun
  | some integ =>
    simp only [hint] at hrun
    split at hrun
    · simp at hrun
    · rename_i hv0
      split at hrun
      · simp at hrun
      · rename_i hlen
        have hl : v.length = x.length := by simpa using hlen
        simp only [Option.some.injEq] at hrun
        subst hrun
        have hlw : (axpyL v x (-integ / f.vol)).length = v.length := length_axpyL _ _ _ hl
        unfold GMeanF.wdot at hvol hint ⊢
        cases hu : f.useFreq with
        | true =>
          simp only [hu, if_true] at hvol hint ⊢
          split at hvol
          · simp at hvol
          · rename_i h1
            split at hint
            · simp at hint
            · rename_i h2
              simp only [Option.some.injEq] at hvol hint
              have h2' : v.length = f.freq.length ∧ wt.length = f.freq.length := by simpa [not_or] using h2
              have : ((axpyL v x (-integ / f.vol)).length != f.freq.length || wt.length != f.freq.length) = false := by
                simp [hlw, h2'.1, h2'.2]
              simp only [this, Bool.false_eq_true, if_false, Option.some.injEq]
              rw [tdotL_axpyL f.freq v x wt _ hl (by omega), hint, hvol]
              field_simp
              ring
        | false =>
          simp only [hu, Bool.false_eq_true, if_false] at hvol hint ⊢
          split at hvol
          · simp at hvol
          · split at hint
            · simp at hint
            · rename_i h2
              simp only [Option.some.injEq] at hvol hint
              have h2' : wt.length = v.length := by simpa using h2
              have : (wt.length != (axpyL v x (-integ / f.vol)).length) = false := by simp [hlw, h2']
              simp only [this, Bool.false_eq_true, if_false, Option.some.injEq]
              rw [dotL_axpyL v x wt _ hl, hint, hvol]
              field_simp
              ring

/-- `filter_sol` / `filter_cor` of the global mean filter: the (frequency-weighted = global) primal mean of the result
    vanishes (`Global::MeanFilter` has no solution mean) -/
theorem C06.gmean_sol_zero {α : Type} [Field α] [DecidableEq α] (comm : Bool) (prim dual freq : List α)
    (f : GMeanF α) (hf : GMeanF.make comm prim dual freq = some f) (hne : prim ≠ []) (v w : List α)
    (hrun : f.filterSol v = some w) : GMeanF.wdot f.freq f.useFreq w f.dual = some 0 := by
  unfold GMeanF.make at hf
  simp only at hf
  cases hvol : GMeanF.wdot freq (!freq.isEmpty && comm) prim dual with
  | none => simp [hvol] at hf
  | some vol =>
    simp only [hvol, Option.some.injEq] at hf
    subst hf
    exact C06.gmean_dotAxpy_zero _ v dual prim w hne hvol hrun

/-- the global mean filter is idempotent in every mode -/
theorem C06.gmean_idempotent {α : Type} [Field α] [DecidableEq α] (comm : Bool) (prim dual freq : List α)
    (f : GMeanF α) (hf : GMeanF.make comm prim dual freq = some f) (m : Mode) (v w : List α)
    (hrun : f.apply m v = some w) : f.apply m w = some w := by
  by_cases hne : prim = []
  · have hp : f.prim = [] := by
      unfold GMeanF.make at hf
      simp only at hf
      cases hvol : GMeanF.wdot freq (!freq.isEmpty && comm) prim dual with
      | none => simp [hvol] at hf
      | some vol => simp only [hvol, Option.some.injEq] at hf; subst hf; exact hne
    cases m <;> simp [GMeanF.apply, GMeanF.filterRhs, GMeanF.filterSol, GMeanF.dotAxpy, hp] at hrun ⊢
  · -- a second application computes the factor from a vanishing weighted product
    have hfix : ∀ (wt x : List α), GMeanF.wdot f.freq f.useFreq w wt = some 0 → f.dotAxpy v wt x = some w →
        f.dotAxpy w wt x = some w := by
      intro wt x hz hr
      have hp : f.prim.isEmpty = false := by
        unfold GMeanF.make at hf
        simp only at hf
        cases hvol : GMeanF.wdot freq (!freq.isEmpty && comm) prim dual with
        | none => simp [hvol] at hf
        | some vol => simp only [hvol, Option.some.injEq] at hf; subst hf; cases h : prim <;> simp_all
      simp only [GMeanF.dotAxpy, hp, Bool.false_eq_true, if_false] at hr ⊢
      cases hint : GMeanF.wdot f.freq f.useFreq v wt with
      | none => simp [hint] at hr
      | some integ =>
        simp only [hint] at hr
        split at hr
        · simp at hr
        · rename_i hv0
          split at hr
          · simp at hr
          · rename_i hlen
            have hl : v.length = x.length := by simpa using hlen
            simp only [Option.some.injEq] at hr
            have hwl : w.length = v.length := by rw [← hr, length_axpyL _ _ _ hl]
            have e : (w.length != x.length) = false := by simp [hwl, hl]
            simp only [hz, hv0, if_false, e, Bool.false_eq_true, neg_zero, zero_div, Option.some.injEq]
            exact axpyL_zero w x (by omega)
    cases m
    · exact hfix f.prim f.dual (C06.gmean_rhs_zero comm prim dual freq f hf hne v w hrun) hrun
    · exact hfix f.dual f.prim (C06.gmean_sol_zero comm prim dual freq f hf hne v w hrun) hrun
    · exact hfix f.prim f.dual (C06.gmean_rhs_zero comm prim dual freq f hf hne v w hrun) hrun
    · exact hfix f.dual f.prim (C06.gmean_sol_zero comm prim dual freq f hf hne v w hrun) hrun

/-! ## `filter_offdiag_row_mat` and `filter_weak_matrix_rows` of the unit filter on a well-formed CSR matrix -/

/-- `filter_offdiag_row_mat`: a constrained row becomes the zero row -/
theorem C06.unit_offdiag_rows {α : Type} [CommSemiring α] (f : UnitF α) (A B : FeatModel.LA.Csr α)
    (hwf : A.wf = true) (hes : ∀ e ∈ f.es, e.1 < A.rows) (hrun : f.filterOffdiagRowMat A = some B)
    (i j : Nat) (x : α) (hm : (i, x) ∈ f.es) : B.entry i j = 0 := by
  have h := (FeatModel.LA.Csr.wf_iff A).mp hwf
  obtain ⟨e, hl⟩ := lastEntry_of_mem hm
  rw [filterOffdiag_some f A B hrun (List.ne_nil_of_mem hm), entry_with_val]
  apply Finset.sum_eq_zero
  intro k hk
  rw [Finset.mem_Ico] at hk
  unfold UnitF.offdiagVals
  rw [rewriteRows_getD_constrained h f.es hes _ (hes _ hm) hk hl]
  simp

/-- `filter_weak_matrix_rows`: a constrained row of `A` becomes the filter value times the same row of `M`
    (`M` shares the layout of `A`; pairwise different row indices) -/
theorem C06.unit_weak_rows {α : Type} [CommSemiring α] (f : UnitF α) (A B : FeatModel.LA.Csr α) (valM : Array α)
    (hwf : A.wf = true) (hn : (f.es.map Prod.fst).Nodup) (hes : ∀ e ∈ f.es, e.1 < A.rows)
    (hrun : f.filterWeakMatrixRows A valM = some B) (i j : Nat) (x : α) (hm : (i, x) ∈ f.es) :
    B.entry i j = x * ({ A with val := valM } : FeatModel.LA.Csr α).entry i j := by
  have h := (FeatModel.LA.Csr.wf_iff A).mp hwf
  have hl := lastEntry_of_mem_nodup hn hm
  rw [filterWeak_some f A B valM hrun (List.ne_nil_of_mem hm), entry_with_val, entry_with_val, Finset.mul_sum]
  apply Finset.sum_congr rfl
  intro k hk
  rw [Finset.mem_Ico] at hk
  unfold UnitF.weakVals
  rw [rewriteRows_getD_constrained h f.es hes _ (hes _ hm) hk hl]
  split <;> simp

/-- both members leave the rows that no entry constrains untouched -/
theorem C06.unit_offdiag_weak_other_rows_untouched {α : Type} [CommSemiring α] (f : UnitF α)
    (A B B' : FeatModel.LA.Csr α) (valM : Array α) (hwf : A.wf = true) (hes : ∀ e ∈ f.es, e.1 < A.rows)
    (hrun : f.filterOffdiagRowMat A = some B) (hrun' : f.filterWeakMatrixRows A valM = some B')
    (i j : Nat) (hi : i < A.rows) (hfree : ∀ e ∈ f.es, e.1 ≠ i) :
    B.entry i j = A.entry i j ∧ B'.entry i j = A.entry i j := by
  have h := (FeatModel.LA.Csr.wf_iff A).mp hwf
  by_cases hne : f.es = []
  · have e1 : B = A := by
      unfold UnitF.filterOffdiagRowMat at hrun
      simp only [hne, List.isEmpty_nil, if_true, Option.some.injEq] at hrun
      exact hrun.symm
    have e2 : B' = A := by
      unfold UnitF.filterWeakMatrixRows at hrun'
      simp only [hne, List.isEmpty_nil, if_true, Option.some.injEq] at hrun'
      exact hrun'.symm
    rw [e1, e2]; exact ⟨rfl, rfl⟩
  · constructor
    · rw [filterOffdiag_some f A B hrun hne, entry_with_val, FeatModel.LA.Csr.entry_eq_sum_Ico]
      apply Finset.sum_congr rfl
      intro k hk
      rw [Finset.mem_Ico] at hk
      unfold UnitF.offdiagVals
      rw [rewriteRows_getD_free h f.es hes _ hi hk hfree]
    · rw [filterWeak_some f A B' valM hrun' hne, entry_with_val, FeatModel.LA.Csr.entry_eq_sum_Ico]
      apply Finset.sum_congr rfl
      intro k hk
      rw [Finset.mem_Ico] at hk
      unfold UnitF.weakVals
      rw [rewriteRows_getD_free h f.es hes _ hi hk hfree]

/-! ## `ignore_nans`: one statement for all members of `UnitFilterBlocked` -/

/-- a block component `k` whose filter value is an ignored NaN (`f.skip` true) is skipped CONSISTENTLY: the four
    vector filters leave pod entry `bs*i + k` untouched, `filter_mat` and `filter_offdiag_row_mat` leave block row `k`
    of every stored block of block row `i` untouched.  (`filter_weak_matrix_rows` has no NaN test in the source: it
    multiplies by the stored value whatever it is, `C06.unitB_weak_rows`.) -/
theorem C06.unitB_nan_skipped_everywhere {α : Type} [Zero α] [One α] [Mul α] (f : UnitBF α)
    (hn : (f.es.map Prod.fst).Nodup) (e0 : Nat × List α) (he0 : e0 ∈ f.es) (k : Nat)
    (hs : f.skip (e0.2.getD k 0) = true) :
    (∀ (m : Mode) (v w : List α), k < f.bs → f.apply m v = some w → w[f.bs * e0.1 + k]? = v[f.bs * e0.1 + k]?) ∧
    (∀ (A B : FeatModel.LA.Bcsr α), A.wf = true → (∀ e ∈ f.es, e.1 < A.rows) → f.filterMat A = some B →
      ∀ j l, A.rowPtr.getD e0.1 0 ≤ j ∧ j < A.rowPtr.getD (e0.1 + 1) 0 → k < A.bh → l < A.bw →
        B.val.getD (UnitBF.pod A j k l) 0 = A.val.getD (UnitBF.pod A j k l) 0) ∧
    (∀ (A B : FeatModel.LA.Bcsr α), A.wf = true → (∀ e ∈ f.es, e.1 < A.rows) → f.filterOffdiagRowMat A = some B →
      ∀ j l, A.rowPtr.getD e0.1 0 ≤ j ∧ j < A.rowPtr.getD (e0.1 + 1) 0 → k < A.bh → l < A.bw →
        B.val.getD (UnitBF.pod A j k l) 0 = A.val.getD (UnitBF.pod A j k l) 0) := by
  refine ⟨?_, ?_, ?_⟩
  · intro m v w hk hrun
    exact C06.unitB_nan_component_untouched m f v w hn hrun e0 he0 k hk hs
  · intro A B hwf hes hrun j l hj hk hl
    rw [C06.unitB_mat_rows f A B hwf hn hes hrun e0 he0 j k l hj hk hl, if_pos hs]
  · intro A B hwf hes hrun j l hj hk hl
    rw [C06.unitB_offdiag_rows f A B hwf hn hes hrun e0 he0 j k l hj hk hl, if_pos hs]

/-! ## chains / sequences of ANY filters (blocked, slip, mean, nested chains, tuples): the last member wins; blocked
    unit members with pairwise disjoint block sets all hold -/

/-- the last member of a chain / sequence acts on the result of all the others - whatever kind of filter it is
    (leaf, blocked, another chain or a tuple): every theorem about that filter applies to the chain's result -/
theorem C06.chain_last_member {α : Type} [Zero α] [One α] [Add α] [Mul α] [Sub α] [Neg α] [Div α] [DecidableEq α]
    (m : Mode) (fs : List (Flt α)) (f : Flt α) (v w : Vec α) (h : applyChain m (fs ++ [f]) v = some w) :
    ∃ u, applyChain m fs v = some u ∧ f.apply m u = some w := by
  rw [C06.chain_append] at h
  cases h1 : applyChain m fs v with
  | none => simp [h1] at h
  | some u =>
    refine ⟨u, rfl, ?_⟩
    simp only [h1, Option.bind_some, applyChain] at h
    cases h2 : f.apply m u with
    | none => simp [h2] at h
    | some w' => simp only [h2, Option.some.injEq] at h; rw [h]

/-- last member a blocked unit filter: its constraint holds exactly on the chain's result (any mode) -/
theorem C06.chain_last_unitB_wins {α : Type} [Zero α] [One α] [Add α] [Mul α] [Sub α] [Neg α] [Div α] [DecidableEq α]
    (m : Mode) (fs : List (Flt α)) (f : UnitBF α) (v : Vec α) (w : List α)
    (hrun : applyChain m (fs ++ [Flt.unitB f]) v = some (Vec.leaf w)) (hn : (f.es.map Prod.fst).Nodup)
    (e : Nat × List α) (he : e ∈ f.es) (j : Nat) (hj : j < f.bs) (hs : f.skip (e.2.getD j 0) = false)
    (hin : f.bs * e.1 + j < w.length) : w[f.bs * e.1 + j]? = some (modeVal m (e.2.getD j 0)) := by
  obtain ⟨u, _, hu⟩ := C06.chain_last_member m fs (Flt.unitB f) v (Vec.leaf w) hrun
  cases u with
  | node subs => simp [Flt.apply] at hu
  | leaf d =>
    simp only [Flt.apply] at hu
    cases h2 : f.apply m d with
    | none => simp [h2] at hu
    | some w' =>
      simp only [h2, Option.map_some, Option.some.injEq, Vec.leaf.injEq] at hu
      subst hu
      have hlen : w'.length = d.length := by
        rcases unitB_apply_spec m f d w' h2 with ⟨_, hw⟩ | ⟨_, _, hw⟩
        · rw [hw]
        · rw [hw, length_scatter]
      exact C06.unitB_constrained m f d w' hn h2 e he j hj hs (by omega)

/-- last member a slip filter: every constrained block of the chain's result has no normal component -/
theorem C06.chain_last_slip_wins {α : Type} [Field α] [DecidableEq α] (m : Mode) (fs : List (Flt α)) (f : SlipF α)
    (v : Vec α) (w : List α) (hrun : applyChain m (fs ++ [Flt.slip f]) v = some (Vec.leaf w))
    (hn : (f.es.map Prod.fst).Nodup) (hin : ∀ e ∈ f.es, e.1 < f.size) :
    ∀ e ∈ f.es, dotL (readBlock f.bs e.1 w) (SlipF.normal f.bs e) = 0 := by
  obtain ⟨u, _, hu⟩ := C06.chain_last_member m fs (Flt.slip f) v (Vec.leaf w) hrun
  cases u with
  | node subs => simp [Flt.apply] at hu
  | leaf d =>
    simp only [Flt.apply] at hu
    cases h2 : f.filter d with
    | none => simp [h2] at hu
    | some w' =>
      simp only [h2, Option.map_some, Option.some.injEq, Vec.leaf.injEq] at hu
      subst hu
      exact C06.slip_normal_zero f d w' hn hin h2

/-- last member a (scalar) mean filter in correction mode: the chain's result has zero primal mean, even though the
    mean filter changed the entries an earlier unit filter had constrained -/
theorem C06.chain_last_mean_wins {α : Type} [Field α] [DecidableEq α] (fs : List (Flt α)) (f : MeanF α)
    (v : Vec α) (w : List α) (hrun : applyChain Mode.cor (fs ++ [Flt.mean f]) v = some (Vec.leaf w))
    (hvol : f.vol = dotL f.prim f.dual) (hnz : f.vol ≠ 0) (hne : f.prim ≠ []) : dotL w f.dual = 0 := by
  obtain ⟨u, _, hu⟩ := C06.chain_last_member Mode.cor fs (Flt.mean f) v (Vec.leaf w) hrun
  cases u with
  | node subs => simp [Flt.apply] at hu
  | leaf d =>
    simp only [Flt.apply, MeanF.apply] at hu
    cases h2 : f.filterCor d with
    | none => simp [h2] at hu
    | some w' =>
      simp only [h2, Option.map_some, Option.some.injEq, Vec.leaf.injEq] at hu
      subst hu
      exact C06.mean_cor_zero f d w' hvol hnz hne h2

/-- a pod position outside all blocks of all blocked unit members is untouched by the whole chain (all modes) -/
theorem C06.chain_unitBs_untouched {α : Type} [Zero α] [One α] [Add α] [Mul α] [Sub α] [Neg α] [Div α] [DecidableEq α]
    (m : Mode) (fs : List (UnitBF α)) (v w : List α) (p : Nat)
    (hrun : applyChain m (fs.map Flt.unitB) (Vec.leaf v) = some (Vec.leaf w))
    (hfree : ∀ g ∈ fs, ∀ e ∈ g.es, ¬ (g.bs * e.1 ≤ p ∧ p < g.bs * e.1 + g.bs)) :
    w[p]? = v[p]? ∧ w.length = v.length := by
  induction fs generalizing v with
  | nil =>
    simp only [List.map_nil, applyChain, Option.some.injEq, Vec.leaf.injEq] at hrun
    subst hrun; exact ⟨rfl, rfl⟩
  | cons g t ih =>
    simp only [List.map_cons, applyChain, Flt.apply] at hrun
    cases hg : g.apply m v with
    | none => simp [hg] at hrun
    | some v' =>
      simp only [hg, Option.map_some] at hrun
      obtain ⟨h1, h2⟩ := ih v' hrun (fun g' hg' => hfree g' (List.mem_cons_of_mem _ hg'))
      obtain ⟨h3, h4⟩ := C06.unitB_unconstrained_untouched m g v v' hg p (hfree g List.mem_cons_self)
      exact ⟨h1.trans h3, h2.trans h4⟩

/-- blocked unit members (same block size) with pairwise disjoint block index sets: after the chain EVERY member's
    constraint holds exactly in every component that is not an ignored NaN (any mode) -/
theorem C06.chainB_disjoint_all_constraints {α : Type} [Zero α] [One α] [Add α] [Mul α] [Sub α] [Neg α] [Div α]
    [DecidableEq α] (m : Mode) (bs : Nat) (fs : List (UnitBF α)) (v w : List α)
    (hrun : applyChain m (fs.map Flt.unitB) (Vec.leaf v) = some (Vec.leaf w))
    (hbs : ∀ g ∈ fs, g.bs = bs) (hnd : ∀ g ∈ fs, (g.es.map Prod.fst).Nodup)
    (hdis : fs.Pairwise (fun f g => ∀ a ∈ f.es, ∀ b ∈ g.es, a.1 ≠ b.1)) :
    ∀ f ∈ fs, ∀ e ∈ f.es, ∀ j, j < bs → f.skip (e.2.getD j 0) = false → bs * e.1 + j < v.length →
      w[bs * e.1 + j]? = some (modeVal m (e.2.getD j 0)) := by
  induction fs generalizing v with
  | nil => intro f hf; simp at hf
  | cons g t ih =>
    simp only [List.map_cons, applyChain, Flt.apply] at hrun
    rw [List.pairwise_cons] at hdis
    cases hg : g.apply m v with
    | none => simp [hg] at hrun
    | some v' =>
      simp only [hg, Option.map_some] at hrun
      have hlen : v'.length = v.length := by
        rcases unitB_apply_spec m g v v' hg with ⟨_, hw⟩ | ⟨_, _, hw⟩
        · rw [hw]
        · rw [hw, length_scatter]
      intro f hf e he j hj hs hin
      rcases List.mem_cons.mp hf with hh | hh
      · subst hh
        have hb := hbs f List.mem_cons_self
        have hfree : ∀ g' ∈ t, ∀ e' ∈ g'.es, ¬ (g'.bs * e'.1 ≤ bs * e.1 + j ∧ bs * e.1 + j < g'.bs * e'.1 + g'.bs) := by
          intro g' hg' e' he'
          rw [hbs g' (List.mem_cons_of_mem _ hg')]
          exact block_disjoint bs e'.1 e.1 j (fun heq => hdis.1 g' hg' e he e' he' heq) hj
        rw [(C06.chain_unitBs_untouched m t v' w _ hrun hfree).1]
        have := C06.unitB_constrained m f v v' (hnd f List.mem_cons_self) hg e he j (by omega) hs (by rw [hb]; exact hin)
        rw [hb] at this
        exact this
      · exact ih v' hrun (fun g' hg' => hbs g' (List.mem_cons_of_mem _ hg'))
          (fun g' hg' => hnd g' (List.mem_cons_of_mem _ hg')) hdis.2 f hh e he j hj hs (by omega)


/-! ## global filters = local filter on every patch (+ allreduced products for the mean filter).
    `d : Dist.Decomp` is the decomposition model of C13 (local-to-global maps `d.gdof r i`, gates `d.patch r`); a
    type-1 (consistent) distributed vector is the restriction of a function `X` of the global DOFs. -/

/-- unit filter: if the local filter of every patch is the restriction of ONE global prescription `G` (the last writer
    of local DOF `i` is what `G` prescribes for its global DOF), the local results are the restriction of the globally
    filtered vector `g ↦ (G g).getD (X g)`: filtering commutes with the decomposition, and the result is type-1
    again.  (`scatter` is C13's `unitFilterSet`: `scatter_eq_unitFilterSet`.) -/
theorem C06.global_unit_commutes {α : Type} (d : FeatModel.Dist.Decomp) (X : Nat → α) (G : Nat → Option α)
    (r : Nat) (es : List (Nat × α)) (v : List α) (hlen : v.length = (d.patch r).n)
    (hv : ∀ i, i < (d.patch r).n → v[i]? = some (X (d.gdof r i)))
    (hG : ∀ i, i < (d.patch r).n → lastWrite es i = G (d.gdof r i)) :
    ∀ i, i < (d.patch r).n → (scatter es v)[i]? = some ((G (d.gdof r i)).getD (X (d.gdof r i))) := by
  intro i hi
  rw [getElem?_scatter, hv i hi, hG i hi]
  simp

/-- slip filter: the block of a constrained DOF after the filter is a function of its old block and its normal only
    (`slipBlock b ν = b - ((b·ν)/(ν·ν)) ν`); hence two patches that hold the same values and the same normal for a
    shared DOF hold the same values afterwards - no synchronisation of the result is needed -/
theorem C06.global_slip_commutes {α : Type} [Field α] [DecidableEq α] (f g : SlipF α) (v v' w w' : List α)
    (hbs : g.bs = f.bs) (hnf : (f.es.map Prod.fst).Nodup) (hng : (g.es.map Prod.fst).Nodup)
    (hinf : ∀ e ∈ f.es, e.1 < f.size) (hing : ∀ e ∈ g.es, e.1 < g.size)
    (hf : f.filter v = some w) (hg : g.filter v' = some w')
    (e e' : Nat × List α) (he : e ∈ f.es) (he' : e' ∈ g.es)
    (hnu : SlipF.normal f.bs e = SlipF.normal f.bs e')
    (hblk : readBlock f.bs e.1 v = readBlock f.bs e'.1 v') :
    readBlock f.bs e.1 w = readBlock f.bs e'.1 w' := by
  have key : ∀ (h : SlipF α) (u z : List α), (h.es.map Prod.fst).Nodup → (∀ a ∈ h.es, a.1 < h.size) →
      h.filter u = some z → ∀ a ∈ h.es, readBlock h.bs a.1 z = slipBlock (readBlock h.bs a.1 u) (SlipF.normal h.bs a) := by
    intro h u z hn hin hrun a ha
    unfold SlipF.filter at hrun
    split at hrun
    · have := hin a ha; omega
    · split at hrun
      · simp at hrun
      · rename_i hsz
        have hlen : h.size * h.bs = u.length := by simpa using hsz
        refine run_block_value h.bs h.es u z hrun hn (fun b hb => ?_) a ha
        have := Nat.mul_le_mul_left h.bs (Nat.succ_le_of_lt (hin b hb))
        rw [Nat.mul_succ, Nat.mul_comm h.bs h.size] at this
        omega
  have k1 := key f v w hnf hinf hf e he
  have k2 := key g v' w' hng hing hg e' he'
  rw [hbs] at k2
  rw [k1, k2, hnu, hblk]

/-- the frequency weighting: on a patch with neighbours the weighted product of `Global::MeanFilter` with the GATE's
    frequency vector (`1 / number of sharing patches`, `C13.freqs_spec`) is the local part of `Gate::dot`; on a patch
    without neighbours (or without communicator) it is the plain dot product, which is again `Gate::dot`'s local part -/
theorem C06.gmean_wdot_is_gate_dot {α : Type} [Field α] [DecidableEq α] (p : FeatModel.Dist.Patch) (x y : List α)
    (hx : x.length = p.n) (hy : y.length = p.n) :
    GMeanF.wdot (FeatModel.Dist.freqs p) (!p.nbrs.isEmpty) x y = some (FeatModel.Dist.gdotLocal p x y) := by
  unfold GMeanF.wdot FeatModel.Dist.gdotLocal
  cases hn : p.nbrs.isEmpty with
  | true =>
    have : (y.length != x.length) = false := by simp [hx, hy]
    simp only [Bool.not_true, Bool.false_eq_true, if_false, this, if_true]
    rfl
  | false =>
    have : (x.length != (FeatModel.Dist.freqs p : List α).length ||
        y.length != (FeatModel.Dist.freqs p : List α).length) = false := by
      simp [FeatModel.C13L.freqs_length, hx, hy]
    simp only [Bool.not_false, if_true, this, Bool.false_eq_true, if_false]
    rfl

/-- mean filter: with the allreduced, frequency-weighted products every patch computes the restriction of the GLOBAL
    mean filter `X ↦ X - ((Σ_g X_g W_g) / (Σ_g P_g D_g)) Dir`, each global DOF counted once (`E` enumerates the global
    DOFs): the global filter is the local filter of every patch plus the two synchronised reductions.
    `wts, dirs = prims, duals` is `filter_rhs/def`, `wts, dirs = duals, prims` is `filter_sol/cor`. -/
theorem C06.global_mean_commutes {α : Type} [Field α] [CharZero α] (d : FeatModel.Dist.Decomp) (h : d.WF)
    (wts dirs duals prims xs : List (List α)) (X W Dir P Du : Nat → α)
    (hl : ∀ (vs : List (List α)), vs ∈ [wts, dirs, duals, prims, xs] →
      ∀ r, r < d.np → (vs.getD r []).length = (d.patch r).n)
    (hX : ∀ r, r < d.np → ∀ i, i < (d.patch r).n → FeatModel.Dist.val (xs.getD r []) i = X (d.gdof r i))
    (hW : ∀ r, r < d.np → ∀ i, i < (d.patch r).n → FeatModel.Dist.val (wts.getD r []) i = W (d.gdof r i))
    (hDir : ∀ r, r < d.np → ∀ i, i < (d.patch r).n → FeatModel.Dist.val (dirs.getD r []) i = Dir (d.gdof r i))
    (hP : ∀ r, r < d.np → ∀ i, i < (d.patch r).n → FeatModel.Dist.val (prims.getD r []) i = P (d.gdof r i))
    (hDu : ∀ r, r < d.np → ∀ i, i < (d.patch r).n → FeatModel.Dist.val (duals.getD r []) i = Du (d.gdof r i))
    (E : List Nat) (hEn : E.Nodup) (hE : ∀ g, g ∈ E ↔ ∃ r, r < d.np ∧ g ∈ d.lmap r)
    (r i : Nat) (hr : r < d.np) (hi : i < (d.patch r).n) :
    FeatModel.Dist.val ((gmeanAll d wts dirs duals prims xs).getD r []) i =
      X (d.gdof r i) + (-((E.map fun g => X g * W g).sum) / (E.map fun g => P g * Du g).sum) * Dir (d.gdof r i) := by
  have lx := hl xs (by simp) r hr
  have ld := hl dirs (by simp) r hr
  unfold gmeanAll
  rw [List.getD_eq_getElem?_getD, List.getElem?_map, List.getElem?_range hr, Option.map_some, Option.getD_some,
    val_axpyL _ _ _ i (by omega) (by omega), hX r hr i hi, hDir r hr i hi,
    FeatModel.C13L.gdot_eq d h xs wts X W (hl xs (by simp)) (hl wts (by simp)) hX hW E hEn hE,
    FeatModel.C13L.gdot_eq d h prims duals P Du (hl prims (by simp)) (hl duals (by simp)) hP hDu E hEn hE]

/-- link to the functions the driver executes (one rank): the allreduced product of `gmeanAll` is then exactly the
    weighted product `GMeanF.wdot` of the single-rank model (with the gate's frequencies), so on one patch `gmeanAll`
    computes `axpyL x dir (-(wdot x wt) / wdot prim dual)` = `GMeanF.dotAxpy` -/
theorem C06.gate_dot_single_rank {α : Type} [Field α] [DecidableEq α] (p : FeatModel.Dist.Patch) (x y : List α)
    (hx : x.length = p.n) (hy : y.length = p.n) :
    GMeanF.wdot (FeatModel.Dist.freqs p) (!p.nbrs.isEmpty) x y = some (FeatModel.Dist.gdot [p] [x] [y]) := by
  rw [C06.gmean_wdot_is_gate_dot p x y hx hy]
  simp [FeatModel.Dist.gdot]

/-- slip filter and decomposition, quantified over a `Decomp` (blocks = local DOFs of patch `r`): if the local vector
    of the patch is the restriction of a global block field `Xb` and the normal of every local entry is the global
    normal `N` of its global DOF, the local result is the restriction of the GLOBALLY slip-filtered field - constrained
    DOFs carry `slipBlock (Xb g) (N g)`, all others `Xb g`.  The right-hand side mentions the global DOF only, so all
    copies of a shared DOF agree afterwards on every pair of patches: the result is type-1 without any sync. -/
theorem C06.global_slip_commutes_decomp {α : Type} [Field α] [DecidableEq α] (d : FeatModel.Dist.Decomp) (r : Nat)
    (f : SlipF α) (Xb N : Nat → List α) (v w : List α)
    (hsz : f.size = (d.patch r).n) (hn : (f.es.map Prod.fst).Nodup) (hin : ∀ e ∈ f.es, e.1 < f.size)
    (hv : ∀ i, i < (d.patch r).n → readBlock f.bs i v = Xb (d.gdof r i))
    (hN : ∀ e ∈ f.es, SlipF.normal f.bs e = N (d.gdof r e.1))
    (hrun : f.filter v = some w) :
    (∀ e ∈ f.es, readBlock f.bs e.1 w = slipBlock (Xb (d.gdof r e.1)) (N (d.gdof r e.1))) ∧
    (∀ i, i < (d.patch r).n → (∀ e ∈ f.es, e.1 ≠ i) → readBlock f.bs i w = Xb (d.gdof r i)) := by
  unfold SlipF.filter at hrun
  split at hrun
  · rename_i h0
    simp only [Option.some.injEq] at hrun
    subst hrun
    refine ⟨fun e he => ?_, fun i hi _ => hv i hi⟩
    have := hin e he
    omega
  · split at hrun
    · simp at hrun
    · rename_i hs
      have hlen : f.size * f.bs = v.length := by simpa using hs
      constructor
      · intro e he
        have hfit : ∀ b ∈ f.es, f.bs * b.1 + f.bs ≤ v.length := by
          intro b hb
          have := Nat.mul_le_mul_left f.bs (Nat.succ_le_of_lt (hin b hb))
          rw [Nat.mul_succ, Nat.mul_comm f.bs f.size] at this
          omega
        rw [run_block_value f.bs f.es v w hrun hn hfit e he, hv e.1 (by rw [← hsz]; exact hin e he), hN e he]
      · intro i hi hfree
        rw [run_block_untouched f.bs f.es v w hrun i hfree, hv i hi]

/-- scalar `UnitFilter::filter_offdiag_row_mat` on `SparseMatrixBCSR<1, bw>`: every stored scalar of a constrained
    block row becomes zero (`v[j] = DT_(0)` clears the whole `1 x bw` block), all other block rows are untouched.
    (The overload for `SparseMatrixBCSR<bh, 1>` does nothing; the driver prints the matrix unchanged there.) -/
theorem C06.unit_offdiag_rows_bcsr1 {α : Type} [Zero α] [One α] [Mul α] (f : UnitF α) (A B : FeatModel.LA.Bcsr α)
    (hwf : A.wf = true) (hes : ∀ e ∈ f.es, e.1 < A.rows) (hrun : f.filterOffdiagRowMatB1 A = some B)
    (i0 j0 l0 : Nat) (hi0 : i0 < A.rows) (hj0 : A.rowPtr.getD i0 0 ≤ j0 ∧ j0 < A.rowPtr.getD (i0 + 1) 0)
    (hl0 : l0 < A.bw) (hq : j0 * A.bw + l0 < A.val.size) :
    ((∃ e ∈ f.es, e.1 = i0) → B.val.getD (j0 * A.bw + l0) 0 = 0) ∧
    ((∀ e ∈ f.es, e.1 ≠ i0) → B.val.getD (j0 * A.bw + l0) 0 = A.val.getD (j0 * A.bw + l0) 0) := by
  have W := C02L.Conv.bcsr_wf_of A hwf
  unfold UnitF.filterOffdiagRowMatB1 at hrun
  by_cases hemp : f.es.isEmpty
  · have he : f.es = [] := by simpa using hemp
    simp only [hemp, if_true, Option.some.injEq] at hrun
    subst hrun
    exact ⟨fun ⟨e, he', _⟩ => by rw [he] at he'; simp at he', fun _ => rfl⟩
  · simp only [hemp, Bool.false_eq_true, if_false] at hrun
    split at hrun
    · simp at hrun
    · simp only [Option.some.injEq] at hrun
      rw [← hrun]
      exact getD_offdiagB1 W f.es hes i0 j0 l0 hi0 hj0 hl0 A.val hq

/-! ## dense meaning (`Bcsr.entry`) of the blocked `filter_mat` -/

/-- scalar row `i` (block row `i / bh`, component `i % bh`, not an ignored NaN) of a constrained block row whose
    diagonal block is stored exactly once becomes the unit row of the DENSE matrix: `entry i j = 1` exactly for the
    column `j` of the diagonal block with `j % bw = i % bh`, `0` elsewhere (so for `bh > bw` the rows with
    `i % bh ≥ bw` are zero rows; for `bh = bw` it is `e_i`) -/
theorem C06.unitB_mat_rows_dense {α : Type} [CommSemiring α] (f : UnitBF α) (A B : FeatModel.LA.Bcsr α)
    (hwf : A.wf = true) (hn : (f.es.map Prod.fst).Nodup) (hes : ∀ e ∈ f.es, e.1 < A.rows)
    (hrun : f.filterMat A = some B) (hbh : 0 < A.bh) (hbw : 0 < A.bw)
    (e0 : Nat × List α) (he0 : e0 ∈ f.es) (i j : Nat) (hrow : i / A.bh = e0.1)
    (hs : f.skip (e0.2.getD (i % A.bh) 0) = false)
    (k0 : Nat) (hk0 : A.rowPtr.getD e0.1 0 ≤ k0 ∧ k0 < A.rowPtr.getD (e0.1 + 1) 0)
    (hc0 : A.colInd.getD k0 0 = e0.1)
    (huniq : ∀ k, A.rowPtr.getD e0.1 0 ≤ k → k < A.rowPtr.getD (e0.1 + 1) 0 → A.colInd.getD k 0 = e0.1 → k = k0) :
    B.entry i j = if j / A.bw = e0.1 ∧ j % A.bw = i % A.bh then 1 else 0 := by
  have W := C02L.Conv.bcsr_wf_of A hwf
  have hB : B.bh = A.bh ∧ B.bw = A.bw ∧ B.rowPtr = A.rowPtr ∧ B.colInd = A.colInd ∧ B.cols = A.cols := by
    unfold UnitBF.filterMat at hrun
    split at hrun
    · simp only [Option.some.injEq] at hrun; subst hrun; exact ⟨rfl, rfl, rfl, rfl, rfl⟩
    · split at hrun
      · simp at hrun
      · simp only [Option.some.injEq] at hrun; subst hrun; exact ⟨rfl, rfl, rfl, rfl, rfl⟩
  obtain ⟨b1, b2, b3, b4, b5⟩ := hB
  unfold FeatModel.LA.Bcsr.entry
  rw [b1, b2, b3, b4, b5]
  have hne : ¬ (A.bh = 0 ∨ A.bw = 0) := by omega
  simp only [hne, if_false]
  rw [FeatModel.LA.foldRange_add_if, zero_add, hrow]
  have hh : i % A.bh < A.bh := Nat.mod_lt _ hbh
  have hl : j % A.bw < A.bw := Nat.mod_lt _ hbw
  have hterm : ∀ k ∈ Finset.Ico (A.rowPtr.getD e0.1 0) (A.rowPtr.getD (e0.1 + 1) 0),
      (if A.colInd.getD k A.cols = j / A.bw then B.val.getD (k * A.bh * A.bw + i % A.bh * A.bw + j % A.bw) 0 else 0) =
      (if A.colInd.getD k 0 = j / A.bw then
        (if A.colInd.getD k 0 = e0.1 then (if i % A.bh = j % A.bw then (1 : α) else 0) else 0) else 0) := by
    intro k hk
    rw [Finset.mem_Ico] at hk
    have hkc : k < A.colInd.size := Nat.lt_of_lt_of_le hk.2 (C02L.Conv.bcsr_rowEnd_le W (hes e0 he0))
    have hcol : A.colInd.getD k A.cols = A.colInd.getD k 0 := by simp [Array.getD, hkc]
    have hpod : k * A.bh * A.bw + i % A.bh * A.bw + j % A.bw = UnitBF.pod A k (i % A.bh) (j % A.bw) := by
      unfold UnitBF.pod; ring
    rw [hcol, hpod, C06.unitB_mat_rows f A B hwf hn hes hrun e0 he0 k (i % A.bh) (j % A.bw) hk hh hl, hs]
    simp only [Bool.false_eq_true, if_false]
    by_cases h1 : A.colInd.getD k 0 = e0.1 <;> by_cases h2 : i % A.bh = j % A.bw <;> simp [h1, h2]
  rw [Finset.sum_congr rfl hterm]
  by_cases hP : i % A.bh = j % A.bw
  · simp only [hP, if_true]
    rw [sum_unit_row _ _ (fun k => A.colInd.getD k 0) e0.1 (j / A.bw) k0 hk0 hc0 huniq]
    by_cases hJ : j / A.bw = e0.1 <;> simp [hJ]
  · simp only [hP, if_false]
    have : ¬ (j / A.bw = e0.1 ∧ j % A.bw = i % A.bh) := fun hh' => hP hh'.2.symm
    rw [if_neg this]
    apply Finset.sum_eq_zero
    intro k _
    by_cases h1 : A.colInd.getD k 0 = j / A.bw <;> simp [h1]
