import FeatModel.Lemmas.C06Unit
import FeatModel.Lemmas.C06Mean
import FeatModel.Lemmas.C06Slip
import FeatModel.Lemmas.C06Mat
import FeatModel.Lemmas.C06Blocked
import FeatModel.Lemmas.C06MeanB
import FeatModel.Lemmas.C06MatB
/-! # C06 — filters impose their constraints exactly and idempotently

All statements are about the functions of `FeatModel/Model/LA/Filter.lean` (and `FilterMat.lean`) that `drv_c06`
executes against the real FEAT code.  Vectors are pod arrays of any length, index lists are arbitrary (empty, all,
duplicates: the statements use the *last writer* of an index, which for pairwise different indices is the entry
itself), no bound on any size.  "Bit-exact" clauses are equalities; the "up to rounding" clauses are equalities
over a field.  `none` = the real code aborts (size mismatch), so every theorem starts from a successful run. -/
open FeatModel.LA.Filter

/-! ## unit filter on vectors -/

/-- `filter_rhs`/`filter_sol`: every constrained entry holds exactly the prescribed value (for an index that was
    added several times: the value added last) -/
theorem C06.unit_rhs_constrained {α : Type} (f : UnitF α) (v w : List α) (i : Nat) (x : α)
    (hrun : f.filterRhs v = some w) (hx : lastWrite f.es i = some x) (hi : i < v.length) :
    w[i]? = some x := by
  unfold UnitF.filterRhs at hrun
  split at hrun
  · rename_i he
    have : f.es = [] := by simpa using he
    rw [this] at hx
    simp [lastWrite] at hx
  · split at hrun
    · simp at hrun
    · simp only [Option.some.injEq] at hrun
      subst hrun
      rw [getElem?_scatter, hx]
      simp [hi]

/-- the same with the hypothesis of the property text: pairwise different indices, `(i, x)` is an entry -/
theorem C06.unit_rhs_constrained_nodup {α : Type} (f : UnitF α) (v w : List α) (i : Nat) (x : α)
    (hrun : f.filterRhs v = some w) (hn : (f.es.map Prod.fst).Nodup) (hm : (i, x) ∈ f.es) (hi : i < v.length) :
    w[i]? = some x :=
  C06.unit_rhs_constrained f v w i x hrun (lastWrite_of_mem_nodup f.es hn i x hm) hi

/-- `filter_def`/`filter_cor`: every constrained entry is exactly zero -/
theorem C06.unit_def_zero {α : Type} [Zero α] (f : UnitF α) (v w : List α) (i : Nat) (x : α)
    (hrun : f.filterDef v = some w) (hm : (i, x) ∈ f.es) (hi : i < v.length) :
    w[i]? = some 0 := by
  unfold UnitF.filterDef at hrun
  split at hrun
  · rename_i he
    have : f.es = [] := by simpa using he
    rw [this] at hm
    simp at hm
  · split at hrun
    · simp at hrun
    · simp only [Option.some.injEq] at hrun
      subst hrun
      rw [getElem?_scatter, lastWrite_map_const]
      cases hl : lastWrite f.es i with
      | some y => simp [hi]
      | none =>
        exfalso
        have := lastWrite_eq_none_iff_aux f.es i hl (i, x) hm
        exact this rfl

/-- all entries the filter does not constrain are unchanged (all four modes), and the length is kept -/
theorem C06.unit_unconstrained_untouched {α : Type} [Zero α] (m : Mode) (f : UnitF α) (v w : List α) (i : Nat)
    (hrun : f.apply m v = some w) (hi : ∀ e ∈ f.es, e.1 ≠ i) :
    w[i]? = v[i]? ∧ w.length = v.length := by
  have key : ∀ es : List (Nat × α), (∀ e ∈ es, e.1 ≠ i) →
      (scatter es v)[i]? = v[i]? ∧ (scatter es v).length = v.length := by
    intro es hes
    refine ⟨?_, length_scatter es v⟩
    rw [getElem?_scatter, lastWrite_eq_none es i hes]
    cases v[i]? <;> simp
  have hmap : ∀ e ∈ f.es.map (fun e => (e.1, (0 : α))), e.1 ≠ i := by
    intro e he
    obtain ⟨e', he', rfl⟩ := List.mem_map.mp he
    exact hi e' he'
  cases m <;> simp only [UnitF.apply, UnitF.filterRhs, UnitF.filterDef] at hrun <;>
    (split at hrun
     · simp only [Option.some.injEq] at hrun; subst hrun; exact ⟨rfl, rfl⟩
     · split at hrun
       · simp at hrun
       · simp only [Option.some.injEq] at hrun
         subst hrun
         first | exact key _ hi | exact key _ hmap)

/-- applying the same unit filter again changes nothing (all four modes, any index list) -/
theorem C06.unit_idempotent {α : Type} [Zero α] (m : Mode) (f : UnitF α) (v w : List α)
    (hrun : f.apply m v = some w) : f.apply m w = some w := by
  cases m <;> simp only [UnitF.apply, UnitF.filterRhs, UnitF.filterDef] at hrun ⊢ <;>
    (split at hrun
     · simp only [Option.some.injEq] at hrun; subst hrun; rename_i he; simp [he]
     · rename_i he
       split at hrun
       · simp at hrun
       · rename_i hs
         simp only [Option.some.injEq] at hrun
         subst hrun
         simp only [he, length_scatter, hs, scatter_idem]
         simp)

/-- the entries stored after a sequence of `add` calls have strictly increasing (hence pairwise different) indices,
    and the value stored for an index is the one added last: `UnitFilter(n)` + `add`s is inside the domain of the
    theorems above whatever was added -/
theorem C06.unit_add_normalizes {α : Type} (n : Nat) (adds : List (Nat × α)) :
    (((UnitF.ofAdds n adds).es.map Prod.fst).Pairwise (· < ·)) ∧
      ∀ i, lastWrite (UnitF.ofAdds n adds).es i = lastWrite adds i := by
  have h := normalize_spec_aux adds [] (by simp)
  refine ⟨h.1, fun i => ?_⟩
  have := h.2 i
  simp only [UnitF.ofAdds, normalize]
  rw [this]
  cases lastWrite adds i <;> simp [lastWrite]

/-! ## compositions -/

/-- chain / sequence: the members are applied in order to the same vector -/
theorem C06.chain_append {α : Type} [Zero α] [One α] [Add α] [Mul α] [Sub α] [Neg α] [Div α] [DecidableEq α]
    (m : Mode) (fs gs : List (Flt α)) (v : Vec α) :
    applyChain m (fs ++ gs) v = (applyChain m fs v).bind (applyChain m gs) := by
  induction fs generalizing v with
  | nil => simp [applyChain]
  | cons f t ih =>
    simp only [List.cons_append, applyChain]
    cases f.apply m v with
    | none => simp
    | some v' => simp [ih]

/-- "last one wins": whatever the other members did, the constraint of the unit filter applied last holds exactly
    on the result of a chain (the explicit counter-statement for overlapping members: an earlier member's
    constraint on a shared index is overwritten) -/
theorem C06.chain_last_unit_wins {α : Type} [Zero α] [One α] [Add α] [Mul α] [Sub α] [Neg α] [Div α] [DecidableEq α]
    (fs : List (Flt α)) (f : UnitF α) (v : Vec α) (w : List α) (i : Nat) (x : α)
    (hrun : applyChain Mode.rhs (fs ++ [Flt.unit f]) v = some (Vec.leaf w))
    (hx : lastWrite f.es i = some x) (hi : i < w.length) :
    w[i]? = some x := by
  rw [C06.chain_append] at hrun
  cases h1 : applyChain Mode.rhs fs v with
  | none => simp [h1] at hrun
  | some u =>
    simp only [h1, Option.bind_some, applyChain] at hrun
    cases u with
    | node subs => simp [Flt.apply] at hrun
    | leaf d =>
      simp only [Flt.apply, UnitF.apply] at hrun
      cases h2 : f.filterRhs d with
      | none => simp [h2] at hrun
      | some w' =>
        simp only [h2, Option.map_some] at hrun
        have hw : w' = w := by
          cases hrun; rfl
        subst hw
        have hlen : w'.length = d.length := by
          have := (C06.unit_unconstrained_untouched (α := α) Mode.rhs ⟨f.size, []⟩ d d 0 (by simp [UnitF.apply, UnitF.filterRhs]) (by simp)).2
          unfold UnitF.filterRhs at h2
          split at h2
          · simp at h2; rw [h2]
          · split at h2
            · simp at h2
            · simp at h2; rw [← h2, length_scatter]
        exact C06.unit_rhs_constrained f d w' i x h2 hx (by omega)

/-- tuple / power: member `k` acts on component `k` only -/
theorem C06.tuple_componentwise {α : Type} [Zero α] [One α] [Add α] [Mul α] [Sub α] [Neg α] [Div α] [DecidableEq α]
    (m : Mode) (f : Flt α) (fs : List (Flt α)) (v : Vec α) (vs : List (Vec α)) (w : Vec α) (ws : List (Vec α))
    (hrun : applyTuple m (f :: fs) (v :: vs) = some (w :: ws)) :
    f.apply m v = some w ∧ applyTuple m fs vs = some ws := by
  simp only [applyTuple] at hrun
  cases h1 : f.apply m v with
  | none => simp [h1] at hrun
  | some a =>
    cases h2 : applyTuple m fs vs with
    | none => simp [h1, h2] at hrun
    | some b =>
      simp only [h1, h2, Option.some.injEq, List.cons.injEq] at hrun
      exact ⟨by rw [hrun.1], by rw [hrun.2]⟩

/-! ## mean filter (exact over a field; `vol = prim · dual` is what the 3-argument constructor computes) -/

/-- `filter_cor`: the corrected vector has zero primal mean, `w · dual = 0` -/
theorem C06.mean_cor_zero {α : Type} [Field α] (f : MeanF α) (v w : List α)
    (hvol : f.vol = dotL f.prim f.dual) (hnz : f.vol ≠ 0) (hne : f.prim ≠ [])
    (hrun : f.filterCor v = some w) : dotL w f.dual = 0 := by
  unfold MeanF.filterCor MeanF.dotAxpy at hrun
  have hemp : f.prim.isEmpty = false := by cases h : f.prim <;> simp_all
  simp only [hemp, Bool.false_eq_true, if_false] at hrun
  split at hrun
  · simp at hrun
  · split at hrun
    · simp at hrun
    · rename_i h1 h2
      simp only [Option.some.injEq] at hrun
      subst hrun
      have hl : v.length = f.prim.length := by simpa using h2
      rw [dotL_axpyL _ _ _ _ hl, ← hvol]
      field_simp
      ring

/-- `filter_rhs` / `filter_def`: the filtered vector has zero dual mean, `w · prim = 0` -/
theorem C06.mean_rhs_zero {α : Type} [Field α] (f : MeanF α) (v w : List α)
    (hvol : f.vol = dotL f.prim f.dual) (hnz : f.vol ≠ 0) (hne : f.prim ≠ [])
    (hrun : f.filterRhs v = some w) : dotL w f.prim = 0 := by
  unfold MeanF.filterRhs MeanF.dotAxpy at hrun
  have hemp : f.prim.isEmpty = false := by cases h : f.prim <;> simp_all
  simp only [hemp, Bool.false_eq_true, if_false] at hrun
  split at hrun
  · simp at hrun
  · split at hrun
    · simp at hrun
    · rename_i h1 h2
      simp only [Option.some.injEq] at hrun
      subst hrun
      have hl : v.length = f.dual.length := by simpa using h2
      rw [dotL_axpyL _ _ _ _ hl, dotL_comm f.dual f.prim, ← hvol]
      field_simp
      ring

/-- `filter_sol`: the weighted mean of the filtered vector is the prescribed solution mean, `(w · dual) / vol = sol` -/
theorem C06.mean_sol {α : Type} [Field α] (f : MeanF α) (v w : List α)
    (hvol : f.vol = dotL f.prim f.dual) (hnz : f.vol ≠ 0) (hne : f.prim ≠ [])
    (hrun : f.filterSol v = some w) : dotL w f.dual / f.vol = f.sol := by
  unfold MeanF.filterSol MeanF.dotAxpy at hrun
  have hemp : f.prim.isEmpty = false := by cases h : f.prim <;> simp_all
  simp only [hemp, Bool.false_eq_true, if_false] at hrun
  split at hrun
  · simp at hrun
  · split at hrun
    · simp at hrun
    · rename_i h1 h2
      simp only [Option.some.injEq] at hrun
      subst hrun
      have hl : v.length = f.prim.length := by simpa using h2
      rw [dotL_axpyL _ _ _ _ hl, ← hvol]
      field_simp
      ring

/-- applying the mean filter again changes nothing (correction mode; exact arithmetic) -/
theorem C06.mean_cor_idempotent {α : Type} [Field α] (f : MeanF α) (v w : List α)
    (hvol : f.vol = dotL f.prim f.dual) (hnz : f.vol ≠ 0)
    (hrun : f.filterCor v = some w) : f.filterCor w = some w := by
  by_cases hne : f.prim = []
  · simp only [MeanF.filterCor, hne, List.isEmpty_nil, if_true, Option.some.injEq] at hrun ⊢
  · have hz := C06.mean_cor_zero f v w hvol hnz hne hrun
    unfold MeanF.filterCor MeanF.dotAxpy at hrun ⊢
    have hemp : f.prim.isEmpty = false := by cases h : f.prim <;> simp_all
    simp only [hemp, Bool.false_eq_true, if_false] at hrun ⊢
    split at hrun
    · simp at hrun
    · split at hrun
      · simp at hrun
      · rename_i h1 h2
        simp only [Option.some.injEq] at hrun
        have hl : v.length = f.prim.length := by simpa using h2
        have hd : v.length = f.dual.length := by simpa using h1
        have hwl : w.length = v.length := by rw [← hrun, length_axpyL _ _ _ hl]
        have e1 : (w.length != f.dual.length) = false := by simp [hwl, hd]
        have e2 : (w.length != f.prim.length) = false := by simp [hwl, hl]
        simp only [e1, e2, Bool.false_eq_true, if_false, hz, neg_zero, zero_div]
        rw [axpyL_zero w f.prim (by omega)]

/-- the weighted-mean clause fails for an inconsistent volume: it is a hypothesis, not decoration
    (4-argument constructor with `vol ≠ prim · dual`) -/
example : ∃ (f : MeanF Rat) (v w : List Rat), f.vol ≠ dotL f.prim f.dual ∧ f.filterCor v = some w ∧ dotL w f.dual ≠ 0 :=
  ⟨{ prim := [1], dual := [1], vol := 2, sol := 0 }, [1], [1 / 2], by decide +kernel, by decide +kernel, by decide +kernel⟩


/-! ## slip filter (exact over a field).  A successful run implies `ν · ν ≠ 0` for every entry (a zero normal divides
    by zero = `none`); `e.1 < f.size` is the precondition `index < size` of `add` (ASSERT in debug builds). -/

/-- after the filter every constrained block has a vanishing normal component -/
theorem C06.slip_normal_zero {α : Type} [Field α] [DecidableEq α] (f : SlipF α) (v w : List α)
    (hn : (f.es.map Prod.fst).Nodup) (hin : ∀ e ∈ f.es, e.1 < f.size) (hrun : f.filter v = some w) :
    ∀ e ∈ f.es, dotL (readBlock f.bs e.1 w) (SlipF.normal f.bs e) = 0 := by
  intro e he
  unfold SlipF.filter at hrun
  split at hrun
  · rename_i h0
    have := hin e he
    omega
  · split at hrun
    · simp at hrun
    · rename_i hsz
      have hlen : f.size * f.bs = v.length := by simpa using hsz
      refine run_normal_zero f.bs f.es v w hrun hn (fun g hg => ?_) e he
      have := Nat.mul_le_mul_left f.bs (Nat.succ_le_of_lt (hin g hg))
      rw [Nat.mul_succ, Nat.mul_comm f.bs f.size] at this
      omega

/-- everything outside the constrained blocks is unchanged, and the length is kept -/
theorem C06.slip_untouched {α : Type} [Field α] [DecidableEq α] (f : SlipF α) (v w : List α)
    (hrun : f.filter v = some w) (p : Nat)
    (hp : ∀ e ∈ f.es, ¬ (f.bs * e.1 ≤ p ∧ p < f.bs * e.1 + f.bs)) :
    w[p]? = v[p]? ∧ w.length = v.length := by
  unfold SlipF.filter at hrun
  split at hrun
  · simp only [Option.some.injEq] at hrun; subst hrun; exact ⟨rfl, rfl⟩
  · split at hrun
    · simp at hrun
    · exact ⟨run_untouched f.bs f.es v w hrun p hp, run_length f.bs f.es v w hrun⟩

/-- applying the slip filter again changes nothing -/
theorem C06.slip_idempotent {α : Type} [Field α] [DecidableEq α] (f : SlipF α) (v w : List α)
    (hn : (f.es.map Prod.fst).Nodup) (hin : ∀ e ∈ f.es, e.1 < f.size) (hrun : f.filter v = some w) :
    f.filter w = some w := by
  have hz := C06.slip_normal_zero f v w hn hin hrun
  unfold SlipF.filter at hrun ⊢
  split at hrun
  · rename_i h0; simp [h0]
  · rename_i h0
    split at hrun
    · simp at hrun
    · rename_i hsz
      have hlen : f.size * f.bs = v.length := by simpa using hsz
      have hwl := run_length f.bs f.es v w hrun
      have hsz' : (f.size * f.bs != w.length) = false := by simp [hwl, hlen]
      simp only [h0, if_false, hsz', Bool.false_eq_true]
      apply run_fixed
      intro e he
      refine ⟨run_normals_ne f.bs f.es v w hrun e he, hz e he, ?_⟩
      have := Nat.mul_le_mul_left f.bs (Nat.succ_le_of_lt (hin e he))
      rw [Nat.mul_succ, Nat.mul_comm f.bs f.size] at this
      omega

/-! ## unit filter on a well-formed CSR matrix (dense meaning `Csr.entry`, duplicates of a column would add) -/

/-- a constrained row that stores its diagonal entry (exactly once) becomes the unit row `e_i` -/
theorem C06.unit_mat_rows {α : Type} [CommSemiring α] (f : UnitF α) (A B : FeatModel.LA.Csr α)
    (hwf : A.wf = true) (hes : ∀ e ∈ f.es, e.1 < A.rows) (hrun : f.filterMat A = some B)
    (i j : Nat) (x : α) (hm : (i, x) ∈ f.es) (k0 : Nat) (hk0 : A.rowBegin i ≤ k0 ∧ k0 < A.rowEnd i)
    (hc0 : A.colInd.getD k0 0 = i)
    (huniq : ∀ k, A.rowBegin i ≤ k → k < A.rowEnd i → A.colInd.getD k 0 = i → k = k0) :
    B.entry i j = if j = i then 1 else 0 := by
  have h := (FeatModel.LA.Csr.wf_iff A).mp hwf
  obtain ⟨e, hl⟩ := lastEntry_of_mem hm
  rw [filterMat_some f A B hrun (List.ne_nil_of_mem hm), entry_constrained h f.es hes (hes _ hm) hl j]
  exact sum_unit_row _ _ _ i j k0 hk0 hc0 huniq

/-- the excluded point: a constrained row WITHOUT a stored diagonal entry becomes the zero row -/
theorem C06.unit_mat_no_diag {α : Type} [CommSemiring α] (f : UnitF α) (A B : FeatModel.LA.Csr α)
    (hwf : A.wf = true) (hes : ∀ e ∈ f.es, e.1 < A.rows) (hrun : f.filterMat A = some B)
    (i j : Nat) (x : α) (hm : (i, x) ∈ f.es)
    (hno : ∀ k, A.rowBegin i ≤ k → k < A.rowEnd i → A.colInd.getD k 0 ≠ i) :
    B.entry i j = 0 := by
  have h := (FeatModel.LA.Csr.wf_iff A).mp hwf
  obtain ⟨e, hl⟩ := lastEntry_of_mem hm
  rw [filterMat_some f A B hrun (List.ne_nil_of_mem hm), entry_constrained h f.es hes (hes _ hm) hl j]
  exact sum_zero_row _ _ _ i j hno

/-- all rows the filter does not constrain keep their dense meaning -/
theorem C06.unit_mat_other_rows_untouched {α : Type} [CommSemiring α] (f : UnitF α) (A B : FeatModel.LA.Csr α)
    (hwf : A.wf = true) (hes : ∀ e ∈ f.es, e.1 < A.rows) (hrun : f.filterMat A = some B)
    (i j : Nat) (hi : i < A.rows) (hfree : ∀ e ∈ f.es, e.1 ≠ i) :
    B.entry i j = A.entry i j := by
  have h := (FeatModel.LA.Csr.wf_iff A).mp hwf
  by_cases hne : f.es = []
  · have : B = A := by
      unfold UnitF.filterMat at hrun
      simp only [hne, List.isEmpty_nil, if_true, Option.some.injEq] at hrun
      exact hrun.symm
    rw [this]
  · rw [filterMat_some f A B hrun hne, entry_with_val, FeatModel.LA.Csr.entry_eq_sum_Ico]
    apply Finset.sum_congr rfl
    intro k hk
    rw [Finset.mem_Ico] at hk
    unfold UnitF.matVals
    rw [rewriteRows_getD_free h f.es hes _ hi hk hfree]

/-- the solution of the filtered system takes the prescribed boundary value: if `B = filter_mat A`,
    `b' = filter_rhs b` and `sol` satisfies equation `i` of `B sol = b'` for a constrained row with stored diagonal,
    then `sol[i]` is the prescribed value -/
theorem C06.filtered_system_solution_takes_boundary_values {α : Type} [CommSemiring α] (f : UnitF α)
    (A B : FeatModel.LA.Csr α) (hwf : A.wf = true) (hes : ∀ e ∈ f.es, e.1 < A.rows) (hrun : f.filterMat A = some B)
    (b b' : List α) (hb : f.filterRhs b = some b')
    (i : Nat) (x : α) (hx : lastWrite f.es i = some x) (hib : i < b.length)
    (k0 : Nat) (hk0 : A.rowBegin i ≤ k0 ∧ k0 < A.rowEnd i) (hc0 : A.colInd.getD k0 0 = i)
    (huniq : ∀ k, A.rowBegin i ≤ k → k < A.rowEnd i → A.colInd.getD k 0 = i → k = k0)
    (sol : Array α) (hsol : B.rowSum sol i = b'.getD i 0) :
    sol.getD i 0 = x := by
  have h := (FeatModel.LA.Csr.wf_iff A).mp hwf
  have hm := lastWrite_isSome_mem f.es i x hx
  obtain ⟨e, hl⟩ := lastEntry_of_mem hm
  have hi := hes _ hm
  have hrow : B.rowSum sol i = sol.getD i 0 := by
    rw [filterMat_some f A B hrun (List.ne_nil_of_mem hm), rowSum_with_val]
    rw [← sum_unit_row_apply (A.rowBegin i) (A.rowEnd i) (fun k => A.colInd.getD k 0) i (fun c => sol.getD c 0) k0 hk0 hc0 huniq]
    apply Finset.sum_congr rfl
    intro k hk
    rw [Finset.mem_Ico] at hk
    rw [matVals_getD_constrained h f.es hes hi hk hl]
  have hb' := C06.unit_rhs_constrained f b b' i x hb hx hib
  rw [← hrow, hsol, List.getD_eq_getElem?_getD, hb']
  rfl

/-! ## chains / sequences of unit filters with pairwise disjoint index sets -/

/-- an index that no member constrains is untouched by the whole chain (all modes) -/
theorem C06.chain_units_untouched {α : Type} [Zero α] [One α] [Add α] [Mul α] [Sub α] [Neg α] [Div α] [DecidableEq α]
    (m : Mode) (fs : List (UnitF α)) (v w : List α) (i : Nat)
    (hrun : applyChain m (fs.map Flt.unit) (Vec.leaf v) = some (Vec.leaf w))
    (hfree : ∀ g ∈ fs, ∀ e ∈ g.es, e.1 ≠ i) : w[i]? = v[i]? ∧ w.length = v.length := by
  induction fs generalizing v with
  | nil =>
    simp only [List.map_nil, applyChain, Option.some.injEq, Vec.leaf.injEq] at hrun
    subst hrun; exact ⟨rfl, rfl⟩
  | cons g t ih =>
    simp only [List.map_cons, applyChain, Flt.apply] at hrun
    cases hg : g.apply m v with
    | none => simp [hg] at hrun
    | some v' =>
      simp only [hg, Option.map_some] at hrun
      obtain ⟨h1, h2⟩ := ih v' hrun (fun g' hg' => hfree g' (List.mem_cons_of_mem _ hg'))
      obtain ⟨h3, h4⟩ := C06.unit_unconstrained_untouched m g v v' i hg (hfree g List.mem_cons_self)
      exact ⟨h1.trans h3, h2.trans h4⟩

/-- members with pairwise disjoint index sets: after the chain EVERY member's constraint holds exactly
    (`filter_rhs` / `filter_sol`; compare `C06.chain_last_unit_wins` for overlapping members) -/
theorem C06.chain_disjoint_all_constraints {α : Type} [Zero α] [One α] [Add α] [Mul α] [Sub α] [Neg α] [Div α]
    [DecidableEq α] (fs : List (UnitF α)) (v w : List α)
    (hrun : applyChain Mode.rhs (fs.map Flt.unit) (Vec.leaf v) = some (Vec.leaf w))
    (hdis : fs.Pairwise (fun f g => ∀ a ∈ f.es, ∀ b ∈ g.es, a.1 ≠ b.1)) :
    ∀ f ∈ fs, ∀ i x, lastWrite f.es i = some x → i < v.length → w[i]? = some x := by
  induction fs generalizing v with
  | nil => intro f hf; simp at hf
  | cons g t ih =>
    simp only [List.map_cons, applyChain, Flt.apply] at hrun
    rw [List.pairwise_cons] at hdis
    cases hg : g.apply Mode.rhs v with
    | none => simp [hg] at hrun
    | some v' =>
      simp only [hg, Option.map_some] at hrun
      have hlen : v'.length = v.length := by
        simp only [UnitF.apply, UnitF.filterRhs] at hg
        split at hg
        · simp at hg; rw [hg]
        · split at hg
          · simp at hg
          · simp at hg; rw [← hg, length_scatter]
      intro f hf i x hx hi
      rcases List.mem_cons.mp hf with hh | hh
      · subst hh
        have hmem := lastWrite_isSome_mem f.es i x hx
        have hfree : ∀ g' ∈ t, ∀ e ∈ g'.es, e.1 ≠ i := by
          intro g' hg' e he heq
          exact hdis.1 g' hg' (i, x) hmem e he heq.symm
        rw [(C06.chain_units_untouched Mode.rhs t v' w i hrun hfree).1]
        exact C06.unit_rhs_constrained f v v' i x hg hx hi
      · exact ih v' hrun hdis.2 f hh i x hx (by omega)

/-- the hypotheses of the matrix theorems are satisfiable by a non-trivial value: a well-formed 2x2 CSR matrix, row 0
    constrained (stored diagonal at position 0) becomes `(1, 0)`, row 1 keeps its entry -/
example :
    let A : FeatModel.LA.Csr Nat := { rows := 2, cols := 2, rowPtr := #[0, 2, 3], colInd := #[0, 1, 1], val := #[5, 6, 7] }
    let f : UnitF Nat := { size := 2, es := [(0, 9)] }
    A.wf = true ∧ (f.filterMat A).map (fun B => (B.val, B.entry 0 0, B.entry 0 1, B.entry 1 1)) = some (#[1, 0, 7], 1, 0, 7) := by
  decide +kernel


/-! ## blocked unit filter on vectors (`UnitFilterBlocked`): per pod entry `bs * i + j`.
    `f.skip x` is `_ignore_nans && Math::isnan(x)`; block indices pairwise different (what `add` guarantees). -/

/-- `filter_rhs/sol` (`modeVal = id`) write the prescribed component, `filter_def/cor` (`modeVal = 0`) write zero -
    for every component that is not marked NaN-to-be-ignored -/
theorem C06.unitB_constrained {α : Type} [Zero α] (m : Mode) (f : UnitBF α) (v w : List α)
    (hn : (f.es.map Prod.fst).Nodup) (hrun : f.apply m v = some w) (e : Nat × List α) (he : e ∈ f.es)
    (j : Nat) (hj : j < f.bs) (hs : f.skip (e.2.getD j 0) = false) (hin : f.bs * e.1 + j < v.length) :
    w[f.bs * e.1 + j]? = some (modeVal m (e.2.getD j 0)) := by
  rcases unitB_apply_spec m f v w hrun with ⟨h0, _⟩ | ⟨_, _, hw⟩
  · rw [h0] at he; simp at he
  · rw [hw, getElem?_scatter_pod_mem f.bs f.skip (modeVal m) f.es hn v e he j hj, if_pos hs]
    simp [hin]

/-- `ignore_nans`: a component whose filter value is NaN is left untouched (all four modes) -/
theorem C06.unitB_nan_component_untouched {α : Type} [Zero α] (m : Mode) (f : UnitBF α) (v w : List α)
    (hn : (f.es.map Prod.fst).Nodup) (hrun : f.apply m v = some w) (e : Nat × List α) (he : e ∈ f.es)
    (j : Nat) (hj : j < f.bs) (hs : f.skip (e.2.getD j 0) = true) :
    w[f.bs * e.1 + j]? = v[f.bs * e.1 + j]? := by
  rcases unitB_apply_spec m f v w hrun with ⟨_, hw⟩ | ⟨_, _, hw⟩
  · rw [hw]
  · rw [hw, getElem?_scatter_pod_mem f.bs f.skip (modeVal m) f.es hn v e he j hj, if_neg (by rw [hs]; simp)]

/-- every pod entry outside the constrained blocks is unchanged and the length is kept (all four modes) -/
theorem C06.unitB_unconstrained_untouched {α : Type} [Zero α] (m : Mode) (f : UnitBF α) (v w : List α)
    (hrun : f.apply m v = some w) (p : Nat) (hp : ∀ e ∈ f.es, ¬ (f.bs * e.1 ≤ p ∧ p < f.bs * e.1 + f.bs)) :
    w[p]? = v[p]? ∧ w.length = v.length := by
  rcases unitB_apply_spec m f v w hrun with ⟨_, hw⟩ | ⟨_, _, hw⟩
  · rw [hw]; exact ⟨rfl, rfl⟩
  · rw [hw]
    exact ⟨getElem?_scatter_pod_free f.bs f.skip (modeVal m) f.es v p hp, length_scatter _ _⟩

/-- applying the same blocked unit filter again changes nothing (all four modes, any entry list) -/
theorem C06.unitB_idempotent {α : Type} [Zero α] (m : Mode) (f : UnitBF α) (v w : List α)
    (hrun : f.apply m v = some w) : f.apply m w = some w := by
  cases m <;> simp only [UnitBF.apply, UnitBF.filterRhs, UnitBF.filterDef] at hrun ⊢ <;>
    (split at hrun
     · simp only [Option.some.injEq] at hrun; subst hrun; rename_i he; simp [he]
     · rename_i he
       split at hrun
       · simp at hrun
       · rename_i hs
         simp only [Option.some.injEq] at hrun
         subst hrun
         simp only [he, length_scatter, hs, scatter_idem]
         simp)

/-! ## combinators, one statement per member function: `TupleFilter` / `PowerFilter` call the SAME member function
    of sub-filter `k` on component `k`; `FilterChain` / `FilterSequence` call the SAME member function of every
    sub-filter in order on the same vector.  (`Flt.apply m` is `filter_rhs/sol/def/cor` for `m = rhs/sol/defect/cor`.) -/

/-- tuple / power, any member function `m`: the call succeeds with `ws` iff there are as many components as
    sub-filters and sub-filter `k` applied in the same mode `m` to component `k` gives `ws[k]` -/
theorem C06.tuple_dispatch {α : Type} [Zero α] [One α] [Add α] [Mul α] [Sub α] [Neg α] [Div α] [DecidableEq α]
    (m : Mode) (fs : List (Flt α)) (vs ws : List (Vec α)) :
    applyTuple m fs vs = some ws ↔
      (fs.length = vs.length ∧ ws.length = vs.length ∧
        ∀ k (hk : k < fs.length) (hv : k < vs.length) (hw : k < ws.length), fs[k].apply m vs[k] = some ws[k]) := by
  induction fs generalizing vs ws with
  | nil =>
    cases vs with
    | nil =>
      simp only [applyTuple, Option.some.injEq, List.length_nil]
      constructor
      · intro h; subst h; exact ⟨trivial, rfl, fun k hk => absurd hk (by simp)⟩
      · intro h; exact (List.eq_nil_of_length_eq_zero h.2.1).symm
    | cons v vt => simp [applyTuple]
  | cons f ft ih =>
    cases vs with
    | nil => simp [applyTuple]
    | cons v vt =>
      simp only [applyTuple]
      constructor
      · intro h
        cases h1 : f.apply m v with
        | none => simp [h1] at h
        | some a =>
          cases h2 : applyTuple m ft vt with
          | none => simp [h1, h2] at h
          | some b =>
            simp only [h1, h2, Option.some.injEq] at h
            subst h
            obtain ⟨i1, i2, i3⟩ := (ih vt b).mp h2
            refine ⟨by simp [i1], by simp [i2], ?_⟩
            intro k hk hv hw
            cases k with
            | zero => simpa using h1
            | succ k => simpa using i3 k (by simpa using hk) (by simpa using hv) (by simpa using hw)
      · intro ⟨h1, h2, h3⟩
        cases ws with
        | nil => simp at h2
        | cons a b =>
          have e0 := h3 0 (by simp) (by simp) (by simp)
          simp only [List.getElem_cons_zero] at e0
          have e1 : applyTuple m ft vt = some b := by
            apply (ih vt b).mpr
            refine ⟨by simpa using h1, by simpa using h2, ?_⟩
            intro k hk hv hw
            have := h3 (k + 1) (by simpa using hk) (by simpa using hv) (by simpa using hw)
            simpa using this
          simp [e0, e1]

theorem C06.tuple_filter_rhs {α : Type} [Zero α] [One α] [Add α] [Mul α] [Sub α] [Neg α] [Div α] [DecidableEq α]
    (fs : List (Flt α)) (vs ws : List (Vec α)) (h : (Flt.tuple fs).apply Mode.rhs (Vec.node vs) = some (Vec.node ws))
    (k : Nat) (hk : k < fs.length) (hv : k < vs.length) (hw : k < ws.length) :
    fs[k].apply Mode.rhs vs[k] = some ws[k] := by
  simp only [Flt.apply] at h
  cases h1 : applyTuple Mode.rhs fs vs with
  | none => simp [h1] at h
  | some b => simp only [h1, Option.map_some, Option.some.injEq, Vec.node.injEq] at h; subst h
              exact ((C06.tuple_dispatch Mode.rhs fs vs b).mp h1).2.2 k hk hv hw

theorem C06.tuple_filter_sol {α : Type} [Zero α] [One α] [Add α] [Mul α] [Sub α] [Neg α] [Div α] [DecidableEq α]
    (fs : List (Flt α)) (vs ws : List (Vec α)) (h : (Flt.tuple fs).apply Mode.sol (Vec.node vs) = some (Vec.node ws))
    (k : Nat) (hk : k < fs.length) (hv : k < vs.length) (hw : k < ws.length) :
    fs[k].apply Mode.sol vs[k] = some ws[k] := by
  simp only [Flt.apply] at h
  cases h1 : applyTuple Mode.sol fs vs with
  | none => simp [h1] at h
  | some b => simp only [h1, Option.map_some, Option.some.injEq, Vec.node.injEq] at h; subst h
              exact ((C06.tuple_dispatch Mode.sol fs vs b).mp h1).2.2 k hk hv hw

theorem C06.tuple_filter_def {α : Type} [Zero α] [One α] [Add α] [Mul α] [Sub α] [Neg α] [Div α] [DecidableEq α]
    (fs : List (Flt α)) (vs ws : List (Vec α)) (h : (Flt.tuple fs).apply Mode.defect (Vec.node vs) = some (Vec.node ws))
    (k : Nat) (hk : k < fs.length) (hv : k < vs.length) (hw : k < ws.length) :
    fs[k].apply Mode.defect vs[k] = some ws[k] := by
  simp only [Flt.apply] at h
  cases h1 : applyTuple Mode.defect fs vs with
  | none => simp [h1] at h
  | some b => simp only [h1, Option.map_some, Option.some.injEq, Vec.node.injEq] at h; subst h
              exact ((C06.tuple_dispatch Mode.defect fs vs b).mp h1).2.2 k hk hv hw

theorem C06.tuple_filter_cor {α : Type} [Zero α] [One α] [Add α] [Mul α] [Sub α] [Neg α] [Div α] [DecidableEq α]
    (fs : List (Flt α)) (vs ws : List (Vec α)) (h : (Flt.tuple fs).apply Mode.cor (Vec.node vs) = some (Vec.node ws))
    (k : Nat) (hk : k < fs.length) (hv : k < vs.length) (hw : k < ws.length) :
    fs[k].apply Mode.cor vs[k] = some ws[k] := by
  simp only [Flt.apply] at h
  cases h1 : applyTuple Mode.cor fs vs with
  | none => simp [h1] at h
  | some b => simp only [h1, Option.map_some, Option.some.injEq, Vec.node.injEq] at h; subst h
              exact ((C06.tuple_dispatch Mode.cor fs vs b).mp h1).2.2 k hk hv hw

/-- chain / sequence, any member function `m`: the members are applied left to right, each in the same mode `m`,
    each to the result of its predecessor -/
theorem C06.chain_dispatch {α : Type} [Zero α] [One α] [Add α] [Mul α] [Sub α] [Neg α] [Div α] [DecidableEq α]
    (m : Mode) (fs : List (Flt α)) (v : Vec α) :
    (Flt.chain fs).apply m v = fs.foldl (fun acc f => acc.bind (f.apply m)) (some v) := by
  have key : ∀ (fs : List (Flt α)) (o : Option (Vec α)),
      fs.foldl (fun acc f => acc.bind (f.apply m)) o = o.bind (applyChain m fs) := by
    intro fs
    induction fs with
    | nil => intro o; cases o <;> simp [applyChain]
    | cons f t ih =>
      intro o
      simp only [List.foldl_cons, ih]
      cases o with
      | none => simp
      | some u =>
        simp only [Option.bind_some, applyChain]
        cases f.apply m u <;> simp
  rw [key]
  simp [Flt.apply]

theorem C06.chain_filter_rhs {α : Type} [Zero α] [One α] [Add α] [Mul α] [Sub α] [Neg α] [Div α] [DecidableEq α]
    (f : Flt α) (fs : List (Flt α)) (v : Vec α) :
    (Flt.chain (f :: fs)).apply Mode.rhs v = (f.apply Mode.rhs v).bind ((Flt.chain fs).apply Mode.rhs) := by
  simp only [Flt.apply, applyChain]; cases f.apply Mode.rhs v <;> simp [Flt.apply]

theorem C06.chain_filter_sol {α : Type} [Zero α] [One α] [Add α] [Mul α] [Sub α] [Neg α] [Div α] [DecidableEq α]
    (f : Flt α) (fs : List (Flt α)) (v : Vec α) :
    (Flt.chain (f :: fs)).apply Mode.sol v = (f.apply Mode.sol v).bind ((Flt.chain fs).apply Mode.sol) := by
  simp only [Flt.apply, applyChain]; cases f.apply Mode.sol v <;> simp [Flt.apply]

theorem C06.chain_filter_def {α : Type} [Zero α] [One α] [Add α] [Mul α] [Sub α] [Neg α] [Div α] [DecidableEq α]
    (f : Flt α) (fs : List (Flt α)) (v : Vec α) :
    (Flt.chain (f :: fs)).apply Mode.defect v = (f.apply Mode.defect v).bind ((Flt.chain fs).apply Mode.defect) := by
  simp only [Flt.apply, applyChain]; cases f.apply Mode.defect v <;> simp [Flt.apply]

theorem C06.chain_filter_cor {α : Type} [Zero α] [One α] [Add α] [Mul α] [Sub α] [Neg α] [Div α] [DecidableEq α]
    (f : Flt α) (fs : List (Flt α)) (v : Vec α) :
    (Flt.chain (f :: fs)).apply Mode.cor v = (f.apply Mode.cor v).bind ((Flt.chain fs).apply Mode.cor) := by
  simp only [Flt.apply, applyChain]; cases f.apply Mode.cor v <;> simp [Flt.apply]

/-- `filter_mat` of a chain / sequence: `filter_mat` of every member in order (unit: rows rewritten; mean, none:
    nothing) -/
theorem C06.chain_filter_mat {α : Type} [Zero α] [One α] [Mul α] (f : Flt α) (fs : List (Flt α))
    (A : FeatModel.LA.Csr α) :
    (Flt.chain (f :: fs)).filterMat A = (f.filterMat A).bind ((Flt.chain fs).filterMat) := by
  simp only [Flt.filterMat, filterMatChain]; cases f.filterMat A <;> simp [Flt.filterMat]

/-- the four member functions of the leaves really differ, so the dispatch statements are not vacuous:
    a unit filter separates {rhs, sol} from {def, cor}; a mean filter with non-parallel weights and a non-zero
    solution mean separates {rhs, def}, {sol} and {cor}; a chain of both separates all four -/
example :
    let u : Flt Rat := .unit { size := 2, es := [(0, 7)] }
    let mf : Flt Rat := .mean { prim := [1, 2], dual := [3, 1], vol := 5, sol := 4 }
    let c : Flt Rat := .chain [u, mf]
    let v : Vec Rat := .leaf [1, 1]
    let r := fun (m : Mode) => (c.apply m v).map Vec.leaves
    r .rhs ≠ r .sol ∧ r .rhs ≠ r .defect ∧ r .rhs ≠ r .cor ∧ r .sol ≠ r .defect ∧ r .sol ≠ r .cor ∧ r .defect ≠ r .cor := by
  decide +kernel


/-! ## blocked mean filter (`MeanFilterBlocked`), per block component `j`: `col bs j x` is the scalar vector of
    component `j`; the volume of the component must be consistent and non-zero (for a filter object built by the
    constructors this is a theorem since the repair of finding `c06-edge:F1`: see `C06.meanB3_*` below) -/

/-- `filter_cor`: component `j` of the result has zero primal mean -/
theorem C06.meanB_cor_zero {α : Type} [Field α] [DecidableEq α] (f : MeanBF α) (v w : List α) (j : Nat)
    (hj : j < f.bs) (hvol : f.vol.getD j 0 = dotL (col f.bs j f.prim) (col f.bs j f.dual))
    (hnz : f.vol.getD j 0 ≠ 0) (hne : f.prim ≠ []) (hrun : f.filterCor v = some w) :
    dotL (col f.bs j w) (col f.bs j f.dual) = 0 := by
  unfold MeanBF.filterCor at hrun
  have hemp : f.prim.isEmpty = false := by cases h : f.prim <;> simp_all
  simp only [hemp, Bool.false_eq_true, if_false] at hrun
  obtain ⟨hl, hc⟩ := dotAxpyB_spec f v f.dual f.prim w _ hrun j hj
  rw [hc, dotL_axpyL _ _ _ _ (by rw [length_col, length_col, hl]), ← hvol]
  field_simp
  ring

/-- `filter_rhs` / `filter_def`: component `j` of the result has zero dual mean -/
theorem C06.meanB_rhs_zero {α : Type} [Field α] [DecidableEq α] (f : MeanBF α) (v w : List α) (j : Nat)
    (hj : j < f.bs) (hvol : f.vol.getD j 0 = dotL (col f.bs j f.prim) (col f.bs j f.dual))
    (hnz : f.vol.getD j 0 ≠ 0) (hne : f.prim ≠ []) (hrun : f.filterRhs v = some w) :
    dotL (col f.bs j w) (col f.bs j f.prim) = 0 := by
  unfold MeanBF.filterRhs at hrun
  have hemp : f.prim.isEmpty = false := by cases h : f.prim <;> simp_all
  simp only [hemp, Bool.false_eq_true, if_false] at hrun
  obtain ⟨hl, hc⟩ := dotAxpyB_spec f v f.prim f.dual w _ hrun j hj
  rw [hc, dotL_axpyL _ _ _ _ (by rw [length_col, length_col, hl]),
    dotL_comm (col f.bs j f.dual) (col f.bs j f.prim), ← hvol]
  field_simp
  ring

/-- `filter_sol`: the weighted mean of component `j` is the prescribed solution mean of that component -/
theorem C06.meanB_sol {α : Type} [Field α] [DecidableEq α] (f : MeanBF α) (v w : List α) (j : Nat)
    (hj : j < f.bs) (hvol : f.vol.getD j 0 = dotL (col f.bs j f.prim) (col f.bs j f.dual))
    (hnz : f.vol.getD j 0 ≠ 0) (hne : f.prim ≠ []) (hrun : f.filterSol v = some w) :
    dotL (col f.bs j w) (col f.bs j f.dual) / f.vol.getD j 0 = f.sol.getD j 0 := by
  unfold MeanBF.filterSol at hrun
  have hemp : f.prim.isEmpty = false := by cases h : f.prim <;> simp_all
  simp only [hemp, Bool.false_eq_true, if_false] at hrun
  obtain ⟨hl, hc⟩ := dotAxpyB_spec f v f.dual f.prim w _ hrun j hj
  rw [hc, dotL_axpyL _ _ _ _ (by rw [length_col, length_col, hl]), ← hvol]
  field_simp
  ring


/-! ## blocked unit filter on a well-formed BCSR matrix, for ALL block shapes `bh x bw` (square or not), per stored
    scalar `v[j][k][l]` (`UnitBF.pod A j k l`): block `j` of the constrained block row, block-row component `k`,
    column component `l`.  `f.skip x` is `_ignore_nans && isnan(x)`. -/

/-- `filter_mat`: in a constrained block row every stored block becomes zero, except that the diagonal block
    (`col_idx[j] == row`) gets ones on its diagonal `k = l` (for `bh > bw` the rows `k ≥ bw` have no such entry and
    become zero rows); block-row components whose filter value is an ignored NaN are left untouched -/
theorem C06.unitB_mat_rows {α : Type} [Zero α] [One α] [Mul α] (f : UnitBF α) (A B : FeatModel.LA.Bcsr α)
    (hwf : A.wf = true) (hn : (f.es.map Prod.fst).Nodup) (hes : ∀ e ∈ f.es, e.1 < A.rows)
    (hrun : f.filterMat A = some B) (e0 : Nat × List α) (he0 : e0 ∈ f.es) (j0 k0 l0 : Nat)
    (hj0 : A.rowPtr.getD e0.1 0 ≤ j0 ∧ j0 < A.rowPtr.getD (e0.1 + 1) 0) (hk0 : k0 < A.bh) (hl0 : l0 < A.bw) :
    B.val.getD (UnitBF.pod A j0 k0 l0) 0 =
      if f.skip (e0.2.getD k0 0) then A.val.getD (UnitBF.pod A j0 k0 l0) 0
      else if A.colInd.getD j0 0 = e0.1 ∧ k0 = l0 then 1 else 0 := by
  have W := C02L.Conv.bcsr_wf_of A hwf
  have hq := pod_lt W (hes e0 he0) hj0.2 hk0 hl0
  unfold UnitBF.filterMat at hrun
  have hemp : f.es.isEmpty = false := by cases h : f.es <;> simp_all
  simp only [hemp, Bool.false_eq_true, if_false] at hrun
  split at hrun
  · simp at hrun
  · simp only [Option.some.injEq] at hrun
    rw [← hrun]
    show (UnitBF.matVals f.skip A f.es).getD _ 0 = _
    rw [matVals_eq]
    have hloc : ∀ (e : Nat × List α) j k, k < A.bh → ¬ (j = j0 ∧ k = k0) →
        ∀ y, phiMat f.skip A (UnitBF.pod A j0 k0 l0) e j k y = y := by
      intro e j k hk hne y
      have hseg := seg_other A hk hk0 hl0 hne
      unfold phiMat
      by_cases hs : f.skip (e.2.getD k 0)
      · simp only [hs, if_true]
      · simp only [hs, Bool.false_eq_true, if_false]
        have h1 : ¬ ((A.colInd.getD j 0 = e.1 ∧ k < A.bw) ∧ UnitBF.pod A j k k = UnitBF.pod A j0 k0 l0) := by
          intro hh
          apply hseg
          have hkw := hh.1.2
          have hp := hh.2
          unfold UnitBF.pod at hp ⊢
          omega
        rw [if_neg h1, if_neg hseg]
    rw [(getD_rewriteBlocks W f.es hn hes (bodyMat f.skip A) (phiMat f.skip A (UnitBF.pod A j0 k0 l0)) _
      (size_bodyMat f.skip A) (fun e j k v hv => getD_bodyMat f.skip A _ e j k v hv) j0 k0 hk0 hloc e0.1
      (hes e0 he0) hj0 A.val hq).1 e0 he0 rfl]
    unfold phiMat
    by_cases hs : f.skip (e0.2.getD k0 0)
    · simp only [hs, if_true]
    · simp only [hs, Bool.false_eq_true, if_false]
      have hseg : UnitBF.pod A j0 k0 0 ≤ UnitBF.pod A j0 k0 l0 ∧
          UnitBF.pod A j0 k0 l0 < UnitBF.pod A j0 k0 0 + A.bw := by unfold UnitBF.pod; omega
      by_cases hd : A.colInd.getD j0 0 = e0.1 ∧ k0 = l0
      · have : (A.colInd.getD j0 0 = e0.1 ∧ k0 < A.bw) ∧ UnitBF.pod A j0 k0 k0 = UnitBF.pod A j0 k0 l0 :=
          ⟨⟨hd.1, by omega⟩, by rw [hd.2]⟩
        rw [if_pos this, if_pos hd]
      · have : ¬ ((A.colInd.getD j0 0 = e0.1 ∧ k0 < A.bw) ∧ UnitBF.pod A j0 k0 k0 = UnitBF.pod A j0 k0 l0) := by
          intro hh
          apply hd
          refine ⟨hh.1.1, ?_⟩
          have hp := hh.2
          unfold UnitBF.pod at hp
          omega
        rw [if_neg this, if_pos hseg, if_neg hd]

/-- `filter_offdiag_row_mat`: constrained block rows become zero (ignored NaN components untouched) -/
theorem C06.unitB_offdiag_rows {α : Type} [Zero α] [One α] [Mul α] (f : UnitBF α) (A B : FeatModel.LA.Bcsr α)
    (hwf : A.wf = true) (hn : (f.es.map Prod.fst).Nodup) (hes : ∀ e ∈ f.es, e.1 < A.rows)
    (hrun : f.filterOffdiagRowMat A = some B) (e0 : Nat × List α) (he0 : e0 ∈ f.es) (j0 k0 l0 : Nat)
    (hj0 : A.rowPtr.getD e0.1 0 ≤ j0 ∧ j0 < A.rowPtr.getD (e0.1 + 1) 0) (hk0 : k0 < A.bh) (hl0 : l0 < A.bw) :
    B.val.getD (UnitBF.pod A j0 k0 l0) 0 =
      if f.skip (e0.2.getD k0 0) then A.val.getD (UnitBF.pod A j0 k0 l0) 0 else 0 := by
  have W := C02L.Conv.bcsr_wf_of A hwf
  have hq := pod_lt W (hes e0 he0) hj0.2 hk0 hl0
  unfold UnitBF.filterOffdiagRowMat at hrun
  have hemp : f.es.isEmpty = false := by cases h : f.es <;> simp_all
  simp only [hemp, Bool.false_eq_true, if_false] at hrun
  split at hrun
  · simp at hrun
  · simp only [Option.some.injEq] at hrun
    rw [← hrun]
    show (UnitBF.offdiagVals f.skip A f.es).getD _ 0 = _
    rw [offdiagVals_eq]
    have hloc : ∀ (e : Nat × List α) j k, k < A.bh → ¬ (j = j0 ∧ k = k0) →
        ∀ y, phiOff f.skip A (UnitBF.pod A j0 k0 l0) e j k y = y := by
      intro e j k hk hne y
      have hseg := seg_other A hk hk0 hl0 hne
      unfold phiOff
      by_cases hs : f.skip (e.2.getD k 0)
      · simp only [hs, if_true]
      · simp only [hs, Bool.false_eq_true, if_false]
        rw [if_neg hseg]
    rw [(getD_rewriteBlocks W f.es hn hes (bodyOff f.skip A) (phiOff f.skip A (UnitBF.pod A j0 k0 l0)) _
      (size_bodyOff f.skip A) (fun e j k v hv => getD_bodyOff f.skip A _ e j k v hv) j0 k0 hk0 hloc e0.1
      (hes e0 he0) hj0 A.val hq).1 e0 he0 rfl]
    unfold phiOff
    have hseg : UnitBF.pod A j0 k0 0 ≤ UnitBF.pod A j0 k0 l0 ∧
        UnitBF.pod A j0 k0 l0 < UnitBF.pod A j0 k0 0 + A.bw := by unfold UnitBF.pod; omega
    rw [if_pos hseg]

/-- `filter_weak_matrix_rows`: a constrained block row of `A` becomes `diag(value) * ` the same row of `M` -/
theorem C06.unitB_weak_rows {α : Type} [Zero α] [One α] [Mul α] (f : UnitBF α) (A B : FeatModel.LA.Bcsr α)
    (valM : Array α) (hwf : A.wf = true) (hn : (f.es.map Prod.fst).Nodup) (hes : ∀ e ∈ f.es, e.1 < A.rows)
    (hrun : f.filterWeakMatrixRows A valM = some B) (e0 : Nat × List α) (he0 : e0 ∈ f.es) (j0 k0 l0 : Nat)
    (hj0 : A.rowPtr.getD e0.1 0 ≤ j0 ∧ j0 < A.rowPtr.getD (e0.1 + 1) 0) (hk0 : k0 < A.bh) (hl0 : l0 < A.bw) :
    B.val.getD (UnitBF.pod A j0 k0 l0) 0 = e0.2.getD k0 0 * valM.getD (UnitBF.pod A j0 k0 l0) 0 := by
  have W := C02L.Conv.bcsr_wf_of A hwf
  have hq := pod_lt W (hes e0 he0) hj0.2 hk0 hl0
  unfold UnitBF.filterWeakMatrixRows at hrun
  have hemp : f.es.isEmpty = false := by cases h : f.es <;> simp_all
  simp only [hemp, Bool.false_eq_true, if_false] at hrun
  split at hrun
  · simp at hrun
  · simp only [Option.some.injEq] at hrun
    rw [← hrun]
    show (UnitBF.weakVals A valM f.es).getD _ 0 = _
    rw [weakVals_eq]
    have hloc : ∀ (e : Nat × List α) j k, k < A.bh → ¬ (j = j0 ∧ k = k0) →
        ∀ y, phiWeak A valM (UnitBF.pod A j0 k0 l0) e j k y = y := by
      intro e j k hk hne y
      unfold phiWeak
      rw [if_neg (seg_other A hk hk0 hl0 hne)]
    rw [(getD_rewriteBlocks W f.es hn hes (bodyWeak A valM) (phiWeak A valM (UnitBF.pod A j0 k0 l0)) _
      (fun e j k v => by unfold bodyWeak; exact size_setRange _ _ _ _)
      (fun e j k v hv => getD_bodyWeak A valM _ e j k v hv) j0 k0 hk0 hloc e0.1
      (hes e0 he0) hj0 A.val hq).1 e0 he0 rfl]
    unfold phiWeak
    have hseg : UnitBF.pod A j0 k0 0 ≤ UnitBF.pod A j0 k0 l0 ∧
        UnitBF.pod A j0 k0 l0 < UnitBF.pod A j0 k0 0 + A.bw := by unfold UnitBF.pod; omega
    rw [if_pos hseg]

/-- all three matrix members: the stored scalars of block rows that no entry constrains are unchanged -/
theorem C06.unitB_mat_other_rows_untouched {α : Type} [Zero α] [One α] [Mul α] (f : UnitBF α)
    (A : FeatModel.LA.Bcsr α) (valM : Array α) (hwf : A.wf = true) (hn : (f.es.map Prod.fst).Nodup)
    (hes : ∀ e ∈ f.es, e.1 < A.rows) (i0 j0 k0 l0 : Nat) (hi0 : i0 < A.rows) (hfree : ∀ e ∈ f.es, e.1 ≠ i0)
    (hj0 : A.rowPtr.getD i0 0 ≤ j0 ∧ j0 < A.rowPtr.getD (i0 + 1) 0) (hk0 : k0 < A.bh) (hl0 : l0 < A.bw) :
    (UnitBF.matVals f.skip A f.es).getD (UnitBF.pod A j0 k0 l0) 0 = A.val.getD (UnitBF.pod A j0 k0 l0) 0 ∧
    (UnitBF.offdiagVals f.skip A f.es).getD (UnitBF.pod A j0 k0 l0) 0 = A.val.getD (UnitBF.pod A j0 k0 l0) 0 ∧
    (UnitBF.weakVals A valM f.es).getD (UnitBF.pod A j0 k0 l0) 0 = A.val.getD (UnitBF.pod A j0 k0 l0) 0 := by
  have W := C02L.Conv.bcsr_wf_of A hwf
  have hq := pod_lt W hi0 hj0.2 hk0 hl0
  refine ⟨?_, ?_, ?_⟩
  · rw [matVals_eq]
    refine (getD_rewriteBlocks W f.es hn hes (bodyMat f.skip A) (phiMat f.skip A (UnitBF.pod A j0 k0 l0)) _
      (size_bodyMat f.skip A) (fun e j k v hv => getD_bodyMat f.skip A _ e j k v hv) j0 k0 hk0 ?_ i0 hi0 hj0
      A.val hq).2 hfree
    intro e j k hk hne y
    have hseg := seg_other A hk hk0 hl0 hne
    unfold phiMat
    by_cases hs : f.skip (e.2.getD k 0)
    · simp only [hs, if_true]
    · simp only [hs, Bool.false_eq_true, if_false]
      have h1 : ¬ ((A.colInd.getD j 0 = e.1 ∧ k < A.bw) ∧ UnitBF.pod A j k k = UnitBF.pod A j0 k0 l0) := by
        intro hh
        apply hseg
        have hkw := hh.1.2
        have hp := hh.2
        unfold UnitBF.pod at hp ⊢
        omega
      rw [if_neg h1, if_neg hseg]
  · rw [offdiagVals_eq]
    refine (getD_rewriteBlocks W f.es hn hes (bodyOff f.skip A) (phiOff f.skip A (UnitBF.pod A j0 k0 l0)) _
      (size_bodyOff f.skip A) (fun e j k v hv => getD_bodyOff f.skip A _ e j k v hv) j0 k0 hk0 ?_ i0 hi0 hj0
      A.val hq).2 hfree
    intro e j k hk hne y
    unfold phiOff
    by_cases hs : f.skip (e.2.getD k 0)
    · simp only [hs, if_true]
    · simp only [hs, Bool.false_eq_true, if_false]
      rw [if_neg (seg_other A hk hk0 hl0 hne)]
  · rw [weakVals_eq]
    refine (getD_rewriteBlocks W f.es hn hes (bodyWeak A valM) (phiWeak A valM (UnitBF.pod A j0 k0 l0)) _
      (fun e j k v => by unfold bodyWeak; exact size_setRange _ _ _ _)
      (fun e j k v hv => getD_bodyWeak A valM _ e j k v hv) j0 k0 hk0 ?_ i0 hi0 hj0 A.val hq).2 hfree
    intro e j k hk hne y
    unfold phiWeak
    rw [if_neg (seg_other A hk hk0 hl0 hne)]

/-! ## Global::MeanFilter (one rank; `wdot` = the `triple_dot` with the frequency vector + allreduce when a communicator
    and frequencies are present, the plain `dot` otherwise) and Global::Filter.
    `Global::Filter<F, Mirror>::filter_*(v)` is `F::filter_*(v.local())` (kernel/global/filter.hpp): the driver runs the
    `gvec` cases through the very same `Flt.apply`, so every theorem above is a theorem about the global wrapper. -/

/-- `filter_rhs` / `filter_def`: the (frequency-weighted, i.e. global) dual mean of the result vanishes -/
theorem C06.gmean_rhs_zero {α : Type} [Field α] [DecidableEq α] (comm : Bool) (prim dual freq : List α)
    (f : GMeanF α) (hf : GMeanF.make comm prim dual freq = some f) (hne : prim ≠ []) (v w : List α)
    (hrun : f.filterRhs v = some w) : GMeanF.wdot f.freq f.useFreq w f.prim = some 0 := by
  unfold GMeanF.make at hf
  simp only at hf
  cases hvol : GMeanF.wdot freq (!freq.isEmpty && comm) prim dual with
  | none => simp [hvol] at hf
  | some vol =>
    simp only [hvol, Option.some.injEq] at hf
    subst hf
    have hemp : prim.isEmpty = false := by cases h : prim <;> simp_all
    simp only [GMeanF.filterRhs, GMeanF.dotAxpy, hemp, Bool.false_eq_true, if_false] at hrun ⊢
    cases hint : GMeanF.wdot freq (!freq.isEmpty && comm) v prim with
    | none => simp [hint] at hrun
    | some integ =>
      simp only [hint] at hrun
      split at hrun
      · simp at hrun
      · rename_i hv0
        split at hrun
        · simp at hrun
        · rename_i hlen
          have hl : v.length = dual.length := by simpa using hlen
          simp only [Option.some.injEq] at hrun
          subst hrun
          unfold GMeanF.wdot at hvol hint ⊢
          cases hu : (!freq.isEmpty && comm) with
          | true =>
            simp only [hu, if_true] at hvol hint ⊢
            split at hvol
            · simp at hvol
            · rename_i h1
              split at hint
              · simp at hint
              · rename_i h2
                simp only [Option.some.injEq] at hvol hint
                have h1' : prim.length = freq.length ∧ dual.length = freq.length := by
                  simpa [not_or] using h1
                have h2' : v.length = freq.length ∧ prim.length = freq.length := by
                  simpa [not_or] using h2
                have hlw : (axpyL v dual (-integ / vol)).length = v.length := length_axpyL _ _ _ hl
                have : ((axpyL v dual (-integ / vol)).length != freq.length ||
                    prim.length != freq.length) = false := by simp [hlw, h2'.1, h2'.2]
                simp only [this, Bool.false_eq_true, if_false, Option.some.injEq]
                rw [tdotL_axpyL freq v dual prim _ hl (by omega), hint, tdotL_comm freq dual prim, hvol]
                field_simp
                ring
          | false =>
            simp only [hu, Bool.false_eq_true, if_false] at hvol hint ⊢
            split at hvol
            · simp at hvol
            · split at hint
              · simp at hint
              · rename_i h2
                simp only [Option.some.injEq] at hvol hint
                have h2' : prim.length = v.length := by simpa using h2
                have hlw : (axpyL v dual (-integ / vol)).length = v.length := length_axpyL _ _ _ hl
                have : (prim.length != (axpyL v dual (-integ / vol)).length) = false := by simp [hlw, h2']
                simp only [this, Bool.false_eq_true, if_false, Option.some.injEq]
                rw [dotL_axpyL v dual prim _ hl, hint, dotL_comm dual prim, hvol]
                field_simp
                ring

/-! ## blocked mean filter after the repair of finding c06-edge:F1: the constructors test EVERY volume component
    (`|vol_j| > eps`), so a successfully constructed non-empty filter never divides by zero and the constraint
    theorems need no hypothesis about the volume.  `absGtEps x` is `Math::abs(x) > eps`; all that is used of it is
    `absGtEps x = true → x ≠ 0`. -/

/-- both value constructors: every volume component of the constructed (non-empty) filter is non-zero -/
theorem C06.meanB_constructed_volume_nonzero {α : Type} [Field α] [DecidableEq α] (absGtEps : α → Bool)
    (habs : ∀ x, absGtEps x = true → x ≠ 0) (bs : Nat) (prim dual sol vol : List α) (f : MeanBF α) (hne : prim ≠ [])
    (hf : MeanBF.mk3 absGtEps bs prim dual sol = some f ∨ MeanBF.mk4 absGtEps bs prim dual sol vol = some f) :
    f.bs = bs ∧ f.prim = prim ∧ ∀ j, j < bs → f.vol.getD j 0 ≠ 0 := by
  have hemp : prim.isEmpty = false := by cases h : prim <;> simp_all
  have key : ∀ (w : List α), MeanBF.volOk absGtEps bs w = true → ∀ j, j < bs → w.getD j 0 ≠ 0 := by
    intro w hw j hj
    simp only [MeanBF.volOk, List.all_eq_true, List.mem_range] at hw
    exact habs _ (hw j hj)
  rcases hf with hf | hf
  · unfold MeanBF.mk3 at hf
    split at hf
    · simp at hf
    · simp only [hemp, Bool.not_false, Bool.true_and] at hf
      split at hf
      · simp at hf
      · rename_i hok
        simp only [Option.some.injEq] at hf
        subst hf
        exact ⟨rfl, rfl, key _ (by simpa using hok)⟩
  · unfold MeanBF.mk4 at hf
    simp only [hemp, Bool.not_false, Bool.true_and] at hf
    split at hf
    · simp at hf
    · rename_i hok
      simp only [Option.some.injEq] at hf
      subst hf
      exact ⟨rfl, rfl, key _ (by simpa using hok)⟩

/-- hence the division-by-zero guard of `filter_rhs/sol/def/cor` never fires for a constructed filter
    (`vol` has one entry per block component) -/
theorem C06.meanB_constructed_divisions_defined {α : Type} [Field α] [DecidableEq α] (absGtEps : α → Bool)
    (habs : ∀ x, absGtEps x = true → x ≠ 0) (bs : Nat) (prim dual sol vol : List α) (f : MeanBF α) (hne : prim ≠ [])
    (hf : MeanBF.mk3 absGtEps bs prim dual sol = some f ∨ MeanBF.mk4 absGtEps bs prim dual sol vol = some f)
    (hlen : f.vol.length = bs) : f.vol.any (fun c => c = 0) = false := by
  obtain ⟨_, _, hnz⟩ := C06.meanB_constructed_volume_nonzero absGtEps habs bs prim dual sol vol f hne hf
  rw [Bool.eq_false_iff]
  intro hany
  simp only [List.any_eq_true, decide_eq_true_eq] at hany
  obtain ⟨c, hc, hc0⟩ := hany
  obtain ⟨i, hi, hic⟩ := List.getElem_of_mem hc
  have := hnz i (by omega)
  rw [List.getD_eq_getElem?_getD, List.getElem?_eq_getElem hi, Option.getD_some, hic] at this
  exact this hc0

/-- a filter built by the 3-argument constructor (volume computed by `dot_blocked`) has a consistent volume -/
theorem C06.meanB3_volume_consistent {α : Type} [Field α] [DecidableEq α] (absGtEps : α → Bool) (bs : Nat)
    (prim dual sol : List α) (f : MeanBF α) (hf : MeanBF.mk3 absGtEps bs prim dual sol = some f) (j : Nat)
    (hj : j < bs) : f.bs = bs ∧ f.prim = prim ∧
      f.vol.getD j 0 = dotL (col f.bs j f.prim) (col f.bs j f.dual) := by
  unfold MeanBF.mk3 at hf
  split at hf
  · simp at hf
  · simp only at hf
    split at hf
    · simp at hf
    · simp only [Option.some.injEq] at hf
      subst hf
      refine ⟨rfl, rfl, ?_⟩
      simp [dotBlocked, List.getD_eq_getElem?_getD, hj]

/-- `filter_cor` of a constructed filter: zero primal mean in every component, no volume hypothesis -/
theorem C06.meanB3_cor_zero {α : Type} [Field α] [DecidableEq α] (absGtEps : α → Bool)
    (habs : ∀ x, absGtEps x = true → x ≠ 0) (bs : Nat) (prim dual sol : List α) (f : MeanBF α) (hne : prim ≠ [])
    (hf : MeanBF.mk3 absGtEps bs prim dual sol = some f) (v w : List α) (hrun : f.filterCor v = some w)
    (j : Nat) (hj : j < bs) : dotL (col f.bs j w) (col f.bs j f.dual) = 0 := by
  obtain ⟨hb, hp, hvol⟩ := C06.meanB3_volume_consistent absGtEps bs prim dual sol f hf j hj
  obtain ⟨_, _, hnz⟩ := C06.meanB_constructed_volume_nonzero absGtEps habs bs prim dual sol [] f hne (Or.inl hf)
  exact C06.meanB_cor_zero f v w j (by omega) hvol (hnz j hj) (by rw [hp]; exact hne) hrun

/-- `filter_rhs` / `filter_def` of a constructed filter: zero dual mean in every component -/
theorem C06.meanB3_rhs_zero {α : Type} [Field α] [DecidableEq α] (absGtEps : α → Bool)
    (habs : ∀ x, absGtEps x = true → x ≠ 0) (bs : Nat) (prim dual sol : List α) (f : MeanBF α) (hne : prim ≠ [])
    (hf : MeanBF.mk3 absGtEps bs prim dual sol = some f) (v w : List α) (hrun : f.filterRhs v = some w)
    (j : Nat) (hj : j < bs) : dotL (col f.bs j w) (col f.bs j f.prim) = 0 := by
  obtain ⟨hb, hp, hvol⟩ := C06.meanB3_volume_consistent absGtEps bs prim dual sol f hf j hj
  obtain ⟨_, _, hnz⟩ := C06.meanB_constructed_volume_nonzero absGtEps habs bs prim dual sol [] f hne (Or.inl hf)
  exact C06.meanB_rhs_zero f v w j (by omega) hvol (hnz j hj) (by rw [hp]; exact hne) hrun

/-- `filter_sol` of a constructed filter: the weighted mean of every component is the prescribed solution mean -/
theorem C06.meanB3_sol {α : Type} [Field α] [DecidableEq α] (absGtEps : α → Bool)
    (habs : ∀ x, absGtEps x = true → x ≠ 0) (bs : Nat) (prim dual sol : List α) (f : MeanBF α) (hne : prim ≠ [])
    (hf : MeanBF.mk3 absGtEps bs prim dual sol = some f) (v w : List α) (hrun : f.filterSol v = some w)
    (j : Nat) (hj : j < bs) : dotL (col f.bs j w) (col f.bs j f.dual) / f.vol.getD j 0 = f.sol.getD j 0 := by
  obtain ⟨hb, hp, hvol⟩ := C06.meanB3_volume_consistent absGtEps bs prim dual sol f hf j hj
  obtain ⟨_, _, hnz⟩ := C06.meanB_constructed_volume_nonzero absGtEps habs bs prim dual sol [] f hne (Or.inl hf)
  exact C06.meanB_sol f v w j (by omega) hvol (hnz j hj) (by rw [hp]; exact hne) hrun
