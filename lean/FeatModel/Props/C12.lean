import FeatModel.Lemmas.C12Halo
import FeatModel.Lemmas.C12Parti
import FeatModel.Lemmas.C12RefineCover
import FeatModel.Lemmas.C12Protocol
import FeatModel.Lemmas.C12Split
import FeatModel.Lemmas.C12Neighbour
import FeatModel.Lemmas.C12Iter
import FeatModel.Lemmas.C12SplitComplete
import FeatModel.Lemmas.C12IterAssign
/-!
# C12 — partitions cover each cell once; neighbouring patches agree on their interface

All theorems are about the functions of `FeatModel.Model.Partition`, `PartitionRefine`, `PartitionSplit` that
`drv_c12` executes against the real `RootMeshNode::extract_patch` / `refine_unique` / `PatchHaloSplitter` /
`Parti2Lvl` (correspondence streams of `checks/props/c12.py`), for meshes and partitions of every size.  Hypotheses are
the decidable predicates `Mesh.consistent`, `isPartition`, `Graph.wf` (evaluated on every generated input by the
`hypotheses` stream).  The refinement model is C10's (`FeatModel.Refine`, imported read-only).

Modelled as UNBOUNDED: `Index` (64-bit unsigned: entity / cell / vertex numbers, graph pointers), the `int` ranks of
`comm_ranks` / `std::map<int, halo>` / `extract_patch(…, int rank)`, the `char` mask of `Graph::_render_injectify`, the
`~Index(0)` sentinel of `PatchHaloSplitter` (an `Option`-like "not in patch") are all `Nat` / lists here; only
`PartiIterative`'s distances keep their 64-bit wrap-around (`% 2^64`) and its floating-point threshold is an input.
Narrowing, fixed scratch sizes or masks in the C++ are therefore invisible to the theorems; the stream `boundary-sizes`
of `checks/props/c12.py` (rank counts and neighbour counts crossing 127/128/255/256, entity indices crossing
1000/2^15/2^16, perfect-power cell counts for the threshold) is what ties these types to the code.

Refinement clause: cover-once (dim ≤ 3), injectivity, halo agreement (same order) and halo completeness (same shared
set) in every dimension, neighbour completeness/symmetry (dim ≤ 3) are proved for EVERY number of joint refinements,
for both shape families (simplex / hypercube), for the topology-free (simple) target refiner that patch parts and halos
use; only `_partial`: `C12.refinement_partial` names the one remaining observed fact (the refined patch MESH is the
patch of the refined base mesh - C10's index refiner).  `PartiIterative`: the deterministic core (distance function,
constructor for given centres) is modelled and compared, the precondition of finding F1 is characterised in general
(`iterative_F1_iff`); the mutation loop and the time seed are not modelled, a general non-emptiness theorem is open.
Two-layer path (`PatchHaloSplitter`): agreement (`child_halo_agree`), completeness (`child_halo_complete`) and
pair-only dependence (`child_halo_pair_only`) are proved.
-/
open FeatModel.Adj FeatModel.Parti

/-! ## the extracted patches together contain every cell exactly once -/

theorem C12.cover_once (m : Mesh) (p : Parti) (hp : isPartition p = true) (c : Nat) (hc : c < p.nImg) :
    ((List.range p.nDom).map (fun r => (m.target (p.row r) m.dim).count c)).sum = 1 := by
  simp only [target_dim]
  exact (isPart_of_isPartition p hp).once c hc

theorem C12.patches_disjoint (m : Mesh) (p : Parti) (hp : isPartition p = true) (r s c : Nat) (hrs : r ≠ s)
    (hr : c ∈ m.target (p.row r) m.dim) : c ∉ m.target (p.row s) m.dim := by
  rw [target_dim] at hr ⊢
  exact fun hs => (isPart_of_isPartition p hp).disjoint r s c hrs hr hs

/-! ## each patch's local entities map injectively into the base mesh -/

theorem C12.patch_injective (m : Mesh) (p : Parti) (hp : isPartition p = true) (r d : Nat) (hd : d ≤ m.dim) :
    (m.target (p.row r) d).Nodup := by
  rcases Nat.lt_or_eq_of_le hd with h | h
  · exact nodup_of_pairwise_lt (target_pairwise m _ d h)
  · subst h
    rw [target_dim]
    exact (isPart_of_isPartition p hp).row_nodup r

theorem C12.toBase_injective (m : Mesh) (p : Parti) (hp : isPartition p = true) (r d : Nat) (hd : d ≤ m.dim)
    (i j : Nat) (hi : i < (m.target (p.row r) d).length) (hj : j < (m.target (p.row r) d).length)
    (h : toBase m p r d i = toBase m p r d j) : i = j := by
  exact nodup_getD_inj (C12.patch_injective m p hp r d hd) i j hi hj h

/-- sub-dimensional patch entities are numbered in ascending base order -/
theorem C12.patch_ascending (m : Mesh) (p : Parti) (r d : Nat) (hd : d < m.dim) :
    (m.target (p.row r) d).Pairwise (· < ·) :=
  target_pairwise m _ d hd

/-- the patch part of dimension `d` consists of exactly the `d`-entities of the patch's cells -/
theorem C12.patch_entities (m : Mesh) (p : Parti) (hm : m.consistent = true) (r d b : Nat) (hd : d < m.dim) :
    b ∈ m.target (p.row r) d ↔ ∃ c, c ∈ p.row r ∧ b ∈ m.sub m.dim d c :=
  mem_target' m (cons_of_consistent m hm) _ b d hd

/-! ## 'is a neighbour' is complete (sharing any vertex) and symmetric -/

theorem C12.neighbour_complete (m : Mesh) (p : Parti) (hm : m.consistent = true) (hp : p.wf = true) (r s : Nat) :
    s ∈ commRanks m p r ↔
      s ≠ r ∧ ∃ v c1 c2, c1 ∈ p.row r ∧ c2 ∈ p.row s ∧ v ∈ m.sub m.dim 0 c1 ∧ v ∈ m.sub m.dim 0 c2 := by
  have hc := cons_of_consistent m hm
  simp only [commRanks, List.mem_filter, mem_ranksAtRank, bne_iff_ne, ne_eq]
  constructor
  · rintro ⟨⟨_, v, _, ⟨c1, hv1, _, hc1⟩, ⟨c2, hv2, _, hc2⟩⟩, hne⟩
    exact ⟨hne, v, c1, c2, hc1, hc2, hv1, hv2⟩
  · rintro ⟨hne, v, c1, c2, hc1, hc2, hv1, hv2⟩
    refine ⟨⟨?_, v, hc.bound 0 hc.dim_pos c1 v hv1, ⟨c1, hv1, wf_row_lt p hp r c1 hc1, hc1⟩,
      ⟨c2, hv2, wf_row_lt p hp s c2 hc2, hc2⟩⟩, hne⟩
    by_cases hr : r < p.adj.length
    · exact hr
    · simp [Graph.row, List.getD, List.getElem?_eq_none (Nat.le_of_not_lt hr)] at hc1

theorem C12.neighbour_symm (m : Mesh) (p : Parti) (hm : m.consistent = true) (hp : p.wf = true) (r s : Nat) :
    s ∈ commRanks m p r ↔ r ∈ commRanks m p s := by
  rw [C12.neighbour_complete m p hm hp r s, C12.neighbour_complete m p hm hp s r]
  constructor
  · rintro ⟨hne, v, c1, c2, h1, h2, h3, h4⟩
    exact ⟨fun h => hne h.symm, v, c2, c1, h2, h1, h4, h3⟩
  · rintro ⟨hne, v, c1, c2, h1, h2, h3, h4⟩
    exact ⟨fun h => hne h.symm, v, c2, c1, h2, h1, h4, h3⟩

theorem C12.neighbours_nodup (m : Mesh) (p : Parti) (r : Nat) : (commRanks m p r).Nodup := by
  unfold commRanks ranksAtRank
  apply List.Pairwise.filter
  simp only [Graph.injectify, Graph.row, List.getD, List.getElem?_map]
  cases (Graph.compose _ _).adj[r]? with
  | none => simp
  | some l => exact dedup_nodup l

/-! ## the two halos of neighbouring ranks describe the same shared base entities in the same order -/

/-- the halo of `r` towards `s` consists of exactly the base entities shared by cells of `r` and cells of `s` -/
theorem C12.halo_spec (m : Mesh) (p : Parti) (hm : m.consistent = true) (hp : p.wf = true) (r s d b : Nat)
    (hd : d < m.dim) :
    b ∈ haloBase m p r s d ↔
      (∃ c, c ∈ p.row r ∧ b ∈ m.sub m.dim d c) ∧ (∃ c, c ∈ p.row s ∧ b ∈ m.sub m.dim d c) := by
  rw [haloBase_eq_filter, List.mem_filter, mem_target' m (cons_of_consistent m hm) _ b d hd, hasRank_lt m p d b s hd]
  constructor
  · rintro ⟨h1, c, hb, _, hc⟩
    exact ⟨h1, c, hc, hb⟩
  · rintro ⟨h1, c, hc, hb⟩
    exact ⟨h1, c, hb, wf_row_lt p hp s c hc, hc⟩

theorem C12.halo_agree (m : Mesh) (p : Parti) (hm : m.consistent = true) (hp : isPartition p = true)
    (r s d : Nat) (hrs : r ≠ s) (hd : d ≤ m.dim) :
    haloBase m p r s d = haloBase m p s r d := by
  have hpart := isPart_of_isPartition p hp
  have hwf : p.wf = true := by
    simp only [isPartition, Bool.and_eq_true] at hp
    exact hp.1
  rcases Nat.lt_or_eq_of_le hd with h | h
  · -- both sides are the ascending list of the base entities that touch a cell of `r` and a cell of `s`
    have hc := cons_of_consistent m hm
    simp only [haloBase_eq_filter, target_succ m _ d h, Mesh.deductStep, List.filter_filter]
    apply List.filter_congr
    intro b hb
    have key : ∀ r', (((m.target (p.row r') (d + 1)).any fun e => (m.sub (d + 1) d e).contains b) = true) ↔
        hasRank m p d b r' = true := by
      intro r'
      have h1 := mem_target' m hc (p.row r') b d h
      rw [target_succ m _ d h, mem_deductStep] at h1
      rw [hasRank_lt m p d b r' h]
      simp only [List.any_eq_true, List.contains_iff_mem]
      constructor
      · rintro ⟨e, he, hbe⟩
        obtain ⟨c, hcr, hbc⟩ := h1.mp ⟨List.mem_range.mp hb, e, he, hbe⟩
        exact ⟨c, hbc, wf_row_lt p hwf r' c hcr, hcr⟩
      · rintro ⟨c, hbc, _, hcr⟩
        obtain ⟨_, e, he, hbe⟩ := h1.mpr ⟨c, hcr, hbc⟩
        exact ⟨e, he, hbe⟩
    rw [Bool.eq_iff_iff]
    simp only [Bool.and_eq_true]
    rw [key r, key s]
    exact And.comm
  · -- cell level: a partition has no cell in two patches, both halos are empty
    subst h
    have hempty : ∀ r' s', r' ≠ s' → haloBase m p r' s' m.dim = [] := by
      intro r' s' hne
      rw [haloBase_eq_filter, target_dim, List.filter_eq_nil_iff]
      intro b hb hr
      rw [hasRank_dim] at hr
      exact hpart.disjoint r' s' b hne hb hr.2
    rw [hempty r s hrs, hempty s r (fun h => hrs h.symm)]

/-- halo entities are listed in ascending patch-local order, hence (sub-dimensional) ascending base order -/
theorem C12.halo_ascending (m : Mesh) (p : Parti) (r s d : Nat) :
    (halo m p r s d).Pairwise (· < ·) ∧ (d < m.dim → (haloBase m p r s d).Pairwise (· < ·)) := by
  refine ⟨(zipIdx_filterMap_pairwise (fun b => hasRank m p d b s) _ 0).1, fun hd => ?_⟩
  rw [haloBase_eq_filter]
  exact List.Pairwise.filter _ (target_pairwise m _ d hd)

/-- a halo towards `s` is non-empty exactly for the neighbour ranks -/
theorem C12.halo_nonempty_iff_neighbour (m : Mesh) (p : Parti) (hm : m.consistent = true) (hp : p.wf = true)
    (r s : Nat) : s ∈ commRanks m p r ↔ s ≠ r ∧ haloBase m p r s 0 ≠ [] := by
  have hc := cons_of_consistent m hm
  rw [C12.neighbour_complete m p hm hp r s]
  constructor
  · rintro ⟨hne, v, c1, c2, h1, h2, h3, h4⟩
    exact ⟨hne, List.ne_nil_of_mem ((C12.halo_spec m p hm hp r s 0 v hc.dim_pos).mpr ⟨⟨c1, h1, h3⟩, ⟨c2, h2, h4⟩⟩)⟩
  · rintro ⟨hne, hnil⟩
    obtain ⟨v, hv⟩ := List.exists_mem_of_ne_nil _ hnil
    obtain ⟨⟨c1, h1, h3⟩, ⟨c2, h2, h4⟩⟩ := (C12.halo_spec m p hm hp r s 0 v hc.dim_pos).mp hv
    exact ⟨hne, v, c1, c2, h1, h2, h3, h4⟩

/-! ## the halo construction protocol: one `PatchHaloFactory`, rebuilt per neighbour

`extract_patch` creates ONE factory and calls `build(rank)` + `make_unique()` for every neighbour in `comm_ranks`
(discovery) order; `haloProtocol` models the per-dimension `_indices` buffers as state handed from neighbour to
neighbour.  The driver prints the halos from this stateful run. -/

/-- rebuilding clears: whatever the previous neighbour left in the buffers (`state`), `build(s)` produces exactly the
halo of `s` in every dimension - including empty lists for the dimensions in which `r` and `s` share nothing -/
theorem C12.halo_build_stateless (m : Mesh) (p : Parti) (r s : Nat) (state : List (List Nat)) :
    haloFactoryBuild m p r s state = (List.range (m.dim + 1)).map (halo m p r s) :=
  haloFactoryBuild_eq m p r s state

/-- the halo mesh part stored for neighbour `s` by the protocol is `halo m p r s` in every dimension, independent of
the neighbours processed before it -/
theorem C12.halo_protocol_spec (m : Mesh) (p : Parti) (r s : Nat) (hs : s ∈ commRanks m p r) :
    (haloProtocol m p r).find? (fun e => e.1 == s) = some (s, (List.range (m.dim + 1)).map (halo m p r s)) := by
  rw [haloProtocol_eq]
  cases h : ((commRanks m p r).map fun s => (s, (List.range (m.dim + 1)).map (halo m p r s))).find?
      (fun e => e.1 == s) with
  | none =>
    rw [List.find?_eq_none] at h
    have := h (s, (List.range (m.dim + 1)).map (halo m p r s)) (List.mem_map.mpr ⟨s, hs, rfl⟩)
    simp at this
  | some e =>
    have h1 := List.find?_some h
    have h2 := List.mem_of_find?_eq_some h
    obtain ⟨s', _, rfl⟩ := List.mem_map.mp h2
    have : s' = s := by simpa using h1
    subst this
    rfl

/-- **independence from the other neighbours**: the halo of `r` towards `s` is determined by the cells of `r`, the cells
of `s` and the cell count alone - two partitionings that agree on these two rows give the same halo, whatever other
ranks exist, however many of them are neighbours of `r`, and in whatever order they are discovered -/
theorem C12.halo_depends_on_pair_only (m : Mesh) (p p' : Parti) (r s d : Nat) (hn : p.nImg = p'.nImg)
    (hr : p.row r = p'.row r) (hs : p.row s = p'.row s) :
    halo m p r s d = halo m p' r s d := by
  have hh : ∀ b, hasRank m p d b s = hasRank m p' d b s := by
    intro b
    rw [Bool.eq_iff_iff]
    by_cases hd : d = m.dim
    · subst hd
      rw [hasRank_dim, hasRank_dim, hn, hs]
    · simp only [hasRank, if_neg hd, List.any_eq_true, List.contains_iff_mem, mem_ranksAtElem, hn, hs]
  unfold halo
  rw [hr]
  congr 1
  funext bi
  obtain ⟨b, i⟩ := bi
  simp only [hh b]

/-- the same for the stateful protocol run: the entry stored for neighbour `s` is the pair-only halo -/
theorem C12.halo_protocol_pair_only (m : Mesh) (p p' : Parti) (r s : Nat) (hs : s ∈ commRanks m p r)
    (hn : p.nImg = p'.nImg) (hr : p.row r = p'.row r) (hs' : p.row s = p'.row s) :
    (haloProtocol m p r).find? (fun e => e.1 == s) =
      some (s, (List.range (m.dim + 1)).map (halo m p' r s)) := by
  rw [C12.halo_protocol_spec m p r s hs]
  congr 2
  apply List.map_congr_left
  intro d _
  exact C12.halo_depends_on_pair_only m p p' r s d hn hr hs'

/-- vertex-only / edge-only contacts: a dimension in which the two patches share no base entity gets an EMPTY list -/
theorem C12.halo_empty_dim (m : Mesh) (p : Parti) (hm : m.consistent = true) (hp : p.wf = true) (r s d : Nat)
    (hd : d < m.dim)
    (hno : ¬ ∃ b, (∃ c, c ∈ p.row r ∧ b ∈ m.sub m.dim d c) ∧ (∃ c, c ∈ p.row s ∧ b ∈ m.sub m.dim d c)) :
    halo m p r s d = [] := by
  have h1 : haloBase m p r s d = [] := by
    rw [List.eq_nil_iff_forall_not_mem]
    intro b hb
    exact hno ⟨b, (C12.halo_spec m p hm hp r s d b hd).mp hb⟩
  simpa [haloBase] using h1

/-! ## base-mesh mesh parts split among the patches (step 4 of `extract_patch`) -/

/-- every dimension of the split mesh part, mapped to base indices, is the parent mesh part restricted to the
entities of the patch, in the parent's order; `none` (no mesh part created) iff nothing of the parent lies in the patch -/
theorem C12.split_follows_parent (m : Mesh) (cells : List Nat) (part : List (List Nat)) :
    (∀ ls, splitPart m cells part = some ls → ∀ d, d ≤ m.dim →
      (ls.getD d []).map (fun i => (m.target cells d).getD i 0)
        = (part.getD d []).filter (fun b => (m.target cells d).contains b)) ∧
    (splitPart m cells part = none ↔
      ∀ d, d ≤ m.dim → ∀ b, b ∈ part.getD d [] → b ∉ m.target cells d) := by
  constructor
  · intro ls h d hd
    unfold splitPart at h
    simp only at h
    split at h
    · simp at h
    · simp only [Option.some.injEq] at h
      subst h
      have hd' : d < m.dim + 1 := by omega
      simp only [List.getD, List.getElem?_map, List.getElem?_range hd', Option.map_some, Option.getD_some]
      exact splitTarget_toBase _ _
  · unfold splitPart
    simp only
    constructor
    · intro h
      split at h
      · rename_i hall
        simp only [List.all_eq_true, List.mem_map, List.mem_range, forall_exists_index, and_imp,
          forall_apply_eq_imp_iff₂, List.isEmpty_iff] at hall
        intro d hd b hb hbt
        have h1 := hall d (by omega)
        have h2 := splitTarget_toBase (m.target cells d) (part.getD d [])
        rw [h1] at h2
        have : b ∈ (part.getD d []).filter (fun b => (m.target cells d).contains b) :=
          List.mem_filter.mpr ⟨hb, by simpa using hbt⟩
        rw [← h2] at this
        simp at this
      · simp at h
    · intro h
      split
      · rfl
      · rename_i hall
        exfalso
        apply hall
        simp only [List.all_eq_true, List.mem_map, List.mem_range, forall_exists_index, and_imp,
          forall_apply_eq_imp_iff₂, List.isEmpty_iff]
        intro d hd
        simp only [splitTarget, List.filterMap_eq_nil_iff]
        intro b hb
        have := h d (by omega) b hb
        simp [this]

/-! ## recursive partitioning: inter-parent halos split among the child patches (`PatchHaloSplitter`) -/

/-- the child halo `(a,ch) → (b,dh)` in closed form: it lists (as entities of the parent patch `a`) the entries of the
parent halo `a → b` that lie in child `ch` and at whose halo position the entry of the halo `b → a` lies in child `dh` -/
theorem C12.child_halo_spec (m : Mesh) (p : Parti) (childOf : List Nat) (a ch b dh d : Nat) :
    (childHalo m p childOf a ch b dh d).map (fun i => (childTarget m (p.row a) childOf ch d).getD i 0) =
      (List.range (halo m p a b d).length).filterMap (fun i =>
        if ((childTarget m (p.row a) childOf ch d).contains ((halo m p a b d).getD i 0) &&
            (decide (i < (halo m p b a d).length) &&
              (childTarget m (p.row b) childOf dh d).contains ((halo m p b a d).getD i 0))) = true
        then some ((halo m p a b d).getD i 0) else none) :=
  childHalo_closed _ _ _ _ (fun x => x)

/-- **the split halos of two children of neighbouring parents agree**: after split, exchange and sorted-merge
intersection both children hold the same base-mesh entities in the same order, in every dimension -/
theorem C12.child_halo_agree (m : Mesh) (p : Parti) (childOf : List Nat) (hm : m.consistent = true)
    (hp : isPartition p = true) (a ch b dh d : Nat) (hab : a ≠ b) (hd : d ≤ m.dim) :
    (childHalo m p childOf a ch b dh d).map (childToBase m p childOf a ch d) =
      (childHalo m p childOf b dh a ch d).map (childToBase m p childOf b dh d) := by
  have h := C12.halo_agree m p hm hp a b d hab hd
  unfold haloBase toBase at h
  exact childHalo_agree_of _ _ _ _ _ _ h

/-- level 0, every dimension `d ≤ dim` (cells included): the halo in base indices is exactly the intersection of the
two patch parts -/
theorem C12.halo_complete (m : Mesh) (p : Parti) (hm : m.consistent = true) (hp : p.wf = true) (r s d e : Nat)
    (hd : d ≤ m.dim) :
    e ∈ haloBase m p r s d ↔ e ∈ m.target (p.row r) d ∧ e ∈ m.target (p.row s) d := by
  rcases Nat.lt_or_eq_of_le hd with h | h
  · rw [C12.halo_spec m p hm hp r s d e h, C12.patch_entities m p hm r d e h, C12.patch_entities m p hm s d e h]
  · subst h
    rw [haloBase_eq_filter, List.mem_filter, hasRank_dim, target_dim, target_dim]
    constructor
    · rintro ⟨h1, _, h2⟩; exact ⟨h1, h2⟩
    · rintro ⟨h1, h2⟩; exact ⟨h1, wf_row_lt p hp s e h2, h2⟩

/-- **the split halos are complete**: the halo of child `(a,ch)` towards child `(b,dh)` (in base-mesh indices) contains
exactly the base entities that belong to both child patches - the analogue of `halo_spec`/`halo_complete` for the
two-layer path; together with `child_halo_agree` (same order on both sides) this is the interface clause of the
property for `PatchHaloSplitter` -/
theorem C12.child_halo_complete (m : Mesh) (p : Parti) (childOf : List Nat) (hm : m.consistent = true)
    (hp : isPartition p = true) (a ch b dh d e : Nat) (hab : a ≠ b) (hd : d ≤ m.dim) :
    e ∈ (childHalo m p childOf a ch b dh d).map (childToBase m p childOf a ch d) ↔
      e ∈ (childTarget m (p.row a) childOf ch d).map (fun u => (m.target (p.row a) d).getD u 0) ∧
      e ∈ (childTarget m (p.row b) childOf dh d).map (fun u => (m.target (p.row b) d).getD u 0) := by
  have hwf : p.wf = true := by
    simp only [isPartition, Bool.and_eq_true] at hp
    exact hp.1
  have hagree := C12.halo_agree m p hm hp a b d hab hd
  unfold haloBase toBase at hagree
  have hlen : (halo m p a b d).length = (halo m p b a d).length := by
    have := congrArg List.length hagree
    simpa using this
  have hel : ∀ i, i < (halo m p a b d).length →
      (m.target (p.row a) d).getD ((halo m p a b d).getD i 0) 0 =
        (m.target (p.row b) d).getD ((halo m p b a d).getD i 0) 0 := by
    intro i hi
    have hi' : i < (halo m p b a d).length := by omega
    have := congrArg (fun l => l[i]?) hagree
    simp only [List.getElem?_map, List.getElem?_eq_getElem hi, List.getElem?_eq_getElem hi', Option.map_some,
      Option.some.injEq] at this
    simpa [List.getD, hi, hi'] using this
  have hclosed := childHalo_closed (childTarget m (p.row a) childOf ch d) (childTarget m (p.row b) childOf dh d)
    (halo m p a b d) (halo m p b a d) (fun x => (m.target (p.row a) d).getD x 0)
  have hL : (childHalo m p childOf a ch b dh d).map (childToBase m p childOf a ch d) = _ := hclosed
  rw [hL]
  simp only [List.mem_filterMap, List.mem_range, List.mem_map]
  constructor
  · rintro ⟨i, hi, hie⟩
    by_cases hc : ((childTarget m (p.row a) childOf ch d).contains ((halo m p a b d).getD i 0) &&
        (decide (i < (halo m p b a d).length) &&
          (childTarget m (p.row b) childOf dh d).contains ((halo m p b a d).getD i 0))) = true
    · rw [if_pos hc, Option.some.injEq] at hie
      simp only [Bool.and_eq_true, List.contains_iff_mem, decide_eq_true_eq] at hc
      exact ⟨⟨_, hc.1, hie⟩, ⟨_, hc.2.2, by rw [← hel i hi]; exact hie⟩⟩
    · rw [if_neg hc] at hie
      exact absurd hie (by simp)
  · rintro ⟨⟨u, hu, hue⟩, ⟨w, hw, hwe⟩⟩
    have hu' := mem_childTarget_lt m (p.row a) childOf ch d u hd hu
    have hw' := mem_childTarget_lt m (p.row b) childOf dh d w hd hw
    have heA : e ∈ m.target (p.row a) d := by rw [← hue]; exact getD_mem_of_lt _ _ hu'
    have heB : e ∈ m.target (p.row b) d := by rw [← hwe]; exact getD_mem_of_lt _ _ hw'
    have hin := (C12.halo_complete m p hm hwf a b d e hd).2 ⟨heA, heB⟩
    rw [haloBase, List.mem_map] at hin
    obtain ⟨h, hh, hhe⟩ := hin
    obtain ⟨i, hi, hih⟩ := List.getElem_of_mem hh
    have hgi : (halo m p a b d).getD i 0 = h := by simp [List.getD, hi, hih]
    have hi' : i < (halo m p b a d).length := by omega
    have hhlt := mem_halo_lt m p a b d h hh
    have hhu : h = u := by
      apply nodup_getD_inj (C12.patch_injective m p hp a d hd) h u hhlt hu'
      rw [hue]; exact hhe
    have hb_mem : (halo m p b a d).getD i 0 ∈ halo m p b a d := by
      simp [List.getD, hi']
    have hblt := mem_halo_lt m p b a d _ hb_mem
    have hbw : (halo m p b a d).getD i 0 = w := by
      apply nodup_getD_inj (C12.patch_injective m p hp b d hd) _ w hblt hw'
      rw [← hel i hi, hgi, hwe]; exact hhe
    refine ⟨i, hi, ?_⟩
    have hc : ((childTarget m (p.row a) childOf ch d).contains ((halo m p a b d).getD i 0) &&
        (decide (i < (halo m p b a d).length) &&
          (childTarget m (p.row b) childOf dh d).contains ((halo m p b a d).getD i 0))) = true := by
      simp only [Bool.and_eq_true, List.contains_iff_mem, decide_eq_true_eq]
      exact ⟨by rw [hgi, hhu]; exact hu, hi', by rw [hbw]; exact hw⟩
    rw [if_pos hc, hgi]
    exact congrArg some hhe

/-- the form of `childHalo` the driver executes (parent halos and child target sets computed once) -/
theorem C12.childHalo_eq_from (m : Mesh) (p : Parti) (childOf : List Nat) (a ch b dh d : Nat) :
    childHalo m p childOf a ch b dh d =
      childHaloFrom (childTarget m (p.row a) childOf ch d) (childTarget m (p.row b) childOf dh d)
        (halo m p a b d) (halo m p b a d) := rfl

/-- **pair-only for split halos**: the halo between child `ch` of parent `a` and child `dh` of parent `b` is determined
by the cells of the two parents, the child numbers of THEIR cells and the cell count - independent of every other
parent, of the other parents' children and of the order in which the splitter processes them -/
theorem C12.child_halo_pair_only (m : Mesh) (p p' : Parti) (childOf childOf' : List Nat) (a ch b dh d : Nat)
    (hn : p.nImg = p'.nImg) (ha : p.row a = p'.row a) (hb : p.row b = p'.row b)
    (hca : ∀ c ∈ p.row a, childOf.getD c 0 = childOf'.getD c 0)
    (hcb : ∀ c ∈ p.row b, childOf.getD c 0 = childOf'.getD c 0) :
    childHalo m p childOf a ch b dh d = childHalo m p' childOf' a ch b dh d := by
  unfold childHalo childTarget
  rw [C12.halo_depends_on_pair_only m p p' a b d hn ha hb, C12.halo_depends_on_pair_only m p p' b a d hn hb ha,
    childCells_congr (p.row a) childOf childOf' ch hca, childCells_congr (p.row b) childOf childOf' dh hcb, ha, hb]

/-! ## Parti2Lvl: exactly the requested number of non-empty patches, or a reported failure -/

theorem C12.parti2lvl_terminates (factor lvlinc refFac numElems numRanks : Nat) (hn : 1 ≤ numElems)
    (hf : 2 ≤ factor) : parti2lvl factor lvlinc refFac numElems numRanks ≠ none := by
  unfold parti2lvl
  have := p2lLoop_terminates factor numRanks hf (numRanks + 1) numElems 0 hn (by omega) (by omega)
  split
  · contradiction
  · split <;> simp

theorem C12.parti2lvl_sound (factor lvlinc numElems numRanks : Nat) (res : P2L)
    (hf : 1 ≤ factor) (hl : 1 ≤ lvlinc) (hR : 1 ≤ numRanks)
    (h : parti2lvl factor lvlinc (factor ^ lvlinc) numElems numRanks = some (some res)) :
    (∃ k, numRanks = numElems * factor ^ k) ∧ (res.refElems / numRanks) * numRanks = res.refElems ∧
      1 ≤ res.refElems / numRanks := by
  unfold parti2lvl at h
  split at h
  · simp at h
  · rename_i count power hloop
    obtain ⟨k, h1, h2, _, _⟩ := p2lLoop_spec factor numRanks _ _ _ _ _ hloop
    split at h
    · simp at h
    · rename_i hcnt
      simp only [bne_iff_ne, ne_eq, Decidable.not_not] at hcnt
      simp only [Option.some.injEq] at h
      subst h
      have hk : k = power := by omega
      subst hk
      have hRk : numRanks = numElems * factor ^ k := by rw [← hcnt, h1]
      have hle : k ≤ lvlinc * ((k + lvlinc - 1) / lvlinc) := by
        have h3 := Nat.div_add_mod (k + lvlinc - 1) lvlinc
        have h4 := Nat.mod_lt (k + lvlinc - 1) (show lvlinc > 0 by omega)
        omega
      have hdvd : numRanks ∣ numElems * (factor ^ lvlinc) ^ ((k + lvlinc - 1) / lvlinc) := by
        rw [hRk, ← Nat.pow_mul]
        exact Nat.mul_dvd_mul_left _ (Nat.pow_dvd_pow factor hle)
      refine ⟨⟨k, hRk⟩, Nat.div_mul_cancel hdvd, ?_⟩
      obtain ⟨q, hq⟩ := hdvd
      simp only at hq ⊢
      rw [hq, Nat.mul_div_cancel_left q (by omega)]
      have hpos : 0 < numElems * (factor ^ lvlinc) ^ ((k + lvlinc - 1) / lvlinc) := by
        have hne : 0 < numElems := by
          rcases Nat.eq_zero_or_pos numElems with h0 | h0
          · rw [h0] at hRk; omega
          · exact h0
        exact Nat.mul_pos hne (Nat.pow_pos (Nat.pow_pos hf))
      rcases Nat.eq_zero_or_pos q with h0 | h0
      · rw [h0] at hq; omega
      · exact h0

theorem C12.parti2lvl_fail_reported (factor lvlinc refFac numElems numRanks : Nat) (hf : 1 ≤ factor)
    (h : parti2lvl factor lvlinc refFac numElems numRanks = some none) :
    ¬ ∃ k, numRanks = numElems * factor ^ k := by
  unfold parti2lvl at h
  split at h
  · simp at h
  · rename_i count power hloop
    obtain ⟨k, h1, _, h3, h4⟩ := p2lLoop_spec factor numRanks _ _ _ _ _ hloop
    split at h
    · rename_i hcnt
      simp only [bne_iff_ne, ne_eq] at hcnt
      rintro ⟨k', hk'⟩
      rcases Nat.lt_or_ge k' k with hlt | hge
      · have := h4 k' hlt
        omega
      · have : numElems * factor ^ k ≤ numElems * factor ^ k' :=
          Nat.mul_le_mul_left _ (Nat.pow_le_pow_right hf hge)
        omega
    · simp at h

/-- the per-shape parameters the driver passes to `parti2lvl` satisfy the hypotheses of the theorems above -/
theorem C12.p2lParams_ok (sh : String) (f l r : Nat) (h : p2lParams sh = some (f, l, r)) :
    r = f ^ l ∧ 2 ≤ f ∧ 1 ≤ l := by
  unfold p2lParams at h
  split at h <;> simp at h <;> obtain ⟨rfl, rfl, rfl⟩ := h <;> decide

/-- on success the elements-at-rank graph is a partition into `numRanks` patches of equal size `≥ 1` -/
theorem C12.parti2lvl_partition (factor lvlinc numElems numRanks : Nat) (res : P2L)
    (hf : 1 ≤ factor) (hl : 1 ≤ lvlinc) (hR : 1 ≤ numRanks)
    (h : parti2lvl factor lvlinc (factor ^ lvlinc) numElems numRanks = some (some res)) :
    isPartition (p2lGraph numRanks res) = true ∧ (p2lGraph numRanks res).nDom = numRanks ∧
      ∀ r, r < numRanks → 1 ≤ ((p2lGraph numRanks res).row r).length := by
  obtain ⟨_, hdvd, hpos⟩ := C12.parti2lvl_sound factor lvlinc numElems numRanks res hf hl hR h
  obtain ⟨lvl, E⟩ := res
  refine ⟨p2lGraph_isPartition numRanks lvl E hdvd, by simp [p2lGraph, Graph.nDom], fun r hr => ?_⟩
  rw [p2lGraph_row_length numRanks lvl E hdvd r hr]
  exact hpos

/-! ## the other partitioner paths: explicit graph, PartiIterative core -/

/-- explicit (user-given / Partition-from-file) elements-at-rank graph: `extract_patch` either aborts - exactly when
the cell count does not match or some rank received no cell - or every one of the `nDom` ranks gets a non-empty patch -/
theorem C12.explicit_graph_reported (m : Mesh) (p : Parti) :
    extractOk m p = true ↔ p.nImg = m.numCells ∧ ∀ r, r < p.nDom → p.row r ≠ [] := by
  simp only [extractOk, Bool.and_eq_true, beq_iff_eq, List.all_eq_true, Bool.not_eq_true', List.isEmpty_eq_false_iff]
  constructor
  · rintro ⟨h1, h2⟩
    refine ⟨h1, fun r hr => h2 _ ?_⟩
    simp [Graph.row, Graph.nDom] at hr ⊢
    simp [List.getD, hr]
  · rintro ⟨h1, h2⟩
    refine ⟨h1, fun l hl => ?_⟩
    obtain ⟨r, hr, rfl⟩ := List.getElem_of_mem hl
    have := h2 r (by simpa [Graph.nDom] using hr)
    simpa [Graph.row, List.getD, hr] using this

/-- the constructor of `PartiIterativeIndividual` for given centres: it reads an uninitialised patch index exactly
when some cell is assigned by no centre; otherwise it returns exactly one row per requested patch -/
theorem C12.iterative_outcome (nb : List (List Int)) (n thr : Nat) (centres : List Nat) :
    (iterIndividual nb n thr centres = none ↔
        unassigned (assignItems nb n thr (Graph.sortList centres)) ≠ []) ∧
    (∀ rows, iterIndividual nb n thr centres = some rows → rows.length = centres.length) := by
  unfold iterIndividual
  simp only
  constructor
  · cases h : (unassigned (assignItems nb n thr (Graph.sortList centres))) with
    | nil => simp
    | cons a as => simp
  · intro rows h
    by_cases hu : (unassigned (assignItems nb n thr (Graph.sortList centres))).isEmpty = true
    · rw [if_pos hu, Option.some.injEq] at h
      subst h
      exact cellsPerPatch_length _ _
    · rw [if_neg hu] at h
      exact absurd h (by simp)

/-- **general precondition of finding F1**: the constructor reads an uninitialised patch index if and only if some cell
has the distance `Index(max)` from EVERY centre (it lies beyond the exploration threshold of all centres or in a
component without centre); the distance lists always have one entry per cell -/
theorem C12.iterative_F1_iff (nb : List (List Int)) (n thr : Nat) (centres : List Nat) :
    (iterIndividual nb n thr centres = none ↔
      ∃ i, i < n ∧ ∀ c ∈ centres, ¬ (iterDistance nb n thr c).getD i 0 < idxMax) ∧
    (∀ c, (iterDistance nb n thr c).length = n) := by
  refine ⟨?_, fun c => iterDistance_length nb n thr c⟩
  rw [(C12.iterative_outcome nb n thr centres).1]
  constructor
  · intro hne
    obtain ⟨i, hi⟩ := List.exists_mem_of_ne_nil _ hne
    obtain ⟨h1, h2⟩ := (mem_unassigned_iff nb n thr _ i).1 hi
    exact ⟨i, h1, fun c hc => h2 c ((mem_sortList c centres).2 hc)⟩
  · rintro ⟨i, h1, h2⟩
    exact List.ne_nil_of_mem ((mem_unassigned_iff nb n thr _ i).2
      ⟨h1, fun c hc => h2 c ((mem_sortList c centres).1 hc)⟩)

/-- open finding F1 as a statement about the model: on a CONNECTED 9x1 strip with 3 requested patches (exploration
threshold 4) and the centres 0,1,2, cell 8 is reached by no centre - the constructor uses an uninitialised index -/
theorem C12.iterative_F1_uninitialised :
    iterIndividual exIterStrip9 9 4 [0, 1, 2] = none ∧
      unassigned (assignItems exIterStrip9 9 4 [0, 1, 2]) = [8] := by decide

/-- open finding F2 as a statement about the model: on a disconnected mesh (cell 0 | chain 1-2-3) the wrap-around
`Index(max) + 1 = 0` gives cell 2 the distance 0 from centre 0; with the centres 0,1,2 the third patch stays EMPTY
and is returned without a failure indication -/
theorem C12.iterative_F2_empty_patch :
    iterDistance exIterDisconnected 4 5 0 = [0, idxMax, 0, 1] ∧
      iterIndividual exIterDisconnected 4 5 [0, 1, 2] = some [[0, 2, 3], [1], []] := by decide

/-! ## the relations survive any number of joint refinements

`Side.steps k` = `k` calls of `refine_unique` on the base node (base mesh by `Refine.refine`, patch part by the simple
target refiner) and on the patch node of `r` (patch mesh by `Refine.refine`, halo by the simple target refiner);
`partSteps` is the function the driver op `refine` executes against the real `refine_unique` (all meshes, depth 1-2). -/

/-- after `k` joint refinements the halo of `r` towards `s`, mapped through the refined patch part of `r`, is the
`k`-fold simple refinement of the coarse shared entities `haloBase m p r s` inside the base-mesh hierarchy: the
children (of every dimension) of the shared coarse entities, in the order of the base-mesh child numbering -/
theorem C12.halo_refined_spec (kind : FeatModel.Refine.Kind) (m : Mesh) (verts : List (List Rat)) (p : Parti)
    (r s k : Nat) :
    (Side.steps k (initialSide kind m verts p r s)).haloBase =
      (partSteps k (asRefine kind m verts,
        { targets := (List.range (m.dim + 1)).map (haloBase m p r s), topo := none })).2 := by
  have h := (Side.steps_haloBase k _ (initialSide_ok kind m verts p r s)).1
  rw [h, initialSide_haloBase]
  rfl

/-- **refinement survival of the interface**: after any number `k` of joint refinements the two halos `r→s` and `s→r`
denote the same entities of the refined base mesh, in the same order, in every dimension -/
theorem C12.halo_agree_refined (kind : FeatModel.Refine.Kind) (m : Mesh) (verts : List (List Rat)) (p : Parti)
    (hm : m.consistent = true) (hp : isPartition p = true) (r s k : Nat) (hrs : r ≠ s) :
    (Side.steps k (initialSide kind m verts p r s)).haloBase =
      (Side.steps k (initialSide kind m verts p s r)).haloBase := by
  rw [C12.halo_refined_spec, C12.halo_refined_spec]
  have : (List.range (m.dim + 1)).map (haloBase m p r s) = (List.range (m.dim + 1)).map (haloBase m p s r) := by
    apply List.map_congr_left
    intro d hd
    exact C12.halo_agree m p hm hp r s d hrs (by have := List.mem_range.mp hd; omega)
  rw [this]

/-- the refined halo refers to existing entities of the refined patch mesh, whose entity counts are the sizes of
the refined patch part (the patch node and the base node stay aligned) -/
theorem C12.sides_aligned_refined (kind : FeatModel.Refine.Kind) (m : Mesh) (verts : List (List Rat)) (p : Parti)
    (r s k d : Nat) :
    let q := Side.steps k (initialSide kind m verts p r s)
    q.mesh.nums.getD d 0 = (q.part.target d).length ∧ ∀ i ∈ q.halo.target d, i < (q.part.target d).length := by
  have h := (Side.steps_haloBase k _ (initialSide_ok kind m verts p r s)).2
  exact ⟨h.nums d, h.inRange d⟩

/-- **patch parts stay injective**: after `k` refinements every target set of the refined patch part of `r` is
duplicate-free and refers to existing entities of the refined base mesh -/
theorem C12.patch_injective_refined (kind : FeatModel.Refine.Kind) (m : Mesh) (verts : List (List Rat)) (p : Parti)
    (hp : isPartition p = true) (hn : p.nImg = m.numCells) (r k d : Nat) :
    let x := partSteps k (asRefine kind m verts, patchPart m (p.row r))
    (x.2.target d).Nodup ∧ ∀ t ∈ x.2.target d, t < x.1.nums.getD d 0 := by
  have h0 : PartOk (asRefine kind m verts) (patchPart m (p.row r)) := by
    refine ⟨?_, ?_⟩
    · intro s
      simp only [patchPart]
      rw [target_mk]
      by_cases hs : s ≤ m.dim
      · rw [if_pos hs]; exact C12.patch_injective m p hp r s hs
      · rw [if_neg hs]; exact List.nodup_nil
    · intro s t ht
      simp only [patchPart] at ht
      rw [target_mk] at ht
      by_cases hs : s ≤ m.dim
      · rw [if_pos hs] at ht
        have e : (asRefine kind m verts).nums.getD s 0 = m.numOf s := by
          simp only [asRefine, List.getD_eq_getElem?_getD, List.getElem?_map]
          rw [List.getElem?_range (by omega)]
          simp
        rw [e]
        rcases Nat.lt_or_eq_of_le hs with h | h
        · rw [target_succ m _ s h, mem_deductStep] at ht
          exact ht.1
        · subst h
          rw [target_dim] at ht
          have := (isPart_of_isPartition p hp).lt r t ht
          simpa [Mesh.numCells, hn] using this
      · rw [if_neg hs] at ht
        simp at ht
  have h := partOk_steps k _ _ h0
  exact ⟨h.nodup d, h.bound d⟩

/-- **cover once survives**: after `k` joint refinements every cell of the refined base mesh occurs in exactly one
refined patch part, exactly once (all shapes up to dimension 3) -/
theorem C12.cover_once_refined (kind : FeatModel.Refine.Kind) (m : Mesh) (verts : List (List Rat)) (p : Parti)
    (hp : isPartition p = true) (hn : p.nImg = m.numCells) (hd : m.dim ≤ 3) (k x : Nat)
    (hx : x < (partSteps k (asRefine kind m verts, patchPart m (p.row 0))).1.nums.getD m.dim 0) :
    ((List.range p.nDom).map fun r =>
      ((partSteps k (asRefine kind m verts, patchPart m (p.row r))).2.target m.dim).count x).sum = 1 := by
  have h0 : Cover (asRefine kind m verts) (fun r => patchPart m (p.row r)) p.nDom := by
    intro c hc
    have e : (asRefine kind m verts).nums.getD (asRefine kind m verts).dim 0 = m.numCells := by
      simp only [asRefine, List.getD_eq_getElem?_getD, List.getElem?_map]
      rw [List.getElem?_range (by omega)]
      simp [Mesh.numCells]
    rw [e, ← hn] at hc
    have := C12.cover_once m p hp c hc
    rw [← this]
    apply congrArg
    apply List.map_congr_left
    intro r _
    simp only [patchPart]
    rw [target_mk, if_pos (show (asRefine kind m verts).dim ≤ m.dim from Nat.le_refl _)]
    rfl
  have h := cover_steps k _ _ p.nDom (show (asRefine kind m verts).dim ≤ 3 from hd) h0
  have hkd := partSteps_kind_dim k (asRefine kind m verts) (patchPart m (p.row 0))
  have := h x (by rw [hkd.2]; exact hx)
  rw [hkd.2] at this
  exact this

/-- **the refined halo is complete**: after `k` joint refinements the halo of `r` towards `s` (in refined base
indices) contains exactly the entities - of every dimension - that the refined patch parts of `r` and of `s` have in
common: "the same set of shared base-mesh entities" survives refinement (all shapes, all dimensions) -/
theorem C12.halo_complete_refined (kind : FeatModel.Refine.Kind) (m : Mesh) (verts : List (List Rat)) (p : Parti)
    (hm : m.consistent = true) (hp : isPartition p = true) (hn : p.nImg = m.numCells) (r s k c x : Nat) :
    x ∈ (Side.steps k (initialSide kind m verts p r s)).haloBase.target c ↔
      x ∈ (partSteps k (asRefine kind m verts, patchPart m (p.row r))).2.target c ∧
      x ∈ (partSteps k (asRefine kind m verts, patchPart m (p.row s))).2.target c := by
  have hwf : p.wf = true := by
    simp only [isPartition, Bool.and_eq_true] at hp
    exact hp.1
  rw [C12.halo_refined_spec]
  refine isInter_steps k _ _ _ _ (patchPart_ok kind m verts p hp hn r) (patchPart_ok kind m verts p hp hn s) ?_ c x
  intro d b
  rw [target_mk, patchPart_target, patchPart_target]
  by_cases hd : d ≤ m.dim
  · simp only [if_pos hd]
    rcases Nat.lt_or_eq_of_le hd with h | h
    · rw [C12.halo_spec m p hm hwf r s d b h, C12.patch_entities m p hm r d b h, C12.patch_entities m p hm s d b h]
    · subst h
      rw [haloBase_eq_filter, List.mem_filter, hasRank_dim, target_dim, target_dim]
      constructor
      · rintro ⟨h1, _, h2⟩; exact ⟨h1, h2⟩
      · rintro ⟨h1, h2⟩; exact ⟨h1, wf_row_lt p hwf s b h2, h2⟩
  · simp [if_neg hd]

/-- **neighbour completeness and symmetry survive refinement**: after `k` joint refinements the refined patches of
`r` and `s` share a vertex of the refined base mesh if and only if `s` is one of the neighbour ranks of `r` computed
by `extract_patch` (which `refine_unique` keeps: one refined halo per coarse neighbour).  Dimension ≤ 3, both shape
families. -/
theorem C12.neighbour_complete_refined (kind : FeatModel.Refine.Kind) (m : Mesh) (verts : List (List Rat))
    (p : Parti) (hm : m.consistent = true) (hf : m.facetsOk = true) (hp : isPartition p = true)
    (hn : p.nImg = m.numCells) (hd : m.dim ≤ 3) (r s k : Nat) (hrs : r ≠ s) :
    (∃ x, x ∈ (partSteps k (asRefine kind m verts, patchPart m (p.row r))).2.target 0 ∧
          x ∈ (partSteps k (asRefine kind m verts, patchPart m (p.row s))).2.target 0) ↔
      s ∈ commRanks m p r := by
  have hwf : p.wf = true := by
    simp only [isPartition, Bool.and_eq_true] at hp
    exact hp.1
  have hc := cons_of_consistent m hm
  rw [C12.neighbour_complete m p hm hwf r s]
  constructor
  · rintro ⟨x, hxr, hxs⟩
    refine ⟨fun h => hrs h.symm, ?_⟩
    have hI := isInter_steps k (asRefine kind m verts) _ _ _ (patchPart_ok kind m verts p hp hn r)
      (patchPart_ok kind m verts p hp hn s) (interPart_isInter m (p.row r) (p.row s))
    have hne : NonemptyUpTo (partSteps k (asRefine kind m verts,
        interPart m.dim (patchPart m (p.row r)) (patchPart m (p.row s)))).2 (asRefine kind m verts).dim :=
      ⟨0, x, Nat.zero_le _, (hI 0 x).2 ⟨hxr, hxs⟩⟩
    obtain ⟨d, b, hdd, hb⟩ := (nonempty_steps k _ _ (show (asRefine kind m verts).dim ≤ 3 from hd)).1 hne
    have hdd' : d ≤ m.dim := hdd
    obtain ⟨hbr, hbs⟩ := (interPart_isInter m (p.row r) (p.row s) d b).1 hb
    rw [patchPart_target, if_pos hdd'] at hbr hbs
    rcases Nat.lt_or_eq_of_le hdd' with h | h
    · obtain ⟨c1, hc1, hb1⟩ := (C12.patch_entities m p hm r d b h).1 hbr
      obtain ⟨c2, hc2, hb2⟩ := (C12.patch_entities m p hm s d b h).1 hbs
      obtain ⟨v, hv1, hv2⟩ := shared_vertex_of_shared m hc hf c1 c2 d h b hb1 hb2
      exact ⟨v, c1, c2, hc1, hc2, hv1, hv2⟩
    · subst h
      exact absurd hbs (C12.patches_disjoint m p hp r s b hrs hbr)
  · rintro ⟨_, v, c1, c2, hc1, hc2, hv1, hv2⟩
    refine ⟨v, vertex_persists k _ _ v ?_, vertex_persists k _ _ v ?_⟩
    · rw [patchPart_target, if_pos (Nat.zero_le _)]
      exact (C12.patch_entities m p hm r 0 v hc.dim_pos).2 ⟨c1, hc1, hv1⟩
    · rw [patchPart_target, if_pos (Nat.zero_le _)]
      exact (C12.patch_entities m p hm s 0 v hc.dim_pos).2 ⟨c2, hc2, hv2⟩

/-- What is still only observed (stream `refined`, model == implementation and oracle on depth 1-2): that the refined
patch MESH (`Refine.refine` of the `PatchMeshFactory` mesh: its index sets and coordinates) is again the
`PatchMeshFactory` image of the refined base mesh under the refined patch part - a statement about C10's index refiner
(orientation codes are preserved by the patch renumbering), not about the partitioning.  Everything the property says
about patch parts, halos and neighbours is proved for every number `k` of joint refinements: `halo_agree_refined`
(same order), `halo_complete_refined` (same shared set), `patch_injective_refined`, `cover_once_refined` (dim ≤ 3),
`neighbour_complete_refined` (dim ≤ 3); this theorem collects the first, third and fourth. -/
theorem C12.refinement_partial (kind : FeatModel.Refine.Kind) (m : Mesh) (verts : List (List Rat)) (p : Parti)
    (hm : m.consistent = true) (hp : isPartition p = true) (hn : p.nImg = m.numCells) (hd : m.dim ≤ 3)
    (r s k : Nat) (hrs : r ≠ s) :
    (Side.steps k (initialSide kind m verts p r s)).haloBase =
        (Side.steps k (initialSide kind m verts p s r)).haloBase ∧
    (∀ d, ((partSteps k (asRefine kind m verts, patchPart m (p.row r))).2.target d).Nodup) ∧
    (∀ x, x < (partSteps k (asRefine kind m verts, patchPart m (p.row 0))).1.nums.getD m.dim 0 →
      ((List.range p.nDom).map fun r' =>
        ((partSteps k (asRefine kind m verts, patchPart m (p.row r'))).2.target m.dim).count x).sum = 1) :=
  ⟨C12.halo_agree_refined kind m verts p hm hp r s k hrs,
   fun d => (C12.patch_injective_refined kind m verts p hp hn r k d).1,
   fun x hx => C12.cover_once_refined kind m verts p hp hn hd k x hx⟩

/-! ## the hypotheses are satisfiable by non-trivial values -/

example : exMesh.consistent = true ∧ isPartition exParti = true ∧ commRanks exMesh exParti 0 = [1] ∧
    haloBase exMesh exParti 0 1 0 = [1, 4] ∧ haloBase exMesh exParti 1 0 0 = [1, 4] ∧
    haloBase exMesh exParti 0 1 1 = [5] ∧ exMesh.target (exParti.row 0) 0 = [1, 2, 4, 5] := by
  decide

example : parti2lvl 2 2 4 3 12 = some (some ⟨1, 12⟩) ∧ parti2lvl 2 2 4 3 9 = some none := by decide
