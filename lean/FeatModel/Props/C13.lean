import FeatModel.Lemmas.C13Examples
/-! # C13 — distributed vector synchronisation (Gate / SynchVectorTicket / Global::Matrix) -/
open FeatModel.Dist FeatModel.C13L

/-- a scatter keeps the vector length -/
theorem C13.scatterAxpy_length {α : Type} [Field α] (v : List α) (mir : List Nat) (buf : List α) (a : α) :
    (scatterAxpy v mir buf a).length = v.length :=
  FeatModel.C13L.scatterAxpy_length v mir buf a

/-- pointwise meaning of a scatter: entry `i` receives `a * buf[k]` for every mirror position `k` with `mir[k] = i` -/
theorem C13.scatterAxpy_val {α : Type} [Field α] (v : List α) (mir : List Nat) (buf : List α) (a : α)
    (i : Nat) (hi : i < v.length) :
    val (scatterAxpy v mir buf a) i
      = val v i + (((mir.zip buf).filter (fun p => p.1 = i)).map (fun p => a * p.2)).sum :=
  FeatModel.C13L.scatterAxpy_val v mir buf a i hi

/-- the result of `SynchVectorTicket` does not depend on the order in which the messages arrive -/
theorem C13.sync0_order_indep {α : Type} [Field α] (ps : List Patch) (vs : List (List α)) (r : Nat)
    (o₁ o₂ : List Nat) (h : o₁.Perm o₂) :
    sync0Patch ps vs r o₁ = sync0Patch ps vs r o₂ :=
  sync0Patch_perm ps vs r h

theorem C13.sync0_order_indep_all {α : Type} [Field α] (ps : List Patch) (vs : List (List α))
    (ords₁ ords₂ : List (List Nat)) (h : ∀ r, (ords₁.getD r []).Perm (ords₂.getD r [])) :
    sync0 ps ords₁ vs = sync0 ps ords₂ vs :=
  sync0_perm ps vs ords₁ ords₂ h

theorem C13.sync1_order_indep {α : Type} [Field α] (ps : List Patch) (vs : List (List α))
    (ords₁ ords₂ : List (List Nat)) (h : ∀ r, (ords₁.getD r []).Perm (ords₂.getD r [])) :
    sync1 ps ords₁ vs = sync1 ps ords₂ vs :=
  sync0_perm ps _ ords₁ ords₂ h

theorem C13.gapply_order_indep {α : Type} [Field α] (ps : List Patch)
    (mats : List (List (List (Nat × α)))) (xs : List (List α))
    (ords₁ ords₂ : List (List Nat)) (h : ∀ r, (ords₁.getD r []).Perm (ords₂.getD r [])) :
    gapply ps ords₁ mats xs = gapply ps ords₂ mats xs :=
  sync0_perm ps _ ords₁ ords₂ h

/-- non-vacuity of the order hypothesis -/
example : ∀ r, (([[1, 0], [0, 1], [1, 0]] : List (List Nat)).getD r []).Perm
    (([[0, 1], [0, 1], [0, 1]] : List (List Nat)).getD r []) := by
  intro r
  match r with
  | 0 => decide
  | 1 => decide
  | 2 => decide
  | r + 3 => simp

/-- **type-0 synchronisation = sum over all patches of the values they hold for the same global DOF**
(`sharedVals` of a patch not containing the DOF is empty, of a patch containing it is a singleton:
`C13.sharedVals_length_le_one`), for every arrival order. -/
theorem C13.sync0_sum {α : Type} [Field α] (d : Decomp) (h : d.WF) (vs : List (List α))
    (hv : ∀ r, r < d.np → (vs.getD r []).length = (d.patch r).n)
    (ords : List (List Nat))
    (hord : ∀ r, r < d.np → (ords.getD r []).Perm (List.range (d.patch r).nbrs.length))
    (r : Nat) (hr : r < d.np) (i : Nat) (hi : i < (d.patch r).n) :
    val ((sync0 d.patches ords vs).getD r []) i
      = ((List.range d.np).map fun s => (d.sharedVals vs s (d.gdof r i)).sum).sum :=
  FeatModel.C13L.sync0_sum d h vs hv ords hord r hr i hi

/-- every patch contributes at most one value per global DOF ("each exactly once") -/
theorem C13.sharedVals_length_le_one {α : Type} [Field α] (d : Decomp) (h : d.WF) (vs : List (List α))
    (s : Nat) (hs : s < d.np) (g : Nat) : (d.sharedVals vs s g).length ≤ 1 :=
  FeatModel.C13L.sharedVals_length_le_one d vs s g (h.inj s hs)

/-- … and exactly one, namely its own value, if it contains the DOF -/
theorem C13.sharedVals_of_gdof {α : Type} [Field α] (d : Decomp) (h : d.WF) (vs : List (List α))
    (s : Nat) (hs : s < d.np) (j : Nat) (hj : j < (d.patch s).n) :
    d.sharedVals vs s (d.gdof s j) = [val (vs.getD s []) j] :=
  sharedVals_of_index d vs s _ (h.inj s hs) j (by rw [← h.size s hs]; exact hj) rfl

/-- … and none if it does not -/
theorem C13.sharedVals_of_not_mem {α : Type} [Field α] (d : Decomp) (vs : List (List α))
    (s g : Nat) (hg : g ∉ d.lmap s) : d.sharedVals vs s g = [] := by
  apply sharedVals_nil
  intro j hj he
  apply hg
  rw [← he]
  simp [Decomp.gdof, List.getD_eq_getElem?_getD, hj]

/-- the hypotheses are satisfiable: a 3-patch decomposition with one DOF shared by all three patches -/
example : exDecomp.WF := by
  refine ⟨?_, ?_, ?_, ?_, ?_, ?_, ?_, ?_, ?_⟩
  case refine_9 =>
    intro r hr s hs
    have hr' : r = 0 ∨ r = 1 ∨ r = 2 := by change r < 3 at hr; omega
    have hs' : s = 0 ∨ s = 1 ∨ s = 2 := by change s < 3 at hs; omega
    rcases hr' with rfl | rfl | rfl <;> rcases hs' with rfl | rfl | rfl <;> decide
  all_goals decide

example : ∀ r, r < exDecomp.np → (exOrds.getD r []).Perm (List.range (exDecomp.patch r).nbrs.length) := by
  decide

/-- `Gate::compile`: the frequency of a DOF is one over the number of patches containing it (itself included) -/
theorem C13.freqs_spec {α : Type} [Field α] (d : Decomp) (h : d.WF) (r : Nat) (hr : r < d.np)
    (i : Nat) (hi : i < (d.patch r).n) :
    val (freqs (d.patch r) : List α) i = 1 / ((d.sharers (d.gdof r i)).length : α) :=
  freqs_val d h r hr i hi

/-- the patch itself is among the sharers, so the denominator is a positive number -/
theorem C13.self_mem_sharers (d : Decomp) (h : d.WF) (r : Nat) (hr : r < d.np)
    (i : Nat) (hi : i < (d.patch r).n) : r ∈ d.sharers (d.gdof r i) :=
  FeatModel.C13L.self_mem_sharers d h r hr i hi

/-- `Gate::sync_1` leaves a consistent (type-1) vector unchanged: every DOF is multiplied by
`1/#sharers` and then summed over its `#sharers` copies.  Needs characteristic zero (`#sharers ≠ 0`). -/
theorem C13.sync1_common {α : Type} [Field α] [CharZero α] (d : Decomp) (h : d.WF) (vs : List (List α))
    (hv : ∀ r, r < d.np → (vs.getD r []).length = (d.patch r).n)
    (ords : List (List Nat))
    (hord : ∀ r, r < d.np → (ords.getD r []).Perm (List.range (d.patch r).nbrs.length))
    (h1 : ∀ r s i j, r < d.np → s < d.np → i < (d.patch r).n → j < (d.patch s).n →
      d.gdof r i = d.gdof s j → val (vs.getD r []) i = val (vs.getD s []) j)
    (r : Nat) (hr : r < d.np) (i : Nat) (hi : i < (d.patch r).n) :
    val ((sync1 d.patches ords vs).getD r []) i = val (vs.getD r []) i :=
  FeatModel.C13L.sync1_common d h vs hv ords hord h1 r hr i hi

example : ∀ r, r < exDecomp.np → (exVs.getD r []).length = (exDecomp.patch r).n := by decide

/-- the type-1 hypothesis is satisfiable by a non-constant vector -/
example : ∀ r s i j, r < exDecomp.np → s < exDecomp.np → i < (exDecomp.patch r).n → j < (exDecomp.patch s).n →
      exDecomp.gdof r i = exDecomp.gdof s j → val (exVs.getD r []) i = val (exVs.getD s []) j := by
  have key : ∀ r < 3, ∀ s < 3, ∀ i < 3, ∀ j < 3, exDecomp.gdof r i = exDecomp.gdof s j →
      i < (exDecomp.patch r).n → j < (exDecomp.patch s).n →
      val (exVs.getD r []) i = val (exVs.getD s []) j := by
    intro r hr s hs
    have hr' : r = 0 ∨ r = 1 ∨ r = 2 := by omega
    have hs' : s = 0 ∨ s = 1 ∨ s = 2 := by omega
    rcases hr' with rfl | rfl | rfl <;> rcases hs' with rfl | rfl | rfl <;> decide
  intro r s i j hr hs hi hj hg
  have hn : ∀ t, t < 3 → (exDecomp.patch t).n ≤ 3 := by decide
  exact key r hr s hs i (Nat.lt_of_lt_of_le hi (hn r hr)) j (Nat.lt_of_lt_of_le hj (hn s hs)) hg hi hj

/-- `Global::Matrix::apply` (local CSR product + `sync_0`): entry `i` of patch `r` is the sum over all
patches `s` of the local products `A_s x_s` at the global DOF of `(r, i)` — i.e. if the local matrices
sum to a global operator, the restriction of the global product. -/
theorem C13.gapply_eq {α : Type} [Field α] (d : Decomp) (h : d.WF)
    (mats : List (List (List (Nat × α)))) (xs : List (List α))
    (hm : ∀ r, r < d.np → (mats.getD r []).length = (d.patch r).n)
    (ords : List (List Nat))
    (hord : ∀ r, r < d.np → (ords.getD r []).Perm (List.range (d.patch r).nbrs.length))
    (r : Nat) (hr : r < d.np) (i : Nat) (hi : i < (d.patch r).n) :
    val ((gapply d.patches ords mats xs).getD r []) i
      = ((List.range d.np).map fun s => (d.sharedVals
          ((List.range d.np).map fun t => matVec (mats.getD t []) (xs.getD t [])) s (d.gdof r i)).sum).sum := by
  unfold gapply
  refine C13.sync0_sum d h _ ?_ ords hord r hr i hi
  intro s hs
  have : ((List.range d.patches.length).map fun t => matVec (mats.getD t []) (xs.getD t [])).getD s []
      = matVec (mats.getD s []) (xs.getD s []) := by
    have hs' : s < d.patches.length := hs
    simp [List.getD_eq_getElem?_getD, hs']
  rw [this, ← hm s hs]
  simp [matVec]

/-- the same with the global product named: if `Y g` is the sum of the local products at global DOF `g`,
`gapply` returns `Y ∘ gdof` on every patch (a type-1 vector) -/
theorem C13.gapply_global {α : Type} [Field α] (d : Decomp) (h : d.WF)
    (mats : List (List (List (Nat × α)))) (xs : List (List α))
    (hm : ∀ r, r < d.np → (mats.getD r []).length = (d.patch r).n)
    (ords : List (List Nat))
    (hord : ∀ r, r < d.np → (ords.getD r []).Perm (List.range (d.patch r).nbrs.length))
    (Y : Nat → α)
    (hY : ∀ g, ((List.range d.np).map fun s => (d.sharedVals
          ((List.range d.np).map fun t => matVec (mats.getD t []) (xs.getD t [])) s g).sum).sum = Y g)
    (r : Nat) (hr : r < d.np) (i : Nat) (hi : i < (d.patch r).n) :
    val ((gapply d.patches ords mats xs).getD r []) i = Y (d.gdof r i) := by
  rw [C13.gapply_eq d h mats xs hm ords hord r hr i hi, hY]

example : ∀ r, r < exDecomp.np → (exMats.getD r []).length = (exDecomp.patch r).n := by decide

/-- `Gate::dot` of two consistent (type-1) vectors given by global functions `X`, `Y` is the global dot
product, each global DOF counted once; the global DOFs are enumerated by `d.maps.flatten.dedup`
(all local-to-global maps concatenated, duplicates removed). -/
theorem C13.gdot_eq {α : Type} [Field α] [CharZero α] (d : Decomp) (h : d.WF) (xs ys : List (List α))
    (X Y : Nat → α)
    (hxl : ∀ r, r < d.np → (xs.getD r []).length = (d.patch r).n)
    (hyl : ∀ r, r < d.np → (ys.getD r []).length = (d.patch r).n)
    (hX : ∀ r, r < d.np → ∀ i, i < (d.patch r).n → val (xs.getD r []) i = X (d.gdof r i))
    (hY : ∀ r, r < d.np → ∀ i, i < (d.patch r).n → val (ys.getD r []) i = Y (d.gdof r i)) :
    gdot d.patches xs ys = ((d.maps.flatten.dedup).map fun g => X g * Y g).sum :=
  FeatModel.C13L.gdot_eq d h xs ys X Y hxl hyl hX hY _ (List.nodup_dedup _) (mem_flatten_dedup d h)

/-- the same for any duplicate-free enumeration `D` of the global DOFs -/
theorem C13.gdot_eq_enum {α : Type} [Field α] [CharZero α] (d : Decomp) (h : d.WF) (xs ys : List (List α))
    (X Y : Nat → α)
    (hxl : ∀ r, r < d.np → (xs.getD r []).length = (d.patch r).n)
    (hyl : ∀ r, r < d.np → (ys.getD r []).length = (d.patch r).n)
    (hX : ∀ r, r < d.np → ∀ i, i < (d.patch r).n → val (xs.getD r []) i = X (d.gdof r i))
    (hY : ∀ r, r < d.np → ∀ i, i < (d.patch r).n → val (ys.getD r []) i = Y (d.gdof r i))
    (D : List Nat) (hDn : D.Nodup) (hD : ∀ g, g ∈ D ↔ ∃ r, r < d.np ∧ g ∈ d.lmap r) :
    gdot d.patches xs ys = (D.map fun g => X g * Y g).sum :=
  FeatModel.C13L.gdot_eq d h xs ys X Y hxl hyl hX hY D hDn hD

/-- `exVs` is given by a global function (0↦5, 1↦7, 2↦1, 3↦2, 4↦3) -/
example : ∀ r, r < exDecomp.np → ∀ i, i < (exDecomp.patch r).n →
    val (exVs.getD r []) i = (fun g => ([5, 7, 1, 2, 3] : List ℚ).getD g 0) (exDecomp.gdof r i) := by
  decide

/-- all hypotheses of `C13.sync0_sum` / `C13.sync1_common` hold together on the 3-patch example
(DOF 0 of patch 0 is the DOF shared by all three patches; orders reversed on patches 0 and 2) -/
example : val ((sync0 exDecomp.patches exOrds exVs).getD 0 []) 0
    = ((List.range exDecomp.np).map fun s => (exDecomp.sharedVals exVs s (exDecomp.gdof 0 0)).sum).sum :=
  C13.sync0_sum exDecomp exDecomp_wf exVs (by decide) exOrds (by decide) 0 (by decide) 0 (by decide)
