import FeatModel.Lemmas.C13Examples
import FeatModel.Lemmas.C13CompEx
import FeatModel.Lemmas.C13ExtExpand
import FeatModel.Lemmas.C13ExtSync
import FeatModel.Lemmas.C13ExtEx
import FeatModel.Lemmas.C13ExtSplitter
import FeatModel.Lemmas.C13ExtAlias
import FeatModel.Lemmas.C13ExtAsync
import FeatModel.Lemmas.C13Parti
import FeatModel.Lemmas.C13Solve
import FeatModel.Lemmas.C13Float
import FeatModel.Lemmas.C13FloatBound
import FeatModel.Lemmas.C13SolvePcg
import FeatModel.Lemmas.C13FloatDot
import FeatModel.Lemmas.C13PartiCells
import FeatModel.Lemmas.C13PartiAll
import FeatModel.Lemmas.C13PartiAll2
import FeatModel.Lemmas.C13PartiAll3
/-! # C13 — distributed vector synchronisation (Gate / SynchVectorTicket / Global::Matrix)

## What is modelled as unbounded, and what ties it to the C++

Every theorem below is stated for all sizes.  The models (`Model/Dist.lean`) use `Nat` and exact field elements where
the C++ uses bounded machine types:

* `Index` (`std::uint64_t`): local / global DOF numbers, mirror indices, buffer sizes and offsets
  (`num_indices * block_size`, the offsets `Σ buffer_size_i` of `TupleMirror` / `PowerMirror`, `i * _buffer_size` of the muxer);
* `int`: ranks and neighbour lists (`std::vector<int> _ranks`, `Muxer::_parent_rank`), the element COUNTS of every MPI
  call (`int(count)` in kernel/util/dist.cpp: isend / irecv / gather / scatter / bcast / allreduce), the ownership mask of
  `Gate::get_num_global_dofs` (`std::vector<int>`), `find_patch_part(int(i))` in control/asm/muxer_asm.hpp;
* `SparseVector` storage behind `UnitFilter`: allocated in steps of 1000 slots (kernel/lafem/sparse_vector.hpp);
* `double` / `float`: exact rationals `Q` in the in-process correspondence, an abstract rounding operator in the
  float-clause theorems (`C13.sync0_float_bound`).

Narrowing, allocation steps and group-size effects are therefore invisible to the theorems; they are tied to the code
by the correspondence sub-streams `boundary-sizes` (in-process: mirror lengths, patch / neighbour / child counts and
filter sizes 127..129, 255..257, 1000/1001, thorough 32767..65537, muxer groups crossing powers of two, interesting
entries at the high end) and `mpisyn` (real MPI: single messages of more than 2^15 / 2^16 entries for scalar, blocked and
tuple gates, neighbour counts 8/16/32/129) of `checks/props/c13.py`, with the same model comparison and independent oracle
as the other streams. -/
open FeatModel.Dist FeatModel.C13L

/-- a scatter keeps the vector length -/
theorem C13.scatterAxpy_length {α : Type} [Field α] (v : List α) (mir : List Nat) (buf : List α) (a : α) :
    (scatterAxpy v mir buf a).length = v.length :=
  FeatModel.C13L.scatterAxpy_length v mir buf a

/-- pointwise meaning of a scatter: entry `i` receives `a * buf[k]` for every mirror position `k` with `mir[k] = i` -/
theorem C13.scatterAxpy_val {α : Type} [Field α] (v : List α) (mir : List Nat) (buf : List α) (a : α)
    (i : Nat) (hi : i < v.length) :
    val (scatterAxpy v mir buf a) i
      = val v i + (((mir.zip buf).filter (fun p => p.1 = i)).map (fun p => a * p.2)).sum :=
  FeatModel.C13L.scatterAxpy_val v mir buf a i hi

/-- the result of `SynchVectorTicket` does not depend on the order in which the messages arrive -/
theorem C13.sync0_order_indep {α : Type} [Field α] (ps : List Patch) (vs : List (List α)) (r : Nat)
    (o₁ o₂ : List Nat) (h : o₁.Perm o₂) :
    sync0Patch ps vs r o₁ = sync0Patch ps vs r o₂ :=
  sync0Patch_perm ps vs r h

theorem C13.sync0_order_indep_all {α : Type} [Field α] (ps : List Patch) (vs : List (List α))
    (ords₁ ords₂ : List (List Nat)) (h : ∀ r, (ords₁.getD r []).Perm (ords₂.getD r [])) :
    sync0 ps ords₁ vs = sync0 ps ords₂ vs :=
  sync0_perm ps vs ords₁ ords₂ h

theorem C13.sync1_order_indep {α : Type} [Field α] (ps : List Patch) (vs : List (List α))
    (ords₁ ords₂ : List (List Nat)) (h : ∀ r, (ords₁.getD r []).Perm (ords₂.getD r [])) :
    sync1 ps ords₁ vs = sync1 ps ords₂ vs :=
  sync0_perm ps _ ords₁ ords₂ h

theorem C13.gapply_order_indep {α : Type} [Field α] (ps : List Patch)
    (mats : List (List (List (Nat × α)))) (xs : List (List α))
    (ords₁ ords₂ : List (List Nat)) (h : ∀ r, (ords₁.getD r []).Perm (ords₂.getD r [])) :
    gapply ps ords₁ mats xs = gapply ps ords₂ mats xs :=
  sync0_perm ps _ ords₁ ords₂ h

/-- non-vacuity of the order hypothesis -/
example : ∀ r, (([[1, 0], [0, 1], [1, 0]] : List (List Nat)).getD r []).Perm
    (([[0, 1], [0, 1], [0, 1]] : List (List Nat)).getD r []) := by
  intro r
  match r with
  | 0 => decide
  | 1 => decide
  | 2 => decide
  | r + 3 => simp

/-- **type-0 synchronisation = sum over all patches of the values they hold for the same global DOF**
(`sharedVals` of a patch not containing the DOF is empty, of a patch containing it is a singleton:
`C13.sharedVals_length_le_one`), for every arrival order. -/
theorem C13.sync0_sum {α : Type} [Field α] (d : Decomp) (h : d.WF) (vs : List (List α))
    (hv : ∀ r, r < d.np → (vs.getD r []).length = (d.patch r).n)
    (ords : List (List Nat))
    (hord : ∀ r, r < d.np → (ords.getD r []).Perm (List.range (d.patch r).nbrs.length))
    (r : Nat) (hr : r < d.np) (i : Nat) (hi : i < (d.patch r).n) :
    val ((sync0 d.patches ords vs).getD r []) i
      = ((List.range d.np).map fun s => (d.sharedVals vs s (d.gdof r i)).sum).sum :=
  FeatModel.C13L.sync0_sum d h vs hv ords hord r hr i hi

/-- every patch contributes at most one value per global DOF ("each exactly once") -/
theorem C13.sharedVals_length_le_one {α : Type} [Field α] (d : Decomp) (h : d.WF) (vs : List (List α))
    (s : Nat) (hs : s < d.np) (g : Nat) : (d.sharedVals vs s g).length ≤ 1 :=
  FeatModel.C13L.sharedVals_length_le_one d vs s g (h.inj s hs)

/-- … and exactly one, namely its own value, if it contains the DOF -/
theorem C13.sharedVals_of_gdof {α : Type} [Field α] (d : Decomp) (h : d.WF) (vs : List (List α))
    (s : Nat) (hs : s < d.np) (j : Nat) (hj : j < (d.patch s).n) :
    d.sharedVals vs s (d.gdof s j) = [val (vs.getD s []) j] :=
  sharedVals_of_index d vs s _ (h.inj s hs) j (by rw [← h.size s hs]; exact hj) rfl

/-- … and none if it does not -/
theorem C13.sharedVals_of_not_mem {α : Type} [Field α] (d : Decomp) (vs : List (List α))
    (s g : Nat) (hg : g ∉ d.lmap s) : d.sharedVals vs s g = [] := by
  apply sharedVals_nil
  intro j hj he
  apply hg
  rw [← he]
  simp [Decomp.gdof, List.getD_eq_getElem?_getD, hj]

/-- the hypotheses are satisfiable: a 3-patch decomposition with one DOF shared by all three patches -/
example : exDecomp.WF := by
  refine ⟨?_, ?_, ?_, ?_, ?_, ?_, ?_, ?_, ?_⟩
  case refine_9 =>
    intro r hr s hs
    have hr' : r = 0 ∨ r = 1 ∨ r = 2 := by change r < 3 at hr; omega
    have hs' : s = 0 ∨ s = 1 ∨ s = 2 := by change s < 3 at hs; omega
    rcases hr' with rfl | rfl | rfl <;> rcases hs' with rfl | rfl | rfl <;> decide
  all_goals decide

example : ∀ r, r < exDecomp.np → (exOrds.getD r []).Perm (List.range (exDecomp.patch r).nbrs.length) := by
  decide

/-- `Gate::compile`: the frequency of a DOF is one over the number of patches containing it (itself included) -/
theorem C13.freqs_spec {α : Type} [Field α] (d : Decomp) (h : d.WF) (r : Nat) (hr : r < d.np)
    (i : Nat) (hi : i < (d.patch r).n) :
    val (freqs (d.patch r) : List α) i = 1 / ((d.sharers (d.gdof r i)).length : α) :=
  freqs_val d h r hr i hi

/-- the patch itself is among the sharers, so the denominator is a positive number -/
theorem C13.self_mem_sharers (d : Decomp) (h : d.WF) (r : Nat) (hr : r < d.np)
    (i : Nat) (hi : i < (d.patch r).n) : r ∈ d.sharers (d.gdof r i) :=
  FeatModel.C13L.self_mem_sharers d h r hr i hi

/-- `Gate::sync_1` leaves a consistent (type-1) vector unchanged: every DOF is multiplied by
`1/#sharers` and then summed over its `#sharers` copies.  Needs characteristic zero (`#sharers ≠ 0`). -/
theorem C13.sync1_common {α : Type} [Field α] [CharZero α] (d : Decomp) (h : d.WF) (vs : List (List α))
    (hv : ∀ r, r < d.np → (vs.getD r []).length = (d.patch r).n)
    (ords : List (List Nat))
    (hord : ∀ r, r < d.np → (ords.getD r []).Perm (List.range (d.patch r).nbrs.length))
    (h1 : ∀ r s i j, r < d.np → s < d.np → i < (d.patch r).n → j < (d.patch s).n →
      d.gdof r i = d.gdof s j → val (vs.getD r []) i = val (vs.getD s []) j)
    (r : Nat) (hr : r < d.np) (i : Nat) (hi : i < (d.patch r).n) :
    val ((sync1 d.patches ords vs).getD r []) i = val (vs.getD r []) i :=
  FeatModel.C13L.sync1_common d h vs hv ords hord h1 r hr i hi

example : ∀ r, r < exDecomp.np → (exVs.getD r []).length = (exDecomp.patch r).n := by decide

/-- the type-1 hypothesis is satisfiable by a non-constant vector -/
example : ∀ r s i j, r < exDecomp.np → s < exDecomp.np → i < (exDecomp.patch r).n → j < (exDecomp.patch s).n →
      exDecomp.gdof r i = exDecomp.gdof s j → val (exVs.getD r []) i = val (exVs.getD s []) j := by
  have key : ∀ r < 3, ∀ s < 3, ∀ i < 3, ∀ j < 3, exDecomp.gdof r i = exDecomp.gdof s j →
      i < (exDecomp.patch r).n → j < (exDecomp.patch s).n →
      val (exVs.getD r []) i = val (exVs.getD s []) j := by
    intro r hr s hs
    have hr' : r = 0 ∨ r = 1 ∨ r = 2 := by omega
    have hs' : s = 0 ∨ s = 1 ∨ s = 2 := by omega
    rcases hr' with rfl | rfl | rfl <;> rcases hs' with rfl | rfl | rfl <;> decide
  intro r s i j hr hs hi hj hg
  have hn : ∀ t, t < 3 → (exDecomp.patch t).n ≤ 3 := by decide
  exact key r hr s hs i (Nat.lt_of_lt_of_le hi (hn r hr)) j (Nat.lt_of_lt_of_le hj (hn s hs)) hg hi hj

/-- `Global::Matrix::apply` (local CSR product + `sync_0`): entry `i` of patch `r` is the sum over all
patches `s` of the local products `A_s x_s` at the global DOF of `(r, i)` — i.e. if the local matrices
sum to a global operator, the restriction of the global product. -/
theorem C13.gapply_eq {α : Type} [Field α] (d : Decomp) (h : d.WF)
    (mats : List (List (List (Nat × α)))) (xs : List (List α))
    (hm : ∀ r, r < d.np → (mats.getD r []).length = (d.patch r).n)
    (ords : List (List Nat))
    (hord : ∀ r, r < d.np → (ords.getD r []).Perm (List.range (d.patch r).nbrs.length))
    (r : Nat) (hr : r < d.np) (i : Nat) (hi : i < (d.patch r).n) :
    val ((gapply d.patches ords mats xs).getD r []) i
      = ((List.range d.np).map fun s => (d.sharedVals
          ((List.range d.np).map fun t => matVec (mats.getD t []) (xs.getD t [])) s (d.gdof r i)).sum).sum := by
  unfold gapply
  refine C13.sync0_sum d h _ ?_ ords hord r hr i hi
  intro s hs
  have : ((List.range d.patches.length).map fun t => matVec (mats.getD t []) (xs.getD t [])).getD s []
      = matVec (mats.getD s []) (xs.getD s []) := by
    have hs' : s < d.patches.length := hs
    simp [List.getD_eq_getElem?_getD, hs']
  rw [this, ← hm s hs]
  simp [matVec]

/-- the same with the global product named: if `Y g` is the sum of the local products at global DOF `g`,
`gapply` returns `Y ∘ gdof` on every patch (a type-1 vector) -/
theorem C13.gapply_global {α : Type} [Field α] (d : Decomp) (h : d.WF)
    (mats : List (List (List (Nat × α)))) (xs : List (List α))
    (hm : ∀ r, r < d.np → (mats.getD r []).length = (d.patch r).n)
    (ords : List (List Nat))
    (hord : ∀ r, r < d.np → (ords.getD r []).Perm (List.range (d.patch r).nbrs.length))
    (Y : Nat → α)
    (hY : ∀ g, ((List.range d.np).map fun s => (d.sharedVals
          ((List.range d.np).map fun t => matVec (mats.getD t []) (xs.getD t [])) s g).sum).sum = Y g)
    (r : Nat) (hr : r < d.np) (i : Nat) (hi : i < (d.patch r).n) :
    val ((gapply d.patches ords mats xs).getD r []) i = Y (d.gdof r i) := by
  rw [C13.gapply_eq d h mats xs hm ords hord r hr i hi, hY]

example : ∀ r, r < exDecomp.np → (exMats.getD r []).length = (exDecomp.patch r).n := by decide

/-- `Gate::dot` of two consistent (type-1) vectors given by global functions `X`, `Y` is the global dot
product, each global DOF counted once; the global DOFs are enumerated by `d.maps.flatten.dedup`
(all local-to-global maps concatenated, duplicates removed). -/
theorem C13.gdot_eq {α : Type} [Field α] [CharZero α] (d : Decomp) (h : d.WF) (xs ys : List (List α))
    (X Y : Nat → α)
    (hxl : ∀ r, r < d.np → (xs.getD r []).length = (d.patch r).n)
    (hyl : ∀ r, r < d.np → (ys.getD r []).length = (d.patch r).n)
    (hX : ∀ r, r < d.np → ∀ i, i < (d.patch r).n → val (xs.getD r []) i = X (d.gdof r i))
    (hY : ∀ r, r < d.np → ∀ i, i < (d.patch r).n → val (ys.getD r []) i = Y (d.gdof r i)) :
    gdot d.patches xs ys = ((d.maps.flatten.dedup).map fun g => X g * Y g).sum :=
  FeatModel.C13L.gdot_eq d h xs ys X Y hxl hyl hX hY _ (List.nodup_dedup _) (mem_flatten_dedup d h)

/-- the same for any duplicate-free enumeration `D` of the global DOFs -/
theorem C13.gdot_eq_enum {α : Type} [Field α] [CharZero α] (d : Decomp) (h : d.WF) (xs ys : List (List α))
    (X Y : Nat → α)
    (hxl : ∀ r, r < d.np → (xs.getD r []).length = (d.patch r).n)
    (hyl : ∀ r, r < d.np → (ys.getD r []).length = (d.patch r).n)
    (hX : ∀ r, r < d.np → ∀ i, i < (d.patch r).n → val (xs.getD r []) i = X (d.gdof r i))
    (hY : ∀ r, r < d.np → ∀ i, i < (d.patch r).n → val (ys.getD r []) i = Y (d.gdof r i))
    (D : List Nat) (hDn : D.Nodup) (hD : ∀ g, g ∈ D ↔ ∃ r, r < d.np ∧ g ∈ d.lmap r) :
    gdot d.patches xs ys = (D.map fun g => X g * Y g).sum :=
  FeatModel.C13L.gdot_eq d h xs ys X Y hxl hyl hX hY D hDn hD

/-- `exVs` is given by a global function (0↦5, 1↦7, 2↦1, 3↦2, 4↦3) -/
example : ∀ r, r < exDecomp.np → ∀ i, i < (exDecomp.patch r).n →
    val (exVs.getD r []) i = (fun g => ([5, 7, 1, 2, 3] : List ℚ).getD g 0) (exDecomp.gdof r i) := by
  decide

/-- all hypotheses of `C13.sync0_sum` / `C13.sync1_common` hold together on the 3-patch example
(DOF 0 of patch 0 is the DOF shared by all three patches; orders reversed on patches 0 and 2) -/
example : val ((sync0 exDecomp.patches exOrds exVs).getD 0 []) 0
    = ((List.range exDecomp.np).map fun s => (exDecomp.sharedVals exVs s (exDecomp.gdof 0 0)).sum).sum :=
  C13.sync0_sum exDecomp exDecomp_wf exVs (by decide) exOrds (by decide) 0 (by decide) 0 (by decide)

/-! ## Composite (tuple / power / nested) mirrors and vectors -/

/-- (A) `buffer_size` is the length of the flattened mirror -/
theorem C13.flatIdx_length {α : Type} [Field α] (m : CMir) (v : CVec α) (h : m.wf v = true) (voff : Nat) :
    (m.flatIdx v voff).length = m.bufSize v :=
  FeatModel.C13L.flatIdx_length m v h voff

/-- the POD offset of a subtree only shifts the flattened indices -/
theorem C13.flatIdx_shift {α : Type} [Field α] (m : CMir) (v : CVec α) (voff : Nat) :
    m.flatIdx v voff = (m.flatIdx v 0).map (· + voff) :=
  FeatModel.C13L.flatIdx_shift m v voff

/-- every flattened mirror index addresses an entry of the flattened vector -/
theorem C13.flatIdx_lt {α : Type} [Field α] (m : CMir) (v : CVec α) (h : m.wf v = true) :
    ∀ i ∈ m.flatIdx v 0, i < v.podSize :=
  FeatModel.C13L.flatIdx_lt m v h

theorem C13.podSize_eq_flat_length {α : Type} [Field α] (v : CVec α) : v.podSize = v.flat.length :=
  FeatModel.C13L.podSize_eq_flat_length v

/-- `PowerMirror<Sub, n>` (`n = xs.length + 1`) over the right-nested vector of the `n` components `x :: xs`:
the buffer size is the sum of the `n` component buffer sizes -/
theorem C13.power_bufSize {α : Type} [Field α] (s : CMir) (x : CVec α) (xs : List (CVec α)) :
    (CMir.power (xs.length + 1) s).bufSize (powerVec x xs) = ((x :: xs).map fun y => s.bufSize y).sum :=
  FeatModel.C13L.power_bufSize s x xs

/-- … and it is well-formed as soon as the sub-mirror is well-formed on every component -/
theorem C13.power_wf {α : Type} [Field α] (s : CMir) (x : CVec α) (xs : List (CVec α))
    (h : ∀ y ∈ x :: xs, s.wf y = true) : (CMir.power (xs.length + 1) s).wf (powerVec x xs) = true :=
  FeatModel.C13L.power_wf s x xs h

example : exCMir.wf exCVec = true ∧ exCMir.bufSize exCVec = 11
    ∧ exCMir.flatIdx exCVec 0 = [4, 5, 0, 1, 7, 8, 9, 10, 11, 12, 13] := by decide
example : exNMir.wf exNVec = true ∧ exNMir.bufSize exNVec = 6 ∧ exNMir.flatIdx exNVec 0 = [1, 1, 3, 3, 4, 5] := by
  decide
example : powerVec (.leaf 1 [1, 2]) [.leaf 1 [3, 4], .leaf 1 [(5 : ℚ), 6]]
    = .pair (.leaf 1 [1, 2]) (.pair (.leaf 1 [3, 4]) (.leaf 1 [5, 6])) := rfl

/-- (B) **the composite gather is the flat gather through the flattened mirror, written at the incoming
buffer offset** — for every tuple arity and nesting -/
theorem C13.cgather_flat {α : Type} [Field α] (m : CMir) (v : CVec α) (h : m.wf v = true) (buf : List α) (off : Nat)
    (hb : off + m.bufSize v ≤ buf.length) :
    cgather m v buf off = writeAt buf off (gather (m.flatIdx v 0) v.flat) :=
  FeatModel.C13L.cgather_flat m v h buf off hb

theorem C13.cgather_length {α : Type} [Field α] (m : CMir) (v : CVec α) (h : m.wf v = true) (buf : List α)
    (off : Nat) (hb : off + m.bufSize v ≤ buf.length) : (cgather m v buf off).length = buf.length :=
  FeatModel.C13L.cgather_length m v h buf off hb

/-- component-wise reading: the second component is gathered behind the first one's `buffer_size` -/
theorem C13.cgather_pair {α : Type} [Field α] (a b : CMir) (x y : CVec α) (buf : List α) (off : Nat) :
    cgather (.pair a b) (.pair x y) buf off = cgather b y (cgather a x buf off) (off + a.bufSize x) := rfl

/-- buffer position `off + k` receives the vector entry addressed by the `k`-th flattened mirror index -/
theorem C13.cgather_val_inside {α : Type} [Field α] (m : CMir) (v : CVec α) (h : m.wf v = true) (buf : List α)
    (off : Nat) (hb : off + m.bufSize v ≤ buf.length) (k : Nat) (hk : k < m.bufSize v) :
    val (cgather m v buf off) (off + k) = val v.flat ((m.flatIdx v 0).getD k 0) := by
  have hl := FeatModel.C13L.flatIdx_length m v h 0
  rw [FeatModel.C13L.cgather_flat m v h buf off hb,
    writeAt_val_inside _ _ _ (by omega) k (by rw [gather_length, hl]; exact hk)]
  simp [gather, val, List.getD_eq_getElem?_getD, hl, hk]

/-- positions outside `[off, off + buffer_size)` are untouched -/
theorem C13.cgather_val_outside {α : Type} [Field α] (m : CMir) (v : CVec α) (h : m.wf v = true) (buf : List α)
    (off : Nat) (hb : off + m.bufSize v ≤ buf.length) (i : Nat) (hi : i < off ∨ off + m.bufSize v ≤ i) :
    val (cgather m v buf off) i = val buf i := by
  have hl : (gather (m.flatIdx v 0) v.flat).length = m.bufSize v := by
    rw [gather_length, FeatModel.C13L.flatIdx_length m v h 0]
  rw [FeatModel.C13L.cgather_flat m v h buf off hb]
  exact writeAt_val_outside _ _ _ (by rw [hl]; exact hb) i (by rw [hl]; exact hi)

example : 2 + exCMir.bufSize exCVec ≤ (List.replicate 14 (0 : ℚ)).length := by decide
example : cgather exCMir exCVec (List.replicate 14 0) 2 = [0, 0, 5, 6, 1, 2, 8, 9, 10, 11, 12, 13, 14, 0] := by
  decide

/-- (C) **the composite scatter is the flat scatter through the flattened mirror, reading the buffer from
the incoming offset**; with `C13.scatterAxpy_val` this gives every entry of every component -/
theorem C13.cscatter_flat {α : Type} [Field α] (m : CMir) (v : CVec α) (h : m.wf v = true) (buf : List α) (a : α)
    (off : Nat) :
    (cscatter m v buf a off).flat = scatterAxpy v.flat (m.flatIdx v 0) (buf.drop off) a :=
  FeatModel.C13L.cscatter_flat m v h buf a off

/-- a scatter keeps tree shape, block sizes and leaf lengths (no hypothesis on the mirror) … -/
theorem C13.cscatter_sameShape {α : Type} [Field α] (m : CMir) (v : CVec α) (buf : List α) (a : α) (off : Nat) :
    (cscatter m v buf a off).sameShape v :=
  FeatModel.C13L.cscatter_sameShape m v buf a off

/-- … hence well-formedness, buffer size and flattened indices of any mirror `m'` -/
theorem C13.cscatter_wf {α : Type} [Field α] (m m' : CMir) (v : CVec α) (buf : List α) (a : α) (off : Nat) :
    m'.wf (cscatter m v buf a off) = m'.wf v ∧ m'.bufSize (cscatter m v buf a off) = m'.bufSize v
      ∧ ∀ voff, m'.flatIdx (cscatter m v buf a off) voff = m'.flatIdx v voff :=
  ⟨sameShape_wf m' (FeatModel.C13L.cscatter_sameShape m v buf a off),
   sameShape_bufSize m' (FeatModel.C13L.cscatter_sameShape m v buf a off),
   sameShape_flatIdx m' (FeatModel.C13L.cscatter_sameShape m v buf a off)⟩

/-- a vector is determined by its shape and its flattening -/
theorem C13.sameShape_flat_ext {α : Type} [Field α] (v w : CVec α) (hs : v.sameShape w) (hf : v.flat = w.flat) :
    v = w :=
  FeatModel.C13L.sameShape_flat_ext hs hf

example : (cscatter exCMir exCVec [100, 1, 2, 3, 4, 5, 6, 7, 8, 9, 10, 11] 2 1).leaves
    = [[7, 10, 3, 4, 7, 10], [7, 18], [21, 24, 27, 30, 33, 36]] := by
  simp [cscatter, exCMir, exCVec, scatterAxpy, expand, CVec.leaves, CMir.bufSize, List.range, List.range.loop,
    List.modify]
  norm_num

/-! ### Muxer -/

/-- (D) **`Muxer::join`**: entry `i` of the parent vector is the sum, over all children `c` and all mirror
positions `k` with `(cm_c.flatIdx)[k] = i`, of child `c`'s entry `(pm_c.flatIdx)[k]` — every child position
exactly once, independent of the padding `B` and of the previous contents of `trg` -/
theorem C13.muxJoin_val {α : Type} [Field α] (B : Nat) (pm cm : List CMir) (srcs : List (CVec α)) (trg : CVec α)
    (hpm : ∀ c < cm.length, (pm.getD c default).wf (srcs.getD c default) = true)
    (hcm : ∀ c < cm.length, (cm.getD c default).wf trg = true)
    (hsz : ∀ c < cm.length, (pm.getD c default).bufSize (srcs.getD c default) = (cm.getD c default).bufSize trg
      ∧ (cm.getD c default).bufSize trg ≤ B)
    (i : Nat) (hi : i < trg.podSize) :
    val (muxJoin B pm cm srcs trg).flat i
      = ((List.range cm.length).map fun c =>
          ((((cm.getD c default).flatIdx trg 0).zip ((pm.getD c default).flatIdx (srcs.getD c default) 0)).filter
              (fun p => p.1 = i) |>.map fun p => val (srcs.getD c default).flat p.2).sum).sum :=
  FeatModel.C13L.muxJoin_val B pm cm srcs trg hpm hcm hsz i hi

/-- the joined vector has the shape of `trg` -/
theorem C13.muxJoin_sameShape {α : Type} [Field α] (B : Nat) (pm cm : List CMir) (srcs : List (CVec α))
    (trg : CVec α)
    (hpm : ∀ c < cm.length, (pm.getD c default).wf (srcs.getD c default) = true)
    (hcm : ∀ c < cm.length, (cm.getD c default).wf trg = true)
    (hsz : ∀ c < cm.length, (pm.getD c default).bufSize (srcs.getD c default) = (cm.getD c default).bufSize trg
      ∧ (cm.getD c default).bufSize trg ≤ B) :
    (muxJoin B pm cm srcs trg).sameShape trg :=
  (FeatModel.C13L.muxJoin_flat B pm cm srcs trg hpm hcm hsz).1

/-- **`Muxer::split`**: child `c` receives, at its parent-mirror positions, the parent's entries at the
child-mirror positions (scattered into a zero vector) -/
theorem C13.muxSplit_flat {α : Type} [Field α] (B : Nat) (pm cm : List CMir) (src : CVec α) (trgs : List (CVec α))
    (hpm : ∀ c < cm.length, (pm.getD c default).wf (trgs.getD c default) = true)
    (hcm : ∀ c < cm.length, (cm.getD c default).wf src = true)
    (hsz : ∀ c < cm.length, (pm.getD c default).bufSize (trgs.getD c default) = (cm.getD c default).bufSize src
      ∧ (cm.getD c default).bufSize src ≤ B)
    (c : Nat) (hc : c < cm.length) :
    ((muxSplit B pm cm src trgs).getD c default).flat
      = scatterAxpy ((trgs.getD c default).zero).flat ((pm.getD c default).flatIdx (trgs.getD c default) 0)
          (gather ((cm.getD c default).flatIdx src 0) src.flat) 1 :=
  (FeatModel.C13L.muxSplit_flat B pm cm src trgs hpm hcm hsz c hc).2

theorem C13.muxSplit_sameShape {α : Type} [Field α] (B : Nat) (pm cm : List CMir) (src : CVec α)
    (trgs : List (CVec α))
    (hpm : ∀ c < cm.length, (pm.getD c default).wf (trgs.getD c default) = true)
    (hcm : ∀ c < cm.length, (cm.getD c default).wf src = true)
    (hsz : ∀ c < cm.length, (pm.getD c default).bufSize (trgs.getD c default) = (cm.getD c default).bufSize src
      ∧ (cm.getD c default).bufSize src ≤ B)
    (c : Nat) (hc : c < cm.length) :
    ((muxSplit B pm cm src trgs).getD c default).sameShape (trgs.getD c default) :=
  (FeatModel.C13L.muxSplit_flat B pm cm src trgs hpm hcm hsz c hc).1

/-- the muxer hypotheses hold on a 2-child example with different buffer sizes (5 and 6, `B = 6`) -/
example : (∀ c < exMuxCm.length, (exMuxPm.getD c default).wf (exMuxChildren.getD c default) = true)
    ∧ (∀ c < exMuxCm.length, (exMuxCm.getD c default).wf exMuxX = true)
    ∧ (∀ c < exMuxCm.length, (exMuxPm.getD c default).bufSize (exMuxChildren.getD c default)
        = (exMuxCm.getD c default).bufSize exMuxX ∧ (exMuxCm.getD c default).bufSize exMuxX ≤ 6)
    ∧ muxBufSize exMuxCm exMuxX = 6 := by decide

/-- **split then join**: with duplicate-free parent mirrors, every parent entry comes back multiplied by the
number of (child, mirror position) pairs that address it … -/
theorem C13.muxJoin_muxSplit {α : Type} [Field α] (B : Nat) (pm cm : List CMir) (X : CVec α) (trgs : List (CVec α))
    (hpm : ∀ c < cm.length, (pm.getD c default).wf (trgs.getD c default) = true)
    (hcm : ∀ c < cm.length, (cm.getD c default).wf X = true)
    (hsz : ∀ c < cm.length, (pm.getD c default).bufSize (trgs.getD c default) = (cm.getD c default).bufSize X
      ∧ (cm.getD c default).bufSize X ≤ B)
    (hnd : ∀ c < cm.length, ((pm.getD c default).flatIdx (trgs.getD c default) 0).Nodup)
    (i : Nat) (hi : i < X.podSize) :
    val (muxJoin B pm cm (muxSplit B pm cm X trgs) X).flat i
      = ((((List.range cm.length).map fun c => ((cm.getD c default).flatIdx X 0).count i).sum : Nat) : α)
          * val X.flat i :=
  FeatModel.C13L.muxJoin_muxSplit B pm cm X trgs hpm hcm hsz hnd i hi

/-- … so `join ∘ split = id` on every parent entry that lies in exactly one child (at one mirror position) -/
theorem C13.muxJoin_muxSplit_id {α : Type} [Field α] (B : Nat) (pm cm : List CMir) (X : CVec α)
    (trgs : List (CVec α))
    (hpm : ∀ c < cm.length, (pm.getD c default).wf (trgs.getD c default) = true)
    (hcm : ∀ c < cm.length, (cm.getD c default).wf X = true)
    (hsz : ∀ c < cm.length, (pm.getD c default).bufSize (trgs.getD c default) = (cm.getD c default).bufSize X
      ∧ (cm.getD c default).bufSize X ≤ B)
    (hnd : ∀ c < cm.length, ((pm.getD c default).flatIdx (trgs.getD c default) 0).Nodup)
    (i : Nat) (hi : i < X.podSize)
    (hone : ((List.range cm.length).map fun c => ((cm.getD c default).flatIdx X 0).count i).sum = 1) :
    val (muxJoin B pm cm (muxSplit B pm cm X trgs) X).flat i = val X.flat i := by
  rw [FeatModel.C13L.muxJoin_muxSplit B pm cm X trgs hpm hcm hsz hnd i hi, hone]; simp

/-- the parent mirrors of the example are duplicate-free; parent entries 0 and 3 lie in exactly one child,
entry 2 in both -/
example : (∀ c < exMuxCm.length, ((exMuxPm.getD c default).flatIdx (exMuxChildren.getD c default) 0).Nodup)
    ∧ (∀ i ∈ [0, 1, 3, 6, 7], ((List.range exMuxCm.length).map fun c =>
        ((exMuxCm.getD c default).flatIdx exMuxX 0).count i).sum = 1)
    ∧ ((List.range exMuxCm.length).map fun c => ((exMuxCm.getD c default).flatIdx exMuxX 0).count 2).sum = 2 := by
  decide

/-- **join then split** for one child with duplicate-free mirrors: the child gets back its own entries at the
parent-mirror positions and zero elsewhere -/
theorem C13.muxSplit_muxJoin_single {α : Type} [Field α] (B : Nat) (pm0 cm0 : CMir) (s trg : CVec α)
    (hpm : pm0.wf s = true) (hcm : cm0.wf trg = true)
    (hsz : pm0.bufSize s = cm0.bufSize trg ∧ cm0.bufSize trg ≤ B)
    (hndp : (pm0.flatIdx s 0).Nodup) (hndc : (cm0.flatIdx trg 0).Nodup) (j : Nat) (hj : j < s.podSize) :
    val ((muxSplit B [pm0] [cm0] (muxJoin B [pm0] [cm0] [s] trg) [s]).getD 0 default).flat j
      = if j ∈ pm0.flatIdx s 0 then val s.flat j else 0 :=
  FeatModel.C13L.muxSplit_muxJoin_single B pm0 cm0 s trg hpm hcm hsz hndp hndc j hj

example : ((exMuxPm.getD 1 default).flatIdx (exMuxChildren.getD 1 default) 0).Nodup
    ∧ ((exMuxCm.getD 1 default).flatIdx exMuxX 0).Nodup
    ∧ (exMuxPm.getD 1 default).wf (exMuxChildren.getD 1 default) = true
    ∧ (exMuxCm.getD 1 default).wf exMuxX = true := by decide

/-! ### the gate over composite vectors -/

/-- (E) **the composite `SynchVectorTicket` is the flat one on the flattened patches and vectors**, provided every
vector has the shape of its patch template and every mirror is well-formed on it; so `C13.sync0_order_indep`,
`C13.sync0_sum`, … apply verbatim to tuple / power / nested vectors -/
theorem C13.csync0_flat {α : Type} [Field α] (ps : List (CPatch α)) (vs : List (CVec α))
    (hshape : ∀ s, s < ps.length → (vs.getD s default).sameShape (ps.getD s default).tmpl)
    (hwf : ∀ s, s < ps.length → ∀ nb ∈ (ps.getD s default).nbrs, nb.2.wf (ps.getD s default).tmpl = true)
    (r : Nat) (hr : r < ps.length) (ord : List Nat) :
    (csync0Patch ps vs r ord).flat = sync0Patch (ps.map CPatch.flatten) (vs.map CVec.flat) r ord :=
  (csync0Patch_flat ps vs ⟨hshape, hwf⟩ r hr ord).2

/-- … and it keeps the shape -/
theorem C13.csync0_sameShape {α : Type} [Field α] (ps : List (CPatch α)) (vs : List (CVec α))
    (hshape : ∀ s, s < ps.length → (vs.getD s default).sameShape (ps.getD s default).tmpl)
    (hwf : ∀ s, s < ps.length → ∀ nb ∈ (ps.getD s default).nbrs, nb.2.wf (ps.getD s default).tmpl = true)
    (r : Nat) (hr : r < ps.length) (ord : List Nat) :
    (csync0Patch ps vs r ord).sameShape (ps.getD r default).tmpl :=
  (csync0Patch_flat ps vs ⟨hshape, hwf⟩ r hr ord).1

/-- the send buffers agree as well (gathering into a zero buffer of exactly `buffer_size` entries) -/
theorem C13.csendBuf_flat {α : Type} [Field α] (ps : List (CPatch α)) (vs : List (CVec α))
    (hshape : ∀ s, s < ps.length → (vs.getD s default).sameShape (ps.getD s default).tmpl)
    (hwf : ∀ s, s < ps.length → ∀ nb ∈ (ps.getD s default).nbrs, nb.2.wf (ps.getD s default).tmpl = true)
    (s r : Nat) :
    csendBuf ps vs s r = sendBuf (ps.map CPatch.flatten) (vs.map CVec.flat) s r :=
  FeatModel.C13L.csendBuf_flat ps vs ⟨hshape, hwf⟩ s r

/-- the composite synchronisation does not depend on the arrival order (the vectors themselves, not only
their flattenings) -/
theorem C13.csync0_order_indep {α : Type} [Field α] (ps : List (CPatch α)) (vs : List (CVec α))
    (hshape : ∀ s, s < ps.length → (vs.getD s default).sameShape (ps.getD s default).tmpl)
    (hwf : ∀ s, s < ps.length → ∀ nb ∈ (ps.getD s default).nbrs, nb.2.wf (ps.getD s default).tmpl = true)
    (r : Nat) (hr : r < ps.length) (o₁ o₂ : List Nat) (h : o₁.Perm o₂) :
    csync0Patch ps vs r o₁ = csync0Patch ps vs r o₂ :=
  csync0Patch_perm ps vs ⟨hshape, hwf⟩ r hr h

example : ∀ s, s < exCPs.length → (exCVs.getD s default).sameShape (exCPs.getD s default).tmpl := by
  intro s hs
  have hs' : s = 0 ∨ s = 1 ∨ s = 2 := by change s < 3 at hs; omega
  rcases hs' with rfl | rfl | rfl <;> exact ⟨⟨rfl, rfl⟩, ⟨rfl, rfl⟩⟩
example : ∀ s, s < exCPs.length → ∀ nb ∈ (exCPs.getD s default).nbrs, nb.2.wf (exCPs.getD s default).tmpl = true := by
  decide
example : ([1, 0] : List Nat).Perm [0, 1] ∧ (exCPs.map CPatch.flatten).map (·.nbrs)
    = [[(1, [2, 5, 6]), (2, [0, 2, 5, 6, 3, 4])], [(0, [0, 2, 3])], [(0, [1, 0, 2, 3, 4, 5])]] := by decide

theorem C13.csync0_order_indep_all {α : Type} [Field α] (ps : List (CPatch α)) (vs : List (CVec α))
    (hshape : ∀ s, s < ps.length → (vs.getD s default).sameShape (ps.getD s default).tmpl)
    (hwf : ∀ s, s < ps.length → ∀ nb ∈ (ps.getD s default).nbrs, nb.2.wf (ps.getD s default).tmpl = true)
    (ords₁ ords₂ : List (List Nat)) (h : ∀ r, (ords₁.getD r []).Perm (ords₂.getD r [])) :
    csync0 ps ords₁ vs = csync0 ps ords₂ vs := by
  unfold csync0
  apply List.map_congr_left
  intro r hr
  exact csync0Patch_perm ps vs ⟨hshape, hwf⟩ r (List.mem_range.1 hr) (h r)

/-- `Gate::compile` on a composite vector: the frequencies vector is the flat one, in the template's shape -/
theorem C13.cfreqs_flat {α : Type} [Field α] (p : CPatch α) (hwf : ∀ nb ∈ p.nbrs, nb.2.wf p.tmpl = true) :
    (cfreqs p).sameShape p.tmpl ∧ (cfreqs p).flat = freqs p.flatten :=
  FeatModel.C13L.cfreqs_flat p hwf

theorem C13.cfrom1to0_flat {α : Type} [Field α] (p : CPatch α) (hwf : ∀ nb ∈ p.nbrs, nb.2.wf p.tmpl = true)
    (v : CVec α) (hv : v.sameShape p.tmpl) :
    (cfrom1to0 p v).sameShape p.tmpl ∧ (cfrom1to0 p v).flat = from1to0 p.flatten v.flat :=
  FeatModel.C13L.cfrom1to0_flat p hwf v hv

/-- `Gate::sync_1` on composite vectors is the flat `sync_1` (so `C13.sync1_common` applies) -/
theorem C13.csync1_flat {α : Type} [Field α] (ps : List (CPatch α)) (vs : List (CVec α))
    (hshape : ∀ s, s < ps.length → (vs.getD s default).sameShape (ps.getD s default).tmpl)
    (hwf : ∀ s, s < ps.length → ∀ nb ∈ (ps.getD s default).nbrs, nb.2.wf (ps.getD s default).tmpl = true)
    (ords : List (List Nat)) (r : Nat) (hr : r < ps.length) :
    ((csync1 ps ords vs).getD r default).sameShape (ps.getD r default).tmpl ∧
    ((csync1 ps ords vs).getD r default).flat
      = (sync1 (ps.map CPatch.flatten) ords (vs.map CVec.flat)).getD r [] :=
  FeatModel.C13L.csync1_flat ps vs ⟨hshape, hwf⟩ ords r hr

/-- `Gate::dot` on composite vectors is the flat `Gate::dot` (so `C13.gdot_eq` applies) -/
theorem C13.cgdot_flat {α : Type} [Field α] (ps : List (CPatch α))
    (hwf : ∀ s, s < ps.length → ∀ nb ∈ (ps.getD s default).nbrs, nb.2.wf (ps.getD s default).tmpl = true)
    (xs ys : List (CVec α)) :
    cgdot ps xs ys = gdot (ps.map CPatch.flatten) (xs.map CVec.flat) (ys.map CVec.flat) :=
  FeatModel.C13L.cgdot_flat ps hwf xs ys

example : ∀ nb ∈ (exCPs.getD 0 default).nbrs, nb.2.wf (exCPs.getD 0 default).tmpl = true := by decide

/-! ## Extensions: blocked decompositions, second apply overload, type conversions, norms, diag / lump -/

/-- (1) **block expansion preserves well-formedness** (for every block size, `bs = 0` included: then all
patches are empty), so every theorem about a scalar decomposition holds for `DenseVectorBlocked` gates -/
theorem C13.WF_expand (d : Decomp) (h : d.WF) (bs : Nat) : (d.expand bs).WF :=
  FeatModel.C13L.WF_expand d h bs

theorem C13.expand_np (d : Decomp) (bs : Nat) : (d.expand bs).np = d.np := FeatModel.C13L.expand_np d bs

theorem C13.expand_patch (d : Decomp) (bs r : Nat) : (d.expand bs).patch r = (d.patch r).expand bs :=
  FeatModel.C13L.expand_patch d bs r

theorem C13.expand_lmap (d : Decomp) (bs r : Nat) : (d.expand bs).lmap r = expand bs (d.lmap r) :=
  FeatModel.C13L.expand_lmap d bs r

/-- component `k` of local block `i` is component `k` of the global block -/
theorem C13.expand_gdof (d : Decomp) (bs r i k : Nat) (hi : i < (d.lmap r).length) (hk : k < bs) :
    (d.expand bs).gdof r (i * bs + k) = d.gdof r i * bs + k :=
  FeatModel.C13L.expand_gdof d bs r i k hi hk

theorem C13.expand_one (l : List Nat) : expand 1 l = l := FeatModel.C13L.expand_one l

theorem C13.patch_expand_one (p : Patch) : p.expand 1 = p := FeatModel.C13L.patch_expand_one p

theorem C13.mem_expand {bs : Nat} {idx : List Nat} {j : Nat} :
    j ∈ expand bs idx ↔ ∃ i ∈ idx, ∃ k < bs, j = i * bs + k := mem_expand_iff

theorem C13.expand_length (bs : Nat) (idx : List Nat) : (expand bs idx).length = idx.length * bs :=
  FeatModel.C13L.expand_length bs idx

theorem C13.expand_nodup (bs : Nat) (l : List Nat) (hn : l.Nodup) : (expand bs l).Nodup :=
  FeatModel.C13L.expand_nodup bs hn

theorem C13.getD_expand (bs : Nat) (l : List Nat) (i k : Nat) (hi : i < l.length) (hk : k < bs) :
    (expand bs l).getD (i * bs + k) 0 = l.getD i 0 * bs + k :=
  FeatModel.C13L.getD_expand bs l i k hi hk

/-- an expanded mirror read through the expanded local-to-global map -/
theorem C13.map_gdof_expand (d : Decomp) (h : d.WF) (bs r : Nat) (hr : r < d.np) (l : List Nat)
    (hl : ∀ i ∈ l, i < (d.patch r).n) :
    (expand bs l).map ((d.expand bs).gdof r) = expand bs (l.map (d.gdof r)) := by
  have := map_getD_expand bs (d.lmap r) l (fun i hi => by rw [← h.size r hr]; exact hl i hi)
  unfold Decomp.gdof
  rw [FeatModel.C13L.expand_lmap]
  exact this

/-- the scalar synchronisation theorem for a blocked vector (`DenseVectorBlocked<bs>` on its POD array): component `k`
of local block `i` receives the sum over all patches of their values for component `k` of the same global block -/
theorem C13.sync0_sum_blocked {α : Type} [Field α] (d : Decomp) (h : d.WF) (bs : Nat) (vs : List (List α))
    (hv : ∀ r, r < d.np → (vs.getD r []).length = (d.patch r).n * bs)
    (ords : List (List Nat))
    (hord : ∀ r, r < d.np → (ords.getD r []).Perm (List.range (d.patch r).nbrs.length))
    (r : Nat) (hr : r < d.np) (i : Nat) (hi : i < (d.patch r).n) (k : Nat) (hk : k < bs) :
    val ((sync0 (d.patches.map (Patch.expand bs)) ords vs).getD r []) (i * bs + k)
      = ((List.range d.np).map fun s =>
          ((d.expand bs).sharedVals vs s (d.gdof r i * bs + k)).sum).sum := by
  have hik : i * bs + k < ((d.expand bs).patch r).n := by
    rw [FeatModel.C13L.expand_patch, expand_n]
    calc i * bs + k < i * bs + bs := by omega
      _ = (i + 1) * bs := by rw [Nat.succ_mul]
      _ ≤ (d.patch r).n * bs := Nat.mul_le_mul_right bs hi
  have := C13.sync0_sum (d.expand bs) (FeatModel.C13L.WF_expand d h bs) vs
    (fun s hs => by rw [FeatModel.C13L.expand_np] at hs; rw [FeatModel.C13L.expand_patch, expand_n]; exact hv s hs)
    ords
    (fun s hs => by
      rw [FeatModel.C13L.expand_np] at hs
      rw [FeatModel.C13L.expand_patch, expand_nbrs, List.length_map]; exact hord s hs)
    r (by rw [FeatModel.C13L.expand_np]; exact hr) (i * bs + k) hik
  rw [FeatModel.C13L.expand_np, FeatModel.C13L.expand_gdof d bs r i k (by rw [← h.size r hr]; exact hi) hk] at this
  exact this

example : (exDecomp.expand 2).WF := C13.WF_expand exDecomp exDecomp_wf 2
example : (exDecomp.expand 2).maps = [[0, 1, 2, 3, 4, 5], [2, 3, 0, 1, 6, 7], [8, 9, 0, 1]]
    ∧ ((exDecomp.expand 2).patch 1).nbrs = [(2, [2, 3]), (0, [2, 3, 0, 1])] := by decide

/-- (2) **`Global::Matrix::apply(r, x, y, α)`** with a consistent (type-1) `y` given by `Y`: the `from_1_to_0`
on the `y` side makes `Y` come out with factor one, the matrix part is the sum of the local products -/
theorem C13.gapply2_eq {α : Type} [Field α] [CharZero α] (d : Decomp) (h : d.WF)
    (mats : List (List (List (Nat × α)))) (xs ys : List (List α)) (alpha : α) (Y : Nat → α)
    (hm : ∀ r, r < d.np → (mats.getD r []).length = (d.patch r).n)
    (hyl : ∀ r, r < d.np → (ys.getD r []).length = (d.patch r).n)
    (hY : ∀ r, r < d.np → ∀ i, i < (d.patch r).n → val (ys.getD r []) i = Y (d.gdof r i))
    (ords : List (List Nat))
    (hord : ∀ r, r < d.np → (ords.getD r []).Perm (List.range (d.patch r).nbrs.length))
    (r : Nat) (hr : r < d.np) (i : Nat) (hi : i < (d.patch r).n) :
    val ((gapply2 d.patches ords mats xs ys alpha).getD r []) i
      = Y (d.gdof r i) + alpha * ((List.range d.np).map fun s => (d.sharedVals
          ((List.range d.np).map fun t => matVec (mats.getD t []) (xs.getD t [])) s (d.gdof r i)).sum).sum :=
  FeatModel.C13L.gapply2_eq d h mats xs ys alpha Y hm hyl hY ords hord r hr i hi

theorem C13.gapply2_order_indep {α : Type} [Field α] (ps : List Patch)
    (mats : List (List (List (Nat × α)))) (xs ys : List (List α)) (alpha : α)
    (ords₁ ords₂ : List (List Nat)) (h : ∀ r, (ords₁.getD r []).Perm (ords₂.getD r [])) :
    gapply2 ps ords₁ mats xs ys alpha = gapply2 ps ords₂ mats xs ys alpha :=
  sync0_perm ps _ ords₁ ords₂ h

/-- (3) the result of `sync_0` is a consistent (type-1) vector -/
theorem C13.sync0_result_type1 {α : Type} [Field α] (d : Decomp) (h : d.WF) (vs : List (List α))
    (hv : ∀ r, r < d.np → (vs.getD r []).length = (d.patch r).n)
    (ords : List (List Nat)) (hord : ∀ r, r < d.np → (ords.getD r []).Perm (List.range (d.patch r).nbrs.length))
    (r s i j : Nat) (hr : r < d.np) (hs : s < d.np) (hi : i < (d.patch r).n) (hj : j < (d.patch s).n)
    (hg : d.gdof r i = d.gdof s j) :
    val ((sync0 d.patches ords vs).getD r []) i = val ((sync0 d.patches ords vs).getD s []) j :=
  FeatModel.C13L.sync0_result_type1 d h vs hv ords hord r s i j hr hs hi hj hg

/-- … so it is unchanged by a following `sync_1` (any arrival orders in both steps) -/
theorem C13.sync1_sync0 {α : Type} [Field α] [CharZero α] (d : Decomp) (h : d.WF) (vs : List (List α))
    (hv : ∀ r, r < d.np → (vs.getD r []).length = (d.patch r).n)
    (ords ords' : List (List Nat))
    (hord : ∀ r, r < d.np → (ords.getD r []).Perm (List.range (d.patch r).nbrs.length))
    (hord' : ∀ r, r < d.np → (ords'.getD r []).Perm (List.range (d.patch r).nbrs.length))
    (r : Nat) (hr : r < d.np) (i : Nat) (hi : i < (d.patch r).n) :
    val ((sync1 d.patches ords' (sync0 d.patches ords vs)).getD r []) i
      = val ((sync0 d.patches ords vs).getD r []) i :=
  FeatModel.C13L.sync1_sync0 d h vs hv ords ords' hord hord' r hr i hi

/-- `sync_1` of an arbitrary vector: the mean of the values held by the sharing patches -/
theorem C13.sync1_mean {α : Type} [Field α] (d : Decomp) (h : d.WF) (vs : List (List α))
    (hv : ∀ r, r < d.np → (vs.getD r []).length = (d.patch r).n)
    (ords : List (List Nat)) (hord : ∀ r, r < d.np → (ords.getD r []).Perm (List.range (d.patch r).nbrs.length))
    (r : Nat) (hr : r < d.np) (i : Nat) (hi : i < (d.patch r).n) :
    val ((sync1 d.patches ords vs).getD r []) i
      = ((List.range d.np).map fun s => (d.sharedVals vs s (d.gdof r i)).sum).sum
          / ((d.sharers (d.gdof r i)).length : α) :=
  FeatModel.C13L.sync1_mean d h vs hv ords hord r hr i hi

theorem C13.sync0_length {α : Type} [Field α] (ps : List Patch) (ords : List (List Nat)) (vs : List (List α))
    (r : Nat) (hr : r < ps.length) : ((sync0 ps ords vs).getD r []).length = (vs.getD r []).length :=
  sync0_getD_length ps ords vs r hr

/-- (4) `Global::Vector::norm2sqr` of a consistent vector: every global DOF counted once -/
theorem C13.gnorm2sqr_eq {α : Type} [Field α] [CharZero α] (d : Decomp) (h : d.WF) (xs : List (List α))
    (X : Nat → α)
    (hxl : ∀ r, r < d.np → (xs.getD r []).length = (d.patch r).n)
    (hX : ∀ r, r < d.np → ∀ i, i < (d.patch r).n → val (xs.getD r []) i = X (d.gdof r i)) :
    gnorm2sqr d.patches xs = ((d.maps.flatten.dedup).map fun g => X g * X g).sum :=
  C13.gdot_eq d h xs xs X X hxl hxl hX hX

theorem C13.gnorm2_eq {α : Type} [Field α] [CharZero α] (sqrt : α → α) (d : Decomp) (h : d.WF)
    (xs : List (List α)) (X : Nat → α)
    (hxl : ∀ r, r < d.np → (xs.getD r []).length = (d.patch r).n)
    (hX : ∀ r, r < d.np → ∀ i, i < (d.patch r).n → val (xs.getD r []) i = X (d.gdof r i)) :
    gnorm2 sqrt d.patches xs = sqrt (((d.maps.flatten.dedup).map fun g => X g * X g).sum) := by
  unfold gnorm2; rw [C13.gnorm2sqr_eq d h xs X hxl hX]

theorem C13.allSum_eq {α : Type} [Field α] (l : List α) : allSum l = l.sum := FeatModel.C13L.allSum_eq l

theorem C13.gateNorm2_eq {α : Type} [Field α] (sqrt : α → α) (l : List α) :
    gateNorm2 sqrt l = sqrt ((l.map fun x => x * x).sum) := FeatModel.C13L.gateNorm2_eq sqrt l

/-- (5) `extract_diag(sync = true)`: the sum over the sharing patches of the local diagonal entries -/
theorem C13.gdiag_eq {α : Type} [Field α] (d : Decomp) (h : d.WF) (mats : List (List (List (Nat × α))))
    (hm : ∀ r, r < d.np → (mats.getD r []).length = (d.patch r).n)
    (ords : List (List Nat))
    (hord : ∀ r, r < d.np → (ords.getD r []).Perm (List.range (d.patch r).nbrs.length))
    (r : Nat) (hr : r < d.np) (i : Nat) (hi : i < (d.patch r).n) :
    val ((gdiag d.patches ords mats).getD r []) i
      = ((List.range d.np).map fun s => (d.sharedVals
          ((List.range d.np).map fun t => matDiag (mats.getD t [])) s (d.gdof r i)).sum).sum := by
  unfold gdiag
  refine C13.sync0_sum d h _ ?_ ords hord r hr i hi
  intro s hs
  have hs' : s < d.patches.length := hs
  rw [getD_range_map _ _ _ s hs', matDiag_length, hm s hs]

/-- `lump_rows(sync = true)`: the sum over the sharing patches of the local row sums -/
theorem C13.glump_eq {α : Type} [Field α] (d : Decomp) (h : d.WF) (mats : List (List (List (Nat × α))))
    (hm : ∀ r, r < d.np → (mats.getD r []).length = (d.patch r).n)
    (ords : List (List Nat))
    (hord : ∀ r, r < d.np → (ords.getD r []).Perm (List.range (d.patch r).nbrs.length))
    (r : Nat) (hr : r < d.np) (i : Nat) (hi : i < (d.patch r).n) :
    val ((glump d.patches ords mats).getD r []) i
      = ((List.range d.np).map fun s => (d.sharedVals
          ((List.range d.np).map fun t => matLump (mats.getD t [])) s (d.gdof r i)).sum).sum := by
  unfold glump
  refine C13.sync0_sum d h _ ?_ ords hord r hr i hi
  intro s hs
  have hs' : s < d.patches.length := hs
  rw [getD_range_map _ _ _ s hs', matLump_length, hm s hs]

theorem C13.gdiag_order_indep {α : Type} [Field α] (ps : List Patch) (mats : List (List (List (Nat × α))))
    (ords₁ ords₂ : List (List Nat)) (h : ∀ r, (ords₁.getD r []).Perm (ords₂.getD r [])) :
    gdiag ps ords₁ mats = gdiag ps ords₂ mats ∧ glump ps ords₁ mats = glump ps ords₂ mats :=
  ⟨sync0_perm ps _ ords₁ ords₂ h, sync0_perm ps _ ords₁ ords₂ h⟩

example : (List.range exDecomp.np).map (fun t => matDiag (exMats.getD t [])) = [[2, 2, 1], [2, 1, 4], [3, 1]] := by
  decide

/-- (7) the `Global::Vector` program `r = b * (y + a * x)` entry by entry … -/
theorem C13.vopsLocal_val {α : Type} [Field α] (a b : α) (ys xs : List (List α)) (r : Nat)
    (hy : r < ys.length) (hx : r < xs.length)
    (i : Nat) (hiy : i < (ys.getD r []).length) (hix : i < (xs.getD r []).length) :
    val ((vopsLocal a b ys xs).getD r []) i = b * (val (ys.getD r []) i + a * val (xs.getD r []) i) :=
  FeatModel.C13L.vopsLocal_val a b ys xs r hy hx i hiy hix

/-- … so consistent inputs `Y`, `X` give the consistent vector `b * (Y + a * X)` (no communication needed) -/
theorem C13.vopsLocal_type1 {α : Type} [Field α] (a b : α) (d : Decomp) (ys xs : List (List α)) (X Y : Nat → α)
    (hyn : ys.length = d.np) (hxn : xs.length = d.np)
    (hxl : ∀ r, r < d.np → (xs.getD r []).length = (d.patch r).n)
    (hyl : ∀ r, r < d.np → (ys.getD r []).length = (d.patch r).n)
    (hX : ∀ r, r < d.np → ∀ i, i < (d.patch r).n → val (xs.getD r []) i = X (d.gdof r i))
    (hY : ∀ r, r < d.np → ∀ i, i < (d.patch r).n → val (ys.getD r []) i = Y (d.gdof r i))
    (r : Nat) (hr : r < d.np) (i : Nat) (hi : i < (d.patch r).n) :
    val ((vopsLocal a b ys xs).getD r []) i = b * (Y (d.gdof r i) + a * X (d.gdof r i)) := by
  rw [FeatModel.C13L.vopsLocal_val a b ys xs r (by omega) (by omega) i (by rw [hyl r hr]; exact hi)
    (by rw [hxl r hr]; exact hi), hY r hr i hi, hX r hr i hi]

example : exVs.length = exDecomp.np := by decide

/-! ## Extensions: min / max reductions (linearly ordered field) -/

theorem C13.maxOf_eq_max {α : Type} [Field α] [LinearOrder α] [IsStrictOrderedRing α] (a b : α) :
    maxOf a b = max a b ∧ minOf a b = min a b ∧ absOf a = |a| :=
  ⟨FeatModel.C13L.maxOf_eq_max a b, minOf_eq_min a b, absOf_eq_abs a⟩

/-- `Gate::max` / `Gate::min` of a non-empty list: an upper / lower bound that is attained -/
theorem C13.allMax_spec {α : Type} [Field α] [LinearOrder α] [IsStrictOrderedRing α] (l : List α) (hl : l ≠ []) :
    allMax l ∈ l ∧ (∀ x ∈ l, x ≤ allMax l) ∧ allMin l ∈ l ∧ (∀ x ∈ l, allMin l ≤ x) :=
  ⟨allMax_mem l hl, allMax_ge l, allMin_mem l hl, allMin_le l⟩

/-- (6) `max_abs_element` bounds every entry (purely local vectors, no decomposition needed) … -/
theorem C13.gMaxAbs_ge_val {α : Type} [Field α] [LinearOrder α] [IsStrictOrderedRing α] (xs : List (List α)) (r i : Nat)
    (hi : i < (xs.getD r []).length) : absOf (val (xs.getD r []) i) ≤ gMaxAbs xs :=
  FeatModel.C13L.gMaxAbs_ge xs r i hi

/-- … in particular every global value of a consistent vector -/
theorem C13.gMaxAbs_ge {α : Type} [Field α] [LinearOrder α] [IsStrictOrderedRing α] (d : Decomp) (xs : List (List α)) (X : Nat → α)
    (hxl : ∀ r, r < d.np → (xs.getD r []).length = (d.patch r).n)
    (hX : ∀ r, r < d.np → ∀ i, i < (d.patch r).n → val (xs.getD r []) i = X (d.gdof r i))
    (r : Nat) (hr : r < d.np) (i : Nat) (hi : i < (d.patch r).n) :
    absOf (X (d.gdof r i)) ≤ gMaxAbs xs := by
  rw [← hX r hr i hi]; exact FeatModel.C13L.gMaxAbs_ge xs r i (by rw [hxl r hr]; exact hi)

/-- it is attained as soon as one patch is non-empty (the search starts from 0, and `0 ≤ |x|`) -/
theorem C13.gMaxAbs_attained {α : Type} [Field α] [LinearOrder α] [IsStrictOrderedRing α] (xs : List (List α)) (r0 : Nat)
    (h0 : 0 < (xs.getD r0 []).length) :
    ∃ r i, i < (xs.getD r []).length ∧ gMaxAbs xs = absOf (val (xs.getD r []) i) :=
  FeatModel.C13L.gMaxAbs_attained xs r0 h0

/-- enumeration form: the maximum of `|X g|` over all global DOFs (one vector per patch) -/
theorem C13.gMaxAbs_enum {α : Type} [Field α] [LinearOrder α] [IsStrictOrderedRing α] (d : Decomp) (h : d.WF) (xs : List (List α)) (X : Nat → α)
    (hn : xs.length = d.np)
    (hxl : ∀ r, r < d.np → (xs.getD r []).length = (d.patch r).n)
    (hX : ∀ r, r < d.np → ∀ i, i < (d.patch r).n → val (xs.getD r []) i = X (d.gdof r i)) :
    gMaxAbs xs = ((d.maps.flatten.dedup).map fun g => absOf (X g)).foldl maxOf 0 :=
  FeatModel.C13L.gMaxAbs_enum d h xs X hn hxl hX

theorem C13.gMax_ge {α : Type} [Field α] [LinearOrder α] [IsStrictOrderedRing α] (d : Decomp) (xs : List (List α)) (X : Nat → α)
    (hxl : ∀ r, r < d.np → (xs.getD r []).length = (d.patch r).n)
    (hX : ∀ r, r < d.np → ∀ i, i < (d.patch r).n → val (xs.getD r []) i = X (d.gdof r i))
    (r : Nat) (hr : r < d.np) (i : Nat) (hi : i < (d.patch r).n) :
    X (d.gdof r i) ≤ gMax xs ∧ gMin xs ≤ X (d.gdof r i) ∧ gMinAbs xs ≤ absOf (X (d.gdof r i)) := by
  have hi' : i < (xs.getD r []).length := by rw [hxl r hr]; exact hi
  rw [← hX r hr i hi]
  exact ⟨FeatModel.C13L.gMax_ge xs r i hi', gMin_le xs r i hi', gMinAbs_le xs r i hi'⟩

/-- `max_element`, `min_element`, `min_abs_element` are attained if there is at least one patch and every
patch is non-empty (`Gate::max` of an empty patch's start value would otherwise enter the reduction) -/
theorem C13.gMax_attained {α : Type} [Field α] [LinearOrder α] [IsStrictOrderedRing α] (xs : List (List α)) (hne : xs ≠ [])
    (hall : ∀ v ∈ xs, v ≠ []) :
    (∃ r i, i < (xs.getD r []).length ∧ gMax xs = val (xs.getD r []) i)
    ∧ (∃ r i, i < (xs.getD r []).length ∧ gMin xs = val (xs.getD r []) i)
    ∧ (∃ r i, i < (xs.getD r []).length ∧ gMinAbs xs = absOf (val (xs.getD r []) i)) :=
  ⟨FeatModel.C13L.gMax_attained xs hne hall, gMin_attained xs hne hall, gMinAbs_attained xs hne hall⟩

example : exVs ≠ [] ∧ (∀ v ∈ exVs, v ≠ []) ∧ 0 < (exVs.getD 0 []).length := by decide
example : gMaxAbs exVs = 7 := by
  simp [gMaxAbs, exVs, allMax, localMaxAbs, maxOf, absOf]
  norm_num
example : gMin exVs = 1 := by
  simp [gMin, exVs, allMin, localMin, minOf]
  norm_num

/-! ## Extensions: unit filters -/

/-- (8) `UnitFilter::filter_rhs` / `filter_sol` with duplicate-free indices: length kept, filter indices receive
their values, all other entries are unchanged -/
theorem C13.unitFilterSet_val {α : Type} [Field α] (f : List (Nat × α)) (hn : (f.map (·.1)).Nodup) (v : List α) :
    (unitFilterSet f v).length = v.length
    ∧ (∀ e ∈ f, e.1 < v.length → val (unitFilterSet f v) e.1 = e.2)
    ∧ (∀ i, i ∉ f.map (·.1) → val (unitFilterSet f v) i = val v i) :=
  ⟨unitFilterSet_length f v, fun e he hlt => unitFilterSet_val_mem f hn v e he hlt,
   fun i hi => unitFilterSet_val_not_mem f v i hi⟩

/-- `filter_def` / `filter_cor` (no hypothesis on the index list) -/
theorem C13.unitFilterZero_val {α : Type} [Field α] (f : List (Nat × α)) (v : List α) :
    (unitFilterZero f v).length = v.length
    ∧ (∀ i ∈ f.map (·.1), i < v.length → val (unitFilterZero f v) i = 0)
    ∧ (∀ i, i ∉ f.map (·.1) → val (unitFilterZero f v) i = val v i) :=
  ⟨unitFilterZero_length f v, fun i hi hlt => unitFilterZero_val_mem f v i hi hlt,
   fun i hi => unitFilterZero_val_not_mem f v i hi⟩

/-- both cases in one formula -/
theorem C13.unitFilterSet_val_find {α : Type} [Field α] (f : List (Nat × α)) (hn : (f.map (·.1)).Nodup)
    (v : List α) (i : Nat) (hi : i < v.length) :
    val (unitFilterSet f v) i = ((f.find? fun e => e.1 == i).map (·.2)).getD (val v i) :=
  FeatModel.C13L.unitFilterSet_val f hn v i hi

/-- `Global::Filter`: a filter that prescribes the same for all copies of a shared DOF maps a consistent
(type-1) vector to a consistent vector (both the value-setting and the zeroing variant) -/
theorem C13.gfilter_type1 {α : Type} [Field α] (zero : Bool) (d : Decomp) (fs : List (List (Nat × α)))
    (vs : List (List α))
    (hfn : fs.length = d.np) (hvn : vs.length = d.np)
    (hv : ∀ r, r < d.np → (vs.getD r []).length = (d.patch r).n)
    (hnd : ∀ r, r < d.np → ((fs.getD r []).map (·.1)).Nodup)
    (hc : ∀ r s i j, r < d.np → s < d.np → i < (d.patch r).n → j < (d.patch s).n → d.gdof r i = d.gdof s j →
      ((fs.getD r []).find? fun e => e.1 == i).map (·.2) = ((fs.getD s []).find? fun e => e.1 == j).map (·.2))
    (h1 : ∀ r s i j, r < d.np → s < d.np → i < (d.patch r).n → j < (d.patch s).n →
      d.gdof r i = d.gdof s j → val (vs.getD r []) i = val (vs.getD s []) j)
    (r s i j : Nat) (hr : r < d.np) (hs : s < d.np) (hi : i < (d.patch r).n) (hj : j < (d.patch s).n)
    (hg : d.gdof r i = d.gdof s j) :
    val ((gfilter zero fs vs).getD r []) i = val ((gfilter zero fs vs).getD s []) j :=
  FeatModel.C13L.gfilter_type1 zero d fs vs hfn hvn hv hnd hc h1 r s i j hr hs hi hj hg

theorem C13.gfilter_length {α : Type} [Field α] (zero : Bool) (fs : List (List (Nat × α))) (vs : List (List α))
    (r : Nat) (hf : r < fs.length) (hv : r < vs.length) :
    ((gfilter zero fs vs).getD r []).length = (vs.getD r []).length :=
  gfilter_getD_length zero fs vs r hf hv

example : exFs.length = exDecomp.np ∧ ∀ r, r < exDecomp.np → ((exFs.getD r []).map (·.1)).Nodup := by decide

/-- the example filter is consistent on the shared DOFs -/
example : ∀ r s i j, r < exDecomp.np → s < exDecomp.np → i < (exDecomp.patch r).n → j < (exDecomp.patch s).n →
    exDecomp.gdof r i = exDecomp.gdof s j →
    ((exFs.getD r []).find? fun e => e.1 == i).map (·.2) = ((exFs.getD s []).find? fun e => e.1 == j).map (·.2) := by
  have key : ∀ r < 3, ∀ s < 3, ∀ i < 3, ∀ j < 3,
      (exDecomp.gdof r i = exDecomp.gdof s j ∧ i < (exDecomp.patch r).n ∧ j < (exDecomp.patch s).n) →
      ((exFs.getD r []).find? fun e => e.1 == i).map (·.2)
        = ((exFs.getD s []).find? fun e => e.1 == j).map (·.2) := by
    intro r hr s hs
    have hr' : r = 0 ∨ r = 1 ∨ r = 2 := by omega
    have hs' : s = 0 ∨ s = 1 ∨ s = 2 := by omega
    rcases hr' with rfl | rfl | rfl <;> rcases hs' with rfl | rfl | rfl <;> decide
  intro r s i j hr hs hi hj hg
  have hn : ∀ t, t < 3 → (exDecomp.patch t).n ≤ 3 := by decide
  exact key r hr s hs i (Nat.lt_of_lt_of_le hi (hn r hr)) j (Nat.lt_of_lt_of_le hj (hn s hs)) ⟨hg, hi, hj⟩

example : gfilter false exFs exVs = [[9, 7, 1], [7, 9, 4], [3, 9]] := by decide

/-! ## Extensions: the base splitter (`Global::Splitter`) -/

/-- (S1) **split**: every patch receives the restriction of the base vector (and a vector of its own length) -/
theorem C13.splitterSplit_val {α : Type} [Field α] (d : Decomp) (rm bm : List (List Nat)) (B nBase : Nat)
    (ok : SplitterOK d rm bm B nBase) (base : List α) (hb : base.length = nBase)
    (r : Nat) (hr : r < d.np) (i : Nat) (hi : i < (d.patch r).n) :
    val ((splitterSplit B d.patches rm bm base).getD r []) i = val base (d.gdof r i) :=
  FeatModel.C13L.splitterSplit_val ok base hb r hr i hi

theorem C13.splitterSplit_length {α : Type} [Field α] (d : Decomp) (rm bm : List (List Nat)) (B nBase : Nat)
    (ok : SplitterOK d rm bm B nBase) (base : List α) (hb : base.length = nBase) (r : Nat) (hr : r < d.np) :
    ((splitterSplit B d.patches rm bm base).getD r []).length = (d.patch r).n :=
  FeatModel.C13L.splitterSplit_length ok base hb r hr

/-- the split result is a consistent (type-1) vector, given by `X := val base` -/
theorem C13.splitterSplit_type1 {α : Type} [Field α] (d : Decomp) (rm bm : List (List Nat)) (B nBase : Nat)
    (ok : SplitterOK d rm bm B nBase) (base : List α) (hb : base.length = nBase)
    (r s i j : Nat) (hr : r < d.np) (hs : s < d.np) (hi : i < (d.patch r).n) (hj : j < (d.patch s).n)
    (hg : d.gdof r i = d.gdof s j) :
    val ((splitterSplit B d.patches rm bm base).getD r []) i
      = val ((splitterSplit B d.patches rm bm base).getD s []) j := by
  rw [FeatModel.C13L.splitterSplit_val ok base hb r hr i hi, FeatModel.C13L.splitterSplit_val ok base hb s hs j hj, hg]

/-- (S2) **join**, arbitrary input: base DOF `g` receives the sum over all patches of their `from_1_to_0` values
for `g`; the joined vector has `nBase` entries -/
theorem C13.splitterJoin_sum {α : Type} [Field α] (d : Decomp) (rm bm : List (List Nat)) (B nBase : Nat)
    (ok : SplitterOK d rm bm B nBase) (vs : List (List α))
    (hv : ∀ r, r < d.np → (vs.getD r []).length = (d.patch r).n) (g : Nat) (hg : g < nBase) :
    (splitterJoin B d.patches rm bm vs nBase).length = nBase ∧
    val (splitterJoin B d.patches rm bm vs nBase) g
      = ((List.range d.np).map fun s => (d.sharedVals
          ((List.range d.patches.length).map fun r => from1to0 (d.patches.getD r default) (vs.getD r [])) s g).sum).sum :=
  FeatModel.C13L.splitterJoin_sum ok vs hv g hg

/-- **join of a consistent (type-1) vector given by `X`**: the `from_1_to_0` conversion makes the muxer's sum over
the sharing patches count every covered base DOF exactly once … -/
theorem C13.splitterJoin_eq {α : Type} [Field α] [CharZero α] (d : Decomp) (rm bm : List (List Nat)) (B nBase : Nat)
    (ok : SplitterOK d rm bm B nBase) (vs : List (List α)) (X : Nat → α)
    (hv : ∀ r, r < d.np → (vs.getD r []).length = (d.patch r).n)
    (hX : ∀ r, r < d.np → ∀ i, i < (d.patch r).n → val (vs.getD r []) i = X (d.gdof r i))
    (r : Nat) (hr : r < d.np) (i : Nat) (hi : i < (d.patch r).n) :
    val (splitterJoin B d.patches rm bm vs nBase) (d.gdof r i) = X (d.gdof r i) :=
  FeatModel.C13L.splitterJoin_covered ok vs X hv hX r hr i hi

/-- … stated for a base DOF `g` that lies in some patch -/
theorem C13.splitterJoin_eq_of_mem {α : Type} [Field α] [CharZero α] (d : Decomp) (rm bm : List (List Nat))
    (B nBase : Nat) (ok : SplitterOK d rm bm B nBase) (vs : List (List α)) (X : Nat → α)
    (hv : ∀ r, r < d.np → (vs.getD r []).length = (d.patch r).n)
    (hX : ∀ r, r < d.np → ∀ i, i < (d.patch r).n → val (vs.getD r []) i = X (d.gdof r i))
    (g : Nat) (hcov : ∃ r, r < d.np ∧ g ∈ d.lmap r) :
    val (splitterJoin B d.patches rm bm vs nBase) g = X g := by
  obtain ⟨r, hr, hg⟩ := hcov
  obtain ⟨i, hi, rfl⟩ := mem_lmap_gdof d r g hg
  exact FeatModel.C13L.splitterJoin_covered ok vs X hv hX r hr i (by rw [ok.wf.size r hr]; exact hi)

/-- … and a base DOF in no patch stays zero (no CharZero, no consistency needed) -/
theorem C13.splitterJoin_uncovered {α : Type} [Field α] (d : Decomp) (rm bm : List (List Nat)) (B nBase : Nat)
    (ok : SplitterOK d rm bm B nBase) (vs : List (List α))
    (hv : ∀ r, r < d.np → (vs.getD r []).length = (d.patch r).n)
    (g : Nat) (hg : g < nBase) (hun : ∀ r, r < d.np → g ∉ d.lmap r) :
    val (splitterJoin B d.patches rm bm vs nBase) g = 0 :=
  FeatModel.C13L.splitterJoin_uncovered ok vs hv g hg hun

/-- (S3) split after join returns a consistent vector entry by entry -/
theorem C13.splitter_split_join {α : Type} [Field α] [CharZero α] (d : Decomp) (rm bm : List (List Nat))
    (B nBase : Nat) (ok : SplitterOK d rm bm B nBase) (vs : List (List α)) (X : Nat → α)
    (hv : ∀ r, r < d.np → (vs.getD r []).length = (d.patch r).n)
    (hX : ∀ r, r < d.np → ∀ i, i < (d.patch r).n → val (vs.getD r []) i = X (d.gdof r i))
    (r : Nat) (hr : r < d.np) (i : Nat) (hi : i < (d.patch r).n) :
    val ((splitterSplit B d.patches rm bm (splitterJoin B d.patches rm bm vs nBase)).getD r []) i
      = val (vs.getD r []) i :=
  FeatModel.C13L.splitter_split_join ok vs X hv hX r hr i hi

/-- join after split returns the base vector on every covered base DOF -/
theorem C13.splitter_join_split {α : Type} [Field α] [CharZero α] (d : Decomp) (rm bm : List (List Nat))
    (B nBase : Nat) (ok : SplitterOK d rm bm B nBase) (base : List α) (hb : base.length = nBase)
    (r : Nat) (hr : r < d.np) (i : Nat) (hi : i < (d.patch r).n) :
    val (splitterJoin B d.patches rm bm (splitterSplit B d.patches rm bm base) nBase) (d.gdof r i)
      = val base (d.gdof r i) :=
  FeatModel.C13L.splitter_join_split ok base hb r hr i hi

/-- the splitter hypotheses hold on `exDecomp` with identity root mirrors, 5 base DOFs, `B = 3` -/
example : SplitterOK exDecomp exRm exBm 3 5 := exSplitterOK
example : (∀ r, r < exDecomp.np → exRm.getD r [] = List.range (exDecomp.patch r).n) ∧ exBm = exDecomp.maps
    ∧ ([5, 7, 1, 2, 3] : List ℚ).length = 5 := by decide

/-! ## Extensions: operand aliasing in the Global layer -/

/-- (A1) `rowDot` is the row fold of `matVec` -/
theorem C13.rowDot_eq {α : Type} [Field α] (rows : List (List (Nat × α))) (x : List α) :
    matVec rows x = rows.map fun row => rowDot row x := rfl

/-- the CSR sweep with the result aliasing the addend computes the same as the non-aliased kernel: each row reads
its own entry before any later row writes, earlier rows only wrote smaller indices -/
theorem C13.matVecAxpyInPlace_eq {α : Type} [Field α] (rows : List (List (Nat × α))) (x r : List α) (alpha : α)
    (hl : rows.length = r.length) : matVecAxpyInPlace rows x r alpha = matVecAxpy rows x r alpha :=
  FeatModel.C13L.matVecAxpyInPlace_eq rows x r alpha hl

example : matVecAxpyInPlace [[(0, 2), (1, -1)], [(0, -1), (1, 2)]] [1, 2] [10, 20] (3 : ℚ) = [10, 29] := by
  simp [matVecAxpyInPlace, rowDot, val, List.zipIdx]
  norm_num

/-- (A2) `gapply2A false false` is `gapply2` -/
theorem C13.gapply2A_eq_gapply2 {α : Type} [Field α] (ps : List Patch) (ords : List (List Nat))
    (mats : List (List (List (Nat × α)))) (xs ys : List (List α)) (alpha : α) :
    gapply2A false false ps ords mats xs ys alpha = gapply2 ps ords mats xs ys alpha := rfl

/-- **`apply(r, x, r, alpha)` gives the same result as `apply(r, x, y, alpha)`** (one matrix row per entry of the
converted vector) -/
theorem C13.gapply2_alias {α : Type} [Field α] (ps : List Patch) (ords : List (List Nat))
    (mats : List (List (List (Nat × α)))) (xs ys : List (List α)) (alpha : α)
    (hm : ∀ r, r < ps.length → (mats.getD r []).length = (from1to0 (ps.getD r default) (ys.getD r [])).length) :
    gapply2A true false ps ords mats xs ys alpha = gapply2A false false ps ords mats xs ys alpha :=
  FeatModel.C13L.gapply2_alias ps ords mats xs ys alpha hm

/-- the same with the hypotheses of `C13.gapply2_eq` -/
theorem C13.gapply2_alias_decomp {α : Type} [Field α] (d : Decomp) (ords : List (List Nat))
    (mats : List (List (List (Nat × α)))) (xs ys : List (List α)) (alpha : α)
    (hm : ∀ r, r < d.np → (mats.getD r []).length = (d.patch r).n)
    (hyl : ∀ r, r < d.np → (ys.getD r []).length = (d.patch r).n) :
    gapply2A true false d.patches ords mats xs ys alpha = gapply2 d.patches ords mats xs ys alpha := by
  rw [← C13.gapply2A_eq_gapply2]
  apply FeatModel.C13L.gapply2_alias
  intro r hr
  have hr' : r < d.np := hr
  rw [hm r hr']
  exact (from1to0_length (d.patch r) _ (hyl r hr')).symm

/-- hence `C13.gapply2_eq` holds verbatim for the aliased call -/
theorem C13.gapply2_alias_eq {α : Type} [Field α] [CharZero α] (d : Decomp) (h : d.WF)
    (mats : List (List (List (Nat × α)))) (xs ys : List (List α)) (alpha : α) (Y : Nat → α)
    (hm : ∀ r, r < d.np → (mats.getD r []).length = (d.patch r).n)
    (hyl : ∀ r, r < d.np → (ys.getD r []).length = (d.patch r).n)
    (hY : ∀ r, r < d.np → ∀ i, i < (d.patch r).n → val (ys.getD r []) i = Y (d.gdof r i))
    (ords : List (List Nat))
    (hord : ∀ r, r < d.np → (ords.getD r []).Perm (List.range (d.patch r).nbrs.length))
    (r : Nat) (hr : r < d.np) (i : Nat) (hi : i < (d.patch r).n) :
    val ((gapply2A true false d.patches ords mats xs ys alpha).getD r []) i
      = Y (d.gdof r i) + alpha * ((List.range d.np).map fun s => (d.sharedVals
          ((List.range d.np).map fun t => matVec (mats.getD t []) (xs.getD t [])) s (d.gdof r i)).sum).sum := by
  rw [C13.gapply2_alias_decomp d ords mats xs ys alpha hm hyl]
  exact C13.gapply2_eq d h mats xs ys alpha Y hm hyl hY ords hord r hr i hi

theorem C13.gapply2A_order_indep {α : Type} [Field α] (al tr : Bool) (ps : List Patch)
    (mats : List (List (List (Nat × α)))) (xs ys : List (List α)) (alpha : α)
    (ords₁ ords₂ : List (List Nat)) (h : ∀ r, (ords₁.getD r []).Perm (ords₂.getD r [])) :
    gapply2A al tr ps ords₁ mats xs ys alpha = gapply2A al tr ps ords₂ mats xs ys alpha :=
  sync0_perm ps _ ords₁ ords₂ h

/-- (A3) the transposed kernel: length kept, entry `i` receives `alpha * a * x[j]` for every stored entry `(i, a)` of
every row `j` (no hypothesis on the columns: out-of-range columns are ignored) -/
theorem C13.matVecTAxpy_val {α : Type} [Field α] (rows : List (List (Nat × α))) (x y : List α) (alpha : α) :
    (matVecTAxpy rows x y alpha).length = y.length ∧
    ∀ i, i < y.length →
      val (matVecTAxpy rows x y alpha) i
        = val y i + alpha * (((rows.zipIdx.flatMap fun ri => ri.1.map fun e => (e.1, e.2 * val x ri.2)).filter
            fun p => p.1 = i).map (·.2)).sum :=
  ⟨matVecTAxpy_length rows x y alpha, fun i hi => FeatModel.C13L.matVecTAxpy_val rows x y alpha i hi⟩

/-- … i.e. `y + alpha * Aᵀx` with `matVecT` of the Lemmas file -/
theorem C13.matVecTAxpy_matVecT {α : Type} [Field α] (rows : List (List (Nat × α))) (x y : List α) (alpha : α)
    (i : Nat) (hi : i < y.length) :
    val (matVecTAxpy rows x y alpha) i = val y i + alpha * val (matVecT rows x y.length) i := by
  rw [FeatModel.C13L.matVecTAxpy_val rows x y alpha i hi, matVecT_val rows x _ i hi]

/-- the transposed branch does not look at the alias flag -/
theorem C13.gapply2A_transp_alias {α : Type} [Field α] (ps : List Patch) (ords : List (List Nat))
    (mats : List (List (List (Nat × α)))) (xs ys : List (List α)) (alpha : α) :
    gapply2A true true ps ords mats xs ys alpha = gapply2A false true ps ords mats xs ys alpha := rfl

/-- `apply_transposed(r, x, y, alpha)` (aliased or not) with a consistent `y`: `Y` plus `alpha` times the sum over
the sharing patches of the local transposed products -/
theorem C13.gapply2A_transp_eq {α : Type} [Field α] [CharZero α] (al : Bool) (d : Decomp) (h : d.WF)
    (mats : List (List (List (Nat × α)))) (xs ys : List (List α)) (alpha : α) (Y : Nat → α)
    (hyl : ∀ r, r < d.np → (ys.getD r []).length = (d.patch r).n)
    (hY : ∀ r, r < d.np → ∀ i, i < (d.patch r).n → val (ys.getD r []) i = Y (d.gdof r i))
    (ords : List (List Nat))
    (hord : ∀ r, r < d.np → (ords.getD r []).Perm (List.range (d.patch r).nbrs.length))
    (r : Nat) (hr : r < d.np) (i : Nat) (hi : i < (d.patch r).n) :
    val ((gapply2A al true d.patches ords mats xs ys alpha).getD r []) i
      = Y (d.gdof r i) + alpha * ((List.range d.np).map fun s => (d.sharedVals
          ((List.range d.np).map fun t => matVecT (mats.getD t []) (xs.getD t []) (d.patch t).n) s
            (d.gdof r i)).sum).sum :=
  FeatModel.C13L.gapply2A_transp_eq al d h mats xs ys alpha Y hyl hY ords hord r hr i hi

example : matVecT [[(0, 2), (1, -1)], [(0, -1), (1, 2)]] [(1 : ℚ), 2] 2 = [0, 3] := by
  simp [matVecT, tEntries, val, List.zipIdx, List.range, List.range.loop]
  norm_num
example : matVecTAxpy [[(0, 2), (1, -1)], [(0, -1), (1, 2)]] [1, 2] [10, 20] (3 : ℚ) = [10, 29] := by
  simp [matVecTAxpy, val, List.zipIdx, List.modify]
  norm_num

/-- (A4) the aliased `Global::Vector` program `r = (b * (y + a * y))²`: lengths kept, entry by entry … -/
theorem C13.valiasLocal_val {α : Type} [Field α] (a b : α) (ys : List (List α)) (r : Nat) (hr : r < ys.length) :
    ((valiasLocal a b ys).getD r []).length = (ys.getD r []).length ∧
    ∀ i, i < (ys.getD r []).length →
      val ((valiasLocal a b ys).getD r []) i
        = (b * (val (ys.getD r []) i + a * val (ys.getD r []) i))
          * (b * (val (ys.getD r []) i + a * val (ys.getD r []) i)) :=
  ⟨valiasLocal_length a b ys r hr, fun i hi => FeatModel.C13L.valiasLocal_val a b ys r hr i hi⟩

/-- … so a consistent input `Y` gives the consistent vector `(b * (Y + a * Y))²` -/
theorem C13.valiasLocal_type1 {α : Type} [Field α] (a b : α) (d : Decomp) (ys : List (List α)) (Y : Nat → α)
    (hyn : ys.length = d.np)
    (hyl : ∀ r, r < d.np → (ys.getD r []).length = (d.patch r).n)
    (hY : ∀ r, r < d.np → ∀ i, i < (d.patch r).n → val (ys.getD r []) i = Y (d.gdof r i))
    (r : Nat) (hr : r < d.np) (i : Nat) (hi : i < (d.patch r).n) :
    val ((valiasLocal a b ys).getD r []) i
      = (b * (Y (d.gdof r i) + a * Y (d.gdof r i))) * (b * (Y (d.gdof r i) + a * Y (d.gdof r i))) := by
  rw [FeatModel.C13L.valiasLocal_val a b ys r (by omega) i (by rw [hyl r hr]; exact hi), hY r hr i hi]

/-! ## Extensions: asynchronous reductions -/

/-- (Y1) on a gate without neighbours all frequencies are 1: the always-weighted local part of `dot_async` is the
plain local dot product -/
theorem C13.gdotAsyncLocal_eq {α : Type} [Field α] (p : Patch) (hp : p.nbrs.isEmpty = true) (x y : List α)
    (hx : x.length = p.n) (hy : y.length = p.n) : gdotAsyncLocal p x y = dotLocal x y :=
  FeatModel.C13L.gdotAsyncLocal_eq p hp x y hx hy

/-- the local parts of `dot_async` and `dot` agree on every gate (with or without neighbours) -/
theorem C13.gdotAsyncLocal_eq_gdotLocal {α : Type} [Field α] (p : Patch) (x y : List α)
    (hx : x.length = p.n) (hy : y.length = p.n) : gdotAsyncLocal p x y = gdotLocal p x y :=
  FeatModel.C13L.gdotAsyncLocal_eq_gdotLocal p x y hx hy

/-- **`dot_async(…).wait() = dot(…)`** for every list of patches (no well-formedness, any patch count) -/
theorem C13.gdotAsync_eq_gdot {α : Type} [Field α] (ps : List Patch) (xs ys : List (List α))
    (hxl : ∀ r, r < ps.length → (xs.getD r []).length = (ps.getD r default).n)
    (hyl : ∀ r, r < ps.length → (ys.getD r []).length = (ps.getD r default).n) :
    gdotAsync none ps xs ys = gdot ps xs ys :=
  FeatModel.C13L.gdotAsync_eq_gdot ps xs ys hxl hyl

/-- (Y2) `dot_async` of two consistent vectors: the global dot product, each global DOF once -/
theorem C13.gdotAsync_eq {α : Type} [Field α] [CharZero α] (d : Decomp) (h : d.WF) (xs ys : List (List α))
    (X Y : Nat → α)
    (hxl : ∀ r, r < d.np → (xs.getD r []).length = (d.patch r).n)
    (hyl : ∀ r, r < d.np → (ys.getD r []).length = (d.patch r).n)
    (hX : ∀ r, r < d.np → ∀ i, i < (d.patch r).n → val (xs.getD r []) i = X (d.gdof r i))
    (hY : ∀ r, r < d.np → ∀ i, i < (d.patch r).n → val (ys.getD r []) i = Y (d.gdof r i)) :
    gdotAsync none d.patches xs ys = ((d.maps.flatten.dedup).map fun g => X g * Y g).sum := by
  rw [FeatModel.C13L.gdotAsync_eq_gdot d.patches xs ys hxl hyl]
  exact C13.gdot_eq d h xs ys X Y hxl hyl hX hY

theorem C13.gnorm2sqrAsync_eq {α : Type} [Field α] [CharZero α] (d : Decomp) (h : d.WF) (xs : List (List α))
    (X : Nat → α)
    (hxl : ∀ r, r < d.np → (xs.getD r []).length = (d.patch r).n)
    (hX : ∀ r, r < d.np → ∀ i, i < (d.patch r).n → val (xs.getD r []) i = X (d.gdof r i)) :
    gnorm2sqrAsync d.patches xs = ((d.maps.flatten.dedup).map fun g => X g * X g).sum ∧
    gnorm2sqrAsync d.patches xs = gnorm2sqr d.patches xs :=
  ⟨C13.gdotAsync_eq d h xs xs X X hxl hxl hX hX, FeatModel.C13L.gdotAsync_eq_gdot d.patches xs xs hxl hxl⟩

theorem C13.gnorm2Async_eq {α : Type} [Field α] [CharZero α] (sqrt : α → α) (d : Decomp) (h : d.WF)
    (xs : List (List α)) (X : Nat → α)
    (hxl : ∀ r, r < d.np → (xs.getD r []).length = (d.patch r).n)
    (hX : ∀ r, r < d.np → ∀ i, i < (d.patch r).n → val (xs.getD r []) i = X (d.gdof r i)) :
    gnorm2Async sqrt d.patches xs = sqrt (((d.maps.flatten.dedup).map fun g => X g * X g).sum) ∧
    gnorm2Async sqrt d.patches xs = gnorm2 sqrt d.patches xs := by
  have e : gnorm2Async sqrt d.patches xs = sqrt (gdotAsync none d.patches xs xs) := rfl
  refine ⟨by rw [e, C13.gdotAsync_eq d h xs xs X X hxl hxl hX hX], ?_⟩
  rw [e, FeatModel.C13L.gdotAsync_eq_gdot d.patches xs xs hxl hxl]; rfl

/-- the ticket's `sqrt` flag -/
theorem C13.gdotAsync_sqrt {α : Type} [Field α] (f : α → α) (ps : List Patch) (xs ys : List (List α)) :
    gdotAsync (some f) ps xs ys = f (gdotAsync none ps xs ys) := rfl

theorem C13.sumAsync_eq {α : Type} [Field α] (f : α → α) (l : List α) :
    sumAsync none l = l.sum ∧ sumAsync (some f) l = f l.sum :=
  ⟨sumAsync_none l, sumAsync_some f l⟩

example : ∀ r, r < exDecomp.patches.length → (exVs.getD r []).length = (exDecomp.patches.getD r default).n := by
  decide

/-- (Y3) **the unweighted combination of the local squared norms is not the global norm**: every global DOF is
counted once per patch that contains it -/
theorem C13.unweightedNormSqr_eq {α : Type} [Field α] (d : Decomp) (h : d.WF) (xs : List (List α)) (X : Nat → α)
    (hn : xs.length = d.np)
    (hxl : ∀ r, r < d.np → (xs.getD r []).length = (d.patch r).n)
    (hX : ∀ r, r < d.np → ∀ i, i < (d.patch r).n → val (xs.getD r []) i = X (d.gdof r i)) :
    unweightedNormSqr xs
      = ((d.maps.flatten.dedup).map fun g => ((d.sharers g).length : α) * (X g * X g)).sum :=
  FeatModel.C13L.unweightedNormSqr_eq d h xs X hn hxl hX _ (List.nodup_dedup _) (mem_flatten_dedup d h)

/-- over an ordered field it is an upper bound of the true squared norm … -/
theorem C13.unweightedNormSqr_ge {α : Type} [Field α] [LinearOrder α] [IsStrictOrderedRing α] (d : Decomp)
    (h : d.WF) (xs : List (List α)) (X : Nat → α) (hn : xs.length = d.np)
    (hxl : ∀ r, r < d.np → (xs.getD r []).length = (d.patch r).n)
    (hX : ∀ r, r < d.np → ∀ i, i < (d.patch r).n → val (xs.getD r []) i = X (d.gdof r i)) :
    gnorm2sqr d.patches xs ≤ unweightedNormSqr xs :=
  FeatModel.C13L.unweightedNormSqr_ge d h xs X hn hxl hX

/-- … and strictly larger as soon as one DOF shared by at least two patches carries a non-zero value -/
theorem C13.unweightedNormSqr_gt {α : Type} [Field α] [LinearOrder α] [IsStrictOrderedRing α] (d : Decomp)
    (h : d.WF) (xs : List (List α)) (X : Nat → α) (hn : xs.length = d.np)
    (hxl : ∀ r, r < d.np → (xs.getD r []).length = (d.patch r).n)
    (hX : ∀ r, r < d.np → ∀ i, i < (d.patch r).n → val (xs.getD r []) i = X (d.gdof r i))
    (g : Nat) (hg : ∃ r, r < d.np ∧ g ∈ d.lmap r) (h2 : 2 ≤ (d.sharers g).length) (hXg : X g ≠ 0) :
    gnorm2sqr d.patches xs < unweightedNormSqr xs :=
  FeatModel.C13L.unweightedNormSqr_gt d h xs X hn hxl hX g hg h2 hXg

/-- witness on the 3-patch example: the true squared norm is 88, the unweighted combination gives 187
(DOF 0 with value 5 is in three patches, DOF 1 with value 7 in two) -/
example : gnorm2sqr exDecomp.patches exVs = 88 ∧ unweightedNormSqr exVs = 187 := by
  constructor
  · rw [C13.gnorm2sqr_eq exDecomp exDecomp_wf exVs (fun g => ([5, 7, 1, 2, 3] : List ℚ).getD g 0) (by decide)
      (by decide)]
    have : exDecomp.maps.flatten.dedup = [2, 1, 3, 4, 0] := by decide
    rw [this]
    norm_num
  · simp [unweightedNormSqr, allSum, dotLocal, exVs]
    norm_num
example : (∃ r, r < exDecomp.np ∧ 0 ∈ exDecomp.lmap r) ∧ 2 ≤ (exDecomp.sharers 0).length := by decide

/-! ## The decompositions produced by C12's patch extraction are well-formed -/

/-- (G3) **`Decomp.WF` derived from the partition model of C12** (Lagrange-1: one DOF per vertex): for every
consistent mesh and every partition, local-to-global maps = vertex target sets, gate neighbours = `comm_ranks`,
mirrors = vertex halos.  So every C13 theorem with a `d.WF` hypothesis holds for every decomposition that
`extract_patch` can produce (`0 < m.dim` is part of `consistent`, `p.wf` part of `isPartition`). -/
theorem C13.WF_of_partition (m : FeatModel.Parti.Mesh) (p : FeatModel.Parti.Parti) (hm : m.consistent = true)
    (hp : FeatModel.Parti.isPartition p = true) : (decompOfParti m p).WF :=
  FeatModel.C13L.WF_of_partition m p hm hp

/-- the same for DOFs on the entities of one fixed dimension `d < dim` (edge / face DOFs); needs in addition that
every entity has a non-empty facet list (`facetsOk`), so that sharing a `d`-entity implies sharing a vertex, which
is what `comm_ranks` is built from.  (One dimension at a time: not the all-dimensions-at-once Q2 numbering.) -/
theorem C13.WF_of_partition_dim (m : FeatModel.Parti.Mesh) (p : FeatModel.Parti.Parti) (hm : m.consistent = true)
    (hf : m.facetsOk = true) (hp : FeatModel.Parti.isPartition p = true) (d : Nat) (hd : d < m.dim) :
    (decompOfPartiDim m p d).WF :=
  FeatModel.C13L.WF_of_partition_facets m p hm hf hp d hd

/-- bookkeeping: number of patches, local-to-global map and gate of `decompOfPartiDim` -/
theorem C13.decompOfParti_spec (m : FeatModel.Parti.Mesh) (p : FeatModel.Parti.Parti) (d r : Nat) (hr : r < p.nDom) :
    (decompOfPartiDim m p d).np = p.nDom
    ∧ (decompOfPartiDim m p d).lmap r = m.target (p.row r) d
    ∧ (∀ i, (decompOfPartiDim m p d).gdof r i = FeatModel.Parti.toBase m p r d i)
    ∧ ((decompOfPartiDim m p d).patch r).n = (m.target (p.row r) d).length
    ∧ ((decompOfPartiDim m p d).patch r).nbrs
        = (FeatModel.Parti.commRanks m p r).map fun s => (s, FeatModel.Parti.halo m p r s d) := by
  refine ⟨dop_np m p d, dop_lmap m p d r hr, fun i => dop_gdof m p d r i hr, ?_, ?_⟩
  · rw [dop_patch m p d r hr]
  · rw [dop_patch m p d r hr]

/-- `C13.sync0_sum` with the well-formedness hypothesis discharged by C12 -/
theorem C13.sync0_sum_of_partition {α : Type} [Field α] (m : FeatModel.Parti.Mesh) (p : FeatModel.Parti.Parti)
    (hm : m.consistent = true) (hp : FeatModel.Parti.isPartition p = true) (vs : List (List α))
    (hv : ∀ r, r < (decompOfParti m p).np → (vs.getD r []).length = ((decompOfParti m p).patch r).n)
    (ords : List (List Nat))
    (hord : ∀ r, r < (decompOfParti m p).np →
      (ords.getD r []).Perm (List.range ((decompOfParti m p).patch r).nbrs.length))
    (r : Nat) (hr : r < (decompOfParti m p).np) (i : Nat) (hi : i < ((decompOfParti m p).patch r).n) :
    val ((sync0 (decompOfParti m p).patches ords vs).getD r []) i
      = ((List.range (decompOfParti m p).np).map fun s =>
          ((decompOfParti m p).sharedVals vs s ((decompOfParti m p).gdof r i)).sum).sum :=
  C13.sync0_sum (decompOfParti m p) (FeatModel.C13L.WF_of_partition m p hm hp) vs hv ords hord r hr i hi

/-- C12's two-quadrilateral example: 4 vertices per patch, the shared edge (vertices 1, 4) is the mirror -/
example : FeatModel.Parti.exMesh.consistent = true ∧ FeatModel.Parti.isPartition FeatModel.Parti.exParti = true
    ∧ FeatModel.Parti.exMesh.facetsOk = true
    ∧ (decompOfParti FeatModel.Parti.exMesh FeatModel.Parti.exParti).maps = [[1, 2, 4, 5], [0, 1, 3, 4]]
    ∧ (decompOfParti FeatModel.Parti.exMesh FeatModel.Parti.exParti).patches.map (·.nbrs)
        = [[(1, [0, 2])], [(0, [1, 3])]] := by decide

/-! ## Discretise-and-solve: the distributed iterations are the one-process iterations (exact arithmetic) -/

/-- (G4) **distributed (Jacobi-)Richardson = serial (Jacobi-)Richardson on the assembled operator**: if the right-hand
side and the start vector are the consistent vectors of global functions `B`, `X`, then after every number `k` of
steps the iterate has one vector per patch, of the patch's length, and its entries are the serial iterate
`richSerialIter` (on `globalApply` / `globalDiag`, defined in `Lemmas/C13Solve.lean`) at the global DOF — for both
`jac = false` and `jac = true`, every arrival order, every relaxation parameter -/
theorem C13.richIter_eq {α : Type} [Field α] [CharZero α] (jac : Bool) (omega : α) (d : Decomp) (h : d.WF)
    (mats : List (List (List (Nat × α))))
    (hm : ∀ r, r < d.np → (mats.getD r []).length = (d.patch r).n)
    (ords : List (List Nat)) (hord : ∀ r, r < d.np → (ords.getD r []).Perm (List.range (d.patch r).nbrs.length))
    (bs xs : List (List α)) (B X : Nat → α)
    (hbn : bs.length = d.np) (hbl : ∀ r, r < d.np → (bs.getD r []).length = (d.patch r).n)
    (hB : ∀ r, r < d.np → ∀ i, i < (d.patch r).n → val (bs.getD r []) i = B (d.gdof r i))
    (hxn : xs.length = d.np) (hxl : ∀ r, r < d.np → (xs.getD r []).length = (d.patch r).n)
    (hX : ∀ r, r < d.np → ∀ i, i < (d.patch r).n → val (xs.getD r []) i = X (d.gdof r i)) (k : Nat) :
    (richIter jac omega d.patches ords mats bs k xs).length = d.np
    ∧ (∀ r, r < d.np → ((richIter jac omega d.patches ords mats bs k xs).getD r []).length = (d.patch r).n)
    ∧ ∀ r, r < d.np → ∀ i, i < (d.patch r).n →
        val ((richIter jac omega d.patches ords mats bs k xs).getD r []) i
          = richSerialIter jac omega d mats B k X (d.gdof r i) := by
  have := richIter_rep jac omega d h mats hm ords hord bs B ⟨hbn, hbl, hB⟩ k xs X ⟨hxn, hxl, hX⟩
  exact ⟨this.len, this.lens, this.vals⟩

/-- one step, in the `Rep` form (`Rep d xs X`: one vector per patch, right lengths, entries `X ∘ gdof`) -/
theorem C13.richStep_rep {α : Type} [Field α] [CharZero α] (jac : Bool) (omega : α) (d : Decomp) (h : d.WF)
    (mats : List (List (List (Nat × α))))
    (hm : ∀ r, r < d.np → (mats.getD r []).length = (d.patch r).n)
    (ords : List (List Nat)) (hord : ∀ r, r < d.np → (ords.getD r []).Perm (List.range (d.patch r).nbrs.length))
    (bs xs : List (List α)) (B X : Nat → α) (hb : Rep d bs B) (hx : Rep d xs X) :
    Rep d (richStep jac omega d.patches ords mats bs xs) (richSerialStep jac omega d mats B X) :=
  FeatModel.C13L.richStep_rep jac omega d h mats hm ords hord bs xs B X hb hx

/-- the building blocks: defect, operator application, synchronised inverse diagonal, global dot product -/
theorem C13.gdefect_rep {α : Type} [Field α] [CharZero α] (d : Decomp) (h : d.WF)
    (mats : List (List (List (Nat × α))))
    (hm : ∀ r, r < d.np → (mats.getD r []).length = (d.patch r).n)
    (ords : List (List Nat)) (hord : ∀ r, r < d.np → (ords.getD r []).Perm (List.range (d.patch r).nbrs.length))
    (bs xs : List (List α)) (B X : Nat → α) (hb : Rep d bs B) (hx : Rep d xs X) :
    Rep d (gdefect d.patches ords mats bs xs) (fun g => B g - globalApply d mats X g)
    ∧ Rep d (gapply d.patches ords mats xs) (globalApply d mats X)
    ∧ Rep d (ginvDiag d.patches ords mats) (fun g => 1 / globalDiag d mats g)
    ∧ gdot d.patches bs xs = globalDot d B X :=
  ⟨FeatModel.C13L.gdefect_rep d h mats hm ords hord bs xs B X hb hx,
   gapply_rep d h mats hm ords hord xs X hx, ginvDiag_rep d h mats hm ords hord, gdot_rep d h bs xs B X hb hx⟩

/-- **distributed CG = serial CG**: the start state represents the serial start state … -/
theorem C13.cgInit_rep {α : Type} [Field α] [CharZero α] (d : Decomp) (h : d.WF)
    (mats : List (List (List (Nat × α))))
    (hm : ∀ r, r < d.np → (mats.getD r []).length = (d.patch r).n)
    (ords : List (List Nat)) (hord : ∀ r, r < d.np → (ords.getD r []).Perm (List.range (d.patch r).nbrs.length))
    (bs xs : List (List α)) (B X : Nat → α) (hb : Rep d bs B) (hx : Rep d xs X) :
    CGRep d (cgInit d.patches ords mats bs xs) (cgSerialInit d mats B X) :=
  FeatModel.C13L.cgInit_rep d h mats hm ords hord bs xs B X hb hx

/-- … and after every number of steps `x`, `r`, `p` are the consistent vectors of the serial `x`, `r`, `p` and the
scalar `rr` is the serial `rr` (`CGRep`); division by zero (breakdown) happens on both sides simultaneously -/
theorem C13.cgIter_eq {α : Type} [Field α] [CharZero α] (d : Decomp) (h : d.WF)
    (mats : List (List (List (Nat × α))))
    (hm : ∀ r, r < d.np → (mats.getD r []).length = (d.patch r).n)
    (ords : List (List Nat)) (hord : ∀ r, r < d.np → (ords.getD r []).Perm (List.range (d.patch r).nbrs.length))
    (bs xs : List (List α)) (B X : Nat → α) (hb : Rep d bs B) (hx : Rep d xs X) (k : Nat) :
    CGRep d (cgIter d.patches ords mats k (cgInit d.patches ords mats bs xs))
      (cgSerialIter d mats k (cgSerialInit d mats B X)) :=
  cgIter_rep d h mats hm ords hord k _ _ (FeatModel.C13L.cgInit_rep d h mats hm ords hord bs xs B X hb hx)

/-- the pointwise reading of `C13.cgIter_eq` for the solution component -/
theorem C13.cgIter_x_val {α : Type} [Field α] [CharZero α] (d : Decomp) (h : d.WF)
    (mats : List (List (List (Nat × α))))
    (hm : ∀ r, r < d.np → (mats.getD r []).length = (d.patch r).n)
    (ords : List (List Nat)) (hord : ∀ r, r < d.np → (ords.getD r []).Perm (List.range (d.patch r).nbrs.length))
    (bs xs : List (List α)) (B X : Nat → α) (hb : Rep d bs B) (hx : Rep d xs X) (k : Nat)
    (r : Nat) (hr : r < d.np) (i : Nat) (hi : i < (d.patch r).n) :
    val ((cgIter d.patches ords mats k (cgInit d.patches ords mats bs xs)).x.getD r []) i
      = (cgSerialIter d mats k (cgSerialInit d mats B X)).x (d.gdof r i)
    ∧ (cgIter d.patches ords mats k (cgInit d.patches ords mats bs xs)).rr
      = (cgSerialIter d mats k (cgSerialInit d mats B X)).rr := by
  have := cgIter_rep d h mats hm ords hord k _ _ (FeatModel.C13L.cgInit_rep d h mats hm ords hord bs xs B X hb hx)
  exact ⟨this.x.vals r hr i hi, this.rr⟩

/-- one CG step from any represented state -/
theorem C13.cgStep_rep {α : Type} [Field α] [CharZero α] (d : Decomp) (h : d.WF)
    (mats : List (List (List (Nat × α))))
    (hm : ∀ r, r < d.np → (mats.getD r []).length = (d.patch r).n)
    (ords : List (List Nat)) (hord : ∀ r, r < d.np → (ords.getD r []).Perm (List.range (d.patch r).nbrs.length))
    (st : CGState α) (S : CGSerial α) (hs : CGRep d st S) :
    CGRep d (cgStep d.patches ords mats st) (cgSerialStep d mats S) :=
  FeatModel.C13L.cgStep_rep d h mats hm ords hord st S hs

/-- the representation hypothesis is satisfiable: `exVs` is the consistent vector of 0↦5, 1↦7, 2↦1, 3↦2, 4↦3 -/
example : Rep exDecomp exVs (fun g => ([5, 7, 1, 2, 3] : List ℚ).getD g 0) := ⟨by decide, by decide, by decide⟩

/-! ## Float clause: the synchronisation with an abstract rounding of every addition -/

/-- (F-b) with `fl = id` the float-level functions are the exact ones -/
theorem C13.sync0PatchFl_id {α : Type} [Field α] (ps : List Patch) (vs : List (List α)) (r : Nat) (ord : List Nat)
    (v : List α) (mir : List Nat) (buf : List α) :
    sync0PatchFl (fun x => x) ps vs r ord = sync0Patch ps vs r ord
    ∧ scatterAddFl (fun x => x) v mir buf = scatterAxpy v mir buf 1 :=
  ⟨FeatModel.C13L.sync0PatchFl_id ps vs r ord, scatterAddFl_id v mir buf⟩

/-- (F-c) one rounded scatter through a duplicate-free mirror: length kept; mirror position `k` (with a buffer
entry) receives exactly one rounded addition; entries outside the mirror are untouched (and not rounded) -/
theorem C13.scatterAddFl_val {α : Type} [Field α] (fl : α → α) (v : List α) (mir : List Nat) (hn : mir.Nodup)
    (buf : List α) :
    (scatterAddFl fl v mir buf).length = v.length
    ∧ (∀ k (hk : k < mir.length) (hkb : k < buf.length), mir[k] < v.length →
        val (scatterAddFl fl v mir buf) mir[k] = fl (val v mir[k] + buf[k]))
    ∧ (∀ i, i ∉ mir → val (scatterAddFl fl v mir buf) i = val v i) :=
  ⟨scatterAddFl_length fl v mir buf, fun k hk hkb hlt => scatterAddFl_val_mem fl v mir hn buf k hk hkb hlt,
   fun i hi => scatterAddFl_val_not_mem fl v mir buf i hi⟩

/-- both cases in one formula -/
theorem C13.scatterAddFl_val_find {α : Type} [Field α] (fl : α → α) (v : List α) (mir : List Nat) (hn : mir.Nodup)
    (buf : List α) (i : Nat) (hi : i < v.length) :
    val (scatterAddFl fl v mir buf) i
      = (((mir.zip buf).find? fun p => p.1 == i).map (·.2)).elim (val v i) (fun c => fl (val v i + c)) :=
  FeatModel.C13L.scatterAddFl_val fl v mir hn buf i hi

/-- **entry `i` of the rounded synchronisation is the rounded sum `flSum` of the own value and of the received
buffer entries, in arrival order, of exactly those neighbours whose mirror contains `i`** (`arrivals`, defined in
`Lemmas/C13Float.lean`: `ord.filterMap` of the buffer entry at the mirror position of `i`) -/
theorem C13.sync0PatchFl_val_flSum {α : Type} [Field α] (fl : α → α) (ps : List Patch) (vs : List (List α))
    (r : Nat) (ord : List Nat)
    (hn : ∀ k ∈ ord, ((ps.getD r default).nbrs.getD k (0, [])).2.Nodup) (i : Nat)
    (hi : i < (vs.getD r []).length) :
    (sync0PatchFl fl ps vs r ord).length = (vs.getD r []).length
    ∧ val (sync0PatchFl fl ps vs r ord) i = flSum fl (val (vs.getD r []) i) (arrivals ps vs r ord i) :=
  ⟨sync0PatchFl_length fl ps vs r ord, FeatModel.C13L.sync0PatchFl_val_flSum fl ps vs r ord hn i hi⟩

/-- (F-a) **error of a rounded sum**: with `|fl x - x| ≤ u |x|` for every addition -/
theorem C13.flSum_bound {α : Type} [Field α] [LinearOrder α] [IsStrictOrderedRing α] (fl : α → α) (u : α) (hu : 0 ≤ u)
    (hfl : ∀ x, |fl x - x| ≤ u * |x|) (c0 : α) (cs : List α) :
    |flSum fl c0 cs - (c0 + cs.sum)| ≤ ((1 + u) ^ cs.length - 1) * (|c0| + (cs.map fun c => |c|).sum) :=
  FeatModel.C13L.flSum_bound fl u hu hfl c0 cs

/-- the arrival order changes the computed value but not the bound -/
theorem C13.flSum_bound_perm {α : Type} [Field α] [LinearOrder α] [IsStrictOrderedRing α] (fl : α → α) (u : α) (hu : 0 ≤ u)
    (hfl : ∀ x, |fl x - x| ≤ u * |x|) (c0 : α) (cs cs' : List α) (hp : cs'.Perm cs) :
    |flSum fl c0 cs' - (c0 + cs.sum)| ≤ ((1 + u) ^ cs.length - 1) * (|c0| + (cs.map fun c => |c|).sum) :=
  FeatModel.C13L.flSum_bound_perm fl u hu hfl c0 cs cs' hp

/-- the rounding hypothesis is satisfiable (exact arithmetic: `fl = id`, `u = 0`); any IEEE addition satisfies it
with `u` = unit roundoff as long as no overflow / underflow occurs -/
example : (0 : ℚ) ≤ 0 ∧ ∀ x : ℚ, |(fun y => y) x - x| ≤ 0 * |x| := by
  refine ⟨le_refl _, fun x => ?_⟩
  simp

/-- under `Decomp.WF`, for every arrival order that is a permutation of the neighbour positions, the own value plus
the arrivals at entry `i` are exactly the values of all sharing patches: any additive functional `Σ h` agrees
(`h = id`: the exact sum; `h = |·|`: the condition-number sum; `h = 1`: the number of sharers) -/
theorem C13.arrivals_sum {α : Type} [Field α] (d : Decomp) (hw : d.WF) (vs : List (List α)) (r : Nat)
    (hr : r < d.np) (i : Nat) (hi : i < (d.patch r).n) (ord : List Nat)
    (hord : ord.Perm (List.range (d.patch r).nbrs.length)) (h : α → α) :
    h (val (vs.getD r []) i) + ((arrivals d.patches vs r ord i).map h).sum
      = ((List.range d.np).map fun s => ((d.sharedVals vs s (d.gdof r i)).map h).sum).sum :=
  FeatModel.C13L.arrivals_sum d hw vs r hr i hi ord hord h

/-- (G2) **error bound of the rounded type-0 synchronisation, for EVERY arrival order**: the computed entry differs
from the exact sum over the `k = #sharers` patches by at most `((1+u)^(k-1) - 1) * Σ |values|` (`k - 1` rounded
additions; entries of neighbours that do not contain the DOF are neither added nor rounded) -/
theorem C13.sync0_float_bound {α : Type} [Field α] [LinearOrder α] [IsStrictOrderedRing α] (fl : α → α) (u : α) (hu : 0 ≤ u)
    (hfl : ∀ x, |fl x - x| ≤ u * |x|) (d : Decomp) (hw : d.WF) (vs : List (List α))
    (hv : ∀ r, r < d.np → (vs.getD r []).length = (d.patch r).n)
    (r : Nat) (hr : r < d.np) (ord : List Nat) (hord : ord.Perm (List.range (d.patch r).nbrs.length))
    (i : Nat) (hi : i < (d.patch r).n) :
    |val (sync0PatchFl fl d.patches vs r ord) i
        - ((List.range d.np).map fun s => (d.sharedVals vs s (d.gdof r i)).sum).sum|
      ≤ ((1 + u) ^ ((d.sharers (d.gdof r i)).length - 1) - 1)
        * ((List.range d.np).map fun s => ((d.sharedVals vs s (d.gdof r i)).map fun c => |c|).sum).sum :=
  FeatModel.C13L.sync0_float_bound fl u hu hfl d hw vs hv r hr ord hord i hi

/-- two arrival orders give results that differ by at most twice the bound -/
theorem C13.sync0_float_order_diff {α : Type} [Field α] [LinearOrder α] [IsStrictOrderedRing α] (fl : α → α) (u : α) (hu : 0 ≤ u)
    (hfl : ∀ x, |fl x - x| ≤ u * |x|) (d : Decomp) (hw : d.WF) (vs : List (List α))
    (hv : ∀ r, r < d.np → (vs.getD r []).length = (d.patch r).n)
    (r : Nat) (hr : r < d.np) (o₁ o₂ : List Nat)
    (h₁ : o₁.Perm (List.range (d.patch r).nbrs.length)) (h₂ : o₂.Perm (List.range (d.patch r).nbrs.length))
    (i : Nat) (hi : i < (d.patch r).n) :
    |val (sync0PatchFl fl d.patches vs r o₁) i - val (sync0PatchFl fl d.patches vs r o₂) i|
      ≤ 2 * (((1 + u) ^ ((d.sharers (d.gdof r i)).length - 1) - 1)
        * ((List.range d.np).map fun s => ((d.sharedVals vs s (d.gdof r i)).map fun c => |c|).sum).sum) := by
  have b1 := FeatModel.C13L.sync0_float_bound fl u hu hfl d hw vs hv r hr o₁ h₁ i hi
  have b2 := FeatModel.C13L.sync0_float_bound fl u hu hfl d hw vs hv r hr o₂ h₂ i hi
  have := abs_sub_le (val (sync0PatchFl fl d.patches vs r o₁) i)
    (((List.range d.np).map fun s => (d.sharedVals vs s (d.gdof r i)).sum).sum)
    (val (sync0PatchFl fl d.patches vs r o₂) i)
  have e := abs_sub_comm (((List.range d.np).map fun s => (d.sharedVals vs s (d.gdof r i)).sum).sum)
    (val (sync0PatchFl fl d.patches vs r o₂) i)
  rw [e] at this
  linarith [b1, b2, this]

/-- first-order form of the factor: `(1+u)^n - 1 ≤ n u + (n u)²` as long as `n u ≤ 1` -/
theorem C13.pow_first_order {α : Type} [Field α] [LinearOrder α] [IsStrictOrderedRing α] (u : α) (hu : 0 ≤ u) (n : Nat) (hn : (n : α) * u ≤ 1) :
    (1 + u) ^ n - 1 ≤ (n : α) * u + ((n : α) * u) ^ 2 :=
  FeatModel.C13L.pow_first_order u hu n hn

example : ([1, 0] : List Nat).Perm (List.range (exDecomp.patch 0).nbrs.length) := by decide

/-! ## Jacobi-preconditioned CG -/

/-- (P1) `z = D⁻¹ r` with the synchronised inverse diagonal, on a represented residual -/
theorem C13.jacApply_rep {α : Type} [Field α] (d : Decomp) (h : d.WF)
    (mats : List (List (List (Nat × α))))
    (hm : ∀ r, r < d.np → (mats.getD r []).length = (d.patch r).n)
    (ords : List (List Nat)) (hord : ∀ r, r < d.np → (ords.getD r []).Perm (List.range (d.patch r).nbrs.length))
    (rs : List (List α)) (R : Nat → α) (hr : Rep d rs R) :
    Rep d (jacApply d.patches ords mats rs) (fun g => R g * (1 / globalDiag d mats g)) :=
  FeatModel.C13L.jacApply_rep d h mats hm ords hord rs R hr

theorem C13.pcgInit_rep {α : Type} [Field α] [CharZero α] (d : Decomp) (h : d.WF)
    (mats : List (List (List (Nat × α))))
    (hm : ∀ r, r < d.np → (mats.getD r []).length = (d.patch r).n)
    (ords : List (List Nat)) (hord : ∀ r, r < d.np → (ords.getD r []).Perm (List.range (d.patch r).nbrs.length))
    (bs xs : List (List α)) (B X : Nat → α) (hb : Rep d bs B) (hx : Rep d xs X) :
    PCGRep d (pcgInit d.patches ords mats bs xs) (pcgSerialInit d mats B X) :=
  FeatModel.C13L.pcgInit_rep d h mats hm ords hord bs xs B X hb hx

theorem C13.pcgStep_rep {α : Type} [Field α] [CharZero α] (d : Decomp) (h : d.WF)
    (mats : List (List (List (Nat × α))))
    (hm : ∀ r, r < d.np → (mats.getD r []).length = (d.patch r).n)
    (ords : List (List Nat)) (hord : ∀ r, r < d.np → (ords.getD r []).Perm (List.range (d.patch r).nbrs.length))
    (st : PCGState α) (S : PCGSerial α) (hs : PCGRep d st S) :
    PCGRep d (pcgStep d.patches ords mats st) (pcgSerialStep d mats S) :=
  FeatModel.C13L.pcgStep_rep d h mats hm ords hord st S hs

/-- **distributed Jacobi-PCG = serial Jacobi-PCG** on the assembled operator and diagonal, for every `k`:
`x`, `r`, `p` are the consistent vectors of the serial `x`, `r`, `p`, and `rz` is the serial `rz` (`PCGRep`) -/
theorem C13.pcgIter_eq {α : Type} [Field α] [CharZero α] (d : Decomp) (h : d.WF)
    (mats : List (List (List (Nat × α))))
    (hm : ∀ r, r < d.np → (mats.getD r []).length = (d.patch r).n)
    (ords : List (List Nat)) (hord : ∀ r, r < d.np → (ords.getD r []).Perm (List.range (d.patch r).nbrs.length))
    (bs xs : List (List α)) (B X : Nat → α) (hb : Rep d bs B) (hx : Rep d xs X) (k : Nat) :
    PCGRep d (pcgIter d.patches ords mats k (pcgInit d.patches ords mats bs xs))
      (pcgSerialIter d mats k (pcgSerialInit d mats B X)) :=
  pcgIter_rep d h mats hm ords hord k _ _ (FeatModel.C13L.pcgInit_rep d h mats hm ords hord bs xs B X hb hx)

theorem C13.pcgIter_x_val {α : Type} [Field α] [CharZero α] (d : Decomp) (h : d.WF)
    (mats : List (List (List (Nat × α))))
    (hm : ∀ r, r < d.np → (mats.getD r []).length = (d.patch r).n)
    (ords : List (List Nat)) (hord : ∀ r, r < d.np → (ords.getD r []).Perm (List.range (d.patch r).nbrs.length))
    (bs xs : List (List α)) (B X : Nat → α) (hb : Rep d bs B) (hx : Rep d xs X) (k : Nat)
    (r : Nat) (hr : r < d.np) (i : Nat) (hi : i < (d.patch r).n) :
    val ((pcgIter d.patches ords mats k (pcgInit d.patches ords mats bs xs)).x.getD r []) i
      = (pcgSerialIter d mats k (pcgSerialInit d mats B X)).x (d.gdof r i)
    ∧ (pcgIter d.patches ords mats k (pcgInit d.patches ords mats bs xs)).rz
      = (pcgSerialIter d mats k (pcgSerialInit d mats B X)).rz := by
  have := pcgIter_rep d h mats hm ords hord k _ _ (FeatModel.C13L.pcgInit_rep d h mats hm ords hord bs xs B X hb hx)
  exact ⟨this.x.vals r hr i hi, this.rz⟩

/-! ## Float clause for the global dot product -/

/-- (P2) with `fl = id` the float-level dot products are the exact ones; `gdotFl` in rank order is `dot_async` -/
theorem C13.gdotFl_id {α : Type} [Field α] (ps : List Patch) (xs ys : List (List α)) (f x y : List α) :
    tripleDotFl (fun x => x) f x y = tripleDot f x y
    ∧ gdotFl (fun x => x) ps xs ys (List.range ps.length) = gdotAsync none ps xs ys :=
  ⟨tripleDotFl_id f x y, FeatModel.C13L.gdotFl_id ps xs ys⟩

/-- the exact local triple product is the sum of `tripleTerms f x y` (= `zipWith (*) (zipWith (*) f x) y`) -/
theorem C13.tripleDot_eq_sum {α : Type} [Field α] (f x y : List α) :
    tripleDot f x y = (tripleTerms f x y).sum ∧ (tripleTerms f x y).length = min (min f.length x.length) y.length :=
  ⟨FeatModel.C13L.tripleDot_eq_sum f x y, by simp [tripleTerms]⟩

/-- (a) **rounded local triple product**: two rounded multiplications per entry and at most `n` rounded additions,
`n` = number of entries -/
theorem C13.tripleDotFl_bound {α : Type} [Field α] [LinearOrder α] [IsStrictOrderedRing α] (fl : α → α) (u : α) (hu : 0 ≤ u)
    (hfl : ∀ x, |fl x - x| ≤ u * |x|) (f x y : List α) :
    |tripleDotFl fl f x y - tripleDot f x y|
      ≤ ((1 + u) ^ ((tripleTerms f x y).length + 2) - 1) * ((tripleTerms f x y).map fun c => |c|).sum :=
  FeatModel.C13L.tripleDotFl_bound fl u hu hfl f x y

/-- (b) **rounded global dot product, for EVERY reduction order** (a permutation of the ranks): against the exact
`dot_async` value `Σ_r Σ_i freq_i x_i y_i` (which is `gdot ps xs ys` by `C13.gdotAsync_eq_gdot` and the global dot
product `Σ_g X g Y g` by `C13.gdotAsync_eq`); `n` bounds the local lengths -/
theorem C13.gdotFl_bound {α : Type} [Field α] [LinearOrder α] [IsStrictOrderedRing α] (fl : α → α) (u : α) (hu : 0 ≤ u)
    (hfl : ∀ x, |fl x - x| ≤ u * |x|) (ps : List Patch) (xs ys : List (List α)) (order : List Nat)
    (hperm : order.Perm (List.range ps.length)) (n : Nat)
    (hn : ∀ r, r < ps.length →
      (tripleTerms (freqs (ps.getD r default)) (xs.getD r []) (ys.getD r [])).length ≤ n) :
    |gdotFl fl ps xs ys order - gdotAsync none ps xs ys|
      ≤ ((1 + u) ^ (n + 2 + ps.length) - 1)
        * ((List.range ps.length).map fun r =>
            ((tripleTerms (freqs (ps.getD r default)) (xs.getD r []) (ys.getD r [])).map fun c => |c|).sum).sum :=
  FeatModel.C13L.gdotFl_bound fl u hu hfl ps xs ys order hperm n hn

/-- the same against the global dot product of two consistent vectors on a well-formed decomposition -/
theorem C13.gdotFl_bound_global {α : Type} [Field α] [LinearOrder α] [IsStrictOrderedRing α] (fl : α → α) (u : α) (hu : 0 ≤ u)
    (hfl : ∀ x, |fl x - x| ≤ u * |x|) (d : Decomp) (h : d.WF) (xs ys : List (List α)) (X Y : Nat → α)
    (hxl : ∀ r, r < d.np → (xs.getD r []).length = (d.patch r).n)
    (hyl : ∀ r, r < d.np → (ys.getD r []).length = (d.patch r).n)
    (hX : ∀ r, r < d.np → ∀ i, i < (d.patch r).n → val (xs.getD r []) i = X (d.gdof r i))
    (hY : ∀ r, r < d.np → ∀ i, i < (d.patch r).n → val (ys.getD r []) i = Y (d.gdof r i))
    (order : List Nat) (hperm : order.Perm (List.range d.patches.length)) (n : Nat)
    (hn : ∀ r, r < d.patches.length →
      (tripleTerms (freqs (d.patches.getD r default)) (xs.getD r []) (ys.getD r [])).length ≤ n) :
    |gdotFl fl d.patches xs ys order - ((d.maps.flatten.dedup).map fun g => X g * Y g).sum|
      ≤ ((1 + u) ^ (n + 2 + d.patches.length) - 1)
        * ((List.range d.patches.length).map fun r =>
            ((tripleTerms (freqs (d.patches.getD r default)) (xs.getD r []) (ys.getD r [])).map fun c => |c|).sum).sum := by
  rw [← C13.gdotAsync_eq d h xs ys X Y hxl hyl hX hY]
  exact FeatModel.C13L.gdotFl_bound fl u hu hfl d.patches xs ys order hperm n hn

example : ([2, 0, 1] : List Nat).Perm (List.range exDecomp.patches.length)
    ∧ ∀ r, r < exDecomp.patches.length →
      (tripleTerms (freqs (exDecomp.patches.getD r default)) (exVs.getD r []) (exVs.getD r [])).length ≤ 3 := by
  refine ⟨by decide, ?_⟩
  intro r hr
  simp only [tripleTerms, List.length_zipWith, freqs_length]
  have : (exDecomp.patches.getD r default).n ≤ 3 := by
    have hr' : r = 0 ∨ r = 1 ∨ r = 2 := by change r < 3 at hr; omega
    rcases hr' with rfl | rfl | rfl <;> decide
  omega

/-- (P3, the cell dimension only) DOFs on the cells (`d = m.dim`, e.g. a discontinuous pressure space): the
decomposition is well-formed; all mirrors are empty and no DOF is shared because a partition has no cell in two
patches.  Together with `C13.WF_of_partition_dim` this covers every single dimension `0 ≤ d ≤ m.dim`; the
all-dimensions-at-once numbering (`Decomp.append`) is NOT proved. -/
theorem C13.WF_of_partition_cells (m : FeatModel.Parti.Mesh) (p : FeatModel.Parti.Parti) (hm : m.consistent = true)
    (hp : FeatModel.Parti.isPartition p = true) : (decompOfPartiDim m p m.dim).WF :=
  FeatModel.C13L.WF_of_partition_cells m p hm hp

example : (decompOfPartiDim FeatModel.Parti.exMesh FeatModel.Parti.exParti 2).maps = [[1], [0]]
    ∧ (decompOfPartiDim FeatModel.Parti.exMesh FeatModel.Parti.exParti 2).patches.map (·.nbrs)
        = [[(1, [])], [(0, [])]] := by decide

/-! ## Combining decompositions (several kinds of DOFs at once) -/

/-- (P3-i) **two well-formed decompositions over the same patches and the same neighbour ranks (in the same order)
combine to a well-formed one** (`Decomp.append`, in `Lemmas/C13PartiAll.lean`): local DOFs of `d2` behind those of
`d1`, global DOFs of `d2` shifted by `off`, mirrors concatenated; `off` must bound the global DOFs of `d1` -/
theorem C13.WF_append (d1 d2 : Decomp) (off : Nat) (h1 : d1.WF) (h2 : d2.WF) (hnp : d1.np = d2.np)
    (hranks : ∀ r, r < d1.np → (d1.patch r).nbrs.map (·.1) = (d2.patch r).nbrs.map (·.1))
    (hoff : ∀ r, r < d1.np → ∀ g ∈ d1.lmap r, g < off) : (d1.append d2 off).WF :=
  FeatModel.C13L.WF_append d1 d2 off h1 h2 hnp hranks hoff

/-- bookkeeping of `Decomp.append` -/
theorem C13.append_spec (d1 d2 : Decomp) (off : Nat) (h1 : d1.WF) (h2 : d2.WF) (hnp : d1.np = d2.np) (r : Nat)
    (hr : r < d1.np) :
    (d1.append d2 off).np = d1.np
    ∧ (d1.append d2 off).lmap r = d1.lmap r ++ (d2.lmap r).map (· + off)
    ∧ ((d1.append d2 off).patch r).n = (d1.patch r).n + (d2.patch r).n
    ∧ (∀ i, i < (d1.patch r).n → (d1.append d2 off).gdof r i = d1.gdof r i)
    ∧ (∀ j, j < (d2.patch r).n → (d1.append d2 off).gdof r (j + (d1.patch r).n) = d2.gdof r j + off) := by
  refine ⟨app_np d1 d2 off hnp, app_lmap d1 d2 off h1 h2 hnp r hr, ?_,
    fun i hi => app_gdof_left d1 d2 off h1 h2 hnp r hr i hi,
    fun j hj => app_gdof_right d1 d2 off h1 h2 hnp r hr j hj⟩
  rw [app_patch d1 d2 off hnp r hr]

/-- (P3-ii, two summands) vertex DOFs + edge DOFs at once on a partitioned mesh of dimension ≥ 2: the pattern of
the all-dimensions (Q2-type) numbering (`C13.WF_of_partition_all`) -/
theorem C13.WF_of_partition_vertices_edges (m : FeatModel.Parti.Mesh) (p : FeatModel.Parti.Parti)
    (hm : m.consistent = true) (hf : m.facetsOk = true) (hp : FeatModel.Parti.isPartition p = true)
    (hd : 1 < m.dim) :
    ((decompOfPartiDim m p 0).append (decompOfPartiDim m p 1) (m.numOf 0)).WF :=
  FeatModel.C13L.WF_of_partition_01 m p hm hf hp hd

example : ((decompOfPartiDim FeatModel.Parti.exMesh FeatModel.Parti.exParti 0).append
      (decompOfPartiDim FeatModel.Parti.exMesh FeatModel.Parti.exParti 1) (FeatModel.Parti.exMesh.numOf 0)).maps
    = [[1, 2, 4, 5, 7, 9, 11, 12], [0, 1, 3, 4, 6, 8, 10, 11]] ∧ 1 < FeatModel.Parti.exMesh.dim := by decide

/-- (P3-ii) **the all-dimensions-at-once decomposition of a partitioned mesh is well-formed** (one DOF per vertex,
edge, …, cell; dimension `k` numbered behind the smaller dimensions, global offset `dimOffset m k` = number of
entities of smaller dimension; `decompOfPartiAll` is the fold of `Decomp.append` over `decompOfPartiDim m p k`,
`k = 0 … m.dim`, defined in `Lemmas/C13PartiAll3.lean`).  So every C13 theorem with a `d.WF` hypothesis holds for
Q2-type spaces on every decomposition that `extract_patch` can produce. -/
theorem C13.WF_of_partition_all (m : FeatModel.Parti.Mesh) (p : FeatModel.Parti.Parti) (hm : m.consistent = true)
    (hf : m.facetsOk = true) (hp : FeatModel.Parti.isPartition p = true) : (decompOfPartiAll m p).WF :=
  FeatModel.C13L.WF_of_partition_all m p hm hf hp

/-- the partial folds: dimensions `0 … k`, with number of patches and neighbour ranks -/
theorem C13.WF_of_partition_upTo (m : FeatModel.Parti.Mesh) (p : FeatModel.Parti.Parti) (hm : m.consistent = true)
    (hf : m.facetsOk = true) (hp : FeatModel.Parti.isPartition p = true) (k : Nat) (hk : k ≤ m.dim) :
    (decompOfPartiUpTo m p k).WF ∧ (decompOfPartiUpTo m p k).np = p.nDom
    ∧ ∀ r, r < p.nDom →
        ((decompOfPartiUpTo m p k).patch r).nbrs.map (·.1) = FeatModel.Parti.commRanks m p r :=
  ⟨(upTo_inv m p hm hf hp k hk).1, (upTo_inv m p hm hf hp k hk).2.1, (upTo_inv m p hm hf hp k hk).2.2.1⟩

/-- on C12's two-quadrilateral example: 6 vertices, 7 edges, 2 cells -> global numbers 0-5, 6-12, 13-14 -/
example : (decompOfPartiAll FeatModel.Parti.exMesh FeatModel.Parti.exParti).maps
    = [[1, 2, 4, 5, 7, 9, 11, 12, 14], [0, 1, 3, 4, 6, 8, 10, 11, 13]] := by decide
