import FeatModel.Model.Solver.Control
import FeatModel.Model.Solver.Krylov
import FeatModel.Model.Solver.RatVec
import FeatModel.Lemmas.C07Control
import FeatModel.Lemmas.C07Krylov
import FeatModel.Lemmas.C07Krylov2
import FeatModel.Model.Solver.BiCGStab
import FeatModel.Model.Solver.Session
import FeatModel.Model.Solver.Chebyshev
import FeatModel.Lemmas.C07Session
import FeatModel.Lemmas.C07Refine
import FeatModel.Lemmas.C07CG
import FeatModel.Lemmas.C07Rgcr
import FeatModel.Model.Solver.RGCR
import FeatModel.Lemmas.C07Vec
/-!
# C07 — iterative solvers report their status truthfully

Part 1: the decision logic of `IterativeSolver` (`_set_initial_defect`, `_set_new_defect`, `_update_defect`,
`_analyse_defect`) — every returned status says exactly what the configuration and the stored defects imply.
`Converged c d0 d  :=  d ≤ tolAbs ∧ (d ≤ tolRel·d0 ∨ d ≤ tolAbsLow)`,
`Diverged  c d0 d  :=  divAbs < d ∨ divRel·d0 < d`   (Lemmas/C07Control.lean).

Part 2: PCG and Richardson (the models the driver executes against the real solvers): the defect the status is judged
from is the norm of the TRUE filtered residual `F(b − A x)` of the returned iterate — for every system size, matrix,
filter mask, preconditioner function (linear or not, failing or not), configuration and start vector; the solver
loops terminate with a terminal status (fuel suffices).

Part 3: the same for PMR, PCGNR, PCR (needs the additional linearity law `LawfulLin`, because `q_k = F A p_k` is updated by
recurrence) and BiCGStab (including its half-step exits).  `C07.success_without_defect_calc_witness` exhibits the point
formerly excluded by a hypothesis `calcDef = true` (finding c07-edge:F3, fixed: `C07.stale_defect_run_reports_max_iter`).

Not proved here (observed by the correspondence run only): finite termination / convergence of the Krylov iterations on
SPD systems; floating-point drift.
-/
open FeatModel.Solver
set_option linter.unusedSectionVars false

section control
variable {α : Type} [Mul α] [LE α] [LT α] [DecidableLE α] [DecidableLT α]

/-- `_set_initial_defect` returns `aborted`, `success` or `progress`, resets the counters and stores the defect -/
theorem C07.initial_total (c : Config α) (prev : State α) (fin : Bool) (d : α) :
    ((setInitialDefect c prev fin d).1 = .aborted ∨ (setInitialDefect c prev fin d).1 = .success ∨
      (setInitialDefect c prev fin d).1 = .progress) ∧
    (setInitialDefect c prev fin d).2 =
      { defInit := d, defCur := d, defPrev := d, numIter := 0, numStag := 0, curFin := fin } := by
  have := setInitial_spec c prev fin d _ _ (Prod.mk.eta (p := setInitialDefect c prev fin d)).symm
  exact ⟨this.2.2.2.2, this.1⟩

/-- success without iterating: the initial defect is finite and below `tol_abs_low` or at most `eps²` -/
theorem C07.success_initial (c : Config α) (prev : State α) (fin : Bool) (d : α) (s : State α)
    (h : setInitialDefect c prev fin d = (.success, s)) : fin = true ∧ (d < c.tolAbsLow ∨ d ≤ c.eps2) :=
  (setInitial_spec c prev fin d _ _ h).2.2.1.1 rfl

/-- a non-finite initial defect is reported as `aborted`, and only that -/
theorem C07.aborted_initial (c : Config α) (prev : State α) (fin : Bool) (d : α) (s : State α) (st : Status)
    (h : setInitialDefect c prev fin d = (st, s)) : st = .aborted ↔ fin = false :=
  (setInitial_spec c prev fin d _ _ h).2.1

/-- `success` after `_set_new_defect`: the defect WAS computed in this step (`calcDef`; since the fix of finding
    c07-edge:F3 a converged-looking stale defect is reported as `max_iter`), it is finite and is the stored one, it
    meets the configured tolerances, is not diverged, and at least `min_iter` iterations were made -/
theorem C07.success_sound (c : Config α) (s s' : State α) (fin : Bool) (d : α)
    (h : setNewDefect c s fin d = (.success, s')) :
    s'.defCur ≤ c.tolAbs ∧ (s'.defCur ≤ c.tolRel * s'.defInit ∨ s'.defCur ≤ c.tolAbsLow) ∧
      ¬ Diverged c s'.defInit s'.defCur ∧ c.minIter ≤ s'.numIter ∧ s'.numIter = s.numIter + 1 ∧
      s'.defInit = s.defInit ∧ calcDef c (s.numIter + 1) = true ∧ s'.defCur = d ∧ fin = true := by
  have hf := setNew_frame c s s' fin d _ h
  obtain ⟨stRaw, _, _, hsu, _, _, _, hcase⟩ := setNew_spec c s s' fin d _ h
  rcases hcase with ⟨e, hc⟩ | ⟨_, e, _⟩
  · have hs := hsu.1 e.symm
    have hcd := hc rfl
    have := hf.2.2.2.1 hcd
    exact ⟨hs.2.2.2.1, hs.2.2.2.2, hs.2.1, hs.2.2.1, hf.1, hf.2.1, hcd, this.1, by rw [← this.2]; exact hs.1⟩
  · cases e

/-- the same for `_update_defect` (which always stores the given defect) -/
theorem C07.success_sound_update (c : Config α) (s s' : State α) (fin : Bool) (d : α)
    (h : updateDefect c s fin d = (.success, s')) :
    d ≤ c.tolAbs ∧ (d ≤ c.tolRel * s.defInit ∨ d ≤ c.tolAbsLow) ∧ ¬ Diverged c s.defInit d ∧
      c.minIter ≤ s.numIter + 1 ∧ fin = true ∧ s'.defCur = d := by
  have hf := update_frame c s s' fin d _ h
  unfold updateDefect at h
  have hs := (analyse_spec c _ _ _ _ h).2.2.1.1 rfl
  exact ⟨hs.2.2.2.1, hs.2.2.2.2, hs.2.1, hs.2.2.1, hs.1, hf.2.2.2.1⟩

/-- `max_iter`: the iteration limit is reached, `min_iter` too, the defect is finite and not diverged, and it is not
    converged — or it was not computed in this step (fixed iteration count with skipped defect computation), in which
    case nothing is claimed about convergence -/
theorem C07.max_iter_sound (c : Config α) (s s' : State α) (fin : Bool) (d : α)
    (h : setNewDefect c s fin d = (.maxIter, s')) :
    c.maxIter ≤ s'.numIter ∧ c.minIter ≤ s'.numIter ∧
      (¬ Converged c s'.defInit s'.defCur ∨ calcDef c (s.numIter + 1) = false) ∧
      ¬ Diverged c s'.defInit s'.defCur ∧ s'.curFin = true := by
  obtain ⟨stRaw, _, _, hsu, hm, _, _, hcase⟩ := setNew_spec c s s' fin d _ h
  rcases hcase with ⟨e, _⟩ | ⟨e, _, hcf⟩
  · have hs := hm.1 e.symm
    exact ⟨hs.2.2.2.2, hs.2.2.1, Or.inl hs.2.2.2.1, hs.2.1, hs.1⟩
  · have hs := hsu.1 e
    have := calcDef_false_iters c _ hcf
    exact ⟨by omega, hs.2.2.1, Or.inr hcf, hs.2.1, hs.1⟩

/-- a `success` verdict of `_analyse_defect` on a defect that was not computed is reported as `max_iter` -/
theorem C07.stale_success_is_max_iter (c : Config α) (s : State α) (fin : Bool) (d : α)
    (hc : calcDef c (s.numIter + 1) = false) (hraw : (setNewDefectRaw c s fin d).1 = .success) :
    (setNewDefect c s fin d).1 = .maxIter := by
  simp only [setNewDefect, hc, hraw, Bool.not_false, Bool.true_and, decide_true, ↓reduceIte]

/-- `diverged` is reported exactly when the (finite) stored defect exceeds a divergence limit — also before
    `min_iter` iterations -/
theorem C07.diverged_sound (c : Config α) (s s' : State α) (fin : Bool) (d : α) (st : Status)
    (h : setNewDefect c s fin d = (st, s')) :
    st = .diverged ↔ s'.curFin = true ∧ (c.divAbs < s'.defCur ∨ c.divRel * s'.defInit < s'.defCur) := by
  obtain ⟨stRaw, _, hd, hsu, _, _, _, hcase⟩ := setNew_spec c s s' fin d _ h
  rcases hcase with ⟨e, _⟩ | ⟨e, e2, _⟩
  · rw [e]; exact hd
  · have hs := hsu.1 e
    constructor
    · intro e3; rw [e2] at e3; cases e3
    · intro hdv; exact absurd hdv.2 hs.2.1

/-- `aborted` is reported exactly when the stored defect is not finite -/
theorem C07.aborted_sound (c : Config α) (s s' : State α) (fin : Bool) (d : α) (st : Status)
    (h : setNewDefect c s fin d = (st, s')) : st = .aborted ↔ s'.curFin = false := by
  obtain ⟨stRaw, ha, _, hsu, _, _, _, hcase⟩ := setNew_spec c s s' fin d _ h
  rcases hcase with ⟨e, _⟩ | ⟨e, e2, _⟩
  · rw [e]; exact ha
  · have hs := hsu.1 e
    constructor
    · intro e3; rw [e2] at e3; cases e3
    · intro hf; rw [hs.1] at hf; cases hf

/-- `stagnated`: stagnation control is on, this iteration stagnated (`d_k ≥ stag_rate·d_{k−1}`), the counter reached
    `min_stag_iter`, and the solver was neither converged, diverged nor at its iteration limits -/
theorem C07.stagnated_step_sound (c : Config α) (s s' : State α) (fin : Bool) (d : α)
    (h : setNewDefect c s fin d = (.stagnated, s')) :
    0 < c.minStag ∧ c.stagRate * s'.defPrev ≤ s'.defCur ∧ c.minStag ≤ s'.numStag ∧ s'.numStag = s.numStag + 1 ∧
      ¬ Converged c s'.defInit s'.defCur ∧ ¬ Diverged c s'.defInit s'.defCur ∧
      c.minIter ≤ s'.numIter ∧ s'.numIter < c.maxIter := by
  obtain ⟨stRaw, _, _, _, _, hst, _, hcase⟩ := setNew_spec c s s' fin d _ h
  rcases hcase with ⟨e, _⟩ | ⟨_, e, _⟩
  · have hs := hst e.symm
    exact ⟨hs.1, hs.2.1, hs.2.2.2.1, hs.2.2.1, hs.2.2.2.2.2.2.1, hs.2.2.2.2.2.2.2, hs.2.2.2.2.2.1, hs.2.2.2.2.1⟩
  · cases e

/-- before `min_iter` iterations the only ways out are a non-finite or diverged defect -/
theorem C07.min_iter_respected (c : Config α) (s s' : State α) (fin : Bool) (d : α) (st : Status)
    (h : setNewDefect c s fin d = (st, s')) (hmin : s'.numIter < c.minIter) :
    st = .progress ∨ st = .aborted ∨ st = .diverged := by
  obtain ⟨stRaw, _, _, hsu, hm, hst, hund, hcase⟩ := setNew_spec c s s' fin d _ h
  rcases hcase with ⟨e, _⟩ | ⟨e, _, _⟩
  · subst e
    cases st with
    | progress => exact Or.inl rfl
    | aborted => exact Or.inr (Or.inl rfl)
    | diverged => exact Or.inr (Or.inr rfl)
    | undefined => exact absurd rfl hund
    | success => have := (hsu.1 rfl).2.2.1; omega
    | maxIter => have := (hm.1 rfl).2.2.1; omega
    | stagnated => have := (hst rfl).2.2.2.2.2.1; omega
  · have := (hsu.1 e).2.2.1; omega

/-- precedence of the tests in `_analyse_defect`, exactly as coded: (1) non-finite ⇒ `aborted`; (2) diverged ⇒
    `diverged` (also before `min_iter`); (3) fewer than `min_iter` iterations ⇒ `progress` (even if converged or past
    `max_iter`: with `min_iter > max_iter` the run goes on to `min_iter`); (4) converged ⇒ `success` (also when
    `max_iter` is reached in the same step); (5) `max_iter` reached ⇒ `max_iter` (before any stagnation test);
    (6) otherwise `stagnated` iff stagnation control is on, this step stagnated and the counter reaches
    `min_stag_iter`, else `progress` -/
theorem C07.analyse_precedence (c : Config α) (s s' : State α) (chk : Bool) (st : Status)
    (h : analyseDefect c s chk = (st, s')) :
    (s.curFin = false → st = .aborted) ∧
    (s.curFin = true → Diverged c s.defInit s.defCur → st = .diverged) ∧
    (s.curFin = true → ¬ Diverged c s.defInit s.defCur → s.numIter < c.minIter → st = .progress) ∧
    (s.curFin = true → ¬ Diverged c s.defInit s.defCur → c.minIter ≤ s.numIter →
      Converged c s.defInit s.defCur → st = .success) ∧
    (s.curFin = true → ¬ Diverged c s.defInit s.defCur → c.minIter ≤ s.numIter →
      ¬ Converged c s.defInit s.defCur → c.maxIter ≤ s.numIter → st = .maxIter) ∧
    (s.curFin = true → ¬ Diverged c s.defInit s.defCur → c.minIter ≤ s.numIter →
      ¬ Converged c s.defInit s.defCur → s.numIter < c.maxIter →
      (st = .stagnated ↔ chk = true ∧ 0 < c.minStag ∧ c.stagRate * s.defPrev ≤ s.defCur ∧
        c.minStag ≤ s.numStag + 1) ∧ (st = .stagnated ∨ st = .progress)) :=
  FeatModel.Solver.analyse_precedence c s s' chk st h

/-- no control step ever returns `undefined` -/
theorem C07.status_never_undefined (c : Config α) (prev s : State α) (fin : Bool) (d : α) :
    (setNewDefect c s fin d).1 ≠ .undefined ∧ (updateDefect c s fin d).1 ≠ .undefined ∧
      (setInitialDefect c prev fin d).1 ≠ .undefined := by
  refine ⟨?_, ?_, ?_⟩
  · obtain ⟨stRaw, _, _, _, _, _, hund, hcase⟩ := setNew_spec c s _ fin d _
      (Prod.mk.eta (p := setNewDefect c s fin d)).symm
    rcases hcase with ⟨e, _⟩ | ⟨_, e, _⟩
    · rw [e]; exact hund
    · rw [e]; simp
  · have h : updateDefect c s fin d = ((updateDefect c s fin d).1, (updateDefect c s fin d).2) := rfl
    unfold updateDefect at h
    exact (analyse_spec c _ _ _ _ h).2.2.2.2.2.2
  · rcases (C07.initial_total c prev fin d).1 with e | e | e <;> rw [e] <;> simp

/-- a step that asks for another iteration has made fewer than `max(min_iter, max_iter)` iterations: every solver
    loop `while(status == progress)` terminates -/
theorem C07.progress_iter_bound (c : Config α) (s s' : State α) (fin : Bool) (d : α)
    (h : setNewDefect c s fin d = (.progress, s')) : s'.numIter < max c.minIter c.maxIter :=
  setNew_progress_bound c s s' fin d h

/-- meaning of `stagRun` (the specification of the stagnation counter): `k ≤ stagRun c tr` says that each of the
    last `k` defects of the trace `tr` (latest first) is at least `stag_rate` times its predecessor -/
theorem C07.stagRun_spec (c : Config α) (tr : List α) (k : Nat) (hk : k ≤ stagRun c tr) :
    ∀ j, j < k → ∃ d1 d0, tr[j]? = some d1 ∧ tr[j + 1]? = some d0 ∧ c.stagRate * d0 ≤ d1 := by
  induction tr generalizing k with
  | nil => intro j hj; simp [stagRun] at hk; omega
  | cons d1 rest ih =>
    cases rest with
    | nil => intro j hj; simp [stagRun] at hk; omega
    | cons d0 rest =>
      rw [stagRun_cons] at hk
      split at hk
      · rename_i hst
        intro j hj
        cases j with
        | zero => exact ⟨d1, d0, rfl, rfl, hst⟩
        | succ j =>
          have := ih (k - 1) (by omega) j (by omega)
          simpa using this
      · intro j hj; omega

/-- run level: when a complete control run (initial defect, then one step per defect while `progress`) ends with
    `stagnated`, stagnation control is on and the last `min_stag_iter` defects of the trace of `_def_cur` values all
    stagnated — for both `_set_new_defect` (`upd = false`) and `_update_defect` (`upd = true`) -/
theorem C07.stagnated_sound (c : Config α) (upd : Bool) (prev : State α) (ds : List (Bool × α)) (sts : List Status)
    (s : State α)
    (tr : List α) (h : runControl c upd prev ds = (sts, some (s, tr))) (hlast : sts.getLast? = some .stagnated) :
    0 < c.minStag ∧ c.minStag ≤ stagRun c tr ∧ tr.head? = some s.defCur := by
  cases ds with
  | nil => simp [runControl] at h
  | cons a ds =>
    obtain ⟨fin, d⟩ := a
    simp only [runControl, Prod.mk.injEq, Option.some.injEq] at h
    obtain ⟨hsts, hfin⟩ := h
    have hini := setInitial_spec c prev fin d _ _ (Prod.mk.eta (p := setInitialDefect c prev fin d)).symm
    by_cases hp : (setInitialDefect c prev fin d).1 = .progress
    · rw [hp] at hsts hfin
      have hinv0 : StagInv c (setInitialDefect c prev fin d).2 [(setInitialDefect c prev fin d).2.defCur] := by
        rw [hini.1]
        exact ⟨rfl, fun _ => rfl, Nat.zero_le _⟩
      have hrest : (feed c upd .progress (setInitialDefect c prev fin d).2 [(setInitialDefect c prev fin d).2.defCur] ds).1.getLast?
          = some .stagnated := by
        rw [← hsts] at hlast
        cases hl : (feed c upd .progress (setInitialDefect c prev fin d).2 [(setInitialDefect c prev fin d).2.defCur] ds).1 with
        | nil => rw [hl] at hlast; simp at hlast
        | cons b l => rw [hl] at hlast; simpa [List.getLast?_cons_cons] using hlast
      have hinv := feed_inv c upd ds _ _ hinv0 _ hrest (Or.inr rfl)
      rw [hfin] at hinv
      -- the last step returned `stagnated`, so the counter has reached `min_stag_iter`
      have hcnt := feed_last_stagnated c upd ds _ _ hrest
      rw [hfin] at hcnt
      exact ⟨hcnt.1, Nat.le_trans hcnt.2 hinv.2.2, hinv.1⟩
    · rw [feed_nonprogress c upd _ _ _ ds hp] at hsts
      rw [← hsts] at hlast
      simp only [List.getLast?_singleton, Option.some.injEq] at hlast
      rcases hini.2.2.2.2 with e | e | e <;> rw [e] at hlast <;> simp at hlast

end control

section solvers
variable {V α : Type} [Add α] [Mul α] [Div α] [Neg α] [Zero α] [One α] [LE α] [LT α] [DecidableEq α] [DecidableLE α]
  [DecidableLT α]

/-- the instance the driver runs against the real solvers (`Vector Rat n`, any dense matrix, any unit-filter mask, any
    mock preconditioner) satisfies the two linear-algebra laws used below, for every size `n` -/
theorem C07.ratSys_lawful {n : Nat} (A : RMat n) (mask : Vector Bool n) (pre : Option (RMat n × Nat)) :
    Lawful (ratSys A mask pre) :=
  FeatModel.Solver.ratSys_lawful A mask pre

/-- the defect norm of that instance is the shared deterministic square root `Proto.qsqrt` (= `Math::sqrt(Q)`) -/
theorem C07.norm_is_shared_sqrt {n : Nat} (v : RVec n) : vnorm v = FeatModel.Proto.qsqrt (vdot v v) :=
  qsqrtF_eq _

/-- PCG `correct()`: for EVERY preconditioner function, the run ends with a terminal status, the initial defect is the
    norm of the true filtered residual of the start vector (the start vector is honoured), and whenever iterations were
    made the status is judged from a defect that is the norm `ρ` of the TRUE filtered residual `F(b − A x)` of the
    returned iterate (`success` always rests on a computed defect): `success` ⇒ `ρ` meets the tolerances, `max_iter` ⇒
    limits reached and not converged, `diverged` ⇒ `ρ` exceeds a divergence limit, `stagnated` ⇒ stagnation facts -/
theorem C07.pcg_correct_sound (S : Sys V α) (hl : Lawful S) (c : Config α) (prev : State α) (x0 b : V) (res : Result V α)
    (h : pcgCorrect S c prev x0 b = some res) :
    res.status ≠ .undefined ∧ res.status ≠ .progress ∧ res.st.defInit = S.nrm (resid S b x0) ∧
    (res.status ≠ .aborted →
      (res.st.numIter = 0 → res.x = x0 ∧ res.status = .success ∧
        (S.nrm (resid S b x0) < c.tolAbsLow ∨ S.nrm (resid S b x0) ≤ c.eps2)) ∧
      (0 < res.st.numIter →
        (calcDef c res.st.numIter = true → res.st.defCur = S.nrm (resid S b res.x)) ∧
        (res.status = .success → calcDef c res.st.numIter = true ∧
          Converged c (S.nrm (resid S b x0)) res.st.defCur ∧
          ¬ Diverged c (S.nrm (resid S b x0)) res.st.defCur ∧ c.minIter ≤ res.st.numIter) ∧
        (res.status = .maxIter →
          (¬ Converged c (S.nrm (resid S b x0)) res.st.defCur ∨ calcDef c res.st.numIter = false) ∧
          ¬ Diverged c (S.nrm (resid S b x0)) res.st.defCur ∧ c.maxIter ≤ res.st.numIter ∧
          c.minIter ≤ res.st.numIter) ∧
        (res.status = .diverged → Diverged c (S.nrm (resid S b x0)) res.st.defCur) ∧
        (res.status = .stagnated → 0 < c.minStag ∧ c.stagRate * res.st.defPrev ≤ res.st.defCur ∧
          c.minStag ≤ res.st.numStag ∧ ¬ Converged c (S.nrm (resid S b x0)) res.st.defCur ∧
          ¬ Diverged c (S.nrm (resid S b x0)) res.st.defCur ∧ c.minIter ≤ res.st.numIter ∧
          res.st.numIter < c.maxIter))) := by
  have hs := pcgIntern_spec S hl c prev b x0 _ res rfl h
  refine solveSound_of S c b x0 _ res ⟨hs.1, hs.2.1, hs.2.2.1, ?_⟩
  rcases hs.2.2.2 with hA | hB
  · exact Or.inl hA
  · exact Or.inr fun hna => ⟨hB.1, hB.2 hna⟩

/-- the property's main clause for PCG in one line: `success` after at least one iteration ⇒ the true filtered
    residual of the returned iterate meets the configured absolute and relative tolerances -/
theorem C07.pcg_success_true_residual (S : Sys V α) (hl : Lawful S) (c : Config α) (prev : State α) (x0 b : V) (res : Result V α)
    (h : pcgCorrect S c prev x0 b = some res) (hs : res.status = .success) (hit : 0 < res.st.numIter) :
    S.nrm (resid S b res.x) ≤ c.tolAbs ∧
      (S.nrm (resid S b res.x) ≤ c.tolRel * S.nrm (resid S b x0) ∨ S.nrm (resid S b res.x) ≤ c.tolAbsLow) := by
  have := (C07.pcg_correct_sound S hl c prev x0 b res h).2.2.2 (by rw [hs]; simp)
  have h2 := this.2 hit
  have hsu := h2.2.1 hs
  rw [← h2.1 hsu.1]
  exact hsu.2.1

/-- the same, instantiated for the system the driver executes: no hypotheses left besides the run itself -/
theorem C07.pcg_rat_success_true_residual {n : Nat} (A : RMat n) (mask : Vector Bool n)
    (pre : Option (RMat n × Nat)) (c : Config Rat) (prev : State Rat) (x0 b : RVec n) (res : Result (RVec n) Rat)
    (h : pcgCorrect (ratSys A mask pre) c prev x0 b = some res) (hs : res.status = .success)
    (hit : 0 < res.st.numIter) :
    vnorm (maskF mask (vaxpy b (matVec A res.x) (-1))) ≤ c.tolAbs ∧
      (vnorm (maskF mask (vaxpy b (matVec A res.x) (-1))) ≤
          c.tolRel * vnorm (maskF mask (vaxpy b (matVec A x0) (-1))) ∨
        vnorm (maskF mask (vaxpy b (matVec A res.x) (-1))) ≤ c.tolAbsLow) :=
  C07.pcg_success_true_residual (ratSys A mask pre) (C07.ratSys_lawful A mask pre) c prev x0 b res h hs hit

/-- the systems with FEAT's own Jacobi / SOR / SSOR preconditioner (models of property C08) that the driver runs
    against the real solver + real preconditioner objects satisfy the same laws -/
theorem C07.ratSysF_lawful {n : Nat} (A : RMat n) (mask : Vector Bool n) (k : FeatPre) (w : Rat) :
    LawfulLin (ratSysF A mask k w) :=
  FeatModel.Solver.ratSysF_lawfulLin A mask k w

/-- PCG with one of FEAT's own preconditioners: `success` ⇒ the true filtered residual meets the tolerances -/
theorem C07.pcg_feat_precond_success_true_residual {n : Nat} (A : RMat n) (mask : Vector Bool n) (k : FeatPre)
    (w : Rat) (c : Config Rat) (prev : State Rat) (x0 b : RVec n) (res : Result (RVec n) Rat)
    (h : pcgCorrect (ratSysF A mask k w) c prev x0 b = some res) (hs : res.status = .success)
    (hit : 0 < res.st.numIter) :
    vnorm (maskF mask (vaxpy b (matVec A res.x) (-1))) ≤ c.tolAbs ∧
      (vnorm (maskF mask (vaxpy b (matVec A res.x) (-1))) ≤
          c.tolRel * vnorm (maskF mask (vaxpy b (matVec A x0) (-1))) ∨
        vnorm (maskF mask (vaxpy b (matVec A res.x) (-1))) ≤ c.tolAbsLow) :=
  C07.pcg_success_true_residual (ratSysF A mask k w) (C07.ratSysF_lawful A mask k w).toLawful c prev x0 b res h hs
    hit

/-- PCG `apply()` ignores any start vector (it has none in the model: the harness passes garbage) and equals
    `correct()` from the zero vector whenever the right-hand side is a filtered defect vector -/
theorem C07.pcg_apply_eq_correct_zero (S : Sys V α) (hl : Lawful S) (c : Config α) (prev : State α) (b : V) (hb : S.Fd b = b) :
    pcgApply S c prev b = pcgCorrect S c prev S.ops.zero b := by
  unfold pcgApply pcgCorrect
  rw [hl.resid_zero, hb]

/-- Richardson `correct()`: the same soundness statement; no law about the matrix, filter or preconditioner is needed,
    because the defect is recomputed from the iterate in every iteration -/
theorem C07.rich_correct_sound (S : Sys V α) (c : Config α) (prev : State α) (omega : α) (x0 b : V) (res : Result V α)
    (h : richCorrect S c prev omega x0 b = some res) :
    SolveSound c x0 (S.nrm (resid S b x0)) (S.nrm (resid S b res.x)) res := by
  have hs := richIntern_spec S c prev omega b x0 _ res h
  exact solveSound_of S c b x0 _ res hs

/-- Richardson `success` after at least one iteration ⇒ the true filtered residual meets the tolerances -/
theorem C07.rich_success_true_residual (S : Sys V α) (c : Config α) (prev : State α) (omega : α) (x0 b : V) (res : Result V α)
    (h : richCorrect S c prev omega x0 b = some res) (hs : res.status = .success) (hit : 0 < res.st.numIter) :
    S.nrm (resid S b res.x) ≤ c.tolAbs ∧
      (S.nrm (resid S b res.x) ≤ c.tolRel * S.nrm (resid S b x0) ∨ S.nrm (resid S b res.x) ≤ c.tolAbsLow) := by
  have := (C07.rich_correct_sound S c prev omega x0 b res h).2.2.2 (by rw [hs]; simp)
  have h2 := this.2 hit
  have hsu := h2.2.1 hs
  rw [← h2.1 hsu.1]
  exact hsu.2.1

/-- Richardson `apply()`: initial defect is `‖b‖` (no start vector), later defects are true residuals -/
theorem C07.rich_apply_sound (S : Sys V α) (c : Config α) (prev : State α) (omega : α) (b : V) (res : Result V α)
    (h : richApply S c prev omega b = some res) :
    SolveSound c S.ops.zero (S.nrm b) (S.nrm (resid S b res.x)) res := by
  have hs := richIntern_spec S c prev omega b _ _ res h
  exact solveSound_of S c b _ _ res hs

/-- PCG `apply()` on a filtered right-hand side: the soundness statement with initial defect `‖b‖` -/
theorem C07.pcg_apply_sound (S : Sys V α) (hl : Lawful S) (c : Config α) (prev : State α) (b : V) (hb : S.Fd b = b)
    (res : Result V α) (h : pcgApply S c prev b = some res) :
    SolveSound c S.ops.zero (S.nrm b) (S.nrm (resid S b res.x)) res := by
  have hr : b = resid S b S.ops.zero := by rw [hl.resid_zero, hb]
  have hs := pcgIntern_spec S hl c prev b S.ops.zero b res hr h
  refine solveSound_of S c b _ _ res ⟨hs.1, hs.2.1, hs.2.2.1, ?_⟩
  rcases hs.2.2.2 with hA | hB
  · exact Or.inl hA
  · exact Or.inr fun hna => ⟨hB.1, hB.2 hna⟩

/-- the driver's instance also satisfies the linearity law PCR needs, for every size -/
theorem C07.ratSys_lawfulLin {n : Nat} (A : RMat n) (mask : Vector Bool n) (pre : Option (RMat n × Nat)) :
    LawfulLin (ratSys A mask pre) :=
  FeatModel.Solver.ratSys_lawfulLin A mask pre

/-- PCR `correct()`: recurrence residual = true filtered residual in every iteration, for every preconditioner
    function; same soundness statement as PCG (`SolveSound`, spelled out in `C07.pcg_correct_sound`) -/
theorem C07.pcr_correct_sound (S : Sys V α) (hl : LawfulLin S) (c : Config α) (prev : State α) (x0 b : V) (res : Result V α)
    (h : pcrCorrect S c prev x0 b = some res) :
    SolveSound c x0 (S.nrm (resid S b x0)) (S.nrm (resid S b res.x)) res :=
  solveSound_of S c b x0 _ res (pcrIntern_spec S hl c prev b x0 _ res rfl h)

/-- PCR `apply()` on a filtered right-hand side -/
theorem C07.pcr_apply_sound (S : Sys V α) (hl : LawfulLin S) (c : Config α) (prev : State α) (b : V) (hb : S.Fd b = b)
    (res : Result V α) (h : pcrApply S c prev b = some res) :
    SolveSound c S.ops.zero (S.nrm b) (S.nrm (resid S b res.x)) res := by
  have hr : b = resid S b S.ops.zero := by rw [hl.toLawful.resid_zero, hb]
  exact solveSound_of S c b _ _ res (pcrIntern_spec S hl c prev b S.ops.zero b res hr h)

/-- PCR `success` after at least one iteration ⇒ the true filtered residual meets the tolerances -/
theorem C07.pcr_success_true_residual (S : Sys V α) (hl : LawfulLin S) (c : Config α) (prev : State α) (x0 b : V)
    (res : Result V α) (h : pcrCorrect S c prev x0 b = some res) (hs : res.status = .success)
    (hit : 0 < res.st.numIter) :
    S.nrm (resid S b res.x) ≤ c.tolAbs ∧
      (S.nrm (resid S b res.x) ≤ c.tolRel * S.nrm (resid S b x0) ∨ S.nrm (resid S b res.x) ≤ c.tolAbsLow) := by
  have := (C07.pcr_correct_sound S hl c prev x0 b res h).2.2.2 (by rw [hs]; simp)
  have h2 := this.2 hit
  have hsu := h2.2.1 hs
  rw [← h2.1 hsu.1]
  exact hsu.2.1

/-- PMR `correct()` / `apply()`: recurrence residual = true filtered residual in every iteration, for every
    preconditioner function (statement `SolveSound`, spelled out in `C07.pcg_correct_sound`) -/
theorem C07.pmr_correct_sound (S : Sys V α) (hl : Lawful S) (c : Config α) (prev : State α) (x0 b : V) (res : Result V α)
    (h : pmrCorrect S c prev x0 b = some res) :
    SolveSound c x0 (S.nrm (resid S b x0)) (S.nrm (resid S b res.x)) res :=
  solveSound_of S c b x0 _ res (pmrIntern_spec S hl c prev b x0 _ res rfl h)

theorem C07.pmr_apply_sound (S : Sys V α) (hl : Lawful S) (c : Config α) (prev : State α) (b : V) (hb : S.Fd b = b)
    (res : Result V α) (h : pmrApply S c prev b = some res) :
    SolveSound c S.ops.zero (S.nrm b) (S.nrm (resid S b res.x)) res := by
  have hr : b = resid S b S.ops.zero := by rw [hl.resid_zero, hb]
  exact solveSound_of S c b _ _ res (pmrIntern_spec S hl c prev b S.ops.zero b res hr h)

/-- PMR `success` after at least one iteration ⇒ the true filtered residual meets the tolerances -/
theorem C07.pmr_success_true_residual (S : Sys V α) (hl : Lawful S) (c : Config α) (prev : State α) (x0 b : V)
    (res : Result V α) (h : pmrCorrect S c prev x0 b = some res) (hs : res.status = .success)
    (hit : 0 < res.st.numIter) :
    S.nrm (resid S b res.x) ≤ c.tolAbs ∧
      (S.nrm (resid S b res.x) ≤ c.tolRel * S.nrm (resid S b x0) ∨ S.nrm (resid S b res.x) ≤ c.tolAbsLow) := by
  have := (C07.pmr_correct_sound S hl c prev x0 b res h).2.2.2 (by rw [hs]; simp)
  have h2 := this.2 hit
  have hsu := h2.2.1 hs
  rw [← h2.1 hsu.1]
  exact hsu.2.1

/-- PCGNR `correct()` (CG on the normal equations; one function `prec` serves as left and right preconditioner call
    sequence): recurrence residual = true filtered residual in every iteration, for every preconditioner function and
    every "transposed" operator `At` (the identity does not even use `At = Aᵀ`) -/
theorem C07.pcgnr_correct_sound (S : Sys V α) (hl : Lawful S) (c : Config α) (prev : State α) (x0 b : V)
    (res : Result V α) (h : pcgnrCorrect S c prev x0 b = some res) :
    SolveSound c x0 (S.nrm (resid S b x0)) (S.nrm (resid S b res.x)) res :=
  solveSound_of S c b x0 _ res (pcgnrIntern_spec S hl c prev b x0 _ res rfl h)

/-- PCGNR `success` after at least one iteration ⇒ the true filtered residual meets the tolerances -/
theorem C07.pcgnr_success_true_residual (S : Sys V α) (hl : Lawful S) (c : Config α) (prev : State α) (x0 b : V)
    (res : Result V α) (h : pcgnrCorrect S c prev x0 b = some res) (hs : res.status = .success)
    (hit : 0 < res.st.numIter) :
    S.nrm (resid S b res.x) ≤ c.tolAbs ∧
      (S.nrm (resid S b res.x) ≤ c.tolRel * S.nrm (resid S b x0) ∨ S.nrm (resid S b res.x) ≤ c.tolAbsLow) := by
  have := (C07.pcgnr_correct_sound S hl c prev x0 b res h).2.2.2 (by rw [hs]; simp)
  have h2 := this.2 hit
  have hsu := h2.2.1 hs
  rw [← h2.1 hsu.1]
  exact hsu.2.1

/-- BiCGStab `correct()` (left-preconditioned), for every preconditioner function and whatever control state `st0`
    the previous solve left: terminal status; the initial defect is always `‖F(b − A x0)‖` (also when the
    preconditioner fails on it: fix of finding c07-edge:F6); unless the preconditioner failed, a run without iterations is a `success` of the initial check on the untouched start vector, and a run with
    iterations ended either in the half-step test — the stored defect is the true residual norm of the returned
    iterate and meets the tolerances (`success`) / exceeds a divergence limit (`diverged`) — or in `_set_new_defect`
    applied to the true residual norm of the returned iterate (`FinalStep`, read off by `finalStep_facts`) -/
theorem C07.bicg_correct_sound (S : Sys V α) (hl : Lawful S) (c : Config α) (st0 : State α) (x0 b : V)
    (res : Result V α) (h : bicgCorrect S c st0 x0 b = some res) :
    res.status ≠ .undefined ∧ res.status ≠ .progress ∧ res.st.defInit = S.nrm (resid S b x0) ∧
      (res.status ≠ .aborted →
        ((res.st.numIter = 0 ∧ res.x = x0 ∧ res.st.defCur = S.nrm (resid S b x0) ∧ res.status = .success ∧
            (S.nrm (resid S b x0) < c.tolAbsLow ∨ S.nrm (resid S b x0) ≤ c.eps2)) ∨
         (0 < res.st.numIter ∧
            ((res.st.defCur = S.nrm (resid S b res.x) ∧
                ((res.status = .success ∧ Converged c res.st.defInit res.st.defCur ∧
                    ¬ Diverged c res.st.defInit res.st.defCur ∧ c.minIter ≤ res.st.numIter) ∨
                 (res.status = .diverged ∧ Diverged c res.st.defInit res.st.defCur))) ∨
             FinalStep S c b res)))) :=
  bicgIntern_spec S hl c st0 b x0 _ res rfl h

/-- BiCGStab `success` after at least one iteration ⇒ the true filtered residual of the returned iterate meets the
    tolerances (half-step exits included; no hypothesis about the defect computation: a `success` always rests on a
    computed defect) -/
theorem C07.bicg_success_true_residual (S : Sys V α) (hl : Lawful S) (c : Config α) (st0 : State α) (x0 b : V)
    (res : Result V α) (h : bicgCorrect S c st0 x0 b = some res) (hs : res.status = .success)
    (hit : 0 < res.st.numIter) :
    S.nrm (resid S b res.x) ≤ c.tolAbs ∧
      (S.nrm (resid S b res.x) ≤ c.tolRel * S.nrm (resid S b x0) ∨ S.nrm (resid S b res.x) ≤ c.tolAbsLow) := by
  have hsd := C07.bicg_correct_sound S hl c st0 x0 b res h
  have hd0 := hsd.2.2.1
  have hcase := hsd.2.2.2 (by rw [hs]; simp)
  rcases hcase with ⟨hz, _⟩ | ⟨_, hhalf | hfin⟩
  · omega
  · obtain ⟨hcur, hst⟩ := hhalf
    rcases hst with ⟨_, hconv, _, _⟩ | ⟨hdv, _⟩
    · rw [← hcur, ← hd0]; exact hconv
    · rw [hs] at hdv; cases hdv
  · have hf := finalStep_facts S c b res hfin
    have hsu := hf.2.1 hs
    rw [← hf.1 hsu.1, ← hd0]
    exact hsu.2.1

/-- BiCGStab honours `min_iter` on every `success` return that made iterations — full steps (through
    `_analyse_defect`) and, since the fix of finding c07-edge:F2, half-step exits as well -/
theorem C07.bicg_success_min_iter (S : Sys V α) (hl : Lawful S) (c : Config α) (st0 : State α) (x0 b : V)
    (res : Result V α) (h : bicgCorrect S c st0 x0 b = some res) (hs : res.status = .success)
    (hit : 0 < res.st.numIter) : c.minIter ≤ res.st.numIter := by
  have hcase := (C07.bicg_correct_sound S hl c st0 x0 b res h).2.2.2 (by rw [hs]; simp)
  rcases hcase with ⟨hz, _⟩ | ⟨_, hhalf | hfin⟩
  · omega
  · rcases hhalf.2 with ⟨_, _, _, hmin⟩ | ⟨hdv, _⟩
    · exact hmin
    · rw [hs] at hdv; cases hdv
  · exact ((finalStep_facts S c b res hfin).2.1 hs).2.2.2

/-- BiCGStab `apply()` = `correct()` from the zero vector on a filtered right-hand side -/
theorem C07.bicg_apply_eq_correct_zero (S : Sys V α) (hl : Lawful S) (c : Config α) (st0 : State α) (b : V)
    (hb : S.Fd b = b) : bicgApply S c st0 b = bicgCorrect S c st0 S.ops.zero b := by
  unfold bicgApply bicgCorrect
  rw [hl.resid_zero, hb]

/-- at every return point of BiCGStab that is not a preconditioner failure, the stored defect `_def_cur` is the norm of
    the true filtered residual of the RETURNED iterate: for half-step exits unconditionally (the iterate is updated
    before the test), for full steps whenever the defect was computed -/
theorem C07.bicg_returned_defect (S : Sys V α) (hl : Lawful S) (c : Config α) (st0 : State α) (x0 b : V)
    (res : Result V α) (h : bicgCorrect S c st0 x0 b = some res) (hna : res.status ≠ .aborted)
    (hc : res.st.numIter = 0 ∨ calcDef c res.st.numIter = true) :
    res.st.defCur = S.nrm (resid S b res.x) := by
  have hcase := (C07.bicg_correct_sound S hl c st0 x0 b res h).2.2.2 hna
  rcases hcase with ⟨_, hx, hcur, _⟩ | ⟨hpos, hhalf | hfin⟩
  · rw [hx]; exact hcur
  · exact hhalf.1
  · rcases hc with hc | hc
    · omega
    · exact (finalStep_facts S c b res hfin).1 hc

end solvers

section sessions
variable {V α : Type} [Add α] [Mul α] [Div α] [Neg α] [Zero α] [One α] [LE α] [LT α] [DecidableEq α] [DecidableLE α]
  [DecidableLT α]

/-- `_set_initial_defect` overwrites every convergence-control member (`_def_init/_def_cur/_def_prev/_num_iter/
    _num_stag_iter`): its result does not depend on the state the previous solve left -/
theorem C07.initial_defect_resets_state (c : Config α) (prev1 prev2 : State α) (fin : Bool) (d : α) :
    setInitialDefect c prev1 fin d = setInitialDefect c prev2 fin d :=
  setInitial_indep c prev1 prev2 fin d

/-- every solver kind (PCG, Richardson, PCR, PMR, PCGNR, BiCGStab, Chebyshev): the complete outcome of one `apply()`/`correct()`
    (status, iterate, counters, defects, defect history) is the same for ANY two control states of the solver object —
    whatever status, iteration count, stagnation count and defects the previous solve ended with -/
theorem C07.solve_independent_of_history (k : Kind) (S : Sys V α) (c : Config α) (omega : α)
    (prev1 prev2 : State α) (isApply : Bool) (x0 b : V) :
    solveOne k S c omega prev1 isApply x0 b = solveOne k S c omega prev2 isApply x0 b :=
  solveOne_indep k S c omega prev1 prev2 isApply x0 b

/-- session level ("repeating a solve on the same solver object gives the same result"): a session on ONE persistent
    solver object (the function the driver executes against one real solver object) equals running every solve on a
    brand-new object, for every solver kind, every sequence of solves and every initial state -/
theorem C07.session_independent (k : Kind) (S : Sys V α) (c : Config α) (omega : α)
    (prev st : State α) (l : List (Bool × V × V)) :
    runSession k S c omega prev l = independentSession k S c omega st l :=
  runSession_indep k S c omega st l prev

/-- the same with `done_numeric()/init_numeric()` and full `done()/init()` (done_symbolic + init_symbolic) calls
    anywhere between the solves (the step list the driver executes against the real object, which really performs
    these calls): the outcome of every solve equals that of a brand-new object, for every solver kind of the model -/
theorem C07.session_independent_with_reinit (k : Kind) (S : Sys V α) (c : Config α) (omega : α)
    (prev st : State α) (l : List (SessionStep V)) :
    runSteps k S c omega prev l = independentSession k S c omega st (solvesOf l) :=
  runSteps_indep k S c omega st l prev

/-- BiCGStab sessions in particular (full strength since the fix of finding c07-edge:F6: no hypothesis about the
    preconditioner) -/
theorem C07.bicg_session_independent (S : Sys V α) (c : Config α) (omega : α) (prev st : State α)
    (l : List (Bool × V × V)) :
    runSession .bicgstab S c omega prev l = independentSession .bicgstab S c omega st l :=
  C07.session_independent .bicgstab S c omega prev st l

/-- every solver kind that goes through the base class (PCG, Richardson, PCR, PMR, PCGNR, BiCGStab, Chebyshev): a solve that does
    not end with a component (preconditioner) failure IS a control run — `_set_initial_defect` followed by
    `_set_new_defect` on the defect norms the solver computed, starting from the persistent state `prev` — or, for
    BiCGStab only, ends in the direct half-step test.  No linear-algebra law is needed; termination (fuel) is part
    of the statement. -/
theorem C07.solver_run_is_control_run (k : Kind) (S : Sys V α) (c : Config α) (omega : α) (prev : State α)
    (isApply : Bool) (x0 b : V) (res : Result V α) (h : solveOne k S c omega prev isApply x0 b = some res)
    (hna : res.status ≠ .aborted) :
    (∃ (ds : List (Bool × α)) (sts : List Status) (tr : List α),
        runControl c false prev ds = (sts, some (res.st, tr)) ∧ sts.getLast? = some res.status) ∨
      (k = .bicgstab ∧ HalfCtl c res) :=
  solveOne_isRun k S c omega prev isApply x0 b res h hna

/-- THE STOPPING LOGIC, for every solver kind, every configuration (binding `tol_abs`, `tol_abs_low` escape,
    `min_iter > max_iter`, …) and every input: whatever a solve returns (other than a preconditioner failure),
    * it is never `undefined`;
    * `success` ⇒ either no iteration was made and the initial defect is `< tol_abs_low` or `≤ eps²`, or
      `def_cur ≤ tol_abs ∧ (def_cur ≤ tol_rel·def_init ∨ def_cur ≤ tol_abs_low)`, not diverged, `num_iter ≥ min_iter`;
    * `max_iter` ⇒ `num_iter = max(1, min_iter, max_iter)` (= `max_iter` in the usual case `1 ≤ max_iter ≥ min_iter`),
      not converged, not diverged;
    * `diverged` ⇒ `def_cur > div_abs ∨ def_cur > div_rel·def_init`;
    * `aborted` (as a control outcome) ⇒ the stored defect is not finite;
    * `stagnated` ⇒ stagnation control on, counter ≥ `min_stag_iter`, last step stagnated, neither converged nor
      diverged, `min_iter ≤ num_iter < max_iter` (trace version: `C07.solver_stagnated_trace`). -/
theorem C07.solver_stopping_logic (k : Kind) (S : Sys V α) (c : Config α) (omega : α) (prev : State α)
    (isApply : Bool) (x0 b : V) (res : Result V α) (h : solveOne k S c omega prev isApply x0 b = some res)
    (hna : res.status ≠ .aborted) :
    res.status ≠ .undefined ∧
    (res.status = .success →
      (res.st.numIter = 0 ∧ res.st.defCur = res.st.defInit ∧
        (res.st.defInit < c.tolAbsLow ∨ res.st.defInit ≤ c.eps2)) ∨
      (0 < res.st.numIter ∧ res.st.defCur ≤ c.tolAbs ∧
        (res.st.defCur ≤ c.tolRel * res.st.defInit ∨ res.st.defCur ≤ c.tolAbsLow) ∧
        ¬ Diverged c res.st.defInit res.st.defCur ∧ c.minIter ≤ res.st.numIter)) ∧
    (res.status = .maxIter → res.st.numIter = max 1 (max c.minIter c.maxIter) ∧
      (¬ Converged c res.st.defInit res.st.defCur ∨ calcDef c res.st.numIter = false) ∧
      ¬ Diverged c res.st.defInit res.st.defCur) ∧
    (res.status = .diverged → 0 < res.st.numIter ∧
      (c.divAbs < res.st.defCur ∨ c.divRel * res.st.defInit < res.st.defCur)) ∧
    (res.status = .aborted → res.st.curFin = false) ∧
    (res.status = .stagnated → 0 < c.minStag ∧ c.minStag ≤ res.st.numStag ∧
      c.stagRate * res.st.defPrev ≤ res.st.defCur ∧ ¬ Converged c res.st.defInit res.st.defCur ∧
      ¬ Diverged c res.st.defInit res.st.defCur ∧ c.minIter ≤ res.st.numIter ∧ res.st.numIter < c.maxIter) := by
  rcases solveOne_isRun k S c omega prev isApply x0 b res h hna with hr | ⟨_, hh⟩
  · exact isRun_facts c prev res.st res.status hr
  · exact halfCtl_facts c res hh

/-- `stagnated`, trace version, for every solver kind: the solve is a control run whose trace of stored defects
    (latest first) starts with `def_cur` and whose last `min_stag_iter` entries each are `≥ stag_rate ×` their
    predecessor (`C07.stagRun_spec`) -/
theorem C07.solver_stagnated_trace (k : Kind) (S : Sys V α) (c : Config α) (omega : α) (prev : State α)
    (isApply : Bool) (x0 b : V) (res : Result V α) (h : solveOne k S c omega prev isApply x0 b = some res)
    (hs : res.status = .stagnated) :
    ∃ tr : List α, tr.head? = some res.st.defCur ∧ 0 < c.minStag ∧ c.minStag ≤ stagRun c tr := by
  rcases solveOne_isRun k S c omega prev isApply x0 b res h (by rw [hs]; simp) with
    ⟨ds, sts, tr, hrun, hlast⟩ | ⟨_, _, hh⟩
  · rw [hs] at hlast
    have := C07.stagnated_sound c false prev ds sts res.st tr hrun hlast
    exact ⟨tr, this.2.2, this.1, this.2.1⟩
  · rcases hh with ⟨e, _⟩ | ⟨e, _⟩ <;> rw [hs] at e <;> cases e

/-- Chebyshev (for any eigenvalue bounds, any start vector of the power method): the defect is recomputed from the
    iterate in every step, so the status is judged from the true filtered residual of the returned iterate — the
    soundness statement `SolveSound` (spelled out in `C07.pcg_correct_sound`), no law needed -/
theorem C07.cheb_correct_sound (S : Sys V α) (c : Config α) (prev : State α) (minEv maxEv : α) (x0 b : V)
    (res : Result V α) (h : chebIntern S c prev minEv maxEv b x0 (resid S b x0) = some res) :
    SolveSound c x0 (S.nrm (resid S b x0)) (S.nrm (resid S b res.x)) res :=
  solveSound_of S c b x0 _ res (chebIntern_spec S c prev minEv maxEv b x0 _ res h)

/-- the systems the driver executes satisfy the linearity laws RGCR needs (`F A` commutes with `axpy` and `scale`) -/
theorem C07.ratSys_lawfulRgcr {n : Nat} (A : RMat n) (mask : Vector Bool n) (pre : Option (RMat n × Nat)) :
    LawfulRgcr (ratSys A mask pre) :=
  FeatModel.Solver.ratSys_lawfulRgcr A mask pre

/-- RGCR (recycling GCR), one `apply()` (filtered right-hand side) or `correct()` on an object whose recycled
    direction pairs satisfy the invariant `q_j = F A p_j` (`DirsOK`): (1) the pairs the solve leaves behind (new pairs
    orthogonalised and normalised, then cut to a quarter) satisfy the invariant again, and (2) the recursively updated
    defect is the true filtered residual of the returned iterate, so the status is sound (`SolveSound`, spelled out in
    `C07.pcg_correct_sound`).  The invariant is exactly what a `done_symbolic()` that releases only one of the two
    lists would destroy. -/
theorem C07.rgcr_solve_sound (S : Sys V α) (hl : LawfulRgcr S) (c : Config α) (prev : State α)
    (dirs dirs' : List (V × V)) (isApply : Bool) (x0 b : V) (res : Result V α) (hok : DirsOK S dirs)
    (hb : isApply = true → S.Fd b = b) (h : rgcrSolve S c prev dirs isApply x0 b = some (res, dirs')) :
    DirsOK S dirs' ∧
      SolveSound c (if isApply then S.ops.zero else x0) (S.nrm (if isApply then b else resid S b x0))
        (S.nrm (resid S b res.x)) res :=
  rgcrSolve_spec S hl c prev dirs dirs' isApply x0 b res hok hb h

/-- after `done_numeric(); init_numeric()` — the only way new matrix values can enter — both direction lists are empty
    (fix of finding c07-edge:F9), so the invariant holds trivially for the NEW system -/
theorem C07.rgcr_invariant_after_reinit (S' : Sys V α) (dirs : List (V × V)) (re : Nat) (hre : re ≠ 0) :
    DirsOK S' (if re = 0 then dirs else []) := by
  rw [if_neg hre]; intro e he; simp at he

/-- RGCR sessions WITH changes of the system (matrix values, filter, preconditioner) between the solves: if a step
    without re-initialisation keeps the system of the previous step (`StepsOK`), then EVERY solve of the session is
    sound with respect to its own system — `success ⇒` the true residual (with the new matrix) meets the tolerances —
    whatever was recycled before.  The driver's `rgcrSession` is the special case of one fixed system. -/
theorem C07.rgcr_session_sound (c : Config α) (steps : List (Sys V α × Nat × Bool × V × V)) (prevS : Sys V α)
    (prev : State α) (dirs : List (V × V)) (rs : List (Result V α)) (hok : DirsOK prevS dirs)
    (hsteps : StepsOK prevS steps) (h : rgcrSessionSys c prev dirs steps = some rs) :
    SessionSound c steps rs :=
  rgcrSessionSys_sound c steps prevS prev dirs rs hok hsteps h

/-- a brand-new RGCR object, or one after `done_numeric()` (both lists empty), satisfies the invariant -/
theorem C07.rgcr_fresh_invariant (S : Sys V α) : DirsOK S [] := fun e he => by simp at he

end sessions

/-- the former point of finding c07-edge:F3 (fixed in /repo 8aa081eb5), by evaluation: Richardson on the 1×1 system
    `x = 1` with damping 3 (the error doubles per step), `witnessCfg`: `min_iter = max_iter = 2`, `tol_rel = 1` and the
    default `skip_defect_calc`: the defect is never recomputed (`calcDef = false`, stored defect 1, true residual norm
    of the returned iterate `x = −3` is 4 > tol_rel·def_init = 1) — and the run now returns `max_iter`, not `success` -/
theorem C07.stale_defect_run_reports_max_iter :
    (richApply (ratSys (n := 1) #v[#v[1]] #v[false] none) witnessCfg freshState 3 #v[1]).map
      (fun r => (r.status, r.st.numIter, r.x.toList, r.st.defCur,
        vnorm (maskF #v[false] (vaxpy #v[1] (matVec #v[#v[1]] r.x) (-1))), calcDef witnessCfg r.st.numIter))
      = some (.maxIter, 2, [-3], 1, 4, false) ∧
    witnessCfg.tolRel = 1 ∧ witnessCfg.minIter = 2 ∧ witnessCfg.maxIter = 2 ∧ witnessCfg.skipDefCalc = true := by
  decide +kernel

/-- FULL STATEMENT of the convergence clause for CG in exact arithmetic (not proved): for a symmetric positive definite
    rational matrix, plain CG with `tol_rel = 0`, no iteration limits in the way, returns `success` with an exactly
    zero residual after at most `n` iterations.
    What is proved is `C07.cg_termination_partial` below: the classical induction (mutually orthogonal residuals,
    mutually A-conjugate search directions, non-zero step lengths) for every iteration of the PCG model.  What is
    missing is the final counting step: `n + 1` non-zero mutually A-conjugate vectors cannot exist in `ℚⁿ` when
    `xᵀAx > 0` (linear independence / `finrank`, Mathlib.LinearAlgebra) — observed by the correspondence run
    (exact termination within `n_free` iterations is asserted for every in-scope SPD case). -/
def C07.CgTerminationStatement : Prop :=
  ∀ (n : Nat) (A : RMat n), (∀ i j : Fin n, A[i][j] = A[j][i]) →
    (∀ x : RVec n, x ≠ vzero n → 0 < vdot x (matVec A x)) →
    ∀ (c : Config Rat) (prev : State Rat) (x0 b : RVec n) (res : Result (RVec n) Rat),
      c.tolRel = 0 → c.tolAbsLow = 0 → c.minIter = 0 → c.minStag = 0 → n ≤ c.maxIter → 0 ≤ c.tolAbs →
      (∀ d : Rat, ¬ (c.divAbs < d ∨ c.divRel * vnorm (maskF (Vector.ofFn fun _ => false) (vaxpy b (matVec A x0) (-1))) < d)) →
      pcgCorrect (ratSys A (Vector.ofFn fun _ => false) none) c prev x0 b = some res →
      res.status = .success ∧ res.st.numIter ≤ n ∧ matVec A res.x = b

/-- the classical CG induction on the PCG model, for any system satisfying `CgLaws` (symmetric `dot`, bilinear over
    `axpy`/`scale`, `A` and the preconditioner `M` self-adjoint, no filter, the preconditioner never fails): after
    `num_iter` iterations there is a history of the `num_iter − 1` completed iterations (newest first) in which
    * every step length is non-zero and links consecutive residuals, `r_next = r − α A p`, `z = M r`;
    * residuals are mutually M-orthogonal: `<r_i, z_j> = 0` and directions mutually A-conjugate: `<p_i, A p_j> = 0`
      for all `i ≠ j` in the history (pairwise, newer against older);
    * the residual `rf` and direction `pf` of the last iteration are orthogonal / conjugate to ALL of them.
    Neither linearity of `A` nor of `M` is used.  (`_partial`: see `C07.CgTerminationStatement`.) -/
theorem C07.cg_termination_partial {V : Type} (S : Sys V Rat) (M : V → V) (hl : CgLaws S M) (c : Config Rat)
    (prev : State Rat) (x0 b : V) (res : Result V Rat) (h : pcgCorrect S c prev x0 b = some res)
    (hpos : 0 < res.st.numIter) :
    ∃ (rf pf : V) (H : List (CgEntry V)), H.length + 1 = res.st.numIter ∧
      H.Pairwise (fun e1 e2 => S.ops.dot e1.r e2.z = 0 ∧ S.ops.dot e1.p (S.A e2.p) = 0) ∧
      (∀ e ∈ H, e.alpha ≠ 0 ∧ e.z = M e.r) ∧
      (∀ e ∈ H, S.ops.dot rf e.z = 0 ∧ S.ops.dot rf e.p = 0 ∧ S.ops.dot pf (S.A e.p) = 0) ∧
      S.ops.dot rf pf = S.ops.dot rf (M rf) := by
  obtain ⟨rf, pf, zf, gf, H, hinv, hlen⟩ := pcgIntern_cg S M hl c prev x0 _ res h hpos
  obtain ⟨hg, hrp, hz, _, horth, hch⟩ := hinv
  exact ⟨rf, pf, H, hlen, chain_pairwise S M H rf hch, chain_entries S M H rf hch, horth, by rw [hrp, hg, hz]⟩

/-- the same for the system the driver executes: plain CG on any symmetric rational matrix of any size -/
theorem C07.cg_rat_orthogonality {n : Nat} (A : RMat n) (hs : ∀ i j : Fin n, A[i][j] = A[j][i]) (c : Config Rat)
    (prev : State Rat) (x0 b : RVec n) (res : Result (RVec n) Rat)
    (h : pcgCorrect (ratSys A (Vector.ofFn fun _ => false) none) c prev x0 b = some res)
    (hpos : 0 < res.st.numIter) :
    ∃ (rf pf : RVec n) (H : List (CgEntry (RVec n))), H.length + 1 = res.st.numIter ∧
      H.Pairwise (fun e1 e2 => vdot e1.r e2.z = 0 ∧ vdot e1.p (matVec A e2.p) = 0) ∧
      (∀ e ∈ H, e.alpha ≠ 0 ∧ e.z = e.r) ∧
      (∀ e ∈ H, vdot rf e.z = 0 ∧ vdot rf e.p = 0 ∧ vdot pf (matVec A e.p) = 0) ∧
      vdot rf pf = vdot rf rf :=
  C07.cg_termination_partial _ (fun v => v) (ratSys_cgLaws A hs) c prev x0 b res h hpos
