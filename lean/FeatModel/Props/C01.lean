import FeatModel.Lemmas.C01Csr
import FeatModel.Lemmas.C01Dense
import FeatModel.Lemmas.C01Banded
import FeatModel.Lemmas.C01Cscr
import FeatModel.Lemmas.C01Bcsr
import FeatModel.Lemmas.C01Sizes
import FeatModel.Lemmas.C01Meta
import FeatModel.Lemmas.C01Round
import FeatModel.Lemmas.C01MetaVec
import FeatModel.Lemmas.C01Index32
import FeatModel.Model.LA.Cscr
import Mathlib.Algebra.Order.Field.Rat
import Mathlib.Algebra.Order.Ring.Abs
import Mathlib.Algebra.Order.BigOperators.Group.Finset
import Mathlib.Tactic.NormNum
/-!
# C01 — matrix–vector products equal the mathematical product (property theorems)

All statements are about the model functions that `drv_c01` executes (`FeatModel.LA.Csr.kernel`, `Csr.apply`,
`Csr.applyAxpy`, …); the correspondence run ties those to `Arch::Apply::*_generic` and the container members.
The dense meaning of a container is `entry i j` (sum of the stored values at `(i, j)`); `tiny` is the model of
`Math::abs(·) < Math::eps<DT_>()`.

## What is modelled as unbounded, and what ties it to the C++ types

* `Index` (`std::uint64_t`) and the index type `IT_` (`std::uint32_t` / `std::uint64_t`) of `row_ptr`, `col_ind`,
  `row_numbers`, `offsets` and of the row-loop variable are modelled by unbounded `Nat`; array positions such as
  `a*rows + l`, `i*bh*bw + h*bw + w`, `row*columns + col`, `l + offsets[a] + 1 - rows` are `Nat` expressions (truncated
  subtraction where the C++ relies on the preceding guard); the `Index(-1)` sentinel of `start_offset`/`end_offset` is an
  `Option`.  The block sizes `BlockHeight_/BlockWidth_` (`int` template parameters, `Tiny` loops over `int`) are `Nat`.
* The scalars are exact rationals (`Q` in the harness); floating point enters only through `FlModel` (tier B) and the
  `f64-nan-prefill` and `f32-nan-prefill` streams.
* There is no narrow integer type, fixed scratch buffer, unrolling remainder, tiling factor or size threshold in the
  `Apply` kernels and the `apply` members (the only size-dependent path, `FEAT_UNROLL_BANDED` for 3/5/9/25 bands, is compiled
  out), so the theorems do not see any boundary below `2^32`; `C01.index32_*` state the `2^32` conditions.  What ties the
  unbounded model to the bounded C++ types below that is the correspondence run, in particular the stream
  `boundary-sizes` (dimensions, index values and counts at 127/128/129, 255/256/257, 1000/1001, thorough also
  32767/32768 and 65535/65536/65537, 32-bit `IT_`, entries / stored CSCR rows / non-zero operands at the high end).

## Not proved (observed by the correspondence streams only)

* Floating point: rounding lemmas exist for the row loops (CSR, CSCR, dense, banded, BCSR) and the final
  `beta·r + alpha·s` step; none for the transposed scatter loops (`ba·r`, scatter, `a·r`), none for a whole kernel or a
  meta-matrix; the γ-bound of the `f64-nan-prefill` and `f32-nan-prefill` oracle (`γ_{n+8}`) is an a-priori allowance, not derived.
* Transposed products of trees with a banded leaf (the format does not offer them; the model returns ABORT).
* `fits (unflatten v)` (the Tuple/PowerVector shape test) is evaluated by the driver on every case, not proved from a
  well-formedness predicate; the DenseVector (flat) overloads of `TupleDiagMatrix` cannot be instantiated (finding F6) and
  the flat overloads with an empty block abort (open finding F8) — both outside the theorems' hypotheses.
* The immutability clause for the real containers is the harness' `U1` flag; in the functional model it holds by
  construction (`apply_writes_every_entry`, `apply_overwrites_r`, `axpy_ignores_old_r` cover the result vector).
* 32-bit faithfulness is stated for the stored index arrays and the one 32-bit expression of the banded kernel
  (`index32_*`); the claim that every other intermediate is 64-bit is by inspection of the C++, not a theorem.
-/
open Finset FeatModel.LA

/-- `csr_generic`, non-transposed: `r_i = a·(A x)_i + b·y_i` for every shape, pattern (empty rows, duplicates,
    unsorted columns) and scalar pair; a `b` below eps is treated as exactly zero. -/
theorem C01.csr_kernel_eq {α : Type} [Field α] (tiny : α → Bool) (A : Csr α) (hA : A.wf = true) (a b : α)
    (x y r : Array α) (ali : Bool) (i : Nat) (hi : i < A.rows) :
    (A.kernel tiny a b x y r ali false).getD i 0
      = a * (∑ j ∈ range A.cols, A.entry i j * x.getD j 0)
        + (if tiny b then 0 else b * (if ali then r else y).getD i 0) := by
  have h := (Csr.wf_iff A).mp hA
  simp only [Csr.kernel, Bool.false_eq_true, if_false]
  rw [getD_ofFn _ i hi, Csr.rowSum_eq h x hi, initR_getD _ _ _ _ _ _ _ hi]
  split <;> ring

/-- `csr_generic`, transposed (`ba := b/a; r := ba·r; scatter; r := a·r`): `r_j = a·(Aᵀ x)_j + b·y_j`
    whenever `a ≠ 0` (the hypothesis is forced by the division). -/
theorem C01.csr_kernelT_eq {α : Type} [Field α] (tiny : α → Bool) (A : Csr α) (hA : A.wf = true) (a b : α) (ha : a ≠ 0)
    (x y r : Array α) (ali : Bool) (hr : r.size = A.cols) (hy : y.size = A.cols) (j : Nat) (hj : j < A.cols) :
    (A.kernel tiny a b x y r ali true).getD j 0
      = a * (∑ i ∈ range A.rows, A.entry i j * x.getD i 0)
        + (if tiny b then 0 else b * (if ali then r else y).getD j 0) := by
  have h := (Csr.wf_iff A).mp hA
  have hs0 : (initR tiny A.cols b r y ali).size = A.cols := initR_size _ _ _ _ _ _ hr hy
  simp only [Csr.kernel, if_true]
  rw [getD_map _ _ _ (by rw [Csr.scatterT_size, Array.size_map, hs0]; exact hj),
    Csr.scatterT_getD h _ _ (by rw [Array.size_map, hs0]; exact hj),
    getD_map _ _ _ (by rw [hs0]; exact hj), initR_getD _ _ _ _ _ _ _ hj]
  split
  · ring
  · field_simp
    ring

/-- `csrsb_generic<BlockSize>` (CSR matrix times `DenseVectorBlocked`): every scalar entry multiplies the whole
    block, `r[i·bs+k] = a·Σ_j A_ij·x[j·bs+k] + b·y[i·bs+k]` -/
theorem C01.csrsb_kernel_eq {α : Type} [Field α] (tiny : α → Bool) (bs : Nat) (A : Csr α) (hA : A.wf = true) (a b : α)
    (x y r : Array α) (ali : Bool) (i k : Nat) (hi : i < A.rows) (hk : k < bs) :
    (A.kernelSB tiny bs a b x y r ali).getD (i * bs + k) 0
      = a * (∑ j ∈ range A.cols, A.entry i j * x.getD (j * bs + k) 0)
        + (if tiny b then 0 else b * (if ali then r else y).getD (i * bs + k) 0) := by
  have h := (Csr.wf_iff A).mp hA
  have hidx : i * bs + k < A.rows * bs := by
    calc i * bs + k < i * bs + bs := by omega
      _ = (i + 1) * bs := by ring
      _ ≤ A.rows * bs := Nat.mul_le_mul_right bs hi
  have hdiv : (i * bs + k) / bs = i := by
    rw [Nat.mul_comm, Nat.mul_add_div (by omega), Nat.div_eq_of_lt hk, Nat.add_zero]
  have hmod : (i * bs + k) % bs = k := by
    rw [Nat.mul_comm, Nat.mul_add_mod, Nat.mod_eq_of_lt hk]
  simp only [Csr.kernelSB]
  rw [getD_ofFn _ _ hidx, initR_getD _ _ _ _ _ _ _ hidx]
  simp only [hdiv, hmod]
  rw [foldRange_add, zero_add, Csr.sum_row_eq h (fun j => x.getD (j * bs + k) 0) hi]
  split <;> ring

/-- `r` aliasing `y` (the `r != y` pointer test of the kernels): the aliased call equals the copying call. -/
theorem C01.csr_alias_r_y {α : Type} [Field α] (tiny : α → Bool) (A : Csr α) (a b : α) (x y r : Array α) (tr : Bool) :
    A.kernel tiny a b x y y true tr = A.kernel tiny a b x y r false tr := by
  simp [Csr.kernel, initR]

/-- `SparseMatrixCSR::apply(r, x)` and `apply_transposed(r, x)` never abort on matching sizes and return exactly
    `A x` resp. `Aᵀ x`, including the `used_elements() == 0` early-out, 0×n / n×0 / 1×1 shapes and empty rows. -/
theorem C01.csr_apply_spec {α : Type} [Field α] (tiny : α → Bool) (ht0 : tiny 0 = true) (A : Csr α) (hA : A.wf = true)
    (x r : Array α) (hr : r.size = A.rows) (hx : x.size = A.cols) :
    ∃ r', A.apply tiny x r false = some r' ∧ r'.size = A.rows ∧
      ∀ i, i < A.rows → r'.getD i 0 = ∑ j ∈ range A.cols, A.entry i j * x.getD j 0 := by
  have h := (Csr.wf_iff A).mp hA
  by_cases h0 : A.usedElements = 0
  · refine ⟨Array.replicate r.size 0, by simp [Csr.apply, hr, hx, h0], by simp [hr], ?_⟩
    intro i hi
    rw [getD_replicate _ _ (by rw [hr]; exact hi)]
    simp [Csr.entry_eq_zero_of_empty h h0 hi]
  · refine ⟨A.kernel tiny 1 0 x r r true false, by simp [Csr.apply, hr, hx, h0], by simp [Csr.kernel], ?_⟩
    intro i hi
    rw [C01.csr_kernel_eq tiny A hA 1 0 x r r true i hi]
    simp [ht0]

theorem C01.csr_applyT_spec {α : Type} [Field α] (tiny : α → Bool) (ht0 : tiny 0 = true) (A : Csr α) (hA : A.wf = true)
    (x r : Array α) (hr : r.size = A.cols) (hx : x.size = A.rows) :
    ∃ r', A.apply tiny x r true = some r' ∧ r'.size = A.cols ∧
      ∀ j, j < A.cols → r'.getD j 0 = ∑ i ∈ range A.rows, A.entry i j * x.getD i 0 := by
  have h := (Csr.wf_iff A).mp hA
  by_cases h0 : A.usedElements = 0
  · refine ⟨Array.replicate r.size 0, by simp [Csr.apply, hr, hx, h0], by simp [hr], ?_⟩
    intro j hj
    rw [getD_replicate _ _ (by rw [hr]; exact hj)]
    symm
    apply Finset.sum_eq_zero
    intro i hi
    rw [Csr.entry_eq_zero_of_empty h h0 (Finset.mem_range.mp hi), zero_mul]
  · refine ⟨A.kernel tiny 1 0 x r r true true, by simp [Csr.apply, hr, hx, h0], ?_, ?_⟩
    · simp [Csr.kernel, Csr.scatterT_size, initR_size tiny A.cols 0 r r true hr hr]
    · intro j hj
      rw [C01.csr_kernelT_eq tiny A hA 1 0 one_ne_zero x r r true hr hr j hj]
      simp [ht0]

/-- `SparseMatrixCSR::apply(r, x, y, alpha)` / `apply_transposed(r, x, y, alpha)` for an `alpha` that is not below
    eps: `r = y + alpha·A x` (resp. `Aᵀ`), with or without `r` aliasing `y`, for all shapes and patterns. The
    transposed kernel's division `1/alpha` is never a division by zero: `¬ tiny alpha` and `tiny 0` give `alpha ≠ 0`. -/
theorem C01.csr_axpy_spec {α : Type} [Field α] (tiny : α → Bool) (ht0 : tiny 0 = true) (ht1 : tiny 1 = false)
    (A : Csr α) (hA : A.wf = true) (x y r : Array α) (alpha : α) (hal : tiny alpha = false) (ali tr : Bool)
    (hr : r.size = if tr then A.cols else A.rows) (hy : y.size = if tr then A.cols else A.rows)
    (hx : x.size = if tr then A.rows else A.cols) (hry : ali = true → r = y) :
    ∃ r', A.applyAxpy tiny x y r alpha ali tr = some r' ∧
      ∀ i, i < (if tr then A.cols else A.rows) → r'.getD i 0 = y.getD i 0 + alpha *
        (if tr then ∑ k ∈ range A.rows, A.entry k i * x.getD k 0 else ∑ k ∈ range A.cols, A.entry i k * x.getD k 0) := by
  have h := (Csr.wf_iff A).mp hA
  have ha0 : alpha ≠ 0 := by
    intro h0; rw [h0, ht0] at hal; exact Bool.noConfusion hal
  have hyy : (if ali then r else y) = y := by
    cases ali
    · rfl
    · exact hry rfl
  by_cases h0 : A.usedElements = 0
  · refine ⟨if ali then r else y, by cases tr <;> simp_all [Csr.applyAxpy], ?_⟩
    intro i hi
    rw [hyy]
    cases tr
    · simp only [Bool.false_eq_true, if_false] at hi ⊢
      simp [Csr.entry_eq_zero_of_empty h h0 hi]
    · simp only [if_true] at hi ⊢
      have : ∑ k ∈ range A.rows, A.entry k i * x.getD k 0 = 0 := by
        apply Finset.sum_eq_zero
        intro k hk
        rw [Csr.entry_eq_zero_of_empty h h0 (Finset.mem_range.mp hk), zero_mul]
      rw [this]; simp
  · refine ⟨A.kernel tiny alpha 1 x y r ali tr, by cases tr <;> simp_all [Csr.applyAxpy], ?_⟩
    intro i hi
    cases tr
    · simp only [Bool.false_eq_true, if_false] at hi ⊢
      rw [C01.csr_kernel_eq tiny A hA alpha 1 x y r ali i hi, hyy, ht1]
      simp; ring
    · simp only [if_true] at hi hr hy ⊢
      rw [C01.csr_kernelT_eq tiny A hA alpha 1 ha0 x y r ali hr hy i hi, hyy, ht1]
      simp; ring

/-- the documented early-out: an `alpha` below eps returns `y` itself -/
theorem C01.csr_axpy_tiny_alpha {α : Type} [Field α] (tiny : α → Bool) (A : Csr α) (x y r : Array α) (alpha : α)
    (hal : tiny alpha = true) (ali tr : Bool)
    (hr : r.size = if tr then A.cols else A.rows) (hy : y.size = if tr then A.cols else A.rows)
    (hx : x.size = if tr then A.rows else A.cols) (hry : ali = true → r = y) :
    A.applyAxpy tiny x y r alpha ali tr = some y := by
  have hyy : (if ali then r else y) = y := by
    cases ali
    · rfl
    · exact hry rfl
  cases tr <;> simp_all [Csr.applyAxpy]

/-- the hypotheses on `tiny` hold for the instance the driver (and the harness at `Q`) uses: eps = 2^-52 on ℚ -/
theorem C01.tinyRat_zero_one : tinyRat epsQ 0 = true ∧ tinyRat epsQ 1 = false := by
  constructor
  · simp [tinyRat, epsQ]
  · simp [tinyRat, epsQ]
    norm_num

/-- `tinyRat eps` is the test `|a| < eps` -/
theorem C01.tinyRat_iff (eps a : Rat) : tinyRat eps a = true ↔ |a| < eps := by
  unfold tinyRat
  rw [decide_eq_true_iff]
  by_cases h : a < 0
  · rw [if_pos h, abs_of_neg h]
  · rw [if_neg h, abs_of_nonneg (not_lt.mp h)]

/-- CSR at the driver's / harness' scalar (ℚ, eps = 2^-52): `apply` and `apply_transposed` are exact. -/
theorem C01.csr_applyQ_spec (A : Csr Rat) (hA : A.wf = true) (x r : Array Rat) (tr : Bool)
    (hr : r.size = if tr then A.cols else A.rows) (hx : x.size = if tr then A.rows else A.cols) :
    ∃ r', A.applyQ x r tr = some r' ∧
      ∀ i, i < (if tr then A.cols else A.rows) → r'.getD i 0 =
        (if tr then ∑ k ∈ range A.rows, A.entry k i * x.getD k 0 else ∑ k ∈ range A.cols, A.entry i k * x.getD k 0) := by
  cases tr
  · obtain ⟨r', h1, _, h3⟩ := C01.csr_apply_spec (tinyRat epsQ) C01.tinyRat_zero_one.1 A hA x r hr hx
    exact ⟨r', h1, h3⟩
  · obtain ⟨r', h1, _, h3⟩ := C01.csr_applyT_spec (tinyRat epsQ) C01.tinyRat_zero_one.1 A hA x r hr hx
    exact ⟨r', h1, h3⟩

/-- CSR at ℚ: `r := y + alpha·A x` / `y + alpha·Aᵀ x` is exact for every `alpha` with `|alpha| ≥ 2^-52`
    and (next theorem) for `alpha = 0`; all shapes, patterns, aliasing `r == y`. -/
theorem C01.csr_applyAxpyQ_spec (A : Csr Rat) (hA : A.wf = true) (x y r : Array Rat) (alpha : Rat)
    (hal : epsQ ≤ |alpha|) (ali tr : Bool)
    (hr : r.size = if tr then A.cols else A.rows) (hy : y.size = if tr then A.cols else A.rows)
    (hx : x.size = if tr then A.rows else A.cols) (hry : ali = true → r = y) :
    ∃ r', A.applyAxpyQ x y r alpha ali tr = some r' ∧
      ∀ i, i < (if tr then A.cols else A.rows) → r'.getD i 0 = y.getD i 0 + alpha *
        (if tr then ∑ k ∈ range A.rows, A.entry k i * x.getD k 0 else ∑ k ∈ range A.cols, A.entry i k * x.getD k 0) := by
  have ht : tinyRat epsQ alpha = false := by
    rw [Bool.eq_false_iff]; intro h; exact absurd ((C01.tinyRat_iff _ _).mp h) (not_lt.mpr hal)
  exact C01.csr_axpy_spec (tinyRat epsQ) C01.tinyRat_zero_one.1 C01.tinyRat_zero_one.2 A hA x y r alpha ht ali tr
    hr hy hx hry

/-- CSR at ℚ, `|alpha| < 2^-52` (this includes `alpha = 0`): the early-out returns `y`; the exact result
    `y + alpha·A x` differs from it by `|alpha|·|(A x)_i| ≤ eps·(|A||x|)_i`, the property's rounding envelope. -/
theorem C01.csr_applyAxpyQ_tiny (A : Csr Rat) (x y r : Array Rat) (alpha : Rat)
    (hal : |alpha| < epsQ) (ali : Bool)
    (hr : r.size = A.rows) (hy : y.size = A.rows) (hx : x.size = A.cols) (hry : ali = true → r = y) :
    A.applyAxpyQ x y r alpha ali false = some y ∧
      ∀ i, i < A.rows →
        |(y.getD i 0 + alpha * ∑ k ∈ range A.cols, A.entry i k * x.getD k 0) - y.getD i 0|
          ≤ epsQ * ∑ k ∈ range A.cols, |A.entry i k| * |x.getD k 0| := by
  have ht : tinyRat epsQ alpha = true := (C01.tinyRat_iff _ _).mpr hal
  refine ⟨C01.csr_axpy_tiny_alpha (tinyRat epsQ) A x y r alpha ht ali false (by simpa using hr) (by simpa using hy)
    (by simpa using hx) hry, ?_⟩
  intro i _
  rw [add_sub_cancel_left, abs_mul]
  have h1 : |∑ k ∈ range A.cols, A.entry i k * x.getD k 0| ≤ ∑ k ∈ range A.cols, |A.entry i k| * |x.getD k 0| := by
    refine le_trans (Finset.abs_sum_le_sum_abs _ _) (le_of_eq ?_)
    apply Finset.sum_congr rfl
    intro k _
    exact abs_mul _ _
  exact mul_le_mul (le_of_lt hal) h1 (abs_nonneg _) (le_of_lt (lt_of_le_of_lt (abs_nonneg _) hal))

/-- `dense_generic`: `r_i = alpha·(A x)_i + beta·y_i` -/
theorem C01.dense_kernel_eq {α : Type} [Field α] (tiny : α → Bool) (A : Dense α) (alpha beta : α) (x y r : Array α)
    (ali : Bool) (i : Nat) (hi : i < A.rows) :
    (A.kernel tiny alpha beta x y r ali).getD i 0
      = alpha * (∑ j ∈ range A.cols, A.entry i j * x.getD j 0)
        + (if tiny beta then 0 else beta * (if ali then r else y).getD i 0) :=
  Dense.kernel_getD tiny A alpha beta x y r ali i hi

/-- `dense_transposed_generic`: `r_j = alpha·(Aᵀ x)_j + beta·y_j` -/
theorem C01.dense_kernelT_eq {α : Type} [Field α] (tiny : α → Bool) (A : Dense α) (alpha beta : α) (x y r : Array α)
    (ali : Bool) (j : Nat) (hj : j < A.cols) :
    (A.kernelT tiny alpha beta x y r ali).getD j 0
      = alpha * (∑ i ∈ range A.rows, A.entry i j * x.getD i 0)
        + (if tiny beta then 0 else beta * (if ali then r else y).getD j 0) :=
  Dense.kernelT_getD tiny A alpha beta x y r ali j hj

/-- `DenseMatrix::apply(r, x, y, alpha)` and its transposed form at ℚ for a non-empty matrix: exact. -/
theorem C01.dense_applyAxpyQ_spec (A : Dense Rat) (x y r : Array Rat) (alpha : Rat) (hal : epsQ ≤ |alpha|)
    (ali tr : Bool) (hne : 0 < A.rows ∧ 0 < A.cols)
    (hr : r.size = if tr then A.cols else A.rows) (hy : y.size = if tr then A.cols else A.rows)
    (hx : x.size = if tr then A.rows else A.cols) (hry : ali = true → r = y) :
    ∃ r', A.applyAxpyQ x y r alpha ali tr = some r' ∧
      ∀ i, i < (if tr then A.cols else A.rows) → r'.getD i 0 = y.getD i 0 + alpha *
        (if tr then ∑ k ∈ range A.rows, A.entry k i * x.getD k 0 else ∑ k ∈ range A.cols, A.entry i k * x.getD k 0) := by
  have ht : tinyRat epsQ alpha = false := by
    rw [Bool.eq_false_iff]; intro h; exact absurd ((C01.tinyRat_iff _ _).mp h) (not_lt.mpr hal)
  have ht1 := C01.tinyRat_zero_one.2
  have hyy : (if ali then r else y) = y := by
    cases ali
    · rfl
    · exact hry rfl
  obtain ⟨h1, h2⟩ := hne
  cases tr
  · simp only [Bool.false_eq_true, if_false] at hr hy hx ⊢
    refine ⟨A.kernel (tinyRat epsQ) alpha 1 x y r ali, ?_, ?_⟩
    · simp [Dense.applyAxpyQ, Dense.applyAxpy, hr, hy, hx, ht]; omega
    · intro i hi
      rw [C01.dense_kernel_eq (tinyRat epsQ) A alpha 1 x y r ali i hi, hyy, ht1]
      simp; ring
  · simp only [if_true] at hr hy hx ⊢
    refine ⟨A.kernelT (tinyRat epsQ) alpha 1 x y r ali, ?_, ?_⟩
    · simp [Dense.applyAxpyQ, Dense.applyAxpy, hr, hy, hx, ht]; omega
    · intro i hi
      rw [C01.dense_kernelT_eq (tinyRat epsQ) A alpha 1 x y r ali i hi, hyy, ht1]
      simp; ring

/-- (former finding F1, fixed in /repo by 2dc37e78b) **an empty result is the identity on `r` and never aborts**: every
    `apply` member of `DenseMatrix` and `SparseMatrixBanded` first checks the sizes, then returns at once when `r` is
    empty (`if (r.size() == Index(0)) return;`, before the aliasing assertion that used to compare two null pointers) —
    also `SparseMatrixBanded::apply_transposed` of an n×0 matrix, which therefore no longer reaches "not implemented". -/
theorem C01.empty_result_is_identity {α : Type} [Field α] (tiny : α → Bool) (x y r : Array α) (alpha : α)
    (ali tr : Bool) (hr0 : r.size = 0) :
    (∀ A : Dense α, (if tr then A.cols else A.rows) = 0 → x.size = (if tr then A.rows else A.cols) →
      A.apply tiny x r tr = some r ∧ (y.size = 0 → A.applyAxpy tiny x y r alpha ali tr = some r)) ∧
    (∀ A : Banded α, (if tr then A.cols else A.rows) = 0 → x.size = (if tr then A.rows else A.cols) →
      A.apply tiny x r tr = some r ∧ (y.size = 0 → A.applyAxpy tiny x y r alpha ali tr = some r)) := by
  constructor
  · intro A h0 hx
    cases tr <;> simp_all [Dense.apply, Dense.applyAxpy]
  · intro A h0 hx
    cases tr <;> simp_all [Banded.apply, Banded.applyAxpy]

/-- … while a size mismatch is still reported by an assertion abort (it comes before the early return) -/
theorem C01.size_mismatch_aborts {α : Type} [Field α] (tiny : α → Bool) (x y r : Array α) (alpha : α) (ali tr : Bool) :
    (∀ A : Dense α, (r.size ≠ (if tr then A.cols else A.rows) ∨ x.size ≠ (if tr then A.rows else A.cols)) →
      A.apply tiny x r tr = none ∧ A.applyAxpy tiny x y r alpha ali tr = none) ∧
    (∀ A : Banded α, (r.size ≠ (if tr then A.cols else A.rows) ∨ x.size ≠ (if tr then A.rows else A.cols)) →
      A.apply tiny x r tr = none ∧ A.applyAxpy tiny x y r alpha ali tr = none) := by
  constructor
  · intro A h
    cases tr <;> rcases h with h | h <;> simp_all [Dense.apply, Dense.applyAxpy]
  · intro A h
    cases tr <;> rcases h with h | h <;> simp_all [Banded.apply, Banded.applyAxpy]

/-- `banded_generic` / `apply_banded_generic` for **all** strictly increasing offset sets and all rectangular shapes:
    the (i, j) row windows built from `start_offset`/`end_offset` tile `[0, rows)`, every row is updated exactly once
    and receives `alpha·(A x)_l + beta·y_l`. -/
theorem C01.banded_kernel_eq {α : Type} [Field α] (tiny : α → Bool) (A : Banded α) (hA : A.wf = true) (alpha beta : α)
    (x y r : Array α) (ali : Bool) (hr : r.size = A.rows) (hy : y.size = A.rows) (l : Nat) (hl : l < A.rows) :
    (A.kernel tiny alpha beta x y r ali).getD l 0
      = alpha * (∑ c ∈ range A.cols, A.entry l c * x.getD c 0)
        + (if tiny beta then 0 else beta * (if ali then r else y).getD l 0) := by
  have h := (Banded.wf_iff A).mp hA
  unfold Banded.kernel
  rw [Banded.bandedLoop_getD h alpha beta x _ hl (initR_size _ _ _ _ _ _ hr hy), initR_getD _ _ _ _ _ _ _ hl]
  split <;> ring

/-- `SparseMatrixBanded::apply(r, x)` at ℚ: exact product for every offset set / shape with at least one row. -/
theorem C01.banded_applyQ_spec (A : Banded Rat) (hA : A.wf = true) (x r : Array Rat)
    (hr : r.size = A.rows) (hx : x.size = A.cols) (hne : 0 < A.rows) :
    ∃ r', A.applyQ x r false = some r' ∧
      ∀ l, l < A.rows → r'.getD l 0 = ∑ c ∈ range A.cols, A.entry l c * x.getD c 0 := by
  refine ⟨A.kernel (tinyRat epsQ) 1 0 x r r true, ?_, ?_⟩
  · simp [Banded.applyQ, Banded.apply, hr, hx]; omega
  · intro l hl
    rw [C01.banded_kernel_eq (tinyRat epsQ) A hA 1 0 x r r true hr hr l hl, C01.tinyRat_zero_one.1]
    simp

/-- `SparseMatrixBanded::apply(r, x, y, alpha)` at ℚ: `r = y + alpha·A x` for every offset set / rectangular shape
    with at least one row, `|alpha| ≥ eps`, with or without `r` aliasing `y` — including the
    `used_elements() == 0` early-out (all bands outside the matrix, e.g. an n×0 shape). -/
theorem C01.banded_applyAxpyQ_spec (A : Banded Rat) (hA : A.wf = true) (x y r : Array Rat) (alpha : Rat)
    (hal : epsQ ≤ |alpha|) (ali : Bool)
    (hr : r.size = A.rows) (hy : y.size = A.rows) (hx : x.size = A.cols) (hne : 0 < A.rows)
    (hry : ali = true → r = y) :
    ∃ r', A.applyAxpyQ x y r alpha ali false = some r' ∧
      ∀ l, l < A.rows → r'.getD l 0 = y.getD l 0 + alpha * ∑ c ∈ range A.cols, A.entry l c * x.getD c 0 := by
  have h := (Banded.wf_iff A).mp hA
  have ht : tinyRat epsQ alpha = false := by
    rw [Bool.eq_false_iff]; intro h; exact absurd ((C01.tinyRat_iff _ _).mp h) (not_lt.mpr hal)
  have hyy : (if ali then r else y) = y := by
    cases ali
    · rfl
    · exact hry rfl
  by_cases hu : A.usedElements = 0
  · refine ⟨if ali then r else y, ?_, ?_⟩
    · simp [Banded.applyAxpyQ, Banded.applyAxpy, hr, hy, hx, hu]; omega
    · intro l hl
      rw [hyy, Banded.rowdot_eq_zero_of_empty h hu x l hl]
      simp
  · refine ⟨A.kernel (tinyRat epsQ) alpha 1 x y r ali, ?_, ?_⟩
    · simp [Banded.applyAxpyQ, Banded.applyAxpy, hr, hy, hx, ht, hu]; omega
    · intro l hl
      rw [C01.banded_kernel_eq (tinyRat epsQ) A hA alpha 1 x y r ali hr hy l hl, hyy, C01.tinyRat_zero_one.2]
      simp; ring

/-- the banded format does not offer the transposed product: `apply_transposed(r, x)` with a non-empty result aborts
    (`banded_transposed_generic` is `XABORTM("not implemented")`), it never returns a wrong vector -/
theorem C01.banded_transposed_not_offered {α : Type} [Field α] (tiny : α → Bool) (A : Banded α) (x r : Array α)
    (hr : r.size ≠ 0) : A.apply tiny x r true = none := by
  simp [Banded.apply, hr]

/-- `cscr_generic`, non-transposed, stored row `nz0` (matrix row `rowNumbers[nz0]`): `a·(A x)_i + b·y_i`. -/
theorem C01.cscr_kernel_listed_eq {α : Type} [Field α] (tiny : α → Bool) (A : Cscr α) (hA : A.wf = true) (a b : α)
    (x y r : Array α) (ali : Bool) (hr : r.size = A.rows) (hy : y.size = A.rows) (nz0 : Nat) (hnz : nz0 < A.usedRows) :
    (A.kernel tiny a b x y r ali false).getD (A.rowNumbers.getD nz0 0) 0
      = a * (∑ j ∈ range A.cols, A.entry (A.rowNumbers.getD nz0 0) j * x.getD j 0)
        + (if tiny b then 0 else b * (if ali then r else y).getD (A.rowNumbers.getD nz0 0) 0) := by
  have h := (Cscr.wf_iff A).mp hA
  have hi := h.rnLt nz0 hnz
  have hs0 : (initR tiny A.rows b r y ali).size = A.rows := initR_size _ _ _ _ _ _ hr hy
  have hk : A.kernel tiny a b x y r ali false = Cscr.rowLoop A a b x (initR tiny A.rows b r y ali) := by
    simp [Cscr.kernel, Cscr.rowLoop]
  rw [hk, (Cscr.rowLoop_facts h a b x _ _ (by rw [hs0]; exact hi)).2 nz0 hnz rfl, Cscr.rowdot_listed h x hnz,
    initR_getD _ _ _ _ _ _ _ hi]
  split <;> ring

/-- `cscr_generic`, non-transposed, a row that is not stored: the loop does not visit it, `r_i` keeps the
    (unscaled) `y_i` resp. 0, and the row of the represented matrix is zero. The containers call the kernel with
    `b ∈ {0, 1}` only, where this is `a·(A x)_i + b·y_i`. -/
theorem C01.cscr_kernel_unlisted_eq {α : Type} [Field α] (tiny : α → Bool) (A : Cscr α) (hA : A.wf = true) (a b : α)
    (x y r : Array α) (ali : Bool) (hr : r.size = A.rows) (hy : y.size = A.rows) (i : Nat) (hi : i < A.rows)
    (hno : ∀ nz, nz < A.usedRows → A.rowNumbers.getD nz 0 ≠ i) :
    (A.kernel tiny a b x y r ali false).getD i 0 = (if tiny b then 0 else (if ali then r else y).getD i 0)
      ∧ ∀ j, A.entry i j = 0 := by
  have h := (Cscr.wf_iff A).mp hA
  have hs0 : (initR tiny A.rows b r y ali).size = A.rows := initR_size _ _ _ _ _ _ hr hy
  have hk : A.kernel tiny a b x y r ali false = Cscr.rowLoop A a b x (initR tiny A.rows b r y ali) := by
    simp [Cscr.kernel, Cscr.rowLoop]
  refine ⟨?_, Cscr.entry_unlisted hno⟩
  rw [hk, (Cscr.rowLoop_facts h a b x _ _ (by rw [hs0]; exact hi)).1 hno, initR_getD _ _ _ _ _ _ _ hi]

/-- `cscr_generic`, transposed: `r_j = a·(Aᵀ x)_j + b·y_j` for `a ≠ 0`. -/
theorem C01.cscr_kernelT_eq {α : Type} [Field α] (tiny : α → Bool) (A : Cscr α) (hA : A.wf = true) (a b : α) (ha : a ≠ 0)
    (x y r : Array α) (ali : Bool) (hr : r.size = A.cols) (hy : y.size = A.cols) (j : Nat) (hj : j < A.cols) :
    (A.kernel tiny a b x y r ali true).getD j 0
      = a * (∑ i ∈ range A.rows, A.entry i j * x.getD i 0)
        + (if tiny b then 0 else b * (if ali then r else y).getD j 0) := by
  have h := (Cscr.wf_iff A).mp hA
  have hs0 : (initR tiny A.cols b r y ali).size = A.cols := initR_size _ _ _ _ _ _ hr hy
  have hk : A.kernel tiny a b x y r ali true
      = (Cscr.scatterT A x ((initR tiny A.cols b r y ali).map (b / a * ·))).map (a * ·) := by
    simp [Cscr.kernel, Cscr.scatterT]
  rw [hk, getD_map _ _ _ (by rw [Cscr.scatterT_size, Array.size_map, hs0]; exact hj),
    Cscr.scatterT_getD h _ _ (by rw [Array.size_map, hs0]; exact hj),
    getD_map _ _ _ (by rw [hs0]; exact hj), initR_getD _ _ _ _ _ _ _ hj]
  split
  · ring
  · field_simp
    ring

/-- `SparseMatrixCSCR::apply(r, x)` / `apply_transposed(r, x)` at ℚ: exact, for stored and non-stored rows alike,
    including the `used_elements() == 0` early-out. -/
theorem C01.cscr_applyQ_spec (A : Cscr Rat) (hA : A.wf = true) (x r : Array Rat) (tr : Bool)
    (hr : r.size = if tr then A.cols else A.rows) (hx : x.size = if tr then A.rows else A.cols) :
    ∃ r', A.applyQ x r tr = some r' ∧
      ∀ i, i < (if tr then A.cols else A.rows) → r'.getD i 0 =
        (if tr then ∑ k ∈ range A.rows, A.entry k i * x.getD k 0 else ∑ k ∈ range A.cols, A.entry i k * x.getD k 0) := by
  have h := (Cscr.wf_iff A).mp hA
  have ht0 := C01.tinyRat_zero_one.1
  have hzero : A.usedElements = 0 → ∀ i j, A.entry i j = 0 := by
    intro h0 i j
    rw [Cscr.entry_eq_sum]
    apply Finset.sum_eq_zero
    intro nz hnz
    rw [Csr.entry_eq_zero_of_empty h.csr h0 (Finset.mem_range.mp hnz)]
    simp
  by_cases h0 : A.usedElements = 0
  · refine ⟨Array.replicate r.size 0, by cases tr <;> simp_all [Cscr.applyQ, Cscr.apply], ?_⟩
    intro i hi
    rw [getD_replicate _ _ (by rw [hr]; exact hi)]
    cases tr <;> simp [hzero h0]
  · cases tr
    · simp only [Bool.false_eq_true, if_false] at hr hx ⊢
      refine ⟨A.kernel (tinyRat epsQ) 1 0 x r r true false, by simp [Cscr.applyQ, Cscr.apply, hr, hx, h0], ?_⟩
      intro i hi
      by_cases hl : ∃ nz, nz < A.usedRows ∧ A.rowNumbers.getD nz 0 = i
      · obtain ⟨nz, hnz, rfl⟩ := hl
        rw [C01.cscr_kernel_listed_eq (tinyRat epsQ) A hA 1 0 x r r true hr hr nz hnz, ht0]
        simp
      · have hno : ∀ nz, nz < A.usedRows → A.rowNumbers.getD nz 0 ≠ i := fun nz hnz he => hl ⟨nz, hnz, he⟩
        obtain ⟨e1, e2⟩ := C01.cscr_kernel_unlisted_eq (tinyRat epsQ) A hA 1 0 x r r true hr hr i hi hno
        rw [e1, ht0]
        simp [e2]
    · simp only [if_true] at hr hx ⊢
      refine ⟨A.kernel (tinyRat epsQ) 1 0 x r r true true, by simp [Cscr.applyQ, Cscr.apply, hr, hx, h0], ?_⟩
      intro j hj
      rw [C01.cscr_kernelT_eq (tinyRat epsQ) A hA 1 0 one_ne_zero x r r true hr hr j hj, ht0]
      simp

/-- `SparseMatrixCSCR::apply(r, x, y, alpha)` / `apply_transposed(r, x, y, alpha)` at ℚ, `|alpha| ≥ eps`:
    `r = y + alpha·A x` (resp. `Aᵀ`), with or without `r` aliasing `y`; non-stored rows return `y_i`. -/
theorem C01.cscr_applyAxpyQ_spec (A : Cscr Rat) (hA : A.wf = true) (x y r : Array Rat) (alpha : Rat)
    (hal : epsQ ≤ |alpha|) (ali tr : Bool)
    (hr : r.size = if tr then A.cols else A.rows) (hy : y.size = if tr then A.cols else A.rows)
    (hx : x.size = if tr then A.rows else A.cols) (hry : ali = true → r = y) :
    ∃ r', A.applyAxpyQ x y r alpha ali tr = some r' ∧
      ∀ i, i < (if tr then A.cols else A.rows) → r'.getD i 0 = y.getD i 0 + alpha *
        (if tr then ∑ k ∈ range A.rows, A.entry k i * x.getD k 0 else ∑ k ∈ range A.cols, A.entry i k * x.getD k 0) := by
  have h := (Cscr.wf_iff A).mp hA
  have ht1 := C01.tinyRat_zero_one.2
  have ht : tinyRat epsQ alpha = false := by
    rw [Bool.eq_false_iff]; intro h; exact absurd ((C01.tinyRat_iff _ _).mp h) (not_lt.mpr hal)
  have ha0 : alpha ≠ 0 := by
    intro h0; rw [h0, C01.tinyRat_zero_one.1] at ht; exact Bool.noConfusion ht
  have hyy : (if ali then r else y) = y := by
    cases ali
    · rfl
    · exact hry rfl
  have hzero : A.usedElements = 0 → ∀ i j, A.entry i j = 0 := by
    intro h0 i j
    rw [Cscr.entry_eq_sum]
    apply Finset.sum_eq_zero
    intro nz hnz
    rw [Csr.entry_eq_zero_of_empty h.csr h0 (Finset.mem_range.mp hnz)]
    simp
  by_cases h0 : A.usedElements = 0
  · refine ⟨if ali then r else y, by cases tr <;> simp_all [Cscr.applyAxpyQ, Cscr.applyAxpy], ?_⟩
    intro i hi
    rw [hyy]
    cases tr <;> simp [hzero h0]
  · cases tr
    · simp only [Bool.false_eq_true, if_false] at hr hy hx ⊢
      refine ⟨A.kernel (tinyRat epsQ) alpha 1 x y r ali false,
        by simp [Cscr.applyAxpyQ, Cscr.applyAxpy, hr, hy, hx, h0, ht], ?_⟩
      intro i hi
      by_cases hl : ∃ nz, nz < A.usedRows ∧ A.rowNumbers.getD nz 0 = i
      · obtain ⟨nz, hnz, rfl⟩ := hl
        rw [C01.cscr_kernel_listed_eq (tinyRat epsQ) A hA alpha 1 x y r ali hr hy nz hnz, hyy, ht1]
        simp; ring
      · have hno : ∀ nz, nz < A.usedRows → A.rowNumbers.getD nz 0 ≠ i := fun nz hnz he => hl ⟨nz, hnz, he⟩
        obtain ⟨e1, e2⟩ := C01.cscr_kernel_unlisted_eq (tinyRat epsQ) A hA alpha 1 x y r ali hr hy i hi hno
        rw [e1, hyy, ht1]
        simp [e2]
    · simp only [if_true] at hr hy hx ⊢
      refine ⟨A.kernel (tinyRat epsQ) alpha 1 x y r ali true,
        by simp [Cscr.applyAxpyQ, Cscr.applyAxpy, hr, hy, hx, h0, ht], ?_⟩
      intro j hj
      rw [C01.cscr_kernelT_eq (tinyRat epsQ) A hA alpha 1 ha0 x y r ali hr hy j hj, hyy, ht1]
      simp; ring

/-- `bcsr_generic<BH, BW>` for every block shape: on the pod arrays `r_p = a·(A x)_p + b·y_p` where `A` is the
    scalar (rows·BH)×(cols·BW) matrix the blocks represent (`Tiny` block products `add_mat_vec_mult`). -/
theorem C01.bcsr_kernel_eq {α : Type} [Field α] (tiny : α → Bool) (A : Bcsr α) (hA : A.wf = true)
    (hbh : 0 < A.bh) (hbw : 0 < A.bw) (a b : α) (x y r : Array α) (ali : Bool) (p : Nat) (hp : p < A.rows * A.bh) :
    (A.kernel tiny a b x y r ali).getD p 0
      = a * (∑ c ∈ range (A.cols * A.bw), A.entry p c * x.getD c 0)
        + (if tiny b then 0 else b * (if ali then r else y).getD p 0) := by
  have h := (Bcsr.wf_iff A).mp hA
  simp only [Bcsr.kernel]
  rw [getD_ofFn _ p hp, Bcsr.blockRowSum_eq h hbh hbw x hp, initR_getD _ _ _ _ _ _ _ hp]
  split <;> ring

/-- `bcsr_transposed_generic<BH, BW>` (`add_vec_mat_mult` scatter with the `b/a` trick): `r_q = a·(Aᵀ x)_q + b·y_q`
    for `a ≠ 0`, every block shape. -/
theorem C01.bcsrT_kernel_eq {α : Type} [Field α] (tiny : α → Bool) (A : Bcsr α) (hA : A.wf = true)
    (hbh : 0 < A.bh) (hbw : 0 < A.bw) (a b : α) (ha : a ≠ 0) (x y r : Array α) (ali : Bool)
    (hr : r.size = A.cols * A.bw) (hy : y.size = A.cols * A.bw) (q : Nat) (hq : q < A.cols * A.bw) :
    (A.kernelT tiny a b x y r ali).getD q 0
      = a * (∑ p ∈ range (A.rows * A.bh), A.entry p q * x.getD p 0)
        + (if tiny b then 0 else b * (if ali then r else y).getD q 0) := by
  have h := (Bcsr.wf_iff A).mp hA
  have hs0 : (initR tiny (A.cols * A.bw) b r y ali).size = A.cols * A.bw := initR_size _ _ _ _ _ _ hr hy
  have hk : A.kernelT tiny a b x y r ali
      = (Bcsr.scatterT A x ((initR tiny (A.cols * A.bw) b r y ali).map (b / a * ·))).map (a * ·) := by
    simp [Bcsr.kernelT, Bcsr.scatterT]
  rw [hk, getD_map _ _ _ (by rw [Bcsr.scatterT_size, Array.size_map, hs0]; exact hq),
    Bcsr.scatterT_getD h hbh hbw _ _ (by rw [Array.size_map, hs0]; exact hq),
    getD_map _ _ _ (by rw [hs0]; exact hq), initR_getD _ _ _ _ _ _ _ hq]
  split
  · ring
  · field_simp
    ring

/-- all `SparseMatrixBCSR::apply(r, x)` / `apply_transposed(r, x)` overloads (scalar or blocked vectors reach the
    same kernel on the pod arrays) at ℚ: exact, including the `used_elements() == 0` early-out. -/
theorem C01.bcsr_applyQ_spec (A : Bcsr Rat) (hA : A.wf = true) (hbh : 0 < A.bh) (hbw : 0 < A.bw)
    (x r : Array Rat) (tr : Bool)
    (hr : r.size = if tr then A.cols * A.bw else A.rows * A.bh)
    (hx : x.size = if tr then A.rows * A.bh else A.cols * A.bw) :
    ∃ r', A.applyQ x r tr = some r' ∧
      ∀ i, i < (if tr then A.cols * A.bw else A.rows * A.bh) → r'.getD i 0 =
        (if tr then ∑ k ∈ range (A.rows * A.bh), A.entry k i * x.getD k 0
         else ∑ k ∈ range (A.cols * A.bw), A.entry i k * x.getD k 0) := by
  have h := (Bcsr.wf_iff A).mp hA
  have ht0 := C01.tinyRat_zero_one.1
  by_cases h0 : A.usedElements = 0
  · refine ⟨Array.replicate r.size 0, by cases tr <;> simp_all [Bcsr.applyQ, Bcsr.apply], ?_⟩
    intro i hi
    rw [getD_replicate _ _ (by rw [hr]; exact hi)]
    cases tr <;> simp [Bcsr.entry_eq_zero_of_empty h h0]
  · cases tr
    · simp only [Bool.false_eq_true, if_false] at hr hx ⊢
      refine ⟨A.kernel (tinyRat epsQ) 1 0 x r r true, by simp [Bcsr.applyQ, Bcsr.apply, hr, hx, h0], ?_⟩
      intro i hi
      rw [C01.bcsr_kernel_eq (tinyRat epsQ) A hA hbh hbw 1 0 x r r true i hi, ht0]
      simp
    · simp only [if_true] at hr hx ⊢
      refine ⟨A.kernelT (tinyRat epsQ) 1 0 x r r true, by simp [Bcsr.applyQ, Bcsr.apply, hr, hx, h0], ?_⟩
      intro j hj
      rw [C01.bcsrT_kernel_eq (tinyRat epsQ) A hA hbh hbw 1 0 one_ne_zero x r r true hr hr j hj, ht0]
      simp

/-- all five `(r, x, y)` vector-kind overloads of `SparseMatrixBCSR::apply(r, x, y, alpha)` and of
    `apply_transposed` at ℚ, `|alpha| ≥ eps`: `r = y + alpha·A x` (resp. `Aᵀ`), with or without `r` aliasing `y`. -/
theorem C01.bcsr_applyAxpyQ_spec (A : Bcsr Rat) (hA : A.wf = true) (hbh : 0 < A.bh) (hbw : 0 < A.bw)
    (x y r : Array Rat) (alpha : Rat) (hal : epsQ ≤ |alpha|) (ali tr : Bool)
    (hr : r.size = if tr then A.cols * A.bw else A.rows * A.bh)
    (hy : y.size = if tr then A.cols * A.bw else A.rows * A.bh)
    (hx : x.size = if tr then A.rows * A.bh else A.cols * A.bw) (hry : ali = true → r = y) :
    ∃ r', A.applyAxpyQ x y r alpha ali tr = some r' ∧
      ∀ i, i < (if tr then A.cols * A.bw else A.rows * A.bh) → r'.getD i 0 = y.getD i 0 + alpha *
        (if tr then ∑ k ∈ range (A.rows * A.bh), A.entry k i * x.getD k 0
         else ∑ k ∈ range (A.cols * A.bw), A.entry i k * x.getD k 0) := by
  have h := (Bcsr.wf_iff A).mp hA
  have ht1 := C01.tinyRat_zero_one.2
  have ht : tinyRat epsQ alpha = false := by
    rw [Bool.eq_false_iff]; intro h; exact absurd ((C01.tinyRat_iff _ _).mp h) (not_lt.mpr hal)
  have ha0 : alpha ≠ 0 := by
    intro h0; rw [h0, C01.tinyRat_zero_one.1] at ht; exact Bool.noConfusion ht
  have hyy : (if ali then r else y) = y := by
    cases ali
    · rfl
    · exact hry rfl
  by_cases h0 : A.usedElements = 0
  · refine ⟨if ali then r else y, by cases tr <;> simp_all [Bcsr.applyAxpyQ, Bcsr.applyAxpy], ?_⟩
    intro i hi
    rw [hyy]
    cases tr <;> simp [Bcsr.entry_eq_zero_of_empty h h0]
  · cases tr
    · simp only [Bool.false_eq_true, if_false] at hr hy hx ⊢
      refine ⟨A.kernel (tinyRat epsQ) alpha 1 x y r ali,
        by simp [Bcsr.applyAxpyQ, Bcsr.applyAxpy, hr, hy, hx, h0, ht], ?_⟩
      intro i hi
      rw [C01.bcsr_kernel_eq (tinyRat epsQ) A hA hbh hbw alpha 1 x y r ali i hi, hyy, ht1]
      simp; ring
    · simp only [if_true] at hr hy hx ⊢
      refine ⟨A.kernelT (tinyRat epsQ) alpha 1 x y r ali,
        by simp [Bcsr.applyAxpyQ, Bcsr.applyAxpy, hr, hy, hx, h0, ht], ?_⟩
      intro j hj
      rw [C01.bcsrT_kernel_eq (tinyRat epsQ) A hA hbh hbw alpha 1 ha0 x y r ali hr hy j hj, hyy, ht1]
      simp; ring

/-- `DenseMatrix::apply(r, x)` / `apply_transposed(r, x)` at ℚ for a non-empty matrix: exact. -/
theorem C01.dense_applyQ_spec (A : Dense Rat) (x r : Array Rat) (tr : Bool) (hne : 0 < A.rows ∧ 0 < A.cols)
    (hr : r.size = if tr then A.cols else A.rows) (hx : x.size = if tr then A.rows else A.cols) :
    ∃ r', A.applyQ x r tr = some r' ∧
      ∀ i, i < (if tr then A.cols else A.rows) → r'.getD i 0 =
        (if tr then ∑ k ∈ range A.rows, A.entry k i * x.getD k 0 else ∑ k ∈ range A.cols, A.entry i k * x.getD k 0) := by
  have ht0 := C01.tinyRat_zero_one.1
  obtain ⟨h1, h2⟩ := hne
  cases tr
  · simp only [Bool.false_eq_true, if_false] at hr hx ⊢
    refine ⟨A.kernel (tinyRat epsQ) 1 0 x r r true, ?_, ?_⟩
    · simp [Dense.applyQ, Dense.apply, hr, hx]; omega
    · intro i hi
      rw [C01.dense_kernel_eq (tinyRat epsQ) A 1 0 x r r true i hi, ht0]
      simp
  · simp only [if_true] at hr hx ⊢
    refine ⟨A.kernelT (tinyRat epsQ) 1 0 x r r true, ?_, ?_⟩
    · simp [Dense.applyQ, Dense.apply, hr, hx]; omega
    · intro i hi
      rw [C01.dense_kernelT_eq (tinyRat epsQ) A 1 0 x r r true i hi, ht0]
      simp

/-- every well-formed CSR leaf of a meta-matrix meets the `apply` specification in both directions -/
theorem C01.meta_leaf_csr (A : Csr Rat) (hA : A.wf = true) : (MetaMat.csr A).Ok := by
  constructor
  · intro ax x y r ali h1 h2 h3 h4 h5
    cases ax with
    | none =>
      obtain ⟨r', e, v⟩ := C01.csr_applyQ_spec A hA x r false h2 h4
      refine ⟨r', e, by simpa [MetaMat.rows, MetaMat.cols] using Csr.apply_size _ A x r r' false e, ?_⟩
      intro i hi
      rw [v i hi]; simp [baseOf, MetaMat.dot, MetaMat.entry, MetaMat.cols]
    | some al =>
      obtain ⟨r', e, v⟩ := C01.csr_applyAxpyQ_spec A hA x y r al (h1 al rfl) ali false h2 (h3 rfl) h4 h5
      refine ⟨r', e, by simpa [MetaMat.rows, MetaMat.cols] using Csr.applyAxpy_size _ A x y r r' al ali false e, ?_⟩
      intro i hi
      rw [v i hi]; simp [baseOf, MetaMat.dot, MetaMat.entry, MetaMat.cols]
  · intro _ ax x y r ali h1 h2 h3 h4 h5
    cases ax with
    | none =>
      obtain ⟨r', e, v⟩ := C01.csr_applyQ_spec A hA x r true h2 h4
      refine ⟨r', e, by simpa [MetaMat.rows, MetaMat.cols] using Csr.apply_size _ A x r r' true e, ?_⟩
      intro i hi
      rw [v i hi]; simp [baseOf, MetaMat.dot, MetaMat.entry, MetaMat.rows]
    | some al =>
      obtain ⟨r', e, v⟩ := C01.csr_applyAxpyQ_spec A hA x y r al (h1 al rfl) ali true h2 (h3 rfl) h4 h5
      refine ⟨r', e, by simpa [MetaMat.rows, MetaMat.cols] using Csr.applyAxpy_size _ A x y r r' al ali true e, ?_⟩
      intro i hi
      rw [v i hi]; simp [baseOf, MetaMat.dot, MetaMat.entry, MetaMat.rows]

theorem C01.meta_leaf_bcsr (A : Bcsr Rat) (hA : A.wf = true) (hbh : 0 < A.bh) (hbw : 0 < A.bw) :
    (MetaMat.bcsr A).Ok := by
  constructor
  · intro ax x y r ali h1 h2 h3 h4 h5
    cases ax with
    | none =>
      obtain ⟨r', e, v⟩ := C01.bcsr_applyQ_spec A hA hbh hbw x r false h2 h4
      refine ⟨r', e, by simpa [MetaMat.rows, MetaMat.cols] using Bcsr.apply_size _ A x r r' false e, ?_⟩
      intro i hi
      rw [v i hi]; simp [baseOf, MetaMat.dot, MetaMat.entry, MetaMat.cols]
    | some al =>
      obtain ⟨r', e, v⟩ := C01.bcsr_applyAxpyQ_spec A hA hbh hbw x y r al (h1 al rfl) ali false h2 (h3 rfl) h4 h5
      refine ⟨r', e, by simpa [MetaMat.rows, MetaMat.cols] using Bcsr.applyAxpy_size _ A x y r r' al ali false e, ?_⟩
      intro i hi
      rw [v i hi]; simp [baseOf, MetaMat.dot, MetaMat.entry, MetaMat.cols]
  · intro _ ax x y r ali h1 h2 h3 h4 h5
    cases ax with
    | none =>
      obtain ⟨r', e, v⟩ := C01.bcsr_applyQ_spec A hA hbh hbw x r true h2 h4
      refine ⟨r', e, by simpa [MetaMat.rows, MetaMat.cols] using Bcsr.apply_size _ A x r r' true e, ?_⟩
      intro i hi
      rw [v i hi]; simp [baseOf, MetaMat.dot, MetaMat.entry, MetaMat.rows]
    | some al =>
      obtain ⟨r', e, v⟩ := C01.bcsr_applyAxpyQ_spec A hA hbh hbw x y r al (h1 al rfl) ali true h2 (h3 rfl) h4 h5
      refine ⟨r', e, by simpa [MetaMat.rows, MetaMat.cols] using Bcsr.applyAxpy_size _ A x y r r' al ali true e, ?_⟩
      intro i hi
      rw [v i hi]; simp [baseOf, MetaMat.dot, MetaMat.entry, MetaMat.rows]

theorem C01.meta_leaf_dense (A : Dense Rat) (_hA : A.wf = true) (h1r : 0 < A.rows) (h1c : 0 < A.cols) :
    (MetaMat.dense A).Ok := by
  constructor
  · intro ax x y r ali h1 h2 h3 h4 h5
    cases ax with
    | none =>
      obtain ⟨r', e, v⟩ := C01.dense_applyQ_spec A x r false ⟨h1r, h1c⟩ h2 h4
      refine ⟨r', e, by simpa [MetaMat.rows, MetaMat.cols] using Dense.apply_size _ A x r r' false e, ?_⟩
      intro i hi
      rw [v i hi]; simp [baseOf, MetaMat.dot, MetaMat.entry, MetaMat.cols]
    | some al =>
      obtain ⟨r', e, v⟩ := C01.dense_applyAxpyQ_spec A x y r al (h1 al rfl) ali false ⟨h1r, h1c⟩ h2 (h3 rfl) h4 h5
      refine ⟨r', e, by simpa [MetaMat.rows, MetaMat.cols] using Dense.applyAxpy_size _ A x y r r' al ali false e, ?_⟩
      intro i hi
      rw [v i hi]; simp [baseOf, MetaMat.dot, MetaMat.entry, MetaMat.cols]
  · intro _ ax x y r ali h1 h2 h3 h4 h5
    cases ax with
    | none =>
      obtain ⟨r', e, v⟩ := C01.dense_applyQ_spec A x r true ⟨h1r, h1c⟩ h2 h4
      refine ⟨r', e, by simpa [MetaMat.rows, MetaMat.cols] using Dense.apply_size _ A x r r' true e, ?_⟩
      intro i hi
      rw [v i hi]; simp [baseOf, MetaMat.dot, MetaMat.entry, MetaMat.rows]
    | some al =>
      obtain ⟨r', e, v⟩ := C01.dense_applyAxpyQ_spec A x y r al (h1 al rfl) ali true ⟨h1r, h1c⟩ h2 (h3 rfl) h4 h5
      refine ⟨r', e, by simpa [MetaMat.rows, MetaMat.cols] using Dense.applyAxpy_size _ A x y r r' al ali true e, ?_⟩
      intro i hi
      rw [v i hi]; simp [baseOf, MetaMat.dot, MetaMat.entry, MetaMat.rows]

theorem C01.meta_leaf_cscr (A : Cscr Rat) (hA : A.wf = true) : (MetaMat.cscr A).Ok := by
  constructor
  · intro ax x y r ali h1 h2 h3 h4 h5
    cases ax with
    | none =>
      obtain ⟨r', e, v⟩ := C01.cscr_applyQ_spec A hA x r false h2 h4
      refine ⟨r', e, ?_, ?_⟩
      · simpa [MetaMat.rows, MetaMat.cols] using Cscr.apply_size _ A x r r' false e
      · intro i hi
        rw [v i hi]; simp [baseOf, MetaMat.dot, MetaMat.entry, MetaMat.cols]
    | some al =>
      obtain ⟨r', e, v⟩ := C01.cscr_applyAxpyQ_spec A hA x y r al (h1 al rfl) ali false h2 (h3 rfl) h4 h5
      refine ⟨r', e, ?_, ?_⟩
      · simpa [MetaMat.rows, MetaMat.cols] using Cscr.applyAxpy_size _ A x y r r' al ali false e
      · intro i hi
        rw [v i hi]; simp [baseOf, MetaMat.dot, MetaMat.entry, MetaMat.cols]
  · intro _ ax x y r ali h1 h2 h3 h4 h5
    cases ax with
    | none =>
      obtain ⟨r', e, v⟩ := C01.cscr_applyQ_spec A hA x r true h2 h4
      refine ⟨r', e, ?_, ?_⟩
      · simpa [MetaMat.rows, MetaMat.cols] using Cscr.apply_size _ A x r r' true e
      · intro i hi
        rw [v i hi]; simp [baseOf, MetaMat.dot, MetaMat.entry, MetaMat.rows]
    | some al =>
      obtain ⟨r', e, v⟩ := C01.cscr_applyAxpyQ_spec A hA x y r al (h1 al rfl) ali true h2 (h3 rfl) h4 h5
      refine ⟨r', e, ?_, ?_⟩
      · simpa [MetaMat.rows, MetaMat.cols] using Cscr.applyAxpy_size _ A x y r r' al ali true e
      · intro i hi
        rw [v i hi]; simp [baseOf, MetaMat.dot, MetaMat.entry, MetaMat.rows]

theorem C01.meta_leaf_banded (A : Banded Rat) (hA : A.wf = true) (hne : 0 < A.rows) : (MetaMat.banded A).Ok := by
  constructor
  · intro ax x y r ali h1 h2 h3 h4 h5
    cases ax with
    | none =>
      obtain ⟨r', e, v⟩ := C01.banded_applyQ_spec A hA x r h2 h4 hne
      refine ⟨r', e, ?_, ?_⟩
      · simpa [MetaMat.rows] using Banded.apply_size _ A x r r' e
      · intro i hi
        rw [v i hi]; simp [baseOf, MetaMat.dot, MetaMat.entry, MetaMat.cols]
    | some al =>
      obtain ⟨r', e, v⟩ := C01.banded_applyAxpyQ_spec A hA x y r al (h1 al rfl) ali h2 (h3 rfl) h4 hne h5
      refine ⟨r', e, ?_, ?_⟩
      · simpa [MetaMat.rows] using Banded.applyAxpy_size _ A x y r r' al ali e
      · intro i hi
        rw [v i hi]; simp [baseOf, MetaMat.dot, MetaMat.entry, MetaMat.cols]
  · intro h
    simp [MetaMat.noBanded] at h

/-- **Meta-matrices** (`PowerRow/Col/Diag/FullMatrix`, `TupleMatrix(Row)`, `SaddlePointMatrix`, arbitrarily nested over
    CSR / BCSR / CSCR / banded / dense leaves; the transposed members for trees without a banded leaf, which does
    not offer them): by structural induction over the first/rest recursion, every `apply` member
    (`ax = none`: `apply(r, x)`; `ax = some alpha`, `|alpha| ≥ eps`: `apply(r, x, y, alpha)`; `tr`: transposed; with or
    without `r` aliasing `y`) returns normally with the product of the **block matrix of its parts**
    (`MetaMat.entry`) on the concatenated Tuple/Power vectors. -/
theorem C01.metamat_apply_eq (M : MetaMat Rat) (hM : M.wf = true) (tr : Bool) (ax : Option Rat)
    (hax : ∀ al, ax = some al → epsQ ≤ |al|) (x y r : Array Rat) (ali : Bool)
    (hr : r.size = if tr then M.cols else M.rows) (hy : ax.isSome = true → y.size = if tr then M.cols else M.rows)
    (hx : x.size = if tr then M.rows else M.cols) (hry : ali = true → r = y)
    (hnb : tr = true → M.noBanded = true) :
    ∃ r', M.goQ tr ax x y r ali = some r' ∧ r'.size = (if tr then M.cols else M.rows) ∧
      ∀ i, i < (if tr then M.cols else M.rows) → r'.getD i 0 =
        (match ax with | none => 0 | some _ => y.getD i 0) + ax.getD 1 *
          (if tr then ∑ k ∈ range M.rows, M.entry k i * x.getD k 0 else ∑ k ∈ range M.cols, M.entry i k * x.getD k 0) := by
  have ok := MetaMat.ok_of_leaves C01.meta_leaf_csr C01.meta_leaf_bcsr C01.meta_leaf_dense C01.meta_leaf_cscr
    C01.meta_leaf_banded M hM
  cases tr
  · simp only [Bool.false_eq_true, if_false] at hr hy hx ⊢
    obtain ⟨r', e1, e2, e3⟩ := ok.1 ax x y r ali hax hr hy hx hry
    exact ⟨r', e1, e2, fun i hi => by rw [e3 i hi]; cases ax <;> simp [baseOf, MetaMat.dot]⟩
  · simp only [if_true] at hr hy hx ⊢
    obtain ⟨r', e1, e2, e3⟩ := ok.2 (hnb rfl) ax x y r ali hax hr hy hx hry
    exact ⟨r', e1, e2, fun i hi => by rw [e3 i hi]; cases ax <;> simp [baseOf, MetaMat.dot]⟩

/-- **The early-out / eps-envelope clause for every leaf format and both directions.** For `|alpha| < eps` (this includes
    `alpha = 0`) `apply(r, x, y, alpha)` and `apply_transposed(r, x, y, alpha)` of CSR, CSCR, BCSR, banded and dense
    matrices return `y` itself (for the banded format even in the transposed direction: the early-out comes before the
    "not implemented" abort), and the exact result `y + alpha·A x` (resp. `Aᵀ x`) differs from it componentwise by at most
    `eps·(|A||x|)_i` — the property's rounding envelope. -/
theorem C01.tiny_alpha_envelope (alpha : Rat) (hal : |alpha| < epsQ) (x y r : Array Rat) (ali tr : Bool)
    (hry : ali = true → r = y) :
    (∀ A : Csr Rat, r.size = (if tr then A.cols else A.rows) → y.size = (if tr then A.cols else A.rows) →
        x.size = (if tr then A.rows else A.cols) → A.applyAxpyQ x y r alpha ali tr = some y) ∧
    (∀ A : Cscr Rat, r.size = (if tr then A.cols else A.rows) → y.size = (if tr then A.cols else A.rows) →
        x.size = (if tr then A.rows else A.cols) → A.applyAxpyQ x y r alpha ali tr = some y) ∧
    (∀ A : Bcsr Rat, r.size = (if tr then A.cols * A.bw else A.rows * A.bh) →
        y.size = (if tr then A.cols * A.bw else A.rows * A.bh) →
        x.size = (if tr then A.rows * A.bh else A.cols * A.bw) → A.applyAxpyQ x y r alpha ali tr = some y) ∧
    (∀ A : Banded Rat, r.size = (if tr then A.cols else A.rows) → y.size = (if tr then A.cols else A.rows) →
        x.size = (if tr then A.rows else A.cols) → A.applyAxpyQ x y r alpha ali tr = some y) ∧
    (∀ A : Dense Rat, r.size = (if tr then A.cols else A.rows) → y.size = (if tr then A.cols else A.rows) →
        x.size = (if tr then A.rows else A.cols) → A.applyAxpyQ x y r alpha ali tr = some y) ∧
    (∀ (e xv : Nat → Rat) (n : Nat) (yi : Rat),
        |(yi + alpha * ∑ k ∈ range n, e k * xv k) - yi| ≤ epsQ * ∑ k ∈ range n, |e k| * |xv k|) := by
  have ht : tinyRat epsQ alpha = true := (C01.tinyRat_iff _ _).mpr hal
  have hyy : (if ali then r else y) = y := by
    cases ali
    · rfl
    · exact hry rfl
  refine ⟨?_, ?_, ?_, ?_, ?_, fun e xv n yi => tiny_envelope alpha epsQ yi hal e xv n⟩
  · intro A h1 h2 h3
    exact C01.csr_axpy_tiny_alpha (tinyRat epsQ) A x y r alpha ht ali tr h1 h2 h3 hry
  · intro A h1 h2 h3
    cases tr <;> simp_all [Cscr.applyAxpyQ, Cscr.applyAxpy]
  · intro A h1 h2 h3
    cases tr <;> simp_all [Bcsr.applyAxpyQ, Bcsr.applyAxpy]
  · intro A h1 h2 h3
    by_cases h0 : r.size = 0
    · have e : r = y := by
        exact (Array.eq_empty_of_size_eq_zero h0).trans (Array.eq_empty_of_size_eq_zero (by rw [h2, ← h1]; exact h0)).symm
      subst e
      cases tr <;> simp_all [Banded.applyAxpyQ, Banded.applyAxpy]
    · cases tr <;> simp_all [Banded.applyAxpyQ, Banded.applyAxpy]
  · intro A h1 h2 h3
    by_cases h0 : r.size = 0
    · have e : r = y := by
        exact (Array.eq_empty_of_size_eq_zero h0).trans (Array.eq_empty_of_size_eq_zero (by rw [h2, ← h1]; exact h0)).symm
      subst e
      cases tr <;> simp_all [Dense.applyAxpyQ, Dense.applyAxpy]
    · cases tr <;> simp_all [Dense.applyAxpyQ, Dense.applyAxpy]

/-- **flat overloads = Tuple/PowerVector overloads, for every nesting and every leaf kind.** `goQ` is the model of the
    members with flat `DenseVector` operands: it addresses the parts of `r`, `x`, `y` by the explicit offsets of the C++
    (`DenseVector r_rest(r, rest().rows(), first().rows())` …; a wrong offset changes `goQ`). `goSQ` is the model of the
    members with Tuple/PowerVector operands (navigation by `first()` / `rest()` on vector trees). For vectors of the
    compatible shapes both return the same pod array, and the structured member preserves the shape of `r`.
    Together with `metamat_apply_eq` (stated for `goQ`) this proves the structured members correct as well. -/
theorem C01.meta_flat_eq_structured (M : MetaMat Rat) (tr : Bool) (ax : Option Rat) (x y r : MetaVec Rat) (ali : Bool)
    (hx : M.fits tr x = true) (hy : M.fits (!tr) y = true) (hr : M.fits (!tr) r = true) :
    (M.goSQ tr ax x y r ali).map MetaVec.flatten = M.goQ tr ax x.flatten y.flatten r.flatten ali ∧
    ∀ r', M.goSQ tr ax x y r ali = some r' → MetaVec.sameShape r r' = true :=
  MetaMat.goS_equiv M tr ax x y r ali hx hy hr

/-- **What the driver prints for the Tuple/PowerVector members is tied to `goQ` by theorem**: the driver unflattens the
    flat operands of the case line (`MetaMat.unflatten`, the model of `create_vector_l/r` + fill), evaluates the decidable
    shape test `fits` on the three trees (it is `true` on every generated case, else the driver prints ABORT), runs the tree
    model `goSQ` and flattens the result. `flatten ∘ unflatten = id` and `meta_flat_eq_structured` give: that output is
    exactly `goQ` on the flat operands, to which `metamat_apply_eq` / `metamat_tiny_alpha` apply. -/
theorem C01.meta_structured_tied (M : MetaMat Rat) (tr : Bool) (ax : Option Rat) (x y r : Array Rat) (ali : Bool)
    (hx : x.size = if tr then M.rows else M.cols) (hy : y.size = if tr then M.cols else M.rows)
    (hr : r.size = if tr then M.cols else M.rows)
    (hfx : M.fits tr (M.unflatten tr x) = true) (hfy : M.fits (!tr) (M.unflatten (!tr) y) = true)
    (hfr : M.fits (!tr) (M.unflatten (!tr) r) = true) :
    (M.goSQ tr ax (M.unflatten tr x) (M.unflatten (!tr) y) (M.unflatten (!tr) r) ali).map MetaVec.flatten
      = M.goQ tr ax x y r ali := by
  have h := (MetaMat.goS_equiv M tr ax _ _ _ ali hfx hfy hfr).1
  rw [h, MetaMat.flatten_unflatten M tr x (by simpa using hx),
    MetaMat.flatten_unflatten M (!tr) y (by cases tr <;> simpa using hy),
    MetaMat.flatten_unflatten M (!tr) r (by cases tr <;> simpa using hr)]

/-- Meta-matrices, the `|alpha| < eps` branch (this includes `alpha = 0`): every leaf takes its early-out, so every
    `apply(r, x, y, alpha)` / `apply_transposed(r, x, y, alpha)` of every nesting returns `y` itself; as for the leaves
    (`csr_applyAxpyQ_tiny`) this differs from the exact `y + alpha·M x` by at most `eps·(|M||x|)_i`. -/
theorem C01.metamat_tiny_alpha (M : MetaMat Rat) (hM : M.wf = true) (tr : Bool) (al : Rat) (hal : |al| < epsQ)
    (x y r : Array Rat) (ali : Bool)
    (hr : r.size = if tr then M.cols else M.rows) (hy : y.size = if tr then M.cols else M.rows)
    (hx : x.size = if tr then M.rows else M.cols) (hry : ali = true → r = y) :
    M.goQ tr (some al) x y r ali = some y := by
  have leaf_csr : ∀ A : Csr Rat, (MetaMat.csr A).TinyOk := by
    intro A
    constructor
    · intro al x y r ali h1 h2 h3 h4 h5
      exact C01.csr_axpy_tiny_alpha (tinyRat epsQ) A x y r al ((C01.tinyRat_iff _ _).mpr h1) ali false
        (by simpa [MetaMat.rows, MetaMat.cols] using h2) (by simpa [MetaMat.rows, MetaMat.cols] using h3)
        (by simpa [MetaMat.rows, MetaMat.cols] using h4) h5
    · intro al x y r ali h1 h2 h3 h4 h5
      exact C01.csr_axpy_tiny_alpha (tinyRat epsQ) A x y r al ((C01.tinyRat_iff _ _).mpr h1) ali true
        (by simpa [MetaMat.rows, MetaMat.cols] using h2) (by simpa [MetaMat.rows, MetaMat.cols] using h3)
        (by simpa [MetaMat.rows, MetaMat.cols] using h4) h5
  have leaf_bcsr : ∀ A : Bcsr Rat, (MetaMat.bcsr A).TinyOk := by
    intro A
    constructor
    · intro al x y r ali h1 h2 h3 h4 h5
      have ht := (C01.tinyRat_iff epsQ al).mpr h1
      have hyy : (if ali then r else y) = y := by cases ali; rfl; exact h5 rfl
      simp only [MetaMat.rows, MetaMat.cols] at h2 h3 h4
      simp [MetaMat.goQ, MetaMat.go, Bcsr.applyAxpy, h2, h3, h4, ht, hyy]
    · intro al x y r ali h1 h2 h3 h4 h5
      have ht := (C01.tinyRat_iff epsQ al).mpr h1
      have hyy : (if ali then r else y) = y := by cases ali; rfl; exact h5 rfl
      simp only [MetaMat.rows, MetaMat.cols] at h2 h3 h4
      simp [MetaMat.goQ, MetaMat.go, Bcsr.applyAxpy, h2, h3, h4, ht, hyy]
  have leaf_dense : ∀ A : Dense Rat, 0 < A.rows → 0 < A.cols → (MetaMat.dense A).TinyOk := by
    intro A hr0 hc0
    constructor
    · intro al x y r ali h1 h2 h3 h4 h5
      have ht := (C01.tinyRat_iff epsQ al).mpr h1
      have hyy : (if ali then r else y) = y := by cases ali; rfl; exact h5 rfl
      simp only [MetaMat.rows, MetaMat.cols] at h2 h3 h4
      simp [MetaMat.goQ, MetaMat.go, Dense.applyAxpy, h2, h3, h4, ht, hyy]; omega
    · intro al x y r ali h1 h2 h3 h4 h5
      have ht := (C01.tinyRat_iff epsQ al).mpr h1
      have hyy : (if ali then r else y) = y := by cases ali; rfl; exact h5 rfl
      simp only [MetaMat.rows, MetaMat.cols] at h2 h3 h4
      simp [MetaMat.goQ, MetaMat.go, Dense.applyAxpy, h2, h3, h4, ht, hyy]; omega
  have leaf_cscr : ∀ A : Cscr Rat, (MetaMat.cscr A).TinyOk := by
    intro A
    constructor
    · intro al x y r ali h1 h2 h3 h4 h5
      have ht := (C01.tinyRat_iff epsQ al).mpr h1
      have hyy : (if ali then r else y) = y := by cases ali; rfl; exact h5 rfl
      simp only [MetaMat.rows, MetaMat.cols] at h2 h3 h4
      simp [MetaMat.goQ, MetaMat.go, Cscr.applyAxpy, h2, h3, h4, ht, hyy]
    · intro al x y r ali h1 h2 h3 h4 h5
      have ht := (C01.tinyRat_iff epsQ al).mpr h1
      have hyy : (if ali then r else y) = y := by cases ali; rfl; exact h5 rfl
      simp only [MetaMat.rows, MetaMat.cols] at h2 h3 h4
      simp [MetaMat.goQ, MetaMat.go, Cscr.applyAxpy, h2, h3, h4, ht, hyy]
  have leaf_banded : ∀ A : Banded Rat, 0 < A.rows → (MetaMat.banded A).TinyOk := by
    intro A hr0
    constructor
    · intro al x y r ali h1 h2 h3 h4 h5
      have ht := (C01.tinyRat_iff epsQ al).mpr h1
      have hyy : (if ali then r else y) = y := by cases ali; rfl; exact h5 rfl
      simp only [MetaMat.rows, MetaMat.cols] at h2 h3 h4
      simp [MetaMat.goQ, MetaMat.go, Banded.applyAxpy, h2, h3, h4, ht, hyy]; omega
    · intro al x y r ali h1 h2 h3 h4 h5
      have ht := (C01.tinyRat_iff epsQ al).mpr h1
      have hyy : (if ali then r else y) = y := by cases ali; rfl; exact h5 rfl
      simp only [MetaMat.rows, MetaMat.cols] at h2 h3 h4
      by_cases h0 : r.size = 0
      · have e : r = y := by
          exact (Array.eq_empty_of_size_eq_zero h0).trans (Array.eq_empty_of_size_eq_zero (by rw [h3, ← h2]; exact h0)).symm
        subst e
        simp [MetaMat.goQ, MetaMat.go, Banded.applyAxpy, h2, h3, h4, ht]
      · have h0' : ¬ A.cols = 0 := by rw [← h2]; exact h0
        simp [MetaMat.goQ, MetaMat.go, Banded.applyAxpy, h2, h3, h4, ht, hyy, h0']
  have ok := MetaMat.tiny_of_leaves leaf_csr leaf_bcsr leaf_dense leaf_cscr leaf_banded M hM
  cases tr
  · exact ok.1 al x y r ali hal (by simpa using hr) (by simpa using hy) (by simpa using hx) hry
  · exact ok.2 al x y r ali hal (by simpa using hr) (by simpa using hy) (by simpa using hx) hry

/-- Tier B, the rounding clause for an abstract floating-point arithmetic `M` satisfying the standard model
    (`fl(a∘b) = (a∘b)(1+δ)`, `|δ| ≤ u`): the dot-product recurrence `s ← fl(s + fl(a_k·b_k))` started at 0 satisfies
    `|fl_dot − Σ a_k b_k| ≤ ((1+u)^(n+1) − 1)·Σ|a_k b_k|`  (`≤ γ_{n+1}·|a|ᵀ|b|`). -/
theorem C01.fl_dot_error (M : FlModel) (a b : Nat → Rat) (L : List Nat) :
    |L.foldl (fun acc k => M.add acc (M.mul (a k) (b k))) 0 - (L.map fun k => a k * b k).sum|
      ≤ ((1 + M.u) ^ (L.length + 1) - 1) * (L.map fun k => |a k * b k|).sum := by
  have h := fl_fold M a b L 0 0 0 M.u (le_refl _) (le_refl _) (by simp) (by simp)
  have e : (1 + M.u) ^ L.length * (M.u + 1) - 1 = (1 + M.u) ^ (L.length + 1) - 1 := by ring
  simpa [e] using h

/-- … lifted to the CSR kernel: `Csr.rowSum` (the model function the driver runs at ℚ) instantiated at the scalar type
    `FlNum M` *is* the floating-point row loop of `csr_generic`; its result differs from the exact row sum of the stored
    entries by at most `((1+u)^(n_i+1) − 1)·Σ_k |val_k|·|x_{col k}|` — a bound proportional to `(|A||x|)_i`, which is the
    property's rounding envelope (`n_i` = stored entries of row `i`). -/
theorem C01.fl_csr_row_error (M : FlModel) (A : Csr (FlNum M)) (x : Array (FlNum M)) (i : Nat) :
    |(A.rowSum x i).val - ((List.range' (A.rowBegin i) (A.rowEnd i - A.rowBegin i)).map
        fun k => (A.val.getD k 0).val * (x.getD (A.colInd.getD k 0) 0).val).sum|
      ≤ ((1 + M.u) ^ ((List.range' (A.rowBegin i) (A.rowEnd i - A.rowBegin i)).length + 1) - 1)
          * ((List.range' (A.rowBegin i) (A.rowEnd i - A.rowBegin i)).map
              fun k => |(A.val.getD k 0).val * (x.getD (A.colInd.getD k 0) 0).val|).sum :=
  fl_rowSum_error M A x i

/-- **The standard backward-error bound, stated once for the fold all row loops share**: for an abstract floating-point
    arithmetic `M` (standard model, unit roundoff `u`) the loop `sum = 0; for k ∈ [s, e): sum = fl(sum + fl(a_k·b_k))`
    satisfies `|fl(Σ a_k b_k) − Σ a_k b_k| ≤ γ_{n+1}·Σ|a_k||b_k|` with `γ_m = m·u/(1 − m·u)`, `n = e − s`, `(n+1)·u < 1`.
    (`n+1` instead of `n` because the abstract model may also round the first addition onto 0.) -/
theorem C01.fl_rowloop_gamma (M : FlModel) (a b : Nat → FlNum M) (s e : Nat)
    (hn : ((e - s + 1 : Nat) : Rat) * M.u < 1) :
    |(foldRange s e (fun sum k => sum + a k * b k) 0).val - ∑ k ∈ Finset.Ico s e, (a k).val * (b k).val|
      ≤ gammaFl M.u (e - s + 1) * ∑ k ∈ Finset.Ico s e, |(a k).val| * |(b k).val| :=
  fl_foldRange_error M a b s e hn

/-- … and without the first-addition slack: for an arithmetic that adds onto 0 exactly (`fl(0 + b) = b`, as IEEE does) the
    same loop over `n = e − s ≥ 1` terms meets the textbook bound **`γ_n`** -/
theorem C01.fl_rowloop_gamma_exact0 (M : FlModel) (h0 : ∀ b, M.add 0 b = b) (a b : Nat → FlNum M) (s e : Nat)
    (hse : s < e) (hn : ((e - s : Nat) : Rat) * M.u < 1) :
    |(foldRange s e (fun sum k => sum + a k * b k) 0).val - ∑ k ∈ Finset.Ico s e, (a k).val * (b k).val|
      ≤ gammaFl M.u (e - s) * ∑ k ∈ Finset.Ico s e, |(a k).val| * |(b k).val| :=
  fl_foldRange_error_exact0 M h0 a b s e hse hn

/-- the step that follows every row loop, `r_i = fl(fl(beta·r_i) + fl(alpha·ŝ))` (dense / banded order; the CSR-type kernels
    compute `fl(fl(ŝ·a) + fl(b·r_i))`, the same three roundings): with the row-loop error `|ŝ − s| ≤ E` from the theorems
    below, `|r̂_i − (beta·r_i + alpha·s)| ≤ (2u+u²)(|beta·r_i| + |alpha·s|) + (1+u)²·|alpha|·E` — again proportional to
    `|alpha|·(|A||x|)_i + |beta·y_i|`. -/
theorem C01.fl_final_step (M : FlModel) (beta ri alpha sh s E : Rat) (hE : |sh - s| ≤ E) :
    |M.add (M.mul beta ri) (M.mul alpha sh) - (beta * ri + alpha * s)|
      ≤ (2 * M.u + M.u * M.u) * (|beta * ri| + |alpha * s|) + (1 + M.u) * (1 + M.u) * (|alpha| * E) :=
  FeatModel.LA.fl_final_step M beta ri alpha sh s E hE

/-- … instantiated at the CSR row loop (`Csr.rowSum` at the scalar type `FlNum M`) -/
theorem C01.fl_csr_row_gamma (M : FlModel) (A : Csr (FlNum M)) (x : Array (FlNum M)) (i : Nat)
    (hn : ((A.rowEnd i - A.rowBegin i + 1 : Nat) : Rat) * M.u < 1) :
    |(A.rowSum x i).val - ∑ k ∈ Finset.Ico (A.rowBegin i) (A.rowEnd i),
        (A.val.getD k 0).val * (x.getD (A.colInd.getD k 0) 0).val|
      ≤ gammaFl M.u (A.rowEnd i - A.rowBegin i + 1) * ∑ k ∈ Finset.Ico (A.rowBegin i) (A.rowEnd i),
        |(A.val.getD k 0).val| * |(x.getD (A.colInd.getD k 0) 0).val| :=
  fl_foldRange_error M (fun k => A.val.getD k 0) (fun k => x.getD (A.colInd.getD k 0) 0) _ _ hn

/-- … at the CSCR stored-row loop (`Cscr.rowSum`) -/
theorem C01.fl_cscr_row_gamma (M : FlModel) (A : Cscr (FlNum M)) (x : Array (FlNum M)) (nz : Nat)
    (hn : ((A.rowPtr.getD (nz + 1) 0 - A.rowPtr.getD nz 0 + 1 : Nat) : Rat) * M.u < 1) :
    |(A.rowSum x nz).val - ∑ k ∈ Finset.Ico (A.rowPtr.getD nz 0) (A.rowPtr.getD (nz + 1) 0),
        (A.val.getD k 0).val * (x.getD (A.colInd.getD k 0) 0).val|
      ≤ gammaFl M.u (A.rowPtr.getD (nz + 1) 0 - A.rowPtr.getD nz 0 + 1)
        * ∑ k ∈ Finset.Ico (A.rowPtr.getD nz 0) (A.rowPtr.getD (nz + 1) 0),
          |(A.val.getD k 0).val| * |(x.getD (A.colInd.getD k 0) 0).val| :=
  fl_foldRange_error M (fun k => A.val.getD k 0) (fun k => x.getD (A.colInd.getD k 0) 0) _ _ hn

/-- … at the row loop of `dense_generic` (the inner fold of `Dense.kernel`, verbatim) -/
theorem C01.fl_dense_row_gamma (M : FlModel) (A : Dense (FlNum M)) (x : Array (FlNum M)) (row : Nat)
    (hn : ((A.cols - 0 + 1 : Nat) : Rat) * M.u < 1) :
    |(foldRange 0 A.cols (fun sum col => sum + A.val.getD (row * A.cols + col) 0 * x.getD col 0) 0).val
        - ∑ k ∈ Finset.Ico 0 A.cols, (A.val.getD (row * A.cols + k) 0).val * (x.getD k 0).val|
      ≤ gammaFl M.u (A.cols - 0 + 1) * ∑ k ∈ Finset.Ico 0 A.cols, |(A.val.getD (row * A.cols + k) 0).val| * |(x.getD k 0).val| :=
  fl_foldRange_error M (fun k => A.val.getD (row * A.cols + k) 0) (fun k => x.getD k 0) 0 A.cols hn

/-- … at the band loop of `apply_banded_generic` for the bands `i ≤ a < j` of row `l` (the inner fold of
    `Banded.bandedLoop`, verbatim) -/
theorem C01.fl_banded_row_gamma (M : FlModel) (A : Banded (FlNum M)) (x : Array (FlNum M)) (i j l : Nat)
    (hn : ((j - i + 1 : Nat) : Rat) * M.u < 1) :
    |(foldRange i j (fun s a => s + A.val.getD (a * A.rows + l) 0 * x.getD (l + A.offsets.getD a 0 + 1 - A.rows) 0) 0).val
        - ∑ a ∈ Finset.Ico i j, (A.val.getD (a * A.rows + l) 0).val * (x.getD (l + A.offsets.getD a 0 + 1 - A.rows) 0).val|
      ≤ gammaFl M.u (j - i + 1) * ∑ a ∈ Finset.Ico i j,
          |(A.val.getD (a * A.rows + l) 0).val| * |(x.getD (l + A.offsets.getD a 0 + 1 - A.rows) 0).val| :=
  fl_foldRange_error M (fun a => A.val.getD (a * A.rows + l) 0)
    (fun a => x.getD (l + A.offsets.getD a 0 + 1 - A.rows) 0) i j hn

/-- … at the block-row loop of `bcsr_generic` (`Bcsr.blockRowSum`, all block shapes): two multiplications per term
    (`add_mat_vec_mult` multiplies by its `alpha = 1`), `N = (blocks of the row)·bw` terms: `γ_{N+2}` -/
theorem C01.fl_bcsr_blockrow_gamma (M : FlModel) (A : Bcsr (FlNum M)) (x : Array (FlNum M)) (row h : Nat)
    (hn : ((((A.rowPtr.getD (row + 1) 0 - A.rowPtr.getD row 0) * A.bw + 2 : Nat)) : Rat) * M.u < 1) :
    |(A.blockRowSum x row h).val -
        (((List.range' (A.rowPtr.getD row 0) (A.rowPtr.getD (row + 1) 0 - A.rowPtr.getD row 0)).flatMap
          fun i => (List.range' 0 (A.bw - 0)).map fun w => (i, w)).map
          fun p => (A.val.getD (p.1 * A.bh * A.bw + h * A.bw + p.2) 0).val
            * (x.getD (A.colInd.getD p.1 0 * A.bw + p.2) 0).val).sum|
      ≤ gammaFl M.u ((A.rowPtr.getD (row + 1) 0 - A.rowPtr.getD row 0) * A.bw + 2) *
        (((List.range' (A.rowPtr.getD row 0) (A.rowPtr.getD (row + 1) 0 - A.rowPtr.getD row 0)).flatMap
          fun i => (List.range' 0 (A.bw - 0)).map fun w => (i, w)).map
          fun p => |(A.val.getD (p.1 * A.bh * A.bw + h * A.bw + p.2) 0).val
            * (x.getD (A.colInd.getD p.1 0 * A.bw + p.2) 0).val|).sum :=
  fl_bcsr_blockRow_error M A x row h hn

/-- **32-bit indices.** All index arithmetic of the kernels runs in the 64-bit `Index` (largest intermediates:
    `rows + columns + 1` in `start_offset`, `noo·rows` = size of `val` for `val[a*rows + l]`, `nnz·bh·bw` for block pointers),
    so `IT_ = uint32` only matters for what is *stored* in `row_ptr` / `col_ind` and as the row-loop variable (≤ nnz).
    With `nnz < 2^32` and `cols ≤ 2^32` passing the index arrays through 32-bit storage is the identity, i.e. the
    unbounded-`Nat` model is faithful (every theorem about `A` is a theorem about `A.store32`). -/
theorem C01.index32_csr_faithful {α : Type} (A : Csr α) (hA : A.wf = true) (hnnz : A.val.size < 2 ^ 32)
    (hcols : A.cols ≤ 2 ^ 32) : A.store32 = A :=
  Csr.store32_eq ((Csr.wf_iff A).mp hA) hnnz hcols

/-- … banded: the offsets are stored in 32 bits and `apply_banded_generic` evaluates `offsets[k] + 1 < rows` in 32 bits
    (`uint32 + int`); both agree with the `Nat` model iff `rows + columns ≤ 2^32` (then every offset is `≤ 2^32 − 2`).
    `firstUpper32` is the search loop with the 32-bit sum. -/
theorem C01.index32_banded_faithful {α : Type} (A : Banded α) (hA : A.wf = true) (hdim : A.rows + A.cols ≤ 2 ^ 32) :
    A.store32 = A ∧ A.firstUpper32 = A.firstUpper :=
  Banded.store32_eq ((Banded.wf_iff A).mp hA) hdim

/-- … CSCR (`row_ptr`, `col_ind` and `row_numbers` in 32 bits) and BCSR (`row_ptr`, `col_ind` count blocks; the value
    positions `i·bh·bw + …` are 64-bit pointer arithmetic) -/
theorem C01.index32_cscr_bcsr_faithful {α : Type} :
    (∀ A : Cscr α, A.wf = true → A.val.size < 2 ^ 32 → A.cols ≤ 2 ^ 32 → A.rows ≤ 2 ^ 32 → A.store32 = A) ∧
    (∀ A : Bcsr α, A.wf = true → A.colInd.size < 2 ^ 32 → A.cols ≤ 2 ^ 32 → A.store32 = A) :=
  ⟨fun A hA h1 h2 h3 => Cscr.store32_eq ((Cscr.wf_iff A).mp hA) h1 h2 h3,
   fun A hA h1 h2 => Bcsr.store32_eq ((Bcsr.wf_iff A).mp hA) h1 h2⟩

/-- the size hypothesis of `index32_banded_faithful` is sharp: a band with offset `2^32 − 1` (possible as soon as
    `rows + columns = 2^32 + 1`) makes the 32-bit sum `offsets[k] + 1` wrap to 0 -/
theorem C01.index32_banded_wraps : trunc32 ((2 ^ 32 - 1) + 1) = 0 := by decide

/-- CSR matrix × `DenseVectorBlocked` at the container level (ℚ): `apply(r, x)` and `apply(r, x, y, alpha)` (`|alpha| ≥ eps`)
    write every pod entry `idx = i·bs + k`, also in the rows without stored entries and in the `used_elements() == 0`
    early-out: `r_idx = y_idx + alpha·Σ_j A_ij·x[j·bs+k]`. -/
theorem C01.csrsb_applyQ_spec (bs : Nat) (hbs : 0 < bs) (A : Csr Rat) (hA : A.wf = true) (x y r : Array Rat)
    (ax : Option Rat) (hax : ∀ al, ax = some al → epsQ ≤ |al|) (ali : Bool)
    (hr : r.size = A.rows * bs) (hy : ax.isSome = true → y.size = A.rows * bs) (hx : x.size = A.cols * bs)
    (hry : ali = true → r = y) :
    ∃ r', (match ax with | none => A.applySBQ bs x r | some al => A.applyAxpySBQ bs x y r al ali) = some r' ∧
      r'.size = A.rows * bs ∧
      ∀ idx, idx < A.rows * bs → r'.getD idx 0 =
        (match ax with | none => 0 | some _ => y.getD idx 0) + ax.getD 1 *
          ∑ j ∈ range A.cols, A.entry (idx / bs) j * x.getD (j * bs + idx % bs) 0 := by
  have h := (Csr.wf_iff A).mp hA
  have ht0 := C01.tinyRat_zero_one.1
  have ht1 := C01.tinyRat_zero_one.2
  have hdm : ∀ idx, idx < A.rows * bs → idx / bs < A.rows ∧ idx % bs < bs ∧ idx / bs * bs + idx % bs = idx := by
    intro idx hidx
    refine ⟨(Nat.div_lt_iff_lt_mul hbs).mpr hidx, Nat.mod_lt _ hbs, ?_⟩
    rw [Nat.mul_comm]; exact Nat.div_add_mod idx bs
  cases ax with
  | none =>
    by_cases h0 : A.usedElements = 0
    · refine ⟨Array.replicate r.size 0, by simp [Csr.applySBQ, Csr.applySB, hr, hx, h0], by simp [hr], ?_⟩
      intro idx hidx
      obtain ⟨d1, _, _⟩ := hdm idx hidx
      rw [getD_replicate _ _ (by rw [hr]; exact hidx)]
      simp [Csr.entry_eq_zero_of_empty h h0 d1]
    · refine ⟨A.kernelSB (tinyRat epsQ) bs 1 0 x r r true, by simp [Csr.applySBQ, Csr.applySB, hr, hx, h0],
        by simp [Csr.kernelSB], ?_⟩
      intro idx hidx
      obtain ⟨d1, d2, d3⟩ := hdm idx hidx
      have := C01.csrsb_kernel_eq (tinyRat epsQ) bs A hA 1 0 x r r true (idx / bs) (idx % bs) d1 d2
      rw [d3] at this
      rw [this, ht0]; simp
  | some al =>
    have hal := hax al rfl
    have ht : tinyRat epsQ al = false := by
      rw [Bool.eq_false_iff]; intro h; exact absurd ((C01.tinyRat_iff _ _).mp h) (not_lt.mpr hal)
    have hyy : (if ali then r else y) = y := by
      cases ali
      · rfl
      · exact hry rfl
    have hy' := hy rfl
    by_cases h0 : A.usedElements = 0
    · refine ⟨if ali then r else y, by simp [Csr.applyAxpySBQ, Csr.applyAxpySB, hr, hx, hy', h0], by rw [hyy]; exact hy', ?_⟩
      intro idx hidx
      obtain ⟨d1, _, _⟩ := hdm idx hidx
      rw [hyy]
      simp [Csr.entry_eq_zero_of_empty h h0 d1]
    · refine ⟨A.kernelSB (tinyRat epsQ) bs al 1 x y r ali,
        by simp [Csr.applyAxpySBQ, Csr.applyAxpySB, hr, hx, hy', h0, ht], by simp [Csr.kernelSB], ?_⟩
      intro idx hidx
      obtain ⟨d1, d2, d3⟩ := hdm idx hidx
      have := C01.csrsb_kernel_eq (tinyRat epsQ) bs A hA al 1 x y r ali (idx / bs) (idx % bs) d1 d2
      rw [d3] at this
      rw [this, hyy, ht1]; simp; ring

/-- **The plain product writes EVERY entry of the output array**, whatever the re-used `r` held before (the driver and the
    harness pass a vector pre-filled with 777): for every leaf format and every vector kind, `apply(r, x)` (and
    `apply_transposed(r, x)` where offered) returns an array of exactly the result size whose entry `i` is `some ((A x)_i)` —
    in particular `some 0` for rows/blocks without stored entries (CSR empty rows, CSR × blocked vectors, CSCR rows that are
    not stored, BCSR block rows without blocks, banded rows without a band). The right-hand sides do not mention `r`:
    nothing of the old contents survives. (The axpy forms: `csr/cscr/bcsr/banded/dense_applyAxpyQ_spec`,
    `csrsb_applyQ_spec`, `axpy_ignores_old_r`.) -/
theorem C01.apply_writes_every_entry (x r : Array Rat) (tr : Bool) :
    (∀ A : Csr Rat, A.wf = true → r.size = (if tr then A.cols else A.rows) → x.size = (if tr then A.rows else A.cols) →
      ∃ r', A.applyQ x r tr = some r' ∧ r'.size = (if tr then A.cols else A.rows) ∧
        ∀ i, i < (if tr then A.cols else A.rows) → r'[i]? = some
          (if tr then ∑ k ∈ range A.rows, A.entry k i * x.getD k 0 else ∑ k ∈ range A.cols, A.entry i k * x.getD k 0)) ∧
    (∀ (bs : Nat) (A : Csr Rat), 0 < bs → A.wf = true → r.size = A.rows * bs → x.size = A.cols * bs →
      ∃ r', A.applySBQ bs x r = some r' ∧ r'.size = A.rows * bs ∧
        ∀ idx, idx < A.rows * bs → r'[idx]? = some (∑ j ∈ range A.cols, A.entry (idx / bs) j * x.getD (j * bs + idx % bs) 0)) ∧
    (∀ A : Cscr Rat, A.wf = true → r.size = (if tr then A.cols else A.rows) → x.size = (if tr then A.rows else A.cols) →
      ∃ r', A.applyQ x r tr = some r' ∧ r'.size = (if tr then A.cols else A.rows) ∧
        ∀ i, i < (if tr then A.cols else A.rows) → r'[i]? = some
          (if tr then ∑ k ∈ range A.rows, A.entry k i * x.getD k 0 else ∑ k ∈ range A.cols, A.entry i k * x.getD k 0)) ∧
    (∀ A : Bcsr Rat, A.wf = true → 0 < A.bh → 0 < A.bw → r.size = (if tr then A.cols * A.bw else A.rows * A.bh) →
      x.size = (if tr then A.rows * A.bh else A.cols * A.bw) →
      ∃ r', A.applyQ x r tr = some r' ∧ r'.size = (if tr then A.cols * A.bw else A.rows * A.bh) ∧
        ∀ i, i < (if tr then A.cols * A.bw else A.rows * A.bh) → r'[i]? = some
          (if tr then ∑ k ∈ range (A.rows * A.bh), A.entry k i * x.getD k 0
           else ∑ k ∈ range (A.cols * A.bw), A.entry i k * x.getD k 0)) ∧
    (∀ A : Banded Rat, A.wf = true → 0 < A.rows → r.size = A.rows → x.size = A.cols →
      ∃ r', A.applyQ x r false = some r' ∧ r'.size = A.rows ∧
        ∀ i, i < A.rows → r'[i]? = some (∑ k ∈ range A.cols, A.entry i k * x.getD k 0)) ∧
    (∀ A : Dense Rat, 0 < A.rows → 0 < A.cols → r.size = (if tr then A.cols else A.rows) →
      x.size = (if tr then A.rows else A.cols) →
      ∃ r', A.applyQ x r tr = some r' ∧ r'.size = (if tr then A.cols else A.rows) ∧
        ∀ i, i < (if tr then A.cols else A.rows) → r'[i]? = some
          (if tr then ∑ k ∈ range A.rows, A.entry k i * x.getD k 0 else ∑ k ∈ range A.cols, A.entry i k * x.getD k 0)) := by
  have key : ∀ (r' : Array Rat) (n : Nat) (v : Nat → Rat), r'.size = n → (∀ i, i < n → r'.getD i 0 = v i) →
      ∀ i, i < n → r'[i]? = some (v i) := by
    intro r' n v hs hv i hi
    have hi' : i < r'.size := by rw [hs]; exact hi
    have := hv i hi
    rw [Array.getD_eq_getD_getElem?, Array.getElem?_eq_getElem hi'] at this
    rw [Array.getElem?_eq_getElem hi']
    simpa using this
  refine ⟨?_, ?_, ?_, ?_, ?_, ?_⟩
  · intro A hA hr hx
    obtain ⟨r', e, v⟩ := C01.csr_applyQ_spec A hA x r tr hr hx
    have hs := Csr.apply_size _ A x r r' tr e
    exact ⟨r', e, hs, key r' _ _ hs v⟩
  · intro bs A hbs hA hr hx
    obtain ⟨r', e, hs, v⟩ := C01.csrsb_applyQ_spec bs hbs A hA x r r none (fun al h => by simp at h) true hr
      (fun h => by simp at h) hx (fun _ => rfl)
    refine ⟨r', e, hs, key r' _ _ hs (fun i hi => ?_)⟩
    have := v i hi
    simpa using this
  · intro A hA hr hx
    obtain ⟨r', e, v⟩ := C01.cscr_applyQ_spec A hA x r tr hr hx
    have hs := Cscr.apply_size _ A x r r' tr e
    exact ⟨r', e, hs, key r' _ _ hs v⟩
  · intro A hA hbh hbw hr hx
    obtain ⟨r', e, v⟩ := C01.bcsr_applyQ_spec A hA hbh hbw x r tr hr hx
    have hs := Bcsr.apply_size _ A x r r' tr e
    exact ⟨r', e, hs, key r' _ _ hs v⟩
  · intro A hA hne hr hx
    obtain ⟨r', e, v⟩ := C01.banded_applyQ_spec A hA x r hr hx hne
    have hs := Banded.apply_size _ A x r r' e
    exact ⟨r', e, hs, key r' _ _ hs v⟩
  · intro A h1 h2 hr hx
    obtain ⟨r', e, v⟩ := C01.dense_applyQ_spec A x r tr ⟨h1, h2⟩ hr hx
    have hs := Dense.apply_size _ A x r r' tr e
    exact ⟨r', e, hs, key r' _ _ hs v⟩

/-- **`r` is overwritten, never accumulated** (plain product, every leaf format): `apply(r, x)` / `apply_transposed(r, x)`
    return the same vector whatever `r` held before (stale data, the harness pre-fills 777) — the kernels run with
    `b = 0`, which zeroes `r` first. The operands `x`, `y` and the matrix are values of the functional model and cannot
    be modified; the harness' `U1` flag checks the same for the real containers on every case. -/
theorem C01.apply_overwrites_r {α : Type} [Field α] (tiny : α → Bool) (ht0 : tiny 0 = true)
    (x r r2 : Array α) (hs : r.size = r2.size) (tr : Bool) :
    (∀ A : Csr α, A.apply tiny x r tr = A.apply tiny x r2 tr) ∧
    (∀ A : Cscr α, A.apply tiny x r tr = A.apply tiny x r2 tr) ∧
    (∀ A : Bcsr α, A.apply tiny x r tr = A.apply tiny x r2 tr) ∧
    (∀ A : Banded α, A.apply tiny x r tr = A.apply tiny x r2 tr) ∧
    (∀ A : Dense α, A.apply tiny x r tr = A.apply tiny x r2 tr) := by
  refine ⟨?_, ?_, ?_, ?_, ?_⟩
  · intro A; cases tr <;> simp [Csr.apply, Csr.kernel, initR, ht0, hs]
  · intro A; cases tr <;> simp [Cscr.apply, Cscr.kernel, initR, ht0, hs]
  · intro A; cases tr <;> simp [Bcsr.apply, Bcsr.kernel, Bcsr.kernelT, initR, ht0, hs]
  · intro A
    by_cases h0 : r.size = 0
    · have e : r = r2 := by
        exact (Array.eq_empty_of_size_eq_zero h0).trans (Array.eq_empty_of_size_eq_zero (by rw [← hs]; exact h0)).symm
      rw [e]
    · have h0' : ¬ r2.size = 0 := by rw [← hs]; exact h0
      cases tr <;> simp [Banded.apply, Banded.kernel, initR, ht0, hs, h0']
  · intro A
    by_cases h0 : r.size = 0
    · have e : r = r2 := by
        exact (Array.eq_empty_of_size_eq_zero h0).trans (Array.eq_empty_of_size_eq_zero (by rw [← hs]; exact h0)).symm
      rw [e]
    · have h0' : ¬ r2.size = 0 := by rw [← hs]; exact h0
      cases tr <;> simp [Dense.apply, Dense.kernel, Dense.kernelT, initR, ht0, hs, h0']

/-- the axpy forms with a separate result vector (`r` is not `y`): the result does not depend on the old content of
    `r` either (`copy(r, y)` resp. zero fill before the kernel loop) -/
theorem C01.axpy_ignores_old_r {α : Type} [Field α] (tiny : α → Bool) (x y r r2 : Array α) (hs : r.size = r2.size)
    (alpha : α) (tr : Bool) :
    (∀ A : Csr α, A.applyAxpy tiny x y r alpha false tr = A.applyAxpy tiny x y r2 alpha false tr) ∧
    (∀ A : Cscr α, A.applyAxpy tiny x y r alpha false tr = A.applyAxpy tiny x y r2 alpha false tr) ∧
    (∀ A : Bcsr α, A.applyAxpy tiny x y r alpha false tr = A.applyAxpy tiny x y r2 alpha false tr) ∧
    (∀ A : Banded α, A.applyAxpy tiny x y r alpha false tr = A.applyAxpy tiny x y r2 alpha false tr) ∧
    (∀ A : Dense α, A.applyAxpy tiny x y r alpha false tr = A.applyAxpy tiny x y r2 alpha false tr) := by
  refine ⟨?_, ?_, ?_, ?_, ?_⟩
  · intro A; cases tr <;> simp [Csr.applyAxpy, Csr.kernel, initR, hs]
  · intro A; cases tr <;> simp [Cscr.applyAxpy, Cscr.kernel, initR, hs]
  · intro A; cases tr <;> simp [Bcsr.applyAxpy, Bcsr.kernel, Bcsr.kernelT, initR, hs]
  · intro A
    by_cases h0 : r.size = 0
    · have e : r = r2 := by
        exact (Array.eq_empty_of_size_eq_zero h0).trans (Array.eq_empty_of_size_eq_zero (by rw [← hs]; exact h0)).symm
      rw [e]
    · have h0' : ¬ r2.size = 0 := by rw [← hs]; exact h0
      cases tr <;> simp [Banded.applyAxpy, Banded.kernel, initR, hs, h0']
  · intro A
    by_cases h0 : r.size = 0
    · have e : r = r2 := by
        exact (Array.eq_empty_of_size_eq_zero h0).trans (Array.eq_empty_of_size_eq_zero (by rw [← hs]; exact h0)).symm
      rw [e]
    · have h0' : ¬ r2.size = 0 := by rw [← hs]; exact h0
      cases tr <;> simp [Dense.applyAxpy, Dense.kernel, Dense.kernelT, initR, hs, h0']

/-- a non-trivial well-formed value: the 2×3 matrix [[1,0,2],[0,3,0]] -/
example : (⟨2, 3, #[0, 2, 3], #[0, 2, 1], #[1, 2, 3]⟩ : Csr Rat).wf = true := by decide +kernel

/-- a non-trivial well-formed banded value: 3×2, bands with offsets 0 (lowest sub-diagonal), 2 (main) and 3 -/
example : (⟨3, 2, #[0, 2, 3], #[1, 2, 3, 4, 5, 6, 7, 8, 9]⟩ : Banded Rat).wf = true := by decide +kernel
