import FeatModel.Model.CubatureTables
import FeatModel.Lemmas.C14Basic
import FeatModel.Lemmas.C14Tables
import FeatModel.Lemmas.C14Names
import FeatModel.Lemmas.C14Tensor
import FeatModel.Lemmas.C14Rat
import FeatModel.Lemmas.C14Subdiv
import FeatModel.Lemmas.C14TensorQ
import FeatModel.Lemmas.C14Refine1D
import FeatModel.Lemmas.C14RefineCube
import FeatModel.Lemmas.C14Det
import FeatModel.Lemmas.C14SimplexScalar
import FeatModel.Lemmas.C14Cover
import FeatModel.Lemmas.C14Denote
import Mathlib.Tactic.IntervalCases
/-!
# C14 — every named cubature rule is exact up to its nominal polynomial degree; unknown names are refused

Objects (Model/Cubature.lean, executed by `drv_c14` and compared with the real code on every run):
* `tablesOf s`   — the rules `DynamicFactory::create` returns at `double` for the un-refined names of shape `s`,
                   regenerated from /repo on every run (exact dyadic rationals);
* `t.ExactTo simplex dim d` — `|Σ_i w_i x_i^e − ∫ x^e| ≤ 2^-40` for every monomial `e` of `dim` variables, `|e| ≤ d`
                   (denominators cleared, see `DyTable.MomentOK`; `e = 0` is the weight sum);
* `nominal fac n` — the hand-written specification of the nominal degree;
* `createFor pfx s name` — the model of `DynamicFactory::create(rule, name)` (name grammar);
* `t.tensor dim`, `t.refine maps k` — the models of `TensorProductDriver::fill` and `RuleRefinery::refine`.
-/
open FeatModel.Cub

/-- every table of every shape meets its obligation (the per-shape kernel evaluations, recombined) -/
theorem C14.all_tables_checked (s : Shape) : (tablesOf s).all (tableObligation s) = true := by
  cases s
  · exact tabS1
  · exact tabS2
  · exact tabS3
  · exact tabH1
  · exact tabH2
  · exact tabH3

/-- A (tables). EVERY generated rule table — no table is exempt — integrates every monomial up to its nominal
    degree exactly up to `2^-40`. -/
theorem C14.tables_exact (s : Shape) (t : DyTable) (ht : t ∈ tablesOf s) :
    ∃ d, nominal t.fac t.n = some d ∧ t.ExactTo s.simplex s.dim d :=
  (tableObligation_spec s t (List.all_eq_true.1 (C14.all_tables_checked s) t ht)).2

/-- A (weights). The weights of every generated rule sum to the reference volume up to `2^-40`. -/
theorem C14.weights_sum (s : Shape) (t : DyTable) (ht : t ∈ tablesOf s) :
    t.MomentOK s.simplex (List.replicate s.dim 0) := by
  obtain ⟨d, _, hx⟩ := C14.tables_exact s t ht
  refine hx _ (by simp) ?_
  have : ∀ n, esum (List.replicate n 0) = 0 := by
    intro n; induction n with
    | zero => rfl
    | succ n ih => simp [List.replicate_succ, esum, ih]
  rw [this]; exact Nat.zero_le _

/-- every generated table is well-formed (as many points as weights, points of the shape's dimension) and carries a
    nominal degree, i.e. the specification `nominal` covers every rule the factories can create -/
theorem C14.tables_wellformed (s : Shape) (t : DyTable) (ht : t ∈ tablesOf s) :
    t.wf s.dim = true ∧ (nominal t.fac t.n).isSome = true := by
  obtain ⟨hw, d, hd, _⟩ := tableObligation_spec s t (List.all_eq_true.1 (C14.all_tables_checked s) t ht)
  exact ⟨hw, by simp [hd]⟩

/-- Name grammar, soundness (for ALL strings): if `create` answers a name with a rule then — after the auto-degree
    alias mapping — the name spells, trimmed and up to letter case, the name of that factory of the shape's list (or
    one of its aliases) with a point count inside the factory's range, possibly behind one `refine[*k]:` head whose
    count is the number of refinements.  In particular an unknown name is never answered with some other rule. -/
theorem C14.name_refused (pfx : Bool) (s : Shape) (name : Str) (d : Desc) (h : createFor pfx s name = .ok d) :
    d.fac ∈ Gen.factoriesOf s ∧
      ∃ inner core, d.fac.Spells core d.n ∧
        ((d.refines = 0 ∧ inner = autoMap pfx s name) ∨
          parseRefine (autoMap pfx s name) = some (d.refines, inner)) ∧
        (core = inner ∨ ∃ hd tl, splitFirst ':' inner = some (hd, tl) ∧
          eqNoCase (trim hd) d.fac.kind.prefixStr = true ∧ core = trim tl) := by
  obtain ⟨hf, hcase⟩ := create_ok_sound h
  refine ⟨hf, ?_⟩
  rcases hcase with ⟨h0, hacc⟩ | ⟨inner, hp, hacc⟩
  · obtain ⟨core, hs, hc⟩ := accepts_spells hacc
    exact ⟨_, core, hs, Or.inl ⟨h0, rfl⟩, hc⟩
  · obtain ⟨core, hs, hc⟩ := accepts_spells hacc
    exact ⟨inner, core, hs, Or.inr hp, hc⟩

/-- Numeric tokens (the fixed `String::parse`, 5a16de52a / c82e1d7f9), for ALL strings: a token that is not exactly
    a numeral — optional sign, at least one decimal digit, NOTHING else after trimming (no suffix such as `3x`,
    `3:junk`, `3.0`, no embedded blank such as `12 1`, no `0x`) — is refused by the integer parse, and the unsigned
    parse (refinement count, auto-degree) additionally refuses a minus sign. -/
theorem C14.non_numeral_token_refused (tok : Str) :
    (¬ IsNumeral true (trim tok) → parseInt tok = none) ∧ (¬ IsNumeral false (trim tok) → parseIndex tok = none) := by
  constructor
  · intro hn
    cases h : parseInt tok with
    | none => rfl
    | some v => exact absurd (parseInt_numeral h) hn
  · intro hn
    cases h : parseIndex tok with
    | none => rfl
    | some v => exact absurd (parseIndex_numeral h) hn

/-- ... hence, for ALL names: a name is answered with a parametrised rule `fac:n` only if the token after the first
    colon of its (alias-mapped) core parses — as a whole — to exactly `n`; it is a numeral. -/
theorem C14.count_token_is_numeral (pfx : Bool) (s : Shape) (name : Str) (d : Desc)
    (h : createFor pfx s name = .ok d) (hv : d.fac.variadic = true) :
    ∃ core head tail, splitFirst ':' (d.fac.aliasMap core) = some (head, tail) ∧
      parseInt (trim tail) = some (d.n : Int) ∧ IsNumeral true (trim (trim tail)) := by
  obtain ⟨_, _, core, hs, _⟩ := C14.name_refused pfx s name d h
  unfold Factory.Spells at hs
  rw [if_pos hv] at hs
  obtain ⟨head, tail, h1, _, h3, _⟩ := hs
  exact ⟨core, head, tail, h1, h3, parseInt_numeral h3⟩

/-- ... and a name is answered with a k-fold refined rule, k ≠ 1 spelled out, only if the token after `*` is an
    unsigned numeral that parses — as a whole — to exactly k (`refine*2x:`, `refine*2*2:`, `refine*-1:` are refused). -/
theorem C14.refine_count_is_numeral (pfx : Bool) (s : Shape) (name : Str) (d : Desc)
    (h : createFor pfx s name = .ok d) (hk : d.refines ≠ 0) :
    ∃ head tail, splitFirst ':' (autoMap pfx s name) = some (head, tail) ∧
      ((splitFirst '*' head = none ∧ d.refines = 1) ∨
       ∃ hd cnt, splitFirst '*' head = some (hd, cnt) ∧ parseIndex cnt = some d.refines ∧ IsNumeral false (trim cnt)) := by
  obtain ⟨_, inner, _, _, hcase, _⟩ := C14.name_refused pfx s name d h
  rcases hcase with ⟨h0, _⟩ | hp
  · exact absurd h0 hk
  · obtain ⟨head, tail, h1, _, h3⟩ := parseRefine_count hp
    refine ⟨head, tail, h1, ?_⟩
    rcases h3 with ⟨a, b, _⟩ | ⟨hd, cnt, a, b, c, _⟩
    · exact Or.inl ⟨a, b⟩
    · exact Or.inr ⟨hd, cnt, a, b, c⟩

/-- Name grammar, ranges (for ALL strings, both configurations, every shape): whatever the spelling — plain, alias,
    auto-degree, behind `refine[*k]:`, behind `tensor:`/`scalar:` — a name is only ever answered with a factory `f`
    and a count `n` inside `f`'s advertised range; i.e. every spelling that would resolve to a driver with a
    point-count / degree parameter outside `[min, max]` is refused. -/
theorem C14.create_out_of_range_refused (pfx : Bool) (s : Shape) (name : Str) (d : Desc)
    (h : createFor pfx s name = .ok d) : d.fac.minP ≤ d.n ∧ d.n ≤ d.fac.maxP := by
  obtain ⟨hf, _, core, hs, _⟩ := C14.name_refused pfx s name d h
  have hall := List.all_eq_true.1 factoryRanges_all s (mem_allShapes s)
  have hr := List.all_eq_true.1 hall d.fac hf
  exact hs.range (by simpa using hr)

/-- the contrapositive, in the words of the property: no name is answered with driver `f` and an out-of-range count -/
theorem C14.out_of_range_never_answered (pfx : Bool) (s : Shape) (name : Str) (d : Desc)
    (hn : d.n < d.fac.minP ∨ d.fac.maxP < d.n) : createFor pfx s name ≠ .ok d := by
  intro h
  have := C14.create_out_of_range_refused pfx s name d h
  omega

/-- Name grammar, completeness on canonical names: for every factory of every shape and every point count in its
    range, the canonical name `name[:n]` (with the `tensor:`/`scalar:` prefix in the prefix configuration) is
    answered with exactly this factory, this count, un-refined — in both configurations. -/
theorem C14.canonical_names_resolve (pfx : Bool) (s : Shape) (f : Factory) (n : Nat)
    (hf : f ∈ Gen.factoriesOf s) (hlo : f.minP ≤ n) (hhi : n ≤ f.maxP) :
    ∃ d, createFor pfx s (f.ruleName pfx n) = .ok d ∧ d.fac.name = f.name ∧ d.fac.kind = f.kind ∧ d.n = n ∧
      d.refines = 0 := by
  have hall := List.all_eq_true.1 canonResolves_all s (mem_allShapes s)
  rw [Bool.and_eq_true] at hall
  have hc : canonResolves pfx s = true := by cases pfx; exact hall.1; exact hall.2
  unfold canonResolves at hc
  have h1 := List.all_eq_true.1 hc f hf
  have h2 := List.all_eq_true.1 h1 (n - f.minP) (by simp; omega)
  have hn : f.minP + (n - f.minP) = n := by omega
  simp only [hn] at h2
  unfold createFor
  split at h2
  · rename_i d hd
    simp only [Bool.and_eq_true, beq_iff_eq, decide_eq_true_eq] at h2
    exact ⟨d, hd, h2.1.1.1, h2.1.1.2, h2.1.2, h2.2⟩
  · simp at h2

/-- The hand-written model of `AutoDegree<Shape>::choose` returns, for every degree 0 .. max_auto_degree + 3 of
    every shape, the string the real `AutoAlias::map("auto-degree:d")` returned when the tables were generated. -/
theorem C14.auto_choose_matches_code (s : Shape) (d : Nat) (nm : Str) (h : (d, nm) ∈ Gen.autoOf s) :
    autoChoose Gen.prefixConfig s d = nm := by
  have hall := List.all_eq_true.1 autoMatchesDump_all s (mem_allShapes s)
  unfold autoMatchesDump at hall
  have := List.all_eq_true.1 hall (d, nm) h
  simpa using this

/-- `auto-degree:d` within the advertised maximum names an existing rule whose nominal degree is at least `d`. -/
theorem C14.auto_degree_sufficient (s : Shape) (d : Nat) (hd : d ≤ Gen.maxAutoOf s) :
    ∃ f n k, createBase false (Gen.factoriesOf s) (autoChoose false s d) = some (f, n) ∧
      nominal f.name n = some k ∧ d ≤ k := by
  have hall := List.all_eq_true.1 autoSufficient_all s (mem_allShapes s)
  unfold autoSufficient at hall
  have h := List.all_eq_true.1 hall d (by simp; omega)
  split at h
  · rename_i f n hb
    split at h
    · rename_i k hk
      exact ⟨f, n, k, hb, hk, by simpa using h⟩
    · simp at h
  · simp at h

/-- Tensor products (exact arithmetic, every dimension and every point count): the moment of `x^e` under the
    tensor-product rule is the product of the scalar moments of `x^(e_j)` — hence a tensor rule is exact for every
    monomial whose single exponents the scalar rule integrates exactly (in particular up to the scalar degree). -/
theorem C14.tensor_moments_factorise (t : DyTable) (hwf : t.wf 1 = true) (dim : Nat) (e : List Nat)
    (he : e.length = dim) :
    (t.tensor dim).momentNum e = iprod (e.map fun k => t.momentNum [k]) ∧
    (t.tensor dim).momentExp e = t.ew * dim + t.ec * esum e := by
  unfold DyTable.wf at hwf
  rw [Bool.and_eq_true] at hwf
  have hlen : t.w.length = t.x.length := by simpa using hwf.1
  have hp : ∀ p ∈ t.x, p.length = 1 := by
    intro p hp
    have := List.all_eq_true.1 hwf.2 p hp
    simpa using this
  constructor
  · unfold DyTable.momentNum DyTable.tensor scalarCoords
    simp only
    rw [isumMono_tensor t.w _ (by simpa using hlen) dim e he]
    congr 1
    apply List.map_congr_left
    intro k _
    exact smom_scalarCoords t.w t.x k hp
  · rfl

/-- The `Rat` bridge: the cleared-denominator integer inequality `MomentOK` used by all kernel-evaluated checks IS
    the statement `|Σ_i w_i x_i^e − ∫ x^e| ≤ 2^-40` over the rationals (`momentQ` = the rule's moment, `refIntQ` =
    the exact integral over the reference simplex / cube, `tolQ = 2^-40`: ONE tolerance for every rule and degree). -/
theorem C14.momentOK_iff_rat (t : DyTable) (s : Bool) (e : List Nat) :
    t.MomentOK s e ↔ |t.momentQ e - refIntQ s e| ≤ tolQ := momentOK_iff t s e

/-- A over `Rat`, as the property states it: every generated rule integrates every monomial up to its nominal
    degree with error at most `2^-40` (uniform tolerance; the tables are the rounded `double`s of the code). -/
theorem C14.tables_exact_rat (s : Shape) (t : DyTable) (ht : t ∈ tablesOf s) :
    ∃ d, nominal t.fac t.n = some d ∧
      ∀ e : List Nat, e.length = s.dim → esum e ≤ d → |t.momentQ e - refIntQ s.simplex e| ≤ 1 / 2 ^ 40 := by
  obtain ⟨d, hd, hx⟩ := C14.tables_exact s t ht
  exact ⟨d, hd, (exactTo_iff t s.simplex s.dim d).1 hx⟩

/-- Refinement keeps the degree (exact arithmetic, EVERY rule of the shape, EVERY number k of refinements): a rule
    that integrates all monomials up to degree `d` exactly is still exact up to `d` after `refine*k` — for `d` up to
    the degree to which the subdivision identity `∫ p = Σ_children |det T_c| ∫ p∘T_c` of the shape's refinery has
    been kernel-checked (`refineDegreeBound`: 39 for lines, 20 for triangles, 8 for tetrahedra = the maximal nominal
    degrees of these shapes; 16 for squares, 8 for cubes). -/
theorem C14.refine_keeps_degree (s : Shape) (t : DyTable) (d k : Nat) (hd : d ≤ refineDegreeBound s)
    (ht : t.wf s.dim = true)
    (H : ∀ e : List Nat, e.length = s.dim → esum e ≤ d → t.momentQ e = refIntQ s.simplex e) :
    ∀ e : List Nat, e.length = s.dim → esum e ≤ d →
      (t.refine (Gen.refMapsOf s) k).momentQ e = refIntQ s.simplex e := by
  have h0 : t.ExactQ s.simplex s.dim d 0 := fun e hl hs => by simp [H e hl hs]
  have := refine_error s t d 0 hd ht (le_refl _) h0 k
  intro e hl hs
  have h := this e hl hs
  rw [mul_zero] at h
  have := abs_nonneg ((t.refine (Gen.refMapsOf s) k).momentQ e - refIntQ s.simplex e)
  have h2 : |(t.refine (Gen.refMapsOf s) k).momentQ e - refIntQ s.simplex e| = 0 := le_antisymm h this
  exact sub_eq_zero.1 (abs_eq_zero.1 h2)

/-- ε-version with an explicit constant: moment errors `≤ ε` up to degree `d` become at most `G^k · ε` after k
    refinements, with `G = refineGrowth s = 1` for lines, triangles, squares and cubes (the error does not grow) and
    `G = 39` for tetrahedra (coefficient-wise bound; the tetrahedron child maps have rows of absolute sum 7/4). -/
theorem C14.refine_keeps_degree_eps (s : Shape) (t : DyTable) (d k : Nat) (ε : Rat) (hd : d ≤ refineDegreeBound s)
    (ht : t.wf s.dim = true) (hε : 0 ≤ ε)
    (H : ∀ e : List Nat, e.length = s.dim → esum e ≤ d → |t.momentQ e - refIntQ s.simplex e| ≤ ε) :
    ∀ e : List Nat, e.length = s.dim → esum e ≤ d →
      |(t.refine (Gen.refMapsOf s) k).momentQ e - refIntQ s.simplex e| ≤ (refineGrowth s : Rat) ^ k * ε :=
  refine_error s t d ε hd ht hε H k

/-- the refined generated tables: `refine*k` of every generated rule whose nominal degree is within the checked
    bound integrates up to that degree with error at most `G^k · 2^-40` (G = 1 except for tetrahedra) -/
theorem C14.refined_tables_exact (s : Shape) (t : DyTable) (ht : t ∈ tablesOf s) (k : Nat) :
    ∃ d, nominal t.fac t.n = some d ∧ (d ≤ refineDegreeBound s →
      ∀ e : List Nat, e.length = s.dim → esum e ≤ d →
        |(t.refine (Gen.refMapsOf s) k).momentQ e - refIntQ s.simplex e| ≤ (refineGrowth s : Rat) ^ k * tolQ) := by
  obtain ⟨d, hd, hx⟩ := C14.tables_exact s t ht
  refine ⟨d, hd, fun hb => ?_⟩
  exact refine_error s t d tolQ hb (C14.tables_wellformed s t ht).1 (by unfold tolQ; positivity)
    ((exactTo_iff t s.simplex s.dim d).1 hx) k

/-- Refinement preserves the weight sum exactly, for every shape, rule and k (no degree bound). -/
theorem C14.refine_keeps_weight_sum (s : Shape) (t : DyTable) (k : Nat) :
    isum (t.refine (Gen.refMapsOf s) k).w = 2 ^ ((Gen.refMapsOf s).ce * k) * isum t.w ∧
    (t.refine (Gen.refMapsOf s) k).ew = t.ew + (Gen.refMapsOf s).ce * k := by
  have hc : isum ((Gen.refMapsOf s).maps.map (·.c)) = 2 ^ (Gen.refMapsOf s).ce := by
    cases s <;> decide +kernel
  induction k with
  | zero => simp [DyTable.refine]
  | succ k ih =>
    obtain ⟨ih1, ih2⟩ := ih
    constructor
    · simp only [DyTable.refine, DyTable.refine1]
      rw [isum_refine1, hc, ih1, Nat.mul_succ, pow_add]
      ring
    · simp only [DyTable.refine, DyTable.refine1, ih2]
      rw [Nat.mul_succ]; omega

/-- Refinement keeps EVERY degree on the one-dimensional shapes — no degree bound, no finite check: for every rule
    on `[0,1]` (Simplex<1>) or `[-1,1]` (Hypercube<1>), every `d` and every number `k` of refinements, exactness up
    to degree `d` survives `refine*k`.  (The subdivision identity of the two interval refineries is proved for all
    monomials from the antiderivative identity `Σ_i C(n,i) b^i y^(n-i+1)/(n-i+1) = ((b+y)^(n+1) − b^(n+1))/(n+1)`.) -/
theorem C14.refine_keeps_degree_interval (s : Shape) (hs : s = .s1 ∨ s = .h1) (t : DyTable) (d k : Nat)
    (ht : t.wf 1 = true)
    (H : ∀ e : List Nat, e.length = 1 → esum e ≤ d → t.momentQ e = refIntQ s.simplex e) :
    ∀ e : List Nat, e.length = 1 → esum e ≤ d →
      (t.refine (Gen.refMapsOf s) k).momentQ e = refIntQ s.simplex e := by
  rcases hs with rfl | rfl
  · exact refine_exact_1d true Gen.refMapsS1 (by decide) shape_1d_s1 subdiv_s1 t ht d H k
  · exact refine_exact_1d false Gen.refMapsH1 (by decide) shape_1d_h1 subdiv_h1 t ht d H k

/-- Refinement keeps EVERY degree on hypercubes of every dimension 1–3 and on the interval simplex — no degree
    bound, no finite check: for every rule on Hypercube<1..3> or Simplex<1>, every `d` and every number `k` of
    refinements, exactness up to total degree `d` survives `refine*k`.  (The child maps of the hypercube refineries are
    diagonal, so the expansion of a pulled-back monomial factorises over the coordinates and the subdivision identity
    reduces to the one-dimensional one, which is proved for all degrees.) -/
theorem C14.refine_keeps_every_degree (s : Shape) (hs : s = .s1 ∨ s = .h1 ∨ s = .h2 ∨ s = .h3) (t : DyTable)
    (d k : Nat) (ht : t.wf s.dim = true)
    (H : ∀ e : List Nat, e.length = s.dim → esum e ≤ d → t.momentQ e = refIntQ s.simplex e) :
    ∀ e : List Nat, e.length = s.dim → esum e ≤ d →
      (t.refine (Gen.refMapsOf s) k).momentQ e = refIntQ s.simplex e := by
  rcases hs with rfl | rfl | rfl | rfl
  · exact refine_exact_1d true Gen.refMapsS1 (by decide) shape_1d_s1 subdiv_s1 t ht d H k
  · exact refine_exact_1d false Gen.refMapsH1 (by decide) shape_1d_h1 subdiv_h1 t ht d H k
  · exact refine_exact_h2 t ht d H k
  · exact refine_exact_h3 t ht d H k

/-- what is NOT proved (the gap): the refinement theorem for triangles beyond degree 20 and tetrahedra beyond degree
    8 — no rule of these shapes has a larger nominal degree, so every rule the factories can create IS covered by
    `C14.refine_keeps_degree` (bounded, kernel-checked subdivision identity) — but an arbitrary user rule of higher
    degree is not.  Intervals, squares and cubes are done for all degrees (`C14.refine_keeps_every_degree`). -/
def C14.RefineKeepsDegreeUnbounded : Prop :=
  ∀ (s : Shape) (t : DyTable) (d k : Nat), t.wf s.dim = true →
    (∀ e : List Nat, e.length = s.dim → esum e ≤ d → t.momentQ e = refIntQ s.simplex e) →
    ∀ e : List Nat, e.length = s.dim → esum e ≤ d → (t.refine (Gen.refMapsOf s) k).momentQ e = refIntQ s.simplex e

/-- TENSOR-PRODUCT RULES OF ANY POINT COUNT (squares and cubes, no 2-D/3-D table needed): for every generated
    scalar rule `t` (interval `[-1,1]`, any driver, any n) with nominal degree `d`, the rule `t.tensor dim` that the
    tensor-product factory builds integrates every monomial whose exponents are all `≤ d` — in particular every
    monomial of total degree `≤ d`, the nominal degree of the tensor rule — with error at most
    `(3^dim − 2^dim)·2^-40` (5·2^-40 for squares, 19·2^-40 for cubes), in exact arithmetic on the stored table. -/
theorem C14.tensor_exact (t : DyTable) (ht : t ∈ tablesOf .h1) (dim : Nat) :
    ∃ d, nominal t.fac t.n = some d ∧ ∀ e : List Nat, e.length = dim → (∀ k ∈ e, k ≤ d) →
      |(t.tensor dim).momentQ e - refIntQ false e| ≤ (3 ^ dim - 2 ^ dim) * tolQ := by
  obtain ⟨d, hd, hx⟩ := C14.tables_exact .h1 t ht
  refine ⟨d, hd, fun e he hk => ?_⟩
  have hq := (exactTo_iff t false 1 d).1 hx
  exact tensor_exactQ t (C14.tables_wellformed .h1 t ht).1 d tolQ (by unfold tolQ; positivity)
    (by unfold tolQ tolBits; norm_num) hq dim e he hk

/-- a named rule of a shape: its table exists and meets the nominal degree (`2^-40`) -/
theorem C14.driver_degree (s : Shape) (fac : Str) (n d : Nat) (hn : nominal fac n = some d)
    (hp : (findTable (tablesOf s) fac n).isSome = true) :
    ∃ t, findTable (tablesOf s) fac n = some t ∧ t ∈ tablesOf s ∧ t.ExactQ s.simplex s.dim d tolQ := by
  cases hf : findTable (tablesOf s) fac n with
  | none => simp [hf] at hp
  | some t =>
    have hmem : t ∈ tablesOf s := List.mem_of_find?_eq_some hf
    have hpred := List.find?_some hf
    simp only [Bool.and_eq_true, beq_iff_eq] at hpred
    obtain ⟨d', hd', hx⟩ := C14.tables_exact s t hmem
    rw [hpred.1, hpred.2, hn] at hd'
    cases hd'
    exact ⟨t, rfl, hmem, (exactTo_iff t s.simplex s.dim d).1 hx⟩

/-- GAUSS–LEGENDRE n → 2n−1 for every n the driver supports (1..20), on the interval `[-1,1]` (Hypercube<1>) and on
    `[0,1]` (Simplex<1>): `|Σ w_i x_i^k − ∫ x^k| ≤ 2^-40` for all `k ≤ 2n−1` (stored doubles, uniform tolerance). -/
theorem C14.gauss_legendre_degree (s : Shape) (hs : s = .h1 ∨ s = .s1) (n : Nat) (h1 : 1 ≤ n) (h2 : n ≤ 20) :
    ∃ t, findTable (tablesOf s) "gauss-legendre".toList n = some t ∧ t ∈ tablesOf s ∧
      t.ExactQ s.simplex 1 (2 * n - 1) tolQ := by
  have hn : nominal "gauss-legendre".toList n = some (2 * n - 1) := by unfold nominal; rw [if_pos rfl]
  have hp : (findTable (tablesOf s) "gauss-legendre".toList n).isSome = true := by
    rcases hs with rfl | rfl <;> interval_cases n <;> decide +kernel
  obtain ⟨t, a, b, c⟩ := C14.driver_degree s _ n _ hn hp
  refine ⟨t, a, b, ?_⟩
  rcases hs with rfl | rfl <;> exact c

/-- ... hence Gauss–Legendre n → 2n−1 (in each variable) on squares and cubes for EVERY n = 1..20, including the
    rules with up to 8000 points that are never tabulated -/
theorem C14.gauss_legendre_tensor_degree (n dim : Nat) (h1 : 1 ≤ n) (h2 : n ≤ 20) :
    ∃ t, findTable (tablesOf .h1) "gauss-legendre".toList n = some t ∧
      ∀ e : List Nat, e.length = dim → (∀ k ∈ e, k ≤ 2 * n - 1) →
        |(t.tensor dim).momentQ e - refIntQ false e| ≤ (3 ^ dim - 2 ^ dim) * tolQ := by
  obtain ⟨t, a, b, c⟩ := C14.gauss_legendre_degree .h1 (Or.inl rfl) n h1 h2
  refine ⟨t, a, fun e he hk => ?_⟩
  exact tensor_exactQ t (C14.tables_wellformed .h1 t b).1 _ tolQ (by unfold tolQ; positivity)
    (by unfold tolQ tolBits; norm_num) c dim e he hk

/-- the other scalar drivers with their documented degrees, every admissible n, on `[-1,1]` and `[0,1]`:
    Gauss–Lobatto n → 2n−3 (n = 3..6); Newton–Cotes closed (2..7), open (1..7) and Maclaurin (1..5): n → n−1+(n odd);
    trapezoidal and barycentre/midpoint → 1 -/
theorem C14.scalar_driver_degrees (s : Shape) (hs : s = .h1 ∨ s = .s1) :
    (∀ n, 3 ≤ n → n ≤ 6 → ∃ t, findTable (tablesOf s) "gauss-lobatto".toList n = some t ∧
        t.ExactQ s.simplex 1 (2 * n - 3) tolQ) ∧
    (∀ n, 2 ≤ n → n ≤ 7 → ∃ t, findTable (tablesOf s) "newton-cotes-closed".toList n = some t ∧
        t.ExactQ s.simplex 1 (n - 1 + n % 2) tolQ) ∧
    (∀ n, 1 ≤ n → n ≤ 7 → ∃ t, findTable (tablesOf s) "newton-cotes-open".toList n = some t ∧
        t.ExactQ s.simplex 1 (n - 1 + n % 2) tolQ) ∧
    (∀ n, 1 ≤ n → n ≤ 5 → ∃ t, findTable (tablesOf s) "maclaurin".toList n = some t ∧
        t.ExactQ s.simplex 1 (n - 1 + n % 2) tolQ) ∧
    (∃ t, findTable (tablesOf s) "trapezoidal".toList 0 = some t ∧ t.ExactQ s.simplex 1 1 tolQ) ∧
    (∃ t, findTable (tablesOf s) "barycentre".toList 0 = some t ∧ t.ExactQ s.simplex 1 1 tolQ) := by
  have hdim : s.dim = 1 := by rcases hs with rfl | rfl <;> rfl
  refine ⟨?_, ?_, ?_, ?_, ?_, ?_⟩
  · intro n h1 h2
    have hp : (findTable (tablesOf s) "gauss-lobatto".toList n).isSome = true := by
      rcases hs with rfl | rfl <;> interval_cases n <;> decide +kernel
    obtain ⟨t, a, _, c⟩ := C14.driver_degree s _ n (2 * n - 3) (by unfold nominal; rw [if_neg (by decide), if_pos rfl]) hp
    exact ⟨t, a, hdim ▸ c⟩
  · intro n h1 h2
    have hp : (findTable (tablesOf s) "newton-cotes-closed".toList n).isSome = true := by
      rcases hs with rfl | rfl <;> interval_cases n <;> decide +kernel
    obtain ⟨t, a, _, c⟩ := C14.driver_degree s _ n (n - 1 + n % 2)
      (by unfold nominal; rw [if_neg (by decide), if_neg (by decide), if_pos (by decide)]) hp
    exact ⟨t, a, hdim ▸ c⟩
  · intro n h1 h2
    have hp : (findTable (tablesOf s) "newton-cotes-open".toList n).isSome = true := by
      rcases hs with rfl | rfl <;> interval_cases n <;> decide +kernel
    obtain ⟨t, a, _, c⟩ := C14.driver_degree s _ n (n - 1 + n % 2)
      (by unfold nominal; rw [if_neg (by decide), if_neg (by decide), if_pos (by decide)]) hp
    exact ⟨t, a, hdim ▸ c⟩
  · intro n h1 h2
    have hp : (findTable (tablesOf s) "maclaurin".toList n).isSome = true := by
      rcases hs with rfl | rfl <;> interval_cases n <;> decide +kernel
    obtain ⟨t, a, _, c⟩ := C14.driver_degree s _ n (n - 1 + n % 2)
      (by unfold nominal; rw [if_neg (by decide), if_neg (by decide), if_pos (by decide)]) hp
    exact ⟨t, a, hdim ▸ c⟩
  · have hp : (findTable (tablesOf s) "trapezoidal".toList 0).isSome = true := by
      rcases hs with rfl | rfl <;> decide +kernel
    obtain ⟨t, a, _, c⟩ := C14.driver_degree s _ 0 1 (by decide) hp
    exact ⟨t, a, hdim ▸ c⟩
  · have hp : (findTable (tablesOf s) "barycentre".toList 0).isSome = true := by
      rcases hs with rfl | rfl <;> decide +kernel
    obtain ⟨t, a, _, c⟩ := C14.driver_degree s _ 0 1 (by decide) hp
    exact ⟨t, a, hdim ▸ c⟩

/-- SIMPLEX-SCALAR rules (the `scalar:` factories of Simplex<1>): the rule `t.simplexScalar` (weights halved, points
    `x ↦ (x+1)/2`) built from ANY generated interval rule `t` of nominal degree `d` integrates `x^k` over `[0,1]`,
    `k ≤ d`, with error at most `2^-41` — the transformation keeps the degree and even halves the error. -/
theorem C14.simplex_scalar_exact (t : DyTable) (ht : t ∈ tablesOf .h1) :
    ∃ d, nominal t.fac t.n = some d ∧ t.simplexScalar.ExactQ true 1 d (tolQ / 2) := by
  obtain ⟨d, hd, hx⟩ := C14.tables_exact .h1 t ht
  exact ⟨d, hd, simplexScalar_exactQ t (C14.tables_wellformed .h1 t ht).1 d tolQ ((exactTo_iff t false 1 d).1 hx)⟩

/-- Refineries, structural facts (independent of any polynomial degree), for every shape: there are 2^d (hypercube)
    resp. 2 / 4 / 12 (simplex) children; the weight factor `c/2^ce` of EVERY child is positive and equals the absolute
    determinant of the child's affine map `x ↦ (b + A x)/2^ae` (read off the generated child maps, which the dump
    obtains by running the real refinery on the cell's vertices); and the factors sum to one (the children's volumes
    add up to the parent's). -/
theorem C14.refinery_structure (s : Shape) :
    childWeightsAreDets s.dim (Gen.refMapsOf s) = true ∧ childrenTile (Gen.refMapsOf s) = true ∧
      (Gen.refMapsOf s).maps.length = childCount s := by
  have h := refinery_structure_all
  cases s <;> (simp only [List.all_cons, List.all_nil, Bool.and_eq_true, beq_iff_eq, Bool.and_true] at h; tauto)

/-- ... and the determinant condition is what excludes the seeded defect of round 3: exchanging the volume fractions
    1/8 and 1/16 among the tetrahedron's children violates it (no moment has to be computed to see that). -/
theorem C14.swapped_child_weights_rejected :
    childWeightsAreDets 3 { Gen.refMapsS3 with
      maps := Gen.refMapsS3.maps.map fun m => { m with c := if m.c = 2 then 1 else 2 } } = false :=
  swapped_tetra_weights_rejected

/-- The auto-degree alias is a TOTAL function onto existing rules, for every shape, both configurations and EVERY
    requested degree (also beyond the advertised maximum, where the code answers with its largest rule instead of
    refusing): `AutoDegree::choose(d)` always names a rule of the shape's factory list that has a nominal degree. -/
theorem C14.auto_degree_total (pfx : Bool) (s : Shape) (d : Nat) :
    ∃ f n k, createBase pfx (Gen.factoriesOf s) (autoChoose pfx s d) = some (f, n) ∧ nominal f.name n = some k := by
  have hall := List.all_eq_true.1 autoTargetsExist_all s (mem_allShapes s)
  rw [Bool.and_eq_true] at hall
  have hc : autoTargetsExist pfx s = true := by cases pfx; exact hall.1; exact hall.2
  unfold autoTargetsExist at hc
  have h := List.all_eq_true.1 hc _ (autoChoose_mem_targets pfx s d)
  split at h
  · rename_i f n hb
    cases hk : nominal f.name n with
    | none => simp [hk] at h
    | some k => exact ⟨f, n, k, hb, hk⟩
  · simp at h

/-- Coverage: EVERY rule the factories can create — every driver of every shape with every admissible point count —
    is covered by a theorem: its table is generated (then `C14.tables_exact` / `C14.driver_degree` give its nominal
    degree), or it is a tensor-product rule whose scalar table is generated (then `C14.tensor_exact` does).  The
    second case applies to 9 rules of Hypercube<2> (gauss-legendre:12..20) and 20 of Hypercube<3>, to nothing else:
    Dunavant, Shunn–Ham, Lauffer, Hammer–Stroud, Silvester, barycentre and trapezoidal tables are all generated. -/
theorem C14.every_rule_covered (s : Shape) (f : Factory) (n : Nat) (hf : f ∈ Gen.factoriesOf s)
    (hlo : f.minP ≤ n) (hhi : n ≤ f.maxP) : ruleCovered s f n = true := by
  have hall := List.all_eq_true.1 allRulesCovered_all s (mem_allShapes s)
  unfold allRulesCovered at hall
  have h1 := List.all_eq_true.1 hall f hf
  have h2 := List.all_eq_true.1 h1 (n - f.minP) (by simp; omega)
  have hn : f.minP + (n - f.minP) = n := by omega
  rwa [hn] at h2

/-- NO ACCEPTED NAME YIELDS AN EMPTY OR UN-NORMALISED RULE (all strings, both configurations, every shape, every
    number of refinements `k ≥ 0` — `refine*0:` and `refine*k:`, `k ≥ 2`, included): if `create` answers a name, the
    rule it denotes (`denoteQ`, what the driver prints and the real code is compared with) exists, has exactly
    `basePoints · children^k ≥ 1` points and as many weights, and its weights sum to the reference volume up to
    `19·2^-40` (refinement changes the weight sum by exactly nothing). -/
theorem C14.accepted_rule_nonempty (pfx : Bool) (s : Shape) (name : Str) (d : Desc)
    (h : createFor pfx s name = .ok d) :
    1 ≤ d.numPoints s ∧
    ∃ r, denoteQ s (tablesOf s) (tablesOf .h1) (Gen.refMapsOf s) d = some r ∧ r.w.length = d.numPoints s ∧
      r.x.length = r.w.length ∧
      |r.momentQ (List.replicate s.dim 0) - refIntQ s.simplex (List.replicate s.dim 0)| ≤ 19 * tolQ := by
  have hf : d.fac ∈ Gen.factoriesOf s := (C14.name_refused pfx s name d h).1
  obtain ⟨hlo, hhi⟩ := C14.create_out_of_range_refused pfx s name d h
  have hb : baseOK s d.fac d.n = true := by
    have hall := List.all_eq_true.1 allBasesOK_all s (mem_allShapes s)
    unfold allBasesOK at hall
    have h2 := List.all_eq_true.1 (List.all_eq_true.1 hall d.fac hf) (d.n - d.fac.minP) (by simp; omega)
    have hn : d.fac.minP + (d.n - d.fac.minP) = d.n := by omega
    rwa [hn] at h2
  have hkinds := List.all_eq_true.1 (List.all_eq_true.1 kindsOK_all s (mem_allShapes s)) d.fac hf
  have htol : (0 : Rat) ≤ tolQ := by unfold tolQ; positivity
  have hrc : 1 ≤ refineCount s ^ d.refines := Nat.one_le_pow _ _ (by cases s <;> decide)
  -- the un-refined rule
  have hbase : ∃ b, (match d.fac.kind with
        | .driver => findTable (tablesOf s) d.fac.name (if d.fac.variadic then d.n else 0)
        | .tensor => (findTable (tablesOf .h1) d.fac.name (if d.fac.variadic then d.n else 0)).map (·.tensor s.dim)
        | .scalar => (findTable (tablesOf .h1) d.fac.name (if d.fac.variadic then d.n else 0)).map (·.simplexScalar))
        = some b ∧ b.w.length = basePoints s d.fac d.n ∧ b.w.length = b.x.length ∧ 1 ≤ basePoints s d.fac d.n ∧
        |b.momentQ (List.replicate s.dim 0) - refIntQ s.simplex (List.replicate s.dim 0)| ≤ 19 * tolQ := by
    unfold baseOK srcTable at hb
    cases hk : d.fac.kind with
    | driver =>
      simp only [hk] at hb ⊢
      cases hsrc : findTable (tablesOf s) d.fac.name (if d.fac.variadic then d.n else 0) with
      | none => simp [hsrc] at hb
      | some t =>
        simp only [hsrc, Bool.and_eq_true, beq_iff_eq, decide_eq_true_eq] at hb
        have hmem : t ∈ tablesOf s := List.mem_of_find?_eq_some hsrc
        have hw := (momentOK_iff t s.simplex _).1 (C14.weights_sum s t hmem)
        exact ⟨t, rfl, hb.2, hb.1.1, hb.1.2, by linarith⟩
    | tensor =>
      simp only [hk] at hb hkinds ⊢
      cases hsrc : findTable (tablesOf .h1) d.fac.name (if d.fac.variadic then d.n else 0) with
      | none => simp [hsrc] at hb
      | some t =>
        simp only [hsrc, Bool.and_eq_true, beq_iff_eq, decide_eq_true_eq] at hb
        have hmem : t ∈ tablesOf .h1 := List.mem_of_find?_eq_some hsrc
        obtain ⟨dd, _, hx⟩ := C14.tables_exact .h1 t hmem
        have hsx : s.simplex = false := by simpa using hkinds
        have hl := tensor_lengths t hb.1.1 s.dim
        have hz : ∀ k ∈ List.replicate s.dim 0, k ≤ dd := fun k hk => by
          rw [List.eq_of_mem_replicate hk]; exact Nat.zero_le _
        have hw := tensor_exactQ t hb.2.2 dd tolQ htol (by unfold tolQ tolBits; norm_num)
          ((exactTo_iff t false 1 dd).1 hx) s.dim (List.replicate s.dim 0) (by simp) hz
        refine ⟨t.tensor s.dim, rfl, ?_, hl.2.symm, hb.1.2, ?_⟩
        · rw [hl.1, hb.2.1]; simp [basePoints, hk]
        · rw [hsx]
          have h3 : ((3 : Rat) ^ s.dim - 2 ^ s.dim) ≤ 19 := by cases s <;> norm_num [Shape.dim]
          calc _ ≤ ((3 : Rat) ^ s.dim - 2 ^ s.dim) * tolQ := hw
            _ ≤ 19 * tolQ := mul_le_mul_of_nonneg_right h3 htol
    | scalar =>
      simp only [hk] at hb hkinds ⊢
      cases hsrc : findTable (tablesOf .h1) d.fac.name (if d.fac.variadic then d.n else 0) with
      | none => simp [hsrc] at hb
      | some t =>
        simp only [hsrc, Bool.and_eq_true, beq_iff_eq, decide_eq_true_eq] at hb
        have hmem : t ∈ tablesOf .h1 := List.mem_of_find?_eq_some hsrc
        obtain ⟨dd, _, hx⟩ := C14.tables_exact .h1 t hmem
        have hs1 : s = .s1 := by cases s <;> first | rfl | exact absurd hkinds (by decide)
        subst hs1
        have hw := simplexScalar_exactQ t hb.2.2 dd tolQ ((exactTo_iff t false 1 dd).1 hx)
          (List.replicate 1 0) rfl (by simp [esum])
        refine ⟨t.simplexScalar, rfl, ?_, ?_, hb.1.2, ?_⟩
        · simp [DyTable.simplexScalar, basePoints, hk, hb.2.1]
        · simp [DyTable.simplexScalar, hb.1.1]
        · show |t.simplexScalar.momentQ (List.replicate 1 0) - refIntQ true (List.replicate 1 0)| ≤ 19 * tolQ
          linarith
  obtain ⟨b, hbq, hlen, hleq, hbp, hbw⟩ := hbase
  obtain ⟨rw1, rl, rx⟩ := refine_weight_sum b (Gen.refMapsOf s) (refMaps_tile s) hleq s.dim d.refines
  refine ⟨?_, b.refine (Gen.refMapsOf s) d.refines, ?_, ?_, rx, by rw [rw1]; exact hbw⟩
  · unfold Desc.numPoints
    exact Nat.mul_le_mul hbp hrc
  · unfold denoteQ
    cases hk : d.fac.kind <;> simp only [hk] at hbq ⊢ <;> simp only [hbq, Option.map_some]
  · rw [rl, hlen, refineCount_eq]; rfl

/-- hypotheses are satisfiable by non-trivial values: the 79-point rule `dunavant:20` is a generated table -/
example : ∃ t ∈ tablesOf .s2, t.fac = "dunavant".toList ∧ t.n = 20 ∧ t.w.length = 79 := by decide +kernel

/-- the formerly broken rules are generated tables and hence covered positively by `C14.tables_exact` -/
example : (∃ t ∈ tablesOf .s2, t.fac = "dunavant".toList ∧ t.n = 18) ∧
    (∃ t ∈ tablesOf .s2, t.fac = "silvester-open".toList ∧ t.n = 5) ∧
    (∃ t ∈ tablesOf .s2, t.fac = "silvester-open".toList ∧ t.n = 6) := by decide +kernel
