import FeatModel.Lemmas.C10Counts
import FeatModel.Lemmas.C10Bounds
import FeatModel.Lemmas.C10Parts
import FeatModel.Lemmas.C10Local2D
import FeatModel.Lemmas.C10Local2Db
import FeatModel.Lemmas.C10Local2Dc
import FeatModel.Lemmas.C10Sampler
import FeatModel.Lemmas.C10LocalH3a
import FeatModel.Lemmas.C10LocalH3b
import FeatModel.Lemmas.C10LocalS3a
import FeatModel.Lemmas.C10LocalS3b
/-!
# C10 — refined meshes are conforming and every mesh part follows its parent entities

All theorems are about `FeatModel.Refine.refine` / `fineIdx` / `simpleTargets`, i.e. the functions the driver
`drv_c10` executes against the real `StandardRefinery`, interpreting the tables `FeatModel.Gen.Refine.*` that are
regenerated from the FEAT sources on every run.  Helper lemmas are in `Lemmas/C10*.lean`.

Full statement and what is proved:
* `C10.FullStatement` (global lift of conformity) is stated but NOT proved; proved parts of it:
  `C10.shape_preserved_partial` (sizes + index ranges, all mesh sizes), the local lemmas (one cell, every orientation
  in 2-D; a covering family in 3-D), `C10.counts_formula_*`, `C10.euler_invariant`.
* mesh parts: `C10.part_follows_parent` (simple target refiner = parts without own topology, all mesh sizes).
-/
open FeatModel.Refine FeatModel.Gen.Refine

/-- The global property (not proved here in full; see the `_partial` theorems): refinement preserves conformity. -/
def C10.FullStatement : Prop :=
  ∀ M : Mesh, 1 ≤ M.dim → M.dim ≤ 3 → M.consistent = true → (refine M).consistent = true

/-! ## entity counts follow the refinement formulas; Euler characteristic -/

theorem C10.counts_formula_segment (kind : Kind) (v e : Nat) : fineNums kind [v, e] 1 = [v + e, 2 * e] :=
  fineNums_1 kind v e

theorem C10.counts_formula_triangle (v e t : Nat) :
    fineNums .simplex [v, e, t] 2 = [v + e, 2 * e + 3 * t, 4 * t] := fineNums_tria v e t

theorem C10.counts_formula_quadrilateral (v e q : Nat) :
    fineNums .hypercube [v, e, q] 2 = [v + e + q, 2 * e + 4 * q, 4 * q] := fineNums_quad v e q

theorem C10.counts_formula_tetrahedron (v e t c : Nat) :
    fineNums .simplex [v, e, t, c] 3 = [v + e + c, 2 * e + 3 * t + 6 * c, 4 * t + 16 * c, 12 * c] :=
  fineNums_tetra v e t c

theorem C10.counts_formula_hexahedron (v e q c : Nat) :
    fineNums .hypercube [v, e, q, c] 3 = [v + e + q + c, 2 * e + 4 * q + 6 * c, 4 * q + 12 * c, 8 * c] :=
  fineNums_hexa v e q c

/-- the refined mesh reports exactly these counts, and every refined index set `<c,f>` really has that many tuples of
    the right width (for every mesh, whatever its size and its index data) -/
theorem C10.refined_sizes (M : Mesh) (hd : M.dim ≤ 3) (c f : Nat) (hc : c ≤ M.dim) (hfc : f < c) :
    (refine M).nums = fineNums M.kind M.nums M.dim ∧
    ((refine M).idx c f).length = (refine M).num c ∧
    ∀ row ∈ (refine M).idx c f, row.length = faceCount M.kind c f := by
  refine ⟨rfl, ?_, ?_⟩
  · rw [refine_idx M c f hc hfc, refine_num M c hc]
    exact fineIdx_length M c f (by omega) hfc
  · rw [refine_idx M c f hc hfc]
    exact fineIdx_row_length M c f (by omega) hfc

/-- the Euler characteristic `n₀ - n₁ + n₂ - n₃` is unchanged by refinement, for all six shapes and all counts -/
theorem C10.euler_invariant (M : Mesh) (hd1 : 1 ≤ M.dim) (hd3 : M.dim ≤ 3) (h : M.nums.length = M.dim + 1) :
    altSum (refine M).nums = altSum M.nums :=
  euler_fineNums M.kind M.dim hd1 hd3 M.nums h

/-! ## conformity: global lift of the size/range clause (all mesh sizes) -/

/-- PARTIAL global lift: of the clauses of `Mesh.consistent`, the one saying that every index set `<c,f>` has
    `nums[c]` tuples of `faceCount` entries which are all valid indices `< nums[f]` is preserved by refinement for
    every mesh.  Missing for `C10.FullStatement`: the global lift of `facesOk`, `distinctOk`, `facetsOk`, `coveredOk`
    (proved only locally, see below). -/
theorem C10.shape_preserved_partial (M : Mesh) (hd : M.dim ≤ 3) (hM : M.shapeOk = true) :
    (refine M).shapeOk = true :=
  shapeOk_refine M (by omega) hM

/-- every term of the generated tables addresses a child (`add < mult = refCount`) of a face of the refined entity:
    "children of a shared entity are indexed from that entity alone" -/
theorem C10.tables_structurally_wellformed (kind : Kind) :
    ∀ s < 4, ∀ c < 4, ∀ f < 4, ((indexTable kind s c f).all fun row => row.all (termOk kind s f)) = true :=
  tables_ok kind

/-! ## orientation codes (specification of the hand-transcribed `CongruencySampler::compare`, any vertex numbers) -/

/-- quadrilateral faces: if the source tuple is the `code`-th of the 8 symmetric arrangements of the target tuple
    `[a,b,c,d]` (arbitrary pairwise distinct vertex numbers), the sampler returns exactly `code`, and the vertex
    congruency map of that code sends every source position to the target position of the same vertex -/
theorem C10.sampler_spec_quadrilateral (a b c d : Nat) (hab : a ≠ b) (hac : a ≠ c) (had : a ≠ d) (hbc : b ≠ c)
    (hbd : b ≠ d) (hcd : c ≠ d) (code : Nat) (hc : code < 8) :
    let src := reorient .hypercube 2 code [a, b, c, d]
    FeatModel.Refine.compare .hypercube 2 (src.getD 0 0) (src.getD 1 0) [a, b, c, d] = (code : Int) ∧
    ∀ j < 4, [a, b, c, d].getD (congLookup .hypercube 2 0 (code : Int) j) 0 = src.getD j 0 := by
  refine ⟨sampler_quad a b c d hab hac had hbc hbd hcd code hc, ?_⟩
  intro j hj
  apply congLookup_reorient
  have : code = 0 ∨ code = 1 ∨ code = 2 ∨ code = 3 ∨ code = 4 ∨ code = 5 ∨ code = 6 ∨ code = 7 := by omega
  rcases this with rfl | rfl | rfl | rfl | rfl | rfl | rfl | rfl <;> simpa [congMap] using hj

/-- triangular faces: same for the 6 arrangements (codes 0,1,2,4,5,6) -/
theorem C10.sampler_spec_triangle (a b c : Nat) (hab : a ≠ b) (hac : a ≠ c) (hbc : b ≠ c) (code : Nat)
    (hc : code ∈ [0, 1, 2, 4, 5, 6]) :
    let src := reorient .simplex 2 code [a, b, c]
    FeatModel.Refine.compare .simplex 2 (src.getD 0 0) (src.getD 1 0) [a, b, c] = (code : Int) ∧
    ∀ j < 3, [a, b, c].getD (congLookup .simplex 2 0 (code : Int) j) 0 = src.getD j 0 := by
  refine ⟨sampler_tria a b c hab hac hbc code hc, ?_⟩
  intro j hj
  apply congLookup_reorient
  simp only [List.mem_cons, List.not_mem_nil, or_false] at hc
  rcases hc with rfl | rfl | rfl | rfl | rfl | rfl <;> simpa [congMap] using hj

/-- edges (both shape families): the two orientations -/
theorem C10.sampler_spec_edge (kind : Kind) (a b : Nat) (hab : a ≠ b) (code : Nat) (hc : code < 2) :
    let src := reorient kind 1 code [a, b]
    FeatModel.Refine.compare kind 1 (src.getD 0 0) (src.getD 1 0) [a, b] = (code : Int) :=
  sampler_edge kind a b hab code hc

/-! ## local refinement lemma (kernel evaluation of the generated tables over orientation codes) -/

/-- 2-D, complete: one quadrilateral whose four edges have ANY of the 2⁴ orientation combinations and any rotation of
    the edge numbering refines to a conforming mesh (all clauses of `consistent`, incl. every interior fine facet
    listed by exactly two children and every boundary one by exactly one) -/
theorem C10.local_refinement_quadrilateral :
    ∀ o < 16, ∀ r < 4, (refine (cell2 .hypercube o r)).consistent = true := local_quad

/-- 2-D, complete: same for one triangle (2³ orientation combinations, 3 rotations) -/
theorem C10.local_refinement_triangle :
    ∀ o < 8, ∀ r < 3, (refine (cell2 .simplex o r)).consistent = true := local_tria

/-- histories: two refinement steps of the same cells are conforming as well -/
theorem C10.local_refinement_2d_twice :
    (∀ o < 16, (refine (refine (cell2 .hypercube o 1))).consistent = true) ∧
    (∀ o < 8, (refine (refine (cell2 .simplex o 1))).consistent = true) := ⟨local_quad_twice, local_tria_twice⟩

/-- PARTIAL 3-D local lemma, hexahedron: the covering family `cell3 .hypercube j`, `j < 8`, in which every face
    occurs with every one of the 8 orientation codes and every edge with both orientations (Latin square, not the
    full product 8⁶·2¹²) refines to a conforming mesh -/
theorem C10.local_refinement_hexahedron_partial :
    ∀ j < 8, (refine (cell3 .hypercube j)).consistent = true := by
  intro j hj
  by_cases h : j < 4
  · simpa using local_hexa_a j h
  · have := local_hexa_b (j - 4) (by omega)
    rwa [Nat.sub_add_cancel (by omega)] at this

/-- PARTIAL 3-D local lemma, tetrahedron: covering family, every face with each of its 6 orientation codes, every
    edge with both orientations -/
theorem C10.local_refinement_tetrahedron_partial :
    ∀ j < 6, (refine (cell3 .simplex j)).consistent = true := by
  intro j hj
  by_cases h : j < 3
  · simpa using local_tetra_a j h
  · have := local_tetra_b (j - 3) (by omega)
    rwa [Nat.sub_add_cancel (by omega)] at this

/-- the hypotheses are satisfiable: the reference cells themselves are conforming meshes -/
theorem C10.reference_cells_conforming :
    (∀ o < 16, ∀ r < 4, (cell2 .hypercube o r).consistent = true) ∧
    (∀ o < 8, ∀ r < 3, (cell2 .simplex o r).consistent = true) ∧
    (∀ j < 4, (cell3 .hypercube (j + 0)).consistent = true) ∧ (∀ j < 4, (cell3 .hypercube (j + 4)).consistent = true) ∧
    (∀ j < 3, (cell3 .simplex (j + 0)).consistent = true) ∧ (∀ j < 3, (cell3 .simplex (j + 3)).consistent = true) :=
  ⟨local_quad_input, local_tria_input, local_hexa_input_a, local_hexa_input_b, local_tetra_input_a,
    local_tetra_input_b⟩

/-! ## mesh parts follow their parent entities -/

/-- child numbering (all mesh sizes): the `j`-th child the index refiner generates for the coarse `s`-entity `t`
    is the fine `c`-entity number `offset c s + t·refCount + j` of the refined mesh -/
theorem C10.child_numbering (M : Mesh) (hd : M.dim ≤ 3) (c f s t j : Nat) (hfc : f < c) (hcs : c ≤ s)
    (hsd : s ≤ M.dim) (ht : t < M.num s) (hj : j < refCount M.kind s c) :
    ((refine M).idx c f)[offset M.kind M.nums c s + t * refCount M.kind s c + j]? = (childRows M s c f t)[j]? := by
  rw [refine_idx M c f (by omega) hfc]
  exact fineIdx_child M (by omega) c f s t j hfc hcs hsd ht hj

/-- **every refined entity of a mesh part / halo without own topology is attached to a child of the parent entity its
    coarse entity was attached to**: each target `x` produced in dimension `c ≥ 1` comes from a part entity attached
    to some parent `s`-entity `t`, and the fine mesh's entity number `x` is one of the rows the index refiner
    generated for exactly that `t` (for every mesh size and every part) -/
theorem C10.part_follows_parent (M : Mesh) (hd : M.dim ≤ 3) (P : Part) (c f x : Nat) (hfc : f < c)
    (hP : ∀ s, ∀ t ∈ P.target s, t < M.num s) (hx : x ∈ simpleTargets M P c) :
    ∃ s t j, c ≤ s ∧ s ≤ M.dim ∧ t ∈ P.target s ∧ j < refCount M.kind s c ∧
      ((refine M).idx c f)[x]? = (childRows M s c f t)[j]? := by
  obtain ⟨s, hcs, hsd, t, ht, j, hj, rfl⟩ := (mem_simpleTargets M P c _).1 hx
  exact ⟨s, t, j, hcs, hsd, ht, hj, C10.child_numbering M hd c f s t j hfc hcs hsd (hP s t ht) hj⟩

/-- the same for the vertices (`c = 0`): a refined part vertex is attached either to the same (unmoved) coarse vertex
    or to the new vertex that is the barycentre of the parent `s`-entity `t` its coarse entity was attached to -/
theorem C10.part_vertex_follows_parent (M : Mesh) (hd : M.dim ≤ 3) (hv : M.verts.length = M.num 0)
    (hne : M.verts.isEmpty = false) (P : Part)
    (x : Nat) (hP : ∀ s, ∀ t ∈ P.target s, t < M.num s) (hx : x ∈ simpleTargets M P 0) :
    (∃ t ∈ P.target 0, x = t ∧ ((refine M).verts)[x]? = M.verts[t]?) ∨
    (∃ s t, 1 ≤ s ∧ s ≤ M.dim ∧ t ∈ P.target s ∧
      ((refine M).verts)[x]? = some (midpoint M (M.tuple s 0 t) (faceCount M.kind s 0))) := by
  have hrv : (refine M).verts = fineVerts M := by simp [refine, hne]
  rw [hrv]
  obtain ⟨s, _, hsd, t, ht, j, hj, rfl⟩ := (mem_simpleTargets M P 0 _).1 hx
  have hts := hP s t ht
  by_cases hs0 : s = 0
  · subst hs0
    left
    have hj0 : j = 0 := by simp [refCount] at hj; omega
    subst hj0
    have h1 : refCount M.kind 0 0 = 1 := by simp [refCount]
    refine ⟨t, ht, ?_, ?_⟩
    · simp [h1, offset_self]
    · simp only [h1, offset_self, Nat.zero_add, Nat.mul_one, Nat.add_zero]
      exact fineVerts_coarse M t (by omega)
  · right
    have hr : refCount M.kind s 0 ≠ 0 := by omega
    have h1 : refCount M.kind s 0 = 1 := by
      rcases refCount_vertex_le_one M.kind s (by omega) with h | h
      · exact absurd h hr
      · exact h
    have hj0 : j = 0 := by omega
    subst hj0
    refine ⟨s, t, by omega, hsd, ht, ?_⟩
    simp only [h1, Nat.mul_one, Nat.add_zero]
    exact fineVerts_child M (by omega) hv s t (by omega) hsd hr hts

/-- and all children are covered exactly once per part entity: the refined target set of dimension `c` has
    `Σ_s |target s| · refCount s c` entries -/
theorem C10.part_target_count (M : Mesh) (P : Part) (c : Nat) :
    (simpleTargets M P c).length =
      ((List.range' c (M.dim + 1 - c)).map fun s => (P.target s).length * refCount M.kind s c).sum :=
  simpleTargets_length M P c
