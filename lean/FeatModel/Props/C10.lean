import FeatModel.Lemmas.C10Counts
import FeatModel.Lemmas.C10Bounds
import FeatModel.Lemmas.C10Parts
import FeatModel.Lemmas.C10Local2D
import FeatModel.Lemmas.C10Local2Db
import FeatModel.Lemmas.C10Local2Dc
import FeatModel.Lemmas.C10Sampler
import FeatModel.Lemmas.C10Boundary
import FeatModel.Lemmas.C10Volume
import FeatModel.Lemmas.C10HexOrient
import FeatModel.Lemmas.C10Keys
import FeatModel.Lemmas.C10Lift2Dg
import FeatModel.Lemmas.C10BoundaryPart
import FeatModel.Lemmas.C10Facets3D
import FeatModel.Lemmas.C10Lift3Dc
import FeatModel.Lemmas.C10Lift3Dd
import FeatModel.Lemmas.C10Lift1D
import FeatModel.Lemmas.C10CoverData
import FeatModel.Lemmas.C10CoverH3_00
import FeatModel.Lemmas.C10CoverH3_01
import FeatModel.Lemmas.C10CoverH3_02
import FeatModel.Lemmas.C10CoverH3_03
import FeatModel.Lemmas.C10CoverH3_04
import FeatModel.Lemmas.C10CoverH3_05
import FeatModel.Lemmas.C10CoverH3_06
import FeatModel.Lemmas.C10CoverH3_07
import FeatModel.Lemmas.C10CoverH3_08
import FeatModel.Lemmas.C10CoverH3_09
import FeatModel.Lemmas.C10CoverH3_10
import FeatModel.Lemmas.C10CoverH3_11
import FeatModel.Lemmas.C10CoverH3_12
import FeatModel.Lemmas.C10CoverH3_13
import FeatModel.Lemmas.C10CoverH3_14
import FeatModel.Lemmas.C10CoverH3_15
import FeatModel.Lemmas.C10CoverS3_00
import FeatModel.Lemmas.C10CoverS3_01
import FeatModel.Lemmas.C10CoverS3_02
import FeatModel.Lemmas.C10CoverS3_03
import FeatModel.Lemmas.C10CoverS3_04
import FeatModel.Lemmas.C10CoverS3_05
import FeatModel.Lemmas.C10CoverS3_06
import FeatModel.Lemmas.C10LocalH3a
import FeatModel.Lemmas.C10LocalH3b
import FeatModel.Lemmas.C10LocalS3a
import FeatModel.Lemmas.C10LocalS3b
/-!
# C10 — refined meshes are conforming and every mesh part follows its parent entities

All theorems are about `FeatModel.Refine.refine` / `fineIdx` / `simpleTargets`, i.e. the functions the driver
`drv_c10` executes against the real `StandardRefinery`, interpreting the tables `FeatModel.Gen.Refine.*` that are
regenerated from the FEAT sources on every run.  Helper lemmas are in `Lemmas/C10*.lean`.

Unbounded modelling (tied to the C++ only by the correspondence run, in particular its `boundary-sizes` sub-stream):
`Index` (64-bit unsigned: entity numbers, counts, the offset arithmetic `ioq + 4*c_q[k] + …`, target sets) is an
unbounded `Nat`; `int` (local face numbers, orientation codes, `SubIndexMapping::_cell_orient[]`) is `Nat`/`Int`;
`std::vector<int>` masks and adjacency counters of `BoundaryFaceComputer` and the `Index shared_by[2]` scratch of
`FacetNeighbors` are `Nat`/`Bool`/lists; coordinates and attributes are exact rationals (`Q`).  No narrower integer
type, fixed-size scratch buffer, blocking factor or size threshold was found in the anchored sources; the
`boundary-sizes` stream nevertheless crosses 2^7, 2^8, 1000 (quick) and 2^15, 2^16 (thorough) in entity counts and
indices, with re-oriented cells, reversed sub-entities and attached mesh parts at the highest indices.

Full statement and what is proved:
* `C10.FullStatement` (global lift of conformity for dim 1..3): PROVED for `dim = 2` (`C10.global_lift_2d`, any mesh
  size, triangles and quadrilaterals, + histories) and for `dim = 1` (`C10.global_lift_1d`); for `dim = 3` the
  statement needs the extra hypothesis `orientOk` (`C10.FullStatement3D`) and is proved only in part
  (`C10.global_lift_3d_partial`: `shapeOk`, `facesOk`, `facetsOk`, `coveredOk` for every mesh; `distinctOk` and
  `orientOk` only locally over the Latin-square and pairwise covering orientation families).
* counts, Euler characteristic, boundary = one-cell facets (+ preservation in 2-D), mesh-part child mapping, local
  volume/orientation identities: see the sections below.
-/
open FeatModel.Refine FeatModel.Gen.Refine

/-- The global property (not proved here in full; see the `_partial` theorems): refinement preserves conformity. -/
def C10.FullStatement : Prop :=
  ∀ M : Mesh, 1 ≤ M.dim → M.dim ≤ 3 → M.consistent = true → (refine M).consistent = true

/-! ## entity counts follow the refinement formulas; Euler characteristic -/

theorem C10.counts_formula_segment (kind : Kind) (v e : Nat) : fineNums kind [v, e] 1 = [v + e, 2 * e] :=
  fineNums_1 kind v e

theorem C10.counts_formula_triangle (v e t : Nat) :
    fineNums .simplex [v, e, t] 2 = [v + e, 2 * e + 3 * t, 4 * t] := fineNums_tria v e t

theorem C10.counts_formula_quadrilateral (v e q : Nat) :
    fineNums .hypercube [v, e, q] 2 = [v + e + q, 2 * e + 4 * q, 4 * q] := fineNums_quad v e q

theorem C10.counts_formula_tetrahedron (v e t c : Nat) :
    fineNums .simplex [v, e, t, c] 3 = [v + e + c, 2 * e + 3 * t + 6 * c, 4 * t + 16 * c, 12 * c] :=
  fineNums_tetra v e t c

theorem C10.counts_formula_hexahedron (v e q c : Nat) :
    fineNums .hypercube [v, e, q, c] 3 = [v + e + q + c, 2 * e + 4 * q + 6 * c, 4 * q + 12 * c, 8 * c] :=
  fineNums_hexa v e q c

/-- the refined mesh reports exactly these counts, and every refined index set `<c,f>` really has that many tuples of
    the right width (for every mesh, whatever its size and its index data) -/
theorem C10.refined_sizes (M : Mesh) (hd : M.dim ≤ 3) (c f : Nat) (hc : c ≤ M.dim) (hfc : f < c) :
    (refine M).nums = fineNums M.kind M.nums M.dim ∧
    ((refine M).idx c f).length = (refine M).num c ∧
    ∀ row ∈ (refine M).idx c f, row.length = faceCount M.kind c f := by
  refine ⟨rfl, ?_, ?_⟩
  · rw [refine_idx M c f hc hfc, refine_num M c hc]
    exact fineIdx_length M c f (by omega) hfc
  · rw [refine_idx M c f hc hfc]
    exact fineIdx_row_length M c f (by omega) hfc

/-- the Euler characteristic `n₀ - n₁ + n₂ - n₃` is unchanged by refinement, for all six shapes and all counts -/
theorem C10.euler_invariant (M : Mesh) (hd1 : 1 ≤ M.dim) (hd3 : M.dim ≤ 3) (h : M.nums.length = M.dim + 1) :
    altSum (refine M).nums = altSum M.nums :=
  euler_fineNums M.kind M.dim hd1 hd3 M.nums h

/-! ## conformity: global lift of the size/range clause (all mesh sizes) -/

/-- PARTIAL global lift: of the clauses of `Mesh.consistent`, the one saying that every index set `<c,f>` has
    `nums[c]` tuples of `faceCount` entries which are all valid indices `< nums[f]` is preserved by refinement for
    every mesh.  Missing for `C10.FullStatement` in 3-D: the global lift of `facesOk`, `distinctOk`, `facetsOk`, `coveredOk`
    (proved only locally, see below). -/
theorem C10.shape_preserved_partial (M : Mesh) (hd : M.dim ≤ 3) (hM : M.shapeOk = true) :
    (refine M).shapeOk = true :=
  shapeOk_refine M (by omega) hM

/-- every term of the generated tables addresses a child (`add < mult = refCount`) of a face of the refined entity:
    "children of a shared entity are indexed from that entity alone" -/
theorem C10.tables_structurally_wellformed (kind : Kind) :
    ∀ s < 4, ∀ c < 4, ∀ f < 4, ((indexTable kind s c f).all fun row => row.all (termOk kind s f)) = true :=
  tables_ok kind

/-! ## conformity: GLOBAL lift for 2-D meshes of any size (triangles and quadrilaterals) -/

/-- **GLOBAL LIFT, 2-D (complete)**: `C10.FullStatement` restricted to `dim = 2`.  Refining ANY conforming triangle or
    quadrilateral mesh (any size, any cell orientation, any numbering/orientation of the edges) yields a conforming
    mesh: all clauses of `Mesh.consistent` — index ranges and sizes, every listed edge of a refined cell really is
    the corresponding local edge, no two entities with the same vertex set, every interior edge has exactly two and
    every boundary edge exactly one adjacent cell, no orphan edges.  Proof: symbolic `decide` checks of the generated
    2-D tables + the semantic lemma about `sim.map` (`sim_child`) + counting over the table permutation +
    "rows are determined by their vertex sets" (`rows_inj_all`). -/
theorem C10.global_lift_2d (M : Mesh) (hd : M.dim = 2) (h : M.consistent = true) : (refine M).consistent = true :=
  consistent_refine2 M hd h

/-- **GLOBAL LIFT, 1-D (complete)**: `C10.FullStatement` restricted to `dim = 1` (segment meshes of any size, both
    shape families, any edge orientation) -/
theorem C10.global_lift_1d (M : Mesh) (hd : M.dim = 1) (h : M.consistent = true) : (refine M).consistent = true :=
  consistent_refine1 M hd h

/-- histories: conformity is preserved by any number of refinement steps (2-D) -/
theorem C10.global_lift_2d_histories (M : Mesh) (hd : M.dim = 2) (h : M.consistent = true) (n : Nat) :
    (Nat.iterate refine n M).consistent = true ∧ (Nat.iterate refine n M).dim = 2 := by
  induction n generalizing M with
  | zero => exact ⟨h, hd⟩
  | succ n ih => exact ih (refine M) hd (consistent_refine2 M hd h)

/-- `setKey` names vertex sets faithfully (used by the lift): entities (entries `< base`) with equal `setKey` have the same vertex set, so
    `distinctOk` may be established by showing that the vertex sets differ -/
theorem C10.setKey_identifies_vertex_sets (base : Nat) (x y : List Nat) (hx : ∀ v ∈ x, v < base)
    (hy : ∀ v ∈ y, v < base) (h : setKey base x = setKey base y) : sameSet x y = true :=
  setKey_eq_sameSet base x y hx hy h

/-! ## the computed boundary -/

/-- **the computed boundary facets are exactly the facets with one adjacent cell** (model of `BoundaryFactory` /
    `BoundaryFaceComputer::compute_all`; every mesh, every dimension) -/
theorem C10.boundary_is_one_cell_facets (M : Mesh) (hd : 1 ≤ M.dim) :
    (boundary M).getD (M.dim - 1) [] = (List.range (M.num (M.dim - 1))).filter fun l => M.facetCount l == 1 :=
  boundary_facets M hd

/-- the lower-dimensional target sets of the computed boundary are exactly the faces of those facets (mask loop) -/
theorem C10.boundary_lower_faces (M : Mesh) (d x : Nat) (hd : d < M.dim - 1) :
    x ∈ (boundary M).getD d [] ↔
      x < M.num d ∧ ∃ q, q < M.num (M.dim - 1) ∧ M.facetCount q = 1 ∧ x ∈ M.tuple (M.dim - 1) d q :=
  boundary_faces M d x hd

/-- 2-D, any mesh size: the boundary facets computed on the refined mesh are exactly the two children of every
    boundary facet computed on the coarse mesh -/
theorem C10.boundary_preserved_2d (M : Mesh) (hd : M.dim = 2) (hs : M.shapeOk = true) (x : Nat) :
    x ∈ (boundary (refine M)).getD 1 [] ↔ x < 2 * M.num 1 ∧ x / 2 ∈ (boundary M).getD 1 [] :=
  boundary_refine2 M ⟨hd, hs⟩ x

/-- **2-D, any mesh size: the boundary part computed on the refined mesh ("facets with exactly one adjacent cell" and
    their vertices) is, as a set in every dimension, the refinement of the boundary part computed on the coarse
    mesh** by the mesh-part refiner (`simpleTargets` = `SimpleTargetRefineWrapper`): children of the boundary facets;
    coarse boundary vertices and midpoints of the boundary facets -/
theorem C10.refined_boundary_is_refined_boundary_part (M : Mesh) (hd : M.dim = 2) (hs : M.shapeOk = true) (x : Nat) :
    (x ∈ (boundary (refine M)).getD 1 [] ↔ x ∈ simpleTargets M (boundaryPart M) 1) ∧
    (x ∈ (boundary (refine M)).getD 0 [] ↔ x ∈ simpleTargets M (boundaryPart M) 0) :=
  ⟨boundary_refine_part1 M ⟨hd, hs⟩ x, boundary_refine_part0 M ⟨hd, hs⟩ x⟩

/-- 2-D adjacency counts under refinement: a child of a coarse edge has as many adjacent fine cells as its parent has
    coarse cells; an inner edge has exactly two -/
theorem C10.facet_adjacency_2d (M : Mesh) (hd : M.dim = 2) (hs : M.shapeOk = true) (x : Nat)
    (hx : x < (refine M).num 1) :
    (x < 2 * M.num 1 → (refine M).facetCount x = M.facetCount (x / 2)) ∧
    (2 * M.num 1 ≤ x → (refine M).facetCount x = 2) :=
  facetCount_refine2_cases M ⟨hd, hs⟩ x hx

/-! ## 3-D, every mesh size: `facesOk`, facet adjacency and boundary (shrinks the 3-D gap of `C10.FullStatement`) -/

/-- The 3-D statement with the hypothesis the refiner really needs: for hexahedra, `Mesh.consistent` (vertex SETS of
    faces) does not exclude a cell that sees a quadrilateral face in a "twisted" vertex order, for which no
    orientation code exists; `consistent3 = consistent ∧ orientOk` adds that every cell sees each face as a symmetric
    arrangement of the face's own tuple.  NOT proved in full (see the `_partial` theorems below). -/
def C10.FullStatement3D : Prop :=
  ∀ M : Mesh, M.dim = 3 → M.consistent3 = true → (refine M).consistent3 = true

/-- **PARTIAL 3-D global lift, clause `facesOk` (every mesh size, hexahedra and tetrahedra, EVERY joint assignment of
    orientation codes to the faces and edges of the cells)**: every edge / face listed by a refined cell or refined
    face really is the corresponding local face.  Proof: per-sub-entity independence read off the generated terms
    (each term of a table `(3,c,f)` refers to exactly one edge or face of the cell — `cterm3Ok`), a kernel-evaluated
    symbolic check for each of the 8 (6) codes of that one face (`faces3Check`: 6·8 resp. 4·6 cases per term instead
    of 8⁶), and the 3-D analogues of `sim_child`: `transl_sound` (a vertex / edge midpoint / centre of a face
    expressed in the cell's own vertices, edges and faces) and `sim_child3` (edge children).
    Still missing for `C10.FullStatement3D`: the global lift of `distinctOk` and `orientOk` (see
    `C10.global_lift_3d_partial`). -/
theorem C10.faces_preserved_3d_partial (M : Mesh) (hd : M.dim = 3) (h : M.consistent3 = true) :
    (refine M).facesOk = true :=
  facesOk_refine3 M (conf3_of_consistent3 M hd h)

/-- **PARTIAL 3-D global lift (every mesh size, hexahedra and tetrahedra, every orientation of every sub-entity)**:
    of the clauses of `consistent3`, refinement preserves sizes/index ranges (`shapeOk`), `facesOk`, facet adjacency
    (`facetsOk`: interior facet two cells, boundary facet one) and `coveredOk` (no orphan edges / faces).
    NOT yet lifted in 3-D: `distinctOk` (no two fine entities with the same vertex set) and `orientOk` (fine cells see
    their faces in a symmetric arrangement); for these only the local lemmas over the Latin-square and pairwise
    covering orientation families are available. -/
theorem C10.global_lift_3d_partial (M : Mesh) (hd : M.dim = 3) (h : M.consistent3 = true) :
    (refine M).shapeOk = true ∧ (refine M).facesOk = true ∧ (refine M).facetsOk = true ∧
    (refine M).coveredOk = true := by
  have hc := conf3_of_consistent3 M hd h
  unfold Mesh.consistent3 Mesh.consistent at h
  simp only [Bool.and_eq_true] at h
  exact ⟨shapeOk_refine M (by rw [hd]; omega) hc.shape, facesOk_refine3 M hc,
    facetsOk_refine3 M ⟨hd, hc.shape⟩ h.1.1.2, coveredOk_refine3 M hd hc.shape h.1.2⟩

/-- per-sub-entity symbolic check of the generated 3-D tables (kernel evaluation): the statement the seeded change
    "child quad of face 4 selected with the code of face 3" violates -/
theorem C10.tables_3d_checked_per_orientation_code (kind : Kind) : faces3Check kind = true :=
  faces3Check_true kind


/-- PARTIAL 3-D global lift, clause `facetsOk`: for every hexahedral or tetrahedral mesh of any size whose index sets
    are well-shaped, "every interior facet has exactly two and every boundary facet one adjacent cell" is preserved
    by refinement — for EVERY orientation code the sampler can return (the four children of a face always get four
    different numbers), so no orientation family is left out for this clause.  Still missing in 3-D: the global
    lift of `facesOk`, `distinctOk`, `coveredOk` (local only: Latin-square and pairwise covering families). -/
theorem C10.facets_preserved_3d_partial (M : Mesh) (hd : M.dim = 3) (hs : M.shapeOk = true)
    (hf : M.facetsOk = true) : (refine M).facetsOk = true :=
  facetsOk_refine3 M ⟨hd, hs⟩ hf

/-- 3-D adjacency counts: a child of a coarse face has as many adjacent fine cells as its parent has coarse cells, an
    inner face exactly two -/
theorem C10.facet_adjacency_3d (M : Mesh) (hd : M.dim = 3) (hs : M.shapeOk = true) (x : Nat)
    (hx : x < (refine M).num 2) :
    (x < 4 * M.num 2 → (refine M).facetCount x = M.facetCount (x / 4)) ∧
    (4 * M.num 2 ≤ x → (refine M).facetCount x = 2) :=
  facetCount_refine3_cases M ⟨hd, hs⟩ x hx

/-- 3-D, any mesh size: the boundary facets computed on the refined mesh are exactly the four children of every
    boundary facet computed on the coarse mesh -/
theorem C10.boundary_preserved_3d (M : Mesh) (hd : M.dim = 3) (hs : M.shapeOk = true) (x : Nat) :
    x ∈ (boundary (refine M)).getD 2 [] ↔ x < 4 * M.num 2 ∧ x / 4 ∈ (boundary M).getD 2 [] :=
  boundary_refine3 M ⟨hd, hs⟩ x

/-! ## volume and orientation (local polynomial identities in the vertex coordinates) -/

/-- every child of a straight triangle with arbitrary rational vertex coordinates has exactly a quarter of the
    parent's signed area: the children tile the parent and keep its orientation -/
theorem C10.volume_orientation_triangle (x0 y0 x1 y1 x2 y2 : Rat) :
    ∀ t ∈ (refine (triMesh x0 y0 x1 y1 x2 y2)).idx 2 0,
      triArea2 (refine (triMesh x0 y0 x1 y1 x2 y2)) t = 1/4 * triArea2 (triMesh x0 y0 x1 y1 x2 y2) [0, 1, 2] :=
  tri_children_area x0 y0 x1 y1 x2 y2

/-- the four children of a bilinear quadrilateral with arbitrary rational vertex coordinates have areas summing to
    the parent's area -/
theorem C10.volume_quadrilateral (x0 y0 x1 y1 x2 y2 x3 y3 : Rat) :
    (((refine (quadMesh x0 y0 x1 y1 x2 y2 x3 y3)).idx 2 0).map
        (quadArea2 (refine (quadMesh x0 y0 x1 y1 x2 y2 x3 y3)))).sum
      = quadArea2 (quadMesh x0 y0 x1 y1 x2 y2 x3 y3) [0, 1, 2, 3] :=
  quad_children_area x0 y0 x1 y1 x2 y2 x3 y3

/-- orientation of the children of a bilinear quadrilateral: a positive Jacobian determinant at the four corners of
    the parent implies a positive one at the four corners of every child, for arbitrary rational coordinates -/
theorem C10.orientation_quadrilateral (x0 y0 x1 y1 x2 y2 x3 y3 : Rat)
    (hpos : ∀ k < 4, 0 < quadJac (quadMesh x0 y0 x1 y1 x2 y2 x3 y3) [0, 1, 2, 3] k) :
    ∀ t ∈ (refine (quadMesh x0 y0 x1 y1 x2 y2 x3 y3)).idx 2 0, ∀ k < 4,
      0 < quadJac (refine (quadMesh x0 y0 x1 y1 x2 y2 x3 y3)) t k :=
  quad_children_orientation x0 y0 x1 y1 x2 y2 x3 y3 hpos

/-- the twelve children of a straight tetrahedron with arbitrary rational vertex coordinates have 1/8 (corner
    children) resp. 1/16 (children at the centroid) of the parent's signed volume: they tile the parent and keep its
    orientation. -/
theorem C10.volume_orientation_tetrahedron (a0 a1 a2 b0 b1 b2 c0 c1 c2 d0 d1 d2 : Rat) :
    ((refine (tetMesh [[a0, a1, a2], [b0, b1, b2], [c0, c1, c2], [d0, d1, d2]])).idx 3 0).map
        (tetVol6 (refine (tetMesh [[a0, a1, a2], [b0, b1, b2], [c0, c1, c2], [d0, d1, d2]]))) =
      [1/8, 1/16, 1/8, 1/16, 1/8, 1/16, 1/8, 1/16, 1/16, 1/16, 1/16, 1/16].map
        (· * tetVol6 (tetMesh [[a0, a1, a2], [b0, b1, b2], [c0, c1, c2], [d0, d1, d2]]) [0, 1, 2, 3]) :=
  tet_children_volume a0 a1 a2 b0 b1 b2 c0 c1 c2 d0 d1 d2

/-- the eight children of a TRILINEAR hexahedron with arbitrary rational vertex coordinates have volumes summing to
    the parent's volume: polynomial identity in the 24 coordinates for the exact volume `∫ det J`
    (`hexVol12`, Grandy's formula; the check compares it on every run with the exact tensor-Simpson integral of the
    Jacobian determinant that the oracle uses, and `C10.hexVol12_is_integral_of_jacobian` proves that equality). -/
theorem C10.volume_hexahedron (a0 a1 a2 b0 b1 b2 c0 c1 c2 d0 d1 d2 e0 e1 e2 f0 f1 f2 g0 g1 g2 h0 h1 h2 : Rat) :
    (((refine (hexMesh [[a0, a1, a2], [b0, b1, b2], [c0, c1, c2], [d0, d1, d2], [e0, e1, e2], [f0, f1, f2],
        [g0, g1, g2], [h0, h1, h2]])).idx 3 0).map
      (hexVol12 (refine (hexMesh [[a0, a1, a2], [b0, b1, b2], [c0, c1, c2], [d0, d1, d2], [e0, e1, e2], [f0, f1, f2],
        [g0, g1, g2], [h0, h1, h2]])))).sum
    = hexVol12 (hexMesh [[a0, a1, a2], [b0, b1, b2], [c0, c1, c2], [d0, d1, d2], [e0, e1, e2], [f0, f1, f2],
        [g0, g1, g2], [h0, h1, h2]]) [0, 1, 2, 3, 4, 5, 6, 7] :=
  hex_children_volume a0 a1 a2 b0 b1 b2 c0 c1 c2 d0 d1 d2 e0 e1 e2 f0 f1 f2 g0 g1 g2 h0 h1 h2

/-- `hexVol12` (Grandy's closed form) equals twelve times the tensor-product Simpson rule (nodes 0, 1/2, 1) applied
    to the Jacobian determinant `hexJacAt` of the trilinear map, for every mesh and vertex tuple — an identity in the
    24 coordinates.  That rule integrates `det J` exactly because `det J` has degree ≤ 2 in each reference coordinate
    (this degree bound is the only step NOT proved in Lean). -/
theorem C10.hexVol12_is_integral_of_jacobian (M : Mesh) (t : List Nat) : hexVol12 M t = hexVolSimpson12 M t :=
  hexVol12_eq_simpson M t

/-- orientation of the children of a trilinear hexahedron with arbitrary rational vertex coordinates: the Jacobian
    determinant of child `r` at its corner `k` is 1/8 of the parent's at the grid point `((r+k)/2)` (64 polynomial
    identities), hence: positive `det J` on the parent's 3×3×3 grid {0,1/2,1}³ implies positive `det J` at all eight
    corners of all eight children.  (Positivity at the 8 parent corners alone does not suffice for a trilinear map.) -/
theorem C10.orientation_hexahedron
    (a0 a1 a2 b0 b1 b2 c0 c1 c2 d0 d1 d2 e0 e1 e2 f0 f1 f2 g0 g1 g2 h0 h1 h2 : Rat)
    (hpos : ∀ x ∈ [(0 : Rat), 1/2, 1], ∀ y ∈ [(0 : Rat), 1/2, 1], ∀ z ∈ [(0 : Rat), 1/2, 1],
      0 < hexJacAt (hexMesh [[a0, a1, a2], [b0, b1, b2], [c0, c1, c2], [d0, d1, d2], [e0, e1, e2], [f0, f1, f2],
        [g0, g1, g2], [h0, h1, h2]]) [0, 1, 2, 3, 4, 5, 6, 7] x y z) :
    ∀ r < 8, ∀ k < 8,
      0 < hexJacAt (refine (hexMesh [[a0, a1, a2], [b0, b1, b2], [c0, c1, c2], [d0, d1, d2], [e0, e1, e2],
          [f0, f1, f2], [g0, g1, g2], [h0, h1, h2]]))
        (((refine (hexMesh [[a0, a1, a2], [b0, b1, b2], [c0, c1, c2], [d0, d1, d2], [e0, e1, e2], [f0, f1, f2],
          [g0, g1, g2], [h0, h1, h2]])).idx 3 0).getD r []) (bitR k 0) (bitR k 1) (bitR k 2) :=
  hex_children_orientation a0 a1 a2 b0 b1 b2 c0 c1 c2 d0 d1 d2 e0 e1 e2 f0 f1 f2 g0 g1 g2 h0 h1 h2 hpos

/-! ## orientation codes (specification of the hand-transcribed `CongruencySampler::compare`, any vertex numbers) -/

/-- quadrilateral faces: if the source tuple is the `code`-th of the 8 symmetric arrangements of the target tuple
    `[a,b,c,d]` (arbitrary pairwise distinct vertex numbers), the sampler returns exactly `code`, and the vertex
    congruency map of that code sends every source position to the target position of the same vertex -/
theorem C10.sampler_spec_quadrilateral (a b c d : Nat) (hab : a ≠ b) (hac : a ≠ c) (had : a ≠ d) (hbc : b ≠ c)
    (hbd : b ≠ d) (hcd : c ≠ d) (code : Nat) (hc : code < 8) :
    let src := reorient .hypercube 2 code [a, b, c, d]
    FeatModel.Refine.compare .hypercube 2 (src.getD 0 0) (src.getD 1 0) [a, b, c, d] = (code : Int) ∧
    ∀ j < 4, [a, b, c, d].getD (congLookup .hypercube 2 0 (code : Int) j) 0 = src.getD j 0 := by
  refine ⟨sampler_quad a b c d hab hac had hbc hbd hcd code hc, ?_⟩
  intro j hj
  apply congLookup_reorient
  have : code = 0 ∨ code = 1 ∨ code = 2 ∨ code = 3 ∨ code = 4 ∨ code = 5 ∨ code = 6 ∨ code = 7 := by omega
  rcases this with rfl | rfl | rfl | rfl | rfl | rfl | rfl | rfl <;> simpa [congMap] using hj

/-- triangular faces: same for the 6 arrangements (codes 0,1,2,4,5,6) -/
theorem C10.sampler_spec_triangle (a b c : Nat) (hab : a ≠ b) (hac : a ≠ c) (hbc : b ≠ c) (code : Nat)
    (hc : code ∈ [0, 1, 2, 4, 5, 6]) :
    let src := reorient .simplex 2 code [a, b, c]
    FeatModel.Refine.compare .simplex 2 (src.getD 0 0) (src.getD 1 0) [a, b, c] = (code : Int) ∧
    ∀ j < 3, [a, b, c].getD (congLookup .simplex 2 0 (code : Int) j) 0 = src.getD j 0 := by
  refine ⟨sampler_tria a b c hab hac hbc code hc, ?_⟩
  intro j hj
  apply congLookup_reorient
  simp only [List.mem_cons, List.not_mem_nil, or_false] at hc
  rcases hc with rfl | rfl | rfl | rfl | rfl | rfl <;> simpa [congMap] using hj

/-- edges (both shape families): the two orientations -/
theorem C10.sampler_spec_edge (kind : Kind) (a b : Nat) (hab : a ≠ b) (code : Nat) (hc : code < 2) :
    let src := reorient kind 1 code [a, b]
    FeatModel.Refine.compare kind 1 (src.getD 0 0) (src.getD 1 0) [a, b] = (code : Int) :=
  sampler_edge kind a b hab code hc

/-! ## local refinement lemma (kernel evaluation of the generated tables over orientation codes) -/

/-- 2-D, complete: one quadrilateral whose four edges have ANY of the 2⁴ orientation combinations and any rotation of
    the edge numbering refines to a conforming mesh (all clauses of `consistent`, incl. every interior fine facet
    listed by exactly two children and every boundary one by exactly one) -/
theorem C10.local_refinement_quadrilateral :
    ∀ o < 16, ∀ r < 4, (refine (cell2 .hypercube o r)).consistent = true := local_quad

/-- 2-D, complete: same for one triangle (2³ orientation combinations, 3 rotations) -/
theorem C10.local_refinement_triangle :
    ∀ o < 8, ∀ r < 3, (refine (cell2 .simplex o r)).consistent = true := local_tria

/-- histories: two refinement steps of the same cells are conforming as well -/
theorem C10.local_refinement_2d_twice :
    (∀ o < 16, (refine (refine (cell2 .hypercube o 1))).consistent = true) ∧
    (∀ o < 8, (refine (refine (cell2 .simplex o 1))).consistent = true) := ⟨local_quad_twice, local_tria_twice⟩

/-- PARTIAL 3-D local lemma, hexahedron: the covering family `cell3 .hypercube j`, `j < 8`, in which every face
    occurs with every one of the 8 orientation codes and every edge with both orientations (Latin square, not the
    full product 8⁶·2¹²) refines to a conforming mesh -/
theorem C10.local_refinement_hexahedron_partial :
    ∀ j < 8, (refine (cell3 .hypercube j)).consistent = true := by
  intro j hj
  by_cases h : j < 4
  · simpa using local_hexa_a j h
  · have := local_hexa_b (j - 4) (by omega)
    rwa [Nat.sub_add_cancel (by omega)] at this

/-- PARTIAL 3-D local lemma, tetrahedron: covering family, every face with each of its 6 orientation codes, every
    edge with both orientations -/
theorem C10.local_refinement_tetrahedron_partial :
    ∀ j < 6, (refine (cell3 .simplex j)).consistent = true := by
  intro j hj
  by_cases h : j < 3
  · simpa using local_tetra_a j h
  · have := local_tetra_b (j - 3) (by omega)
    rwa [Nat.sub_add_cancel (by omega)] at this

/-- PARTIAL 3-D local lemma, hexahedron, PAIRWISE covering family (64 cells, orthogonal array over GF(8)): every pair
    of the cell's 6 faces with all 8×8 joint orientation codes, every face code jointly with either orientation of
    every edge, every pair of edges with all four flip combinations (`C10.covering_family_covers_pairs`) refines to
    a conforming mesh.  COVERED by `decide +kernel`: every single sub-entity orientation (8 codes per face, 2 per
    edge) and every joint orientation of any TWO sub-entities of the cell.  NOT covered: joint orientations of three
    or more sub-entities, i.e. the full product 8⁶·2¹² (2³⁰ cells, infeasible by evaluation; it needs the 3-D
    analogue of the semantic lemma `sim_child`, see `Lemmas/C10Lift2D.lean`).  For the clause `facetsOk` no family
    is left out: `C10.facets_preserved_3d_partial` holds for every orientation code and every mesh. -/
theorem C10.local_refinement_hexahedron_pairs_partial :
    ∀ idx < 64, (refine (cell3c .hypercube idx)).consistent = true := by
  intro idx h
  have hm : idx / 4 < 16 := by omega
  have hj : idx % 4 < 4 := by omega
  have e : idx = idx % 4 + 4 * (idx / 4) := by omega
  rw [e]
  match idx / 4, hm with
  | 0, _ => exact cover_hexa_00 _ hj
  | 1, _ => exact cover_hexa_01 _ hj
  | 2, _ => exact cover_hexa_02 _ hj
  | 3, _ => exact cover_hexa_03 _ hj
  | 4, _ => exact cover_hexa_04 _ hj
  | 5, _ => exact cover_hexa_05 _ hj
  | 6, _ => exact cover_hexa_06 _ hj
  | 7, _ => exact cover_hexa_07 _ hj
  | 8, _ => exact cover_hexa_08 _ hj
  | 9, _ => exact cover_hexa_09 _ hj
  | 10, _ => exact cover_hexa_10 _ hj
  | 11, _ => exact cover_hexa_11 _ hj
  | 12, _ => exact cover_hexa_12 _ hj
  | 13, _ => exact cover_hexa_13 _ hj
  | 14, _ => exact cover_hexa_14 _ hj
  | 15, _ => exact cover_hexa_15 _ hj
  | n + 16, hn => exact absurd hn (by omega)

/-- PARTIAL 3-D local lemma, tetrahedron, pairwise covering family (49 cells over GF(7)) -/
theorem C10.local_refinement_tetrahedron_pairs_partial :
    ∀ idx < 49, (refine (cell3c .simplex idx)).consistent = true := by
  intro idx h
  have hm : idx / 7 < 7 := by omega
  have hj : idx % 7 < 7 := by omega
  have e : idx = idx % 7 + 7 * (idx / 7) := by omega
  rw [e]
  match idx / 7, hm with
  | 0, _ => exact cover_tetra_00 _ hj
  | 1, _ => exact cover_tetra_01 _ hj
  | 2, _ => exact cover_tetra_02 _ hj
  | 3, _ => exact cover_tetra_03 _ hj
  | 4, _ => exact cover_tetra_04 _ hj
  | 5, _ => exact cover_tetra_05 _ hj
  | 6, _ => exact cover_tetra_06 _ hj
  | n + 7, hn => exact absurd hn (by omega)

/-- the covering families do cover every pair of sub-entity orientations -/
theorem C10.covering_family_covers_pairs :
    (∀ k < 6, ∀ k' < 6, k ≠ k' → ∀ v < 8, ∀ v' < 8,
      ((List.range 64).any fun i => faceCodeAt .hypercube i k == v && faceCodeAt .hypercube i k' == v') = true) ∧
    (∀ k < 6, ∀ v < 8, ∀ e < 12, ∀ f < 2,
      ((List.range 64).any fun i => faceCodeAt .hypercube i k == v && edgeFlipAt .hypercube i e == f) = true) ∧
    (∀ e < 12, ∀ e' < 12, e ≠ e' → ∀ f < 2, ∀ f' < 2,
      ((List.range 64).any fun i => edgeFlipAt .hypercube i e == f && edgeFlipAt .hypercube i e' == f') = true) ∧
    (∀ k < 4, ∀ k' < 4, k ≠ k' → ∀ v ∈ [0, 1, 2, 4, 5, 6], ∀ v' ∈ [0, 1, 2, 4, 5, 6],
      ((List.range 49).any fun i => faceCodeAt .simplex i k == v && faceCodeAt .simplex i k' == v') = true) ∧
    (∀ k < 4, ∀ v ∈ [0, 1, 2, 4, 5, 6], ∀ e < 6, ∀ f < 2,
      ((List.range 49).any fun i => faceCodeAt .simplex i k == v && edgeFlipAt .simplex i e == f) = true) ∧
    (∀ e < 6, ∀ e' < 6, e ≠ e' → ∀ f < 2, ∀ f' < 2,
      ((List.range 49).any fun i => edgeFlipAt .simplex i e == f && edgeFlipAt .simplex i e' == f') = true) :=
  ⟨cover_hexa_face_pairs, cover_hexa_face_edge, cover_hexa_edge_pairs, cover_tetra_face_pairs,
    cover_tetra_face_edge, cover_tetra_edge_pairs⟩

/-- the hypotheses are satisfiable: the reference cells themselves are conforming meshes -/
theorem C10.reference_cells_conforming :
    (∀ o < 16, ∀ r < 4, (cell2 .hypercube o r).consistent = true) ∧
    (∀ o < 8, ∀ r < 3, (cell2 .simplex o r).consistent = true) ∧
    (∀ j < 4, (cell3 .hypercube (j + 0)).consistent = true) ∧ (∀ j < 4, (cell3 .hypercube (j + 4)).consistent = true) ∧
    (∀ j < 3, (cell3 .simplex (j + 0)).consistent = true) ∧ (∀ j < 3, (cell3 .simplex (j + 3)).consistent = true) :=
  ⟨local_quad_input, local_tria_input, local_hexa_input_a, local_hexa_input_b, local_tetra_input_a,
    local_tetra_input_b⟩

/-! ## mesh parts follow their parent entities -/

/-- child numbering (all mesh sizes): the `j`-th child the index refiner generates for the coarse `s`-entity `t`
    is the fine `c`-entity number `offset c s + t·refCount + j` of the refined mesh -/
theorem C10.child_numbering (M : Mesh) (hd : M.dim ≤ 3) (c f s t j : Nat) (hfc : f < c) (hcs : c ≤ s)
    (hsd : s ≤ M.dim) (ht : t < M.num s) (hj : j < refCount M.kind s c) :
    ((refine M).idx c f)[offset M.kind M.nums c s + t * refCount M.kind s c + j]? = (childRows M s c f t)[j]? := by
  rw [refine_idx M c f (by omega) hfc]
  exact fineIdx_child M (by omega) c f s t j hfc hcs hsd ht hj

/-- **every refined entity of a mesh part / halo without own topology is attached to a child of the parent entity its
    coarse entity was attached to**: each target `x` produced in dimension `c ≥ 1` comes from a part entity attached
    to some parent `s`-entity `t`, and the fine mesh's entity number `x` is one of the rows the index refiner
    generated for exactly that `t` (for every mesh size and every part) -/
theorem C10.part_follows_parent (M : Mesh) (hd : M.dim ≤ 3) (P : Part) (c f x : Nat) (hfc : f < c)
    (hP : ∀ s, ∀ t ∈ P.target s, t < M.num s) (hx : x ∈ simpleTargets M P c) :
    ∃ s t j, c ≤ s ∧ s ≤ M.dim ∧ t ∈ P.target s ∧ j < refCount M.kind s c ∧
      ((refine M).idx c f)[x]? = (childRows M s c f t)[j]? := by
  obtain ⟨s, hcs, hsd, t, ht, j, hj, rfl⟩ := (mem_simpleTargets M P c _).1 hx
  exact ⟨s, t, j, hcs, hsd, ht, hj, C10.child_numbering M hd c f s t j hfc hcs hsd (hP s t ht) hj⟩

/-- the same for the vertices (`c = 0`): a refined part vertex is attached either to the same (unmoved) coarse vertex
    or to the new vertex that is the barycentre of the parent `s`-entity `t` its coarse entity was attached to -/
theorem C10.part_vertex_follows_parent (M : Mesh) (hd : M.dim ≤ 3) (hv : M.verts.length = M.num 0)
    (hne : M.verts.isEmpty = false) (P : Part)
    (x : Nat) (hP : ∀ s, ∀ t ∈ P.target s, t < M.num s) (hx : x ∈ simpleTargets M P 0) :
    (∃ t ∈ P.target 0, x = t ∧ ((refine M).verts)[x]? = M.verts[t]?) ∨
    (∃ s t, 1 ≤ s ∧ s ≤ M.dim ∧ t ∈ P.target s ∧
      ((refine M).verts)[x]? = some (midpoint M (M.tuple s 0 t) (faceCount M.kind s 0))) := by
  have hrv : (refine M).verts = fineVerts M := by simp [refine, hne]
  rw [hrv]
  obtain ⟨s, _, hsd, t, ht, j, hj, rfl⟩ := (mem_simpleTargets M P 0 _).1 hx
  have hts := hP s t ht
  by_cases hs0 : s = 0
  · subst hs0
    left
    have hj0 : j = 0 := by simp [refCount] at hj; omega
    subst hj0
    have h1 : refCount M.kind 0 0 = 1 := by simp [refCount]
    refine ⟨t, ht, ?_, ?_⟩
    · simp [h1, offset_self]
    · simp only [h1, offset_self, Nat.zero_add, Nat.mul_one, Nat.add_zero]
      exact fineVerts_coarse M t (by omega)
  · right
    have hr : refCount M.kind s 0 ≠ 0 := by omega
    have h1 : refCount M.kind s 0 = 1 := by
      rcases refCount_vertex_le_one M.kind s (by omega) with h | h
      · exact absurd h hr
      · exact h
    have hj0 : j = 0 := by omega
    subst hj0
    refine ⟨s, t, by omega, hsd, ht, ?_⟩
    simp only [h1, Nat.mul_one, Nat.add_zero]
    exact fineVerts_child M (by omega) hv s t (by omega) hsd hr hts

/-! ### the mesh-node tree (`RootMeshNode::refine_unique`, `MeshPartNode::refine`) -/

/-- **tree refinement of a part = `StandardRefinery<MeshPart>` of the part, for every dimension signature**: the
    model of `MeshPartNode::refine` returns, for the node's part, exactly `refinePart M part` (no shortcut such as an
    un-refined clone for parts without facets), and for every nested child part exactly `refinePart` against the
    coarse parent part.  The driver executes `refineNode`; the correspondence stream refines mesh parts through the
    real `RootMeshNode` tree (all dimension signatures, nested child parts, attributes, twice). -/
theorem C10.tree_refinement_is_standard_refinery (M : Mesh) (n n' : PartNode) (h : refineNode M n = some n') :
    refinePart M n.part = some n'.part ∧
    ∀ ch' ∈ n'.children, ∃ ch ∈ n.children, refinePart (n.part.asParent M.kind M.dim) ch = some ch' :=
  ⟨refineNode_part M n n' h, refineNode_children M n n' h⟩

/-- `part_follows_parent` lifted to the tree: for a node whose part has no own topology — whatever dimensions carry
    entities — every entity of dimension `c ≥ 1` of the tree-refined part is attached to a row the index refiner
    generated for the parent entity of its coarse entity, and the refined target set has the full child count
    `Σ_s |target s|·refCount s c` (so it is never the un-refined clone when the part has an entity with children) -/
theorem C10.tree_part_follows_parent (M : Mesh) (hd : M.dim ≤ 3) (n n' : PartNode) (h : refineNode M n = some n')
    (ht : n.part.topo = none) (c f : Nat) (hfc : f < c) (hc : c ≤ M.dim)
    (hP : ∀ s, ∀ t ∈ n.part.target s, t < M.num s) :
    (n'.part.target c).length =
      ((List.range' c (M.dim + 1 - c)).map fun s => (n.part.target s).length * refCount M.kind s c).sum ∧
    ∀ x ∈ n'.part.target c, ∃ s t j, c ≤ s ∧ s ≤ M.dim ∧ t ∈ n.part.target s ∧ j < refCount M.kind s c ∧
      ((refine M).idx c f)[x]? = (childRows M s c f t)[j]? := by
  have hp := refinePart_simple M n.part n'.part ht (refineNode_part M n n' h) c hc
  rw [hp]
  exact ⟨simpleTargets_length M n.part c, fun x hx => C10.part_follows_parent M hd n.part c f x hfc hP hx⟩

/-- and all children are covered exactly once per part entity: the refined target set of dimension `c` has
    `Σ_s |target s| · refCount s c` entries -/
theorem C10.part_target_count (M : Mesh) (P : Part) (c : Nat) :
    (simpleTargets M P c).length =
      ((List.range' c (M.dim + 1 - c)).map fun s => (P.target s).length * refCount M.kind s c).sum :=
  simpleTargets_length M P c
