import FeatModel.Model.Poly
import FeatModel.Model.FE
import FeatModel.Model.FEDual
import FeatModel.Lemmas.C15Poly
import FeatModel.Lemmas.C15Mv
import FeatModel.Lemmas.C15Tab
import FeatModel.Lemmas.C15Dual
import FeatModel.Lemmas.C15Dof
import FeatModel.Lemmas.C15Repro
import FeatModel.Lemmas.C15Conform
import FeatModel.Lemmas.C15Chain
import FeatModel.Lemmas.C15Hess
import FeatModel.Lemmas.C15Hermite
import FeatModel.Lemmas.C15Volume
import FeatModel.Lemmas.C15Unmap
import FeatModel.Lemmas.C15ConformMesh
import FeatModel.Lemmas.C15RT
import FeatModel.Lemmas.C15RTChecked
import FeatModel.Lemmas.C15D1
import FeatModel.Lemmas.C15UnmapShapes
import FeatModel.Lemmas.C15AnyCell
/-!
# C15 — finite-element bases are unisolvent, derivative-consistent and conforming: property theorems

All statements are about the model functions executed by `drv_c15` (`FeatModel.Poly.*`, `FeatModel.FE.*`) and the
tables `FeatModel.Gen.Basis*`, which are regenerated from the real FEAT evaluators on every run (T1) and compared
with the real code on random re-oriented meshes (T2).  Only theorems live here; lemmas are in `Lemmas/C15*.lean`.
-/
open FeatModel.Poly FeatModel.FE

/-- The computable evaluation is the evaluation of the denoted Mathlib polynomial — all polynomials, all points. -/
theorem C15.eval_is_mv_eval (x : Nat → Rat) (p : Poly) : eval x p = MvPolynomial.eval x (toMv p) :=
  (eval_toMv x p).symm

/-- The computable partial derivative is the formal partial derivative (`MvPolynomial.pderiv`) — all polynomials. -/
theorem C15.pderiv_is_formal_derivative (j : Nat) (p : Poly) :
    toMv (FeatModel.Poly.pderiv j p) = MvPolynomial.pderiv j (toMv p) := toMv_pderiv j p

/-- Equal normal forms (the decidable test used on the generated tables) imply equal values at every point. -/
theorem C15.equiv_sound (p q : Poly) (h : equiv p q = true) (x : Nat → Rat) : eval x p = eval x q :=
  FeatModel.Poly.equiv_sound h x

/-- T1, kernel-checked on the generated data: every table in `checkedKeys` exists, has the right shape and reproduces
    *every* exact sample (values, gradients, Hessians on a unisolvent grid) of the real FEAT evaluator. -/
theorem C15.tables_match_samples (key : Key) (h : key ∈ checkedKeys) :
    ∃ t, tabOf key.1 key.2.1 key.2.2 = some t ∧ t.shapeOk = true ∧ t.samplesOk = true := by
  have hk := checked_ok h
  cases ht : tabOf key.1 key.2.1 key.2.2 with
  | none => simp [okKey, ht] at hk
  | some t => exact ⟨t, rfl, (okKey_tab hk ht).1, (okKey_tab hk ht).2.1⟩

/-- Gradients are the derivatives of the values, at every evaluation point: for every checked table, every local basis
    function `i` and direction `k`, the gradient polynomial (interpolated from the evaluator's `ref_grad` samples)
    evaluates to the formal partial derivative of the value polynomial (interpolated from `ref_value`). -/
theorem C15.grad_is_derivative (key : Key) (h : key ∈ checkedKeys) (t : BasisTab)
    (ht : tabOf key.1 key.2.1 key.2.2 = some t) (hg : t.hasGrad = true) (i k : Nat) (hi : i < t.nloc) (hk : k < t.nvars)
    (x : Nat → Rat) :
    eval x (t.grad i k) = MvPolynomial.eval x (MvPolynomial.pderiv k (toMv (t.val i))) :=
  grad_eval_mv (okKey_tab (checked_ok h) ht).2.2.1 hg hi hk x

/-- Hessians are the derivatives of the gradients (hence second derivatives of the values), at every point. -/
theorem C15.hess_is_derivative (key : Key) (h : key ∈ checkedKeys) (t : BasisTab)
    (ht : tabOf key.1 key.2.1 key.2.2 = some t) (hg : t.hasGrad = true) (hh : t.hasHess = true) (i a b : Nat)
    (hi : i < t.nloc) (ha : a < t.nvars) (hb : b < t.nvars) (x : Nat → Rat) :
    eval x (t.hes i a b)
      = MvPolynomial.eval x (MvPolynomial.pderiv b (MvPolynomial.pderiv a (toMv (t.val i)))) := by
  have ok := okKey_tab (checked_ok h) ht
  have hq : equiv (t.grad i a) (FeatModel.Poly.pderiv a (t.val i)) = true := by
    have := ok.2.2.1
    simp only [BasisTab.gradOk, hg, Bool.not_true, Bool.false_or, List.all_eq_true, List.mem_range] at this
    exact this i hi a ha
  rw [hessOk_sound ok.2.2.2 hh hi ha hb x, ← eval_toMv, toMv_pderiv, toMv_eq_of_equiv hq, toMv_pderiv]

/-- Unisolvence / duality on the reference cell, for **every** orientation of its edges (1-D, 2-D): interpolating
    (model of `Assembly::Interpolator` + node functionals) the `j`-th local basis function (model of the evaluator,
    including the Lagrange-3 orientation permutation) yields the `j`-th unit vector in the numbering of the model of
    `DofMapping`.  `_partial`: the statement is for the reference cell with arbitrary edge orientation; arbitrary
    (affine / multilinear) cells of arbitrary meshes are covered by the correspondence run (exact reproduction oracle)
    only.  Bernstein-2 is excluded (its node functionals are L2 projections with an irrational Gauss rule). -/
theorem C15.dual_on_reference_cell_partial (key : Key) (h : key ∈ dualKeys2 ++ dualKeys2b) (o : List Nat)
    (ho : o ∈ allOrients (numFaces key.2.1 key.2.2 1 * (if key.2.2 ≥ 2 then 1 else 0))) :
    dualOk key.1 key.2.1 key.2.2 o = true := by
  have hall : (dualKeys2 ++ dualKeys2b).all (fun key => dualAll key.1 key.2.1 key.2.2) = true := by
    simp only [List.all_append, dual2, dual2b, Bool.and_self]
  have := List.all_eq_true.mp hall key h
  exact List.all_eq_true.mp this o ho

/-- Duality in 3-D (tetrahedron: P1, P2, discontinuous P0/P1, Crouzeix–Raviart; hexahedron: Q1, Q2, P0) for the
    canonical orientation. `_partial`: re-oriented 3-D cells and Lagrange-3 on the hexahedron are covered by the
    correspondence run only. -/
theorem C15.dual_on_reference_cell_3d_partial (key : Key) (h : key ∈ dualKeys3) :
    dualOk key.1 key.2.1 key.2.2 [] = true :=
  List.all_eq_true.mp dual3 key h

/-- Reproduction on the reference cell (any orientation with `dualOk`, i.e. all of them by the two theorems above):
    interpolating the linear combination `Σ_j c_j φ_j` of the local basis functions returns exactly the coefficients
    `c` (in the global numbering): every polynomial of the local space is reproduced.  `_partial`: reference cell only,
    see `dual_on_reference_cell_partial`. -/
theorem C15.reproduces_on_reference_cell_partial (f : Fam) (k : Kind) (dim : Nat) (o : List Nat) (tab : BasisTab)
    (ht : tabOf f k dim = some tab) (h : dualOk f k dim o = true) (hpos : 0 < tab.nloc) (c : List Rat) :
    interpolate f (refMesh k dim o) (linComb c (localBasis f (refMesh k dim o) tab))
      = (List.range (numDofs f (refMesh k dim o))).map fun g =>
          dot c ((List.range tab.nloc).map fun j =>
            if g = (localDofs f (refMesh k dim o) 0).getD j 0 then 1 else 0) :=
  reproduces ht h hpos c

/-- Partition of unity: the local basis functions sum to 1 at every point (and their gradients to 0). -/
theorem C15.partition_of_unity (key : Key) (h : key ∈ pouKeys) (t : BasisTab)
    (ht : tabOf key.1 key.2.1 key.2.2 = some t) (x : Nat → Rat) : eval x (FeatModel.Poly.sum t.vals) = 1 := by
  have hk := List.all_eq_true.mp pou key h
  simp only [pouKey, ht, pouOk, Bool.and_eq_true] at hk
  have := FeatModel.Poly.equiv_sound hk.1 x
  rw [this]; exact eval_one x t.nvars

/-- `calc_jac_mat` is the derivative of `map_point`: entry `(a, j)` of the model Jacobian at `x` is the value of the
    formal `j`-th partial derivative of the `a`-th component polynomial of the transformation — every shape, dimension,
    vertex coordinates and point. -/
theorem C15.jac_is_derivative (k : Kind) (d : Nat) (V : List (List Rat)) (x : List Rat) (a j : Nat)
    (ha : a < worldDim V) (hj : j < d) :
    mat (jacMat k d V x) a j = MvPolynomial.eval (pt x) (MvPolynomial.pderiv j (toMv (mapPoly k d V a))) := by
  rw [← toMv_pderiv, eval_toMv]
  simp [mat, jacMat, ha, hj, evalAt]

/-- One global index per node functional: the index of functional `j` of entity `e` of dimension `d` depends only on
    `(d, e, j)` (so both cells sharing the entity see the same index — `localDofs` is built from `entityDof` of the
    entities listed in the cell's index sets), and distinct functionals have distinct indices. -/
theorem C15.dof_one_index (f : Fam) (m : Mesh) (d e j d' e' j' : Nat)
    (he : e < m.n d) (hj : j < dpd f m d) (he' : e' < m.n d') (hj' : j' < dpd f m d') :
    entityDof f m d e j = entityDof f m d' e' j' ↔ (d = d' ∧ e = e' ∧ j = j') := by
  constructor
  · exact entityDof_inj f m he hj he' hj'
  · rintro ⟨rfl, rfl, rfl⟩; rfl

/-- The local-to-global map of a cell lists exactly the `entityDof`s of the entities in the cell's index sets. -/
theorem C15.local_dofs_are_entity_dofs (f : Fam) (m : Mesh) (c : Nat) :
    localDofs f m c = (List.range (m.dim + 1)).flatMap fun d =>
      (if d = m.dim then [c] else m.row m.dim d c).flatMap fun e =>
        (List.range (dpd f m d)).map fun j => entityDof f m d e j := rfl

/-- Every global index is below the number of DOFs. -/
theorem C15.dof_in_range (f : Fam) (m : Mesh) (d e j : Nat) (hd : d ≤ m.dim) (he : e < m.n d)
    (hj : j < dpd f m d) : entityDof f m d e j < numDofs f m := entityDof_lt_numDofs f m hd he hj

/-! ## H¹-conformity: traces on facets (extension round) -/

/-- Trace conformity in 2-D (P1, P2, P3, P2-bubble on the triangle; Q1, Q2, Q3, Bernstein-2 on the quadrilateral), for
    **every** orientation `o` of the edges of the reference cell and every edge `l` in its stored orientation: the
    trace of local basis function `i` (model of the evaluator incl. the Lagrange-3 permutation), as a polynomial in the
    edge's own reference coordinate, is the basis function of the edge's own element (`facetBasis`: the generated 1-D
    table for hypercubes, the canonical edge for simplices) belonging to the same node functional, and the zero
    polynomial if the DOF is not attached to the edge; each functional of the edge occurs exactly once. -/
theorem C15.trace_conformity_2d (key : Fam × Kind) (h : key ∈ traceKeys2 ++ traceKeys2L3) (o : List Nat)
    (ho : o ∈ allOrients (numFaces key.2 2 1)) (l : Nat) (hl : l < numFaces key.2 2 1) :
    traceOk key.1 key.2 2 (refMesh key.2 2 o) ((refMesh key.2 2 o).row 1 0 l) = true := by
  have := traceAll2_of_key h
  simp only [traceAll2, List.all_eq_true, List.mem_range] at this
  exact this o ho l hl

/-- Trace conformity in 3-D (P1, P2 on the tetrahedron; Q1, Q2, Bernstein-2 on the hexahedron) for every face `l`
    stored with **every** symmetry `π` of the face: the trace on the face, in the face's own reference coordinates, is
    the basis function of the face's own 2-D element (generated tables `BasisS2` / `BasisH2`) with the same functional,
    or zero.  Lagrange-3 on the hexahedron is covered by the correspondence run only (`_partial` in that sense). -/
theorem C15.trace_conformity_3d_partial (key : Fam × Kind) (h : key ∈ traceKeys3) (l : Nat)
    (hl : l < numFaces key.2 3 2) (π : List Nat) (hπ : π ∈ shapeSyms key.2 2) :
    traceOk key.1 key.2 3 (refMesh key.2 3 []) (storedRow key.2 3 2 l π) = true := by
  have := traceAll3_of_key h
  simp only [traceAll3, traceFaces3, List.all_eq_true, List.mem_range] at this
  exact this l hl π hπ

/-- What `traceOk` means at every point `s` of the facet: the value (as returned by the model of the evaluator at the
    embedded point) of local basis function `i` is the value of the facet's own basis function, or 0. -/
theorem C15.trace_is_facet_function (f : Fam) (k : Kind) (dim : Nat) (m : Mesh) (r : List Nat) (tab : BasisTab)
    (ht : tabOf f k dim = some tab) (h : traceOk f k dim m r = true) (i : Nat) (hi : i < tab.nloc) (s : List Rat) :
    evalAt (embedPt' k dim (dim - 1) r s) (tab.val ((slotPerm f m 0).getD i i))
      = match facetId f k dim r i with
        | some id => evalAt s ((facetBasis f k dim).getD id [])
        | none => 0 :=
  traceOk_eval ht h hi s

/-- The transformation is conforming, for arbitrary vertex coordinates (affine and multilinear cells): restricted to
    any sub-entity (stored row `r`, any symmetry) through the reference embedding it is the sub-entity's own
    transformation.  Hence two cells sharing a facet map the facet point with intrinsic coordinates `s` to the same
    physical point. -/
theorem C15.trafo_restricts_to_subentity (k : Kind) (dim d l : Nat) (π : List Nat)
    (hdim : dim = 1 ∨ dim = 2 ∨ dim = 3) (hd : 1 ≤ d ∧ d < dim) (hl : l < numFaces k dim d) (hπ : π ∈ shapeSyms k d)
    (V : List (List Rat)) (w : Nat) (hV : uniformV V (numVerts k dim) w) (s : List Rat) :
    mapPoint k dim V (embedPt' k dim d (storedRow k dim d l π) s)
      = mapPoint k d ((storedRow k dim d l π).map fun v => V.getD v []) s :=
  embedding_lemma (shapeTrace_of_sym hdim hd hl hπ) hV (numVerts_pos k d) (numVerts_pos k dim) s

/-- **Two one-sided traces agree.**  Let `A = (mA, rA)` and `B = (mB, rB)` be two cell configurations (orientation of
    the cell's edges, stored row of the shared facet as seen from the cell) passing `traceOk`, with local coefficient
    vectors `uA`, `uB` that come from one global vector: the coefficient of a local DOF attached to the facet is `U id`
    for its facet functional `id` (this is `dof_one_index`: both cells see the same global index for the same
    functional).  Then at every point `s` of the facet the two finite element functions coincide.
    Together with `trafo_restricts_to_subentity` (same physical point from both sides, any cell geometry) this is
    H¹-conformity across the facet.  `_partial`: the cell configurations are reference configurations; that an
    arbitrary mesh cell *is* such a configuration (up to renaming of global indices) is covered by the correspondence run. -/
theorem C15.two_sided_traces_agree_partial (f : Fam) (k : Kind) (dim : Nat) (tab : BasisTab)
    (ht : tabOf f k dim = some tab) (mA mB : Mesh) (rA rB : List Nat)
    (hA : traceOk f k dim mA rA = true) (hB : traceOk f k dim mB rB = true) (uA uB U : Nat → Rat)
    (huA : ∀ i, i < tab.nloc → ∀ id, facetId f k dim rA i = some id → uA i = U id)
    (huB : ∀ i, i < tab.nloc → ∀ id, facetId f k dim rB i = some id → uB i = U id) (s : List Rat) :
    ((List.range tab.nloc).map fun i =>
        uA i * evalAt (embedPt' k dim (dim - 1) rA s) (tab.val ((slotPerm f mA 0).getD i i))).sum
      = ((List.range tab.nloc).map fun i =>
        uB i * evalAt (embedPt' k dim (dim - 1) rB s) (tab.val ((slotPerm f mB 0).getD i i))).sum := by
  rw [one_sided_trace ht hA uA U huA s, one_sided_trace ht hB uB U huB s]

/-! ## duality and reproduction on arbitrary cells (extension round) -/

/-- Duality on **every cell** with the topology/orientation of a checked reference configuration and arbitrary vertex
    coordinates `V` (affine or multilinear, any dimension of the ambient space): the node functionals of the cell are
    point evaluations at the images `T(x̂_g)` of the reference nodes, so the basis function `Φ_j = φ̂_j ∘ T⁻¹`
    (characterised by `Φ_j(T(x)) = φ̂_j(x)`) is interpolated to the `j`-th unit vector. -/
theorem C15.dual_on_every_cell (f : Fam) (k : Kind) (dim : Nat) (o : List Nat) (tab : BasisTab)
    (hc : geomConfig k dim o) (ht : tabOf f k dim = some tab) (h : dualOk f k dim o = true)
    (V : List (List Rat)) (w : Nat) (hV : uniformV V (numVerts k dim) w) (j : Nat) (hj : j < tab.nloc) (Φ : Poly)
    (hΦ : ∀ x, evalAt (mapPoint k dim V x) Φ = evalAt x (tab.val ((slotPerm f (refMesh k dim o) 0).getD j j))) :
    interpolate f (cellMesh k dim o V) Φ
      = (List.range (numDofs f (refMesh k dim o))).map fun g =>
          if g = (localDofs f (refMesh k dim o) 0).getD j 0 then 1 else 0 :=
  dual_cell (geomOk_of_config hc).2 (geomOk_of_config hc).1 hV ht h hj Φ hΦ

/-- Reproduction on **every cell**: a function `p` whose pull-back `p ∘ T` is the combination `Σ c_j φ̂_j` of the
    reference basis (for affine `T`: exactly the functions of the local space `P̂ ∘ T⁻¹`) is interpolated by the model of
    `Assembly::Interpolator` to exactly the coefficients `c`. -/
theorem C15.reproduces_on_every_cell (f : Fam) (k : Kind) (dim : Nat) (o : List Nat) (tab : BasisTab)
    (hc : geomConfig k dim o) (ht : tabOf f k dim = some tab) (h : dualOk f k dim o = true) (hpos : 0 < tab.nloc)
    (V : List (List Rat)) (w : Nat) (hV : uniformV V (numVerts k dim) w) (c : List Rat) (p : Poly)
    (hp : ∀ x, evalAt (mapPoint k dim V x) p = evalAt x (linComb c (localBasis f (refMesh k dim o) tab))) :
    interpolate f (cellMesh k dim o V) p
      = (List.range (numDofs f (refMesh k dim o))).map fun g =>
          dot c ((List.range tab.nloc).map fun j =>
            if g = (localDofs f (refMesh k dim o) 0).getD j 0 then 1 else 0) :=
  reproduces_cell (geomOk_of_config hc).2 (geomOk_of_config hc).1 hV ht h hpos c p hp

/-- Every cell of every 2-D mesh is a checked reference configuration as far as the evaluator is concerned: the
    orientation-dependent part of the model of the evaluator (`slotPerm`, used by the `ev`/`interp` ops) of cell `c` of
    an arbitrary mesh `m` equals that of the reference cell with edge orientation `edgeCodes m c`, and that orientation
    is one of the `allOrients` covered by `trace_conformity_2d` / `dual_on_reference_cell_partial`. -/
theorem C15.local_basis_of_any_cell_2d (f : Fam) (m : Mesh) (c : Nat) (hdim : m.dim = 2) :
    edgeCodes m c ∈ allOrients (numFaces m.kind 2 1) ∧
    slotPerm f m c = slotPerm f (refMesh m.kind 2 (edgeCodes m c)) 0 :=
  slotPerm_eq_ref_2d f m c hdim

/-! ## chain rule (extension round) -/

/-- First-order chain rule of the model of `ParametricEvaluator`, tied to the output of the `ev` op (`evalCell`), for
    every mesh, cell, point with `det J ≠ 0` (affine **and** multilinear cells, pointwise) and every family with
    gradients: if `g` is the gradient returned for local basis function `i` and `J` the returned Jacobian (which is the
    derivative of `map_point`, `C15.jac_is_derivative`), then `(Jᵀ g)_k = ∂φ̂_i/∂x̂_k (x̂)`, i.e. `g = J⁻ᵀ ĝrad φ̂_i` is the
    gradient of `φ̂_i ∘ T⁻¹` at `T(x̂)`. -/
theorem C15.chain_rule_first_order (f : Fam) (m : Mesh) (c : Nat) (x : List Rat) (tab : BasisTab) (ce : CellEval)
    (hd : m.dim = 1 ∨ m.dim = 2 ∨ m.dim = 3) (ht : tabOf f m.kind m.dim = some tab)
    (he : evalCell f m c x = some ce) (hg : tab.hasGrad = true)
    (hdet : det m.dim (jacMat m.kind m.dim (m.entVerts m.dim c) x) ≠ 0)
    (i : Nat) (hi : i < tab.nloc) (k : Nat) (hk : k < m.dim) :
    jacTApply m.dim (jacMat m.kind m.dim (m.entVerts m.dim c) x)
        (ce.phi.getD i { value := 0, grad := [], hess := [] }).grad k
      = evalAt x (tab.grad ((slotPerm f m c).getD i i) k) :=
  chain_rule_ev hd ht he hg hdet hi hk

/-- Second-order chain rule of the model of `ParametricEvaluator`, tied to the output of the `ev` / `evcfg` ops
    (`evalCell`), for every mesh, cell and point with `det J ≠ 0` (affine and multilinear cells, pointwise): with the
    returned Jacobian `J`, Hessian tensor `HT` of the transformation, gradient `g` and Hessian `H` of local basis
    function `i`,  `(Jᵀ H J)[p][q] + Σ_m g[m]·HT[m][p][q] = ∂²φ̂_i/∂x̂_p∂x̂_q (x̂)`,
    i.e. `H = J⁻ᵀ (ĥess φ̂_i − Σ_m g_m · HT_m) J⁻¹` is the Hessian of `φ̂_i ∘ T⁻¹` at `T(x̂)`.  The dependency of `hess` on
    the reference *gradient* and on the Hessian tensor / inverse Jacobian of the transformation is explicit in
    `evalCell_hess` (`physHess`), whatever config mask was requested. -/
theorem C15.hess_chain_rule (f : Fam) (m : Mesh) (c : Nat) (x : List Rat) (tab : BasisTab) (ce : CellEval)
    (hd : m.dim = 1 ∨ m.dim = 2 ∨ m.dim = 3) (ht : tabOf f m.kind m.dim = some tab)
    (he : evalCell f m c x = some ce) (hg : tab.hasGrad = true) (hh : tab.hasHess = true)
    (hdet : det m.dim (jacMat m.kind m.dim (m.entVerts m.dim c) x) ≠ 0)
    (i : Nat) (hi : i < tab.nloc) (p q : Nat) (hp : p < m.dim) (hq : q < m.dim) :
    hessPullback m.dim (jacMat m.kind m.dim (m.entVerts m.dim c) x)
        (ce.phi.getD i { value := 0, grad := [], hess := [] }).hess
        (ce.phi.getD i { value := 0, grad := [], hess := [] }).grad
        (hessTen m.kind m.dim (m.entVerts m.dim c) x) p q
      = evalAt x (tab.hes ((slotPerm f m c).getD i i) p q) :=
  hess_chain_rule_ev hd ht he hg hh hdet hi hp hq

/-- The Hessian the model returns for basis function `i` as an explicit function of *all* its inputs: reference
    Hessian, reference gradient, inverse Jacobian and Hessian tensor of the transformation. -/
theorem C15.hess_depends_on_ref_grad_and_hess_ten (f : Fam) (m : Mesh) (c : Nat) (x : List Rat) (tab : BasisTab)
    (ce : CellEval) (ht : tabOf f m.kind m.dim = some tab) (he : evalCell f m c x = some ce)
    (hh : tab.hasHess = true) (i : Nat) (hi : i < tab.nloc) :
    (ce.phi.getD i { value := 0, grad := [], hess := [] }).hess
      = physHess m.dim (inv m.dim (jacMat m.kind m.dim (m.entVerts m.dim c) x))
          (hessTen m.kind m.dim (m.entVerts m.dim c) x)
          (fun k => ((List.range m.dim).map fun k =>
            evalAt x (tab.grad ((slotPerm f m c).getD i i) k)).getD k 0)
          (fun k l => evalAt x (tab.hes ((slotPerm f m c).getD i i) k l)) :=
  evalCell_hess ht he hh hi

/-! ## tensor-product tables (extension round) -/

/-- **tensor_table_correct**, generic in the 1-D table, the dimension, the index list and the samples: if the 1-D
    table consists of one-variable polynomials and the samples of the real n-D evaluator are the products of the 1-D
    table's evaluations (`fastSamplesOk`, cheap), then the tensor-product table (values, gradients, Hessians as products
    of the 1-D value / derivative polynomials) reproduces all samples. -/
theorem C15.tensor_table_correct (t1 : BasisTab) (n : Nat) (hG hH : Bool) (idx : List (List Nat))
    (samples : List (List Rat × List Nat × List Rat)) (h1 : oneVarTab t1 = true)
    (hf : fastSamplesOk t1 n hG hH idx samples = true) :
    (tensorTab t1 n hG hH idx samples).samplesOk = true :=
  FeatModel.Poly.tensor_table_correct t1 n hG hH idx samples h1 hf

/-- Lagrange-3 on the hexahedron (64 basis functions; values, gradients and Hessians on the 4×4×4 grid) is a checked
    table like all others: samples through `tensor_table_correct`, gradient / Hessian identities by kernel evaluation
    (this replaces the former `tables_match_samples_tensor_partial`). -/
theorem C15.lagrange3_hexahedron_checked : ((Fam.L3, Kind.H, 3) : Key) ∈ checkedKeys := by decide

/-! ## Hermite-3 / Bogner-Fox-Schmit in 1-D on arbitrarily oriented intervals -/

/-- The generated tables of the 1-D Hermite-3 and Bogner-Fox-Schmit evaluators (probed on the reference interval) are
    the classical Hermite cubics `P1, Q1, P2, Q2`, and the evaluator model returns `table × slotScale` with the
    **signed** coefficient `(b - a)/2` for the derivative basis functions — on the interval whose cell lists its
    vertices as `(a, b)`, `a < b` or `a > b`. -/
theorem C15.hermite_evaluator_model (a b t : Rat) :
    FeatModel.Gen.BasisH1.he.vals = hermRefVals ∧ FeatModel.Gen.BasisH1.bf.vals = hermRefVals ∧
    hermCoeff (intervalMesh a b) 0 = (b - a) / 2 ∧
    (evalCellAny Fam.HE (intervalMesh a b) 0 [t]).map (fun ce => ce.phi.map (·.value))
      = some (List.zipWith (· * ·) [1, hermCoeff (intervalMesh a b) 0, 1, hermCoeff (intervalMesh a b) 0]
          (FeatModel.Gen.BasisH1.he.vals.map (evalAt [t]))) :=
  ⟨he_table_closed_form.1, he_table_closed_form.2, hermCoeff_interval a b, evalCellAny_HE_values a b t⟩

/-- The real basis functions `hermitePhys a b` (polynomials in `x`) are exactly what the evaluator model computes:
    at `x = T(t) = (a+b)/2 + (b-a)/2·t` they equal the table functions at `t` times the signed scaling. -/
theorem C15.hermite_basis_is_pullback (a b t : Rat) (hne : a ≠ b) :
    (hermitePhys a b).map (evalAt [(a + b) / 2 + (b - a) / 2 * t])
      = List.zipWith (· * ·) [1, (b - a) / 2, 1, (b - a) / 2] (hermRefVals.map (evalAt [t])) :=
  hermite_pullback a b t hne

/-- **Duality for all `a ≠ b`** (both orientations): the node functionals of Hermite-3 (model of
    `NodeFunctional<…, Hypercube<1>, 0>`: value and derivative at both vertices) applied to `Σ u_j Φ_j` return `u`. -/
theorem C15.hermite_dual (a b : Rat) (hne : a ≠ b) (u : List Rat) :
    interpolateAny Fam.HE (intervalMesh a b) (hermiteFn a b u)
      = [u.getD 0 0, u.getD 1 0, u.getD 2 0, u.getD 3 0] :=
  FeatModel.FE.hermite_dual a b hne u

/-- **Cubics are reproduced** (value and derivative at every point) by interpolation on every interval of either
    orientation. -/
theorem C15.hermite_reproduces_cubics (a b : Rat) (hne : a ≠ b) (c0 c1 c2 c3 x : Rat) :
    evalAt [x] (hermiteFn a b (interpolateAny Fam.HE (intervalMesh a b) (cubic c0 c1 c2 c3)))
      = evalAt [x] (cubic c0 c1 c2 c3) ∧
    evalAt [x] (FeatModel.Poly.pderiv 0 (hermiteFn a b (interpolateAny Fam.HE (intervalMesh a b) (cubic c0 c1 c2 c3))))
      = evalAt [x] (FeatModel.Poly.pderiv 0 (cubic c0 c1 c2 c3)) :=
  hermite_reproduces a b hne c0 c1 c2 c3 x

/-- **C¹-conformity across a shared vertex**: two adjacent intervals in any of the four orientation combinations,
    whose local coefficient vectors carry the same two global DOFs for the shared vertex (`dof_one_index`): value and
    derivative of the global interpolant coincide from both sides. -/
theorem C15.hermite_C1_across_vertex (a1 b1 a2 b2 : Rat) (h1 : a1 ≠ b1) (h2 : a2 ≠ b2) (u w : List Rat) (l1 l2 : Nat)
    (hl1 : l1 < 2) (hl2 : l2 < 2) (hX : intervalVertex a1 b1 l1 = intervalVertex a2 b2 l2)
    (hv : u.getD (2 * l1) 0 = w.getD (2 * l2) 0) (hdv : u.getD (2 * l1 + 1) 0 = w.getD (2 * l2 + 1) 0) :
    evalAt [intervalVertex a1 b1 l1] (hermiteFn a1 b1 u) = evalAt [intervalVertex a1 b1 l1] (hermiteFn a2 b2 w) ∧
    evalAt [intervalVertex a1 b1 l1] (FeatModel.Poly.pderiv 0 (hermiteFn a1 b1 u))
      = evalAt [intervalVertex a1 b1 l1] (FeatModel.Poly.pderiv 0 (hermiteFn a2 b2 w)) :=
  hermite_C1 a1 b1 a2 b2 h1 h2 u w l1 l2 hl1 hl2 hX hv hdv

/-! ## the Jacobian determinant integrates to the cell volume; the inverse mapping -/

/-- **`∫_ref det J = signed volume`**, quadrature-free, as polynomial identities in the vertex coordinates (all `V`):
    triangle and tetrahedron (`det(v_i - v_0)/d!`), interval (`b - a`), and the general **bilinear quadrilateral**
    (shoelace formula of the polygon `v0 v1 v3 v2`).  `detJPoly` is the determinant of the model Jacobian at every
    point (`C15.detJPoly_is_model_det`).  The trilinear hexahedron is covered by the `volq`/`vol` correspondence only. -/
theorem C15.jac_det_integrates_to_signed_volume (V : List (List Rat)) :
    integrateRef Kind.S 2 (detJPoly Kind.S 2 V) = signedVolume Kind.S 2 V ∧
    integrateRef Kind.S 3 (detJPoly Kind.S 3 V) = signedVolume Kind.S 3 V ∧
    integrateRef Kind.H 1 (detJPoly Kind.H 1 V) = signedVolume Kind.H 1 V ∧
    integrateRef Kind.H 2 (detJPoly Kind.H 2 V) = signedVolume Kind.H 2 V :=
  ⟨integral_detJ_S2 V, integral_detJ_S3 V, integral_detJ_H1 V, integral_detJ_H2 V⟩

/-- `detJPoly` evaluated at a reference point is the determinant of the Jacobian returned by the model of the trafo
    evaluator (`ev`, `trcfg`, `vol`, `volq` ops) – every shape, dimension 1–3, all vertex coordinates. -/
theorem C15.detJPoly_is_model_det (k : Kind) (d : Nat) (hd : d = 1 ∨ d = 2 ∨ d = 3) (V : List (List Rat))
    (hV : worldDim V = d) (x : List Rat) : evalAt x (detJPoly k d V) = det d (jacMat k d V x) :=
  detJPoly_eval k d hd V hV x

/-- `Evaluator::volume()` (model `cellVolume`, op `vol`) is the absolute value of the signed volume. -/
theorem C15.volume_is_abs_signed_volume (V : List (List Rat)) :
    (worldDim V = 2 → cellVolume Kind.S 2 V = rabs (signedVolume Kind.S 2 V)) ∧
    (worldDim V = 3 → cellVolume Kind.S 3 V = rabs (signedVolume Kind.S 3 V)) ∧
    (worldDim V = 2 → cellVolume Kind.H 2 V = rabs (signedVolume Kind.H 2 V)) :=
  ⟨cellVolume_S2 V, cellVolume_S3 V, cellVolume_H2 V⟩

/-- The quadrature of the `volq` op (real FEAT rule: barycentre on simplices, tensor Simpson on hypercubes) is exact
    for `det J`, and with `jac_det = |det J|` it returns the signed volume whenever `det J ≥ 0` at the rule's points. -/
theorem C15.volq_quadrature_exact (V : List (List Rat)) :
    volQuadSigned Kind.S 2 V = signedVolume Kind.S 2 V ∧ volQuadSigned Kind.S 3 V = signedVolume Kind.S 3 V ∧
    volQuadSigned Kind.H 1 V = signedVolume Kind.H 1 V ∧ volQuadSigned Kind.H 2 V = signedVolume Kind.H 2 V ∧
    (∀ k d, (d = 1 ∨ d = 2 ∨ d = 3) → worldDim V = d →
      (∀ xw ∈ volRule k d, 0 ≤ det d (jacMat k d V xw.1)) → volQuad k d V = volQuadSigned k d V) :=
  ⟨by rw [quad_exact_S2, integral_detJ_S2], by rw [quad_exact_S3, integral_detJ_S3],
   by rw [quad_exact_H1, integral_detJ_H1], by rw [quad_exact_H2, integral_detJ_H2],
   fun k d hd hV hpos => volQuad_eq_signed k d hd V hV hpos⟩

/-- Model of `InverseMapping::unmap_point_by_newton` (any cell, affine or multilinear): **if the iteration reports
    convergence, the returned reference point is a preimage of the requested point up to the Newton tolerance**.
    `_partial`: convergence itself is proved for affine cells only (triangles, tetrahedra, intervals, parallelograms:
    `C15.unmap_map_affine`, `C15.unmap_map_tetrahedron`, `C15.unmap_map_interval`, `C15.unmap_map_parallelogram`); the model uses the
    rational tolerance `2^-47` and exact arithmetic, FEAT `eps^0.9` in floating point (compared after rounding). -/
theorem C15.unmap_converged_is_preimage_partial (k : Kind) (d : Nat) (V : List (List Rat)) (p r : List Rat)
    (h : unmapNewton k d V p = (true, r)) : defectSq k d V p r < newtonTolSq :=
  newtonLoop_sound k d V p 10 _ r h

/-- **`unmap(map(x)) = x` on affine cells**: for every non-degenerate triangle (either orientation) the model of the
    inverse mapping applied to `T(s, t)` converges and returns exactly `(s, t)` (one exact Newton step) – unless
    `T(s, t)` is within the tolerance of the image of the cell centre, where the iteration stops immediately. -/
theorem C15.unmap_map_affine (V : List (List Rat)) (hV : worldDim V = 2) (s t : Rat)
    (hdet : det 2 (jacMat Kind.S 2 V []) ≠ 0) :
    ∃ r, unmapNewton Kind.S 2 V (mapPoint Kind.S 2 V [s, t]) = (true, r) ∧
      (r = [s, t] ∨ (r = refCentre Kind.S 2 ∧
        defectSq Kind.S 2 V (mapPoint Kind.S 2 V [s, t]) (refCentre Kind.S 2) < newtonTolSq)) :=
  unmap_map_S2 V hV s t hdet

/-! ## H¹-conformity on arbitrary 2-D meshes; duality on all 1-D / 2-D cells -/

/-- **H¹-conformity of Lagrange-1 and Lagrange-2 on every 2-D mesh** (triangles, quadrilaterals): for an arbitrary
    mesh `M` (any vertex coordinates, any local numbering of the two cells, any orientation of the edge; `SeesEdge`
    is the consistency of the index sets: local edge `l` of cell `c` is edge `e`, stored in the order `π`) and any
    global coefficient vector `u`, the finite element function evaluated by the model of the evaluator + DOF mapping
    (`feEval`, op `interp`) from the two cells at the edge point with intrinsic coordinate `s` has one value.  The
    proof shows that the one-sided trace only depends on the edge's own DOFs (`edgeCoef`: one global index per shared
    functional, `dof_one_index`) and the edge's coordinate `s`. -/
theorem C15.h1_conformity_lagrange12_2d (key : Fam × Kind) (hkey : key ∈ conformKeys) (M : Mesh) (hk : M.kind = key.2)
    (hdim : M.dim = 2) (u : List Rat) (e c1 l1 c2 l2 : Nat) (π1 π2 : List Nat)
    (h1 : SeesEdge key.2 M c1 l1 π1 e) (h2 : SeesEdge key.2 M c2 l2 π2 e) (s : List Rat) :
    (feEval key.1 M u c1 (embedPt' key.2 2 1 (storedRow key.2 2 1 l1 π1) s)).map (fun r => r.2.1)
      = (feEval key.1 M u c2 (embedPt' key.2 2 1 (storedRow key.2 2 1 l2 π2) s)).map (fun r => r.2.1) :=
  conformity_mesh_2d key hkey M hk hdim u e c1 l1 c2 l2 π1 π2 h1 h2 s

/-- … and the two reference points used above are mapped by the two cells' transformations to the same physical
    point `T_e(s)` of the edge – for affine and bilinear cells alike. -/
theorem C15.edge_point_same_from_both_cells (k : Kind) (M : Mesh) (hk : M.kind = k) (hdim : M.dim = 2) (w : Nat)
    (hU : ∀ v, (M.vertex v).length = w) (e c l : Nat) (π : List Nat) (h : SeesEdge k M c l π e)
    (hle : (M.row 1 0 e).length = 2) (s : List Rat) :
    mapPoint k 2 (M.entVerts 2 c) (embedPt' k 2 1 (storedRow k 2 1 l π) s) = mapPoint k 1 (M.entVerts 1 e) s :=
  edge_point_mesh k M hk hdim w hU e c l π h hle s

/-- **Duality on all 1-D and 2-D cells** (composition of `dual_on_reference_cell_partial` with the pull-back lemma
    `dual_on_every_cell`): for every family in `dualKeys2 ++ dualKeys2b` – P1, P2, P3, P0, P1-disc, Crouzeix–Raviart,
    P2-bubble on triangles; Q1, Q2, Q3, P0 on intervals / quadrilaterals – every orientation `o` of the cell's edges
    and **arbitrary vertex coordinates `V`** (affine and bilinear cells, any ambient dimension): the node functionals
    of the cell applied to the basis function `Φ_j = φ̂_j ∘ T⁻¹` give the `j`-th unit vector. -/
theorem C15.dual_all_cells_1d2d (key : Key) (h : key ∈ dualKeys2 ++ dualKeys2b) (o : List Nat)
    (ho : o ∈ allOrients (numFaces key.2.1 key.2.2 1 * (if key.2.2 ≥ 2 then 1 else 0))) (tab : BasisTab)
    (ht : tabOf key.1 key.2.1 key.2.2 = some tab) (V : List (List Rat)) (w : Nat)
    (hV : uniformV V (numVerts key.2.1 key.2.2) w) (j : Nat) (hj : j < tab.nloc) (Φ : Poly)
    (hΦ : ∀ x, evalAt (mapPoint key.2.1 key.2.2 V x) Φ
      = evalAt x (tab.val ((slotPerm key.1 (refMesh key.2.1 key.2.2 o) 0).getD j j))) :
    interpolate key.1 (cellMesh key.2.1 key.2.2 o V) Φ
      = (List.range (numDofs key.1 (refMesh key.2.1 key.2.2 o))).map fun g =>
          if g = (localDofs key.1 (refMesh key.2.1 key.2.2 o) 0).getD j 0 then 1 else 0 := by
  have hcase : ∀ key ∈ dualKeys2 ++ dualKeys2b, key.2.2 = 2 ∨ (key.2.1 = Kind.H ∧ key.2.2 = 1) := by decide
  have hd := C15.dual_on_reference_cell_partial key h o ho
  obtain ⟨f, k, dim⟩ := key
  simp only at ho ht hV hΦ hd ⊢
  have hc : geomConfig k dim o := by
    rcases hcase _ h with h2 | ⟨hk, h1⟩
    · simp only at h2
      subst h2
      exact Or.inl ⟨rfl, by simpa using ho⟩
    · simp only at hk h1
      subst hk; subst h1
      refine Or.inr (Or.inl ⟨rfl, rfl, ?_⟩)
      simpa [allOrients] using ho
  exact C15.dual_on_every_cell f k dim o tab hc ht hd V w hV j hj Φ hΦ

/-! ## Rannacher–Turek (facet integral means) on arbitrary quadrilaterals / hexahedra -/

/-- **Duality of the facet-weighted mean with the evaluator's basis on every cell.**  For the model of the
    non-parametric Rannacher–Turek evaluator (`rtPrepare`/`rtValue`, ops `ev`, `interp`: nodal matrix of weighted
    facet means of the monomials in the linearised coordinates, coefficient matrix = its inverse) and the model of the
    node functional (`rtFunctional`: `Σ w_i·jac_det_i·f(x_i) / Σ w_i·jac_det_i` over the facet's Gauss points) with the
    same square root and Gauss coordinate: `N_l(φ_j) = (C·A)[j][l]` on **every** quadrilateral / hexahedron (any vertex
    coordinates: trapezoid and twisted faces included), hence `δ_jl` whenever the coefficient matrix is the inverse of the
    nodal matrix.  (FEAT's two Gauss coordinates differ in the 13th digit at `Q` – `Math::sqrt(1/3)` vs. the constant of
    `gauss-legendre:2` – so the correspondence run sees `δ` up to 1e-12.) -/
theorem C15.rt_facet_mean_dual (sq : Rat → Rat) (g : Rat) (m : Mesh) (c : Nat) (rc : RTCell)
    (h : rtPrepare sq g m c = some rc) (j l : Nat) (hj : j < rtN m.dim) (hl : l < rtN m.dim)
    (hrow : (m.row m.dim (m.dim - 1) c).length = rtN m.dim) :
    rtFunctional sq g m ((m.row m.dim (m.dim - 1) c).getD l 0) (rtValue rc j)
        = mat (matMul (rtN m.dim) rc.coeff rc.nodal) j l ∧
    (matMul (rtN m.dim) rc.coeff rc.nodal = identity (rtN m.dim) →
      rtFunctional sq g m ((m.row m.dim (m.dim - 1) c).getD l 0) (rtValue rc j) = if j = l then 1 else 0) :=
  ⟨rt_functional_is_product sq g m c rc h j l hj hl hrow, fun hinv => rt_dual sq g m c rc h hinv j l hj hl hrow⟩

/-- **The plain reference-facet mean is not dual** (witness: the unit cube with vertex 7 moved to (3/2, 5/4, 4/3), kernel
    evaluation with the square root and Gauss coordinate FEAT uses at `Q`): the coefficient matrix is the inverse of
    the nodal matrix there (so the weighted functional is dual by `rt_facet_mean_dual`), but the matrix `N'_l(φ_j)` of
    the unweighted means `Σ w_i f(x_i) / 2^(d-1)` is not the identity. -/
theorem C15.rt_unweighted_mean_not_dual :
    rtInverseOk FeatModel.Proto.qsqrt gammaEv cubeMoved7 0 = true ∧
    (rtDualMatrix (rtFunctionalUnweighted FeatModel.Proto.qsqrt gammaEv) FeatModel.Proto.qsqrt gammaEv cubeMoved7 0
      != some (identity 6)) = true :=
  ⟨witness_inverse, witness_unweighted⟩


/-! ## Final round: inverse mapping on all affine cells, discontinuous P1 on hypercubes, Rannacher–Turek without hypothesis -/

/-- **One Newton step of the inverse mapping is exact wherever the cell is affine** (any shape, dimension 1–3): if
    `T(x) - T(s) = J(x)(x - s)` (`AffineAt`) and `det J(x) ≠ 0`, the step of the model of `unmap_point_by_newton`
    from `x` for the target `T(s)` returns exactly `s`. -/
theorem C15.newton_step_exact_on_affine (k : Kind) (d : Nat) (hd : d = 1 ∨ d = 2 ∨ d = 3) (V : List (List Rat))
    (hV : worldDim V = d) (s x : List Rat) (hs : s.length = d) (hdet : det d (jacMat k d V x) ≠ 0)
    (haff : AffineAt k d V x s) : newtonStep k d V (mapPoint k d V s) x = s :=
  newton_step_exact k d hd V hV s x hs hdet haff

/-- **`unmap(map(x)) = x` on every non-degenerate tetrahedron** (either orientation): the model of the inverse mapping
    applied to `T(s)` converges and returns exactly `s` – unless `T(s)` is within the tolerance of the image of the cell
    centre, where the iteration stops immediately. -/
theorem C15.unmap_map_tetrahedron (V : List (List Rat)) (hV : worldDim V = 3) (s0 s1 s2 : Rat)
    (hdet : det 3 (jacMat Kind.S 3 V (refCentre Kind.S 3)) ≠ 0) :
    ∃ r, unmapNewton Kind.S 3 V (mapPoint Kind.S 3 V [s0, s1, s2]) = (true, r) ∧
      (r = [s0, s1, s2] ∨ (r = refCentre Kind.S 3 ∧
        defectSq Kind.S 3 V (mapPoint Kind.S 3 V [s0, s1, s2]) (refCentre Kind.S 3) < newtonTolSq)) :=
  unmap_map_S3 V hV s0 s1 s2 hdet

/-- **`unmap(map(x)) = x` on every interval** `[a, b]`, `a ≠ b` (either orientation). -/
theorem C15.unmap_map_interval (V : List (List Rat)) (hV : worldDim V = 1) (s0 : Rat)
    (hdet : det 1 (jacMat Kind.H 1 V (refCentre Kind.H 1)) ≠ 0) :
    ∃ r, unmapNewton Kind.H 1 V (mapPoint Kind.H 1 V [s0]) = (true, r) ∧
      (r = [s0] ∨ (r = refCentre Kind.H 1 ∧
        defectSq Kind.H 1 V (mapPoint Kind.H 1 V [s0]) (refCentre Kind.H 1) < newtonTolSq)) :=
  unmap_map_H1 V hV s0 hdet

/-- **`unmap(map(x)) = x` on every non-degenerate parallelogram** (`v0 - v1 - v2 + v3 = 0`, either orientation). -/
theorem C15.unmap_map_parallelogram (V : List (List Rat)) (hV : worldDim V = 2) (s0 s1 : Rat)
    (hpar : ∀ a, a < 2 → (V.getD 0 []).getD a 0 - (V.getD 1 []).getD a 0 - (V.getD 2 []).getD a 0
      + (V.getD 3 []).getD a 0 = 0)
    (hdet : det 2 (jacMat Kind.H 2 V (refCentre Kind.H 2)) ≠ 0) :
    ∃ r, unmapNewton Kind.H 2 V (mapPoint Kind.H 2 V [s0, s1]) = (true, r) ∧
      (r = [s0, s1] ∨ (r = refCentre Kind.H 2 ∧
        defectSq Kind.H 2 V (mapPoint Kind.H 2 V [s0, s1]) (refCentre Kind.H 2) < newtonTolSq)) :=
  unmap_map_H2_parallelogram V hV s0 s1 hpar hdet

/-- **Duality of discontinuous P1 on every quadrilateral / hexahedron** (any vertex coordinates with a regular Jacobian
    at the cell centre; general multilinear cells included): the model of the node functionals (`d1Functional`, executed
    by op `interp`: value at the image of the centre, half differences between the images of opposite facet centres)
    applied to the model of the evaluator's basis (`d1Value`, ops `ev`/`evpts`/`evcfg`/`interp`: `1, pt_1, …, pt_d` in
    the coordinates of the linearised cell) is the identity matrix. -/
theorem C15.d1_hypercube_dual (d : Nat) (hd : d = 2 ∨ d = 3) (V : List (List Rat)) (hV : worldDim V = d)
    (hdet : det d (jacMat Kind.H d V (List.replicate d 0)) ≠ 0) (j l : Nat) (hj : j < d + 1) (hl : l < d + 1) :
    d1Functional d V l (d1Value d V j) = if j = l then 1 else 0 :=
  d1_dual d hd V hV hdet j l hj hl

/-- **Rannacher–Turek duality without an invertibility hypothesis**: `rtPrepareChecked` is what the driver executes for
    every Rannacher–Turek case (`npEval`); it returns a cell only if the facet row is complete and the computed
    coefficient matrix times the nodal matrix is the identity (exact rational test, otherwise the driver prints `ABORT`,
    which the correspondence run reports as a disagreement).  So for **every cell on which the driver produced an
    evaluation**, the facet-weighted means are dual to the basis. -/
theorem C15.rt_facet_mean_dual_checked (sq : Rat → Rat) (g : Rat) (m : Mesh) (c : Nat) (rc : RTCell)
    (h : rtPrepareChecked sq g m c = some rc) (j l : Nat) (hj : j < rtN m.dim) (hl : l < rtN m.dim) :
    rtFunctional sq g m ((m.row m.dim (m.dim - 1) c).getD l 0) (rtValue rc j) = if j = l then 1 else 0 :=
  rt_dual_checked sq g m c rc h j l hj hl

/-- non-vacuity: the check passes on the witness cell (so `rtPrepareChecked` returns a cell there) -/
example : (rtPrepareChecked FeatModel.Proto.qsqrt gammaEv cubeMoved7 0).isSome = true := by
  have h := witness_inverse
  unfold rtInverseOk at h
  unfold rtPrepareChecked
  cases hp : rtPrepare FeatModel.Proto.qsqrt gammaEv cubeMoved7 0 with
  | none => simp [hp] at h
  | some rc =>
    simp only [hp] at h
    have hlen : ((cubeMoved7.row cubeMoved7.dim (cubeMoved7.dim - 1) 0).length == rtN cubeMoved7.dim) = true := by
      decide +kernel
    have h' := eq_of_beq h
    simp [hlen, h']

/-! Non-vacuity of the hypotheses used above. -/
example : ((Fam.L3, Kind.H, 2) : Key) ∈ checkedKeys := by decide
example : ((Fam.L3, Kind.S, 2) : Key) ∈ dualKeys2 ++ dualKeys2b := by decide
example : [0, 1, 1, 0] ∈ allOrients (numFaces Kind.H 2 1 * (if (2 : Nat) ≥ 2 then 1 else 0)) := by decide
example : ∃ t, tabOf Fam.L3 Kind.H 2 = some t ∧ t.hasHess = true ∧ 0 < t.nloc := ⟨_, rfl, by decide, by decide⟩
example : geomConfig Kind.H 2 [1, 0, 0, 1] := Or.inl ⟨rfl, by decide⟩
example : uniformV [[0, 0, 1], [2, 1, 0], [1, 3, 5]] (numVerts Kind.S 2) 3 := by
  intro i hi
  have : i = 0 ∨ i = 1 ∨ i = 2 := by simp [numVerts] at hi; omega
  rcases this with rfl | rfl | rfl <;> rfl
example : ((Fam.L3, Kind.H) : Fam × Kind) ∈ traceKeys2 ++ traceKeys2L3 := by decide
example : intervalVertex 3 1 0 = intervalVertex 1 (7 / 2) 0 + 2 := by norm_num [intervalVertex]
