import FeatModel.Model.Poly
import FeatModel.Model.FE
import FeatModel.Model.FEDual
import FeatModel.Lemmas.C15Poly
import FeatModel.Lemmas.C15Mv
import FeatModel.Lemmas.C15Tab
import FeatModel.Lemmas.C15Dual
import FeatModel.Lemmas.C15Dof
import FeatModel.Lemmas.C15Repro
/-!
# C15 — finite-element bases are unisolvent, derivative-consistent and conforming: property theorems

All statements are about the model functions executed by `drv_c15` (`FeatModel.Poly.*`, `FeatModel.FE.*`) and the
tables `FeatModel.Gen.Basis*`, which are regenerated from the real FEAT evaluators on every run (T1) and compared
with the real code on random re-oriented meshes (T2).  Only theorems live here; lemmas are in `Lemmas/C15*.lean`.
-/
open FeatModel.Poly FeatModel.FE

/-- The computable evaluation is the evaluation of the denoted Mathlib polynomial — all polynomials, all points. -/
theorem C15.eval_is_mv_eval (x : Nat → Rat) (p : Poly) : eval x p = MvPolynomial.eval x (toMv p) :=
  (eval_toMv x p).symm

/-- The computable partial derivative is the formal partial derivative (`MvPolynomial.pderiv`) — all polynomials. -/
theorem C15.pderiv_is_formal_derivative (j : Nat) (p : Poly) :
    toMv (FeatModel.Poly.pderiv j p) = MvPolynomial.pderiv j (toMv p) := toMv_pderiv j p

/-- Equal normal forms (the decidable test used on the generated tables) imply equal values at every point. -/
theorem C15.equiv_sound (p q : Poly) (h : equiv p q = true) (x : Nat → Rat) : eval x p = eval x q :=
  FeatModel.Poly.equiv_sound h x

/-- T1, kernel-checked on the generated data: every table in `checkedKeys` exists, has the right shape and reproduces
    *every* exact sample (values, gradients, Hessians on a unisolvent grid) of the real FEAT evaluator. -/
theorem C15.tables_match_samples (key : Key) (h : key ∈ checkedKeys) :
    ∃ t, tabOf key.1 key.2.1 key.2.2 = some t ∧ t.shapeOk = true ∧ t.samplesOk = true := by
  have hk := checked_ok h
  cases ht : tabOf key.1 key.2.1 key.2.2 with
  | none => simp [okKey, ht] at hk
  | some t => exact ⟨t, rfl, (okKey_tab hk ht).1, (okKey_tab hk ht).2.1⟩

/-- Gradients are the derivatives of the values, at every evaluation point: for every checked table, every local basis
    function `i` and direction `k`, the gradient polynomial (interpolated from the evaluator's `ref_grad` samples)
    evaluates to the formal partial derivative of the value polynomial (interpolated from `ref_value`). -/
theorem C15.grad_is_derivative (key : Key) (h : key ∈ checkedKeys) (t : BasisTab)
    (ht : tabOf key.1 key.2.1 key.2.2 = some t) (hg : t.hasGrad = true) (i k : Nat) (hi : i < t.nloc) (hk : k < t.nvars)
    (x : Nat → Rat) :
    eval x (t.grad i k) = MvPolynomial.eval x (MvPolynomial.pderiv k (toMv (t.val i))) :=
  grad_eval_mv (okKey_tab (checked_ok h) ht).2.2.1 hg hi hk x

/-- Hessians are the derivatives of the gradients (hence second derivatives of the values), at every point. -/
theorem C15.hess_is_derivative (key : Key) (h : key ∈ checkedKeys) (t : BasisTab)
    (ht : tabOf key.1 key.2.1 key.2.2 = some t) (hg : t.hasGrad = true) (hh : t.hasHess = true) (i a b : Nat)
    (hi : i < t.nloc) (ha : a < t.nvars) (hb : b < t.nvars) (x : Nat → Rat) :
    eval x (t.hes i a b)
      = MvPolynomial.eval x (MvPolynomial.pderiv b (MvPolynomial.pderiv a (toMv (t.val i)))) := by
  have ok := okKey_tab (checked_ok h) ht
  have hq : equiv (t.grad i a) (FeatModel.Poly.pderiv a (t.val i)) = true := by
    have := ok.2.2.1
    simp only [BasisTab.gradOk, hg, Bool.not_true, Bool.false_or, List.all_eq_true, List.mem_range] at this
    exact this i hi a ha
  rw [hessOk_sound ok.2.2.2 hh hi ha hb x, ← eval_toMv, toMv_pderiv, toMv_eq_of_equiv hq, toMv_pderiv]

/-- Unisolvence / duality on the reference cell, for **every** orientation of its edges (1-D, 2-D): interpolating
    (model of `Assembly::Interpolator` + node functionals) the `j`-th local basis function (model of the evaluator,
    including the Lagrange-3 orientation permutation) yields the `j`-th unit vector in the numbering of the model of
    `DofMapping`.  `_partial`: the statement is for the reference cell with arbitrary edge orientation; arbitrary
    (affine / multilinear) cells of arbitrary meshes are covered by the correspondence run (exact reproduction oracle)
    only.  Bernstein-2 is excluded (its node functionals are L2 projections with an irrational Gauss rule). -/
theorem C15.dual_on_reference_cell_partial (key : Key) (h : key ∈ dualKeys2 ++ dualKeys2b) (o : List Nat)
    (ho : o ∈ allOrients (numFaces key.2.1 key.2.2 1 * (if key.2.2 ≥ 2 then 1 else 0))) :
    dualOk key.1 key.2.1 key.2.2 o = true := by
  have hall : (dualKeys2 ++ dualKeys2b).all (fun key => dualAll key.1 key.2.1 key.2.2) = true := by
    simp only [List.all_append, dual2, dual2b, Bool.and_self]
  have := List.all_eq_true.mp hall key h
  exact List.all_eq_true.mp this o ho

/-- Duality in 3-D (tetrahedron: P1, P2, discontinuous P0/P1, Crouzeix–Raviart; hexahedron: Q1, Q2, P0) for the
    canonical orientation. `_partial`: re-oriented 3-D cells and Lagrange-3 on the hexahedron are covered by the
    correspondence run only. -/
theorem C15.dual_on_reference_cell_3d_partial (key : Key) (h : key ∈ dualKeys3) :
    dualOk key.1 key.2.1 key.2.2 [] = true :=
  List.all_eq_true.mp dual3 key h

/-- Reproduction on the reference cell (any orientation with `dualOk`, i.e. all of them by the two theorems above):
    interpolating the linear combination `Σ_j c_j φ_j` of the local basis functions returns exactly the coefficients
    `c` (in the global numbering): every polynomial of the local space is reproduced.  `_partial`: reference cell only,
    see `dual_on_reference_cell_partial`. -/
theorem C15.reproduces_on_reference_cell_partial (f : Fam) (k : Kind) (dim : Nat) (o : List Nat) (tab : BasisTab)
    (ht : tabOf f k dim = some tab) (h : dualOk f k dim o = true) (hpos : 0 < tab.nloc) (c : List Rat) :
    interpolate f (refMesh k dim o) (linComb c (localBasis f (refMesh k dim o) tab))
      = (List.range (numDofs f (refMesh k dim o))).map fun g =>
          dot c ((List.range tab.nloc).map fun j =>
            if g = (localDofs f (refMesh k dim o) 0).getD j 0 then 1 else 0) :=
  reproduces ht h hpos c

/-- Partition of unity: the local basis functions sum to 1 at every point (and their gradients to 0). -/
theorem C15.partition_of_unity (key : Key) (h : key ∈ pouKeys) (t : BasisTab)
    (ht : tabOf key.1 key.2.1 key.2.2 = some t) (x : Nat → Rat) : eval x (FeatModel.Poly.sum t.vals) = 1 := by
  have hk := List.all_eq_true.mp pou key h
  simp only [pouKey, ht, pouOk, Bool.and_eq_true] at hk
  have := FeatModel.Poly.equiv_sound hk.1 x
  rw [this]; exact eval_one x t.nvars

/-- `calc_jac_mat` is the derivative of `map_point`: entry `(a, j)` of the model Jacobian at `x` is the value of the
    formal `j`-th partial derivative of the `a`-th component polynomial of the transformation — every shape, dimension,
    vertex coordinates and point. -/
theorem C15.jac_is_derivative (k : Kind) (d : Nat) (V : List (List Rat)) (x : List Rat) (a j : Nat)
    (ha : a < worldDim V) (hj : j < d) :
    mat (jacMat k d V x) a j = MvPolynomial.eval (pt x) (MvPolynomial.pderiv j (toMv (mapPoly k d V a))) := by
  rw [← toMv_pderiv, eval_toMv]
  simp [mat, jacMat, ha, hj, evalAt]

/-- One global index per node functional: the index of functional `j` of entity `e` of dimension `d` depends only on
    `(d, e, j)` (so both cells sharing the entity see the same index — `localDofs` is built from `entityDof` of the
    entities listed in the cell's index sets), and distinct functionals have distinct indices. -/
theorem C15.dof_one_index (f : Fam) (m : Mesh) (d e j d' e' j' : Nat)
    (he : e < m.n d) (hj : j < dpd f m d) (he' : e' < m.n d') (hj' : j' < dpd f m d') :
    entityDof f m d e j = entityDof f m d' e' j' ↔ (d = d' ∧ e = e' ∧ j = j') := by
  constructor
  · exact entityDof_inj f m he hj he' hj'
  · rintro ⟨rfl, rfl, rfl⟩; rfl

/-- The local-to-global map of a cell lists exactly the `entityDof`s of the entities in the cell's index sets. -/
theorem C15.local_dofs_are_entity_dofs (f : Fam) (m : Mesh) (c : Nat) :
    localDofs f m c = (List.range (m.dim + 1)).flatMap fun d =>
      (if d = m.dim then [c] else m.row m.dim d c).flatMap fun e =>
        (List.range (dpd f m d)).map fun j => entityDof f m d e j := rfl

/-- Every global index is below the number of DOFs. -/
theorem C15.dof_in_range (f : Fam) (m : Mesh) (d e j : Nat) (hd : d ≤ m.dim) (he : e < m.n d)
    (hj : j < dpd f m d) : entityDof f m d e j < numDofs f m := entityDof_lt_numDofs f m hd he hj

/-! Non-vacuity of the hypotheses used above. -/
example : ((Fam.L3, Kind.H, 2) : Key) ∈ checkedKeys := by decide
example : ((Fam.L3, Kind.S, 2) : Key) ∈ dualKeys2 ++ dualKeys2b := by decide
example : [0, 1, 1, 0] ∈ allOrients (numFaces Kind.H 2 1 * (if (2 : Nat) ≥ 2 then 1 else 0)) := by decide
example : ∃ t, tabOf Fam.L3 Kind.H 2 = some t ∧ t.hasHess = true ∧ 0 < t.nloc := ⟨_, rfl, by decide, by decide⟩
